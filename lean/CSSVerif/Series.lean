import CSSVerif.Terms
/-! C20: truncated multivariate power series with integer coefficients, expressions over class
functions, and the rational-closed-form check. A monomial is an exponent vector over the global
variable list (index 0 is `x`); a series is a `Terms` value (key = monomial). -/

abbrev Mono := List Nat
abbrev Ser := Terms

def monoAdd (a b : Mono) : Mono :=
  let n := max a.length b.length
  (List.range n).map (fun i => a.getD i 0 + b.getD i 0)
def monoScale (k : Nat) (a : Mono) : Mono := a.map (· * k)
def xdeg (m : Mono) : Nat := m.getD 0 0

def Ser.trunc (N : Nat) (s : Ser) : Ser := s.filter (fun e => xdeg e.1 ≤ N)
def Ser.add (a b : Ser) : Ser := b.foldl (fun acc e => acc.addAt e.1 e.2) a
def Ser.neg (a : Ser) : Ser := a.map (fun e => (e.1, -e.2))
/-- product, truncated at x-degree `N` (multiplication is convolution) -/
def Ser.mul (N : Nat) (a b : Ser) : Ser :=
  a.foldl (fun acc ea => b.foldl (fun acc eb =>
    let m := monoAdd ea.1 eb.1
    if xdeg m ≤ N then acc.addAt m (ea.2 * eb.2) else acc) acc) []
def Ser.pow (N : Nat) (a : Ser) : Nat → Ser
  | 0 => [([], 1)]
  | k+1 => Ser.mul N (Ser.pow N a k) a

/-- pad / normalise monomial keys to `nv` variables so that equal monomials are equal lists -/
def padMono (nv : Nat) (m : Mono) : Mono := (List.range nv).map (fun i => m.getD i 0)
def Ser.pad (nv : Nat) (s : Ser) : Ser := s.foldl (fun acc e => acc.addAt (padMono nv e.1) e.2) []

inductive Expr where
  | const (c : Int)
  | var (i : Nat)
  | add (a b : Expr)
  | mul (a b : Expr)
  | pow (a : Expr) (k : Nat)
  /-- `F_cls(x, a₁, …, a_k)` with every argument a monomial in the global variables -/
  | app (cls : Nat) (args : List Mono)

/-- the true series of a class with its statistic variables replaced by the monomials `args`:
a term `count · x^n · Π v_i^{p_i}` becomes `count · x^n · Π args_i^{p_i}` (substitution is re-keying) -/
def appSeries (tab : Nat → Nat → Terms) (N : Nat) (cls : Nat) (args : List Mono) : Ser :=
  (List.range (N + 1)).foldl (fun acc n =>
    (tab cls n).foldl (fun acc e =>
      let m := (e.1.zip args).foldl (fun m pa => monoAdd m (monoScale pa.1 pa.2)) [n]
      if xdeg m ≤ N then acc.addAt m e.2 else acc) acc) []

def evalExpr (tab : Nat → Nat → Terms) (nv N : Nat) : Expr → Ser
  | .const c => if c == 0 then [] else [(padMono nv [], c)]
  | .var i => [(padMono nv ((List.replicate i 0) ++ [1]), 1)]
  | .add a b => Ser.add (evalExpr tab nv N a) (evalExpr tab nv N b)
  | .mul a b => Ser.pad nv (Ser.mul N (evalExpr tab nv N a) (evalExpr tab nv N b))
  | .pow a k => Ser.pad nv (Ser.pow N (evalExpr tab nv N a) k)
  | .app cls args => Ser.pad nv (appSeries tab N cls args)

/-- the coefficients of `lhs - rhs` that are non-zero up to x-degree `N` -/
def residual (tab : Nat → Nat → Terms) (nv N : Nat) (lhs rhs : Expr) : Ser :=
  (Ser.add (evalExpr tab nv N lhs) (Ser.neg (evalExpr tab nv N rhs))).norm.filter (fun e => xdeg e.1 ≤ N)

/-! ### closed forms: a rational generating function `P/Q` against a list of counts -/

def convAt (q c : List Int) (n : Nat) : Int :=
  ((List.range (n + 1)).map (fun i => q.getD i 0 * c.getD (n - i) 0)).sum

/-- `Q · C ≡ P (mod x^{M+1})` -/
def checkRational (p q c : List Int) (M : Nat) : Bool :=
  (List.range (M + 1)).all (fun n => convAt q c n == p.getD n 0)

theorem checkRational_spec (p q c : List Int) (M : Nat) (h : checkRational p q c M = true) :
    ∀ n, n ≤ M → convAt q c n = p.getD n 0 := by
  intro n hn
  have := List.all_eq_true.1 h n (List.mem_range.2 (by omega))
  simpa using this

theorem sum_map_range_eq (n : Nat) (f g : Nat → Int) (h : ∀ i, i ≤ n → f i = g i) :
    ((List.range (n + 1)).map f).sum = ((List.range (n + 1)).map g).sum := by
  congr 1
  apply List.map_congr_left
  intro i hi
  exact h i (by have := List.mem_range.1 hi; omega)

theorem convAt_split (q c : List Int) (n : Nat) :
    convAt q c n = q.getD 0 0 * c.getD n 0 + ((List.range n).map (fun i => q.getD (i + 1) 0 * c.getD (n - (i + 1)) 0)).sum := by
  unfold convAt
  rw [List.range_succ_eq_map]
  simp [List.map_map, Function.comp_def]

/-- **uniqueness of the expansion.** If `q₀ ≠ 0` and two coefficient lists both satisfy
`Q · C ≡ P (mod x^{M+1})`, they agree up to `M`: the counts that pass `checkRational` are *the* Taylor
coefficients of `P/Q`, at every order up to `M`, not only those used to select the closed form. -/
theorem rational_unique (p q c d : List Int) (M : Nat) (hq : q.getD 0 0 ≠ 0)
    (hc : ∀ n, n ≤ M → convAt q c n = p.getD n 0) (hd : ∀ n, n ≤ M → convAt q d n = p.getD n 0) :
    ∀ n, n ≤ M → c.getD n 0 = d.getD n 0 := by
  intro n
  induction n using Nat.strongRecOn with
  | _ n ih =>
    intro hn
    have e1 := hc n hn
    have e2 := hd n hn
    rw [convAt_split] at e1 e2
    have hs : ((List.range n).map (fun i => q.getD (i + 1) 0 * c.getD (n - (i + 1)) 0)).sum =
              ((List.range n).map (fun i => q.getD (i + 1) 0 * d.getD (n - (i + 1)) 0)).sum := by
      congr 1
      apply List.map_congr_left
      intro i hi
      have hi' := List.mem_range.1 hi
      rw [ih (n - (i + 1)) (by omega) (by omega)]
    have : q.getD 0 0 * c.getD n 0 = q.getD 0 0 * d.getD n 0 := by omega
    exact Int.eq_of_mul_eq_mul_left hq this
#print axioms rational_unique
