import CSSVerif.Queue
/-! Prototype: the searcher's expansion engine over a table-driven universe (C04/C14/C17),
default rule database only, expansion transitions only (no specification search in between). -/

structure Flags where
  ignoreParent : Bool
  inferrable : Bool
  possiblyEmpty : Bool
  workable : Bool
deriving Repr, Inhabited

structure RuleOut where
  parent : Nat
  children : List Nat
  flags : Flags
  twoWay : Bool
  isVer : Bool
  isProd : Bool := false
deriving Repr, Inhabited

structure Universe where
  empty : Array Bool
  apply : Nat → Nat → List RuleOut     -- strategy index → class id → rules
  initial : List Nat
  inferral : List Nat
  expansion : List (List Nat)
  ver : List Nat
  sym : List Nat
  expandVerified : Bool

/-- union–find seen through its observable abstraction -/
structure EDB where
  root : List (Nat × Nat)
  weight : List (Nat × Nat)
  verified : List Nat
deriving Repr

def EDB.find (e : EDB) (l : Nat) : Nat := ((e.root.find? (·.1 == l)).map (·.2)).getD l
def EDB.touch (e : EDB) (l : Nat) : EDB :=
  if e.root.any (·.1 == l) then e else { e with root := e.root ++ [(l, l)], weight := e.weight ++ [(l, 1)] }
def EDB.w (e : EDB) (r : Nat) : Nat := ((e.weight.find? (·.1 == r)).map (·.2)).getD 1
def EDB.isVerified (e : EDB) (l : Nat) : Bool := e.verified.contains (e.find l)
def EDB.setVerified (e : EDB) (l : Nat) : EDB :=
  let e := e.touch l
  if e.isVerified l then e else { e with verified := e.find l :: e.verified }
def EDB.union (e : EDB) (a b : Nat) : EDB :=
  let e := (e.touch a).touch b
  let v := e.isVerified a || e.isVerified b
  let ra := e.find a; let rb := e.find b
  let e :=
    if ra == rb then e else
    let (hv, lt) : Nat × Nat := if e.w ra > e.w rb || (e.w ra == e.w rb && ra > rb) then (ra, rb) else (rb, ra)
    { e with root := e.root.map (fun (p : Nat × Nat) => if p.2 == lt then (p.1, hv) else p),
             weight := e.weight.map (fun (p : Nat × Nat) => if p.1 == hv then (p.1, e.w hv + e.w lt) else p) }
  if v then e.setVerified a else e

structure CDB where
  classes : List Nat                 -- label ↦ class id
  empties : List (Option Bool)
deriving Repr

def CDB.label? (c : CDB) (x : Nat) : Option Nat := c.classes.findIdx? (· == x)
def CDB.getLabel (c : CDB) (x : Nat) : CDB × Nat :=
  match c.label? x with
  | some l => (c, l)
  | none => ({ classes := c.classes ++ [x], empties := c.empties ++ [none] }, c.classes.length)
def CDB.setEmpty (c : CDB) (l : Nat) (b : Bool) : CDB := { c with empties := c.empties.set l (some b) }
def CDB.isEmpty (u : Universe) (c : CDB) (l : Nat) : CDB × Bool :=
  match c.empties.getD l none with
  | some b => (c, b)
  | none => let b := u.empty.getD (c.classes.getD l 0) false; (c.setEmpty l b, b)

structure Event where
  start : Nat
  ends : List Nat
  isVer : Bool
  twoWay : Bool
deriving Repr

structure St where
  cdb : CDB
  q : Q
  edb : EDB
  rules : List (Nat × List Nat)       -- rule_to_strategy keys
  eqv : List (Nat × List Nat)         -- eqv_rule_to_strategy keys
  tried : List Nat
  symExp : List Nat
  infExp : List Nat
  log : List Event
deriving Repr

def packOf (u : Universe) : Pack := ⟨u.inferral.length, u.initial.length, u.expansion.map List.length⟩

def insertSorted (x : Nat) : List Nat → List Nat
  | [] => [x]
  | y :: ys => if x ≤ y then x :: y :: ys else y :: insertSorted x ys
def sortNat (l : List Nat) : List Nat := l.foldr insertSorted []

/-- `RuleDBBase.add` with `_clean_labels` -/
def dbAdd (u : Universe) (s : St) (start : Nat) (ends : List Nat) (r : RuleOut) : St :=
  let s := { s with log := s.log ++ [⟨start, ends, r.isVer, r.twoWay⟩] }
  -- _clean_labels
  let (s, cleaned) := ends.foldl (fun (acc : St × List Nat) l =>
      let (s, cl) := acc
      if r.flags.possiblyEmpty then
        let (cdb, b) := s.cdb.isEmpty u l
        let s := { s with cdb := cdb }
        if b then ({ s with q := s.q.setStop l }, cl) else (s, cl ++ [l])
      else (s, cl ++ [l])) (s, [])
  let ends := sortNat cleaned
  let s := if r.isVer then { s with edb := s.edb.setVerified start } else s
  match ends with
  | [e] =>
    if r.twoWay then
      { s with edb := s.edb.union start e,
               eqv := if s.eqv.contains (start, [e]) then s.eqv else s.eqv ++ [(start, [e])],
               rules := s.rules.filter (fun k => k != (start, [e]) && k != (e, [start])) }
    else { s with rules := if s.rules.contains (start, [e]) then s.rules else s.rules ++ [(start, [e])] }
  | _ => { s with rules := if s.rules.contains (start, ends) then s.rules else s.rules ++ [(start, ends)] }

/-- label children (in order), then the parent; `none` when the rule is the self-equivalence that
`_expand_class_with_strategy` filters out -/
def labelRule (s : St) (x lbl : Nat) (r : RuleOut) : Option (St × Nat × List Nat) :=
  if r.children.length == 1 && r.children.head! == r.parent then none else
  let (cdb, ends) := r.children.foldl (fun (acc : CDB × List Nat) c =>
      let (cdb, l) := acc.1.getLabel c; (cdb, acc.2 ++ [l])) (s.cdb, [])
  let (cdb, start) := if r.parent == x then (cdb, lbl) else cdb.getLabel r.parent
  some ({ s with cdb := cdb }, start, ends)

mutual
  /-- `add_rule` -/
  def addRule (u : Universe) : Nat → St → Nat → List Nat → RuleOut → St
    | 0, s, _, _, _ => s
    | fuel+1, s, start, ends, r =>
      let s := (r.children.zip ends).foldl (fun s (ce : Nat × Nat) =>
          let (c, l) := ce
          let s := if !r.flags.possiblyEmpty then { s with cdb := s.cdb.setEmpty l false } else s
          let s := if !u.sym.isEmpty && !s.symExp.contains l then symExpand u fuel s c l else s
          let s := if r.flags.workable then { s with q := s.q.add (packOf u) l } else s
          let s := if !r.flags.inferrable then { s with q := s.q.setNotInferrable l } else s
          tryVerify u fuel s c l) s
      let s := if r.flags.ignoreParent then { s with q := s.q.setStop start } else s
      dbAdd u s start ends r
  /-- `try_verify` -/
  def tryVerify (u : Universe) : Nat → St → Nat → Nat → St
    | 0, s, _, _ => s
    | fuel+1, s, x, l =>
      if s.tried.contains l then s else
      let s := { s with tried := l :: s.tried }
      let (cdb, b) := s.cdb.isEmpty u l
      let s := { s with cdb := cdb }
      if b then s else
      u.ver.foldl (fun s σ =>
        if s.edb.isVerified l then s else
        (u.apply σ x).foldl (fun s r =>
          match labelRule s x l r with
          | none => s
          | some (s, start, ends) => addRule u fuel s start ends r) s) s
  /-- `_symmetry_expand` -/
  def symExpand (u : Universe) : Nat → St → Nat → Nat → St
    | 0, s, _, _ => s
    | _fuel+1, s, x, l =>
      let (cdb, b) := s.cdb.isEmpty u l
      let s := { s with cdb := cdb }
      let (s, syms) := u.sym.foldl (fun (acc : St × List Nat) σ =>
        (u.apply σ x).foldl (fun (acc : St × List Nat) r =>
          let (s, syms) := acc
          match labelRule s x l r with
          | none => (s, syms)
          | some (s, start, ends) =>
            let sl := ends.head!
            let s := { s with cdb := s.cdb.setEmpty sl b }
            let s := dbAdd u s start [sl] r
            ({ s with q := s.q.setStop sl }, syms ++ [sl])) acc) (s, [l])
      { s with symExp := s.symExp ++ syms.filter (fun y => !s.symExp.contains y) }
end

/-- first inferral strategy (in order, skipping `skip`) that yields a recordable rule -/
def firstInf (u : Universe) (s : St) (x l : Nat) (skip : Option Nat) : Nat → List Nat →
    Option (Nat × Nat × RuleOut × St × Nat × List Nat)
  | _, [] => none
  | i, σ :: rest =>
    if some σ == skip then firstInf u s x l skip (i+1) rest else
    match (u.apply σ x).filterMap (fun r => (labelRule s x l r).map (fun t => (r, t))) with
    | [] => firstInf u s x l skip (i+1) rest
    | (r, (s', start, ends)) :: _ => some (i, σ, r, s', start, ends)

/-- `_inferral_expand` -/
def infExpand (u : Universe) : Nat → St → Nat → Nat → List Nat → Option Nat → St
  | 0, s, _, _, _, _ => s
  | fuel+1, s, x, l, strats, skip =>
    if s.infExp.contains l then s else
    let s := { s with infExp := l :: s.infExp }
    let s :=
      match firstInf u s x l skip 0 strats with
      | none => s
      | some (i, σ, r, s, start, ends) =>
        let s := addRule u fuel s start ends r
        let s := { s with q := s.q.setNotInferrable start }
        let rot := strats.drop (i+1) ++ strats.take (i+1)
        infExpand u fuel s r.children.head! ends.head! rot (some σ)
    { s with q := s.q.setNotInferrable l }

def stratsOf (u : Universe) : Work → List Nat
  | .inferral => u.inferral
  | .initial i => [u.initial.getD i 0]
  | .expansion j i => [(u.expansion.getD j []).getD i 0]

/-- one packet of `_expand_classes_for` -/
def stepEngine (u : Universe) (fuel : Nat) (s : St) : St × Option WP :=
  match Q.next (packOf u) 100000 s.q with
  | (q, .yield w) =>
    let s := { s with q := q }
    let x := s.cdb.classes.getD w.label 0
    if u.expandVerified || !s.edb.isVerified w.label then
      match w.work with
      | .inferral => (infExpand u fuel s x w.label u.inferral none, some w)
      | _ =>
        let s := (stratsOf u w.work).foldl (fun s σ =>
          (u.apply σ x).foldl (fun s r =>
            match labelRule s x w.label r with
            | none => s
            | some (s, start, ends) => addRule u fuel s start ends r) s) s
        (s, some w)
    else (s, some w)
  | (q, _) => ({ s with q := q }, none)

def initEngine (u : Universe) (fuel : Nat) (startClass : Nat) : St :=
  let cdb : CDB := { classes := [startClass], empties := [none] }
  let q := (Q.init (packOf u)).add (packOf u) 0
  let s : St := { cdb := cdb, q := q, edb := ⟨[], [], []⟩, rules := [], eqv := [], tried := [], symExp := [], infExp := [], log := [] }
  let s := tryVerify u fuel s startClass 0
  if !u.sym.isEmpty then symExpand u fuel s startClass 0 else s
