import CSSVerif.ObjCount
import CSSVerif.CompsNodup
import CSSVerif.QuotLocal
/-! C07 (model): a rule emits every object once. -/

theorem nodup_flatMap_decode {α β γ : Type} (f : α → List β) (key : α → γ) (dec : β → γ) : ∀ (l : List α),
    (l.map key).Nodup → (∀ a ∈ l, (f a).Nodup) → (∀ a ∈ l, ∀ b ∈ f a, dec b = key a) → (l.flatMap f).Nodup
  | [], _, _, _ => by simp
  | a :: l, hk, hf, hd => by
    simp only [List.map_cons, List.nodup_cons] at hk
    rw [List.flatMap_cons, List.nodup_append]
    refine ⟨hf a (List.mem_cons_self ..), nodup_flatMap_decode f key dec l hk.2 (fun x hx => hf x (List.mem_cons_of_mem _ hx))
      (fun x hx => hd x (List.mem_cons_of_mem _ hx)), ?_⟩
    intro b hb b' hb' e
    subst e
    obtain ⟨a', ha', hba'⟩ := List.mem_flatMap.1 hb'
    have e1 := hd a (List.mem_cons_self ..) b hb
    have e2 := hd a' (List.mem_cons_of_mem _ ha') b hba'
    exact hk.1 (List.mem_map.2 ⟨a', ha', by rw [← e2, e1]⟩)

/-- `x` picks one element from each list of `L` -/
def Sel {α : Type} : List α → List (List α) → Prop
  | [], [] => True
  | x :: xs, l :: ls => x ∈ l ∧ Sel xs ls
  | _, _ => False

theorem mem_cartesian {α : Type} : ∀ (L : List (List α)) (x : List α), x ∈ cartesian L ↔ Sel x L
  | [], x => by
    cases x with
    | nil => simp [cartesian, Sel]
    | cons a x => simp [cartesian, Sel]
  | l :: L, x => by
    rw [cartesian_cons, List.mem_flatMap]
    constructor
    · rintro ⟨a, ha, hx⟩
      obtain ⟨t, ht, rfl⟩ := List.mem_map.1 hx
      exact ⟨ha, (mem_cartesian L t).1 ht⟩
    · intro h
      cases x with
      | nil => exact h.elim
      | cons a t => exact ⟨a, h.1, List.mem_map.2 ⟨t, (mem_cartesian L t).2 h.2, rfl⟩⟩

abbrev Ent := Param × List Obj
/-- all objects of a dictionary -/
def allOf (d : List Ent) : List Obj := d.flatMap (·.2)

theorem allOf_cons (e : Ent) (d : List Ent) : allOf (e :: d) = e.2 ++ allOf d := rfl

theorem mem_allOf {d : List Ent} {e : Ent} (he : e ∈ d) {o : Obj} (ho : o ∈ e.2) : o ∈ allOf d :=
  List.mem_flatMap.2 ⟨e, he, ho⟩

theorem part_nodup : ∀ {d : List Ent}, (allOf d).Nodup → ∀ e ∈ d, e.2.Nodup
  | [], _, _, he => by cases he
  | x :: xs, h, e, he => by
    rw [allOf_cons, List.nodup_append] at h
    rcases List.mem_cons.1 he with rfl | he
    · exact h.1
    · exact part_nodup h.2.1 e he

theorem ent_nodup_of_all : ∀ {d : List Ent}, (allOf d).Nodup → (∀ e ∈ d, e.2 ≠ []) → d.Nodup
  | [], _, _ => by simp
  | x :: xs, h, hne => by
    rw [allOf_cons, List.nodup_append] at h
    rw [List.nodup_cons]
    refine ⟨?_, ent_nodup_of_all h.2.1 (fun e he => hne e (List.mem_cons_of_mem _ he))⟩
    intro hx
    have hx2 := hne x (List.mem_cons_self ..)
    cases hl : x.2 with
    | nil => exact hx2 hl
    | cons o os =>
      have ho : o ∈ x.2 := by rw [hl]; exact List.mem_cons_self ..
      exact h.2.2 o ho o (mem_allOf hx ho) rfl

theorem find_of_all : ∀ {d : List Ent}, (allOf d).Nodup → ∀ {e : Ent}, e ∈ d → ∀ {o : Obj}, o ∈ e.2 →
    d.find? (fun x => x.2.contains o) = some e
  | [], _, _, he, _, _ => by cases he
  | x :: xs, h, e, he, o, ho => by
    rw [allOf_cons, List.nodup_append] at h
    rw [List.find?_cons]
    by_cases hc : x.2.contains o = true
    · rw [hc]
      have hox : o ∈ x.2 := by simpa using hc
      rcases List.mem_cons.1 he with rfl | he
      · rfl
      · exact absurd rfl (h.2.2 o hox o (mem_allOf he ho))
    · have hc' : x.2.contains o = false := by simpa using hc
      rw [hc']
      rcases List.mem_cons.1 he with rfl | he
      · exact absurd (by simpa using ho) hc
      · exact find_of_all h.2.1 he ho

/-- which dictionary entries a tuple of objects was taken from -/
def decP : List (List Ent) → List Obj → List Ent
  | l :: ls, o :: os => ((l.find? (fun x => x.2.contains o)).getD ([], [])) :: decP ls os
  | _, _ => []

theorem decP_spec : ∀ (P : List (List Ent)) (combo : List Ent) (tup : List Obj), (∀ l ∈ P, (allOf l).Nodup) →
    Sel combo P → Sel tup (combo.map (·.2)) → decP P tup = combo
  | [], [], [], _, _, _ => rfl
  | [], [], _ :: _, _, _, h => h.elim
  | [], _ :: _, _, _, h, _ => h.elim
  | _ :: _, [], _, _, h, _ => h.elim
  | _ :: _, _ :: _, [], _, _, h => h.elim
  | l :: P, e :: combo, o :: tup, h1, h2, h3 => by
    unfold decP
    rw [find_of_all (h1 l (List.mem_cons_self ..)) h2.1 h3.1, decP_spec P combo tup (fun x hx => h1 x (List.mem_cons_of_mem _ hx)) h2.2 h3.2]
    rfl

theorem sel_mem {α : Type} : ∀ {x : List α} {L : List (List α)}, Sel x L → ∀ a ∈ x, ∃ l ∈ L, a ∈ l
  | [], [], _, _, ha => by cases ha
  | [], _ :: _, h, _, _ => h.elim
  | _ :: _, [], h, _, _ => h.elim
  | b :: x, l :: L, h, a, ha => by
    rcases List.mem_cons.1 ha with rfl | ha
    · exact ⟨l, List.mem_cons_self .., h.1⟩
    · obtain ⟨l', hl', hal'⟩ := sel_mem h.2 a ha
      exact ⟨l', List.mem_cons_of_mem _ hl', hal'⟩

/-- for one choice of sizes: every tuple of sub-objects once -/
theorem tuples_nodup (P : List (List Ent)) (h1 : ∀ l ∈ P, (allOf l).Nodup) (h2 : ∀ l ∈ P, ∀ e ∈ l, e.2 ≠ []) :
    ((cartesian P).flatMap (fun combo => cartesian (combo.map (·.2)))).Nodup := by
  apply nodup_flatMap_decode _ id (decP P)
  · rw [List.map_id]
    exact cartesian_nodup P (fun l hl => ent_nodup_of_all (h1 l hl) (h2 l hl))
  · intro combo hc
    apply cartesian_nodup
    intro os hos
    obtain ⟨e, he, rfl⟩ := List.mem_map.1 hos
    obtain ⟨l, hl, hel⟩ := sel_mem ((mem_cartesian P combo).1 hc) e he
    exact part_nodup (h1 l hl) e hel
  · intro combo hc tup ht
    exact decP_spec P combo tup h1 ((mem_cartesian P combo).1 hc) ((mem_cartesian _ tup).1 ht)
#print axioms tuples_nodup

/-- the sizes of a tuple's components, read off the objects -/
def decS : List (Obj → Nat) → List Obj → List Nat
  | g :: gs, o :: os => g o :: decS gs os
  | _, _ => []

theorem allOf_rekey (f : Param → Param) (d : List Ent) : allOf (d.map (fun e => (f e.1, e.2))) = allOf d := by
  unfold allOf
  rw [List.flatMap_map]

theorem decS_spec (parent : List String) : ∀ (cos : List (Child × ObjTab)) (szs : List (Obj → Nat)) (sizes : List Nat)
    (combo : List Ent) (tup : List Obj), cos.length = sizes.length → szs.length = sizes.length →
    (∀ x ∈ cos.zip szs, ∀ s o, o ∈ allOf (x.1.2 s) → x.2 o = s) →
    Sel combo ((cos.zip sizes).map (fun (cz : (Child × ObjTab) × Nat) =>
      (cz.1.2 cz.2).map (fun e => (paramMapSum (childPosToParentPos parent cz.1.1) parent.length e.1, e.2)))) →
    Sel tup (combo.map (·.2)) → decS szs tup = sizes
  | [], [], [], [], [], _, _, _, _, _ => rfl
  | [], [], [], [], _ :: _, _, _, _, _, h => h.elim
  | [], [], [], _ :: _, _, _, _, _, h, _ => h.elim
  | [], _, _ :: _, _, _, h, _, _, _, _ => by simp at h
  | [], _ :: _, [], _, _, _, h, _, _, _ => by simp at h
  | _ :: _, _, [], _, _, h, _, _, _, _ => by simp at h
  | _ :: _, [], _ :: _, _, _, _, h, _, _, _ => by simp at h
  | _ :: _, _ :: _, _ :: _, [], _, _, _, _, h, _ => h.elim
  | _ :: _, _ :: _, _ :: _, _ :: _, [], _, _, _, _, h => h.elim
  | co :: cos, g :: szs, s :: sizes, e :: combo, o :: tup, h1, h2, h3, h4, h5 => by
    unfold decS
    have hmem : e ∈ (co.2 s).map (fun e => (paramMapSum (childPosToParentPos parent co.1) parent.length e.1, e.2)) := h4.1
    have ho : o ∈ allOf (co.2 s) := by
      rw [← allOf_rekey (paramMapSum (childPosToParentPos parent co.1) parent.length)]
      exact mem_allOf hmem h5.1
    have e1 : g o = s := h3 (co, g) (List.mem_cons_self ..) s o ho
    rw [e1, decS_spec parent cos szs sizes combo tup (by simpa using h1) (by simpa using h2)
        (fun x hx => h3 x (List.mem_cons_of_mem _ hx)) h4.2 h5.2]

/-- **C07 (model): a product rule emits every tuple of sub-objects once** - provided every child lists the objects of each
size once (no object under two parameter values, none twice), has no empty dictionary entries, and an object determines its
size (children aligned with a list of size functions) -/
theorem productEmit_nodup (parent : List String) (cs : List Child) (objs : List ObjTab) (n : Nat) (hlen : objs.length = cs.length)
    (h1 : ∀ co ∈ cs.zip objs, ∀ s, (allOf (co.2 s)).Nodup) (h2 : ∀ co ∈ cs.zip objs, ∀ s, ∀ e ∈ co.2 s, e.2 ≠ [])
    (szs : List (Obj → Nat)) (hs : szs.length = cs.length)
    (h3 : ∀ x ∈ (cs.zip objs).zip szs, ∀ s o, o ∈ allOf (x.1.2 s) → x.2 o = s) :
    ((productEmit parent cs objs n).map (·.2)).Nodup := by
  have e : (productEmit parent cs objs n).map (·.2) =
      (comps (n : Int) (cs.map (fun c => (c.minSize, c.maxSize)))).flatMap (fun sizes =>
        (cartesian (perChildObjs parent cs objs sizes)).flatMap (fun combo => cartesian (combo.map (·.2)))) := by
    unfold productEmit
    rw [List.map_flatMap]
    congr 1
    funext sizes
    rw [List.map_flatMap]
    congr 1
    funext combo
    rw [List.map_map]
    exact List.map_id _
  rw [e]
  apply nodup_flatMap_decode _ id (decS szs)
  · rw [List.map_id]; exact comps_nodup _ _
  · intro sizes _
    apply tuples_nodup
    · intro l hl
      unfold perChildObjs at hl
      obtain ⟨cz, hcz, rfl⟩ := List.mem_map.1 hl
      rw [allOf_rekey]
      exact h1 cz.1 (List.of_mem_zip hcz).1 cz.2
    · intro l hl e he
      unfold perChildObjs at hl
      obtain ⟨cz, hcz, rfl⟩ := List.mem_map.1 hl
      obtain ⟨e0, he0, rfl⟩ := List.mem_map.1 he
      exact h2 cz.1 (List.of_mem_zip hcz).1 cz.2 e0 he0
  · intro sizes hsz tup ht
    obtain ⟨combo, hc, htc⟩ := List.mem_flatMap.1 ht
    have hl : sizes.length = cs.length := by
      have := within_length _ _ (comps_sound _ _ _ hsz).1
      simpa using this
    exact decS_spec parent (cs.zip objs) szs sizes combo tup (by simp [hlen, hl]) (by omega) h3
      ((mem_cartesian _ combo).1 hc) ((mem_cartesian _ tup).1 htc)
#print axioms productEmit_nodup

/-! ### disjoint unions -/

theorem unionInner_spec (f : Param → Option Param) (i : Nat) : ∀ (d : List Ent) (acc out : List (Param × Nat × Obj)),
    d.foldlM (fun (acc : List (Param × Nat × Obj)) (e : Ent) => do
      let k ← f e.1
      pure (acc ++ e.2.map (fun o => (k, i, o)))) acc = some out →
    out.map (·.2) = acc.map (·.2) ++ (allOf d).map (fun o => (i, o))
  | [], acc, out, h => by
    simp only [List.foldlM_nil, pure, Option.some.injEq] at h
    subst h; simp [allOf]
  | e :: d, acc, out, h => by
    rw [List.foldlM_cons] at h
    cases hk : f e.1 with
    | none => simp [hk] at h
    | some k =>
      simp only [hk, Option.bind_eq_bind, Option.bind_some] at h
      have := unionInner_spec f i d _ out h
      rw [this, allOf_cons, List.map_append, List.map_append, List.map_map, List.append_assoc]
      rfl

theorem unionOuter_spec (parent : List String) (n : Nat) : ∀ (l : List ((Child × ObjTab) × Nat)) (acc out : List (Param × Nat × Obj)),
    l.foldlM (fun (acc : List (Param × Nat × Obj)) (co : (Child × ObjTab) × Nat) =>
      (co.1.2 n).foldlM (fun (acc : List (Param × Nat × Obj)) (e : Param × List Obj) => do
        let k ← paramMapSame (childPosToParentPos parent co.1.1) parent.length e.1
        pure (acc ++ e.2.map (fun o => (k, co.2, o)))) acc) acc = some out →
    out.map (·.2) = acc.map (·.2) ++ l.flatMap (fun co => (allOf (co.1.2 n)).map (fun o => (co.2, o)))
  | [], acc, out, h => by
    simp only [List.foldlM_nil, pure, Option.some.injEq] at h
    subst h; simp
  | co :: l, acc, out, h => by
    rw [List.foldlM_cons] at h
    cases hi : (co.1.2 n).foldlM (fun (acc : List (Param × Nat × Obj)) (e : Param × List Obj) => do
        let k ← paramMapSame (childPosToParentPos parent co.1.1) parent.length e.1
        pure (acc ++ e.2.map (fun o => (k, co.2, o)))) acc with
    | none => rw [hi] at h; simp at h
    | some mid =>
      rw [hi] at h
      simp only [Option.bind_eq_bind, Option.bind_some] at h
      rw [unionOuter_spec parent n l mid out h, unionInner_spec _ co.2 _ acc mid hi, List.flatMap_cons, List.append_assoc]

/-- **C07 (model): a disjoint union emits every (child, object) once** - provided every child lists its objects of that size
once -/
theorem unionEmit_nodup (parent : List String) (cs : List Child) (objs : List ObjTab) (n : Nat) (em : List (Param × Nat × Obj))
    (h : unionEmit parent cs objs n = some em) (h1 : ∀ co ∈ cs.zip objs, (allOf (co.2 n)).Nodup) :
    (em.map (·.2)).Nodup := by
  unfold unionEmit at h
  rw [unionOuter_spec parent n _ [] em h]
  simp only [List.map_nil, List.nil_append]
  apply nodup_flatMap_decode _ (fun co => co.2) (fun io => io.1)
  · rw [List.zipIdx_map_snd]
    exact List.nodup_range'
  · intro co hco
    have hm : co.1 ∈ cs.zip objs := by
      have := List.mem_map_of_mem (f := Prod.fst) hco
      rwa [List.zipIdx_map_fst] at this
    have hnd := h1 co.1 hm
    generalize allOf (co.1.2 n) = L at hnd
    induction L with
    | nil => simp
    | cons o L ih =>
      simp only [List.nodup_cons] at hnd
      simp only [List.map_cons, List.nodup_cons]
      refine ⟨?_, ih hnd.2⟩
      intro hmem
      obtain ⟨o', ho', e⟩ := List.mem_map.1 hmem
      injection e with _ e2
      exact hnd.1 (e2 ▸ ho')
  · intro co _ b hb
    obtain ⟨o, _, rfl⟩ := List.mem_map.1 hb
    rfl
#print axioms unionEmit_nodup

/-! non-vacuity: (words in `a`, statistic = length) x (words in `b`), one object of each size up to 2 -/
def exO1 : ObjTab := fun s => if s ≤ 2 then [([s], [s])] else []
def exO2 : ObjTab := fun s => if s ≤ 2 then [([], [10 + s])] else []
def exK1 : Child := { names := ["a"], emap := [("k", "a")], terms := fun _ => [] }
def exK2 : Child := { names := [], emap := [], terms := fun _ => [] }

example : ((productEmit ["k"] [exK1, exK2] [exO1, exO2] 2).map (·.2)).Nodup ∧
    productEmit ["k"] [exK1, exK2] [exO1, exO2] 2 = [([0], [0, 12]), ([1], [1, 11]), ([2], [2, 10])] := by
  refine ⟨productEmit_nodup ["k"] [exK1, exK2] [exO1, exO2] 2 rfl ?_ ?_ [fun o => o, fun o => o - 10] rfl ?_, by decide⟩
  · intro co hco s
    simp only [List.zip_cons_cons, List.zip_nil_right, List.mem_cons, List.not_mem_nil, or_false] at hco
    rcases hco with rfl | rfl <;> (simp only [exO1, exO2]; split <;> simp [allOf])
  · intro co hco s e he
    simp only [List.zip_cons_cons, List.zip_nil_right, List.mem_cons, List.not_mem_nil, or_false] at hco
    rcases hco with rfl | rfl <;> (simp only [exO1, exO2] at he; split at he <;> simp at he <;> (subst he; simp))
  · intro x hx s o ho
    simp only [List.zip_cons_cons, List.zip_nil_right, List.mem_cons, List.not_mem_nil, or_false] at hx
    rcases hx with rfl | rfl <;> (simp only [exO1, exO2] at ho; split at ho <;> simp [allOf] at ho <;> (subst ho; simp))
