import CSSVerif.Forest
/-! Prototype: a productive rule system has at most one solution (C01/C02/C10/C20 core). -/

/-- `Comp'` additionally lets a rule read its own parent at strictly smaller sizes. -/
inductive Comp' (R : List Rule) : Nat → Nat → Prop
  | mk (r : Rule) (n : Nat) (hr : r ∈ R)
      (h : ∀ d ∈ r.deps, ∀ m : Nat, (m : Int) ≤ (n : Int) - d.2 → Comp' R d.1 m)
      (hself : ∀ m, m < n → Comp' R r.parent m) :
      Comp' R r.parent n

theorem Comp.toComp' {R : List Rule} {c n : Nat} (h : Comp R c n) : ∀ m, m ≤ n → Comp' R c m := by
  induction h with
  | mk r n hr hd ih =>
    intro m
    induction m using Nat.strongRecOn with
    | _ m ihm =>
      intro hm
      refine Comp'.mk r m hr ?_ (fun m' hm' => ihm m' hm' (by omega))
      intro d hdm m' hm'
      exact ih d hdm m' (by omega) m' (Nat.le_refl _)

variable {α : Type}

/-- `a` solves the system: each rule's parent sequence is given by the rule's functional. -/
def IsSol (R : List Rule) (F : Rule → (Nat → Nat → α) → Nat → α) (a : Nat → Nat → α) : Prop :=
  ∀ r ∈ R, ∀ n, a r.parent n = F r a n

/-- The functional of rule `r` at size `n` only reads child `i` at sizes `≤ n - shift i`
and its own parent at sizes `< n` (this is property C10, as a hypothesis). -/
def Local (R : List Rule) (F : Rule → (Nat → Nat → α) → Nat → α) : Prop :=
  ∀ r ∈ R, ∀ (a b : Nat → Nat → α) (n : Nat),
    (∀ d ∈ r.deps, ∀ m : Nat, (m : Int) ≤ (n : Int) - d.2 → a d.1 m = b d.1 m) →
    (∀ m, m < n → a r.parent m = b r.parent m) →
    F r a n = F r b n

theorem sol_unique_on_comp {R : List Rule} {F : Rule → (Nat → Nat → α) → Nat → α}
    (hloc : Local R F) {a b : Nat → Nat → α} (ha : IsSol R F a) (hb : IsSol R F b)
    {c n : Nat} (h : Comp' R c n) : a c n = b c n := by
  induction h with
  | mk r n hr _ _ ih ihself =>
    rw [ha r hr n, hb r hr n]
    exact hloc r hr a b n ih ihself

/-- Productive (every class that has a rule is pumping) ⇒ the solution is unique on those classes;
in particular the counts computed by the recurrences equal the true counts whenever the true
enumeration satisfies every rule. -/
theorem sol_unique {R : List Rule} {F : Rule → (Nat → Nat → α) → Nat → α}
    (hloc : Local R F) {a b : Nat → Nat → α} (ha : IsSol R F a) (hb : IsSol R F b)
    (c : Nat) (hprod : ∀ n, Comp R c n) : ∀ n, a c n = b c n :=
  fun n => sol_unique_on_comp hloc ha hb ((hprod n).toComp' n (Nat.le_refl _))
#print axioms sol_unique
