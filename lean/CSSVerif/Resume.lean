import CSSVerif.Engine2
/-! C17: resumption. The searcher's loop is a deterministic fold of two transitions over a state that is
plain data; stopping after any prefix and continuing reaches the same state. Once a specification exists it
keeps existing when rules are added (monotonicity of the pruning fixed point). -/

/-- adding rules only enlarges the greatest self-supporting subset -/
theorem prune_mono {R R' : List RuleK} (h : ∀ r ∈ R, r ∈ R') : ∀ r ∈ prune R, r ∈ prune R' := by
  have hs : Supported (prune R) R' := by
    intro r hr
    obtain ⟨h1, h2⟩ := (prune_gfp R).1 r hr
    exact ⟨h r h1, h2⟩
  exact (prune_gfp R').2 (prune R) hs

/-- **has_spec_monotone** (default database, recursive packs): a class that survives pruning survives after
any further insertions -/
theorem has_spec_monotone {R R' : List RuleK} (h : ∀ r ∈ R, r ∈ R') (root : Nat)
    (hr : root ∈ keys (prune R)) : root ∈ keys (prune R') := by
  unfold keys at *
  obtain ⟨r, hrm, e⟩ := List.mem_map.1 hr
  exact List.mem_map.2 ⟨r, prune_mono h r hrm, e⟩

namespace E2
/-- the two transitions of the search loop -/
inductive Op where
  | expand          -- one work packet of `_expand_classes_for`
  | search          -- `has_specification()` (not read-only: merges cycles, marks survivors verified)

def step (u : Universe) (fuel : Nat) (iter : Bool) (s : St) : Op → St
  | .expand => (stepEngine u fuel s).1
  | .search => if iter then (searchIter s 0).1 else (search s 0).1

def exec (u : Universe) (fuel : Nat) (iter : Bool) (ops : List Op) (s : St) : St :=
  ops.foldl (step u fuel iter) s

/-- **exec_split**: interrupting after any prefix of the work (and restoring the state, which is plain data)
and then issuing the remaining calls reaches the state of the uninterrupted run -/
theorem exec_split (u : Universe) (fuel : Nat) (iter : Bool) (ops₁ ops₂ : List Op) (s : St) :
    exec u fuel iter (ops₁ ++ ops₂) s = exec u fuel iter ops₂ (exec u fuel iter ops₁ s) := by
  unfold exec; rw [List.foldl_append]
end E2
#print axioms prune_mono
#print axioms has_spec_monotone
#print axioms E2.exec_split
