/-! C06: proven reference for "mutually reachable along recorded edges" and a proven path checker. -/

inductive Reach (E : List (Nat × Nat)) : Nat → Nat → Prop
  | refl (a : Nat) : Reach E a a
  | step {a b c : Nat} : Reach E a b → (b, c) ∈ E → Reach E a c

theorem Reach.trans {E : List (Nat × Nat)} {a b c : Nat} (h1 : Reach E a b) (h2 : Reach E b c) : Reach E a c := by
  induction h2 with
  | refl => exact h1
  | step _ he ih => exact Reach.step ih he

/-- one edge of the expansion: add the target when the source is known and the target is new -/
def addEdge (S : List Nat) (e : Nat × Nat) : List Nat :=
  if S.contains e.1 && !S.contains e.2 then e.2 :: S else S

def expand (E : List (Nat × Nat)) (S : List Nat) : List Nat := E.foldl addEdge S

def closure (E : List (Nat × Nat)) : Nat → List Nat → Option (List Nat)
  | 0, _ => none
  | f+1, S => if (expand E S).length == S.length then some S else closure E f (expand E S)

theorem addEdge_sub (S : List Nat) (e : Nat × Nat) : ∀ x ∈ S, x ∈ addEdge S e := by
  intro x hx; unfold addEdge; split
  · exact List.mem_cons_of_mem _ hx
  · exact hx

theorem addEdge_len (S : List Nat) (e : Nat × Nat) : S.length ≤ (addEdge S e).length := by
  unfold addEdge; split <;> simp

theorem foldl_addEdge_sub : ∀ (E : List (Nat × Nat)) (S : List Nat), ∀ x ∈ S, x ∈ E.foldl addEdge S
  | [], _, _, hx => hx
  | e :: E, S, x, hx => foldl_addEdge_sub E _ x (addEdge_sub S e x hx)

theorem foldl_addEdge_len : ∀ (E : List (Nat × Nat)) (S : List Nat), S.length ≤ (E.foldl addEdge S).length
  | [], _ => Nat.le_refl _
  | e :: E, S => Nat.le_trans (addEdge_len S e) (foldl_addEdge_len E _)

/-- soundness of one expansion: everything stays reachable from `a` -/
theorem foldl_addEdge_sound {E : List (Nat × Nat)} {a : Nat} :
    ∀ (E' : List (Nat × Nat)) (S : List Nat), (∀ e ∈ E', e ∈ E) → (∀ x ∈ S, Reach E a x) →
      ∀ x ∈ E'.foldl addEdge S, Reach E a x
  | [], _, _, hS => hS
  | e :: E', S, hsub, hS => by
    apply foldl_addEdge_sound E' (addEdge S e) (fun e' he' => hsub e' (List.mem_cons_of_mem _ he'))
    intro x hx
    unfold addEdge at hx
    split at hx
    · rename_i hc
      rcases List.mem_cons.1 hx with rfl | hx
      · have h1 : e.1 ∈ S := by
          simp only [Bool.and_eq_true, List.contains_iff_mem] at hc; exact hc.1
        exact Reach.step (hS _ h1) (by have := hsub e (List.mem_cons_self ..); simpa using this)
      · exact hS x hx
    · exact hS x hx

/-- if an expansion adds nothing, the set was closed under the edges it processed -/
theorem foldl_addEdge_fixed : ∀ (E' : List (Nat × Nat)) (S : List Nat), (E'.foldl addEdge S).length = S.length →
    ∀ e ∈ E', e.1 ∈ S → e.2 ∈ S
  | [], _, _, e, he, _ => by cases he
  | e0 :: E', S, hlen, e, he, h1 => by
    have hl1 := addEdge_len S e0
    have hl2 := foldl_addEdge_len E' (addEdge S e0)
    have hS : addEdge S e0 = S := by
      unfold addEdge at hl1 hl2 hlen ⊢
      split
      · rename_i hc; simp only [List.foldl_cons, hc, ↓reduceIte, List.length_cons] at hlen hl2; omega
      · rfl
    rcases List.mem_cons.1 he with rfl | he
    · unfold addEdge at hS
      split at hS
      · have := congrArg List.length hS; simp at this
      · rename_i hc
        simp only [Bool.and_eq_true, Bool.not_eq_true', not_and, Bool.not_eq_false, List.contains_iff_mem] at hc
        exact hc h1
    · simp only [List.foldl_cons, hS] at hlen
      exact foldl_addEdge_fixed E' S hlen e he h1

theorem closure_correct {E : List (Nat × Nat)} {a : Nat} : ∀ (f : Nat) (S S' : List Nat),
    a ∈ S → (∀ x ∈ S, Reach E a x) → closure E f S = some S' → ∀ x, x ∈ S' ↔ Reach E a x
  | 0, _, _, _, _, h => by simp [closure] at h
  | f+1, S, S', ha, hS, h => by
    unfold closure at h
    split at h
    · rename_i hfix
      injection h with h; subst h
      intro x
      refine ⟨hS x, ?_⟩
      intro hr
      induction hr with
      | refl => exact ha
      | step _ he ih =>
        exact foldl_addEdge_fixed E S (by simpa [expand] using hfix) _ he ih
    · exact closure_correct f _ S' (foldl_addEdge_sub E S a ha)
        (foldl_addEdge_sound E S (fun _ h => h) hS) h

/-- reachability test (`none` = fuel exhausted; never happens with the fuel the drivers use) -/
def reachB (E : List (Nat × Nat)) (a b : Nat) : Option Bool :=
  (closure E (E.length + 2) [a]).map (·.contains b)

theorem reachB_correct (E : List (Nat × Nat)) (a b : Nat) (r : Bool) (h : reachB E a b = some r) :
    r = true ↔ Reach E a b := by
  unfold reachB at h
  cases hc : closure E (E.length + 2) [a] with
  | none => rw [hc] at h; cases h
  | some S =>
    rw [hc] at h; injection h with h; subst h
    have := closure_correct (E := E) (a := a) _ [a] S (by simp) (by intro x hx; simp at hx; subst hx; exact Reach.refl _) hc b
    simpa using this

/-- the reference for C06: `a` and `b` lie in the same strongly connected component -/
def sccB (E : List (Nat × Nat)) (a b : Nat) : Option Bool :=
  match reachB E a b, reachB E b a with
  | some x, some y => some (x && y)
  | _, _ => none

theorem sccB_correct (E : List (Nat × Nat)) (a b : Nat) (r : Bool) (h : sccB E a b = some r) :
    r = true ↔ (Reach E a b ∧ Reach E b a) := by
  unfold sccB at h
  cases h1 : reachB E a b with
  | none => simp [h1] at h
  | some x =>
    cases h2 : reachB E b a with
    | none => simp [h1, h2] at h
    | some y =>
      simp only [h1, h2, Option.some.injEq] at h
      subst h
      have e1 := reachB_correct E a b x h1
      have e2 := reachB_correct E b a y h2
      simp only [Bool.and_eq_true]
      exact ⟨fun ⟨p, q⟩ => ⟨e1.1 p, e2.1 q⟩, fun ⟨p, q⟩ => ⟨e1.2 p, e2.2 q⟩⟩

/-- path checker: starts at `a`, ends at `b`, consecutive pairs are recorded edges -/
def chainB (E : List (Nat × Nat)) : List Nat → Bool
  | [] => true
  | [_] => true
  | x :: y :: rest => E.contains (x, y) && chainB E (y :: rest)

def checkPath (E : List (Nat × Nat)) (p : List Nat) (a b : Nat) : Bool :=
  p.head? == some a && p.getLast? == some b && chainB E p

theorem chainB_reach (E : List (Nat × Nat)) : ∀ (p : List Nat) (x : Nat), chainB E (x :: p) = true →
    ∀ y, (x :: p).getLast? = some y → Reach E x y
  | [], x, _, y, hy => by simp at hy; subst hy; exact Reach.refl _
  | z :: p, x, h, y, hy => by
    simp only [chainB, Bool.and_eq_true, List.contains_iff_mem] at h
    have ih := chainB_reach E p z h.2 y (by simpa [List.getLast?_cons_cons] using hy)
    exact Reach.trans (Reach.step (Reach.refl x) h.1) ih

/-- an accepted explanation path is a genuine path from `a` to `b` along recorded edges -/
theorem checkPath_sound (E : List (Nat × Nat)) (p : List Nat) (a b : Nat) (h : checkPath E p a b = true) :
    p.head? = some a ∧ p.getLast? = some b ∧ Reach E a b := by
  unfold checkPath at h
  simp only [Bool.and_eq_true, beq_iff_eq] at h
  refine ⟨h.1.1, h.1.2, ?_⟩
  cases p with
  | nil => simp at h
  | cons x p =>
    have hx : x = a := by simpa using h.1.1
    subst hx
    exact chainB_reach E p x h.2 b h.1.2

example : sccB [(0,1),(1,2),(2,0),(2,3)] 0 2 = some true ∧ sccB [(0,1),(1,2),(2,0),(2,3)] 0 3 = some false := by decide
