import CSSVerif.Engine3
import CSSVerif.EngineInv
/-! C04: the invariants of `EngineInv` for the forest flavour of the engine model (`E3`): every key handed to the table method is
genuine - the empty rule of a truly empty class, the key of a rule that a strategy of the pack produces (labels of parent and
children in order, the strategy's shifts), or one of its reverse keys - the emptiness cache is truthful, labels are a
bijection, queue labels are class-database labels. -/
namespace F3

/-- what a key handed to the table method may be -/
def Genuine3 (u : E3.FUniverse) (c : CDB) (k : E3.FKey) : Prop :=
  (k.children = [] ∧ k.shifts = [] ∧ k.parent < c.classes.length ∧ TrulyEmpty u.base c k.parent = true) ∨
  (∃ start ends r, ArgsOK u.base c start ends r ∧ k.parent = start ∧ k.children = ends ∧ k.shifts = E3.shiftsOf u r) ∨
  (∃ start ends r i, ArgsOK u.base c start ends r ∧ i < ends.length ∧ k.parent = ends.getD i 0 ∧
    k.children = start :: ends.eraseIdx i)

theorem Genuine3.ext {u : E3.FUniverse} {c c' : CDB} {k : E3.FKey} (h : Genuine3 u c k) (he : Ext c c') : Genuine3 u c' k := by
  rcases h with ⟨a, b, d, e⟩ | ⟨start, ends, r, ha, x⟩ | ⟨start, ends, r, i, ha, x⟩
  · exact Or.inl ⟨a, b, Nat.lt_of_lt_of_le d he.len, by rw [TrulyEmpty.ext he d]; exact e⟩
  · exact Or.inr (Or.inl ⟨start, ends, r, ha.ext he, x⟩)
  · exact Or.inr (Or.inr ⟨start, ends, r, i, ha.ext he, x⟩)

structure EI3 (u : E3.FUniverse) (s : E3.St) : Prop where
  gen : ∀ k, k ∈ s.log → Genuine3 u s.cdb k
  ql : QL (E3.packOf u) s.q (fun l => l < s.cdb.classes.length)
  nd : s.cdb.classes.Nodup
  cache : CacheOK u.base s.cdb

/-- `_add_empty_rule` for one child label -/
def emptyStep (u : E3.FUniverse) (s : E3.St) (l : Nat) : E3.St :=
  if s.alreadyEmpty.contains l then s else
  if (s.cdb.isEmpty u.base l).2 then
    E3.tmAdd ({ s with cdb := (s.cdb.isEmpty u.base l).1, alreadyEmpty := l :: s.alreadyEmpty, q := s.q.setStop l } : E3.St) ⟨l, [], [], 0⟩
  else { s with cdb := (s.cdb.isEmpty u.base l).1 }

def bucketOf (r : RuleOut) (eqv rev : Bool) : Nat := if r.isVer then 0 else if eqv then 1 else if rev then 3 else 2

/-- one reverse key -/
def revStep (u : E3.FUniverse) (start : Nat) (ends : List Nat) (r : RuleOut) (s : E3.St) (i : Nat) : E3.St :=
  E3.tmAdd (E3.nonEmptyCount u s (start :: ends.eraseIdx i)).1
    ⟨ends.getD i 0, start :: ends.eraseIdx i,
     (- (E3.shiftsOf u r).getD i 0) :: (((E3.shiftsOf u r).eraseIdx i).map (· + (- (E3.shiftsOf u r).getD i 0))),
     bucketOf r ((E3.nonEmptyCount u s (start :: ends.eraseIdx i)).2 == 1) true⟩

def dbAdd' (u : E3.FUniverse) (s : E3.St) (start : Nat) (ends : List Nat) (r : RuleOut) : E3.St :=
  let s1 := if r.flags.possiblyEmpty then ends.foldl (emptyStep u) s else s
  let s3 := E3.tmAdd (E3.nonEmptyCount u s1 ends).1
    ⟨start, ends, E3.shiftsOf u r, bucketOf r (!r.isVer && (E3.nonEmptyCount u s1 ends).2 == 1) false⟩
  if u.reverse && !r.isVer then (List.range ends.length).foldl (revStep u start ends r) s3 else s3

theorem dbAdd_eq (u : E3.FUniverse) (s : E3.St) (start : Nat) (ends : List Nat) (r : RuleOut) :
    E3.dbAdd u s start ends r = dbAdd' u s start ends r := by
  unfold E3.dbAdd dbAdd'
  rfl

/-- the part of the state the invariants talk about, relative to a fixed class list -/
structure Fr (u : E3.FUniverse) (p : Pack) (P : Nat → Prop) (s0 : E3.St) (G : E3.FKey → Prop) (s : E3.St) : Prop where
  log : ∀ k, k ∈ s.log → k ∈ s0.log ∨ G k
  cls : s.cdb.classes = s0.cdb.classes
  cache : CacheOK u.base s.cdb
  ql : QL p s.q P

theorem Fr.refl {u : E3.FUniverse} {p : Pack} {P : Nat → Prop} {s : E3.St} {G : E3.FKey → Prop}
    (hc : CacheOK u.base s.cdb) (hq : QL p s.q P) : Fr u p P s G s :=
  ⟨fun _ h => Or.inl h, rfl, hc, hq⟩

theorem nonEmptyCount_fr {u : E3.FUniverse} {p : Pack} {P : Nat → Prop} {s0 : E3.St} {G : E3.FKey → Prop} (ls : List Nat)
    (s : E3.St) (h : Fr u p P s0 G s) : Fr u p P s0 G (E3.nonEmptyCount u s ls).1 := by
  unfold E3.nonEmptyCount
  refine foldl_inv _ (fun (acc : E3.St × Nat) => Fr u p P s0 G acc.1) _ _ h ?_
  intro acc l _ ha
  exact ⟨ha.log, by simp only; rw [isEmpty_classes]; exact ha.cls, (isEmpty_truth ha.cache l).2, ha.ql⟩

theorem tmAdd_fr {u : E3.FUniverse} {p : Pack} {P : Nat → Prop} {s0 : E3.St} {G : E3.FKey → Prop}
    (s : E3.St) (k : E3.FKey) (h : Fr u p P s0 G s) (hk : G k) : Fr u p P s0 G (E3.tmAdd s k) := by
  unfold E3.tmAdd
  refine ⟨?_, h.cls, h.cache, h.ql⟩
  intro k' hk'
  rcases List.mem_append.1 hk' with e | e
  · exact h.log k' e
  · simp only [List.mem_singleton] at e; rw [e]; exact Or.inr hk

theorem dbAdd_frame (u : E3.FUniverse) (s : E3.St) (start : Nat) (ends : List Nat) (r : RuleOut) (p : Pack) (P : Nat → Prop)
    (hq : QL p s.q P) (hc : CacheOK u.base s.cdb) (ha : ArgsOK u.base s.cdb start ends r) :
    Fr u p P s (Genuine3 u s.cdb) (E3.dbAdd u s start ends r) := by
  rw [dbAdd_eq]
  unfold dbAdd'
  have h1 : Fr u p P s (Genuine3 u s.cdb) (if r.flags.possiblyEmpty then ends.foldl (emptyStep u) s else s) := by
    split
    · refine foldl_inv _ (fun s' => Fr u p P s (Genuine3 u s.cdb) s') _ _ (Fr.refl hc hq) ?_
      intro b l hl hb
      unfold emptyStep
      split
      · exact hb
      · obtain ⟨t1, t2⟩ := isEmpty_truth hb.cache l
        have hcl : (b.cdb.isEmpty u.base l).1.classes = s.cdb.classes := by rw [isEmpty_classes]; exact hb.cls
        split
        · rename_i htrue
          apply tmAdd_fr
          · exact ⟨hb.log, hcl, t2, hb.ql.setStop l⟩
          · left
            refine ⟨rfl, rfl, Labs.lt ha.en l hl, ?_⟩
            have : TrulyEmpty u.base s.cdb l = TrulyEmpty u.base b.cdb l := by unfold TrulyEmpty; rw [hb.cls]
            rw [this, ← t1]; exact htrue
        · exact ⟨hb.log, hcl, t2, hb.ql⟩
    · exact Fr.refl hc hq
  generalize (if r.flags.possiblyEmpty then ends.foldl (emptyStep u) s else s) = s1 at h1
  have h3 := tmAdd_fr _ ⟨start, ends, E3.shiftsOf u r, bucketOf r (!r.isVer && (E3.nonEmptyCount u s1 ends).2 == 1) false⟩
    (nonEmptyCount_fr ends s1 h1) (Or.inr (Or.inl ⟨start, ends, r, ha, rfl, rfl, rfl⟩))
  simp only
  split
  · refine foldl_inv _ (fun s' => Fr u p P s (Genuine3 u s.cdb) s') _ _ h3 ?_
    intro b i hi hb
    unfold revStep
    exact tmAdd_fr _ _ (nonEmptyCount_fr _ b hb) (Or.inr (Or.inr ⟨start, ends, r, i, ha, List.mem_range.1 hi, rfl, rfl⟩))
  · exact h3

/-- invariant and growth relative to a base state -/
def Good (u : E3.FUniverse) (s0 s : E3.St) : Prop := EI3 u s ∧ Ext s0.cdb s.cdb

theorem Good.refl {u : E3.FUniverse} {s : E3.St} (h : EI3 u s) : Good u s s := ⟨h, Ext.refl _⟩
theorem Good.trans {u : E3.FUniverse} {s0 s1 s2 : E3.St} (h1 : Good u s0 s1) (h2 : Good u s1 s2) : Good u s0 s2 :=
  ⟨h2.1, h1.2.trans h2.2⟩

theorem Good.of {u : E3.FUniverse} {s0 s s' : E3.St} (h : Good u s0 s) (hlog : ∀ e, e ∈ s'.log → e ∈ s.log)
    (hc : s'.cdb.classes = s.cdb.classes) (hq : QL (E3.packOf u) s'.q (fun l => l < s.cdb.classes.length))
    (hcache : CacheOK u.base s'.cdb) : Good u s0 s' := by
  have he : Ext s.cdb s'.cdb := ⟨[], by simp [hc]⟩
  refine ⟨⟨fun e he' => (h.1.gen e (hlog e he')).ext he, ?_, by rw [hc]; exact h.1.nd, hcache⟩, h.2.trans he⟩
  rw [hc]; exact hq

theorem Good.congr {u : E3.FUniverse} {s0 s s' : E3.St} (h : Good u s0 s) (hlog : s'.log = s.log) (hc : s'.cdb = s.cdb)
    (hq : s'.q = s.q) : Good u s0 s' :=
  h.of (by rw [hlog]; exact fun _ x => x) (by rw [hc]) (by rw [hq]; exact h.1.ql) (by rw [hc]; exact h.1.cache)

theorem Good.setEmpty {u : E3.FUniverse} {s0 s : E3.St} (h : Good u s0 s) (l : Nat) (b : Bool)
    (hb : l < s.cdb.classes.length → b = TrulyEmpty u.base s.cdb l) :
    Good u s0 { s with cdb := s.cdb.setEmpty l b } :=
  h.of (fun _ x => x) (by simp [CDB.setEmpty]) h.1.ql (setEmpty_cache h.1.cache l b hb)

theorem Good.isEmptyCdb {u : E3.FUniverse} {s0 s : E3.St} (h : Good u s0 s) (l : Nat) :
    Good u s0 { s with cdb := (s.cdb.isEmpty u.base l).1 } :=
  h.of (fun _ x => x) (isEmpty_classes u.base s.cdb l) h.1.ql (isEmpty_truth h.1.cache l).2

theorem Good.withQ {u : E3.FUniverse} {s0 s : E3.St} (h : Good u s0 s) (q : Q) (hq : QL (E3.packOf u) q (fun l => l < s.cdb.classes.length)) :
    Good u s0 { s with q := q } :=
  h.of (fun _ x => x) rfl hq h.1.cache

theorem Good.dbAdd {u : E3.FUniverse} {s0 s : E3.St} (h : Good u s0 s) {start : Nat} {ends : List Nat} {r : RuleOut}
    (ha : ArgsOK u.base s.cdb start ends r) : Good u s0 (E3.dbAdd u s start ends r) := by
  have f := dbAdd_frame u s start ends r _ _ h.1.ql h.1.cache ha
  have he : Ext s.cdb (E3.dbAdd u s start ends r).cdb := ⟨[], by simp [f.cls]⟩
  refine ⟨⟨?_, by rw [f.cls]; exact f.ql, by rw [f.cls]; exact h.1.nd, f.cache⟩, h.2.trans he⟩
  intro k hk
  rcases f.log k hk with e | e
  · exact (h.1.gen k e).ext he
  · exact e.ext he

theorem labelRule_spec (s : E3.St) (x lbl : Nat) (r : RuleOut) (s' : E3.St) (start : Nat) (ends : List Nat)
    (h : E3.labelRule s x lbl r = some (s', start, ends)) (hx : lab s.cdb lbl x) :
    Ext s.cdb s'.cdb ∧ lab s'.cdb start r.parent ∧ Labs s'.cdb ends r.children ∧ s'.log = s.log ∧ s'.q = s.q ∧
    (s.cdb.classes.Nodup → s'.cdb.classes.Nodup) ∧
    (∀ u : Universe, CacheOK u s.cdb → CacheOK u s'.cdb) := by
  unfold E3.labelRule at h
  split at h
  · cases h
  · simp only [Option.some.injEq, Prod.mk.injEq] at h
    obtain ⟨a, b⟩ := labelFold r.children s.cdb [] [] .nil
    have nd := labelFold_nodup r.children s.cdb []
    have ca := fun u : Universe => labelFold_cache (u := u) r.children s.cdb []
    simp only [List.nil_append] at b
    generalize List.foldl _ (s.cdb, []) r.children = res at a b h nd ca
    obtain ⟨c1, es⟩ := res
    simp only at a b h nd ca
    by_cases hp : (r.parent == x) = true
    · simp only [hp, ↓reduceIte] at h
      obtain ⟨h1, h2, h3⟩ := h
      subst h1; subst h2; subst h3
      have : r.parent = x := by simpa using hp
      refine ⟨a, ?_, b, rfl, rfl, nd, ca⟩
      rw [this]; exact hx.ext a
    · simp only [hp] at h
      obtain ⟨h1, h2, h3⟩ := h
      subst h1; subst h2; subst h3
      obtain ⟨e1, l1⟩ := getLabel_spec c1 r.parent
      exact ⟨a.trans e1, l1, Labs.ext e1 b, rfl, rfl, fun h0 => getLabel_nodup c1 r.parent (nd h0),
        fun u h0 => getLabel_cache (ca u h0) r.parent⟩

theorem Good.grow {u : E3.FUniverse} {s0 s s' : E3.St} (h : Good u s0 s) (hlog : s'.log = s.log) (he : Ext s.cdb s'.cdb)
    (hq : s'.q = s.q) (hnd : s'.cdb.classes.Nodup)
    (hcache : CacheOK u.base s'.cdb) : Good u s0 s' := by
  refine ⟨⟨?_, ?_, hnd, hcache⟩, h.2.trans he⟩
  · intro e hm; rw [hlog] at hm; exact (h.1.gen e hm).ext he
  · rw [hq]; exact h.1.ql.mono (fun l hl => Nat.lt_of_lt_of_le hl he.len)

/-- applying the rules of one strategy to a labelled class, each through `addRule` -/
theorem applyFold_good {u : E3.FUniverse} (fuel : Nat)
    (hadd : ∀ s start ends r, EI3 u s → ArgsOK u.base s.cdb start ends r → Good u s (E3.addRule u fuel s start ends r))
    (σ x l : Nat) (hσ : σ ∈ allStrats u.base) (s0 s : E3.St) (h : Good u s0 s) (hl : lab s.cdb l x) :
    Good u s0 ((u.base.apply σ x).foldl (fun s r =>
          match E3.labelRule s x l r with
          | none => s
          | some (s, start, ends) => E3.addRule u fuel s start ends r) s) ∧
    lab ((u.base.apply σ x).foldl (fun s r =>
          match E3.labelRule s x l r with
          | none => s
          | some (s, start, ends) => E3.addRule u fuel s start ends r) s).cdb l x := by
  refine foldl_inv _ (fun s' => Good u s0 s' ∧ lab s'.cdb l x) _ _ ⟨h, hl⟩ ?_
  intro b r hr ⟨hb, hlb⟩
  split
  · exact ⟨hb, hlb⟩
  · rename_i s1 start ends hlr
    obtain ⟨e1, l1, l2, l3, l4, l5, l8⟩ := labelRule_spec b x l r s1 start ends hlr hlb
    have hb1 : Good u s0 s1 := hb.grow l3 e1 l4 (l5 hb.1.nd) (l8 u.base hb.1.cache)
    have hg := hadd s1 start ends r hb1.1 ⟨⟨σ, x, hσ, hr⟩, l1, l2⟩
    exact ⟨hb1.trans hg, hlb.ext (e1.trans hg.2)⟩

def st1 (r : RuleOut) (s : E3.St) (l : Nat) : E3.St :=
  if !r.flags.possiblyEmpty then { s with cdb := s.cdb.setEmpty l false } else s
def st2 (u : E3.FUniverse) (fuel : Nat) (s : E3.St) (c l : Nat) : E3.St :=
  if !u.base.sym.isEmpty && !s.symExp.contains l then E3.symExpand u fuel s c l else s
def st3 (u : E3.FUniverse) (r : RuleOut) (s : E3.St) (l : Nat) : E3.St :=
  if r.flags.workable then { s with q := s.q.add (E3.packOf u) l } else s
def st4 (r : RuleOut) (s : E3.St) (l : Nat) : E3.St :=
  if !r.flags.inferrable then { s with q := s.q.setNotInferrable l } else s
def childStep (u : E3.FUniverse) (fuel : Nat) (r : RuleOut) (s : E3.St) (c l : Nat) : E3.St :=
  E3.tryVerify u fuel (st4 r (st3 u r (st2 u fuel (st1 r s l) c l) l) l) c l

theorem addRule_succ (u : E3.FUniverse) (fuel : Nat) (s : E3.St) (start : Nat) (ends : List Nat) (r : RuleOut) :
    E3.addRule u (fuel + 1) s start ends r =
      E3.dbAdd u
        ((fun s => if r.flags.ignoreParent then { s with q := s.q.setStop start } else s)
          ((r.children.zip ends).foldl (fun s (ce : Nat × Nat) => childStep u fuel r s ce.1 ce.2) s)) start ends r := by
  rw [E3.addRule]
  rfl

theorem childStep_good {u : E3.FUniverse} (fuel : Nat) (r : RuleOut)
    (hT : ∀ s x l, EI3 u s → lab s.cdb l x → Good u s (E3.tryVerify u fuel s x l))
    (hS : ∀ s x l, EI3 u s → lab s.cdb l x → Good u s (E3.symExpand u fuel s x l))
    (s0 s : E3.St) (c l : Nat) (h : Good u s0 s) (hl : lab s.cdb l c)
    (hne : r.flags.possiblyEmpty = false → u.base.empty.getD c false = false) : Good u s0 (childStep u fuel r s c l) := by
  unfold childStep
  have g1 : Good u s0 (st1 r s l) ∧ lab (st1 r s l).cdb l c := by
    unfold st1; split
    · rename_i hpe
      have hpe' : r.flags.possiblyEmpty = false := by simpa using hpe
      exact ⟨h.setEmpty l false (fun _ => by rw [lab_truly hl, hne hpe']), hl.ext ⟨[], by simp [CDB.setEmpty]⟩⟩
    · exact ⟨h, hl⟩
  have g2 : Good u s0 (st2 u fuel (st1 r s l) c l) ∧ lab (st2 u fuel (st1 r s l) c l).cdb l c := by
    unfold st2; split
    · have := hS _ c l g1.1.1 g1.2
      exact ⟨g1.1.trans this, g1.2.ext this.2⟩
    · exact g1
  generalize st2 u fuel (st1 r s l) c l = s2 at g2 ⊢
  have g3 : Good u s0 (st3 u r s2 l) ∧ lab (st3 u r s2 l).cdb l c := by
    unfold st3; split
    · exact ⟨g2.1.withQ _ (g2.1.1.ql.add l g2.2.lt), g2.2⟩
    · exact g2
  generalize st3 u r s2 l = s3 at g3 ⊢
  have g4 : Good u s0 (st4 r s3 l) ∧ lab (st4 r s3 l).cdb l c := by
    unfold st4; split
    · exact ⟨g3.1.withQ _ (g3.1.1.ql.setNotInferrable l), g3.2⟩
    · exact g3
  generalize st4 r s3 l = s4 at g4 ⊢
  exact g4.1.trans (hT s4 c l g4.1.1 g4.2)

def symStep (u : E3.FUniverse) (b : Bool) (x l : Nat) (acc : E3.St × List Nat) (r : RuleOut) : E3.St × List Nat :=
  match E3.labelRule acc.1 x l r with
  | none => (acc.1, acc.2)
  | some (s, start, ends) =>
    (({ (E3.dbAdd u { s with cdb := s.cdb.setEmpty ends.head! b } start [ends.head!] r) with
        q := (E3.dbAdd u { s with cdb := s.cdb.setEmpty ends.head! b } start [ends.head!] r).q.setStop ends.head! } : E3.St),
     acc.2 ++ [ends.head!])

def symFold (u : E3.FUniverse) (s : E3.St) (x l : Nat) : E3.St × List Nat :=
  u.base.sym.foldl (fun acc σ => (u.base.apply σ x).foldl (symStep u (s.cdb.isEmpty u.base l).2 x l) acc)
    (({ s with cdb := (s.cdb.isEmpty u.base l).1 } : E3.St), [l])

theorem symExpand_succ (u : E3.FUniverse) (fuel : Nat) (s : E3.St) (x l : Nat) :
    E3.symExpand u (fuel + 1) s x l =
      { (symFold u s x l).1 with
        symExp := (symFold u s x l).1.symExp ++ (symFold u s x l).2.filter (fun y => !(symFold u s x l).1.symExp.contains y) } := by
  rw [E3.symExpand]
  rfl

theorem symStep_good {u : E3.FUniverse} (hw : WFU u.base) (b : Bool) (σ x l : Nat) (hσ : σ ∈ u.base.sym) (s0 : E3.St)
    (acc : E3.St × List Nat) (r : RuleOut) (hr : r ∈ u.base.apply σ x) (h : Good u s0 acc.1) (hl : lab acc.1.cdb l x)
    (hb : b = u.base.empty.getD x false) :
    Good u s0 (symStep u b x l acc r).1 ∧ lab (symStep u b x l acc r).1.cdb l x := by
  unfold symStep
  split
  · exact ⟨h, hl⟩
  · rename_i s1 start ends hlr
    obtain ⟨e1, l1, l2, l3, l4, l5, l8⟩ := labelRule_spec acc.1 x l r s1 start ends hlr hl
    have h1 : Good u s0 s1 := h.grow l3 e1 l4 (l5 h.1.nd) (l8 u.base h.1.cache)
    have hs := Labs.single l2 (hw.sym σ hσ x r hr)
    have hc1 := Labs.head l2 (by rw [hw.sym σ hσ x r hr]; exact Nat.one_pos)
    have hmem : r.children.head! ∈ r.children := by
      have := hw.sym σ hσ x r hr
      cases hch : r.children with
      | nil => rw [hch] at this; simp at this
      | cons a t => exact List.mem_cons_self
    have h2 := h1.setEmpty ends.head! b (fun _ => by rw [lab_truly hc1, hb, hw.symE σ hσ x r hr _ hmem])
    have he2 : Ext s1.cdb ({ s1 with cdb := s1.cdb.setEmpty ends.head! b } : E3.St).cdb := ⟨[], by simp [CDB.setEmpty]⟩
    have ha : ArgsOK u.base ({ s1 with cdb := s1.cdb.setEmpty ends.head! b } : E3.St).cdb start [ends.head!] r :=
      ⟨⟨σ, x, mem_all_sym hσ, hr⟩, l1.ext he2, by rw [← hs]; exact Labs.ext he2 l2⟩
    have h3 := h2.dbAdd ha
    have h4 := h3.withQ _ (h3.1.ql.setStop ends.head!)
    exact ⟨h4, hl.ext (e1.trans (he2.trans (Ext.trans (Good.dbAdd (Good.refl h2.1) ha).2 (Ext.refl _))))⟩

theorem engine_mutual {u : E3.FUniverse} (hw : WFU u.base) : ∀ fuel : Nat,
    (∀ s start ends r, EI3 u s → ArgsOK u.base s.cdb start ends r → Good u s (E3.addRule u fuel s start ends r)) ∧
    (∀ s x l, EI3 u s → lab s.cdb l x → Good u s (E3.tryVerify u fuel s x l)) ∧
    (∀ s x l, EI3 u s → lab s.cdb l x → Good u s (E3.symExpand u fuel s x l)) := by
  intro fuel
  induction fuel with
  | zero =>
    refine ⟨?_, ?_, ?_⟩
    · intro s start ends r h _; rw [E3.addRule]; exact Good.refl h
    · intro s x l h _; rw [E3.tryVerify]; exact Good.refl h
    · intro s x l h _; rw [E3.symExpand]; exact Good.refl h
  | succ fuel ih =>
    obtain ⟨hA, hT, hS⟩ := ih
    refine ⟨?_, ?_, ?_⟩
    · intro s start ends r h ha
      rw [addRule_succ]
      have hf : Good u s ((r.children.zip ends).foldl (fun s (ce : Nat × Nat) => childStep u fuel r s ce.1 ce.2) s) := by
        refine foldl_inv _ (fun s' => Good u s s') _ _ (Good.refl h) ?_
        intro b ce hce hb
        obtain ⟨σ0, x0, _, hr0⟩ := ha.prov
        exact childStep_good fuel r hT hS s b ce.1 ce.2 hb ((Labs.zip_mem ha.en ce hce).ext hb.2)
          (fun hpe => hw.ne σ0 x0 r hr0 hpe ce.1 (List.of_mem_zip hce).1)
      generalize (r.children.zip ends).foldl (fun s (ce : Nat × Nat) => childStep u fuel r s ce.1 ce.2) s = s1 at hf
      have hg : Good u s ((fun s => if r.flags.ignoreParent then { s with q := s.q.setStop start } else s) s1) := by
        simp only
        split
        · exact hf.withQ _ (hf.1.ql.setStop start)
        · exact hf
      generalize (fun s => if r.flags.ignoreParent then { s with q := s.q.setStop start } else s) s1 = s2 at hg
      exact hg.dbAdd (ha.ext hg.2)
    · intro s x l h hl
      rw [E3.tryVerify]
      split
      · exact Good.refl h
      · simp only
        have g0 : ∀ s1 : E3.St, s1.log = s.log → s1.cdb = (CDB.isEmpty u.base s.cdb l).fst → s1.q = s.q →
            Good u s s1 ∧ lab s1.cdb l x := by
          intro s1 e1 e2 e3
          have g : Good u s s1 := (Good.refl h).of (by rw [e1]; exact fun _ x => x) (by rw [e2]; exact isEmpty_classes u.base s.cdb l)
            (by rw [e3]; exact h.ql) (by rw [e2]; exact (isEmpty_truth h.cache l).2)
          exact ⟨g, hl.ext g.2⟩
        split
        · refine (g0 _ ?_ ?_ ?_).1 <;> rfl
        · refine (foldl_inv _ (fun s' => Good u s s' ∧ lab s'.cdb l x) _ _ (g0 _ ?_ ?_ ?_) ?_).1
          · rfl
          · rfl
          · rfl
          intro b σ hσ ⟨hb, hlb⟩
          split
          · exact ⟨hb, hlb⟩
          · exact applyFold_good fuel hA σ x l (mem_all_ver hσ) s b hb hlb
    · intro s x l h hl
      rw [symExpand_succ]
      have hf : Good u s (symFold u s x l).1 ∧ lab (symFold u s x l).1.cdb l x := by
        unfold symFold
        have g0 : Good u s ({ s with cdb := (s.cdb.isEmpty u.base l).1 } : E3.St) := (Good.refl h).isEmptyCdb l
        refine foldl_inv _ (fun (acc : E3.St × List Nat) => Good u s acc.1 ∧ lab acc.1.cdb l x) _ _ ⟨g0, hl.ext g0.2⟩ ?_
        intro acc σ hσ hacc
        refine foldl_inv _ (fun (acc : E3.St × List Nat) => Good u s acc.1 ∧ lab acc.1.cdb l x) _ _ hacc ?_
        intro acc2 r hr ⟨a1, a2⟩
        exact symStep_good hw _ σ x l hσ s acc2 r hr a1 a2 (by rw [(isEmpty_truth h.cache l).1, lab_truly hl])
      exact hf.1.congr rfl rfl rfl

theorem firstInf_spec (u : E3.FUniverse) (s : E3.St) (x l : Nat) (skip : Option Nat) :
    ∀ (strats : List Nat) (i i' σ : Nat) (r : RuleOut) (s' : E3.St) (start : Nat) (ends : List Nat),
      E3.firstInf u s x l skip i strats = some (i', σ, r, s', start, ends) →
      σ ∈ strats ∧ r ∈ u.base.apply σ x ∧ E3.labelRule s x l r = some (s', start, ends) := by
  intro strats
  induction strats with
  | nil => intro i i' σ r s' start ends h; simp [E3.firstInf] at h
  | cons τ rest ih =>
    intro i i' σ r s' start ends h
    unfold E3.firstInf at h
    split at h
    · obtain ⟨a, b, c⟩ := ih _ _ _ _ _ _ _ h
      exact ⟨List.mem_cons_of_mem _ a, b, c⟩
    · split at h
      · obtain ⟨a, b, c⟩ := ih _ _ _ _ _ _ _ h
        exact ⟨List.mem_cons_of_mem _ a, b, c⟩
      · rename_i r0 s0 st0 en0 tl hfm
        simp only [Option.some.injEq, Prod.mk.injEq] at h
        obtain ⟨_, h2, h3, h4, h5, h6⟩ := h
        subst h2; subst h3; subst h4; subst h5; subst h6
        have hm : (r0, (s0, st0, en0)) ∈ (u.base.apply τ x).filterMap (fun r => (E3.labelRule s x l r).map (fun t => (r, t))) := by
          rw [hfm]; exact List.mem_cons_self
        obtain ⟨r1, hr1, e⟩ := List.mem_filterMap.1 hm
        obtain ⟨t, ht, e2⟩ := Option.map_eq_some_iff.1 e
        simp only [Prod.mk.injEq] at e2
        obtain ⟨e3, e4⟩ := e2
        subst e3; subst e4
        exact ⟨List.mem_cons_self, hr1, ht⟩

def infBody (u : E3.FUniverse) (fuel : Nat) (sa : E3.St) (x l : Nat) (strats : List Nat) (skip : Option Nat) : E3.St :=
  match E3.firstInf u sa x l skip 0 strats with
  | none => sa
  | some (i, σ, r, s1, start, ends) =>
    E3.infExpand u fuel ({ (E3.addRule u fuel s1 start ends r) with q := (E3.addRule u fuel s1 start ends r).q.setNotInferrable start } : E3.St)
      r.children.head! ends.head! (strats.drop (i+1) ++ strats.take (i+1)) (some σ)

theorem infExpand_succ (u : E3.FUniverse) (fuel : Nat) (s : E3.St) (x l : Nat) (strats : List Nat) (skip : Option Nat) :
    E3.infExpand u (fuel + 1) s x l strats skip =
      if s.infExp.contains l then s else
      { (infBody u fuel { s with infExp := l :: s.infExp } x l strats skip) with
        q := (infBody u fuel { s with infExp := l :: s.infExp } x l strats skip).q.setNotInferrable l } := by
  rw [E3.infExpand]
  rfl

theorem infExpand_good {u : E3.FUniverse} (hw : WFU u.base) : ∀ (fuel : Nat) (s : E3.St) (x l : Nat) (strats : List Nat) (skip : Option Nat),
    (∀ σ, σ ∈ strats → σ ∈ u.base.inferral) → EI3 u s → lab s.cdb l x → Good u s (E3.infExpand u fuel s x l strats skip) := by
  intro fuel
  induction fuel with
  | zero => intro s x l strats skip _ h _; rw [E3.infExpand]; exact Good.refl h
  | succ fuel ih =>
    intro s x l strats skip hst h hl
    rw [infExpand_succ]
    split
    · exact Good.refl h
    · have g0 : Good u s ({ s with infExp := l :: s.infExp } : E3.St) := (Good.refl h).congr rfl rfl rfl
      generalize ({ s with infExp := l :: s.infExp } : E3.St) = sa at g0 ⊢
      have hla : lab sa.cdb l x := hl.ext g0.2
      have gm : Good u s (infBody u fuel sa x l strats skip) := by
        unfold infBody
        split
        · exact g0
        · rename_i i σ r s1 start ends hfi
          obtain ⟨m1, m2, m3⟩ := firstInf_spec u sa x l skip strats 0 i σ r s1 start ends hfi
          obtain ⟨e1, l1, l2, l3, l4, l5, l8⟩ := labelRule_spec sa x l r s1 start ends m3 hla
          have h1 : Good u s s1 := g0.grow l3 e1 l4 (l5 g0.1.nd) (l8 u.base g0.1.cache)
          have hadd := (engine_mutual hw fuel).1 s1 start ends r h1.1 ⟨⟨σ, x, mem_all_inf (hst σ m1), m2⟩, l1, l2⟩
          have h2 := h1.trans hadd
          have h3 := h2.withQ _ (h2.1.ql.setNotInferrable start)
          have hc := Labs.head (Labs.ext hadd.2 l2) (hw.inf σ (hst σ m1) x r m2)
          have hrec := ih _ r.children.head! ends.head! (strats.drop (i+1) ++ strats.take (i+1)) (some σ)
            (by
              intro τ hτ
              rcases List.mem_append.1 hτ with e | e
              · exact hst τ (List.mem_of_mem_drop e)
              · exact hst τ (List.mem_of_mem_take e)) h3.1 hc
          exact h3.trans hrec
      exact gm.withQ _ (gm.1.ql.setNotInferrable l)

theorem stratsOf_mem {u : E3.FUniverse} {w : Work} (hw : WorkOK (E3.packOf u) w) (hne : w ≠ .inferral) :
    ∀ σ, σ ∈ E3.stratsOf u w → σ ∈ allStrats u.base := by
  intro σ hσ
  cases w with
  | inferral => exact absurd rfl hne
  | initial i =>
    simp only [E3.stratsOf, List.mem_singleton] at hσ
    have : i < u.base.initial.length := hw
    unfold allStrats
    rw [hσ]
    have := getD_mem' (d := 0) this
    exact List.mem_append_left _ (List.mem_append_left _ (List.mem_append_left _ (List.mem_append_left _ this)))
  | expansion j i =>
    simp only [E3.stratsOf, List.mem_singleton] at hσ
    obtain ⟨h1, h2⟩ := hw
    simp only [E3.packOf, List.length_map] at h1 h2
    have hj : (u.base.expansion.map List.length).getD j 0 = (u.base.expansion.getD j []).length := by
      simp [List.getD_eq_getElem?_getD, h1]
    rw [hj] at h2
    have m1 : u.base.expansion.getD j [] ∈ u.base.expansion := by
      have : u.base.expansion.getD j [] = u.base.expansion[j] := by simp [List.getD_eq_getElem?_getD, h1]
      rw [this]; exact List.getElem_mem h1
    have m2 := getD_mem' (d := 0) h2
    unfold allStrats
    rw [hσ]
    have : (u.base.expansion.getD j []).getD i 0 ∈ u.base.expansion.flatten := List.mem_flatten.2 ⟨_, m1, m2⟩
    exact List.mem_append_left _ (List.mem_append_left _ (List.mem_append_right _ this))

def expandFold (u : E3.FUniverse) (fuel : Nat) (s : E3.St) (x l : Nat) (strats : List Nat) : E3.St :=
  strats.foldl (fun s σ =>
    (u.base.apply σ x).foldl (fun s r =>
      match E3.labelRule s x l r with
      | none => s
      | some (s, start, ends) => E3.addRule u fuel s start ends r) s) s

theorem expandFold_good {u : E3.FUniverse} (hw : WFU u.base) (fuel : Nat) (s : E3.St) (x l : Nat) (strats : List Nat)
    (hs : ∀ σ, σ ∈ strats → σ ∈ allStrats u.base) (h : EI3 u s) (hl : lab s.cdb l x) : Good u s (expandFold u fuel s x l strats) := by
  unfold expandFold
  refine (foldl_inv _ (fun s' => Good u s s' ∧ lab s'.cdb l x) _ _ ⟨Good.refl h, hl⟩ ?_).1
  intro b σ hσ ⟨hb, hlb⟩
  exact applyFold_good fuel (engine_mutual hw fuel).1 σ x l (hs σ hσ) s b hb hlb

theorem stepEngine_eq (u : E3.FUniverse) (fuel : Nat) (s : E3.St) :
    (E3.stepEngine u fuel s).1 =
      match Q.next (E3.packOf u) 100000 s.q with
      | (q, .yield w) =>
        if u.base.expandVerified || !(s.tm.val w.label == none) then
          match w.work with
          | .inferral => E3.infExpand u fuel { s with q := q } (s.cdb.classes.getD w.label 0) w.label u.base.inferral none
          | _ => expandFold u fuel { s with q := q } (s.cdb.classes.getD w.label 0) w.label (E3.stratsOf u w.work)
        else { s with q := q }
      | (q, _) => { s with q := q } := by
  unfold E3.stepEngine expandFold
  generalize Q.next (E3.packOf u) 100000 s.q = res
  obtain ⟨q, o⟩ := res
  cases o with
  | yield w =>
    simp only
    split
    · cases hw : w.work <;> rfl
    · rfl
  | stop => rfl
  | fuel => rfl

theorem stepEngine_good {u : E3.FUniverse} (hw : WFU u.base) (fuel : Nat) (s : E3.St) (h : EI3 u s) :
    Good u s (E3.stepEngine u fuel s).1 := by
  rw [stepEngine_eq]
  have hn := QL.next (p := E3.packOf u) (P := fun l => l < s.cdb.classes.length) 100000 s.q
  generalize Q.next (E3.packOf u) 100000 s.q = res at hn
  obtain ⟨q, o⟩ := res
  obtain ⟨hq, hy⟩ := hn q o h.ql rfl
  have g1 : Good u s ({ s with q := q } : E3.St) := (Good.refl h).withQ q hq
  cases o with
  | yield w =>
    obtain ⟨hlt, hwk⟩ := hy w rfl
    have hl : lab ({ s with q := q } : E3.St).cdb w.label (s.cdb.classes.getD w.label 0) := by
      unfold lab
      simp only
      rw [List.getD_eq_getElem?_getD, List.getElem?_eq_getElem hlt]; rfl
    simp only
    split
    · split
      · exact g1.trans (infExpand_good hw fuel _ _ _ _ none (fun _ x => x) g1.1 hl)
      · rename_i hne
        exact g1.trans (expandFold_good hw fuel _ _ _ _ (stratsOf_mem hwk (by intro e; exact hne e)) g1.1 hl)
    · exact g1
  | stop => exact g1
  | fuel => exact g1

theorem initEngine_good {u : E3.FUniverse} (hw : WFU u.base) (fuel c : Nat) : EI3 u (E3.initEngine u fuel c) := by
  have key : ∀ s0 : E3.St, s0.log = [] → s0.cdb = { classes := [c], empties := [none] } →
      s0.q = (Q.init (E3.packOf u)).add (E3.packOf u) 0 →
      EI3 u (if !u.base.sym.isEmpty then E3.symExpand u fuel (E3.tryVerify u fuel s0 c 0) c 0 else E3.tryVerify u fuel s0 c 0) := by
    intro s0 e1 e2 e3
    have h0 : EI3 u s0 := by
      refine ⟨fun e he => (by rw [e1] at he; cases he), ?_, by rw [e2]; simp, ?_⟩
      · rw [e2, e3]
        exact (QL.init _ _).add 0 (by simp)
      · rw [e2]
        refine ⟨rfl, ?_⟩
        intro l b hl
        cases l with
        | zero => simp at hl
        | succ l => simp at hl
    have hl : lab s0.cdb 0 c := by rw [e2]; simp [lab]
    have h1 := (engine_mutual hw fuel).2.1 s0 c 0 h0 hl
    split
    · exact (h1.trans ((engine_mutual hw fuel).2.2 _ c 0 h1.1 (lab.ext hl h1.2))).1
    · exact h1.1
  unfold E3.initEngine
  exact key _ rfl rfl rfl

/-- `n` packets of the expansion loop -/
def runN (u : E3.FUniverse) (fuel : Nat) : Nat → E3.St → E3.St
  | 0, s => s
  | n + 1, s => runN u fuel n (E3.stepEngine u fuel s).1

/-- **C04 (engine model, forest flavour).** After any number of expansion steps from the initial state, every key handed to
the table method is genuine (`Genuine3`), the emptiness cache is truthful, the class list has no repetition and every label
the queue holds is a label of the class database. -/
theorem forest_engine_invariants {u : E3.FUniverse} (hw : WFU u.base) (fuel c : Nat) :
    ∀ (n : Nat), EI3 u (runN u fuel n (E3.initEngine u fuel c)) := by
  have aux : ∀ (n : Nat) (s : E3.St), EI3 u s → EI3 u (runN u fuel n s) := by
    intro n
    induction n with
    | zero => intro s h; exact h
    | succ n ih => intro s h; exact ih _ (stepEngine_good hw fuel s h).1
  intro n
  exact aux n _ (initEngine_good hw fuel c)
#print axioms forest_engine_invariants
end F3
