import CSSVerif.Quotient
/-! Prototype: evaluator of a specification skeleton (C01/C02/C07/C19/C20). -/
inductive Kind | union | product | complement | quotient | ver
deriving Repr, DecidableEq, BEq

structure SRule where
  cls : Nat                      -- class index of the left-hand side
  kind : Kind
  parentNames : List String      -- parameter names of the constructor's `parent`
  idx : Nat := 0
  sub : List Nat                 -- class indices of the sub-term providers, in `subterms` order
  shifts : List Int              -- rule.shifts(), aligned with `sub`
  children : List Child          -- constructor children descriptions (terms filled in at run time)
  table : List (Nat × Terms) := []   -- verification rules: their own terms

abbrev Tab := Array (Array Terms)  -- class ↦ terms for sizes 0,1,2,…

def Tab.get (t : Tab) (c n : Nat) : Terms := (t.getD c #[]).getD n []
def Tab.len (t : Tab) (c : Nat) : Nat := (t.getD c #[]).size

/-- can rule `r` compute size `n` now? child `i` is needed up to `n - shift_i` -/
def ready (t : Tab) (r : SRule) (n : Nat) : Bool :=
  (r.sub.zip r.shifts).all (fun (cs : Nat × Int) => (n : Int) - cs.2 < (t.len cs.1 : Int))

/-- the children of the rule's constructor with their sub-term providers taken from the valuation `a` -/
def attach (a : Nat → Nat → Terms) (r : SRule) : List Child :=
  (r.children.zip r.sub).map (fun (cc : Child × Nat) => { cc.1 with terms := a cc.2 })

/-- class whose terms child `j` of a reverse rule's constructor reads: `sub = [original parent, original children
without idx…]`, the flipped child `idx` reads the rule's own class -/
def revClass (r : SRule) (j : Nat) : Nat :=
  if j == r.idx then r.cls else (r.sub.drop 1).getD (if j < r.idx then j else j - 1) 0

/-- the children of a reverse rule's constructor (those of the *original* rule) with their providers -/
def attachRev (a : Nat → Nat → Terms) (r : SRule) : List Child :=
  r.children.zipIdx.map (fun (cj : Child × Nat) => { cj.1 with terms := a (revClass r cj.2) })

/-- what rule `r` computes for size `n` from the sequences `a` (class ↦ size ↦ terms); `none` = an assertion of the
Python code fires. This is the functional `F r a n` of `sol_unique`. -/
def ruleSemO (r : SRule) (a : Nat → Nat → Terms) (n : Nat) : Option Terms :=
  match r.kind with
  | .ver => some (((r.table.find? (·.1 == n)).map (·.2)).getD [])
  | .union => unionTerms r.parentNames (attach a r) n
  | .product => some (productTerms r.parentNames (attach a r) n)
  | .complement | .quotient =>
    let cs := attachRev a r
    if r.kind == .complement then complementTerms r.parentNames cs r.idx (a (r.sub.headD 0)) n
    else quotientTerms r.parentNames cs r.idx (a (r.sub.headD 0)) n

def evalRule (t : Tab) (r : SRule) (n : Nat) : Option Terms := ruleSemO r (fun c m => t.get c m) n

/-- fill the table until every class has terms 0..N or nothing more is computable -/
def evalSpec (rules : List SRule) (nClasses N : Nat) : Nat → Tab → Tab × Bool
  | 0, t => (t, false)
  | fuel+1, t =>
    let (t', progressed, failed) := rules.foldl (fun (acc : Tab × Bool × Bool) r =>
      let (t, pr, fl) := acc
      let n := t.len r.cls
      if n > N || !ready t r n then (t, pr, fl) else
      match evalRule t r n with
      | some v => (t.setIfInBounds r.cls ((t.getD r.cls #[]).push v.norm), true, fl)
      | none => (t, pr, true)) (t, false, false)
    if failed then (t', false) else
    if !progressed then (t', (List.range nClasses).all (fun c => t'.len c > N || !(rules.any (·.cls == c))))
    else evalSpec rules nClasses N fuel t'
