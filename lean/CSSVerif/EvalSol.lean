import CSSVerif.SpecSem
/-! C01 (model): the table computed by the memoised evaluator `evalSpec` satisfies every rule of the skeleton on its
filled region, and that region is closed under the rules' declared reads; hence (bounded uniqueness) it agrees with
every solution — in particular the true enumeration — on every filled entry of a productive class. -/

def Tab.pushAt (t : Tab) (c : Nat) (v : Terms) : Tab := t.setIfInBounds c ((t.getD c #[]).push v)

theorem Tab.len_pushAt (t : Tab) (c : Nat) (v : Terms) (c' : Nat) :
    (t.pushAt c v).len c' = if c' = c ∧ c < t.size then t.len c' + 1 else t.len c' := by
  unfold Tab.pushAt Tab.len
  simp only [Array.getD_eq_getD_getElem?, Array.getElem?_setIfInBounds]
  by_cases h : c = c'
  · subst h
    by_cases h2 : c < t.size
    · simp [h2]
    · simp [h2]
  · have : ¬ (c' = c ∧ c < t.size) := fun hh => h hh.1.symm
    simp [h, this]

theorem Tab.get_pushAt (t : Tab) (c : Nat) (v : Terms) (c' m : Nat) :
    (t.pushAt c v).get c' m = if c' = c ∧ c < t.size ∧ m = t.len c then v else t.get c' m := by
  unfold Tab.pushAt Tab.len Tab.get
  simp only [Array.getD_eq_getD_getElem?, Array.getElem?_setIfInBounds]
  by_cases h : c = c'
  · subst h
    by_cases h2 : c < t.size
    · simp only [h2, and_self, ↓reduceIte, Option.getD_some, true_and, Array.getElem?_push]
      by_cases h3 : m = (t[c]?.getD #[]).size
      · simp [h3]
      · simp [h3]
    · simp [h2]
  · have : ¬ (c' = c ∧ c < t.size ∧ m = (t[c]?.getD #[]).size) := fun hh => h hh.1.symm
    simp [h, this]

/-- the functional the evaluator iterates: the rule's terms, normalised -/
def FN (skel : List SRule) (ρ : Rule) (a : Nat → Nat → Terms) (n : Nat) : Terms := (Fsk skel ρ a n).norm

theorem FN_local {skel : List SRule} (hwf : SkelWF skel) : Local (skel.map toRule) (FN skel) := by
  intro ρ hρ a b n h1 h2
  unfold FN
  rw [skel_local hwf ρ hρ a b n h1 h2]

/-- the filled region of the table is closed under the declared reads and satisfies every rule -/
structure TabInv (skel : List SRule) (t : Tab) : Prop where
  closed : ∀ r ∈ skel, ∀ n, n < t.len r.cls → ∀ d ∈ (toRule r).deps, ∀ m : Nat, (m : Int) ≤ (n : Int) - d.2 → m < t.len d.1
  sol : ∀ r ∈ skel, ∀ n, n < t.len r.cls → t.get r.cls n = FN skel (toRule r) (fun c m => t.get c m) n

theorem ready_spec {t : Tab} {r : SRule} {n : Nat} (h : ready t r n = true) :
    ∀ d ∈ (toRule r).deps, ∀ m : Nat, (m : Int) ≤ (n : Int) - d.2 → m < t.len d.1 := by
  intro d hd m hm
  unfold ready at h
  rw [List.all_eq_true] at h
  have := h d hd
  simp only [decide_eq_true_eq] at this
  omega

theorem cls_eq_of_nodup {skel : List SRule} (h : (skel.map (·.cls)).Nodup) {r r' : SRule} (hr : r ∈ skel) (hr' : r' ∈ skel)
    (he : r'.cls = r.cls) : r' = r := by
  have h1 := find_self h hr
  have h2 := find_self h hr'
  rw [he] at h2
  rw [h1] at h2
  exact (Option.some.inj h2).symm

/-- one evaluation step keeps the invariant -/
theorem step_inv {skel : List SRule} (hwf : SkelWF skel) {t : Tab} (hinv : TabInv skel t) {r : SRule} (hr : r ∈ skel)
    (hready : ready t r (t.len r.cls) = true) {v : Terms} (hv : evalRule t r (t.len r.cls) = some v) :
    TabInv skel (t.pushAt r.cls v.norm) := by
  have hloc := FN_local hwf
  by_cases hsz : r.cls < t.size
  case neg =>
    have : t.pushAt r.cls v.norm = t := by
      unfold Tab.pushAt; exact Array.setIfInBounds_eq_of_size_le (by omega)
    rw [this]; exact hinv
  -- reads inside the filled region are unchanged
  have hsame : ∀ c m, m < t.len c → (t.pushAt r.cls v.norm).get c m = t.get c m := by
    intro c m hm
    rw [Tab.get_pushAt]
    split
    · rename_i hc; obtain ⟨h1, _, h3⟩ := hc; subst h1; omega
    · rfl
  have hlen_mono : ∀ c, t.len c ≤ (t.pushAt r.cls v.norm).len c := by
    intro c; rw [Tab.len_pushAt]; split <;> omega
  -- the value of the new entry
  have hnew : FN skel (toRule r) (fun c m => (t.pushAt r.cls v.norm).get c m) (t.len r.cls) = v.norm := by
    have e1 : FN skel (toRule r) (fun c m => (t.pushAt r.cls v.norm).get c m) (t.len r.cls) =
              FN skel (toRule r) (fun c m => t.get c m) (t.len r.cls) := by
      apply hloc (toRule r) (List.mem_map.2 ⟨r, hr, rfl⟩)
      · intro d hd m hm
        exact hsame _ _ (ready_spec hready d hd m hm)
      · intro m hm
        exact hsame _ _ hm
    rw [e1]
    unfold FN Fsk
    have hfind : skel.find? (fun x => x.cls == (toRule r).parent) = some r := find_self hwf.lhsNodup hr
    rw [hfind]
    simp only
    unfold evalRule at hv
    rw [hv]; rfl
  constructor
  · intro r' hr' n hn d hd m hm
    rw [Tab.len_pushAt] at hn
    by_cases hc : r'.cls = r.cls
    · have := cls_eq_of_nodup hwf.lhsNodup hr hr' hc
      subst this
      simp only [hsz, and_self, ↓reduceIte] at hn
      by_cases hnn : n = t.len r'.cls
      · subst hnn
        exact Nat.lt_of_lt_of_le (ready_spec hready d hd m hm) (hlen_mono _)
      · exact Nat.lt_of_lt_of_le (hinv.closed r' hr' n (by omega) d hd m hm) (hlen_mono _)
    · simp only [hc, false_and, ↓reduceIte] at hn
      exact Nat.lt_of_lt_of_le (hinv.closed r' hr' n hn d hd m hm) (hlen_mono _)
  · intro r' hr' n hn
    rw [Tab.len_pushAt] at hn
    have hold : n < t.len r'.cls → (t.pushAt r.cls v.norm).get r'.cls n =
        FN skel (toRule r') (fun c m => (t.pushAt r.cls v.norm).get c m) n := by
      intro hlt
      rw [hsame _ _ hlt, hinv.sol r' hr' n hlt]
      apply hloc (toRule r') (List.mem_map.2 ⟨r', hr', rfl⟩)
      · intro d hd m hm
        exact (hsame _ _ (hinv.closed r' hr' n hlt d hd m hm)).symm
      · intro m hm
        exact (hsame _ _ (by show m < t.len r'.cls; omega)).symm
    by_cases hc : r'.cls = r.cls
    · have := cls_eq_of_nodup hwf.lhsNodup hr hr' hc
      subst this
      simp only [hsz, and_self, ↓reduceIte] at hn
      by_cases hnn : n = t.len r'.cls
      · subst hnn
        rw [hnew, Tab.get_pushAt]
        simp [hsz]
      · exact hold (by omega)
    · simp only [hc, false_and, ↓reduceIte] at hn
      exact hold hn

/-- one rule's turn in a pass of `evalSpec` -/
def evalStep (N : Nat) (acc : Tab × Bool × Bool) (r : SRule) : Tab × Bool × Bool :=
  let n := acc.1.len r.cls
  if n > N || !ready acc.1 r n then acc else
  match evalRule acc.1 r n with
  | some v => (acc.1.pushAt r.cls v.norm, true, acc.2.2)
  | none => (acc.1, acc.2.1, true)

theorem evalSpec_succ (rules : List SRule) (nC N fuel : Nat) (t : Tab) :
    evalSpec rules nC N (fuel + 1) t =
      (let res := rules.foldl (evalStep N) (t, false, false)
       if res.2.2 then (res.1, false) else
       if !res.2.1 then (res.1, (List.range nC).all (fun c => res.1.len c > N || !(rules.any (·.cls == c))))
       else evalSpec rules nC N fuel res.1) := by
  rw [evalSpec]
  rfl

theorem foldl_pres {α β : Type} (P : α → Prop) (g : α → β → α) (Q : β → Prop) (h : ∀ a b, Q b → P a → P (g a b)) :
    ∀ (l : List β) (a : α), (∀ b ∈ l, Q b) → P a → P (l.foldl g a)
  | [], a, _, ha => ha
  | b :: l, a, hq, ha => by
    rw [List.foldl_cons]
    exact foldl_pres P g Q h l _ (fun x hx => hq x (List.mem_cons_of_mem _ hx)) (h a b (hq b List.mem_cons_self) ha)

theorem evalStep_inv {skel : List SRule} (hwf : SkelWF skel) (N : Nat) (acc : Tab × Bool × Bool) (r : SRule) (hr : r ∈ skel)
    (h : TabInv skel acc.1) : TabInv skel (evalStep N acc r).1 := by
  unfold evalStep
  simp only
  split
  · exact h
  · rename_i hc
    simp only [Bool.or_eq_true, decide_eq_true_eq, Bool.not_eq_true', not_or, Bool.not_eq_false] at hc
    split
    · rename_i v hv
      exact step_inv hwf h hr hc.2 hv
    · exact h

/-- **C01 (model): the evaluator's table satisfies every rule on its filled region**, which is closed under the rules'
declared reads -/
theorem evalSpec_inv {skel : List SRule} (hwf : SkelWF skel) (nC N : Nat) :
    ∀ (fuel : Nat) (t : Tab), TabInv skel t → TabInv skel (evalSpec skel nC N fuel t).1
  | 0, t, h => by rw [evalSpec]; exact h
  | fuel + 1, t, h => by
    rw [evalSpec_succ]
    have hres : TabInv skel (skel.foldl (evalStep N) (t, false, false)).1 :=
      foldl_pres (fun acc => TabInv skel acc.1) (evalStep N) (· ∈ skel) (fun a b hb ha => evalStep_inv hwf N a b hb ha)
        skel _ (fun _ hb => hb) h
    simp only
    split
    · exact hres
    · split
      · exact hres
      · exact evalSpec_inv hwf nC N fuel _ hres

theorem tabInv_empty (skel : List SRule) (k : Nat) : TabInv skel (Array.replicate k #[]) := by
  have h0 : ∀ c, Tab.len (Array.replicate k #[]) c = 0 := by
    intro c; unfold Tab.len
    simp only [Array.getD_eq_getD_getElem?, Array.getElem?_replicate]
    split <;> simp
  constructor
  · intro r _ n hn; rw [h0] at hn; omega
  · intro r _ n hn; rw [h0] at hn; omega

/-- bounded uniqueness: a valuation that satisfies the rules on a region closed under the declared reads agrees, on that
region, with every solution, at every computable entry -/
theorem sol_unique_region {α : Type} {R : List Rule} {F : Rule → (Nat → Nat → α) → Nat → α} (hloc : Local R F)
    (S : Nat → Nat → Prop) {a b : Nat → Nat → α}
    (hclosed : ∀ r ∈ R, ∀ n, S r.parent n → ∀ d ∈ r.deps, ∀ m : Nat, (m : Int) ≤ (n : Int) - d.2 → S d.1 m)
    (hdown : ∀ c n m, S c n → m < n → S c m)
    (ha : ∀ r ∈ R, ∀ n, S r.parent n → a r.parent n = F r a n) (hb : IsSol R F b)
    {c n : Nat} (h : Comp' R c n) : S c n → a c n = b c n := by
  induction h with
  | mk r n hr _ _ ih ihself =>
    intro hS
    rw [ha r hr n hS, hb r hr n]
    exact hloc r hr a b n (fun d hd m hm => ih d hd m hm (hclosed r hr n hS d hd m hm))
      (fun m hm => ihself m hm (hdown _ _ _ hS hm))

/-- **C01 (model), end to end.** Whatever the evaluator has filled in for a productive class equals the corresponding
entry of *any* valuation `b` satisfying every rule (normalised) — in particular the true enumeration, which satisfies
every rule by C09. -/
theorem evalSpec_correct {skel : List SRule} (hwf : SkelWF skel) (nC N fuel k : Nat) (b : Nat → Nat → Terms)
    (hb : IsSol (skel.map toRule) (FN skel) b) (c n : Nat) (hprod : Comp (skel.map toRule) c n)
    (hfilled : n < (evalSpec skel nC N fuel (Array.replicate k #[])).1.len c) :
    (evalSpec skel nC N fuel (Array.replicate k #[])).1.get c n = b c n := by
  have hinv := evalSpec_inv hwf nC N fuel _ (tabInv_empty skel k)
  refine sol_unique_region (FN_local hwf) (fun c n => n < (evalSpec skel nC N fuel (Array.replicate k #[])).1.len c)
    (a := fun c m => (evalSpec skel nC N fuel (Array.replicate k #[])).1.get c m) ?_ ?_ ?_ hb
    (hprod.toComp' n (Nat.le_refl _)) hfilled
  · intro ρ hρ n hn d hd m hm
    obtain ⟨r, hr, rfl⟩ := List.mem_map.1 hρ
    exact hinv.closed r hr n hn d hd m hm
  · intro c n m h1 h2; exact Nat.lt_trans h2 h1
  · intro ρ hρ n hn
    obtain ⟨r, hr, rfl⟩ := List.mem_map.1 hρ
    exact hinv.sol r hr n hn
#print axioms evalSpec_inv
#print axioms evalSpec_correct
