import CSSVerif.Terms
import CSSVerif.Comps
/-- `CartesianProduct.get_terms` -/
def productTerms (parent : List String) (cs : List Child) (n : Nat) : Terms :=
  let bounds : List Bound := cs.map (fun c => (c.minSize, c.maxSize))
  (comps (n : Int) bounds).foldl (fun (acc : Terms) sizes =>
    let perChild : List (List (Param × Int)) := (cs.zip sizes).map (fun (cs : Child × Nat) =>
      (cs.1.terms cs.2).map (fun e => (paramMapSum (childPosToParentPos parent cs.1) parent.length e.1, e.2)))
    (cartesian perChild).foldl (fun (acc : Terms) combo =>
      let k := combo.foldl (fun k e => addParams k e.1) (List.replicate parent.length 0)
      let v := combo.foldl (fun v e => v * e.2) 1
      acc.addAt k v) acc) []
