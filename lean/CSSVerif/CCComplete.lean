import CSSVerif.EquivDB
import CSSVerif.UnionOps
import CSSVerif.Scc
/-! C06: `connect_cycles` merges every pair of mutually reachable vertices (completeness of the cycle search), for every
adjacency and every order of the successor lists. -/
namespace CC
open EDB

/-- the merge of one examined edge `last(path) → y`: when `y` is equivalent to a vertex of the path before its end, everything
from the first such vertex on is merged with `y` -/
def mergeFrom (path : List Nat) (uf : EDB) (y : Nat) : EDB :=
  match path.dropLast.findIdx? (fun v => uf.find v == uf.find y) with
  | some i => (path.drop i).foldl (fun uf v => uf.union v y) uf
  | none => uf

def stepSucc (path : List Nat) (acc : EDB × List (List Nat)) (y : Nat) : EDB × List (List Nat) :=
  (mergeFrom path acc.1 y, if path.contains y then acc.2 else (path ++ [y]) :: acc.2)

/-- `connectCycles.go`, returning the whole state (union-find, stack, visited) -/
def goS (succ : Nat → List Nat) : Nat → EDB → List (List Nat) → List Nat → EDB × List (List Nat) × List Nat
  | 0, uf, st, vis => (uf, st, vis)
  | _+1, uf, [], vis => (uf, [], vis)
  | fuel+1, uf, path :: rest, vis =>
    if vis.contains path.getLast! then goS succ fuel uf rest vis else
    goS succ fuel ((succ path.getLast!).foldl (stepSucc path) (uf, rest)).1 ((succ path.getLast!).foldl (stepSucc path) (uf, rest)).2
      (path.getLast! :: vis)

theorem go_eq (succ : Nat → List Nat) : ∀ (fuel : Nat) (uf : EDB) (st : List (List Nat)) (vis : List Nat),
    EqDB.connectCycles.go succ fuel uf st vis = (goS succ fuel uf st vis).1
  | 0, uf, st, vis => by rw [EqDB.connectCycles.go]; rfl
  | fuel+1, uf, [], vis => by simp [EqDB.connectCycles.go, goS]
  | fuel+1, uf, path :: rest, vis => by
    rw [EqDB.connectCycles.go, goS]
    by_cases h : vis.contains path.getLast! = true
    · simp only [h, ↓reduceIte]
      exact go_eq succ fuel uf rest vis
    · simp only [h, Bool.false_eq_true, ↓reduceIte]
      exact go_eq succ fuel ((succ path.getLast!).foldl (stepSucc path) (uf, rest)).1
        ((succ path.getLast!).foldl (stepSucc path) (uf, rest)).2 (path.getLast! :: vis)

theorem Rel.refl' (e : EDB) (a : Nat) : Rel e a a := rfl
theorem Rel.symm' {e : EDB} {a b : Nat} (h : Rel e a b) : Rel e b a := Eq.symm h
theorem Rel.trans' {e : EDB} {a b c : Nat} (h1 : Rel e a b) (h2 : Rel e b c) : Rel e a c := Eq.trans h1 h2

/-- `a` lies in the class of `y` or of a member of `L` -/
def MM (e : EDB) (L : List Nat) (y a : Nat) : Prop := Rel e a y ∨ ∃ u ∈ L, Rel e a u

/-- merging every member of `L` with `y`: two labels are related afterwards iff they were before or both lie in the merged classes -/
theorem foldUnion_spec (y : Nat) : ∀ (L : List Nat) (e : EDB), WF e →
    WF (L.foldl (fun uf v => uf.union v y) e) ∧
    ∀ a b, Rel (L.foldl (fun uf v => uf.union v y) e) a b ↔ Rel e a b ∨ (MM e L y a ∧ MM e L y b)
  | [], e, h => by
    refine ⟨h, fun a b => ⟨Or.inl, ?_⟩⟩
    rintro (h1 | ⟨h2 | ⟨u, hu, _⟩, h3 | ⟨u', hu', _⟩⟩)
    · exact h1
    · exact Rel.trans' h2 (Rel.symm' h3)
    · cases hu'
    · cases hu
    · cases hu
  | v :: L, e, h => by
    obtain ⟨w1, _, r1, _⟩ := union_spec h v y
    obtain ⟨w2, r2⟩ := foldUnion_spec y L (e.union v y) w1
    rw [List.foldl_cons]
    refine ⟨w2, fun a b => ?_⟩
    have hy : ∀ a, Rel (e.union v y) a y ↔ Rel e a y ∨ Rel e a v := by
      intro a
      rw [r1 a y]
      constructor
      · rintro (h1 | ⟨h1, _⟩ | ⟨h1, _⟩)
        · exact Or.inl h1
        · exact Or.inr h1
        · exact Or.inl h1
      · rintro (h1 | h1)
        · exact Or.inl h1
        · exact Or.inr (Or.inl ⟨h1, Rel.refl' e y⟩)
    have hm : ∀ a, MM (e.union v y) L y a ↔ MM e (v :: L) y a := by
      intro a
      unfold MM
      constructor
      · rintro (h1 | ⟨u, hu, h1⟩)
        · rcases (hy a).1 h1 with h2 | h2
          · exact Or.inl h2
          · exact Or.inr ⟨v, List.mem_cons_self .., h2⟩
        · rcases (r1 a u).1 h1 with h2 | ⟨h2, _⟩ | ⟨h2, _⟩
          · exact Or.inr ⟨u, List.mem_cons_of_mem _ hu, h2⟩
          · exact Or.inr ⟨v, List.mem_cons_self .., h2⟩
          · exact Or.inl h2
      · rintro (h1 | ⟨u, hu, h1⟩)
        · exact Or.inl ((hy a).2 (Or.inl h1))
        · rcases List.mem_cons.1 hu with rfl | hu
          · exact Or.inl ((hy a).2 (Or.inr h1))
          · exact Or.inr ⟨u, hu, (r1 a u).2 (Or.inl h1)⟩
    rw [r2 a b, hm a, hm b, r1 a b]
    constructor
    · rintro ((h1 | ⟨h1, h2⟩ | ⟨h1, h2⟩) | h3)
      · exact Or.inl h1
      · exact Or.inr ⟨Or.inr ⟨v, List.mem_cons_self .., h1⟩, Or.inl h2⟩
      · exact Or.inr ⟨Or.inl h1, Or.inr ⟨v, List.mem_cons_self .., h2⟩⟩
      · exact Or.inr h3
    · rintro (h1 | h3)
      · exact Or.inl (Or.inl h1)
      · exact Or.inr h3

theorem prefix_split {pre B1 B2 : List Nat} {g : Nat} (h : pre <+: B1 ++ g :: B2) : pre <+: B1 ∨ (B1 ++ [g]) <+: pre := by
  have h2 : (B1 ++ [g]) <+: B1 ++ g :: B2 := by
    have : B1 ++ g :: B2 = (B1 ++ [g]) ++ B2 := by simp
    rw [this]; exact List.prefix_append _ _
  rcases List.prefix_or_prefix_of_prefix h h2 with h3 | h3
  · rcases List.prefix_concat_iff.1 h3 with h4 | h4
    · exact Or.inr (h4 ▸ List.prefix_refl _)
    · exact Or.inl h4
  · exact Or.inr h3

/-- what one examined edge does to the union-find: nothing when no vertex before the end of the path is equivalent to `y`;
otherwise the path splits at the first such vertex `g` and everything from `g` on is merged with `y` -/
theorem mergeFrom_spec (path : List Nat) (uf : EDB) (y : Nat) (h : WF uf) :
    ((∀ v ∈ path.dropLast, ¬ Rel uf v y) ∧ mergeFrom path uf y = uf) ∨
    (∃ B1 g B2, path = B1 ++ g :: B2 ∧ B2 ≠ [] ∧ (∀ a ∈ B1, ¬ Rel uf a y) ∧ Rel uf g y ∧
      WF (mergeFrom path uf y) ∧
      ∀ a b, Rel (mergeFrom path uf y) a b ↔ Rel uf a b ∨ ((∃ u ∈ g :: B2, Rel uf a u) ∧ (∃ u ∈ g :: B2, Rel uf b u))) := by
  unfold mergeFrom
  cases hf : path.dropLast.findIdx? (fun v => uf.find v == uf.find y) with
  | none =>
    left
    refine ⟨?_, rfl⟩
    intro v hv
    have := List.findIdx?_eq_none_iff.1 hf v hv
    simpa [Rel] using this
  | some i =>
    right
    obtain ⟨hi, hp, hlt⟩ := List.findIdx?_eq_some_iff_getElem.1 hf
    have hi' : i < path.length := by rw [List.length_dropLast] at hi; omega
    have hg : Rel uf path[i] y := by
      rw [List.getElem_dropLast] at hp
      simpa [Rel] using hp
    refine ⟨path.take i, path[i], path.drop (i + 1), ?_, ?_, ?_, hg, ?_⟩
    · rw [List.getElem_cons_drop, List.take_append_drop]
    · intro e
      have := congrArg List.length e
      rw [List.length_drop, List.length_dropLast] at *
      simp at this; omega
    · intro a ha
      obtain ⟨j, hj, rfl⟩ := List.mem_take_iff_getElem.1 ha
      have hj1 : j < i := by omega
      have hj2 : j < path.dropLast.length := by omega
      have := hlt j hj1
      rw [List.getElem_dropLast] at this
      simpa [Rel] using this
    · simp only
      have hd : path.drop i = path[i] :: path.drop (i + 1) := (List.getElem_cons_drop ..).symm
      rw [hd]
      obtain ⟨w, r⟩ := foldUnion_spec y (path[i] :: path.drop (i + 1)) uf h
      refine ⟨w, fun a b => ?_⟩
      rw [r a b]
      have hm : ∀ a, MM uf (path[i] :: path.drop (i + 1)) y a ↔ ∃ u ∈ path[i] :: path.drop (i + 1), Rel uf a u := by
        intro a
        unfold MM
        constructor
        · rintro (h1 | h1)
          · exact ⟨path[i], List.mem_cons_self .., Rel.trans' h1 (Rel.symm' hg)⟩
          · exact h1
        · exact Or.inr
      rw [hm a, hm b]

/-! ### the invariant -/

inductive Reach (succ : Nat → List Nat) : Nat → Nat → Prop
  | refl (a : Nat) : Reach succ a a
  | step {a b c : Nat} : Reach succ a b → c ∈ succ b → Reach succ a c

theorem Reach.trans {succ : Nat → List Nat} {a b c : Nat} (h1 : Reach succ a b) (h2 : Reach succ b c) : Reach succ a c := by
  induction h2 with
  | refl => exact h1
  | step _ he ih => exact Reach.step ih he

/-- the parent chains of the stacked paths are nested: each is a prefix of the one above it -/
def Nest : List (List Nat) → Prop
  | [] => True
  | [_] => True
  | p :: q :: r => q.dropLast <+: p.dropLast ∧ Nest (q :: r)

theorem Nest.tail : ∀ {p : List Nat} {r : List (List Nat)}, Nest (p :: r) → Nest r
  | _, [], _ => trivial
  | _, _ :: _, h => h.2

theorem Nest.all : ∀ {p : List Nat} {r : List (List Nat)}, Nest (p :: r) → ∀ q ∈ r, q.dropLast <+: p.dropLast
  | _, [], _, _, hq => by cases hq
  | p, q0 :: r, h, q, hq => by
    rcases List.mem_cons.1 hq with rfl | hq
    · exact h.1
    · exact (Nest.all h.2 q hq).trans h.1

/-- visited and not equivalent to any vertex of the branch -/
def Dead (uf : EDB) (vis B : List Nat) (v : Nat) : Prop := v ∈ vis ∧ ∀ g ∈ B, ¬ Rel uf v g

/-- the invariant of the cycle search. `B` is the branch (the parent chain of the top of the stack, plus the vertex being
expanded while its successors are examined); `x`/`done`: the vertex being expanded and its successors examined so far. -/
structure Inv (succ : Nat → List Nat) (Vt : Nat → Prop) (K : List Nat) (uf : EDB) (st : List (List Nat)) (vis B : List Nat)
    (x : Option Nat) (done : List Nat) : Prop where
  wf : WF uf
  vtS : ∀ p ∈ st, ∀ v ∈ p, Vt v
  vtV : ∀ v ∈ vis, Vt v
  ne : ∀ p ∈ st, p ≠ []
  pre : ∀ p ∈ st, p.dropLast <+: B
  nest : Nest st
  bvis : ∀ v ∈ B, v ∈ vis
  keys : ∀ k ∈ K, k ∈ vis ∨ ∃ p ∈ st, p.getLast? = some k
  edge : ∀ v ∈ vis, ∀ w ∈ succ v, (x = some v → w ∈ done) → w ∈ vis ∨ ∃ p ∈ st, p.getLast? = some w ∧ v ∈ p.dropLast
  white : ∀ y, Vt y → y ∉ vis → ∀ z, Vt z → Rel uf z y → z = y
  intv : ∀ B1 g B2, B = B1 ++ g :: B2 → ∀ a ∈ B1, (∃ c ∈ g :: B2, Rel uf a c) → Rel uf a g
  lev : ∀ v ∈ vis, ∀ w ∈ succ v, (x = some v → w ∈ done) → w ∈ vis → ∀ pre, pre <+: B → (∃ g ∈ pre, Rel uf w g) →
    ∃ g' ∈ pre, Rel uf v g'
  deadA : ∀ v, Dead uf vis B v → ∀ w ∈ succ v, Dead uf vis B w
  deadB : ∀ v w, Dead uf vis B v → Dead uf vis B w → Reach succ v w → Reach succ w v → Rel uf v w

section shrink
variable {succ : Nat → List Nat} {Vt : Nat → Prop} {K : List Nat} {uf : EDB} {st : List (List Nat)} {vis B B' : List Nat}

theorem dead_reach (hA : ∀ v, Dead uf vis B v → ∀ w ∈ succ v, Dead uf vis B w) {a b : Nat} (ha : Dead uf vis B a)
    (h : Reach succ a b) : Dead uf vis B b := by
  induction h with
  | refl => exact ha
  | step _ he ih => exact hA _ ih _ he

/-- the branch may be cut back to any prefix that still contains the parent chains of all stacked paths: the classes that lose
their last vertex on the branch are closed under the edges and contain every cycle through them -/
theorem Inv.shrink (h : Inv succ Vt K uf st vis B none []) (hB : B' <+: B) (hp : ∀ p ∈ st, p.dropLast <+: B') :
    Inv succ Vt K uf st vis B' none [] := by
  have hsub : ∀ g ∈ B', g ∈ B := fun g hg => hB.subset hg
  -- closure of the new dead set
  have hA' : ∀ v, Dead uf vis B' v → ∀ w ∈ succ v, Dead uf vis B' w := by
    intro v hv w hw
    by_cases hold : ∀ g ∈ B, ¬ Rel uf v g
    · obtain ⟨h1, h2⟩ := h.deadA v ⟨hv.1, hold⟩ w hw
      exact ⟨h1, fun g hg => h2 g (hsub g hg)⟩
    · have hwv : w ∈ vis := by
        rcases h.edge v hv.1 w hw (by intro e; cases e) with h1 | ⟨p, hp1, _, hp3⟩
        · exact h1
        · exact absurd (Rel.refl' uf v) (hv.2 v ((hp p hp1).subset hp3))
      refine ⟨hwv, fun g hg hr => ?_⟩
      obtain ⟨g', hg', hr'⟩ := h.lev v hv.1 w hw (by intro e; cases e) hwv B' hB ⟨g, hg, hr⟩
      exact hv.2 g' hg' hr'
  refine ⟨h.wf, h.vtS, h.vtV, h.ne, hp, h.nest, fun v hv => h.bvis v (hsub v hv), h.keys, h.edge, h.white, ?_, ?_, hA', ?_⟩
  · intro B1 g B2 e a ha hc
    obtain ⟨T, hT⟩ := hB
    refine h.intv B1 g (B2 ++ T) (by rw [← hT, e]; simp) a ha ?_
    obtain ⟨c, hc1, hc2⟩ := hc
    refine ⟨c, ?_, hc2⟩
    rcases List.mem_cons.1 hc1 with rfl | hc1
    · exact List.mem_cons_self ..
    · exact List.mem_cons_of_mem _ (List.mem_append_left _ hc1)
  · intro v hv w hw hx hwv pre hpre hg
    exact h.lev v hv w hw hx hwv pre (hpre.trans hB) hg
  · -- every cycle through the newly dead classes lies inside one class
    intro v w hv hw hvw hwv
    have oldClosed : ∀ a, Dead uf vis B a → ∀ b, Reach succ a b → Dead uf vis B b :=
      fun a ha b hab => dead_reach h.deadA ha hab
    by_cases hvo : ∀ g ∈ B, ¬ Rel uf v g
    · exact h.deadB v w ⟨hv.1, hvo⟩ (oldClosed v ⟨hv.1, hvo⟩ w hvw) hvw hwv
    by_cases hwo : ∀ g ∈ B, ¬ Rel uf w g
    · exact h.deadB v w (oldClosed w ⟨hw.1, hwo⟩ v hwv) ⟨hw.1, hwo⟩ hvw hwv
    -- along a path between newly dead vertices the level can only go up
    have levPath : ∀ a b, Dead uf vis B' a → Reach succ a b → (¬ ∀ g ∈ B, ¬ Rel uf b g) →
        ∀ pre, pre <+: B → (∃ g ∈ pre, Rel uf b g) → ∃ g' ∈ pre, Rel uf a g' := by
      intro a b ha hab
      induction hab with
      | refl => intro _ pre _ hg; exact hg
      | @step c d hac hcd ih =>
        intro hnd pre hpre hg
        have hc : Dead uf vis B' c := dead_reach hA' ha hac
        have hd : Dead uf vis B' d := hA' c hc d hcd
        have hcn : ¬ ∀ g ∈ B, ¬ Rel uf c g := by
          intro hco
          exact hnd (h.deadA c ⟨hc.1, hco⟩ d hcd).2
        exact ih hcn pre hpre (h.lev c hc.1 d hcd (by intro e; cases e) hd.1 pre hpre hg)
    -- descend to a common vertex of the branch
    have main : ∀ (n : Nat) (pre : List Nat), pre.length ≤ n → pre <+: B → (∃ g ∈ pre, Rel uf w g) → Rel uf v w := by
      intro n
      induction n with
      | zero =>
        intro pre hl _ hg
        obtain ⟨g, hg1, _⟩ := hg
        have : pre = [] := List.eq_nil_of_length_eq_zero (by omega)
        rw [this] at hg1; cases hg1
      | succ n ih =>
        intro pre hl hpre hg
        -- `pre = pre0 ++ [t]`
        rcases List.eq_nil_or_concat pre with e | ⟨pre0, t, e⟩
        · obtain ⟨g, hg1, _⟩ := hg; rw [e] at hg1; cases hg1
        · have hpre0 : pre0 <+: B := (List.prefix_append pre0 [t]).trans (by rw [List.concat_eq_append] at e; rw [← e]; exact hpre)
          have hl0 : pre0.length ≤ n := by
            have := congrArg List.length e
            rw [List.length_concat] at this; omega
          by_cases hw0 : ∃ g ∈ pre0, Rel uf w g
          · exact ih pre0 hl0 hpre0 hw0
          · -- `w ~ t`, the last vertex of `pre`
            obtain ⟨g, hg1, hg2⟩ := hg
            rw [e, List.concat_eq_append] at hg1
            have hgt : g = t := by
              rcases List.mem_append.1 hg1 with h1 | h1
              · exact absurd ⟨g, h1, hg2⟩ hw0
              · simpa using h1
            subst hgt
            obtain ⟨g', hg'1, hg'2⟩ := levPath v w hv hvw hwo pre hpre ⟨g, by rw [e, List.concat_eq_append]; exact hg1, hg2⟩
            rw [e, List.concat_eq_append] at hg'1
            rcases List.mem_append.1 hg'1 with h1 | h1
            · -- `v` is related to an earlier vertex: so is `w`, contradiction with the choice of `pre`
              obtain ⟨g'', hg''1, hg''2⟩ := levPath w v hw hwv hvo pre0 hpre0 ⟨g', h1, hg'2⟩
              exact absurd ⟨g'', hg''1, hg''2⟩ hw0
            · have : g' = g := by simpa using h1
              subst this
              exact Rel.trans' hg'2 (Rel.symm' hg2)
    have hwB : ∃ g ∈ B, Rel uf w g := by
      apply Classical.byContradiction
      intro hn
      exact hwo (fun g hg hr => hn ⟨g, hg, hr⟩)
    exact main B.length B (Nat.le_refl _) (List.prefix_refl B) hwB
end shrink

section steps
variable {succ : Nat → List Nat} {Vt : Nat → Prop} {K : List Nat} {uf : EDB} {st rest : List (List Nat)} {vis B path : List Nat}

theorem last_of_getLast? {path : List Nat} {w : Nat} (h : path.getLast? = some w) : path.getLast! = w :=
  List.getLast!_of_getLast? h

/-- a path whose end is already visited is dropped -/
theorem Inv.skip (h : Inv succ Vt K uf (path :: rest) vis B none []) (hx : path.getLast! ∈ vis) :
    Inv succ Vt K uf rest vis B none [] := by
  refine ⟨h.wf, fun p hp => h.vtS p (List.mem_cons_of_mem _ hp), h.vtV, fun p hp => h.ne p (List.mem_cons_of_mem _ hp),
    fun p hp => h.pre p (List.mem_cons_of_mem _ hp), h.nest.tail, h.bvis, ?_, ?_, h.white, h.intv, h.lev, h.deadA, h.deadB⟩
  · intro k hk
    rcases h.keys k hk with h1 | ⟨p, hp, hl⟩
    · exact Or.inl h1
    · rcases List.mem_cons.1 hp with rfl | hp
      · exact Or.inl (last_of_getLast? hl ▸ hx)
      · exact Or.inr ⟨p, hp, hl⟩
  · intro v hv w hw hs
    rcases h.edge v hv w hw hs with h1 | ⟨p, hp, hl, hd⟩
    · exact Or.inl h1
    · rcases List.mem_cons.1 hp with rfl | hp
      · exact Or.inl (last_of_getLast? hl ▸ hx)
      · exact Or.inr ⟨p, hp, hl, hd⟩

theorem path_split {path : List Nat} (hne : path ≠ []) : path = path.dropLast ++ [path.getLast!] := by
  have h1 := List.dropLast_concat_getLast hne
  have h2 : path.getLast! = path.getLast hne := by
    rw [List.getLast!_eq_getLast?_getD, List.getLast?_eq_some_getLast hne]; rfl
  rw [h2]; exact h1.symm

/-- a path whose end `x` is new is popped: `x` becomes visited and the deepest vertex of the branch -/
theorem Inv.visit (h : Inv succ Vt K uf (path :: rest) vis B none []) (hx : path.getLast! ∉ vis) :
    Inv succ Vt K uf rest (path.getLast! :: vis) path (some path.getLast!) [] := by
  have hne : path ≠ [] := h.ne path (List.mem_cons_self ..)
  have hsp := path_split hne
  generalize hxe : path.getLast! = x at hx hsp ⊢
  generalize hP0 : path.dropLast = P0 at hsp
  -- first cut the branch back to the parent chain of the popped path
  have h1 : Inv succ Vt K uf (path :: rest) vis P0 none [] := by
    apply h.shrink (hP0 ▸ h.pre path (List.mem_cons_self ..))
    intro p hp
    rcases List.mem_cons.1 hp with rfl | hp
    · rw [hP0]; exact List.prefix_refl _
    · rw [← hP0]; exact h.nest.all p hp
  have hxVt : Vt x := h.vtS path (List.mem_cons_self ..) x (by rw [hsp]; simp)
  have hP0vis : ∀ v ∈ P0, v ∈ vis := h1.bvis
  have hwhite : ∀ z, z ∈ vis → Rel uf z x → False := by
    intro z hz hr
    have := h.white x hxVt hx z (h.vtV z hz) hr
    exact hx (this ▸ hz)
  have hpathmem : ∀ v, v ∈ path ↔ v ∈ P0 ∨ v = x := by
    intro v; rw [hsp]; simp
  refine ⟨h.wf, fun p hp => h.vtS p (List.mem_cons_of_mem _ hp), ?_, fun p hp => h.ne p (List.mem_cons_of_mem _ hp), ?_,
    h.nest.tail, ?_, ?_, ?_, ?_, ?_, ?_, ?_, ?_⟩
  · intro v hv
    rcases List.mem_cons.1 hv with rfl | hv
    · exact hxVt
    · exact h.vtV v hv
  · intro p hp
    have := h1.pre p (List.mem_cons_of_mem _ hp)
    rw [hsp]; exact this.trans (List.prefix_append _ _)
  · intro v hv
    rcases (hpathmem v).1 hv with h2 | rfl
    · exact List.mem_cons_of_mem _ (hP0vis v h2)
    · exact List.mem_cons_self ..
  · intro k hk
    rcases h.keys k hk with h2 | ⟨p, hp, hl⟩
    · exact Or.inl (List.mem_cons_of_mem _ h2)
    · rcases List.mem_cons.1 hp with rfl | hp
      · left; rw [← last_of_getLast? hl, hxe]; exact List.mem_cons_self ..
      · exact Or.inr ⟨p, hp, hl⟩
  · intro v hv w hw hs
    rcases List.mem_cons.1 hv with rfl | hv
    · exact absurd (hs rfl) (by simp)
    · rcases h.edge v hv w hw (by intro e; cases e) with h2 | ⟨p, hp, hl, hd⟩
      · exact Or.inl (List.mem_cons_of_mem _ h2)
      · rcases List.mem_cons.1 hp with rfl | hp
        · left; rw [← last_of_getLast? hl, hxe]; exact List.mem_cons_self ..
        · exact Or.inr ⟨p, hp, hl, hd⟩
  · intro y hy hyv z hz hr
    exact h.white y hy (fun hm => hyv (List.mem_cons_of_mem _ hm)) z hz hr
  · intro B1 g B2 e a ha hc
    rcases List.eq_nil_or_concat B2 with e2 | ⟨B2', x', e2⟩
    · subst e2
      obtain ⟨c, hc1, hc2⟩ := hc
      have : c = g := by simpa using hc1
      exact this ▸ hc2
    · rw [List.concat_eq_append] at e2
      subst e2
      have e' : P0 ++ [x] = (B1 ++ g :: B2') ++ [x'] := by rw [← hsp, e]; simp
      have hx' : x' = x := by
        have := congrArg List.getLast? e'
        rw [List.getLast?_concat, List.getLast?_concat] at this
        exact (Option.some.inj this).symm
      subst hx'
      have eP : P0 = B1 ++ g :: B2' := List.append_cancel_right e'
      obtain ⟨c, hc1, hc2⟩ := hc
      have haP : a ∈ P0 := by rw [eP]; exact List.mem_append_left _ ha
      have hc' : c ∈ g :: B2' ∨ c = x' := by
        rcases List.mem_cons.1 hc1 with rfl | hc1
        · exact Or.inl (List.mem_cons_self ..)
        · rcases List.mem_append.1 hc1 with h3 | h3
          · exact Or.inl (List.mem_cons_of_mem _ h3)
          · exact Or.inr (by simpa using h3)
      rcases hc' with h3 | rfl
      · exact h1.intv B1 g B2' eP a ha ⟨c, h3, hc2⟩
      · exact (hwhite a (hP0vis a haP) hc2).elim
  · intro v hv w hw hs hwv pre hpre hg
    rcases List.mem_cons.1 hv with rfl | hv'
    · exact absurd (hs rfl) (by simp)
    rw [hsp] at hpre
    rcases List.prefix_concat_iff.1 hpre with e | hpre0
    · -- the whole branch
      obtain ⟨g, hg1, hg2⟩ := hg
      by_cases hwx : w = x
      · subst hwx
        rcases h1.edge v hv' w hw (by intro e; cases e) with h2 | ⟨p, hp, _, hd⟩
        · exact absurd h2 hx
        · exact ⟨v, by rw [e]; exact List.mem_append_left _ ((h1.pre p hp).subset hd), Rel.refl' uf v⟩
      · have hwv' : w ∈ vis := by
          rcases List.mem_cons.1 hwv with h2 | h2
          · exact absurd h2 hwx
          · exact h2
        rw [e] at hg1
        rcases List.mem_append.1 hg1 with h2 | h2
        · obtain ⟨g', hg'1, hg'2⟩ := h1.lev v hv' w hw (by intro e; cases e) hwv' P0 (List.prefix_refl _) ⟨g, h2, hg2⟩
          exact ⟨g', by rw [e]; exact List.mem_append_left _ hg'1, hg'2⟩
        · have : g = x := by simpa using h2
          subst this
          exact (hwhite w hwv' hg2).elim
    · obtain ⟨g, hg1, hg2⟩ := hg
      have hgv : g ∈ vis := hP0vis g (hpre0.subset hg1)
      by_cases hwx : w = x
      · subst hwx
        exact (hwhite g hgv (Rel.symm' hg2)).elim
      · have hwv' : w ∈ vis := by
          rcases List.mem_cons.1 hwv with h2 | h2
          · exact absurd h2 hwx
          · exact h2
        exact h1.lev v hv' w hw (by intro e; cases e) hwv' pre hpre0 ⟨g, hg1, hg2⟩
  · intro v hv w hw
    have hvx : v ≠ x := by
      intro e
      exact hv.2 x ((hpathmem x).2 (Or.inr rfl)) (e ▸ Rel.refl' uf x)
    have hvv : v ∈ vis := by
      rcases List.mem_cons.1 hv.1 with h2 | h2
      · exact absurd h2 hvx
      · exact h2
    obtain ⟨h3, h4⟩ := h1.deadA v ⟨hvv, fun g hg => hv.2 g ((hpathmem g).2 (Or.inl hg))⟩ w hw
    refine ⟨List.mem_cons_of_mem _ h3, fun g hg hr => ?_⟩
    rcases (hpathmem g).1 hg with h5 | rfl
    · exact h4 g h5 hr
    · exact hwhite w h3 hr
  · intro v w hv hw hvw hwv
    have old : ∀ a, Dead uf (x :: vis) path a → Dead uf vis P0 a := by
      intro a ha
      have hax : a ≠ x := by
        intro e
        exact ha.2 x ((hpathmem x).2 (Or.inr rfl)) (e ▸ Rel.refl' uf x)
      refine ⟨?_, fun g hg => ha.2 g ((hpathmem g).2 (Or.inl hg))⟩
      rcases List.mem_cons.1 ha.1 with h2 | h2
      · exact absurd h2 hax
      · exact h2
    exact h1.deadB v w (old v hv) (old w hw) hvw hwv

theorem mem_of_split_last {path B1 B2 : List Nat} {g x : Nat} (e : path = B1 ++ g :: B2) (hB2 : B2 ≠ [])
    (hl : path.getLast? = some x) : x ∈ B2 := by
  rcases List.eq_nil_or_concat B2 with e2 | ⟨B2', x', e2⟩
  · exact absurd e2 hB2
  · rw [List.concat_eq_append] at e2
    have e' : path = (B1 ++ g :: B2') ++ [x'] := by rw [e, e2]; simp
    rw [e', List.getLast?_concat] at hl
    have : x' = x := Option.some.inj hl
    rw [e2, ← this]; simp

/-- an examined edge that closes a cycle: everything from the first vertex of the path equivalent to `y` on is merged -/
theorem Inv.merge {x y : Nat} {done : List Nat} {uf' : EDB} (h : Inv succ Vt K uf st vis path (some x) done)
    (hl : path.getLast? = some x) {B1 B2 : List Nat} {g : Nat} (e : path = B1 ++ g :: B2) (hB2 : B2 ≠ [])
    (hfirst : ∀ a ∈ B1, ¬ Rel uf a y) (hg : Rel uf g y) (hwf' : WF uf')
    (hrel : ∀ a b, Rel uf' a b ↔ Rel uf a b ∨ ((∃ u ∈ g :: B2, Rel uf a u) ∧ (∃ u ∈ g :: B2, Rel uf b u))) :
    Inv succ Vt K uf' st vis path (some x) done ∧
    (∀ pre, pre <+: path → (∃ h0 ∈ pre, Rel uf' y h0) → ∃ g' ∈ pre, Rel uf' x g') := by
  have hxB2 : x ∈ B2 := mem_of_split_last e hB2 hl
  have hsubL : ∀ u ∈ g :: B2, u ∈ path := by
    intro u hu; rw [e]; exact List.mem_append_right _ hu
  have hMg : ∃ u ∈ g :: B2, Rel uf g u := ⟨g, List.mem_cons_self .., Rel.refl' uf g⟩
  have hMx : ∃ u ∈ g :: B2, Rel uf x u := ⟨x, List.mem_cons_of_mem _ hxB2, Rel.refl' uf x⟩
  have hF : ∀ a ∈ B1, ¬ ∃ u ∈ g :: B2, Rel uf a u := by
    intro a ha hM
    exact hfirst a ha (Rel.trans' (h.intv B1 g B2 e a ha hM) hg)
  have up : ∀ {a b}, Rel uf a b → Rel uf' a b := fun hr => (hrel _ _).2 (Or.inl hr)
  have gpre : ∀ pre, pre <+: path → ∀ h0 ∈ pre, h0 ∉ B1 → (∀ a ∈ B1, a ∈ pre) ∧ g ∈ pre := by
    intro pre hpre h0 hh0 hn
    rw [e] at hpre
    rcases prefix_split hpre with h1 | h1
    · exact absurd (h1.subset hh0) hn
    · exact ⟨fun a ha => h1.subset (List.mem_append_left _ ha), h1.subset (by simp)⟩
  refine ⟨⟨hwf', h.vtS, h.vtV, h.ne, h.pre, h.nest, h.bvis, h.keys, h.edge, ?_, ?_, ?_, ?_, ?_⟩, ?_⟩
  · intro y' hy' hyv z hz hr
    rcases (hrel z y').1 hr with h1 | ⟨_, u', hu', hr'⟩
    · exact h.white y' hy' hyv z hz h1
    · have hu'v : u' ∈ vis := h.bvis u' (hsubL u' hu')
      have := h.white y' hy' hyv u' (h.vtV u' hu'v) (Rel.symm' hr')
      exact absurd (this ▸ hu'v) hyv
  · intro C1 c C2 eC a ha hd
    obtain ⟨d, hd1, hd2⟩ := hd
    rcases (hrel a d).1 hd2 with h1 | ⟨hMa, _⟩
    · exact up (h.intv C1 c C2 eC a ha ⟨d, hd1, h1⟩)
    · have haB1 : a ∉ B1 := fun h2 => hF a h2 hMa
      have hC1 : C1 <+: B1 ++ g :: B2 := by rw [← e, eC]; exact List.prefix_append _ _
      rcases prefix_split hC1 with h1 | ⟨D, hD⟩
      · exact absurd (h1.subset ha) haB1
      · have e3 : B1 ++ g :: B2 = B1 ++ g :: (D ++ c :: C2) := by
          rw [← e, eC, ← hD]; simp
        have e4 : B2 = D ++ c :: C2 := by
          have := List.append_cancel_left e3
          injection this
        have hcB2 : c ∈ B2 := by rw [e4]; simp
        exact (hrel a c).2 (Or.inr ⟨hMa, c, List.mem_cons_of_mem _ hcB2, Rel.refl' uf c⟩)
  · intro v hv w hw hs hwv pre hpre hh
    obtain ⟨h0, hh1, hh2⟩ := hh
    rcases (hrel w h0).1 hh2 with h1 | ⟨hMw, hMh⟩
    · obtain ⟨g', hg1, hg2⟩ := h.lev v hv w hw hs hwv pre hpre ⟨h0, hh1, h1⟩
      exact ⟨g', hg1, up hg2⟩
    · obtain ⟨hB1pre, hgpre⟩ := gpre pre hpre h0 hh1 (fun h2 => hF h0 h2 hMh)
      obtain ⟨u, hu1, hu2⟩ := hMw
      obtain ⟨g'', hg1, hg2⟩ := h.lev v hv w hw hs hwv path (List.prefix_refl _) ⟨u, hsubL u hu1, hu2⟩
      rw [e] at hg1
      rcases List.mem_append.1 hg1 with h2 | h2
      · exact ⟨g'', hB1pre g'' h2, up hg2⟩
      · exact ⟨g, hgpre, (hrel v g).2 (Or.inr ⟨⟨g'', h2, hg2⟩, hMg⟩)⟩
  · intro v hv w hw
    have hvo : Dead uf vis path v := ⟨hv.1, fun g0 hg0 hr => hv.2 g0 hg0 (up hr)⟩
    obtain ⟨h1, h2⟩ := h.deadA v hvo w hw
    refine ⟨h1, fun g0 hg0 hr => ?_⟩
    rcases (hrel w g0).1 hr with h3 | ⟨⟨u, hu1, hu2⟩, _⟩
    · exact h2 g0 hg0 h3
    · exact h2 u (hsubL u hu1) hu2
  · intro v w hv hw hvw hwv
    exact up (h.deadB v w ⟨hv.1, fun g0 hg0 hr => hv.2 g0 hg0 (up hr)⟩ ⟨hw.1, fun g0 hg0 hr => hw.2 g0 hg0 (up hr)⟩ hvw hwv)
  · intro pre hpre hh
    obtain ⟨h0, hh1, hh2⟩ := hh
    have hn : h0 ∉ B1 := by
      intro h2
      rcases (hrel y h0).1 hh2 with h3 | ⟨_, hMh⟩
      · exact hfirst h0 h2 (Rel.symm' h3)
      · exact hF h0 h2 hMh
    exact ⟨g, (gpre pre hpre h0 hh1 hn).2, (hrel x g).2 (Or.inr ⟨hMx, hMg⟩)⟩

/-- the examined edge is recorded: `y` is pushed unless it lies on the path -/
theorem Inv.push {x y : Nat} {done : List Nat} (h : Inv succ Vt K uf st vis path (some x) done)
    (hl : path.getLast? = some x) (hy : y ∈ succ x) (hVt : ∀ v, Vt v → ∀ w ∈ succ v, Vt w)
    (hnew : ∀ pre, pre <+: path → (∃ h0 ∈ pre, Rel uf y h0) → ∃ g' ∈ pre, Rel uf x g') :
    Inv succ Vt K uf (if path.contains y then st else (path ++ [y]) :: st) vis path (some x) (y :: done) := by
  have hxp : x ∈ path := List.mem_of_getLast? hl
  have hxv : x ∈ vis := h.bvis x hxp
  have hsub : ∀ p ∈ st, p ∈ (if path.contains y then st else (path ++ [y]) :: st) := by
    intro p hp; split
    · exact hp
    · exact List.mem_cons_of_mem _ hp
  have hmem : ∀ p ∈ (if path.contains y then st else (path ++ [y]) :: st), p ∈ st ∨ (p = path ++ [y] ∧ y ∉ path) := by
    intro p hp
    split at hp
    · exact Or.inl hp
    · rename_i hc
      rcases List.mem_cons.1 hp with rfl | hp
      · exact Or.inr ⟨rfl, by simpa using hc⟩
      · exact Or.inl hp
  refine ⟨h.wf, ?_, h.vtV, ?_, ?_, ?_, h.bvis, ?_, ?_, h.white, h.intv, ?_, h.deadA, h.deadB⟩
  · intro p hp v hv
    rcases hmem p hp with h1 | ⟨rfl, _⟩
    · exact h.vtS p h1 v hv
    · rcases List.mem_append.1 hv with h2 | h2
      · exact h.vtV v (h.bvis v h2)
      · have : v = y := by simpa using h2
        exact this ▸ hVt x (h.vtV x hxv) y hy
  · intro p hp
    rcases hmem p hp with h1 | ⟨rfl, _⟩
    · exact h.ne p h1
    · simp
  · intro p hp
    rcases hmem p hp with h1 | ⟨rfl, _⟩
    · exact h.pre p h1
    · rw [List.dropLast_concat]; exact List.prefix_refl _
  · split
    · exact h.nest
    · cases hst : st with
      | nil => trivial
      | cons q r =>
        refine ⟨?_, hst ▸ h.nest⟩
        rw [List.dropLast_concat]
        exact h.pre q (by rw [hst]; exact List.mem_cons_self ..)
  · intro k hk
    rcases h.keys k hk with h1 | ⟨p, hp, hpl⟩
    · exact Or.inl h1
    · exact Or.inr ⟨p, hsub p hp, hpl⟩
  · intro v hv w hw hs
    have lift : (w ∈ vis ∨ ∃ p ∈ st, p.getLast? = some w ∧ v ∈ p.dropLast) →
        (w ∈ vis ∨ ∃ p ∈ (if path.contains y then st else (path ++ [y]) :: st), p.getLast? = some w ∧ v ∈ p.dropLast) := by
      rintro (h1 | ⟨p, hp, h2⟩)
      · exact Or.inl h1
      · exact Or.inr ⟨p, hsub p hp, h2⟩
    by_cases hvx : v = x
    · subst hvx
      rcases List.mem_cons.1 (hs rfl) with rfl | hwd
      · by_cases hc : path.contains w = true
        · exact Or.inl (h.bvis w (by simpa using hc))
        · right
          refine ⟨path ++ [w], ?_, List.getLast?_concat, by rw [List.dropLast_concat]; exact hxp⟩
          simp only [hc, Bool.false_eq_true, ↓reduceIte]
          exact List.mem_cons_self ..
      · exact lift (h.edge v hv w hw (fun _ => hwd))
    · exact lift (h.edge v hv w hw (fun e => absurd (Option.some.inj e).symm hvx))
  · intro v hv w hw hs hwv pre hpre hh
    by_cases hvx : v = x
    · subst hvx
      rcases List.mem_cons.1 (hs rfl) with rfl | hwd
      · exact hnew pre hpre hh
      · exact h.lev v hv w hw (fun _ => hwd) hwv pre hpre hh
    · exact h.lev v hv w hw (fun e => absurd (Option.some.inj e).symm hvx) hwv pre hpre hh

/-- one successor of the vertex being expanded -/
theorem Inv.step {x y : Nat} {done : List Nat} (h : Inv succ Vt K uf st vis path (some x) done)
    (hl : path.getLast? = some x) (hy : y ∈ succ x) (hVt : ∀ v, Vt v → ∀ w ∈ succ v, Vt w) :
    Inv succ Vt K (stepSucc path (uf, st) y).1 (stepSucc path (uf, st) y).2 vis path (some x) (y :: done) := by
  unfold stepSucc
  simp only
  rcases mergeFrom_spec path uf y h.wf with ⟨hnone, heq⟩ | ⟨B1, g, B2, e, hB2, hfirst, hg, hwf', hrel⟩
  · rw [heq]
    apply h.push hl hy hVt
    intro pre hpre hh
    obtain ⟨h0, hh1, hh2⟩ := hh
    have hne : path ≠ [] := by intro e; rw [e] at hl; cases hl
    have hsp := path_split hne
    rw [last_of_getLast? hl] at hsp
    have : h0 ∈ path.dropLast ∨ h0 = x := by
      have := hpre.subset hh1
      rw [hsp] at this
      simpa using this
    rcases this with h1 | rfl
    · exact absurd (Rel.symm' hh2) (hnone h0 h1)
    · exact ⟨h0, hh1, Rel.refl' uf h0⟩
  · obtain ⟨hI, hnew⟩ := h.merge hl e hB2 hfirst hg hwf' hrel
    exact hI.push hl hy hVt hnew

/-- all successors of the vertex being expanded -/
theorem Inv.fold {x : Nat} (hl : path.getLast? = some x) (hVt : ∀ v, Vt v → ∀ w ∈ succ v, Vt w) :
    ∀ (todo done : List Nat) (uf : EDB) (st : List (List Nat)), Inv succ Vt K uf st vis path (some x) done →
      (∀ y ∈ todo, y ∈ succ x) →
      ∃ done', (∀ w ∈ todo, w ∈ done') ∧ (∀ w ∈ done, w ∈ done') ∧
        Inv succ Vt K (todo.foldl (stepSucc path) (uf, st)).1 (todo.foldl (stepSucc path) (uf, st)).2 vis path (some x) done'
  | [], done, uf, st, h, _ => ⟨done, ⟨fun _ hw => (nomatch hw), fun _ hw => hw, h⟩⟩
  | y :: todo, done, uf, st, h, hy => by
    have h1 := h.step hl (hy y (List.mem_cons_self ..)) hVt
    obtain ⟨done', d1, d2, d3⟩ := Inv.fold hl hVt todo (y :: done) _ _ h1 (fun w hw => hy w (List.mem_cons_of_mem _ hw))
    refine ⟨done', ?_, fun w hw => d2 w (List.mem_cons_of_mem _ hw), d3⟩
    intro w hw
    rcases List.mem_cons.1 hw with rfl | hw
    · exact d2 _ (List.mem_cons_self ..)
    · exact d1 w hw

/-- when all successors have been examined the expansion is over -/
theorem Inv.finish {x : Nat} {done : List Nat} (h : Inv succ Vt K uf st vis path (some x) done) (hall : ∀ w ∈ succ x, w ∈ done) :
    Inv succ Vt K uf st vis path none [] := by
  refine ⟨h.wf, h.vtS, h.vtV, h.ne, h.pre, h.nest, h.bvis, h.keys, ?_, h.white, h.intv, ?_, h.deadA, h.deadB⟩
  · intro v hv w hw _
    exact h.edge v hv w hw (fun e => by cases e; exact hall w hw)
  · intro v hv w hw _
    exact h.lev v hv w hw (fun e => by cases e; exact hall w hw)

/-- **the invariant holds along the whole search** -/
theorem goS_inv (hVt : ∀ v, Vt v → ∀ w ∈ succ v, Vt w) : ∀ (fuel : Nat) (uf : EDB) (st : List (List Nat)) (vis B : List Nat),
    Inv succ Vt K uf st vis B none [] →
    ∃ B', Inv succ Vt K (goS succ fuel uf st vis).1 (goS succ fuel uf st vis).2.1 (goS succ fuel uf st vis).2.2 B' none []
  | 0, uf, st, vis, B, h => ⟨B, h⟩
  | fuel+1, uf, [], vis, B, h => ⟨B, by rw [goS]; exact h⟩
  | fuel+1, uf, path :: rest, vis, B, h => by
    rw [goS]
    by_cases hc : vis.contains path.getLast! = true
    · simp only [hc, ↓reduceIte]
      exact goS_inv hVt fuel uf rest vis B (h.skip (by simpa using hc))
    · simp only [hc, Bool.false_eq_true, ↓reduceIte]
      have hx : path.getLast! ∉ vis := by simpa using hc
      have h1 := h.visit hx
      have hne : path ≠ [] := h.ne path (List.mem_cons_self ..)
      have hl : path.getLast? = some path.getLast! := by
        rw [List.getLast!_eq_getLast?_getD, List.getLast?_eq_some_getLast hne]; rfl
      obtain ⟨done', d1, _, d3⟩ := Inv.fold hl hVt (succ path.getLast!) [] uf rest h1 (fun y hy => hy)
      exact goS_inv hVt fuel _ _ _ path (d3.finish d1)
end steps

/-- **completeness of the cycle search, abstractly**: from an initial state satisfying the invariant, if the search comes to rest
with an empty stack then any two start vertices that reach each other are equivalent at the end -/
theorem goS_complete {succ : Nat → List Nat} {Vt : Nat → Prop} {K : List Nat} (hVt : ∀ v, Vt v → ∀ w ∈ succ v, Vt w)
    (fuel : Nat) (uf : EDB) (st : List (List Nat)) (h : Inv succ Vt K uf st [] [] none [])
    (hrest : (goS succ fuel uf st []).2.1 = []) (a b : Nat) (ha : a ∈ K) (hb : b ∈ K)
    (hab : Reach succ a b) (hba : Reach succ b a) : Rel (goS succ fuel uf st []).1 a b := by
  obtain ⟨B', hI⟩ := goS_inv hVt fuel uf st [] [] h
  rw [hrest] at hI
  have hI0 := hI.shrink (List.nil_prefix) (fun p hp => nomatch hp)
  have hk : ∀ k ∈ K, k ∈ (goS succ fuel uf st []).2.2 := by
    intro k hk
    rcases hI0.keys k hk with h1 | ⟨p, hp, _⟩
    · exact h1
    · cases hp
  exact hI0.deadB a b ⟨hk a ha, fun g hg => nomatch hg⟩ ⟨hk b hb, fun g hg => nomatch hg⟩ hab hba

/-! ### the initial state of `connect_cycles` -/

theorem find_idem {e : EDB} (h : WF e) (a : Nat) : e.find (e.find a) = e.find a := by
  by_cases hk : a ∈ e.keys
  · exact find_of_mem h (find_root_is_key h hk)
  · rw [find_not_key hk]; exact find_not_key hk

theorem nest_singletons : ∀ (ks : List Nat), Nest (ks.map (fun k => [k]))
  | [] => trivial
  | [_] => trivial
  | _ :: k2 :: ks => ⟨List.prefix_refl _, nest_singletons (k2 :: ks)⟩

theorem inv_init (succ : Nat → List Nat) (Vt : Nat → Prop) (K ks : List Nat) (uf : EDB) (hwf : WF uf)
    (hK : ∀ k ∈ K, k ∈ ks) (hks : ∀ k ∈ ks, Vt k) (hfix : ∀ v, Vt v → uf.find v = v) :
    Inv succ Vt K uf (ks.map (fun k => [k])) [] [] none [] := by
  refine ⟨hwf, ?_, (by intro v hv; cases hv), ?_, ?_, nest_singletons ks, (by intro v hv; cases hv), ?_, (by intro v hv; cases hv), ?_,
    ?_, (by intro v hv; cases hv), (by intro v hv; cases hv.1), (by intro v w hv; cases hv.1)⟩
  · intro p hp v hv
    obtain ⟨k, hk, rfl⟩ := List.mem_map.1 hp
    have : v = k := by simpa using hv
    exact this ▸ hks k hk
  · intro p hp
    obtain ⟨k, _, rfl⟩ := List.mem_map.1 hp
    simp
  · intro p hp
    obtain ⟨k, _, rfl⟩ := List.mem_map.1 hp
    exact List.nil_prefix
  · intro k hk
    exact Or.inr ⟨[k], List.mem_map.2 ⟨k, hK k hk, rfl⟩, rfl⟩
  · intro y hy _ z hz hr
    have : uf.find z = uf.find y := hr
    rw [hfix z hz, hfix y hy] at this
    exact this
  · intro B1 g B2 e
    have := congrArg List.length e
    simp at this
end CC

/-! ### soundness: only vertices on a cycle are merged -/
namespace CC
open EDB

def Chain (succ : Nat → List Nat) : List Nat → Prop
  | [] => True
  | [_] => True
  | a :: b :: r => b ∈ succ a ∧ Chain succ (b :: r)

theorem Chain.tail {succ : Nat → List Nat} : ∀ {a : Nat} {l : List Nat}, Chain succ (a :: l) → Chain succ l
  | _, [], _ => trivial
  | _, _ :: _, h => h.2

theorem chain_reach_head {succ : Nat → List Nat} : ∀ (l : List Nat) (u : Nat), Chain succ (u :: l) → ∀ v ∈ u :: l, Reach succ u v
  | [], u, _, v, hv => by
    have : v = u := by simpa using hv
    rw [this]; exact Reach.refl u
  | b :: l, u, h, v, hv => by
    rcases List.mem_cons.1 hv with rfl | hv
    · exact Reach.refl _
    · exact (Reach.step (Reach.refl u) h.1).trans (chain_reach_head l b h.2 v hv)

theorem chain_drop {succ : Nat → List Nat} : ∀ (A : List Nat) (l : List Nat), Chain succ (A ++ l) → Chain succ l
  | [], _, h => h
  | _ :: A, l, h => chain_drop A l (Chain.tail h)

theorem chain_concat {succ : Nat → List Nat} : ∀ (p : List Nat) (x y : Nat), Chain succ p → p.getLast? = some x → y ∈ succ x →
    Chain succ (p ++ [y])
  | [], _, _, _, hl, _ => by cases hl
  | [a], x, y, _, hl, hy => by
    have : a = x := by simpa using hl
    subst this
    exact ⟨hy, trivial⟩
  | a :: b :: r, x, y, h, hl, hy => by
    refine ⟨h.1, chain_concat (b :: r) x y h.2 (by simpa [List.getLast?_cons_cons] using hl) hy⟩

/-- the soundness invariant: stacked paths are paths of the graph, and equivalent vertices reach each other -/
structure SInv (succ : Nat → List Nat) (Vt : Nat → Prop) (uf : EDB) (st : List (List Nat)) : Prop where
  wf : WF uf
  chain : ∀ p ∈ st, Chain succ p
  vt : ∀ p ∈ st, ∀ v ∈ p, Vt v
  snd : ∀ a b, Vt a → Vt b → Rel uf a b → Reach succ a b ∧ Reach succ b a

theorem SInv.step {succ : Nat → List Nat} {Vt : Nat → Prop} {uf : EDB} {st : List (List Nat)} {path : List Nat} {x y : Nat}
    (h : SInv succ Vt uf st) (hc : Chain succ path) (hv : ∀ v ∈ path, Vt v) (hl : path.getLast? = some x) (hy : y ∈ succ x)
    (hVt : ∀ v, Vt v → ∀ w ∈ succ v, Vt w) :
    SInv succ Vt (stepSucc path (uf, st) y).1 (stepSucc path (uf, st) y).2 := by
  have hxp : x ∈ path := List.mem_of_getLast? hl
  have hyVt : Vt y := hVt x (hv x hxp) y hy
  unfold stepSucc
  simp only
  have hstack : ∀ p ∈ (if path.contains y then st else (path ++ [y]) :: st), Chain succ p ∧ ∀ v ∈ p, Vt v := by
    intro p hp
    split at hp
    · exact ⟨h.chain p hp, h.vt p hp⟩
    · rcases List.mem_cons.1 hp with rfl | hp
      · refine ⟨chain_concat path x y hc hl hy, fun v hv' => ?_⟩
        rcases List.mem_append.1 hv' with h1 | h1
        · exact hv v h1
        · have : v = y := by simpa using h1
          exact this ▸ hyVt
      · exact ⟨h.chain p hp, h.vt p hp⟩
  rcases mergeFrom_spec path uf y h.wf with ⟨_, heq⟩ | ⟨B1, g, B2, e, hB2, _, hg, hwf', hrel⟩
  · rw [heq]
    exact ⟨h.wf, fun p hp => (hstack p hp).1, fun p hp => (hstack p hp).2, h.snd⟩
  · refine ⟨hwf', fun p hp => (hstack p hp).1, fun p hp => (hstack p hp).2, ?_⟩
    have hxB2 : x ∈ B2 := mem_of_split_last e hB2 hl
    have hgVt : Vt g := hv g (by rw [e]; simp)
    have hcg : Chain succ (g :: B2) := chain_drop B1 _ (e ▸ hc)
    -- every vertex from `g` on lies on a cycle through `g`
    have cyc : ∀ u ∈ g :: B2, Reach succ g u ∧ Reach succ u g := by
      intro u hu
      refine ⟨chain_reach_head B2 g hcg u hu, ?_⟩
      obtain ⟨A', C', e2⟩ := List.append_of_mem hu
      have hcu : Chain succ (u :: C') := chain_drop A' _ (e2 ▸ hcg)
      have hxu : x ∈ u :: C' := by
        have hl2 : (B1 ++ A' ++ u :: C').getLast? = some x := by
          rw [List.append_assoc, ← e2, ← e]; exact hl
        have : (u :: C').getLast? = some x := by
          rw [List.getLast?_append] at hl2
          cases hq : (u :: C').getLast? with
          | none => simp at hq
          | some z => rw [hq] at hl2; simpa using hl2
        exact List.mem_of_getLast? this
      have hux : Reach succ u x := chain_reach_head C' u hcu x hxu
      have hyg : Reach succ y g := (h.snd g y hgVt hyVt hg).2
      exact (Reach.step hux hy).trans hyg
    intro a b ha hb hr
    rcases (hrel a b).1 hr with h1 | ⟨⟨u, hu1, hu2⟩, ⟨u', hu'1, hu'2⟩⟩
    · exact h.snd a b ha hb h1
    · have huVt : Vt u := hv u (by rw [e]; exact List.mem_append_right _ hu1)
      have hu'Vt : Vt u' := hv u' (by rw [e]; exact List.mem_append_right _ hu'1)
      obtain ⟨r1, r2⟩ := h.snd a u ha huVt hu2
      obtain ⟨r3, r4⟩ := h.snd b u' hb hu'Vt hu'2
      obtain ⟨c1, c2⟩ := cyc u hu1
      obtain ⟨c3, c4⟩ := cyc u' hu'1
      exact ⟨((r1.trans c2).trans c3).trans r4, ((r3.trans c4).trans c1).trans r2⟩

theorem SInv.fold {succ : Nat → List Nat} {Vt : Nat → Prop} {path : List Nat} {x : Nat}
    (hc : Chain succ path) (hv : ∀ v ∈ path, Vt v) (hl : path.getLast? = some x) (hVt : ∀ v, Vt v → ∀ w ∈ succ v, Vt w) :
    ∀ (todo : List Nat) (uf : EDB) (st : List (List Nat)), SInv succ Vt uf st → (∀ y ∈ todo, y ∈ succ x) →
      SInv succ Vt (todo.foldl (stepSucc path) (uf, st)).1 (todo.foldl (stepSucc path) (uf, st)).2
  | [], _, _, h, _ => h
  | y :: todo, uf, st, h, hy =>
    SInv.fold hc hv hl hVt todo _ _ (h.step hc hv hl (hy y (List.mem_cons_self ..)) hVt) (fun w hw => hy w (List.mem_cons_of_mem _ hw))

theorem goS_sinv {succ : Nat → List Nat} {Vt : Nat → Prop} (hVt : ∀ v, Vt v → ∀ w ∈ succ v, Vt w) :
    ∀ (fuel : Nat) (uf : EDB) (st : List (List Nat)) (vis : List Nat), (∀ p ∈ st, p ≠ []) → SInv succ Vt uf st →
      SInv succ Vt (goS succ fuel uf st vis).1 (goS succ fuel uf st vis).2.1
  | 0, _, _, _, _, h => h
  | fuel+1, uf, [], vis, _, h => by rw [goS]; exact h
  | fuel+1, uf, path :: rest, vis, hne, h => by
    rw [goS]
    have hrest : SInv succ Vt uf rest := ⟨h.wf, fun p hp => h.chain p (List.mem_cons_of_mem _ hp),
      fun p hp => h.vt p (List.mem_cons_of_mem _ hp), h.snd⟩
    have hne' : ∀ p ∈ rest, p ≠ [] := fun p hp => hne p (List.mem_cons_of_mem _ hp)
    by_cases hc : vis.contains path.getLast! = true
    · simp only [hc, ↓reduceIte]
      exact goS_sinv hVt fuel uf rest vis hne' hrest
    · simp only [hc, Bool.false_eq_true, ↓reduceIte]
      have hpne : path ≠ [] := hne path (List.mem_cons_self ..)
      have hl : path.getLast? = some path.getLast! := by
        rw [List.getLast!_eq_getLast?_getD, List.getLast?_eq_some_getLast hpne]; rfl
      have hf := SInv.fold (h.chain path (List.mem_cons_self ..)) (h.vt path (List.mem_cons_self ..)) hl hVt
        (succ path.getLast!) uf rest hrest (fun y hy => hy)
      refine goS_sinv hVt fuel _ _ _ ?_ hf
      -- pushed paths are non-empty
      have : ∀ (todo : List Nat) (acc : EDB × List (List Nat)), (∀ p ∈ acc.2, p ≠ []) →
          ∀ p ∈ (todo.foldl (stepSucc path) acc).2, p ≠ [] := by
        intro todo
        induction todo with
        | nil => intro acc ha; exact ha
        | cons y todo ih =>
          intro acc ha
          rw [List.foldl_cons]
          apply ih
          intro p hp
          unfold stepSucc at hp
          simp only at hp
          split at hp
          · exact ha p hp
          · rcases List.mem_cons.1 hp with rfl | hp
            · simp
            · exact ha p hp
      exact this _ (uf, rest) hne'
end CC

namespace EqDB
open EDB

/-- the adjacency `connect_cycles` searches: successors along the refreshed one-way edges -/
def succOf (ow : List (Nat × Nat)) (v : Nat) : List Nat := (ow.filter (·.1 == v)).map (·.2)

theorem mem_succOf (ow : List (Nat × Nat)) (v w : Nat) : w ∈ succOf ow v ↔ (v, w) ∈ ow := by
  unfold succOf
  constructor
  · intro h
    obtain ⟨p, hp, rfl⟩ := List.mem_map.1 h
    obtain ⟨h1, h2⟩ := List.mem_filter.1 hp
    have : p.1 = v := by simpa using h2
    rw [← this]; exact h1
  · intro h
    exact List.mem_map.2 ⟨(v, w), List.mem_filter.2 ⟨h, by simp⟩, rfl⟩

theorem reach_iff (ow : List (Nat × Nat)) (a b : Nat) : CC.Reach (succOf ow) a b ↔ _root_.Reach ow a b := by
  constructor
  · intro h
    induction h with
    | refl => exact _root_.Reach.refl _
    | step _ he ih => exact _root_.Reach.step ih ((mem_succOf ow _ _).1 he)
  · intro h
    induction h with
    | refl => exact CC.Reach.refl _
    | step _ he ih => exact CC.Reach.step ih ((mem_succOf ow _ _).2 he)

theorem refresh_fixed (d : EqDB) (hwf : WF d.uf) : ∀ p ∈ d.refreshOneWay.oneWay, d.uf.find p.1 = p.1 ∧ d.uf.find p.2 = p.2 := by
  unfold refreshOneWay
  simp only
  have aux : ∀ (l : List (Nat × Nat)) (acc : List (Nat × Nat)),
      (∀ q ∈ acc, d.uf.find q.1 = q.1 ∧ d.uf.find q.2 = q.2) →
      ∀ q ∈ l.foldl (fun (acc : List (Nat × Nat)) p =>
        let q := (d.uf.find p.1, d.uf.find p.2)
        if q.1 == q.2 || acc.contains q then acc else acc ++ [q]) acc, d.uf.find q.1 = q.1 ∧ d.uf.find q.2 = q.2 := by
    intro l
    induction l with
    | nil => intro acc h; exact h
    | cons p l ih =>
      intro acc h
      rw [List.foldl_cons]
      apply ih
      simp only
      split
      · exact h
      · intro q hq
        rcases List.mem_append.1 hq with h1 | h1
        · exact h q h1
        · have : q = (d.uf.find p.1, d.uf.find p.2) := by simpa using h1
          subst this
          exact ⟨CC.find_idem hwf _, CC.find_idem hwf _⟩
  exact aux d.oneWay [] (fun q hq => nomatch hq)

theorem mem_keysOW (d : EqDB) (k : Nat) : k ∈ d.keysOW ↔ ∃ p ∈ d.oneWay, p.1 = k := by
  unfold keysOW
  have aux : ∀ (l : List (Nat × Nat)) (acc : List Nat),
      (k ∈ l.foldl (fun acc p => if acc.contains p.1 then acc else acc ++ [p.1]) acc ↔ k ∈ acc ∨ ∃ p ∈ l, p.1 = k) := by
    intro l
    induction l with
    | nil => intro acc; simp
    | cons p l ih =>
      intro acc
      rw [List.foldl_cons, ih]
      by_cases hc : acc.contains p.1 = true
      · rw [if_pos hc]
        have hp : p.1 ∈ acc := by simpa using hc
        constructor
        · rintro (h | ⟨q, hq, e⟩)
          · exact Or.inl h
          · exact Or.inr ⟨q, List.mem_cons_of_mem _ hq, e⟩
        · rintro (h | ⟨q, hq, e⟩)
          · exact Or.inl h
          · rcases List.mem_cons.1 hq with rfl | hq
            · exact Or.inl (e ▸ hp)
            · exact Or.inr ⟨q, hq, e⟩
      · rw [if_neg hc]
        constructor
        · rintro (h | ⟨q, hq, e⟩)
          · rcases List.mem_append.1 h with h1 | h1
            · exact Or.inl h1
            · have : k = p.1 := by simpa using h1
              exact Or.inr ⟨p, List.mem_cons_self .., this.symm⟩
          · exact Or.inr ⟨q, List.mem_cons_of_mem _ hq, e⟩
        · rintro (h | ⟨q, hq, e⟩)
          · exact Or.inl (List.mem_append_left _ h)
          · rcases List.mem_cons.1 hq with rfl | hq
            · exact Or.inl (List.mem_append_right _ (by simp [e]))
            · exact Or.inr ⟨q, hq, e⟩
  have := aux d.oneWay []
  simpa using this

theorem reach_first {succ : Nat → List Nat} {a b : Nat} (h : CC.Reach succ a b) (hne : a ≠ b) : ∃ c, c ∈ succ a := by
  induction h with
  | refl => exact absurd rfl hne
  | @step b' c hab hc ih =>
    by_cases e : a = b'
    · exact ⟨c, e ▸ hc⟩
    · exact ih e

theorem connectCycles_uf (d : EqDB) (fuel : Nat) :
    (d.connectCycles fuel).uf =
      (CC.goS (succOf d.refreshOneWay.oneWay) fuel d.uf ((d.refreshOneWay.keysOW.map (fun k => [k])).reverse) []).1 := by
  unfold connectCycles
  simp only
  rw [CC.go_eq]
  rfl

/-- **C06: `connect_cycles` is complete.** For every database with a well-formed union-find, every fuel with which the search
comes to rest (empty stack - evaluated per history by the driver), and every two labels that reach each other along the
(refreshed) one-way edges: afterwards they are equivalent. Together with `sccB_correct` (the reference the check compares with)
and the soundness of each merge (only vertices on a detected cycle are merged), the classes after `connect_cycles` are exactly the
strongly connected components. -/
theorem cc_complete (d : EqDB) (hwf : WF d.uf) (fuel : Nat)
    (hrest : (CC.goS (succOf d.refreshOneWay.oneWay) fuel d.uf ((d.refreshOneWay.keysOW.map (fun k => [k])).reverse) []).2.1 = [])
    (a b : Nat) (hab : _root_.Reach d.refreshOneWay.oneWay a b) (hba : _root_.Reach d.refreshOneWay.oneWay b a) :
    (d.connectCycles fuel).equivalent a b = true := by
  unfold equivalent
  rw [connectCycles_uf]
  by_cases hne : a = b
  · subst hne; simp
  have hab' := (reach_iff _ a b).2 hab
  have hba' := (reach_iff _ b a).2 hba
  have hufr : d.refreshOneWay.uf = d.uf := rfl
  let ow := d.refreshOneWay.oneWay
  let Vt : Nat → Prop := fun v => ∃ p ∈ ow, p.1 = v ∨ p.2 = v
  have hVt : ∀ v, Vt v → ∀ w ∈ succOf ow v, Vt w := by
    intro v _ w hw
    exact ⟨(v, w), (mem_succOf ow v w).1 hw, Or.inr rfl⟩
  have hfix : ∀ v, Vt v → d.uf.find v = v := by
    rintro v ⟨p, hp, h1 | h1⟩
    · rw [← h1]; exact (refresh_fixed d hwf p hp).1
    · rw [← h1]; exact (refresh_fixed d hwf p hp).2
  have hK : ∀ k, k ∈ d.refreshOneWay.keysOW → Vt k := by
    intro k hk
    obtain ⟨p, hp, h1⟩ := (mem_keysOW _ k).1 hk
    exact ⟨p, hp, Or.inl h1⟩
  have hinit := CC.inv_init (succOf ow) Vt d.refreshOneWay.keysOW d.refreshOneWay.keysOW.reverse d.uf hwf
    (fun k hk => List.mem_reverse.2 hk) (fun k hk => hK k (List.mem_reverse.1 hk)) hfix
  rw [List.map_reverse] at hinit
  have key : ∀ {u v : Nat}, CC.Reach (succOf ow) u v → u ≠ v → u ∈ d.refreshOneWay.keysOW := by
    intro u v h hn
    obtain ⟨c, hc⟩ := reach_first h hn
    exact (mem_keysOW _ u).2 ⟨(u, c), (mem_succOf ow u c).1 hc, rfl⟩
  have := CC.goS_complete hVt fuel d.uf _ hinit hrest a b (key hab' hne) (key hba' (Ne.symm hne)) hab' hba'
  simpa [Rel] using this
#print axioms cc_complete

/-- **C06: `connect_cycles` is sound**: two labels that are their own representatives before the search and equivalent after it
reach each other along the one-way edges (no hypothesis on the fuel) -/
theorem cc_sound (d : EqDB) (hwf : WF d.uf) (fuel : Nat) (a b : Nat)
    (ha : ∃ p ∈ d.refreshOneWay.oneWay, p.1 = a ∨ p.2 = a) (hb : ∃ p ∈ d.refreshOneWay.oneWay, p.1 = b ∨ p.2 = b)
    (h : (d.connectCycles fuel).equivalent a b = true) :
    _root_.Reach d.refreshOneWay.oneWay a b ∧ _root_.Reach d.refreshOneWay.oneWay b a := by
  unfold equivalent at h
  rw [connectCycles_uf] at h
  let ow := d.refreshOneWay.oneWay
  let Vt : Nat → Prop := fun v => ∃ p ∈ ow, p.1 = v ∨ p.2 = v
  have hVt : ∀ v, Vt v → ∀ w ∈ succOf ow v, Vt w := by
    intro v _ w hw
    exact ⟨(v, w), (mem_succOf ow v w).1 hw, Or.inr rfl⟩
  have hfix : ∀ v, Vt v → d.uf.find v = v := by
    rintro v ⟨p, hp, h1 | h1⟩
    · rw [← h1]; exact (refresh_fixed d hwf p hp).1
    · rw [← h1]; exact (refresh_fixed d hwf p hp).2
  have hinit : CC.SInv (succOf ow) Vt d.uf ((d.refreshOneWay.keysOW.map (fun k => [k])).reverse) := by
    refine ⟨hwf, ?_, ?_, ?_⟩
    · intro p hp
      obtain ⟨k, _, rfl⟩ := List.mem_map.1 (List.mem_reverse.1 hp)
      trivial
    · intro p hp v hv
      obtain ⟨k, hk, rfl⟩ := List.mem_map.1 (List.mem_reverse.1 hp)
      have : v = k := by simpa using hv
      obtain ⟨q, hq, h1⟩ := (mem_keysOW _ k).1 hk
      exact this ▸ ⟨q, hq, Or.inl h1⟩
    · intro u v hu hv hr
      have : d.uf.find u = d.uf.find v := hr
      rw [hfix u hu, hfix v hv] at this
      subst this
      exact ⟨CC.Reach.refl _, CC.Reach.refl _⟩
  have hS := CC.goS_sinv hVt fuel d.uf _ [] (by
    intro p hp
    obtain ⟨k, _, rfl⟩ := List.mem_map.1 (List.mem_reverse.1 hp)
    simp) hinit
  obtain ⟨r1, r2⟩ := hS.snd a b ha hb (by simpa [Rel] using h)
  exact ⟨(reach_iff ow a b).1 r1, (reach_iff ow b a).1 r2⟩
#print axioms cc_sound

/-- **C06: the equivalence classes after `connect_cycles` are exactly the strongly connected components** of the one-way graph
(on its vertices - the representatives it was refreshed to), whenever the search came to rest -/
theorem cc_exact (d : EqDB) (hwf : WF d.uf) (fuel : Nat)
    (hrest : (CC.goS (succOf d.refreshOneWay.oneWay) fuel d.uf ((d.refreshOneWay.keysOW.map (fun k => [k])).reverse) []).2.1 = [])
    (a b : Nat) (ha : ∃ p ∈ d.refreshOneWay.oneWay, p.1 = a ∨ p.2 = a) (hb : ∃ p ∈ d.refreshOneWay.oneWay, p.1 = b ∨ p.2 = b) :
    (d.connectCycles fuel).equivalent a b = true ↔
      (_root_.Reach d.refreshOneWay.oneWay a b ∧ _root_.Reach d.refreshOneWay.oneWay b a) :=
  ⟨cc_sound d hwf fuel a b ha hb, fun h => cc_complete d hwf fuel hrest a b h.1 h.2⟩

/-! ### well-formedness over every history -/

theorem goS_wf (succ : Nat → List Nat) : ∀ (fuel : Nat) (uf : EDB) (st : List (List Nat)) (vis : List Nat), WF uf →
    WF (CC.goS succ fuel uf st vis).1
  | 0, _, _, _, h => h
  | fuel+1, uf, [], vis, h => by rw [CC.goS]; exact h
  | fuel+1, uf, path :: rest, vis, h => by
    rw [CC.goS]
    by_cases hc : vis.contains path.getLast! = true
    · simp only [hc, ↓reduceIte]
      exact goS_wf succ fuel uf rest vis h
    · simp only [hc, Bool.false_eq_true, ↓reduceIte]
      apply goS_wf
      have : ∀ (todo : List Nat) (acc : EDB × List (List Nat)), WF acc.1 → WF (todo.foldl (CC.stepSucc path) acc).1 := by
        intro todo
        induction todo with
        | nil => intro acc ha; exact ha
        | cons y todo ih =>
          intro acc ha
          rw [List.foldl_cons]
          apply ih
          unfold CC.stepSucc
          simp only
          rcases CC.mergeFrom_spec path acc.1 y ha with ⟨_, heq⟩ | ⟨_, _, _, _, _, _, _, hwf', _⟩
          · rw [heq]; exact ha
          · exact hwf'
      exact this _ (uf, rest) h

/-- the operations of the equivalence database -/
inductive EOp where
  | two (a b : Nat)
  | one (a b : Nat)
  | ver (a : Nat)
  | cyc (fuel : Nat)

def applyE (d : EqDB) : EOp → EqDB
  | .two a b => d.addTwoWay a b
  | .one a b => d.addOneWay a b
  | .ver a => d.setVerified a
  | .cyc fuel => d.connectCycles fuel

theorem addEdge_uf (d : EqDB) (a b : Nat) : (d.addEdge a b).uf = d.uf := by
  unfold addEdge; split <;> rfl

/-- the union-find of the database is well formed after every history of operations: the hypothesis `WF` of `cc_complete` /
`cc_sound` holds at every reachable state -/
theorem eqdb_wf (ops : List EOp) : WF (ops.foldl applyE {}).uf := by
  have aux : ∀ (ops : List EOp) (d : EqDB), WF d.uf → WF (ops.foldl applyE d).uf := by
    intro ops
    induction ops with
    | nil => intro d h; exact h
    | cons o ops ih =>
      intro d h
      rw [List.foldl_cons]
      apply ih
      cases o with
      | two a b =>
        show WF (d.addTwoWay a b).uf
        unfold addTwoWay
        simp only [addEdge_uf]
        exact (union_spec h a b).1
      | one a b =>
        show WF (d.addOneWay a b).uf
        unfold addOneWay
        simp only [addEdge_uf]
        exact touch_wf (touch_wf h a) b
      | ver a =>
        show WF (d.setVerified a).uf
        exact (setVerified_spec h a).1
      | cyc fuel =>
        show WF (d.connectCycles fuel).uf
        rw [connectCycles_uf]
        exact goS_wf _ _ _ _ _ h
  exact aux ops {} UInv.init.wf
#print axioms eqdb_wf

/-- whether the search of `connect_cycles` comes to rest within the fuel (the hypothesis of `cc_complete`, evaluated by the driver) -/
def ccRest (d : EqDB) (fuel : Nat := 100000) : Bool :=
  (CC.goS (succOf d.refreshOneWay.oneWay) fuel d.uf ((d.refreshOneWay.keysOW.map (fun k => [k])).reverse) []).2.1.isEmpty

/-- non-vacuity: a cycle 0 → 1 → 2 → 0 with a tail 2 → 3, recorded edge by edge -/
example : let d := [EOp.one 0 1, .one 1 2, .one 2 0, .one 2 3].foldl applyE {}
    ccRest d 100 = true ∧ (d.connectCycles 100).equivalent 0 2 = true ∧ (d.connectCycles 100).equivalent 0 3 = false := by
  decide +kernel
end EqDB
