import CSSVerif.Product
/-! Prototype: model of constructor/cartesian.py `Quotient.get_terms` (C09), including exact
multivariate polynomial division by repeated leading-term division (lex order). -/

def Terms.scaleShift (t : Terms) (k : Param) (v : Int) : Terms := t.map (fun e => (addParams e.1 k, e.2 * v))
def Terms.sub (a b : Terms) : Terms := b.foldl (fun acc e => acc.addAt e.1 (-e.2)) a

/-- leading term w.r.t. lex order on exponent vectors -/
def leadTerm (t : Terms) : Option (Param × Int) :=
  (t.norm).foldl (fun best e => match best with
    | none => some e
    | some b => if paramLe b.1 e.1 then some e else some b) none

def subParams? (a b : Param) : Option Param :=
  if (a.zip b).all (fun p => p.1 ≥ p.2) then some ((a.zip b).map (fun p => p.1 - p.2)) else none

/-- exact division `a / c`; `none` if it is not exact (Python: `assert remainder == 0`) -/
def polyDiv : Nat → Terms → Terms → Terms → Option Terms
  | 0, _, _, _ => none
  | fuel+1, a, c, q =>
    match leadTerm a with
    | none => some q
    | some la =>
      match leadTerm c with
      | none => none
      | some lc =>
        match subParams? la.1 lc.1 with
        | none => none
        | some k =>
          if la.2 % lc.2 != 0 then none else
          let v := la.2 / lc.2
          polyDiv fuel ((a.sub (c.scaleShift k v)).norm) c (q.addAt k v)

/-- `Quotient.param_map`: like `paramMapSame` but every target position must be filled -/
def paramMapAll (m : List (List Nat)) (nTarget : Nat) (p : Param) : Option Param := do
  let init : List (Option Nat) := List.replicate nTarget none
  let res ← (p.zip m).foldlM (fun (acc : List (Option Nat)) (vm : Nat × List Nat) =>
      vm.2.foldlM (fun (acc : List (Option Nat)) pos =>
        match acc.getD pos none with
        | none => some (acc.set pos (some vm.1))
        | some w => if w == vm.1 then some acc else none) acc) init
  res.mapM id

def dfltChild : Child := ⟨[], [], 0, none, fun _ => []⟩

/-- a child's terms of size `s`, re-keyed to the parent's coordinates (sums) -/
def qMapped (parent : List String) (c : Child) (s : Nat) : List (Param × Int) :=
  (c.terms s).map (fun e => (paramMapSum (childPosToParentPos parent c) parent.length e.1, e.2))

/-- add `sign ·` the product of one entry per child, for every combination -/
def qCombine (np : Nat) (acc : Terms) (perChild : List (List (Param × Int))) (sign : Int) : Terms :=
  (cartesian perChild).foldl (fun (acc : Terms) combo =>
    let k := combo.foldl (fun k e => addParams k e.1) (List.replicate np 0)
    let v := combo.foldl (fun v e => v * e.2) 1
    acc.addAt k (sign * v)) acc

/-- `_parent_shift`: the sum of the other children's minimum sizes -/
def qShift (cs : List Child) (idx : Nat) : Nat := (cs.map (·.minSize)).sum - (cs.getD idx dfltChild).minSize

/-- bounds of `_a`: the flipped child is restricted to sizes `≤ n − 1` -/
def qBoundsA (cs : List Child) (idx n : Nat) : List Bound :=
  cs.zipIdx.map (fun (ci : Child × Nat) => if ci.2 == idx then (ci.1.minSize, some (n - 1)) else (ci.1.minSize, ci.1.maxSize))

/-- `_a`: the parent's terms of size `n + shift` minus the contributions in which the flipped child is smaller than `n` -/
def quotA (parent : List String) (cs : List Child) (idx : Nat) (parentTerms : Nat → Terms) (n : Nat) : Terms :=
  (if n == 0 then [] else comps ((n + qShift cs idx : Nat) : Int) (qBoundsA cs idx n)).foldl (fun acc sizes =>
    qCombine parent.length acc ((cs.zip sizes).map (fun cz => qMapped parent cz.1 cz.2)) (-1)) (parentTerms (n + qShift cs idx))

def qOthers (cs : List Child) (idx : Nat) : List Child := (cs.zipIdx.filter (·.2 != idx)).map (·.1)

/-- `_c`: the other children at total size `shift` -/
def quotC (parent : List String) (cs : List Child) (idx : Nat) : Terms :=
  (comps (qShift cs idx : Int) ((qOthers cs idx).map (fun c => (c.minSize, c.maxSize)))).foldl (fun acc sizes =>
    qCombine parent.length acc (((qOthers cs idx).zip sizes).map (fun cz => qMapped parent cz.1 cz.2)) 1) []

/-- `_parent_param_map`: parent coordinates ↦ the flipped child's coordinates (all must be filled, consistently) -/
def qBack (parent names : List String) (emap : List (String × String)) (b : Terms) : Option Terms :=
  let p2c : List (List Nat) := parent.map (fun pv =>
    match emap.find? (·.1 == pv) with
    | some e => [posOf names e.2]
    | none => [])
  b.norm.foldlM (fun (acc : Terms) e => do
    let k ← paramMapAll p2c names.length e.1
    match acc.find? (·.1 == k) with
    | some old => if old.2 == e.2 then pure acc else none
    | none => pure (acc ++ [(k, e.2)])) []

/-- `Quotient.get_terms`. `cs` are the children of the *original* product rule, `idx` the flipped one;
`parentTerms` the original parent's provider; the flipped child's own earlier terms come from
`cs[idx].terms` (sizes < n only). -/
def quotientTerms (parent : List String) (cs : List Child) (idx : Nat)
    (parentTerms : Nat → Terms) (n : Nat) : Option Terms :=
  let flipped := cs.getD idx dfltChild
  if n < flipped.minSize then some [] else
  let a := quotA parent cs idx parentTerms n
  if a.any (fun e => e.2 < 0) then none else
  (polyDiv 10000 a.norm (quotC parent cs idx).norm []).bind (qBack parent flipped.names flipped.emap)
