import CSSVerif.TermsAlg
/-! C09: complement ∘ union for the *repaired* `Complement.get_terms` (siblings are subtracted in the
parent's coordinates first, what is left is then re-keyed into the flipped child's coordinates). -/

theorem coeff_eq_landing_some (T : Terms) (k : Param) : coeff T k = landing some T k := by
  unfold coeff landing
  have : (List.filter (fun e => e.1 == k) T) = (List.filter (fun e => some e.1 == some k) T) := by
    apply List.filter_congr
    intro e _
    by_cases h : e.1 = k
    · simp [h]
    · have : ¬ (some e.1 = some k) := by intro e2; injection e2 with e3; exact h e3
      simp [h]
  rw [this]

def negAll (M : List (Param × Int)) : List (Param × Int) := M.map (fun e => (e.1, -e.2))

theorem landing_negAll (g : PMap) (k : Param) : ∀ M, landing g (negAll M) k = - landing g M k
  | [] => by simp [negAll, landing]
  | m :: M => by
    have ih := landing_negAll g k M
    unfold negAll at ih ⊢
    rw [List.map_cons, landing_cons, landing_cons, ih]
    by_cases h : g m.1 = some k
    · simp [h]; omega
    · simp [h]

theorem landing_filter_key_other (p q : Param) (hq : q ≠ p) : ∀ (M : List (Param × Int)),
    landing some (M.filter (fun m => m.1 == p)) q = 0
  | [] => by simp [landing]
  | m :: M => by
    have ih := landing_filter_key_other p q hq M
    by_cases h : m.1 = p
    · have hb : (m.1 == p) = true := by simpa using h
      rw [List.filter_cons, hb]
      simp only [↓reduceIte]
      rw [landing_cons, ih]
      have : ¬ (some m.1 = some q) := by intro e2; injection e2 with e3; exact hq (by rw [← e3, h])
      simp [this]
    · have hb : (m.1 == p) = false := by simpa using h
      rw [List.filter_cons, hb]
      simpa using ih

theorem landing_filter_key_none (p : Param) : ∀ (M : List (Param × Int)),
    landing some (M.filter (fun m => !(m.1 == p))) p = 0
  | [] => by simp [landing]
  | m :: M => by
    have ih := landing_filter_key_none p M
    by_cases h : m.1 = p
    · have hb : (m.1 == p) = true := by simpa using h
      rw [List.filter_cons]; simp only [hb, Bool.not_true, Bool.false_eq_true, ↓reduceIte]; exact ih
    · have hb : (m.1 == p) = false := by simpa using h
      rw [List.filter_cons]; simp only [hb, Bool.not_false, ↓reduceIte]
      rw [landing_cons, ih]
      have : ¬ (some m.1 = some p) := by intro e2; injection e2 with e3; exact h e3
      simp [this]

/-- a formal sum all of whose coefficients vanish re-keys to zero everywhere -/
theorem landing_zero_of_coeff_zero (g : PMap) (k : Param) : ∀ (n : Nat) (M : List (Param × Int)), M.length ≤ n →
    (∀ p, landing some M p = 0) → landing g M k = 0
  | 0, M, hn, _ => by
    have : M = [] := List.eq_nil_of_length_eq_zero (by omega)
    subst this; rfl
  | n+1, [], _, _ => rfl
  | n+1, m :: M, hn, hz => by
    have hsplit := landing_split g (m :: M) m.1 k
    have hsame := landing_same_key g m.1 k ((m :: M).filter (fun x => x.1 == m.1)) (by
      intro x hx
      have := (List.mem_filter.1 hx).2
      simpa using this)
    have hp0 : landing some ((m :: M).filter (fun x => x.1 == m.1)) m.1 = 0 := by
      have h1 := landing_split some (m :: M) m.1 m.1
      rw [landing_filter_key_none m.1 (m :: M)] at h1
      have := hz m.1
      omega
    have hrest_len : ((m :: M).filter (fun x => !(x.1 == m.1))).length ≤ n := by
      have hb : (!(m.1 == m.1)) = false := by simp
      rw [List.filter_cons, hb]
      simp only [Bool.false_eq_true, ↓reduceIte]
      have := List.length_filter_le (fun x => !(x.1 == m.1)) M
      simp only [List.length_cons] at hn
      omega
    have hrest_zero : ∀ q, landing some ((m :: M).filter (fun x => !(x.1 == m.1))) q = 0 := by
      intro q
      by_cases hq : q = m.1
      · rw [hq]; exact landing_filter_key_none _ (m :: M)
      · have h1 := landing_split some (m :: M) m.1 q
        rw [landing_filter_key_other m.1 q hq (m :: M)] at h1
        have := hz q
        omega
    have ih := landing_zero_of_coeff_zero g k n _ hrest_len hrest_zero
    rw [hsplit, hsame, ih, hp0]
    split <;> rfl

/-- re-keying depends only on the coefficients -/
theorem landing_congr_coeff (g : PMap) (k : Param) (A B : List (Param × Int))
    (h : ∀ p, landing some A p = landing some B p) : landing g A k = landing g B k := by
  have hz : ∀ p, landing some (A ++ negAll B) p = 0 := by
    intro p; rw [landing_append, landing_negAll, h p]; omega
  have := landing_zero_of_coeff_zero g k _ (A ++ negAll B) (Nat.le_refl _) hz
  rw [landing_append, landing_negAll] at this
  omega

/-- **C09, complement ∘ union, repaired code.** `U` is the union of the flipped child `(f0, t0)` and its
siblings (parent coordinates); `S` is `U` minus the siblings, still in parent coordinates; `R` re-keys
the non-zero entries of `S` into the child's coordinates. If no assertion fires, `R` holds at every key
the child's terms sent to parent coordinates and back; if that round trip is the identity on the
child's keys, `R` is the child's terms. -/
theorem complement_union_fixed (toChild : PMap) (f0 : PMap) (t0 : Terms) (sibs : List (PMap × Terms))
    (U S R : Terms)
    (hU : unionList [] ((f0, t0) :: sibs) = some U)
    (hS : subList some U sibs = some S)
    (hR : addMapped toChild 1 false [] (S.filter (fun e => e.2 != 0)) = some R) :
    (∀ k, coeff R k = landing (fun p => (f0 p).bind toChild) t0 k) ∧
    ((∀ e ∈ t0, (f0 e.1).bind toChild = some e.1) → ∀ k, coeff R k = landing some t0 k) := by
  have hrepU := unionList_rep ((f0, t0) :: sibs) [] U [] ⟨List.nodup_nil, fun k => rfl, fun m hm => by cases hm⟩ hU
  simp only [List.nil_append] at hrepU
  obtain ⟨_, d2⟩ := subList_spec some sibs U S hrepU.nd hS
  obtain ⟨_, c2⟩ := addMapped_spec toChild 1 false _ [] R List.nodup_nil hR
  have hcoefS : ∀ p, landing some S p = landing some (contribs f0 1 t0) p := by
    intro p
    rw [← coeff_eq_landing_some, d2 p, hrepU.co p]
    simp only [allContribs]
    rw [landing_append, landing_allContribs]
    omega
  have key : ∀ k, coeff R k = landing (fun p => (f0 p).bind toChild) t0 k := by
    intro k
    rw [c2 k, coeff_nil, landing_filter_nz, landing_congr_coeff toChild k S _ hcoefS, landing_contribs]
    omega
  refine ⟨key, ?_⟩
  intro hround k
  rw [key k]
  unfold landing
  congr 2
  apply List.filter_congr
  intro e he
  show ((f0 e.1).bind toChild == some k) = (some e.1 == some k)
  rw [hround e he]
#print axioms complement_union_fixed
