import CSSVerif.QuotLocal
import CSSVerif.Unique
/-! C01 / C10: the functional of a specification skeleton is *local* in the sense of `sol_unique`
(it reads child `i` only at sizes `≤ n − shift_i` and its own class only below `n`), for skeletons made of
verification, union, product, complement and quotient (reverse product) rules. Hence: two valuations that both satisfy every rule of a
productive skeleton agree — in particular what the recurrences compute equals the true enumeration as soon as the
true enumeration satisfies every rule (`spec_counts_correct`). -/

def toRule (r : SRule) : Rule := ⟨r.cls, r.sub, r.shifts⟩

/-- the functional `F` of `sol_unique` read off a skeleton: the rule of the class computes its terms from `a` -/
def Fsk (skel : List SRule) (ρ : Rule) (a : Nat → Nat → Terms) (n : Nat) : Terms :=
  match skel.find? (fun r => r.cls == ρ.parent) with
  | some r => (ruleSemO r a n).getD []
  | none => []

/-- well-formed skeleton: one rule per class; the declared shifts are the model's; a reverse rule's data is consistent -/
structure SkelWF (skel : List SRule) : Prop where
  lhsNodup : (skel.map (·.cls)).Nodup
  shifts : ∀ r ∈ skel, r.shifts = modelShifts r
  lens : ∀ r ∈ skel, r.kind ≠ .ver → r.sub.length = r.children.length
  idx : ∀ r ∈ skel, (r.kind = .complement ∨ r.kind = .quotient) → r.idx < r.children.length ∧ 0 < r.sub.length

theorem find_self {skel : List SRule} (h : (skel.map (·.cls)).Nodup) {r : SRule} (hr : r ∈ skel) :
    skel.find? (fun x => x.cls == r.cls) = some r := by
  induction skel with
  | nil => cases hr
  | cons x xs ih =>
    simp only [List.map_cons, List.nodup_cons] at h
    rcases List.mem_cons.1 hr with e | e
    · subst e; simp
    · have hne : x.cls ≠ r.cls := by
        intro heq
        exact h.1 (heq ▸ List.mem_map.2 ⟨r, e, rfl⟩)
      have : (x.cls == r.cls) = false := by simpa using hne
      rw [List.find?_cons, this]
      exact ih h.2 e

theorem mem_deps_of_index (r : SRule) (i : Nat) (c : Nat) (s : Int) (hc : r.sub[i]? = some c) (hs : r.shifts[i]? = some s) :
    (c, s) ∈ (toRule r).deps := by
  unfold Rule.deps toRule
  simp only
  have hi : i < r.sub.length := by
    rcases Nat.lt_or_ge i r.sub.length with h | h
    · exact h
    · rw [List.getElem?_eq_none h] at hc; cases hc
  have hj : i < r.shifts.length := by
    rcases Nat.lt_or_ge i r.shifts.length with h | h
    · exact h
    · rw [List.getElem?_eq_none h] at hs; cases hs
  have : (r.sub.zip r.shifts)[i]? = some (c, s) := by
    rw [List.getElem?_zip_eq_some]; exact ⟨hc, hs⟩
  exact List.mem_of_getElem? this

/-- **C10 (model): the skeleton functional is local.** -/
theorem skel_local {skel : List SRule} (hwf : SkelWF skel) : Local (skel.map toRule) (Fsk skel) := by
  intro ρ hρ a b n hdeps hself
  obtain ⟨r, hr, rfl⟩ := List.mem_map.1 hρ
  unfold Fsk
  have hfind : skel.find? (fun x => x.cls == (toRule r).parent) = some r := find_self hwf.lhsNodup hr
  rw [hfind]
  simp only
  have hsh := hwf.shifts r hr
  cases hk : r.kind with
  | ver => simp [ruleSemO, hk]
  | quotient =>
    have hl := hwf.lens r hr (by rw [hk]; intro e; cases e)
    obtain ⟨hidx, hpos⟩ := hwf.idx r hr (Or.inr hk)
    have hshq : r.shifts = reverseShifts (productShifts (r.children.map (·.minSize))) r.idx := by
      rw [hsh]; simp only [modelShifts, hk]
    have hpsI : (productShifts (r.children.map (·.minSize))).getD r.idx 0 = ((qShift r.children r.idx : Nat) : Int) := by
      unfold productShifts qShift
      rw [List.getD_eq_getElem?_getD, List.getElem?_map, List.getElem?_map, List.getD_eq_getElem?_getD,
          List.getElem?_eq_getElem hidx]
      rfl
    have hsib : SibHyp r a b n := by
      intro j hj hne m hm
      have hk' : (if j < r.idx then j else j - 1) + 1 < r.sub.length := by split <;> omega
      have hrc : r.sub[(if j < r.idx then j else j - 1) + 1]? = some (revClass r j) := by
        unfold revClass
        have : (j == r.idx) = false := by simpa using hne
        rw [this]
        simp only [Bool.false_eq_true, ↓reduceIte]
        rw [List.getD_eq_getElem?_getD, List.getElem?_drop, Nat.add_comm 1, List.getElem?_eq_getElem hk']
        rfl
      have hpl : (productShifts (r.children.map (·.minSize))).length = r.children.length := by simp [productShifts]
      have hke : (if j < r.idx then j else j - 1) < ((productShifts (r.children.map (·.minSize))).eraseIdx r.idx).length := by
        rw [List.length_eraseIdx, hpl]; simp only [hidx, ↓reduceIte]; split <;> omega
      have hsj : r.shifts[(if j < r.idx then j else j - 1) + 1]? =
          some (((((r.children.map (·.minSize)).sum - (r.children.getD j dfltChild).minSize : Nat) : Int)) +
                 -((qShift r.children r.idx : Nat) : Int)) := by
        rw [hshq]
        unfold reverseShifts
        simp only [List.getElem?_cons_succ, List.getElem?_map, hpsI]
        rw [List.getElem?_eq_getElem hke, List.getElem_eraseIdx]
        have hj' : j < (productShifts (r.children.map (·.minSize))).length := by omega
        have hval : (productShifts (r.children.map (·.minSize)))[j] =
            ((((r.children.map (·.minSize)).sum - (r.children.getD j dfltChild).minSize : Nat) : Int)) := by
          have hv : (productShifts (r.children.map (·.minSize)))[j]? =
              some ((((r.children.map (·.minSize)).sum - (r.children.getD j dfltChild).minSize : Nat) : Int)) := by
            unfold productShifts
            rw [List.getElem?_map, List.getElem?_map, List.getElem?_eq_getElem hj, List.getD_eq_getElem?_getD,
                List.getElem?_eq_getElem hj]
            rfl
          have := List.getElem?_eq_getElem hj'
          rw [hv] at this
          exact (Option.some.inj this).symm
        by_cases hlt : j < r.idx
        · simp only [hlt, ↓reduceIte, dite_true, Option.map_some]
          rw [hval]
        · have hgt : r.idx < j := by omega
          have e1 : ¬ (j - 1 < r.idx) := by omega
          simp only [hlt, ↓reduceIte, e1, dite_false, Option.map_some]
          have e2 : j - 1 + 1 = j := by omega
          simp only [e2]
          rw [hval]
      have hmem := mem_deps_of_index r _ _ _ hrc hsj
      refine hdeps _ hmem m ?_
      have m1 := child_min_le_sum r.children j hj
      have m2 := child_min_le_sum r.children r.idx hidx
      simp only
      unfold qShift
      omega
    have hbeq : (Kind.quotient == Kind.complement) = false := by decide
    simp only [ruleSemO, hk, hbeq, Bool.false_eq_true, ↓reduceIte]
    by_cases hmin : n < (r.children.getD r.idx dfltChild).minSize
    · unfold quotientTerms
      simp only [attachRev_getD_min, hmin, ↓reduceIte]
    · have hhead : r.sub[0]? = some (r.sub.headD 0) := by
        cases hs : r.sub with
        | nil => rw [hs] at hpos; simp at hpos
        | cons x xs => simp
      have hs0 : r.shifts[0]? = some (-((qShift r.children r.idx : Nat) : Int)) := by
        rw [hshq]; unfold reverseShifts; simp only [List.getElem?_cons_zero, hpsI]
      have hmem := mem_deps_of_index r 0 _ _ hhead hs0
      have hpar : a (r.sub.headD 0) (n + qShift r.children r.idx) = b (r.sub.headD 0) (n + qShift r.children r.idx) := by
        refine hdeps _ hmem _ ?_
        simp only
        omega
      rw [quotient_congr r a b n hpar (fun hn => quot_hA r a b n hidx hn hself hsib)
            (quot_hC r a b n hidx (by omega) hsib)]
  | union =>
    have hl := hwf.lens r hr (by rw [hk]; intro e; cases e)
    have : unionTerms r.parentNames (attach a r) n = unionTerms r.parentNames (attach b r) n := by
      apply union_local
      intro c hc
      obtain ⟨i, hi, e⟩ := List.mem_iff_getElem.1 hc
      have hsi : r.shifts[i]? = some 0 := by
        rw [hsh]; simp only [modelShifts, hk]
        rw [List.getElem?_map, List.getElem?_eq_getElem hi]; rfl
      have hmem := mem_deps_of_index r i c 0 (by rw [List.getElem?_eq_getElem hi, e]) hsi
      exact hdeps (c, 0) hmem n (by simp)
    simp only [ruleSemO, hk, this]
  | product =>
    have hl := hwf.lens r hr (by rw [hk]; intro e; cases e)
    have : productTerms r.parentNames (attach a r) n = productTerms r.parentNames (attach b r) n := by
      apply product_local_model
      intro i cc hcc m hm
      have hz := List.getElem?_zip_eq_some.1 hcc
      have hi : i < r.children.length := by
        rcases Nat.lt_or_ge i r.children.length with h | h
        · exact h
        · rw [List.getElem?_eq_none h] at hz; cases hz.1
      -- the declared shift of child i
      have hsum : sumMin ((r.children.zip r.sub).map (fun cc => (cc.1.minSize, cc.1.maxSize))) = (r.children.map (·.minSize)).sum := by
        unfold sumMin
        rw [List.map_map]
        have : (List.map ((fun (x : Bound) => x.1) ∘ fun (cc : Child × Nat) => (cc.1.minSize, cc.1.maxSize)) (r.children.zip r.sub)) =
               (r.children.zip r.sub).map (fun cc => cc.1.minSize) := by
          apply List.map_congr_left; intro x _; rfl
        rw [this]
        have h2 : (r.children.zip r.sub).map (fun cc => cc.1.minSize) = ((r.children.zip r.sub).map (·.1)).map (·.minSize) := by
          rw [List.map_map]; rfl
        rw [h2, List.map_fst_zip (by omega)]
      have hsi : r.shifts[i]? = some ((((r.children.map (·.minSize)).sum - cc.1.minSize : Nat) : Int)) := by
        rw [hsh]; simp only [modelShifts, hk, productShifts]
        rw [List.getElem?_map, List.getElem?_map, hz.1]; rfl
      have hmem := mem_deps_of_index r i cc.2 _ hz.2 hsi
      refine hdeps _ hmem m ?_
      rw [hsum] at hm
      simp only
      omega
    simp only [ruleSemO, hk, this]
  | complement =>
    have hl := hwf.lens r hr (by rw [hk]; intro e; cases e)
    obtain ⟨hidx, hpos⟩ := hwf.idx r hr (Or.inl hk)
    have hzero : ∀ i, i < r.sub.length → r.shifts[i]? = some 0 := by
      intro i hi
      rw [hsh]; simp only [modelShifts, hk]
      rw [List.getElem?_map, List.getElem?_eq_getElem hi]; rfl
    have hall : ∀ c ∈ r.sub, a c n = b c n := by
      intro c hc
      obtain ⟨i, hi, e⟩ := List.mem_iff_getElem.1 hc
      have hmem := mem_deps_of_index r i c 0 (by rw [List.getElem?_eq_getElem hi, e]) (hzero i hi)
      exact hdeps (c, 0) hmem n (by simp)
    have hhead : r.sub.headD 0 ∈ r.sub := by
      cases hs : r.sub with
      | nil => rw [hs] at hpos; simp at hpos
      | cons x xs => simp
    have : complementTerms r.parentNames (attachRev a r) r.idx (a (r.sub.headD 0)) n =
           complementTerms r.parentNames (attachRev b r) r.idx (b (r.sub.headD 0)) n := by
      apply complement_local
      · exact hall _ hhead
      · intro j hj hne
        exact hall _ (revClass_mem_sub r j hl hidx hj hne)
    have hbeq : (Kind.complement == Kind.complement) = true := by decide
    simp only [ruleSemO, hk, hbeq, ↓reduceIte, this]

/-- **C01 (model).** If the computed valuation `a` and the true enumeration `b` both
satisfy every rule of a well-formed skeleton, they agree on every productive class, at every size. -/
theorem spec_counts_correct {skel : List SRule} (hwf : SkelWF skel) (a b : Nat → Nat → Terms)
    (ha : IsSol (skel.map toRule) (Fsk skel) a) (hb : IsSol (skel.map toRule) (Fsk skel) b)
    (c : Nat) (hprod : ∀ n, Comp (skel.map toRule) c n) : ∀ n, a c n = b c n :=
  sol_unique (skel_local hwf) ha hb c hprod
#print axioms skel_local
#print axioms spec_counts_correct

/-- non-vacuity: the skeleton `F0 = F1 + F2, F1 = ε (verified), F2 = F3 × F0, F3 = atom of size 1` (all words over one
letter) is well formed, so the hypotheses of `spec_counts_correct` are satisfiable; and it is productive -/
def exampleSkel : List SRule :=
  [ { cls := 0, kind := .union, parentNames := [], sub := [1, 2], shifts := [0, 0],
      children := [⟨[], [], 0, some 0, fun _ => []⟩, ⟨[], [], 1, none, fun _ => []⟩] },
    { cls := 1, kind := .ver, parentNames := [], sub := [], shifts := [], children := [], table := [(0, [([], 1)])] },
    { cls := 2, kind := .product, parentNames := [], sub := [3, 0], shifts := [0, 1],
      children := [⟨[], [], 1, some 1, fun _ => []⟩, ⟨[], [], 0, none, fun _ => []⟩] },
    { cls := 3, kind := .ver, parentNames := [], sub := [], shifts := [], children := [], table := [(1, [([], 1)])] } ]

example : SkelWF exampleSkel :=
  ⟨by decide, by decide, by decide, by decide⟩

/-- non-vacuity with a reverse rule: `A = P / B` (the rule `P = A × B` read backwards, `idx = 0`), `P` and `B` verified -/
def exampleSkelQ : List SRule :=
  [ { cls := 0, kind := .quotient, parentNames := [], sub := [1, 2], shifts := [-1, -1], idx := 0,
      children := [⟨[], [], 0, none, fun _ => []⟩, ⟨[], [], 1, some 1, fun _ => []⟩] },
    { cls := 1, kind := .ver, parentNames := [], sub := [], shifts := [], children := [], table := [(1, [([], 1)])] },
    { cls := 2, kind := .ver, parentNames := [], sub := [], shifts := [], children := [], table := [(1, [([], 1)])] } ]

example : SkelWF exampleSkelQ :=
  ⟨by decide, by decide, by decide, by decide⟩

/-- executable form of `SkelWF`, evaluated by the driver on every skeleton read off a real specification -/
def skelWFB (skel : List SRule) : Bool :=
  decide ((skel.map (·.cls)).Nodup) &&
  skel.all (fun r =>
    decide (r.shifts = modelShifts r) &&
    (decide (r.kind = .ver) || decide (r.sub.length = r.children.length)) &&
    (!(decide (r.kind = .complement) || decide (r.kind = .quotient)) ||
      (decide (r.idx < r.children.length) && decide (0 < r.sub.length))))

theorem skelWFB_sound {skel : List SRule} (h : skelWFB skel = true) : SkelWF skel := by
  unfold skelWFB at h
  simp only [Bool.and_eq_true, decide_eq_true_eq, List.all_eq_true, Bool.or_eq_true, Bool.not_eq_true',
    Bool.or_eq_false_iff, decide_eq_false_iff_not] at h
  obtain ⟨hn, hall⟩ := h
  refine ⟨hn, fun r hr => (hall r hr).1.1, ?_, ?_⟩
  · intro r hr hk
    rcases (hall r hr).1.2 with h1 | h1
    · exact absurd h1 hk
    · exact h1
  · intro r hr hk
    rcases (hall r hr).2 with h1 | h1
    · rcases hk with hk | hk
      · exact absurd hk h1.1
      · exact absurd hk h1.2
    · exact h1
#print axioms skelWFB_sound
