/-! Prototype: reference notion of isomorphism of two specification skeletons (C12):
the greatest relation closed under "same kind, atoms of the same size, children matchable by a permutation",
after skipping unary (equivalence) rules. -/
-- (`perms` is kept for reference: `matchDFS` decides the same existence without enumerating permutations)
inductive GRule where
  | atom (size : Nat)
  | union (cs : List Nat)
  | prod (cs : List Nat)
deriving Repr, DecidableEq

abbrev Gram := Array GRule

/-- follow unary unions (equivalence rules) to the class that carries a real rule -/
def resolve (g : Gram) : Nat → Nat → Nat
  | 0, c => c
  | fuel+1, c => match g.getD c (.atom 0) with
    | .union [d] => resolve g fuel d
    | _ => c

def insertAll (x : Nat) : List Nat → List (List Nat)
  | [] => [[x]]
  | y :: ys => (x :: y :: ys) :: (insertAll x ys).map (y :: ·)
def perms : List Nat → List (List Nat)
  | [] => [[]]
  | x :: xs => (perms xs).flatMap (insertAll x)

abbrev Rel := Array (Array Bool)
def Rel.get (r : Rel) (a b : Nat) : Bool := (r.getD a #[]).getD b false

/-- is there a one-to-one matching of the children `cs` with the children `avail` along `r`? (backtracking over the
candidates of the first child; no enumeration of permutations) -/
def matchDFS (r : Nat → Nat → Bool) : List Nat → List Nat → Bool
  | [], avail => avail.isEmpty
  | x :: xs, avail => avail.any (fun y => r x y && matchDFS r xs (avail.erase y))

def localOk (g1 g2 : Gram) (r : Rel) (a b : Nat) : Bool :=
  let a' := resolve g1 g1.size a; let b' := resolve g2 g2.size b
  match g1.getD a' (.atom 0), g2.getD b' (.atom 0) with
  | .atom s, .atom t => s == t
  | .union c1, .union c2 | .prod c1, .prod c2 =>
    c1.length == c2.length && matchDFS (fun x y => r.get x y) c1 c2
  | _, _ => false

def refine (g1 g2 : Gram) (r : Rel) : Rel :=
  (Array.range g1.size).map (fun a => (Array.range g2.size).map (fun b => r.get a b && localOk g1 g2 r a b))

def isoIter (g1 g2 : Gram) : Nat → Rel → Rel
  | 0, r => r
  | fuel+1, r => let r' := refine g1 g2 r; if r' == r then r else isoIter g1 g2 fuel r'

def isoRef (g1 g2 : Gram) : Bool :=
  let full : Rel := (Array.range g1.size).map (fun _ => (Array.range g2.size).map (fun _ => true))
  (isoIter g1 g2 (g1.size * g2.size + 1) full).get 0 0
