import CSSVerif.Engine
/-! C14: model of the memory-saving database's `RecomputingDict.__getitem__` (rule_db/forget.py:82-123):
the strategy of a stored key is recomputed by replaying the whole pack (factories included) on every class
of the key; the first replayed rule whose cleaned key equals the stored key wins. -/

structure LCtx where
  classes : List Nat                      -- label ↦ class id (the class database)
  emptyOf : Nat → Bool                    -- class id ↦ is_empty
  pack : List Nat                         -- strategy indices in pack order
  apply : Nat → Nat → List RuleOut        -- strategy index → class id → rules it yields

abbrev RKey := Nat × List Nat

def LCtx.label? (c : LCtx) (x : Nat) : Option Nat := c.classes.findIdx? (· == x)

/-- the key under which a replayed rule would be stored: label of its parent, sorted labels of its non-empty
children; `none` when the parent or any child (empty or not) is not in the database — every class of a stored
rule was labelled before the rule was recorded, so such a rule cannot be the stored one -/
def cleanKey (c : LCtx) (r : RuleOut) : Option RKey := do
  let start ← c.label? r.parent
  let _ ← r.children.mapM c.label?
  -- same cleaning as `_clean_labels`: only possibly-empty rules lose their empty children
  let labels ← (r.children.filter (fun k => !(r.flags.possiblyEmpty && c.emptyOf k))).mapM c.label?
  pure (start, sortNat labels)

/-- all (strategy, rule) candidates in replay order: for every label of the key, for every pack strategy -/
def candidates (c : LCtx) (key : RKey) : List (Nat × RuleOut) :=
  (key.1 :: key.2).flatMap (fun l =>
    match c.classes[l]? with
    | none => []
    | some x => c.pack.flatMap (fun σ => (c.apply σ x).map (fun r => (σ, r))))

def accepts (c : LCtx) (onlyEquiv : Bool) (key : RKey) (p : Nat × RuleOut) : Bool :=
  cleanKey c p.2 == some key && (!onlyEquiv || p.2.twoWay)

def lookup (c : LCtx) (onlyEquiv : Bool) (key : RKey) : Option Nat :=
  ((candidates c key).find? (accepts c onlyEquiv key)).map (·.1)

/-- a key is replayable when some pack strategy, applied to one of the key's own classes, yields a rule
with that cleaned key — exactly what the implementation assumes -/
def Replayable (c : LCtx) (onlyEquiv : Bool) (key : RKey) : Prop :=
  ∃ l ∈ key.1 :: key.2, ∃ x, c.classes[l]? = some x ∧ ∃ σ ∈ c.pack, ∃ r ∈ c.apply σ x,
    cleanKey c r = some key ∧ (onlyEquiv = true → r.twoWay = true)

theorem mem_candidates {c : LCtx} {key : RKey} {p : Nat × RuleOut} :
    p ∈ candidates c key ↔ ∃ l ∈ key.1 :: key.2, ∃ x, c.classes[l]? = some x ∧ p.1 ∈ c.pack ∧ p.2 ∈ c.apply p.1 x := by
  unfold candidates
  simp only [List.mem_flatMap]
  constructor
  · rintro ⟨l, hl, hp⟩
    cases hx : c.classes[l]? with
    | none => rw [hx] at hp; simp at hp
    | some x =>
      rw [hx] at hp
      simp only [List.mem_flatMap, List.mem_map] at hp
      obtain ⟨σ, hσ, r, hr, rfl⟩ := hp
      exact ⟨l, hl, x, hx, hσ, hr⟩
  · rintro ⟨l, hl, x, hx, hσ, hr⟩
    refine ⟨l, hl, ?_⟩
    rw [hx]
    simp only [List.mem_flatMap, List.mem_map]
    exact ⟨p.1, hσ, p.2, hr, rfl⟩

/-- **lookup_sound**: a handed-back strategy reproduces the stored key when re-applied to one of its classes -/
theorem lookup_sound (c : LCtx) (onlyEquiv : Bool) (key : RKey) (σ : Nat) (h : lookup c onlyEquiv key = some σ) :
    ∃ l ∈ key.1 :: key.2, ∃ x, c.classes[l]? = some x ∧ σ ∈ c.pack ∧ ∃ r ∈ c.apply σ x,
      cleanKey c r = some key ∧ (onlyEquiv = true → r.twoWay = true) := by
  unfold lookup at h
  cases hf : (candidates c key).find? (accepts c onlyEquiv key) with
  | none => rw [hf] at h; cases h
  | some p =>
    rw [hf] at h
    simp only [Option.map_some, Option.some.injEq] at h
    have hmem := List.mem_of_find?_eq_some hf
    have hacc := List.find?_some hf
    obtain ⟨l, hl, x, hx, hσ, hr⟩ := mem_candidates.1 hmem
    unfold accepts at hacc
    simp only [Bool.and_eq_true, beq_iff_eq, Bool.or_eq_true, Bool.not_eq_true'] at hacc
    subst h
    refine ⟨l, hl, x, hx, hσ, p.2, hr, hacc.1, ?_⟩
    intro ho
    rcases hacc.2 with e | e
    · rw [ho] at e; cases e
    · exact e

/-- **lookup_complete**: every replayable key gets a strategy back -/
theorem lookup_complete (c : LCtx) (onlyEquiv : Bool) (key : RKey) (h : Replayable c onlyEquiv key) :
    (lookup c onlyEquiv key).isSome = true := by
  obtain ⟨l, hl, x, hx, σ, hσ, r, hr, hk, htw⟩ := h
  unfold lookup
  have hmem : (σ, r) ∈ candidates c key := mem_candidates.2 ⟨l, hl, x, hx, hσ, hr⟩
  have hacc : accepts c onlyEquiv key (σ, r) = true := by
    unfold accepts
    simp only [Bool.and_eq_true, beq_iff_eq, Bool.or_eq_true, Bool.not_eq_true']
    refine ⟨hk, ?_⟩
    cases onlyEquiv with
    | false => exact Or.inl rfl
    | true => exact Or.inr (htw rfl)
  cases hf : (candidates c key).find? (accepts c onlyEquiv key) with
  | none =>
    have := List.find?_eq_none.1 hf (σ, r) hmem
    rw [hacc] at this
    exact absurd rfl this
  | some p => simp
#print axioms lookup_sound
#print axioms lookup_complete
