import CSSVerif.Engine
/-! C06 (two-way part): the observable union–find `EDB` realises exactly the equivalence generated
by the merged pairs. -/
namespace EDB

def keys (e : EDB) : List Nat := e.root.map (·.1)

/-- well-formedness: keys are distinct and every root is its own root -/
structure WF (e : EDB) : Prop where
  nd : e.keys.Nodup
  idem : ∀ x r, (x, r) ∈ e.root → (r, r) ∈ e.root

theorem find?_key {l : List (Nat × Nat)} {x : Nat} {p : Nat × Nat}
    (h : l.find? (·.1 == x) = some p) : p ∈ l ∧ p.1 = x := by
  have := List.find?_some h
  exact ⟨List.mem_of_find?_eq_some h, by simpa using this⟩

theorem find?_of_mem {l : List (Nat × Nat)} (hnd : (l.map (·.1)).Nodup) {x r : Nat} (hm : (x, r) ∈ l) :
    l.find? (·.1 == x) = some (x, r) := by
  induction l with
  | nil => cases hm
  | cons y ys ih =>
    simp only [List.map_cons, List.nodup_cons] at hnd
    rcases List.mem_cons.1 hm with e | e
    · subst e; simp
    · have hne : y.1 ≠ x := by
        intro e2
        exact hnd.1 (List.mem_map.2 ⟨(x, r), e, e2.symm⟩)
      rw [List.find?_cons]
      have : (y.1 == x) = false := by simpa using hne
      rw [this]
      exact ih hnd.2 e

theorem find_of_mem {e : EDB} (h : WF e) {x r : Nat} (hm : (x, r) ∈ e.root) : e.find x = r := by
  unfold find
  rw [find?_of_mem h.nd hm]; rfl

theorem find_not_key {e : EDB} {x : Nat} (hx : x ∉ e.keys) : e.find x = x := by
  unfold find
  cases hf : e.root.find? (·.1 == x) with
  | none => rfl
  | some p =>
    obtain ⟨h1, h2⟩ := find?_key hf
    exact absurd (List.mem_map.2 ⟨p, h1, h2⟩) hx

theorem find_root_is_key {e : EDB} (h : WF e) {x : Nat} (hx : x ∈ e.keys) :
    (e.find x, e.find x) ∈ e.root := by
  obtain ⟨p, hp, rfl⟩ := List.mem_map.1 hx
  have : e.find p.1 = p.2 := find_of_mem h (by cases p; exact hp)
  rw [this]
  exact h.idem p.1 p.2 (by cases p; exact hp)

theorem touch_wf {e : EDB} (h : WF e) (l : Nat) : WF (e.touch l) := by
  unfold touch
  split
  · exact h
  · rename_i hno
    have hl : l ∉ e.keys := by
      intro hm
      obtain ⟨p, hp, hpl⟩ := List.mem_map.1 hm
      exact hno (List.any_eq_true.2 ⟨p, hp, by simp [hpl]⟩)
    refine ⟨?_, ?_⟩
    · show ((e.root ++ [(l, l)]).map (·.1)).Nodup
      simp only [List.map_append, List.map_cons, List.map_nil]
      refine List.nodup_append.2 ⟨h.nd, by simp, ?_⟩
      intro a ha b hb e2
      simp only [List.mem_singleton] at hb
      subst hb; subst e2; exact hl ha
    · intro x r hm
      show (r, r) ∈ e.root ++ [(l, l)]
      rcases List.mem_append.1 hm with e1 | e1
      · exact List.mem_append_left _ (h.idem x r e1)
      · simp only [List.mem_singleton, Prod.mk.injEq] at e1
        obtain ⟨rfl, rfl⟩ := e1
        exact List.mem_append_right _ (by simp)

theorem touch_find {e : EDB} (h : WF e) (l x : Nat) : (e.touch l).find x = e.find x := by
  unfold touch
  split
  · rfl
  · rename_i hno
    have hl : l ∉ e.keys := by
      intro hm
      obtain ⟨p, hp, hpl⟩ := List.mem_map.1 hm
      exact hno (List.any_eq_true.2 ⟨p, hp, by simp [hpl]⟩)
    by_cases hx : x ∈ e.keys
    · obtain ⟨p, hp, rfl⟩ := List.mem_map.1 hx
      have h1 : e.find p.1 = p.2 := find_of_mem h (by cases p; exact hp)
      have hwf := touch_wf h l
      unfold touch at hwf
      simp only [hno] at hwf
      have h2 := find_of_mem hwf (show (p.1, p.2) ∈ e.root ++ [(l, l)] from List.mem_append_left _ (by cases p; exact hp))
      rw [h1]; exact h2
    · rw [find_not_key hx]
      by_cases hxl : x = l
      · subst hxl
        have hwf := touch_wf h x
        unfold touch at hwf
        simp only [hno] at hwf
        exact find_of_mem hwf (show (x, x) ∈ e.root ++ [(x, x)] from List.mem_append_right _ (by simp))
      · apply find_not_key
        show x ∉ (e.root ++ [(l, l)]).map (·.1)
        simp only [List.map_append, List.map_cons, List.map_nil, List.mem_append, List.mem_singleton, not_or]
        exact ⟨hx, hxl⟩

theorem touch_key (e : EDB) (l : Nat) : l ∈ (e.touch l).keys := by
  unfold touch
  split
  · rename_i h
    obtain ⟨p, hp, hpl⟩ := List.any_eq_true.1 h
    exact List.mem_map.2 ⟨p, hp, by simpa using hpl⟩
  · show l ∈ (e.root ++ [(l, l)]).map (·.1)
    simp

theorem touch_keys_mono (e : EDB) (l x : Nat) (hx : x ∈ e.keys) : x ∈ (e.touch l).keys := by
  unfold touch
  split
  · exact hx
  · show x ∈ (e.root ++ [(l, l)]).map (·.1)
    simp only [List.map_append, List.mem_append]; exact Or.inl hx
end EDB

namespace EDB
/-- the merge step of `union`: every label whose root is `lt` is re-pointed to `hv` -/
def retarget (e : EDB) (hv lt : Nat) (w : List (Nat × Nat)) : EDB :=
  { e with root := e.root.map (fun (p : Nat × Nat) => if p.2 == lt then (p.1, hv) else p), weight := w }

theorem retarget_keys (e : EDB) (hv lt : Nat) (w : List (Nat × Nat)) : (e.retarget hv lt w).keys = e.keys := by
  unfold retarget keys
  simp only [List.map_map]
  apply List.map_congr_left
  intro p _
  simp only [Function.comp]
  split <;> rfl

theorem retarget_wf {e : EDB} (h : WF e) (hv lt : Nat) (w : List (Nat × Nat)) (hhv : (hv, hv) ∈ e.root)
    (hne : hv ≠ lt) : WF (e.retarget hv lt w) := by
  refine ⟨by rw [retarget_keys]; exact h.nd, ?_⟩
  intro x r hm
  unfold retarget at hm ⊢
  simp only [List.mem_map] at hm ⊢
  obtain ⟨p, hp, he⟩ := hm
  by_cases hpl : (p.2 == lt) = true
  · simp only [hpl, ↓reduceIte, Prod.mk.injEq] at he
    obtain ⟨_, rfl⟩ := he
    refine ⟨(hv, hv), hhv, ?_⟩
    have : ((hv, hv) : Nat × Nat).2 ≠ lt := hne
    simp [hne]
  · have hpl' : (p.2 == lt) = false := by cases hh : (p.2 == lt) <;> simp_all
    rw [hpl'] at he
    simp only [Bool.false_eq_true, if_false] at he
    have hr := h.idem p.1 p.2 (by cases p; exact hp)
    have hr2 : r = p.2 := by rw [he]
    subst hr2
    refine ⟨(p.2, p.2), hr, ?_⟩
    show (if (p.2 == lt) = true then (p.2, hv) else (p.2, p.2)) = (p.2, p.2)
    rw [hpl']; rfl

theorem retarget_find {e : EDB} (h : WF e) (hv lt : Nat) (w : List (Nat × Nat)) (hhv : (hv, hv) ∈ e.root)
    (hne : hv ≠ lt) (hlt : lt ∈ e.keys) (x : Nat) :
    (e.retarget hv lt w).find x = if e.find x = lt then hv else e.find x := by
  by_cases hx : x ∈ e.keys
  · obtain ⟨p, hp, rfl⟩ := List.mem_map.1 hx
    have h1 : e.find p.1 = p.2 := find_of_mem h (by cases p; exact hp)
    rw [h1]
    have hwf := retarget_wf h hv lt w hhv hne
    by_cases hpl : p.2 = lt
    · simp only [hpl, ↓reduceIte]
      apply find_of_mem hwf
      unfold retarget
      simp only [List.mem_map]
      exact ⟨p, hp, by simp [hpl]⟩
    · simp only [hpl, ↓reduceIte]
      apply find_of_mem hwf
      unfold retarget
      simp only [List.mem_map]
      refine ⟨p, hp, ?_⟩
      have : (p.2 == lt) = false := by simpa using hpl
      simp [this]
  · have hx' : x ∉ (e.retarget hv lt w).keys := by rw [retarget_keys]; exact hx
    rw [find_not_key hx', find_not_key hx]
    have : x ≠ lt := fun e2 => hx (e2 ▸ hlt)
    simp [this]

/-- the equivalence the structure represents -/
def Rel (e : EDB) (x y : Nat) : Prop := e.find x = e.find y

/-- merging the classes of `a` and `b`: two labels are related afterwards iff they were related
before or one was related to `a` and the other to `b`. -/
theorem retarget_rel {e : EDB} (h : WF e) (a b : Nat) (ha : a ∈ e.keys) (hb : b ∈ e.keys)
    (hne : e.find a ≠ e.find b) (w : List (Nat × Nat)) (x y : Nat) :
    Rel (e.retarget (e.find a) (e.find b) w) x y ↔
      (Rel e x y ∨ (Rel e x a ∧ Rel e y b) ∨ (Rel e x b ∧ Rel e y a)) := by
  have hhv := find_root_is_key h ha
  have hltk : e.find b ∈ e.keys := List.mem_map.2 ⟨_, find_root_is_key h hb, rfl⟩
  unfold Rel
  rw [retarget_find h _ _ w hhv hne hltk x, retarget_find h _ _ w hhv hne hltk y]
  by_cases h1 : e.find x = e.find b <;> by_cases h2 : e.find y = e.find b
  · rw [if_pos h1, if_pos h2]
    exact ⟨fun _ => Or.inl (h1.trans h2.symm), fun _ => rfl⟩
  · rw [if_pos h1, if_neg h2]
    constructor
    · intro e1; exact Or.inr (Or.inr ⟨h1, e1.symm⟩)
    · rintro (e1 | ⟨_, e2⟩ | ⟨_, e2⟩)
      · exact absurd (e1.symm.trans h1) h2
      · exact absurd e2 h2
      · exact e2.symm
  · rw [if_neg h1, if_pos h2]
    constructor
    · intro e1; exact Or.inr (Or.inl ⟨e1, h2⟩)
    · rintro (e1 | ⟨e1, _⟩ | ⟨e1, _⟩)
      · exact absurd (e1.trans h2) h1
      · exact e1
      · exact absurd e1 h1
  · rw [if_neg h1, if_neg h2]
    constructor
    · intro e1; exact Or.inl e1
    · rintro (e1 | ⟨_, e2⟩ | ⟨e1, _⟩)
      · exact e1
      · exact absurd e2 h2
      · exact absurd e1 h1
#print axioms retarget_rel
end EDB
