import CSSVerif.Json
/-! C18: specifications (`CombinatorialSpecification.to_jsonable`: root + the list of its rules) and strategy packs
(`StrategyPack.to_jsonable`: name, the four strategy lists with the expansion sets nested, symmetries, iterative flag),
strategies and classes abstracted to numbers. Loading what was dumped gives the value back. -/

structure SpecJ where
  root : Nat
  rules : List Form
deriving DecidableEq, Repr

def specToJ (s : SpecJ) : J :=
  .obj [("root", .num s.root), ("rules", .arr (s.rules.map toJ))]

def specFromJ (j : J) : Option SpecJ := do
  let r ← (← j.field "root").asNum
  let rs ← (← j.field "rules").asArr
  let rules ← rs.mapM fromJ
  pure ⟨r, rules⟩

theorem mapM_form (rs : List Form) : rs.mapM (fromJ ∘ toJ) = some rs := by
  induction rs with
  | nil => rfl
  | cons x xs ih => simp [List.mapM_cons, fromJ_toJ, ih]

/-- **C18 (specifications).** -/
theorem spec_roundtrip (s : SpecJ) : specFromJ (specToJ s) = some s := by
  simp [specFromJ, specToJ, J.field, J.asNum, J.asArr, mapM_form]

structure PackJ where
  name : String
  initial : List Nat
  inferral : List Nat
  expansion : List (List Nat)
  ver : List Nat
  symmetries : List Nat
  iterative : Bool
deriving DecidableEq, Repr

def numsToJ (l : List Nat) : J := .arr (l.map .num)
def numsFromJ (j : J) : Option (List Nat) := do (← j.asArr).mapM J.asNum

theorem nums_roundtrip (l : List Nat) : numsFromJ (numsToJ l) = some l := by
  simp [numsFromJ, numsToJ, J.asArr, mapM_asNum]

def packToJ (p : PackJ) : J :=
  .obj [("name", .str p.name), ("initial_strats", numsToJ p.initial), ("inferral_strats", numsToJ p.inferral),
        ("expansion_strats", .arr (p.expansion.map numsToJ)), ("ver_strats", numsToJ p.ver),
        ("symmetries", numsToJ p.symmetries), ("iterative", .num (if p.iterative then 1 else 0))]

def packFromJ (j : J) : Option PackJ := do
  let name ← (← j.field "name").asStr
  let ini ← numsFromJ (← j.field "initial_strats")
  let inf ← numsFromJ (← j.field "inferral_strats")
  let exp ← (← (← j.field "expansion_strats").asArr).mapM numsFromJ
  let ver ← numsFromJ (← j.field "ver_strats")
  let sym ← numsFromJ (← j.field "symmetries")
  let it ← (← j.field "iterative").asNum
  pure ⟨name, ini, inf, exp, ver, sym, it == 1⟩

theorem mapM_nums (ls : List (List Nat)) : ls.mapM (numsFromJ ∘ numsToJ) = some ls := by
  induction ls with
  | nil => rfl
  | cons x xs ih => simp [List.mapM_cons, nums_roundtrip, ih]

/-- **C18 (packs).** -/
theorem pack_roundtrip (p : PackJ) : packFromJ (packToJ p) = some p := by
  cases p with
  | mk name ini inf exp ver sym it =>
    cases it <;> simp [packFromJ, packToJ, J.field, J.asStr, J.asArr, J.asNum, nums_roundtrip, mapM_nums]
#print axioms spec_roundtrip
#print axioms pack_roundtrip

example : specFromJ (specToJ ⟨0, [.single (.ver 6 5), .path [.unit (.plain ⟨4, 2, [5]⟩)]]⟩) =
    some ⟨0, [.single (.ver 6 5), .path [.unit (.plain ⟨4, 2, [5]⟩)]]⟩ := by decide
