import CSSVerif.Drained
/-! C16 clause 3, the order: the packets of one label are handed out in the order inferral, initial 0, 1, ..., expansion set 0
(strategy 0, 1, ...), expansion set 1, ... -/

def wlt : Work → Work → Bool
  | .inferral, .inferral => false
  | .inferral, _ => true
  | .initial _, .inferral => false
  | .initial i, .initial k => decide (i < k)
  | .initial _, .expansion _ _ => true
  | .expansion j i, .expansion j' i' => decide (j < j' ∨ (j = j' ∧ i < i'))
  | .expansion _ _, _ => false

def RO (a b : WP) : Prop := a.label = b.label → wlt a.work b.work = true

structure OI (p : Pack) (q : Q) (H : List WP) : Prop where
  o1 : (H ++ live q).Pairwise RO
  o2 : ∀ l, l ∉ q.ignore → l ∈ q.initExp → 0 < p.nInf → l ∈ q.infExp

theorem helperWorking_staging (p : Pack) (q : Q) (l : Nat) (ws : List Nat) (hq : q.working = l :: ws) :
    (helperWorking p q).staging = q.staging ++
      ((if canInf p q l = true then [WP.mk l .inferral] else []) ++
       (if canInit p q l = true then (List.range p.nInit).map (fun i => WP.mk l (.initial i)) else [])) := by
  rw [helperWorking_unfold p q l ws hq]
  unfold infPart initPart canInf canInit Q.setNotInferrable Q.setNotInitial
  by_cases hi : l ∈ q.ignore <;> by_cases h1 : l ∈ q.infExp <;> by_cases h2 : l ∈ q.initExp <;>
    by_cases n1 : 0 < p.nInf <;> by_cases n2 : 0 < p.nInit <;>
    simp [hi, h1, h2, n1, n2]

theorem live_append (q : Q) (st : List WP) :
    live { q with staging := q.staging ++ st } = live q ++ st.filter (fun w => !q.ignore.contains w.label) := by
  simp [live, List.filter_append]

theorem OI.init (p : Pack) : OI p (Q.init p) [] := by
  refine ⟨by simp [live, Q.init], ?_⟩
  intro l _ h; simp [Q.init] at h

theorem OI.drop {p : Pack} {q : Q} {H : List WP} {w : WP} {st : List WP} (h : OI p q H)
    (hst : q.staging = w :: st) (hig : q.ignore.contains w.label = true) : OI p { q with staging := st } H := by
  refine ⟨?_, h.o2⟩
  have hm : w.label ∈ q.ignore := List.contains_iff_mem.1 hig
  have : live { q with staging := st } = live q := by simp [live, hst, hm]
  rw [this]; exact h.o1

theorem OI.yield {p : Pack} {q : Q} {H : List WP} {w : WP} {st : List WP} (h : OI p q H)
    (hst : q.staging = w :: st) (hig : q.ignore.contains w.label = false) :
    OI p { q with staging := st } (H ++ [w]) := by
  refine ⟨?_, h.o2⟩
  have hm : w.label ∉ q.ignore := by intro e; rw [List.contains_iff_mem.2 e] at hig; cases hig
  have : live q = w :: live { q with staging := st } := by simp [live, hst, hm]
  have h1 := h.o1
  rw [this] at h1
  rw [List.append_assoc]; exact h1

theorem OI.add {p : Pack} {q : Q} {H : List WP} (h : OI p q H) (l : Nat) : OI p (q.add p l) H := by
  unfold Q.add
  split
  · exact ⟨h.o1, h.o2⟩
  · split
    · exact ⟨h.o1, h.o2⟩
    · exact h

theorem OI.setStop {p : Pack} {q : Q} {H : List WP} (h : OI p q H) (l : Nat) : OI p (q.setStop l) H := by
  obtain ⟨f1, f2, f3, f4, f5, f6, f7⟩ := setStop_fields q l
  refine ⟨?_, ?_⟩
  · have hs : (live (q.setStop l)).Sublist (live q) := by
      unfold live; rw [f1]
      exact live_sublist_of_ignore_grows q.staging q.ignore (q.setStop l).ignore (fun x hx => (f4 x).2 (Or.inr hx))
    exact h.o1.sublist (List.Sublist.append (List.Sublist.refl H) hs)
  · intro x hx hi n
    have hx' : x ∉ q.ignore := fun e => hx ((f4 x).2 (Or.inr e))
    have hne : x ≠ l := fun e => hx ((f4 x).2 (Or.inl e))
    exact (f5 x).2 ⟨hne, h.o2 x hx' ((f6 x).1 hi).2 n⟩

theorem OI.notInf {p : Pack} {q : Q} {H : List WP} (h : OI p q H) (l : Nat) : OI p (q.setNotInferrable l) H := by
  unfold Q.setNotInferrable
  split
  · exact ⟨h.o1, fun x hx hi n => List.mem_cons_of_mem _ (h.o2 x hx hi n)⟩
  · exact h

theorem OI.changeLevel {p : Pack} {q q' : Q} {H : List WP} (h : OI p q H) (hc : changeLevel q = some q') :
    OI p q' H := by
  unfold _root_.changeLevel at hc
  simp only at hc
  split at hc
  · cases hc
  · split at hc
    · cases hc
    · injection hc with hc
      subst hc
      exact ⟨h.o1, h.o2⟩

theorem mem_live_staging {q : Q} {H : List WP} {a : WP} (ha : a ∈ H ++ live q) : a ∈ H ++ q.staging := by
  rcases List.mem_append.1 ha with e | e
  · exact List.mem_append_left _ e
  · exact List.mem_append_right _ (live_sub_staging q a e)

theorem pairwise_range_map (f : Nat → WP) (n : Nat) (hf : ∀ i k, i < k → RO (f i) (f k)) :
    ((List.range n).map f).Pairwise RO := by
  rw [List.pairwise_map]
  exact List.Pairwise.imp (fun {a b} hab => hf a b hab) List.pairwise_lt_range

theorem OI.hWorking {p : Pack} {q : Q} {H : List WP} {A U M : Nat → Prop} (h : OI p q H) (hq : QI p q H)
    (hd : DI p q H A U M) : OI p (helperWorking p q) H := by
  match hw : q.working with
  | [] => unfold helperWorking; rw [hw]; exact h
  | l :: ws =>
    obtain ⟨f1, f2, f3, f4, f5, f6, f7, f8, f9, f10, f11⟩ := helperWorking_fields p q l ws hw
    have sg := helperWorking_staging p q l ws hw
    refine ⟨?_, ?_⟩
    · unfold live
      rw [f3, sg, List.filter_append, ← List.append_assoc]
      refine List.pairwise_append.2 ⟨h.o1, ?_, ?_⟩
      · apply List.Pairwise.sublist List.filter_sublist
        refine List.pairwise_append.2 ⟨?_, ?_, ?_⟩
        · split
          · exact List.pairwise_singleton _ _
          · exact List.Pairwise.nil
        · split
          · exact pairwise_range_map _ _ (fun i k hik _ => by simp [wlt, hik])
          · exact List.Pairwise.nil
        · intro a ha b hb _
          split at ha
          · simp only [List.mem_singleton] at ha
            split at hb
            · obtain ⟨i, _, e⟩ := List.mem_map.1 hb
              subst ha; subst e; rfl
            · cases hb
          · cases ha
      · intro a ha b hb hab
        obtain ⟨hb1, hb2⟩ := List.mem_filter.1 hb
        have ha' := mem_live_staging ha
        have hbl : b.label = l := by
          rcases List.mem_append.1 hb1 with e | e
          · split at e
            · simp only [List.mem_singleton] at e; rw [e]
            · cases e
          · split at e
            · obtain ⟨i, _, e⟩ := List.mem_map.1 e; rw [← e]
            · cases e
        have hnig : l ∉ q.ignore := by
          intro e
          rw [hbl, List.contains_iff_mem.2 e] at hb2
          cases hb2
        have hal : a.label = l := by rw [hab, hbl]
        have cinf : canInf p q l = true → l ∉ q.infExp := by
          intro c e; unfold canInf at c; rw [List.contains_iff_mem.2 e] at c; simp at c
        have cini : canInit p q l = true → l ∉ q.initExp := by
          intro c e; unfold canInit at c; rw [List.contains_iff_mem.2 e] at c; simp at c
        have cinf0 : canInf p q l = true → 0 < p.nInf := by
          intro c; unfold canInf at c; simp only [Bool.and_eq_true, decide_eq_true_eq] at c; exact c.1
        have cini0 : canInit p q l = true → 0 < p.nInit := by
          intro c; unfold canInit at c; simp only [Bool.and_eq_true, decide_eq_true_eq] at c; exact c.1
        match hwk : a.work with
        | .inferral =>
          have hin : l ∈ q.infExp := by
            rcases hq.inf a ha' hwk with e | e
            · rw [hal] at e; exact e
            · rw [hal] at e; exact absurd e hnig
          rcases List.mem_append.1 hb1 with e | e
          · split at e
            · rename_i c; exact absurd hin (cinf c)
            · cases e
          · split at e
            · obtain ⟨i, _, e⟩ := List.mem_map.1 e; rw [← e]; rfl
            · cases e
        | .initial i =>
          have hin : l ∈ q.initExp := by
            rcases hq.ini a ha' i hwk with e | e
            · rw [hal] at e; exact e
            · rw [hal] at e; exact absurd e hnig
          rcases List.mem_append.1 hb1 with e | e
          · split at e
            · rename_i c; exact absurd (h.o2 l hnig hin (cinf0 c)) (cinf c)
            · cases e
          · split at e
            · rename_i c; exact absurd hin (cini c)
            · cases e
        | .expansion j i =>
          have hc : ∃ j', l ∈ q.curr.getD j' [] := by
            rcases hq.exp a ha' j i hwk with e | ⟨j', _, e⟩
            · rw [hal] at e; exact absurd e hnig
            · rw [hal] at e; exact ⟨j', e⟩
          obtain ⟨d1, d2⟩ := hd.d4 l hnig (Or.inr hc)
          rcases List.mem_append.1 hb1 with e | e
          · split at e
            · rename_i c; exact absurd (d1 (cinf0 c)) (cinf c)
            · cases e
          · split at e
            · rename_i c; exact absurd (d2 (cini0 c)) (cini c)
            · cases e
    · intro x hx hi n
      rw [f3] at hx
      rcases f7 x hi with e | ⟨e, _⟩
      · exact f4 x (h.o2 x hx e n)
      · subst e; exact f8 n hx

theorem OI.hCurr {p : Pack} {q : Q} {H : List WP} (h : OI p q H) (hq : QI p q H) : OI p (helperCurr p q) H := by
  match hpop : popFirst q.curr 0 with
  | none => unfold helperCurr; rw [hpop]; exact h
  | some (idx, l, rest) =>
    obtain ⟨g1, _, _⟩ := popFirst_get q.curr 0 idx l rest hpop
    simp only [Nat.sub_zero] at g1
    have hl_in : l ∈ q.curr.getD idx [] := by rw [g1]; exact List.mem_cons_self
    rcases helperCurr_cases p q idx l rest hpop with ⟨_, heq⟩ | ⟨_, heq⟩
    · rw [heq]
      have h1 : OI p ({ q with curr := rest } : Q) H := ⟨h.o1, h.o2⟩
      exact h1.setStop l
    · rw [heq]
      refine ⟨?_, h.o2⟩
      unfold live
      simp only
      rw [List.filter_append, ← List.append_assoc]
      refine List.pairwise_append.2 ⟨h.o1, ?_, ?_⟩
      · apply List.Pairwise.sublist List.filter_sublist
        exact pairwise_range_map _ _ (fun i k hik _ => by simp [wlt, hik])
      · intro a ha b hb hab
        obtain ⟨hb1, hb2⟩ := List.mem_filter.1 hb
        obtain ⟨i', _, e⟩ := List.mem_map.1 hb1
        subst e
        simp only at hab hb2 ⊢
        have hnig : l ∉ q.ignore := by
          intro e; rw [List.contains_iff_mem.2 e] at hb2; cases hb2
        have ha' := mem_live_staging ha
        match hwk : a.work with
        | .inferral => rfl
        | .initial i => rfl
        | .expansion j i =>
          rcases hq.exp a ha' j i hwk with e | ⟨j', hj, e⟩
          · rw [hab] at e; exact absurd e hnig
          · rw [hab] at e
            have := hq.uniq j' idx l e hl_in
            subst this
            simp [wlt, hj]

structure Inv3 (p : Pack) (q : Q) (H : List WP) (A U M : Nat → Prop) : Prop where
  qi : QI p q H
  di : DI p q H A U M
  oi : OI p q H

theorem Inv3.next {p : Pack} {A U M : Nat → Prop} : ∀ (f : Nat) (q q' : Q) (H : List WP) (o : Out), Inv3 p q H A U M →
    Q.next p f q = (q', o) → OI p q' (handedAfter H o) := by
  intro f
  induction f with
  | zero =>
    intro q q' H o h hn
    simp only [Q.next] at hn
    injection hn with h1 h2; subst h1; subst h2; exact h.oi
  | succ f ih =>
    intro q q' H o h hn
    unfold Q.next at hn
    split at hn
    · rename_i w st hst
      simp only at hn
      split at hn
      · rename_i hig
        exact ih _ _ _ _ ⟨h.qi.drop hst hig, h.di.drop hst (List.contains_iff_mem.1 hig), h.oi.drop hst hig⟩ hn
      · rename_i hig
        injection hn with h1 h2; subst h1; subst h2
        have hig' : q.ignore.contains w.label = false := by
          cases hh : q.ignore.contains w.label with
          | true => exact absurd hh hig
          | false => rfl
        exact h.oi.yield hst hig'
    · rename_i hst
      split at hn
      · exact ih _ _ _ _ ⟨h.qi.hWorking, h.di.hWorking, h.oi.hWorking h.qi h.di⟩ hn
      · split at hn
        · rename_i hall
          split at hn
          · injection hn with h1 h2; subst h1; subst h2; exact h.oi
          · rename_i q2 hcl
            have hq2 := h.qi.changeLevel hall hcl
            have hd2 := h.di.changeLevel hcl
            have ho2 := h.oi.changeLevel hcl
            obtain ⟨_, _, hst2, _, h5⟩ := changeLevel_spec p q q2 hst h.qi.len hall hcl
            exact ih _ _ _ _ ⟨hq2.hCurr h5, hd2.hCurr hst2, ho2.hCurr hq2⟩ hn
        · rename_i hall
          have hall' : q.curr.all (·.isEmpty) = false := by
            cases hb : q.curr.all (·.isEmpty) with
            | true => exact absurd hb hall
            | false => rfl
          exact ih _ _ _ _ ⟨h.qi.hCurr hall', h.di.hCurr hst, h.oi.hCurr h.qi⟩ hn

theorem runOps_OI (p : Pack) (fuel : Nat) (ops : List Op) : OI p (runOps p fuel ops).1 (runOps p fuel ops).2 := by
  have aux : ∀ (ops pre : List Op),
      OI p (runOps p fuel pre).1 (runOps p fuel pre).2 → OI p (runOps p fuel (pre ++ ops)).1 (runOps p fuel (pre ++ ops)).2 := by
    intro ops
    induction ops with
    | nil => intro pre h; simpa using h
    | cons o ops ih =>
      intro pre h
      have e : pre ++ o :: ops = (pre ++ [o]) ++ ops := by simp
      rw [e]
      apply ih
      have hs : runOps p fuel (pre ++ [o]) = stepOp p fuel (runOps p fuel pre) o := by
        unfold runOps; rw [List.foldl_append]; rfl
      rw [hs]
      cases o with
      | add l => exact h.add l
      | stop l => exact h.setStop l
      | notInferrable l => exact h.notInf l
      | next => exact Inv3.next fuel _ _ _ _ ⟨runOps_inv p fuel pre, runOps_DI p fuel pre, h⟩ rfl
  have := aux ops [] (by simpa [runOps] using OI.init p)
  simpa using this

/-- position-wise reading of `Pairwise`: of two packets of one label, the one handed out earlier is the earlier work -/
theorem handed_in_order (p : Pack) (fuel : Nat) (ops : List Op) :
    (runOps p fuel ops).2.Pairwise (fun a b => a.label = b.label → wlt a.work b.work = true) := by
  have h := (runOps_OI p fuel ops).o1
  exact (List.pairwise_append.1 h).1
#print axioms handed_in_order
example : wlt .inferral (.initial 0) = true ∧ wlt (.initial 2) (.expansion 0 0) = true ∧
    wlt (.expansion 0 5) (.expansion 1 0) = true ∧ wlt (.expansion 1 0) (.expansion 1 0) = false := by decide
