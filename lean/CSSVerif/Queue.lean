/-! Prototype: executable model of class_queue.DefaultQueue (C16). -/
inductive Work where
  | inferral                 -- the whole tuple of inferral strategies, inferral = True
  | initial (i : Nat)        -- i-th initial strategy
  | expansion (j i : Nat)    -- i-th strategy of expansion set j
deriving Repr, DecidableEq

structure WP where
  label : Nat
  work  : Work
deriving Repr, DecidableEq

structure Pack where
  nInf  : Nat
  nInit : Nat
  exp   : List Nat          -- size of every expansion set
deriving Repr

structure Q where
  working   : List Nat
  nextLevel : List (Nat × Nat)     -- insertion ordered Counter
  curr      : List (List Nat)      -- exp.length + 1 deques
  infExp    : List Nat
  initExp   : List Nat
  ignore    : List Nat
  sizes     : List Nat
  staging   : List WP
deriving Repr

def Q.init (p : Pack) : Q :=
  { working := [], nextLevel := [], curr := List.replicate (p.exp.length + 1) [], infExp := [], initExp := [],
    ignore := [], sizes := [], staging := [] }

def counterAdd (c : List (Nat × Nat)) (l : Nat) : List (Nat × Nat) :=
  if c.any (·.1 == l) then c.map (fun e => if e.1 == l then (e.1, e.2 + 1) else e) else c ++ [(l, 1)]

def canInf (p : Pack) (q : Q) (l : Nat) : Bool := decide (0 < p.nInf) && !(q.infExp.contains l)
def canInit (p : Pack) (q : Q) (l : Nat) : Bool := decide (0 < p.nInit) && !(q.initExp.contains l)

def Q.add (p : Pack) (q : Q) (l : Nat) : Q :=
  if canInf p q l || canInit p q l then { q with working := q.working ++ [l] }
  else if !(q.ignore.contains l) then { q with nextLevel := counterAdd q.nextLevel l }
  else q

def Q.setNotInferrable (q : Q) (l : Nat) : Q :=
  if !(q.ignore.contains l) && !(q.infExp.contains l) then { q with infExp := l :: q.infExp } else q
def Q.setNotInitial (q : Q) (l : Nat) : Q :=
  if !(q.ignore.contains l) && !(q.initExp.contains l) then { q with initExp := l :: q.initExp } else q

def Q.setStop (q : Q) (l : Nat) : Q :=
  { q with ignore := if q.ignore.contains l then q.ignore else l :: q.ignore,
           infExp := q.infExp.filter (· != l), initExp := q.initExp.filter (· != l),
           nextLevel := q.nextLevel.filter (·.1 != l) }

/-- `_iter_helper_working` -/
def helperWorking (p : Pack) (q : Q) : Q :=
  match q.working with
  | [] => q
  | l :: ws =>
    let q := { q with working := ws }
    let (q, st1) := if canInf p q l then (q.setNotInferrable l, [WP.mk l .inferral]) else (q, [])
    let (q, st2) := if canInit p q l then (q.setNotInitial l, (List.range p.nInit).map (fun i => WP.mk l (.initial i))) else (q, [])
    { q with staging := q.staging ++ st1 ++ st2, nextLevel := counterAdd q.nextLevel l }

/-- pop the first non-empty deque: returns (index, label, remaining deques) -/
def popFirst : List (List Nat) → Nat → Option (Nat × Nat × List (List Nat))
  | [], _ => none
  | [] :: rest, i => (popFirst rest (i+1)).map (fun (j, l, r) => (j, l, [] :: r))
  | (l :: d) :: rest, i => some (i, l, d :: rest)

def pushAt : List (List Nat) → Nat → Nat → List (List Nat)
  | [], _, _ => []
  | d :: rest, 0, l => (d ++ [l]) :: rest
  | d :: rest, i+1, l => d :: pushAt rest i l

/-- `_iter_helper_curr` -/
def helperCurr (p : Pack) (q : Q) : Q :=
  match popFirst q.curr 0 with
  | none => q
  | some (idx, l, rest) =>
    let q := { q with curr := rest }
    if idx = p.exp.length then q.setStop l
    else
      let st := (List.range (p.exp.getD idx 0)).map (fun i => WP.mk l (.expansion idx i))
      { q with staging := q.staging ++ st, curr := pushAt q.curr (idx + 1) l }

def insertDesc (e : Nat × Nat) : List (Nat × Nat) → List (Nat × Nat)
  | [] => [e]
  | x :: xs => if x.2 < e.2 then e :: x :: xs else x :: insertDesc e xs
/-- stable sort by decreasing count (Python: sorted(items, key=lambda x: -x[1])) -/
def sortDesc (c : List (Nat × Nat)) : List (Nat × Nat) := c.foldl (fun acc e => insertDesc e acc) []

/-- `_change_level`; `none` = StopIteration -/
def changeLevel (q : Q) : Option Q :=
  let ls := (sortDesc q.nextLevel).map (·.1)
  match q.curr with
  | [] => none
  | d :: rest =>
    if ls.isEmpty then none
    else some { q with curr := (d ++ ls) :: rest, sizes := q.sizes ++ [(d ++ ls).length], nextLevel := [] }

inductive Out where
  | yield (w : WP) | stop | fuel
deriving Repr

/-- `__next__`, one primitive action per unit of fuel -/
def Q.next (p : Pack) : Nat → Q → Q × Out
  | 0, q => (q, .fuel)
  | f+1, q =>
    match q.staging with
    | w :: st =>
      let q := { q with staging := st }
      if q.ignore.contains w.label then Q.next p f q else (q, .yield w)
    | [] =>
      if !q.working.isEmpty then Q.next p f (helperWorking p q)
      else if q.curr.all (·.isEmpty) then
        match changeLevel q with
        | none => (q, .stop)
        | some q' => Q.next p f (helperCurr p q')
      else Q.next p f (helperCurr p q)

/-- theorem (sanity): whatever is handed out is not ignored at hand-out time -/
theorem next_not_ignored (p : Pack) (f : Nat) (q q' : Q) (w : WP)
    (h : Q.next p f q = (q', .yield w)) : q'.ignore.contains w.label = false := by
  induction f generalizing q with
  | zero => simp [Q.next] at h
  | succ f ih =>
    unfold Q.next at h
    split at h
    · rename_i w0 st hst
      simp only at h
      split at h
      · exact ih _ h
      · rename_i hni
        injection h with h1 h2
        injection h2 with h2
        subst h1; subst h2
        simpa using hni
    · split at h
      · exact ih _ h
      · split at h
        · split at h
          · cases h
          · exact ih _ h
        · exact ih _ h

/-- a queue is *dry* when `__next__` has nothing to do: it raises StopIteration without touching anything -/
def Dry (q : Q) : Prop := q.staging = [] ∧ q.working = [] ∧ q.curr.all (·.isEmpty) = true ∧ changeLevel q = none

theorem next_stop_dry (p : Pack) (f : Nat) (q q' : Q) (h : Q.next p f q = (q', .stop)) : Dry q' := by
  induction f generalizing q with
  | zero => simp [Q.next] at h
  | succ f ih =>
    unfold Q.next at h
    split at h
    · simp only at h
      split at h
      · exact ih _ h
      · cases h
    · rename_i hst
      split at h
      · exact ih _ h
      · rename_i hw
        split at h
        · rename_i hc
          split at h
          · rename_i hcl
            injection h with h1 _
            subst h1
            refine ⟨hst, ?_, hc, hcl⟩
            simpa using hw
          · exact ih _ h
        · exact ih _ h

/-- exhaustion is sticky: once `__next__` has answered StopIteration it keeps answering it, on an
unchanged queue, until something is added -/
theorem next_exhausted_stable (p : Pack) (f g : Nat) (q q' : Q)
    (h : Q.next p f q = (q', .stop)) : Q.next p (g + 1) q' = (q', .stop) := by
  obtain ⟨hs, hw, hc, hcl⟩ := next_stop_dry p f q q' h
  unfold Q.next
  rw [hs]
  simp only [hw, List.isEmpty_nil, Bool.not_true, Bool.false_eq_true, ↓reduceIte, hc, hcl]
