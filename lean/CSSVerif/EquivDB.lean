import CSSVerif.Engine
/-! Prototype: model of equiv_db.EquivalenceDB incl. connect_cycles (C06). Reuses the observable
union–find `EDB` of the engine prototype. -/
structure EqDB where
  uf : EDB := ⟨[], [], []⟩
  edges : List (Nat × Nat) := []        -- `vertices`
  oneWay : List (Nat × Nat) := []       -- `_one_way_vertices` (between representatives at insertion time)
deriving Repr

namespace EqDB
def addEdge (d : EqDB) (a b : Nat) : EqDB :=
  if a == b || d.edges.contains (a, b) then d else { d with edges := d.edges ++ [(a, b)] }
def addTwoWay (d : EqDB) (a b : Nat) : EqDB :=
  let d := (d.addEdge a b).addEdge b a
  { d with uf := d.uf.union a b }
def addOneWay (d : EqDB) (a b : Nat) : EqDB :=
  let d := d.addEdge a b
  let uf := (d.uf.touch a).touch b
  let p := (uf.find a, uf.find b)
  { d with uf := uf, oneWay := if d.oneWay.contains p then d.oneWay else d.oneWay ++ [p] }
def setVerified (d : EqDB) (a : Nat) : EqDB := { d with uf := d.uf.setVerified a }
def equivalent (d : EqDB) (a b : Nat) : Bool := d.uf.find a == d.uf.find b

/-- `get_one_way_vertices` -/
def refreshOneWay (d : EqDB) : EqDB :=
  let res := d.oneWay.foldl (fun (acc : List (Nat × Nat)) p =>
    let q := (d.uf.find p.1, d.uf.find p.2)
    if q.1 == q.2 || acc.contains q then acc else acc ++ [q]) []
  { d with oneWay := res }

def succs (d : EqDB) (v : Nat) : List Nat := (d.oneWay.filter (·.1 == v)).map (·.2)
def keysOW (d : EqDB) : List Nat := d.oneWay.foldl (fun acc p => if acc.contains p.1 then acc else acc ++ [p.1]) []

/-- `connect_cycles`: DFS with an explicit stack of paths -/
def connectCycles (d : EqDB) (fuel : Nat := 100000) : EqDB :=
  let d := d.refreshOneWay
  let ow := d.oneWay            -- the adjacency is fixed during the search, merges only touch `uf`
  let succ (v : Nat) : List Nat := (ow.filter (·.1 == v)).map (·.2)
  let rec go (fuel : Nat) (uf : EDB) (stack : List (List Nat)) (visited : List Nat) : EDB :=
    match fuel, stack with
    | 0, _ => uf
    | _, [] => uf
    | fuel+1, path :: rest =>
      let endv := path.getLast!
      if visited.contains endv then go fuel uf rest visited else
      let visited := endv :: visited
      let (uf, rest) := (succ endv).foldl (fun (acc : EDB × List (List Nat)) newEnd =>
        let (uf, st) := acc
        let pre := path.dropLast
        let uf :=
          match pre.findIdx? (fun v => uf.find v == uf.find newEnd) with
          | some i => (path.drop i).foldl (fun uf v => uf.union v newEnd) uf
          | none => uf
        let st := if path.contains newEnd then st else (path ++ [newEnd]) :: st
        (uf, st)) (uf, rest)
      go fuel uf rest visited
  let init := (d.keysOW.map (fun k => [k])).reverse   -- Python pops from the end of the list
  { d with uf := go fuel d.uf init [] }
end EqDB
