import CSSVerif.SeriesSpec
/-! C20 (checker): substitution of statistic variables by monomials is re-keying through `paramMapSum`. -/

theorem getD_map_range (n i : Nat) (f : Nat → Nat) : ((List.range n).map f).getD i 0 = if i < n then f i else 0 := by
  rw [List.getD_eq_getElem?_getD, List.getElem?_map]
  by_cases h : i < n
  · rw [List.getElem?_range h, if_pos h]; rfl
  · rw [if_neg h, List.getElem?_eq_none (by simpa using h)]; rfl

theorem getD_of_ge (l : List Nat) (i : Nat) (h : l.length ≤ i) : l.getD i 0 = 0 := by
  rw [List.getD_eq_getElem?_getD, List.getElem?_eq_none h]; rfl

theorem monoAdd_getD (a b : Mono) (i : Nat) : (monoAdd a b).getD i 0 = a.getD i 0 + b.getD i 0 := by
  unfold monoAdd
  simp only
  rw [getD_map_range]
  by_cases h : i < max a.length b.length
  · rw [if_pos h]
  · rw [if_neg h, getD_of_ge a i (by omega), getD_of_ge b i (by omega)]

theorem monoScale_getD (k : Nat) (a : Mono) (i : Nat) : (monoScale k a).getD i 0 = a.getD i 0 * k := by
  unfold monoScale
  rw [List.getD_eq_getElem?_getD, List.getD_eq_getElem?_getD, List.getElem?_map]
  cases a[i]? <;> simp

/-- the monomial a term `(n; p)` of a class becomes when its statistic variables are replaced by the monomials `args` -/
def substMono (n : Nat) (p : Param) (args : List Mono) : Mono :=
  (p.zip args).foldl (fun m pa => monoAdd m (monoScale pa.1 pa.2)) [n]

theorem substFold_getD (i : Nat) : ∀ (l : List (Nat × Mono)) (m0 : Mono),
    (l.foldl (fun m pa => monoAdd m (monoScale pa.1 pa.2)) m0).getD i 0 = m0.getD i 0 + (l.map (fun pa => pa.2.getD i 0 * pa.1)).sum
  | [], m0 => by simp
  | pa :: l, m0 => by
    rw [List.foldl_cons, substFold_getD i l, monoAdd_getD, monoScale_getD]
    simp only [List.map_cons, List.sum_cons]
    omega

/-- the variable with global index `j` -/
def unitMono (j : Nat) : Mono := List.replicate j 0 ++ [1]

theorem unitMono_getD (j i : Nat) : (unitMono j).getD i 0 = if i = j then 1 else 0 := by
  unfold unitMono
  rw [List.getD_eq_getElem?_getD, List.getElem?_append, List.length_replicate]
  by_cases h : i < j
  · rw [if_pos h, List.getElem?_replicate, if_pos h, if_neg (by omega)]; rfl
  · rw [if_neg h]
    by_cases e : i = j
    · subst e; simp
    · rw [if_neg e, List.getElem?_eq_none (by simp; omega)]; rfl

/-- the argument of a child's statistic: the product of the parent statistics (positions `ps`, variable `pos+1`) mapped to it -/
def argMono (ps : List Nat) : Mono := ps.foldl (fun mo j => monoAdd mo (unitMono (j + 1))) []

theorem argFold_getD (i : Nat) : ∀ (ps : List Nat) (m0 : Mono),
    (ps.foldl (fun mo j => monoAdd mo (unitMono (j + 1))) m0).getD i 0 = m0.getD i 0 + (ps.map (fun j => if i = j + 1 then 1 else 0)).sum
  | [], m0 => by simp
  | j :: ps, m0 => by
    rw [List.foldl_cons, argFold_getD i ps, monoAdd_getD, unitMono_getD]
    simp only [List.map_cons, List.sum_cons]
    omega

theorem argMono_getD_zero (ps : List Nat) : (argMono ps).getD 0 0 = 0 := by
  unfold argMono
  rw [argFold_getD]
  have : ∀ (l : List Nat), (l.map (fun j => if 0 = j + 1 then 1 else 0)).sum = 0 := by
    intro l; induction l with
    | nil => rfl
    | cons a l ih => simp only [List.map_cons, List.sum_cons, ih]; simp
  rw [this]; rfl

theorem argMono_getD_succ (ps : List Nat) (j : Nat) : (argMono ps).getD (j + 1) 0 = (ps.map (fun q => if q = j then 1 else 0)).sum := by
  unfold argMono
  rw [argFold_getD]
  have : ∀ (l : List Nat), (l.map (fun q => if j + 1 = q + 1 then 1 else 0)).sum = (l.map (fun q => if q = j then 1 else 0)).sum := by
    intro l; induction l with
    | nil => rfl
    | cons a l ih =>
      simp only [List.map_cons, List.sum_cons, ih]
      by_cases h : a = j
      · subst h; simp
      · rw [if_neg h, if_neg (by omega)]
  rw [this]
  simp

/-! ### `paramMapSum` position by position -/

theorem setFold_length (v : Nat) : ∀ (ps : List Nat) (acc : List Nat),
    (ps.foldl (fun acc pos => acc.set pos (acc.getD pos 0 + v)) acc).length = acc.length
  | [], _ => rfl
  | p :: ps, acc => by rw [List.foldl_cons, setFold_length v ps]; simp

theorem setFold_getD (v j : Nat) : ∀ (ps : List Nat) (acc : List Nat), (∀ q ∈ ps, q < acc.length) →
    (ps.foldl (fun acc pos => acc.set pos (acc.getD pos 0 + v)) acc).getD j 0 =
      acc.getD j 0 + (ps.map (fun q => if q = j then 1 else 0)).sum * v
  | [], acc, _ => by simp
  | p :: ps, acc, h => by
    rw [List.foldl_cons, setFold_getD v j ps _ (by intro q hq; simp only [List.length_set]; exact h q (List.mem_cons_of_mem _ hq))]
    have hp : p < acc.length := h p (List.mem_cons_self ..)
    simp only [List.map_cons, List.sum_cons]
    rw [List.getD_eq_getElem?_getD (l := acc.set _ _), List.getElem?_set]
    by_cases e : p = j
    · subst e
      rw [if_pos rfl, if_pos hp, if_pos rfl, Nat.add_mul]
      simp only [Option.getD_some]
      omega
    · rw [if_neg e, if_neg e, ← List.getD_eq_getElem?_getD, Nat.zero_add]

theorem sumFold_length (r : Nat) : ∀ (l : List (Nat × List Nat)) (acc : List Nat),
    (l.foldl (fun acc (vm : Nat × List Nat) => vm.2.foldl (fun acc pos => acc.set pos (acc.getD pos 0 + vm.1)) acc) acc).length = acc.length
  | [], _ => rfl
  | vm :: l, acc => by rw [List.foldl_cons, sumFold_length r l, setFold_length]

theorem sumFold_getD (j : Nat) : ∀ (l : List (Nat × List Nat)) (acc : List Nat), (∀ vm ∈ l, ∀ q ∈ vm.2, q < acc.length) →
    (l.foldl (fun acc (vm : Nat × List Nat) => vm.2.foldl (fun acc pos => acc.set pos (acc.getD pos 0 + vm.1)) acc) acc).getD j 0 =
      acc.getD j 0 + (l.map (fun vm => (vm.2.map (fun q => if q = j then 1 else 0)).sum * vm.1)).sum
  | [], acc, _ => by simp
  | vm :: l, acc, h => by
    rw [List.foldl_cons, sumFold_getD j l _ (by
      intro vm' hvm' q hq; rw [setFold_length]; exact h vm' (List.mem_cons_of_mem _ hvm') q hq),
      setFold_getD vm.1 j vm.2 acc (h vm (List.mem_cons_self ..))]
    simp only [List.map_cons, List.sum_cons]
    omega

theorem paramMapSum_length (m : List (List Nat)) (r : Nat) (p : Param) : (paramMapSum m r p).length = r := by
  unfold paramMapSum
  rw [sumFold_length r]; simp

/-- **substitution is re-keying**: the monomial of a term after substituting the products of parent variables `m` for the
child's statistics, written over `r + 1` variables, is the size followed by `paramMapSum` of the term's parameters -/
theorem padMono_subst (m : List (List Nat)) (r : Nat) (hm : ∀ ps ∈ m, ∀ q ∈ ps, q < r) (n : Nat) (p : Param) :
    padMono (r + 1) (substMono n p (m.map argMono)) = n :: paramMapSum m r p := by
  apply List.ext_getElem
  · simp [padMono, paramMapSum_length]
  · intro i h1 h2
    have e1 : (padMono (r + 1) (substMono n p (m.map argMono)))[i] = (padMono (r + 1) (substMono n p (m.map argMono))).getD i 0 := by
      rw [List.getD_eq_getElem?_getD, List.getElem?_eq_getElem h1]; rfl
    have e2 : (n :: paramMapSum m r p)[i] = (n :: paramMapSum m r p).getD i 0 := by
      rw [List.getD_eq_getElem?_getD, List.getElem?_eq_getElem h2]; rfl
    rw [e1, e2]
    have hi : i < r + 1 := by simpa [padMono] using h1
    unfold padMono
    rw [getD_map_range, if_pos hi]
    unfold substMono
    rw [substFold_getD, List.zip_map_right]
    cases i with
    | zero =>
      simp only [List.map_map]
      have : ∀ (l : List (Nat × List Nat)), (l.map ((fun pa : Nat × Mono => pa.2.getD 0 0 * pa.1) ∘ Prod.map id argMono)).sum = 0 := by
        intro l; induction l with
        | nil => rfl
        | cons a l ih => simp only [List.map_cons, List.sum_cons, ih, Function.comp, Prod.map, id, argMono_getD_zero]; simp
      rw [this]; simp
    | succ j =>
      have hz : ([n] : Mono).getD (j + 1) 0 = 0 := by simp
      rw [hz]
      show _ = (paramMapSum m r p).getD j 0
      unfold paramMapSum
      rw [sumFold_getD j _ _ (by
        intro vm hvm q hq
        simp only [List.length_replicate]
        exact hm vm.2 (List.of_mem_zip hvm).2 q hq)]
      have hz2 : (List.replicate r 0).getD j 0 = 0 := by
        rw [List.getD_eq_getElem?_getD, List.getElem?_replicate]; split <;> rfl
      rw [hz2, List.map_map]
      congr 1
      apply congrArg
      apply List.map_congr_left
      intro vm _
      simp only [Function.comp, Prod.map, id, argMono_getD_succ]
#print axioms padMono_subst
