import CSSVerif.Drained
/-! Labels inside the queue: every label the queue holds or hands out was put there by `add` (used by the engine invariants of C04:
the labels the searcher expands are labels of the class database). -/

/-- the strategy indices of a work packet exist in the pack -/
def WorkOK (p : Pack) : Work → Prop
  | .inferral => True
  | .initial i => i < p.nInit
  | .expansion j i => j < p.exp.length ∧ i < p.exp.getD j 0

structure QL (p : Pack) (q : Q) (P : Nat → Prop) : Prop where
  w : ∀ l, l ∈ q.working → P l
  n : ∀ l, l ∈ nlKeys q → P l
  c : ∀ j l, l ∈ q.curr.getD j [] → P l
  s : ∀ w, w ∈ q.staging → P w.label ∧ WorkOK p w.work
  len : q.curr.length = p.exp.length + 1

theorem QL.mono {p : Pack} {q : Q} {P P' : Nat → Prop} (h : QL p q P) (hp : ∀ l, P l → P' l) : QL p q P' :=
  ⟨fun l hl => hp l (h.w l hl), fun l hl => hp l (h.n l hl), fun j l hl => hp l (h.c j l hl),
   fun w hw => ⟨hp _ (h.s w hw).1, (h.s w hw).2⟩, h.len⟩

theorem QL.init (p : Pack) (P : Nat → Prop) : QL p (Q.init p) P := by
  refine ⟨?_, ?_, ?_, ?_, by simp [Q.init]⟩
  · intro l hl; simp [Q.init] at hl
  · intro l hl; simp [Q.init, nlKeys] at hl
  · intro j l hl; simp only [Q.init] at hl; rw [getD_replicate_nil] at hl; cases hl
  · intro w hw; simp [Q.init] at hw

theorem QL.add {p : Pack} {q : Q} {P : Nat → Prop} (h : QL p q P) (l : Nat) (hl : P l) : QL p (q.add p l) P := by
  unfold Q.add
  split
  · refine ⟨?_, h.n, h.c, h.s, h.len⟩
    intro x hx
    rcases List.mem_append.1 hx with e | e
    · exact h.w x e
    · simp only [List.mem_singleton] at e; rw [e]; exact hl
  · split
    · refine ⟨h.w, ?_, h.c, h.s, h.len⟩
      intro x hx
      simp only [nlKeys] at hx
      rcases (counterAdd_mem _ _ _).1 hx with e | e
      · rw [e]; exact hl
      · exact h.n x e
    · exact h

theorem QL.setNotInferrable {p : Pack} {q : Q} {P : Nat → Prop} (h : QL p q P) (l : Nat) : QL p (q.setNotInferrable l) P := by
  unfold Q.setNotInferrable
  split
  · exact ⟨h.w, h.n, h.c, h.s, h.len⟩
  · exact h

theorem QL.setStop {p : Pack} {q : Q} {P : Nat → Prop} (h : QL p q P) (l : Nat) : QL p (q.setStop l) P := by
  obtain ⟨f1, f2, f3, _, _, _, f7⟩ := setStop_fields q l
  refine ⟨by rw [f3]; exact h.w, ?_, by rw [f2]; exact h.c, by rw [f1]; exact h.s, by rw [f2]; exact h.len⟩
  intro x hx
  simp only [nlKeys] at hx; rw [f7] at hx
  exact h.n x ((filter_keys_mem _ _ _).1 hx).2

theorem pushAt_mem : ∀ (c : List (List Nat)) (j l k x : Nat), x ∈ (pushAt c j l).getD k [] → x = l ∨ x ∈ c.getD k []
  | [], _, _, _, _, h => by simp [pushAt] at h
  | d :: rest, 0, l, k, x, h => by
    cases k with
    | zero =>
      simp only [pushAt, List.getD_cons_zero, List.mem_append, List.mem_singleton] at h ⊢
      rcases h with e | e
      · exact Or.inr e
      · exact Or.inl e
    | succ k => simp only [pushAt, List.getD_cons_succ] at h ⊢; exact Or.inr h
  | d :: rest, j+1, l, k, x, h => by
    cases k with
    | zero => simp only [pushAt, List.getD_cons_zero] at h ⊢; exact Or.inr h
    | succ k => simp only [pushAt, List.getD_cons_succ] at h ⊢; exact pushAt_mem rest j l k x h

theorem helperWorking_staging_mem (p : Pack) (q : Q) (l : Nat) (ws : List Nat) (hq : q.working = l :: ws) :
    ∀ w, w ∈ (helperWorking p q).staging → w ∈ q.staging ∨ (w.label = l ∧ WorkOK p w.work) := by
  rw [helperWorking_unfold p q l ws hq]
  unfold infPart initPart canInf canInit Q.setNotInferrable Q.setNotInitial
  by_cases hi : l ∈ q.ignore <;> by_cases h1 : l ∈ q.infExp <;> by_cases h2 : l ∈ q.initExp <;>
    by_cases n1 : 0 < p.nInf <;> by_cases n2 : 0 < p.nInit <;>
    simp [hi, h1, h2, n1, n2, WorkOK] <;> grind [WorkOK]

theorem QL.hWorking {p : Pack} {q : Q} {P : Nat → Prop} (h : QL p q P) : QL p (helperWorking p q) P := by
  match hq : q.working with
  | [] => unfold helperWorking; rw [hq]; exact h
  | l :: ws =>
    obtain ⟨f1, f2, _, _, _, _, _, _, _, _, f11⟩ := helperWorking_fields p q l ws hq
    have hl : P l := h.w l (by rw [hq]; exact List.mem_cons_self)
    refine ⟨?_, ?_, by rw [f2]; exact h.c, ?_, by rw [f2]; exact h.len⟩
    · intro x hx; rw [f1] at hx; exact h.w x (by rw [hq]; exact List.mem_cons_of_mem _ hx)
    · intro x hx
      simp only [nlKeys] at hx; rw [f11] at hx
      rcases (counterAdd_mem _ _ _).1 hx with e | e
      · rw [e]; exact hl
      · exact h.n x e
    · intro w hw
      rcases helperWorking_staging_mem p q l ws hq w hw with e | ⟨e, e2⟩
      · exact h.s w e
      · rw [e]; exact ⟨hl, e2⟩

theorem QL.hCurr {p : Pack} {q : Q} {P : Nat → Prop} (h : QL p q P) : QL p (helperCurr p q) P := by
  match hpop : popFirst q.curr 0 with
  | none => unfold helperCurr; rw [hpop]; exact h
  | some (idx, l, rest) =>
    obtain ⟨g1, g2, _⟩ := popFirst_get q.curr 0 idx l rest hpop
    obtain ⟨hlen, _, hidx, _⟩ := popFirst_spec q.curr 0 0 idx l rest hpop
    simp only [Nat.sub_zero] at g1 g2
    have hl : P l := h.c idx l (by rw [g1]; exact List.mem_cons_self)
    have sub : ∀ x j, x ∈ rest.getD j [] → P x := by
      intro x j hx
      by_cases e : j = idx
      · subst e; exact h.c j x (by rw [g1]; exact List.mem_cons_of_mem _ hx)
      · rw [g2 j e] at hx; exact h.c j x hx
    rcases helperCurr_cases p q idx l rest hpop with ⟨_, heq⟩ | ⟨hK, heq⟩
    · rw [heq]
      exact (QL.setStop (q := { q with curr := rest }) ⟨h.w, h.n, fun j x hx => sub x j hx, h.s, by simp only; rw [hlen]; exact h.len⟩ l)
    · rw [heq]
      have hidx' : idx < p.exp.length := by have := h.len; omega
      refine ⟨h.w, h.n, ?_, ?_, ?_⟩
      · intro j x hx
        rcases pushAt_mem rest (idx + 1) l j x hx with e | e
        · rw [e]; exact hl
        · exact sub x j e
      · intro w hw
        rcases List.mem_append.1 hw with e | e
        · exact h.s w e
        · obtain ⟨i, hi, e2⟩ := List.mem_map.1 e
          rw [← e2]; exact ⟨hl, hidx', List.mem_range.1 hi⟩
      · simp only
        have : idx + 1 < rest.length := by rw [hlen, h.len]; omega
        rw [(pushAt_spec rest (idx + 1) 0 l this).1, hlen]; exact h.len

theorem QL.changeLevel {p : Pack} {q q' : Q} {P : Nat → Prop} (h : QL p q P) (hc : changeLevel q = some q') : QL p q' P := by
  unfold _root_.changeLevel at hc
  simp only at hc
  split at hc
  · cases hc
  · rename_i d rest hcur
    split at hc
    · cases hc
    · injection hc with hc
      subst hc
      refine ⟨h.w, ?_, ?_, h.s, by simp only [List.length_cons]; rw [← h.len, hcur]; rfl⟩
      · intro x hx; simp [nlKeys] at hx
      · intro j x hx
        cases j with
        | zero =>
          simp only [List.getD_cons_zero, List.mem_append] at hx
          rcases hx with e | e
          · exact h.c 0 x (by rw [hcur]; exact e)
          · exact h.n x ((mem_sortDesc _ _).1 e)
        | succ j =>
          simp only [List.getD_cons_succ] at hx
          exact h.c (j + 1) x (by rw [hcur]; exact hx)

/-- whatever `__next__` hands out carries a label the queue held -/
theorem QL.next {p : Pack} {P : Nat → Prop} : ∀ (f : Nat) (q q' : Q) (o : Out), QL p q P →
    Q.next p f q = (q', o) → QL p q' P ∧ ∀ w, o = .yield w → P w.label ∧ WorkOK p w.work := by
  intro f
  induction f with
  | zero =>
    intro q q' o h hn
    simp only [Q.next] at hn
    injection hn with h1 h2; subst h1; subst h2
    exact ⟨h, fun w e => by cases e⟩
  | succ f ih =>
    intro q q' o h hn
    unfold Q.next at hn
    split at hn
    · rename_i w st hst
      have hst' : QL p ({ q with staging := st } : Q) P :=
        ⟨h.w, h.n, h.c, fun x hx => h.s x (by rw [hst]; exact List.mem_cons_of_mem _ hx), h.len⟩
      simp only at hn
      split at hn
      · exact ih _ _ _ hst' hn
      · injection hn with h1 h2; subst h1; subst h2
        refine ⟨hst', ?_⟩
        intro w' e; injection e with e; subst e
        exact h.s w (by rw [hst]; exact List.mem_cons_self)
    · split at hn
      · exact ih _ _ _ h.hWorking hn
      · split at hn
        · split at hn
          · injection hn with h1 h2; subst h1; subst h2
            exact ⟨h, fun w e => by cases e⟩
          · rename_i q2 hcl
            exact ih _ _ _ (h.changeLevel hcl).hCurr hn
        · exact ih _ _ _ h.hCurr hn
#print axioms QL.next
