import CSSVerif.SeriesSpec
/-! C20 (checker): what the verdict of the equation evaluator means. `residual … lhs rhs = []` holds exactly when the two
evaluated sides have the same coefficient at every monomial of x-degree at most `N`; the series built by `evalExpr` have
pairwise distinct keys, so "coefficient" is the value stored at the key. -/

theorem insertT_ne_nil (e : Param × Int) : ∀ (t : Terms), insertT e t ≠ []
  | [] => by simp [insertT]
  | x :: xs => by unfold insertT; split <;> simp

theorem mem_insertT (e : Param × Int) : ∀ (t : Terms) (x : Param × Int), x ∈ insertT e t ↔ x = e ∨ x ∈ t
  | [], x => by simp [insertT]
  | y :: ys, x => by
    unfold insertT
    split
    · simp
    · simp only [List.mem_cons, mem_insertT e ys x]
      constructor
      · rintro (h | h | h)
        · exact Or.inr (Or.inl h)
        · exact Or.inl h
        · exact Or.inr (Or.inr h)
      · rintro (h | h | h)
        · exact Or.inr (Or.inl h)
        · exact Or.inl h
        · exact Or.inr (Or.inr h)

theorem mem_foldr_insertT : ∀ (t : Terms) (x : Param × Int), x ∈ t.foldr insertT [] ↔ x ∈ t
  | [], x => by simp
  | e :: es, x => by
    rw [List.foldr_cons, mem_insertT, mem_foldr_insertT es x]
    simp [List.mem_cons]

/-- the canonical form keeps exactly the entries with a non-zero value -/
theorem mem_norm (t : Terms) (x : Param × Int) : x ∈ t.norm ↔ x ∈ t ∧ x.2 ≠ 0 := by
  unfold Terms.norm
  rw [mem_foldr_insertT]
  simp [List.mem_filter]

theorem coeff_of_mem : ∀ {t : Terms} {k : Param} {v : Int}, KeysNodup t → (k, v) ∈ t → coeff t k = v
  | [], _, _, _, h => by cases h
  | e :: es, k, v, hn, h => by
    unfold KeysNodup at hn
    simp only [List.map_cons, List.nodup_cons] at hn
    rw [coeff_cons]
    rcases List.mem_cons.1 h with h | h
    · subst h
      have : coeff es k = 0 := coeff_not_mem hn.1
      simp [this]
    · have hk : e.1 ≠ k := by
        intro e1
        apply hn.1
        rw [e1]
        exact List.mem_map.2 ⟨(k, v), h, rfl⟩
      rw [coeff_of_mem (t := es) hn.2 h, if_neg hk]
      omega

/-- with distinct keys, "every stored value at a key satisfying `p` is zero" is "every coefficient at such a key is zero" -/
theorem values_zero_iff (t : Terms) (hn : KeysNodup t) (p : Param → Prop) :
    (∀ e ∈ t, p e.1 → e.2 = 0) ↔ (∀ k, p k → coeff t k = 0) := by
  constructor
  · intro h k hk
    by_cases hm : k ∈ t.map (·.1)
    · obtain ⟨e, he, rfl⟩ := List.mem_map.1 hm
      rw [coeff_of_mem hn (v := e.2) he]
      exact h e he hk
    · exact coeff_not_mem hm
  · intro h e he hk
    have := h e.1 hk
    rwa [coeff_of_mem hn (v := e.2) he] at this

theorem pad_nodup (nv : Nat) (s : Ser) : KeysNodup (Ser.pad nv s) := by
  unfold Ser.pad
  have := (foldl_addAt_spec (s.map (fun e => (padMono nv e.1, e.2))) [] (by simp [KeysNodup])).1
  rw [List.foldl_map] at this
  exact this

theorem evalExpr_nodup (tab : Nat → Nat → Terms) (nv N : Nat) : ∀ (e : Expr), KeysNodup (evalExpr tab nv N e)
  | .const c => by
    unfold evalExpr
    split <;> simp [KeysNodup]
  | .var i => by simp [evalExpr, KeysNodup]
  | .add a b => by
    unfold evalExpr
    exact (Ser.add_spec _ _ (evalExpr_nodup tab nv N a)).1
  | .mul a b => by unfold evalExpr; exact pad_nodup _ _
  | .pow a k => by unfold evalExpr; exact pad_nodup _ _
  | .app cls args => by unfold evalExpr; exact pad_nodup _ _

/-- **C20 (checker): the verdict of the equation evaluator.** The residual of an equation is empty exactly when both sides,
evaluated on the given table of true terms, have the same coefficient at every monomial of x-degree at most `N`. -/
theorem residual_nil_iff (tab : Nat → Nat → Terms) (nv N : Nat) (lhs rhs : Expr) :
    residual tab nv N lhs rhs = [] ↔
      ∀ k : Mono, xdeg k ≤ N → coeff (evalExpr tab nv N lhs) k = coeff (evalExpr tab nv N rhs) k := by
  unfold residual
  obtain ⟨hn, hc⟩ := Ser.add_spec (evalExpr tab nv N lhs) (Ser.neg (evalExpr tab nv N rhs)) (evalExpr_nodup tab nv N lhs)
  rw [List.filter_eq_nil_iff]
  have h1 : (∀ a ∈ ((evalExpr tab nv N lhs).add (Ser.neg (evalExpr tab nv N rhs))).norm, ¬ (decide (xdeg a.1 ≤ N) = true)) ↔
      (∀ e ∈ (evalExpr tab nv N lhs).add (Ser.neg (evalExpr tab nv N rhs)), xdeg e.1 ≤ N → e.2 = 0) := by
    constructor
    · intro h e he hx
      by_cases hz : e.2 = 0
      · exact hz
      · exact absurd (by simpa using hx) (h e ((mem_norm _ _).2 ⟨he, hz⟩))
    · intro h a ha
      obtain ⟨h2, h3⟩ := (mem_norm _ _).1 ha
      intro hx
      exact h3 (h a h2 (by simpa using hx))
  rw [h1, values_zero_iff _ hn (fun k => xdeg k ≤ N)]
  constructor
  · intro h k hk
    have := h k hk
    rw [hc k, Ser.neg_spec] at this
    omega
  · intro h k hk
    rw [hc k, Ser.neg_spec, h k hk]
    omega

#print axioms residual_nil_iff
