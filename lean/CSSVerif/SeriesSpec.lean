import CSSVerif.Series
import CSSVerif.ProductSpec
/-! C20 (checker): the series arithmetic used to evaluate the emitted equations is what it should be — `Ser.add` adds
coefficients, `Ser.mul N` is the Cauchy product truncated at x-degree `N` (one contribution per pair of terms). -/

theorem Ser.add_spec (a b : Ser) (h : KeysNodup a) :
    KeysNodup (a.add b) ∧ ∀ k, coeff (a.add b) k = coeff a k + coeff b k := by
  unfold Ser.add
  exact foldl_addAt_spec b a h

/-- the contributions to a truncated product: one per pair of terms whose x-degree fits -/
def mulContribs (N : Nat) (a b : Ser) : List (Param × Int) :=
  a.flatMap (fun ea => b.filterMap (fun eb =>
    if xdeg (monoAdd ea.1 eb.1) ≤ N then some (monoAdd ea.1 eb.1, ea.2 * eb.2) else none))

theorem foldl_cond_addAt (N : Nat) (ea : Param × Int) : ∀ (b : Ser) (acc : Terms),
    b.foldl (fun acc eb => let m := monoAdd ea.1 eb.1
                            if xdeg m ≤ N then acc.addAt m (ea.2 * eb.2) else acc) acc =
    (b.filterMap (fun eb => if xdeg (monoAdd ea.1 eb.1) ≤ N then some (monoAdd ea.1 eb.1, ea.2 * eb.2) else none)).foldl
      (fun (a : Terms) e => a.addAt e.1 e.2) acc
  | [], acc => rfl
  | eb :: bs, acc => by
    simp only [List.foldl_cons, List.filterMap_cons]
    by_cases h : xdeg (monoAdd ea.1 eb.1) ≤ N
    · simp only [h, ↓reduceIte, List.foldl_cons]
      exact foldl_cond_addAt N ea bs _
    · simp only [h, ↓reduceIte]
      exact foldl_cond_addAt N ea bs _

theorem Ser.mul_eq_fold (N : Nat) (a b : Ser) :
    Ser.mul N a b = (mulContribs N a b).foldl (fun (t : Terms) e => t.addAt e.1 e.2) [] := by
  unfold Ser.mul mulContribs
  rw [List.foldl_flatMap]
  congr 1
  funext acc ea
  exact foldl_cond_addAt N ea b acc

/-- **C20 (checker): truncated multiplication is the truncated Cauchy product.** -/
theorem Ser.mul_spec (N : Nat) (a b : Ser) :
    KeysNodup (Ser.mul N a b) ∧ ∀ k, coeff (Ser.mul N a b) k = coeff (mulContribs N a b) k := by
  rw [Ser.mul_eq_fold]
  obtain ⟨h1, h2⟩ := foldl_addAt_spec (mulContribs N a b) [] (by simp [KeysNodup])
  exact ⟨h1, fun k => by rw [h2 k, coeff_nil]; simp⟩

theorem Ser.neg_spec (a : Ser) (k : Param) : coeff (Ser.neg a) k = - coeff a k := by
  unfold Ser.neg coeff
  induction a with
  | nil => simp
  | cons e es ih =>
    simp only [List.map_cons, List.filter_cons]
    by_cases h : e.1 == k
    · simp only [h, ↓reduceIte, List.map_cons, List.sum_cons] at ih ⊢; omega
    · simp only [h, Bool.false_eq_true, ↓reduceIte] at ih ⊢; exact ih
#print axioms Ser.mul_spec
#print axioms Ser.add_spec
#print axioms Ser.neg_spec
