/-! C12: `Bijection._perm_inv` computes the inverse permutation; transporting children along a
permutation and back is the identity. -/

/-- `Bijection._perm_inv`: `inv[perm[i]] = i` -/
def permInv (perm : List Nat) : List Nat :=
  (perm.zipIdx).foldl (fun inv (vi : Nat × Nat) => inv.set vi.1 vi.2) (List.replicate perm.length 0)

/-- `σ` is a permutation of `0..n-1` -/
def IsPerm (σ : List Nat) : Prop := σ.Nodup ∧ ∀ v ∈ σ, v < σ.length

theorem foldl_set_length (l : List (Nat × Nat)) (acc : List Nat) :
    (l.foldl (fun inv (vi : Nat × Nat) => inv.set vi.1 vi.2) acc).length = acc.length := by
  induction l generalizing acc with
  | nil => rfl
  | cons x xs ih => simp only [List.foldl_cons, ih, List.length_set]

/-- after writing `(v, i)` pairs with distinct `v`s, position `v` holds `i` -/
theorem foldl_set_get (l : List (Nat × Nat)) (acc : List Nat) (hnd : (l.map (·.1)).Nodup)
    (hlt : ∀ p ∈ l, p.1 < acc.length) :
    ∀ p ∈ l, (l.foldl (fun inv (vi : Nat × Nat) => inv.set vi.1 vi.2) acc)[p.1]? = some p.2 := by
  induction l generalizing acc with
  | nil => intro p hp; cases hp
  | cons x xs ih =>
    intro p hp
    simp only [List.foldl_cons]
    simp only [List.map_cons, List.nodup_cons] at hnd
    have hlt' : ∀ q ∈ xs, q.1 < (acc.set x.1 x.2).length := by
      intro q hq; simp only [List.length_set]; exact hlt q (List.mem_cons_of_mem _ hq)
    rcases List.mem_cons.1 hp with e | e
    · subst e
      -- later writes do not touch position p.1
      have hnot : ∀ q ∈ xs, q.1 ≠ p.1 := by
        intro q hq heq
        exact hnd.1 (List.mem_map.2 ⟨q, hq, heq⟩)
      have keep : ∀ (ys : List (Nat × Nat)) (a : List Nat), (∀ q ∈ ys, q.1 ≠ p.1) →
          (ys.foldl (fun inv (vi : Nat × Nat) => inv.set vi.1 vi.2) a)[p.1]? = a[p.1]? := by
        intro ys
        induction ys with
        | nil => intro a _; rfl
        | cons y ys ihy =>
          intro a hy
          simp only [List.foldl_cons]
          rw [ihy _ (fun q hq => hy q (List.mem_cons_of_mem _ hq))]
          exact List.getElem?_set_ne (hy y List.mem_cons_self)
      rw [keep xs _ hnot]
      have := hlt p List.mem_cons_self
      simp [List.getElem?_set_self this]
    · exact ih (acc.set x.1 x.2) hnd.2 hlt' p e

/-- `permInv σ` really is the inverse: `(permInv σ)[σ[i]] = i` -/
theorem permInv_spec (σ : List Nat) (h : IsPerm σ) (i : Nat) (hi : i < σ.length) :
    (permInv σ)[σ[i]]? = some i := by
  unfold permInv
  have hmap : (σ.zipIdx.map (·.1)) = σ := by simp [List.zipIdx_map_fst]
  have := foldl_set_get σ.zipIdx (List.replicate σ.length 0) (by rw [hmap]; exact h.1)
    (by
      intro p hp
      simp only [List.length_replicate]
      have hm : p.1 ∈ σ.zipIdx.map (·.1) := List.mem_map.2 ⟨p, hp, rfl⟩
      rw [hmap] at hm
      exact h.2 _ hm)
    (σ[i], i) (by
      rw [List.mem_zipIdx_iff_getElem?]
      simp [hi])
  simpa using this
#print axioms permInv_spec
