import CSSVerif.Minimize
import CSSVerif.Extractor
/-! C11: the whole greedy minimisation (`ForestRuleExtractor._minimize`: the buckets in order, each with its two phases)
over an abstract monotone productivity test returns a productive set in which every rule is necessary (1-minimal). -/
variable {α : Type}

/-- first phase of `_minimize_key` over an abstract test -/
def phase1G [Inhabited α] (prod : List α → Bool) : Nat → List α → List α → List α → List α
  | 0, _, _, maybe => maybe
  | fuel+1, fixed, minimizing, maybe =>
    if minimizing.isEmpty then maybe else
    if prod (fixed ++ maybe) then maybe else
    match (List.range minimizing.length).find? (fun i => prod (fixed ++ maybe ++ minimizing.take (i+1))) with
    | none => maybe
    | some i => phase1G prod fuel fixed (minimizing.take i) (maybe ++ [minimizing.getD i default])

theorem phase1G_spec [Inhabited α] (prod : List α → Bool)
    (hmono : ∀ a b : List α, (∀ x ∈ a, x ∈ b) → prod a = true → prod b = true) (fixed : List α) :
    ∀ (fuel : Nat) (minimizing maybe : List α), minimizing.length < fuel →
      prod (fixed ++ maybe ++ minimizing) = true →
      prod (fixed ++ phase1G prod fuel fixed minimizing maybe) = true ∧
      ∀ x ∈ phase1G prod fuel fixed minimizing maybe, x ∈ maybe ∨ x ∈ minimizing
  | 0, _, _, hf, _ => by omega
  | fuel+1, minimizing, maybe, hf, hp => by
    unfold phase1G
    split
    · rename_i he
      have : minimizing = [] := by simpa using he
      subst this
      exact ⟨by simpa using hp, fun x hx => Or.inl hx⟩
    · split
      · rename_i hq
        exact ⟨hq, fun x hx => Or.inl hx⟩
      · rename_i hne hq
        split
        · rename_i hnone
          -- impossible: i = length - 1 works
          exfalso
          have hlen : 0 < minimizing.length := by
            cases minimizing with
            | nil => simp at hne
            | cons _ _ => simp
          have := List.find?_eq_none.1 hnone (minimizing.length - 1) (by simp; omega)
          have e : minimizing.take (minimizing.length - 1 + 1) = minimizing := by
            rw [Nat.sub_add_cancel hlen]; exact List.take_length
          rw [e] at this
          exact this hp
        · rename_i i hsome
          have hi := List.find?_some hsome
          have hmem := List.mem_of_find?_eq_some hsome
          have hil : i < minimizing.length := by simpa using hmem
          have hget : minimizing.getD i default = minimizing[i] := by
            rw [List.getD_eq_getElem?_getD, List.getElem?_eq_getElem hil]; rfl
          have hstep : prod (fixed ++ (maybe ++ [minimizing.getD i default]) ++ minimizing.take i) = true := by
            apply hmono _ _ _ hi
            intro x hx
            have hx' : x ∈ fixed ∨ x ∈ maybe ∨ x ∈ minimizing.take (i + 1) := by
              simp only [List.mem_append] at hx
              rcases hx with (h1 | h2) | h3
              · exact Or.inl h1
              · exact Or.inr (Or.inl h2)
              · exact Or.inr (Or.inr h3)
            have htk : ∀ y, y ∈ minimizing.take (i + 1) → y ∈ minimizing.take i ∨ y = minimizing[i] := by
              intro y hy
              rw [List.take_add_one, List.getElem?_eq_getElem hil] at hy
              simp only [Option.toList_some, List.mem_append, List.mem_singleton] at hy
              exact hy
            have goal : ∀ y, (y ∈ fixed ∨ y ∈ maybe ∨ y = minimizing.getD i default ∨ y ∈ minimizing.take i) →
                y ∈ fixed ++ (maybe ++ [minimizing.getD i default]) ++ minimizing.take i := by
              intro y hy
              simp only [List.mem_append, List.mem_singleton]
              rcases hy with h | h | h | h
              · exact Or.inl (Or.inl h)
              · exact Or.inl (Or.inr (Or.inl h))
              · exact Or.inl (Or.inr (Or.inr h))
              · exact Or.inr h
            apply goal
            rcases hx' with h | h | h
            · exact Or.inl h
            · exact Or.inr (Or.inl h)
            · rcases htk x h with h4 | h4
              · exact Or.inr (Or.inr (Or.inr h4))
              · exact Or.inr (Or.inr (Or.inl (by rw [hget]; exact h4)))
          have hlt : (minimizing.take i).length < fuel := by
            rw [List.length_take]; omega
          obtain ⟨r1, r2⟩ := phase1G_spec prod hmono fixed fuel (minimizing.take i) _ hlt hstep
          refine ⟨r1, fun x hx => ?_⟩
          rcases r2 x hx with h | h
          · rcases List.mem_append.1 h with h1 | h1
            · exact Or.inl h1
            · simp only [List.mem_singleton] at h1
              rw [h1, hget]; exact Or.inr (List.getElem_mem hil)
          · exact Or.inr (List.mem_of_mem_take h)

theorem phase1G_sub [Inhabited α] (prod : List α → Bool) (fixed : List α) :
    ∀ (fuel : Nat) (minimizing maybe : List α), ∀ x ∈ phase1G prod fuel fixed minimizing maybe, x ∈ maybe ∨ x ∈ minimizing
  | 0, _, _, x, hx => Or.inl (by simpa [phase1G] using hx)
  | fuel+1, minimizing, maybe, x, hx => by
    unfold phase1G at hx
    split at hx
    · exact Or.inl hx
    · split at hx
      · exact Or.inl hx
      · split at hx
        · exact Or.inl hx
        · rename_i i hsome
          have hmem := List.mem_of_find?_eq_some hsome
          have hil : i < minimizing.length := by simpa using hmem
          have hget : minimizing.getD i default = minimizing[i] := by
            rw [List.getD_eq_getElem?_getD, List.getElem?_eq_getElem hil]; rfl
          rcases phase1G_sub prod fixed fuel _ _ x hx with h | h
          · rcases List.mem_append.1 h with h1 | h1
            · exact Or.inl h1
            · simp only [List.mem_singleton] at h1
              rw [h1, hget]; exact Or.inr (List.getElem_mem hil)
          · exact Or.inr (List.mem_of_mem_take h)

/-- the buckets in order -/
def minG [Inhabited α] (prod : List α → Bool) : List α → List (List α) → List α
  | needed, [] => needed
  | needed, mine :: later =>
    let others := later.flatten
    let maybe := phase1G prod (mine.length + 1) (needed ++ others) mine []
    minG prod (phase2G prod others needed maybe.reverse) later

theorem minG_sub [Inhabited α] (prod : List α → Bool) : ∀ (buckets : List (List α)) (needed : List α),
    ∀ x ∈ minG prod needed buckets, x ∈ needed ∨ x ∈ buckets.flatten
  | [], needed, x, hx => Or.inl hx
  | mine :: later, needed, x, hx => by
    simp only [minG] at hx
    rcases minG_sub prod later _ x hx with h | h
    · rcases phase2G_sub prod later.flatten _ needed x h with h1 | h1
      · exact Or.inl h1
      · right
        simp only [List.flatten_cons, List.mem_append]
        left
        have h2 : x ∈ phase1G prod (mine.length + 1) (needed ++ later.flatten) mine [] := by simpa using h1
        rcases phase1G_sub prod _ _ _ _ x h2 with h3 | h3
        · simp at h3
        · exact h3
    · right; simp only [List.flatten_cons, List.mem_append]; exact Or.inr h


/-- **C11 (model): the whole minimisation returns a productive, 1-minimal rule set.** `needed` = what earlier buckets kept. -/
theorem minG_spec [Inhabited α] (prod : List α → Bool)
    (hmono : ∀ a b : List α, (∀ x ∈ a, x ∈ b) → prod a = true → prod b = true) :
    ∀ (buckets : List (List α)) (needed : List α), prod (needed ++ buckets.flatten) = true →
      prod (minG prod needed buckets) = true ∧
      ∀ x ∈ minG prod needed buckets, x ∉ needed → Necessary prod (minG prod needed buckets) x
  | [], needed, h => ⟨by simpa [minG] using h, fun x hx hn => absurd (by simpa [minG] using hx) hn⟩
  | mine :: later, needed, h => by
    simp only [minG]
    have hfix : prod (needed ++ later.flatten ++ [] ++ mine) = true := by
      apply hmono _ _ _ h
      intro x hx
      simp only [List.flatten_cons, List.mem_append, List.append_nil] at hx ⊢
      rcases hx with h1 | h2 | h3
      · exact Or.inl (Or.inl h1)
      · exact Or.inr h2
      · exact Or.inl (Or.inr h3)
    obtain ⟨p1, _⟩ := phase1G_spec prod hmono (needed ++ later.flatten) (mine.length + 1) mine [] (by omega) hfix
    have hp2in : prod (needed ++ (phase1G prod (mine.length + 1) (needed ++ later.flatten) mine []).reverse.reverse ++ later.flatten) = true := by
      apply hmono _ _ _ p1
      intro x hx
      simp only [List.mem_append, List.reverse_reverse] at hx ⊢
      rcases hx with (h1 | h2) | h3
      · exact Or.inl (Or.inl h1)
      · exact Or.inr h2
      · exact Or.inl (Or.inr h3)
    have hprod2 := phase2G_productive prod hmono later.flatten _ needed hp2in
    obtain ⟨r1, r2⟩ := minG_spec prod hmono later _ hprod2
    refine ⟨r1, fun x hx hn => ?_⟩
    by_cases hx2 : x ∈ phase2G prod later.flatten needed (phase1G prod (mine.length + 1) (needed ++ later.flatten) mine []).reverse
    · -- kept by this bucket's second phase: necessary in (kept ++ later), which contains the final set
      have hnec := phase2G_necessary prod hmono later.flatten _ needed x hx2 hn
      apply hnec.shrink
      intro y hy
      rcases minG_sub prod later _ y hy with h1 | h1
      · exact List.mem_append_left _ h1
      · exact List.mem_append_right _ h1
    · exact r2 x hx hx2
#print axioms minG_spec

/-! ### the concrete model of the extractor is an instance -/
theorem phase1_eq (root n : Nat) : ∀ (fuel : Nat) (fixed minimizing maybe : List Key),
    phase1 root n fuel fixed minimizing maybe = phase1G (productive root n) fuel fixed minimizing maybe
  | 0, _, _, _ => rfl
  | fuel+1, fixed, minimizing, maybe => by
    unfold phase1 phase1G
    split
    · rfl
    · split
      · rfl
      · split
        · rename_i h
          simp only [h]
        · rename_i i h
          simp only [h]
          exact phase1_eq root n fuel fixed _ _

theorem phase2_eq (root n : Nat) (others : List Key) : ∀ (revM needed : List Key),
    phase2 root n others needed revM = phase2G (productive root n) others needed revM
  | [], _ => rfl
  | rk :: rest, needed => by
    unfold phase2 phase2G
    simp only
    exact phase2_eq root n others rest _

theorem minimize_eq_minG (ks : List Key) (root : Nat) :
    minimize ks root = minG (productive root (nClasses ks)) []
      [stableByBucket ks (nClasses ks) .reverse, stableByBucket ks (nClasses ks) .normal,
       stableByBucket ks (nClasses ks) .equiv, stableByBucket ks (nClasses ks) .verification] := by
  have hb : ∀ a b : Bucket, (a == b) = decide (a = b) := by intro a b; cases a <;> cases b <;> rfl
  simp only [minimize, minG, List.foldl_cons, List.foldl_nil, List.map_cons, List.map_nil, List.find?_cons, List.filter_cons,
    List.filter_nil, List.flatMap_cons, List.flatMap_nil, List.flatten_cons, List.flatten_nil, hb, phase1_eq, phase2_eq,
    bne, decide_true, decide_false, Bool.not_true, Bool.not_false, ite_true, ite_false, Option.map_some, Option.getD_some,
    List.append_nil, List.nil_append, reduceCtorEq, ↓reduceIte, Bool.false_eq_true]
#print axioms minimize_eq_minG

/-- **C11 (model).** The extractor model's output is productive for the root and 1-minimal, provided the productivity test
is monotone in the rule set (for the `lfpRef`-based test on well-formed keys this is `lfpRef_mono`) and the stable
sub-universe it starts from is productive. -/
theorem minimize_correct (ks : List Key) (root : Nat)
    (hmono : ∀ a b : List Key, (∀ x ∈ a, x ∈ b) → productive root (nClasses ks) a = true → productive root (nClasses ks) b = true)
    (hprod : productive root (nClasses ks)
      (stableByBucket ks (nClasses ks) .reverse ++ (stableByBucket ks (nClasses ks) .normal ++
       (stableByBucket ks (nClasses ks) .equiv ++ stableByBucket ks (nClasses ks) .verification))) = true) :
    productive root (nClasses ks) (minimize ks root) = true ∧
    ∀ x ∈ minimize ks root, Necessary (productive root (nClasses ks)) (minimize ks root) x := by
  rw [minimize_eq_minG]
  have h := minG_spec (productive root (nClasses ks)) hmono
    [stableByBucket ks (nClasses ks) .reverse, stableByBucket ks (nClasses ks) .normal,
     stableByBucket ks (nClasses ks) .equiv, stableByBucket ks (nClasses ks) .verification] []
    (by simpa using hprod)
  exact ⟨h.1, fun x hx => h.2 x hx (by simp)⟩
#print axioms minimize_correct
