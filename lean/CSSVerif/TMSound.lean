import CSSVerif.TMAgenda
/-! C03: soundness of the table-method model - every reported term is computable, classes set infinite pump. -/

/-- pumping when no class has fewer than `G` terms (the window starts at 0) -/
theorem Comp.pump0 {R : List Rule} (G : Nat)
    (hG : ∀ r ∈ R, ∀ d ∈ r.deps, d.2 ≤ (G : Int))
    (hbase : ∀ r ∈ R, ∀ d ∈ r.deps, ∀ m, m + 1 ≤ G → Comp R d.1 m) :
    ∀ c n, Comp R c n → G ≤ n + 1 → Comp R c (n + 1) := by
  intro c n h
  induction h with
  | mk r n hr hd ih =>
    intro hn
    refine Comp.mk r (n+1) hr ?_
    intro d hdm m hm
    have hs := hG r hr d hdm
    by_cases hle : (m : Int) ≤ (n : Int) - d.2
    · exact hd d hdm m hle
    · have hm' : (m : Int) = (n : Int) + 1 - d.2 := by omega
      by_cases hbig : G ≤ m
      · have h1 : ((m - 1 : Nat) : Int) ≤ (n : Int) - d.2 := by omega
        have := ih d hdm (m-1) h1 (by omega)
        have hmm : m - 1 + 1 = m := by omega
        rw [hmm] at this; exact this
      · exact hbase r hr d hdm m (by omega)

theorem Comp.pump_all0 {R : List Rule} (G : Nat)
    (hG : ∀ r ∈ R, ∀ d ∈ r.deps, d.2 ≤ (G : Int))
    (hbase : ∀ r ∈ R, ∀ d ∈ r.deps, ∀ m, m + 1 ≤ G → Comp R d.1 m)
    (c : Nat) (hc : ∀ m, m + 1 ≤ G → Comp R c m) (hc0 : ∃ n, G ≤ n + 1 ∧ Comp R c n) : ∀ n, Comp R c n := by
  obtain ⟨n0, hn0, h0⟩ := hc0
  have up : ∀ k, Comp R c (n0 + k) := by
    intro k
    induction k with
    | zero => exact h0
    | succ k ih => exact Comp.pump0 G hG hbase c (n0 + k) ih (by omega)
  intro n
  by_cases h : n ≤ n0
  · exact h0.down n h
  · have := up (n - n0)
    have e : n0 + (n - n0) = n := by omega
    rw [e] at this; exact this
#print axioms Comp.pump_all0

namespace TM

/-- the loop of `preimage_gap`: from position `i` with `fuel` positions left and the last occupied position `lastNZ`,
it returns the start of a free window of length `len`, provided nothing is occupied from `i + fuel` on -/
theorem go_spec (len : Nat) (cnt : Nat → Nat) (hlen : 1 ≤ len) : ∀ (fuel i : Nat) (lastNZ : Int),
    lastNZ < (i : Int) → -1 ≤ lastNZ → (∀ j : Nat, lastNZ < (j : Int) → j < i → cnt j = 0) →
    (∀ j, i + fuel ≤ j → cnt j = 0) →
    ∀ j : Nat, preimageGap.go len cnt i fuel lastNZ ≤ j → j < preimageGap.go len cnt i fuel lastNZ + len → cnt j = 0
  | 0, i, lastNZ, h1, h0, h2, h3 => by
    intro j hj1 hj2
    rw [preimageGap.go] at hj1 hj2
    by_cases hji : j < i
    · exact h2 j (by omega) hji
    · exact h3 j (by omega)
  | fuel + 1, i, lastNZ, h1, h0, h2, h3 => by
    intro j hj1 hj2
    rw [preimageGap.go] at hj1 hj2
    by_cases hc : (cnt i != 0) = true
    · rw [if_pos hc] at hj1 hj2
      exact go_spec len cnt hlen fuel (i + 1) (i : Int) (by omega) (by omega) (by intro j' a b; omega)
        (by intro j' hj'; exact h3 j' (by omega)) j hj1 hj2
    · rw [if_neg hc] at hj1 hj2
      have hci : cnt i = 0 := by simpa using hc
      by_cases hge : (i : Int) - lastNZ ≥ (len : Int)
      · rw [if_pos hge] at hj1 hj2
        by_cases hji : j < i
        · exact h2 j (by omega) hji
        · have : j = i := by omega
          rw [this]; exact hci
      · rw [if_neg hge] at hj1 hj2
        exact go_spec len cnt hlen fuel (i + 1) lastNZ (by omega) h0
          (by
            intro j' a b
            by_cases e : j' = i
            · rw [e]; exact hci
            · exact h2 j' a (by omega))
          (by intro j' hj'; exact h3 j' (by omega)) j hj1 hj2

theorem foldl_max_ge' : ∀ (l : List Nat) (a x : Nat), x ∈ l → x ≤ l.foldl max a
  | [], _, _, h => by cases h
  | y :: ys, a, x, h => by
    rw [List.foldl_cons]
    rcases List.mem_cons.1 h with e | e
    · rw [e]
      have : ∀ (l : List Nat) (b : Nat), b ≤ l.foldl max b := by
        intro l
        induction l with
        | nil => intro b; exact Nat.le_refl _
        | cons z zs ih => intro b; rw [List.foldl_cons]; exact Nat.le_trans (Nat.le_max_left b z) (ih _)
      exact Nat.le_trans (Nat.le_max_right a y) (this ys _)
    · exact foldl_max_ge' ys _ x e

/-- **the window `preimage_gap` returns is free:** no finite value lies in `[k, k + len - 1]` -/
theorem preimageGap_spec (t : TM) (len : Nat) (hlen : 1 ≤ len) (c v : Nat) (hc : c < t.value.size) (hv : t.val c = some v) :
    v < t.preimageGap len ∨ t.preimageGap len + len ≤ v := by
  have hmem : v ∈ t.value.toList.filterMap id := by
    rw [List.mem_filterMap]
    refine ⟨some v, ?_, rfl⟩
    unfold val at hv
    rw [Array.getD_eq_getD_getElem?, Array.getElem?_eq_getElem hc] at hv
    simp only [Option.getD_some] at hv
    rw [← hv]
    exact Array.getElem_mem_toList hc
  have hcnt : (List.filter (fun x => x == v) (t.value.toList.filterMap id)).length ≠ 0 := by
    intro h0
    have : v ∈ List.filter (fun x => x == v) (t.value.toList.filterMap id) := List.mem_filter.2 ⟨hmem, by simp⟩
    rw [List.length_eq_zero_iff.1 h0] at this; cases this
  apply Classical.byContradiction
  intro hn
  have hin : t.preimageGap len ≤ v ∧ v < t.preimageGap len + len := by omega
  unfold preimageGap at hin
  simp only at hin
  have := go_spec len (fun i => (List.filter (fun x => x == i) (t.value.toList.filterMap id)).length) hlen
    ((t.value.toList.filterMap id).foldl max 0 + 1) 0 (-1) (by omega) (by omega) (by intro j a b; omega)
    (by
      intro j hj
      apply List.length_eq_zero_iff.2
      apply List.filter_eq_nil_iff.2
      intro x hx
      have := foldl_max_ge' _ 0 x hx
      simp only [beq_iff_eq]; omega) v hin.1 hin.2
  exact hcnt this
#print axioms preimageGap_spec
end TM

namespace TM

/-- no finite value of a materialised class lies in the gap -/
def Win (t : TM) : Prop := ∀ c, c < t.value.size → ∀ v, t.val c = some v → v < t.gap.1 ∨ v > t.gap.2
/-- the gap starts at 0 although fresh classes sit at 0: nothing is on hold and every finite class is at 0 -/
def Stale (t : TM) : Prop := t.gap.1 = 0 ∧ t.holding = [] ∧ ∀ c, c < t.value.size → ∀ v, t.val c = some v → v = 0

structure GI (t : TM) : Prop where
  g1 : 1 ≤ t.gapSize
  g2 : t.gap.2 + 1 = t.gap.1 + t.gapSize
  bound : ∀ idx, idx < t.rules.size → ∀ d, d ∈ (rule t idx).deps → d.2.natAbs ≤ t.gapSize
  win : Win t ∨ Stale t
  hd : ∀ idx, idx ∈ t.holding → ∀ pv, t.val (rule t idx).parent = some pv → pv > t.gap.2

/-- every reported term is computable -/
def SND (t : TM) : Prop := ∀ c, (∀ v, t.val c = some v → ∀ n, n < v → Comp t.rules.toList c n) ∧
  (t.val c = none → ∀ n, Comp t.rules.toList c n)

theorem correctGap_gap (t : TM) : t.correctGap.gap = (t.preimageGap t.gapSize, t.preimageGap t.gapSize + t.gapSize - 1) := by
  unfold correctGap; simp only

theorem correctGap_holding (t : TM) :
    (t.preimageGap t.gapSize + t.gapSize - 1 > t.gap.2 ∧ t.correctGap.holding = []) ∨
    (¬ t.preimageGap t.gapSize + t.gapSize - 1 > t.gap.2 ∧ t.correctGap.holding = t.holding) := by
  unfold correctGap; simp only
  by_cases h : t.preimageGap t.gapSize + t.gapSize - 1 > t.gap.2
  · left; rw [if_pos h]; exact ⟨h, rfl⟩
  · right; rw [if_neg h]; exact ⟨h, rfl⟩

/-- after `_correct_gap` the window is free, whatever it was before -/
theorem correctGap_gi (t : TM) (g1 : 1 ≤ t.gapSize)
    (bound : ∀ idx, idx < t.rules.size → ∀ d, d ∈ (rule t idx).deps → d.2.natAbs ≤ t.gapSize)
    (hd : ∀ idx, idx ∈ t.holding → ∀ pv, t.val (rule t idx).parent = some pv → pv > t.gap.2) :
    GI t.correctGap ∧ Win t.correctGap := by
  obtain ⟨c1, c2, c3, c4, c5, c6, _, _⟩ := correctGap_frame t
  have hgap := correctGap_gap t
  have hval : ∀ x, t.correctGap.val x = t.val x := fun x => val_congr c1 x
  have hwin : Win t.correctGap := by
    intro c hc v hv
    rw [c1] at hc
    rw [hval] at hv
    rw [hgap]
    simp only
    rcases preimageGap_spec t t.gapSize g1 c v hc hv with a | a
    · exact Or.inl a
    · right; omega
  refine ⟨⟨by rw [c6]; exact g1, by rw [hgap, c6]; simp only; omega, ?_, Or.inl hwin, ?_⟩, hwin⟩
  · intro idx hidx d hdm
    rw [c3] at hidx
    rw [rule_congr c3] at hdm
    rw [c6]; exact bound idx hidx d hdm
  · intro idx hidx pv hpv
    rw [rule_congr c3, hval] at hpv
    rcases correctGap_holding t with ⟨_, e⟩ | ⟨hle, e⟩
    · rw [e] at hidx; cases hidx
    · rw [e] at hidx
      have := hd idx hidx pv hpv
      rw [hgap]; simp only; omega
end TM

namespace TM

/-- `gapfix` on a state whose values may have moved: afterwards the window is free -/
theorem gapfix_gi (t : TM) (g1 : 1 ≤ t.gapSize) (g2 : t.gap.2 + 1 = t.gap.1 + t.gapSize)
    (bound : ∀ idx, idx < t.rules.size → ∀ d, d ∈ (rule t idx).deps → d.2.natAbs ≤ t.gapSize)
    (hd : ∀ idx, idx ∈ t.holding → ∀ pv, t.val (rule t idx).parent = some pv → pv > t.gap.2) :
    GI (gapfix t) ∧ Win (gapfix t) := by
  unfold gapfix
  by_cases h : (t.gap.1 != t.preimageGap t.gapSize) = true
  · rw [if_pos h]; exact correctGap_gi t g1 bound hd
  · rw [if_neg h]
    have he : t.gap.1 = t.preimageGap t.gapSize := by simpa using h
    have hwin : Win t := by
      intro c hc v hv
      rcases preimageGap_spec t t.gapSize g1 c v hc hv with a | a
      · left; rw [he]; exact a
      · right; rw [← he] at a; omega
    exact ⟨⟨g1, g2, bound, Or.inl hwin, hd⟩, hwin⟩

theorem mem_rules_idx (t : TM) (r : Rule) (h : r ∈ t.rules.toList) : ∃ idx, idx < t.rules.size ∧ rule t idx = r := by
  obtain ⟨idx, hidx, e⟩ := List.mem_iff_getElem.1 h
  have hidx' : idx < t.rules.size := by simpa using hidx
  refine ⟨idx, hidx', ?_⟩
  unfold rule
  simp only [Array.getD_eq_getD_getElem?, Array.getElem?_eq_getElem hidx', Option.getD_some]
  have : t.rules[idx] = t.rules.toList[idx] := by simp
  rw [this, e]

theorem rule_mem (t : TM) (idx : Nat) (h : idx < t.rules.size) : rule t idx ∈ t.rules.toList := by
  unfold rule
  simp only [Array.getD_eq_getD_getElem?, Array.getElem?_eq_getElem h, Option.getD_some]
  exact Array.getElem_mem_toList h

/-- a rule that can give justifies the next term of its parent -/
theorem canGive_comp (t : TM) (idx pv : Nat) (h : TInv t) (hs : SND t) (hidx : idx < t.rules.size)
    (hpv : t.val (rule t idx).parent = some pv) (hcg : canGive (t.shifts.getD idx #[]) = true) :
    Comp t.rules.toList (rule t idx).parent pv := by
  obtain ⟨hsz, hent⟩ := h.si idx hidx pv hpv
  refine Comp.mk (rule t idx) pv (rule_mem t idx hidx) ?_
  intro d hdm m hm
  obtain ⟨i, hi, e⟩ := List.mem_iff_getElem.1 hdm
  have hgd : (rule t idx).deps.getD i (0, 0) = d := by
    rw [List.getD_eq_getElem?_getD, List.getElem?_eq_getElem hi]; simp [e]
  have he := hent i hi
  rw [hgd] at he
  -- entry i is `none` or positive
  have hpos : ∀ z : Int, sh t idx i = some z → z > 0 := by
    intro z hz
    unfold canGive at hcg
    rw [Array.all_eq_true] at hcg
    have hi' : i < (t.shifts.getD idx #[]).size := by rw [hsz]; exact hi
    have := hcg i hi'
    unfold sh at hz
    have hg : (t.shifts.getD idx #[]).getD i none = some ((t.shifts.getD idx #[])[i]) → False ∨ True := fun _ => Or.inr trivial
    have hz' : (t.shifts.getD idx #[])[i] = some z := by
      rw [Array.getD_eq_getD_getElem?, Array.getElem?_eq_getElem hi'] at hz
      simpa using hz
    rw [hz'] at this
    simpa using this
  cases hcv : t.val d.1 with
  | none => exact (hs d.1).2 hcv m
  | some fv =>
    rw [hcv] at he
    have hz := hpos _ he
    have hm' : (m : Int) ≤ (pv : Int) - d.2 := hm
    exact (hs d.1).1 fv hcv m (by dsimp only at hz; omega)

theorem bump_snd (t : TM) (c cur idx0 : Nat) (h : TInv t) (hs : SND t) (hc : c < t.value.size) (hv : t.val c = some cur)
    (hidx0 : idx0 < t.rules.size) (hpar : (rule t idx0).parent = c) (hcg : canGive (t.shifts.getD idx0 #[]) = true) :
    SND (bump t c cur) := by
  obtain ⟨b1, _, _, b4, _, _, _⟩ := bump_spec t c cur h.wf h.si h.ix hc hv
  have hnew : Comp t.rules.toList c cur := by
    have := canGive_comp t idx0 cur h hs hidx0 (by rw [hpar]; exact hv) hcg
    rw [hpar] at this; exact this
  intro x
  rw [b1, b4]
  by_cases e : x = c
  · rw [if_pos e]
    refine ⟨?_, fun hn => by cases hn⟩
    intro v hv' n hn
    injection hv' with hv'
    rw [e]
    by_cases hlt : n < cur
    · exact (hs c).1 cur hv n hlt
    · have : n = cur := by omega
      rw [this]; exact hnew
  · rw [if_neg e]; exact hs x

theorem bump_gi (t : TM) (c cur : Nat) (h : TInv t) (g : GI t) (hc : c < t.value.size) (hv : t.val c = some cur) :
    GI (bump t c cur) ∧ Win (bump t c cur) := by
  obtain ⟨b1, _, _, b4, b5, _, _⟩ := bump_spec t c cur h.wf h.si h.ix hc hv
  have hpn := (h.ix.pump c (by rw [hv]; simp)).1
  have hpm := (h.ix.pump c (by rw [hv]; simp)).2
  have hun := (h.ix.use c (by rw [hv]; simp)).1
  have hum := (h.ix.use c (by rw [hv]; simp)).2
  rw [bump_eq] at b4 b5 ⊢
  -- the state after the value moved
  have hval0 : ∀ x, (setVal t c (some (cur + 1))).val x = if x = c then some (cur + 1) else t.val x := by
    intro x; unfold val setVal; simp only
    by_cases e : x = c
    · subst e; rw [if_pos rfl]; exact getD_set_self _ _ _ _ hc
    · rw [if_neg e]; exact getD_set_ne _ _ _ _ _ (Ne.symm e)
  have hd0 : ∀ idx, idx ∈ (setVal t c (some (cur + 1))).holding → ∀ pv,
      (setVal t c (some (cur + 1))).val (rule (setVal t c (some (cur + 1))) idx).parent = some pv → pv > (setVal t c (some (cur + 1))).gap.2 := by
    intro idx hidx pv hpv
    have hr : rule (setVal t c (some (cur + 1))) idx = rule t idx := rfl
    rw [hr, hval0] at hpv
    by_cases e : (rule t idx).parent = c
    · rw [if_pos e] at hpv
      injection hpv with hpv
      have := g.hd idx hidx cur (by rw [e]; exact hv)
      show pv > t.gap.2
      omega
    · rw [if_neg e] at hpv
      exact g.hd idx hidx pv hpv
  obtain ⟨gi1, w1⟩ := gapfix_gi (setVal t c (some (cur + 1))) g.g1 g.g2 g.bound hd0
  have e0 : ({ t with value := t.value.setIfInBounds c (some (cur + 1)) } : TM) = setVal t c (some (cur + 1)) := rfl
  rw [e0] at b4 b5 ⊢
  obtain ⟨k1, k2, k3, k4, k5, _, _, _⟩ := gapfix_frame (setVal t c (some (cur + 1)))
  generalize gapfix (setVal t c (some (cur + 1))) = t1 at gi1 w1 k1 k2 k3 k4 k5 b4 b5 ⊢
  obtain ⟨f2, _, _⟩ := pumpFold_spec (t1.pumpingC.getD c []) t1 (by rw [k5]; exact hpn)
    (by intro r hr; rw [k5] at hr; rw [k2]; show r < t.shifts.size; rw [h.wf.ss]; exact ((hpm r).1 hr).1)
  generalize (t1.pumpingC.getD c []).foldl pumpStep t1 = t2 at f2 b4 b5 ⊢
  obtain ⟨f3, _, _, _, _, _⟩ := useFold_spec (t2.usingC.getD c []) t2 (by rw [f2.usingC, k4]; exact hun)
    (by intro rc hr; rw [f2.usingC, k4] at hr; rw [f2.ssize, k2]; show rc.1 < t.shifts.size; rw [h.wf.ss]; exact ((hum rc.1 rc.2).1 hr).1)
  generalize (t2.usingC.getD c []).foldl useStep t2 = t3 at f3 b4 b5 ⊢
  have hv3 : ∀ x, t3.val x = t1.val x := fun x => val_congr (f3.value.trans f2.value) x
  have hr3 : ∀ x, rule t3 x = rule t1 x := fun x => rule_congr (f3.rules.trans f2.rules) x
  have hw3 : Win t3 := by
    intro x hx v hvx
    rw [f3.value, f2.value] at hx
    rw [hv3] at hvx
    rw [f3.gap, f2.gap]
    exact w1 x hx v hvx
  refine ⟨⟨by rw [f3.gapSize, f2.gapSize]; exact gi1.g1, by rw [f3.gap, f2.gap, f3.gapSize, f2.gapSize]; exact gi1.g2, ?_, Or.inl hw3, ?_⟩, hw3⟩
  · intro idx hidx d hdm
    rw [f3.rules, f2.rules] at hidx
    rw [hr3] at hdm
    rw [f3.gapSize, f2.gapSize]
    exact gi1.bound idx hidx d hdm
  · intro idx hidx pv hpv
    rw [f3.holding, f2.holding] at hidx
    rw [hr3, hv3] at hpv
    rw [f3.gap, f2.gap]
    exact gi1.hd idx hidx pv hpv
end TM

namespace TM

theorem increaseValue_gs (t : TM) (c idx0 : Nat) (h : TInv t) (g : GI t) (hs : SND t) (hc : c < t.value.size)
    (hidx0 : idx0 < t.rules.size) (hpar : (rule t idx0).parent = c) (hcg : canGive (t.shifts.getD idx0 #[]) = true) :
    GI (t.increaseValue c idx0) ∧ SND (t.increaseValue c idx0) := by
  rcases increaseValue_cases t c idx0 with ⟨_, e⟩ | ⟨cur, hv, hgt, e⟩ | ⟨cur, hv, _, e⟩
  · rw [e]; exact ⟨g, hs⟩
  · rw [e]
    refine ⟨⟨g.g1, g.g2, g.bound, ?_, ?_⟩, hs⟩
    · rcases g.win with w | ⟨_, _, st⟩
      · exact Or.inl w
      · have := st c hc cur hv
        omega
    · intro idx hidx pv hpv
      rcases mem_insertS idx0 t.holding idx hidx with a | a
      · have : rule ({ t with holding := insertS idx0 t.holding } : TM) idx = rule t idx := rfl
        rw [this, a, hpar] at hpv
        have hv2 : t.val c = some pv := hpv
        rw [hv] at hv2; injection hv2 with hv2
        show pv > t.gap.2
        omega
      · exact g.hd idx a pv hpv
  · rw [e]
    exact ⟨(bump_gi t c cur h g hc hv).1, bump_snd t c cur idx0 h hs hc hv hidx0 hpar hcg⟩
end TM

namespace TM

theorem deps_child_mem (r : Rule) (d : Nat × Int) (h : d ∈ r.deps) : d.1 ∈ r.children := by
  unfold Rule.deps at h
  obtain ⟨a, b⟩ := d
  exact (List.of_mem_zip h).1

/-- **the class of a held rule pumps**: nothing is queued, the window is free, everything else that can give is on hold above the
window - the argument of the pumping lemma, on the state of the model -/
theorem held_pumps (t : TM) (idx0 pv0 : Nat) (h : TInv t) (g : GI t) (hw : Win t) (hs : SND t) (hq : t.queue = [])
    (ha : AGx t (some idx0)) (hidx0 : idx0 < t.rules.size) (hpv0 : t.val (rule t idx0).parent = some pv0)
    (hgt : pv0 > t.gap.2) : ∀ n, Comp t.rules.toList (rule t idx0).parent n := by
  have hG : ∀ r ∈ t.rules.toList, ∀ d ∈ r.deps, d.2 ≤ (t.gapSize : Int) := by
    intro r hr d hd
    obtain ⟨idx, hidx, e⟩ := mem_rules_idx t r hr
    have := g.bound idx hidx d (by rw [e]; exact hd)
    omega
  have hG' : ∀ r ∈ t.rules.toList, ∀ d ∈ r.deps, -(t.gapSize : Int) ≤ d.2 := by
    intro r hr d hd
    obtain ⟨idx, hidx, e⟩ := mem_rules_idx t r hr
    have := g.bound idx hidx d (by rw [e]; exact hd)
    omega
  have hchild : ∀ r ∈ t.rules.toList, ∀ d ∈ r.deps, d.1 < t.value.size := by
    intro r hr d hd
    obtain ⟨idx, hidx, e⟩ := mem_rules_idx t r hr
    exact (h.wf.cls idx hidx).2 d.1 (by rw [e]; exact deps_child_mem r d hd)
  have hpsz : (rule t idx0).parent < t.value.size := (h.wf.cls idx0 hidx0).1
  have g2 := g.g2
  have g1 := g.g1
  by_cases hk : t.gap.1 = 0
  · -- the window starts at 0: every materialised class has at least gapSize terms
    have big : ∀ c, c < t.value.size → ∀ m, m + 1 ≤ t.gapSize → Comp t.rules.toList c m := by
      intro c hc m hm
      cases hv : t.val c with
      | none => exact (hs c).2 hv m
      | some v =>
        rcases hw c hc v hv with a | a
        · omega
        · exact (hs c).1 v hv m (by omega)
    apply Comp.pump_all0 t.gapSize hG (fun r hr d hd m hm => big d.1 (hchild r hr d hd) m hm) _ (big _ hpsz)
    exact ⟨t.gapSize - 1, by omega, (hs _).1 pv0 hpv0 _ (by omega)⟩
  · have hk1 : 1 ≤ t.gap.1 := by omega
    -- the values as a function, infinite = beyond the window
    let f : Nat → Nat := fun c => match t.val c with | none => t.gap.1 + t.gapSize | some v => v
    have hwin : ∀ c, f c < t.gap.1 ∨ t.gap.1 + t.gapSize ≤ f c := by
      intro c
      show (match t.val c with | none => t.gap.1 + t.gapSize | some v => v) < _ ∨ _ ≤ (match t.val c with | none => t.gap.1 + t.gapSize | some v => v)
      cases hv : t.val c with
      | none => right; exact Nat.le_refl _
      | some v =>
        by_cases hc : c < t.value.size
        · rcases hw c hc v hv with a | a
          · left; exact a
          · right; show t.gap.1 + t.gapSize ≤ v; omega
        · have : t.val c = some 0 := by
            unfold val; simp [Array.getD_eq_getD_getElem?, hc]
          rw [this] at hv; injection hv with hv
          left; show v < t.gap.1; omega
    have hfix : ∀ r ∈ t.rules.toList, f r.parent < t.gap.1 → ∃ d ∈ r.deps, (f d.1 : Int) + d.2 ≤ f r.parent := by
      intro r hr hlt
      obtain ⟨idx, hidx, e⟩ := mem_rules_idx t r hr
      cases hpv : t.val r.parent with
      | none =>
        have : f r.parent = t.gap.1 + t.gapSize := by show (match t.val r.parent with | none => _ | some v => v) = _; rw [hpv]
        omega
      | some pv =>
        have hfp : f r.parent = pv := by show (match t.val r.parent with | none => _ | some v => v) = _; rw [hpv]
        rw [hfp] at hlt ⊢
        have hng : canGive (t.shifts.getD idx #[]) = false := by
          cases hcg : canGive (t.shifts.getD idx #[]) with
          | false => rfl
          | true =>
            have hne : some idx ≠ some idx0 := by
              intro e2; injection e2 with e2
              rw [e2] at e
              rw [e] at hpv0
              rw [hpv0] at hpv; injection hpv with hpv
              omega
            rcases ha idx hidx hne pv (by rw [e]; exact hpv) hcg with a | a
            · rw [hq] at a; cases a
            · have := g.hd idx a pv (by rw [e]; exact hpv)
              omega
        obtain ⟨i, hi, z, hz, hz0⟩ := not_canGive _ hng
        obtain ⟨hsz, hent⟩ := h.si idx hidx pv (by rw [e]; exact hpv)
        rw [hsz, e] at hi
        have he := hent i (by rw [e]; exact hi)
        unfold sh at he
        rw [hz, e] at he
        have hd : r.deps.getD i (0, 0) ∈ r.deps := by
          rw [List.getD_eq_getElem?_getD, List.getElem?_eq_getElem hi]; exact List.getElem_mem hi
        refine ⟨r.deps.getD i (0, 0), hd, ?_⟩
        cases hcv : t.val (r.deps.getD i (0, 0)).1 with
        | none => rw [hcv] at he; cases he
        | some fv =>
          rw [hcv] at he
          have he2 : some z = some ((fv : Int) + (r.deps.getD i (0, 0)).2 - pv) := he
          injection he2 with he2
          have : f (r.deps.getD i (0, 0)).1 = fv := by
            show (match t.val (r.deps.getD i (0, 0)).1 with | none => _ | some v => v) = _; rw [hcv]
          rw [this]; omega
    have below := Comp.below_gap (R := t.rules.toList) f t.gapSize t.gap.1 t.gap.1 hG' hwin (Nat.le_refl _) hfix
    have hgap : ∀ c, Comp t.rules.toList c (t.gap.1 - 1) → Comp t.rules.toList c (t.gap.1 + t.gapSize - 1) := by
      intro c hc
      have hf : t.gap.1 + t.gapSize ≤ f c := by
        rcases below c (t.gap.1 - 1) hc with a | a
        · exact a
        · rcases hwin c with b | b
          · omega
          · exact b
      cases hv : t.val c with
      | none => exact (hs c).2 hv _
      | some v =>
        have : f c = v := by show (match t.val c with | none => _ | some v => v) = _; rw [hv]
        rw [this] at hf
        exact (hs c).1 v hv _ (by omega)
    exact Comp.pump_all t.gapSize t.gap.1 hk1 hG hgap _ ((hs _).1 pv0 hpv0 _ (by omega))
#print axioms held_pumps
end TM

namespace TM

theorem inf4_frame (t : TM) (c v : Nat) (h : TInv t) (hv : t.val c = some v) :
    (inf4 t c).gap = t.gap ∧ (inf4 t c).gapSize = t.gapSize ∧ (inf4 t c).holding = t.holding := by
  obtain ⟨k1, k2, k3, k4, k5, k6, k7⟩ := inf_keep t c v h.ix hv
  have hum := (h.ix.use c (by rw [hv]; simp)).2
  have e2u : (inf2 t c).usingC = (inf1 t c).usingC := rfl
  have hU : ∀ e, e ∈ (inf2 t c).usingC.getD c [] → e ∈ t.usingC.getD c [] := by
    intro e he; rw [e2u] at he; exact ((k2 c (by rw [hv]; simp) e).1 he).1
  obtain ⟨f3, _, _, _, _, _⟩ := infFold_spec ((inf2 t c).usingC.getD c []) (inf2 t c) (by rw [e2u]; exact k3 c (by rw [hv]; simp))
    (by intro rc hr; show rc.1 < (inf1 t c).shifts.size; rw [k5, h.wf.ss]; exact ((hum rc.1 rc.2).1 (by cases rc; exact hU _ hr)).1)
  have e3 : inf3 t c = ((inf2 t c).usingC.getD c []).foldl infStep (inf2 t c) := rfl
  rw [← e3] at f3
  obtain ⟨fq, _⟩ := dropRules_spec ((setVal t c none).pumpingC.getD c []) (setVal t c none)
  have e1 : inf1 t c = ((setVal t c none).pumpingC.getD c []).foldl dropRule (setVal t c none) := rfl
  rw [← e1] at fq
  refine ⟨?_, ?_, ?_⟩
  · show (inf3 t c).gap = _; rw [f3.gap]; exact fq.gap
  · show (inf3 t c).gapSize = _; rw [f3.gapSize]; exact fq.gapSize
  · show (inf3 t c).holding = _; rw [f3.holding]; exact fq.holding

theorem setInfinite_gs (t : TM) (c idx0 : Nat) (h : TInv t) (g : GI t) (hw : Win t) (hs : SND t) (hq : t.queue = [])
    (ha : AGx t (some idx0)) (hc : c < t.value.size) (hidx0 : idx0 < t.rules.size) (hpar : (rule t idx0).parent = c)
    (hgt : ∀ pv, t.val c = some pv → pv > t.gap.2) :
    GI (t.setInfinite c) ∧ SND (t.setInfinite c) := by
  cases hv : t.val c with
  | none =>
    have : t.setInfinite c = t := by rw [setInfinite_eq, hv]
    rw [this]; exact ⟨g, hs⟩
  | some v =>
    rw [setInfinite_some t c v hv]
    have F := inf_fields t c v h.wf h.ix hv
    obtain ⟨e1, e2, e3⟩ := inf4_frame t c v h hv
    have hval := inf4_val t c F hc
    have hpump := held_pumps t idx0 v h g hw hs hq ha hidx0 (by rw [hpar]; exact hv) (hgt v hv)
    rw [hpar] at hpump
    constructor
    · refine ⟨by rw [e2]; exact g.g1, by rw [e1, e2]; exact g.g2, ?_, Or.inl ?_, ?_⟩
      · intro idx hidx d hd
        rw [F.rules] at hidx
        rw [rule_congr F.rules] at hd
        rw [e2]; exact g.bound idx hidx d hd
      · intro x hx vx hvx
        rw [F.value, Array.size_setIfInBounds] at hx
        rw [hval] at hvx
        by_cases e : x = c
        · rw [if_pos e] at hvx; cases hvx
        · rw [if_neg e] at hvx
          rw [e1]; exact hw x hx vx hvx
      · intro idx hidx pv hpv
        rw [e3] at hidx
        rw [rule_congr F.rules, hval] at hpv
        by_cases e : (rule t idx).parent = c
        · rw [if_pos e] at hpv; cases hpv
        · rw [if_neg e] at hpv
          rw [e1]; exact g.hd idx hidx pv hpv
    · intro x
      rw [F.rules, hval]
      by_cases e : x = c
      · rw [if_pos e]
        refine ⟨fun vx hvx => (by cases hvx), fun _ n => ?_⟩
        rw [e]; exact hpump n
      · rw [if_neg e]; exact hs x
end TM

namespace TM

/-- all the invariants together -/
structure Full (t : TM) : Prop where
  inv : TInv t
  qv : QV t
  ag : AGx t none
  gi : GI t
  snd : SND t

theorem processQueue_full : ∀ (fuel : Nat) (t : TM), Full t → Full (processQueue fuel t)
  | 0, t, F => by rw [processQueue]; exact F
  | fuel + 1, t, F => by
    rw [processQueue_succ]
    split
    · rename_i idx q hqe
      have hidx : idx < t.rules.size := F.qv idx (Or.inl (by rw [hqe]; exact List.mem_cons_self))
      have h0 : TInv ({ t with queue := q } : TM) := F.inv.congr rfl rfl rfl rfl rfl
      have hq0 : QV ({ t with queue := q } : TM) := by
        intro x hx
        rcases hx with a | a
        · exact F.qv x (Or.inl (by rw [hqe]; exact List.mem_cons_of_mem _ a))
        · exact F.qv x (Or.inr a)
      have ha0 : AGx ({ t with queue := q } : TM) (some idx) := by
        intro i hi hne pv hpv hcg
        rcases F.ag i hi (by simp) pv hpv hcg with a | a
        · rw [hqe] at a
          rcases List.mem_cons.1 a with b | b
          · exact absurd (by rw [b]) hne
          · exact Or.inl b
        · exact Or.inr a
      have g0 : GI ({ t with queue := q } : TM) := ⟨F.gi.g1, F.gi.g2, F.gi.bound, F.gi.win, F.gi.hd⟩
      have s0 : SND ({ t with queue := q } : TM) := F.snd
      by_cases hcg : canGive (t.shifts.getD idx #[]) = true
      · rw [if_pos hcg]
        have hc := (F.inv.wf.cls idx hidx).1
        obtain ⟨a, b, _⟩ := increaseValue_inv ({ t with queue := q } : TM) (rule t idx).parent idx h0 hq0 hc hidx
        obtain ⟨g', s'⟩ := increaseValue_gs ({ t with queue := q } : TM) (rule t idx).parent idx h0 g0 s0 hc hidx rfl hcg
        exact processQueue_full fuel _ ⟨a, b, increaseValue_agenda _ _ idx h0 hc hidx rfl ha0, g', s'⟩
      · rw [if_neg hcg]
        refine processQueue_full fuel _ ⟨h0, hq0, ?_, g0, s0⟩
        intro i hi _ pv hpv hcg2
        by_cases e : i = idx
        · rw [e] at hcg2; exact absurd hcg2 hcg
        · exact ha0 i hi (by intro h2; injection h2 with h2; exact e h2) pv hpv hcg2
    · rename_i hqe
      split
      · exact F
      · rename_i idx hd hhe
        have hidx : idx < t.rules.size := F.qv idx (Or.inr (by rw [hhe]; exact List.mem_cons_self))
        have h0 : TInv ({ t with holding := hd } : TM) := F.inv.congr rfl rfl rfl rfl rfl
        have hq0 : QV ({ t with holding := hd } : TM) := by
          intro x hx
          rcases hx with a | a
          · exact F.qv x (Or.inl a)
          · exact F.qv x (Or.inr (by rw [hhe]; exact List.mem_cons_of_mem _ a))
        have ha0 : AGx ({ t with holding := hd } : TM) (some idx) := by
          intro i hi hne pv hpv hcg
          rcases F.ag i hi (by simp) pv hpv hcg with a | a
          · exact Or.inl a
          · rw [hhe] at a
            rcases List.mem_cons.1 a with b | b
            · exact absurd (by rw [b]) hne
            · exact Or.inr b
        have hwt : Win t := by
          rcases F.gi.win with w | ⟨_, st, _⟩
          · exact w
          · rw [hhe] at st; cases st
        have hw0 : Win ({ t with holding := hd } : TM) := hwt
        have g0 : GI ({ t with holding := hd } : TM) :=
          ⟨F.gi.g1, F.gi.g2, F.gi.bound, Or.inl hw0, fun i hi pv hpv => F.gi.hd i (by rw [hhe]; exact List.mem_cons_of_mem _ hi) pv hpv⟩
        have s0 : SND ({ t with holding := hd } : TM) := F.snd
        have hc := (F.inv.wf.cls idx hidx).1
        have hgt : ∀ pv, ({ t with holding := hd } : TM).val (rule t idx).parent = some pv → pv > ({ t with holding := hd } : TM).gap.2 :=
          fun pv hpv => F.gi.hd idx (by rw [hhe]; exact List.mem_cons_self) pv hpv
        obtain ⟨a, b, _⟩ := setInfinite_inv ({ t with holding := hd } : TM) (rule t idx).parent h0 hq0 hc
        obtain ⟨g', s'⟩ := setInfinite_gs ({ t with holding := hd } : TM) (rule t idx).parent idx h0 g0 hw0 s0 hqe ha0 hc hidx rfl hgt
        exact processQueue_full fuel _ ⟨a, b, setInfinite_agenda _ _ idx h0 hc rfl ha0, g', s'⟩
end TM

namespace TM

/-- completeness of a quiescent state (the argument of `tm_complete`, on a state) -/
theorem quiescent_complete (t : TM) (hinv : TInv t) (hag : AGx t none) (hq : t.queue = []) (hh : t.holding = []) :
    ∀ c n, Comp t.rules.toList c n → t.val c = none ∨ ∃ v, t.val c = some v ∧ n < v := by
  intro c n hcomp
  induction hcomp with
  | mk r n hr _ ih =>
    cases hpv : t.val r.parent with
    | none => exact Or.inl rfl
    | some pv =>
      right
      refine ⟨pv, rfl, ?_⟩
      obtain ⟨idx, hidx', hrule⟩ := mem_rules_idx t r hr
      have hng : canGive (t.shifts.getD idx #[]) = false := by
        cases hcg : canGive (t.shifts.getD idx #[]) with
        | false => rfl
        | true =>
          rcases hag idx hidx' (by simp) pv (by rw [hrule]; exact hpv) hcg with a | a
          · rw [hq] at a; cases a
          · rw [hh] at a; cases a
      obtain ⟨i, hi, z, hz, hz0⟩ := not_canGive _ hng
      obtain ⟨hsz, hent⟩ := hinv.si idx hidx' pv (by rw [hrule]; exact hpv)
      rw [hsz] at hi
      have he := hent i hi
      unfold sh at he
      rw [hz, hrule] at he
      rw [hrule] at hi
      have hd : r.deps.getD i (0, 0) ∈ r.deps := by
        rw [List.getD_eq_getElem?_getD, List.getElem?_eq_getElem hi]; exact List.getElem_mem hi
      cases hcv : t.val (r.deps.getD i (0, 0)).1 with
      | none => rw [hcv] at he; cases he
      | some fv =>
        rw [hcv] at he
        have he2 : some z = some ((fv : Int) + (r.deps.getD i (0, 0)).2 - pv) := he
        injection he2 with he
        apply Classical.byContradiction
        intro hn
        have hpn : pv ≤ n := by omega
        by_cases hneg : (n : Int) - (r.deps.getD i (0, 0)).2 < 0
        · omega
        · have hm := ih (r.deps.getD i (0, 0)) hd ((n : Int) - (r.deps.getD i (0, 0)).2).toNat (by omega)
          rcases hm with a | ⟨v, a, b⟩
          · rw [hcv] at a; cases a
          · rw [hcv] at a; injection a with a
            omega

/-- a quiescent state whose free window starts at 0 has no finite class left -/
theorem quiescent_win0 (t : TM) (F : Full t) (hq : t.queue = []) (hh : t.holding = []) (hw : Win t) (hk : t.gap.1 = 0) :
    ∀ c, c < t.value.size → t.val c = none := by
  intro c hc
  cases hv : t.val c with
  | none => rfl
  | some v =>
    exfalso
    have g1 := F.gi.g1
    have g2 := F.gi.g2
    have hG : ∀ r ∈ t.rules.toList, ∀ d ∈ r.deps, d.2 ≤ (t.gapSize : Int) := by
      intro r hr d hd
      obtain ⟨idx, hidx, e⟩ := mem_rules_idx t r hr
      have := F.gi.bound idx hidx d (by rw [e]; exact hd)
      omega
    have big : ∀ c, c < t.value.size → ∀ m, m + 1 ≤ t.gapSize → Comp t.rules.toList c m := by
      intro c hc m hm
      cases hv : t.val c with
      | none => exact (F.snd c).2 hv m
      | some v =>
        rcases hw c hc v hv with a | a
        · omega
        · exact (F.snd c).1 v hv m (by omega)
    have hchild : ∀ r ∈ t.rules.toList, ∀ d ∈ r.deps, d.1 < t.value.size := by
      intro r hr d hd
      obtain ⟨idx, hidx, e⟩ := mem_rules_idx t r hr
      exact (F.inv.wf.cls idx hidx).2 d.1 (by rw [e]; exact deps_child_mem r d hd)
    have hvG : t.gapSize ≤ v := by
      rcases hw c hc v hv with a | a
      · omega
      · omega
    have all := Comp.pump_all0 t.gapSize hG (fun r hr d hd m hm => big d.1 (hchild r hr d hd) m hm) c (big c hc)
      ⟨t.gapSize - 1, by omega, (F.snd c).1 v hv _ (by omega)⟩
    rcases quiescent_complete t F.inv F.ag hq hh c v (all v) with a | ⟨v', a, b⟩
    · rw [hv] at a; cases a
    · rw [hv] at a; injection a with a; omega

theorem register_frame (t3 : TM) (r : Rule) :
    (register t3 r).gap = t3.gap ∧ (register t3 r).gapSize = t3.gapSize ∧ (register t3 r).holding = t3.holding := by
  unfold register
  cases t3.val r.parent with
  | none => exact ⟨rfl, rfl, rfl⟩
  | some pv =>
    simp only
    obtain ⟨f, _⟩ := regFold_spec (t3.rules.size - 1) r.children.zipIdx
      ({ t3 with pumpingC := t3.pumpingC.setIfInBounds r.parent (t3.pumpingC.getD r.parent [] ++ [t3.rules.size - 1]) } : TM)
    exact ⟨f.gap, f.gapSize, f.holding⟩
end TM

namespace TM

theorem deps_shift_mem (r : Rule) (d : Nat × Int) (h : d ∈ r.deps) : d.2 ∈ r.shifts := by
  unfold Rule.deps at h
  obtain ⟨a, b⟩ := d
  exact (List.of_mem_zip h).2

/-- **one insertion keeps all the invariants**, when the table was quiescent before -/
theorem addRuleKey_full (t : TM) (r : Rule) (fuel : Nat) (F : Full t) (hq : t.queue = []) (hh : t.holding = []) :
    Full (t.addRuleKey r fuel) := by
  rw [addRuleKey_eq]
  obtain ⟨m1, m2, m3, m4, m5, m6, m7, m8, m9, m10⟩ := materialiseAll_inv (r.parent :: r.children) t F.inv
  -- the materialised state
  have hnew0 : ∀ c, ¬ c < t.value.size → t.val c = some 0 := by
    intro c hc; unfold val; simp [Array.getD_eq_getD_getElem?, hc]
  have win1 : Win ((r.parent :: r.children).foldl materialise t) ∨ Stale ((r.parent :: r.children).foldl materialise t) := by
    rcases F.gi.win with w | ⟨s1, s2, s3⟩
    · by_cases hk : t.gap.1 = 0
      · right
        have allinf := quiescent_win0 t F hq hh w hk
        refine ⟨by rw [m9]; exact hk, by rw [m8]; exact hh, ?_⟩
        intro c _ v hv
        rw [m2] at hv
        by_cases hc : c < t.value.size
        · rw [allinf c hc] at hv; cases hv
        · rw [hnew0 c hc] at hv; injection hv with hv; exact hv.symm
      · left
        intro c _ v hv
        rw [m2] at hv
        rw [m9]
        by_cases hc : c < t.value.size
        · exact w c hc v hv
        · rw [hnew0 c hc] at hv; injection hv with hv; left; omega
    · right
      refine ⟨by rw [m9]; exact s1, by rw [m8]; exact hh, ?_⟩
      intro c _ v hv
      rw [m2] at hv
      by_cases hc : c < t.value.size
      · exact s3 c hc v hv
      · rw [hnew0 c hc] at hv; injection hv with hv; exact hv.symm
  have ha1 : AGx ((r.parent :: r.children).foldl materialise t) none := by
    intro idx hidx _ pv hpv hcg
    rw [m5] at hidx
    rw [rule_congr m5, m2] at hpv
    rw [m6] at hcg
    rw [m7, m8]
    exact F.ag idx hidx (by simp) pv hpv hcg
  have hs1 : SND ((r.parent :: r.children).foldl materialise t) := by
    intro c; rw [m5, m2]; exact F.snd c
  have hb1 : ∀ idx, idx < ((r.parent :: r.children).foldl materialise t).rules.size → ∀ d,
      d ∈ (rule ((r.parent :: r.children).foldl materialise t) idx).deps → d.2.natAbs ≤ t.gapSize := by
    intro idx hidx d hd
    rw [m5] at hidx
    rw [rule_congr m5] at hd
    exact F.gi.bound idx hidx d hd
  have hh1 : ((r.parent :: r.children).foldl materialise t).holding = [] := by rw [m8]; exact hh
  have hq1 : ∀ x, (x ∈ ((r.parent :: r.children).foldl materialise t).queue ∨ x ∈ ((r.parent :: r.children).foldl materialise t).holding) → False := by
    intro x hx; rw [m7, m8, hq, hh] at hx; rcases hx with a | a <;> cases a
  have g1t := F.gi.g1
  have g2t := F.gi.g2
  generalize (r.parent :: r.children).foldl materialise t = t1 at m1 m2 m3 m4 m5 m6 m7 m8 m9 m10 win1 ha1 hs1 hb1 hh1 hq1
  -- registration
  have R := register_fields t1 r
  have h4 := register_inv t1 r _ m1 R (m3 r.parent List.mem_cons_self) (fun c hc => m3 c (List.mem_cons_of_mem _ hc))
  obtain ⟨rf1, rf2, rf3⟩ := register_frame (gapGrow (pushRule t1 r) r) r
  have hval4 : ∀ y, (register (gapGrow (pushRule t1 r) r) r).val y = t1.val y := fun y => val_congr R.value y
  have q4 : QV (register (gapGrow (pushRule t1 r) r) r) := by
    intro x hx
    rw [R.rules]
    simp only [Array.size_push]
    rcases R.qh x hx with a | a | a
    · exact absurd (Or.inl a) (hq1 x)
    · exact absurd (Or.inr a) (hq1 x)
    · omega
  have a4 : AGx (register (gapGrow (pushRule t1 r) r) r) none := by
    intro idx hidx _ pv hpv hcg
    rw [R.rules] at hidx
    simp only [Array.size_push] at hidx
    rw [hval4] at hpv
    by_cases e : idx = t1.rules.size
    · have hr : rule (register (gapGrow (pushRule t1 r) r) r) idx = r := by
        unfold rule; rw [R.rules, e]; exact rule_push_eq _ _
      rw [hr] at hpv
      left; rw [e]; exact R.newq (by rw [hpv]; simp)
    · have hlt : idx < t1.rules.size := by omega
      have hr : rule (register (gapGrow (pushRule t1 r) r) r) idx = rule t1 idx := by
        unfold rule; rw [R.rules]; exact rule_push_lt _ _ _ hlt
      rw [hr] at hpv
      have hsh : (register (gapGrow (pushRule t1 r) r) r).shifts.getD idx #[] = t1.shifts.getD idx #[] := by
        rw [R.shifts]; exact getD_push_lt _ _ _ _ (by rw [m1.wf.ss]; exact hlt)
      rw [hsh] at hcg
      exact R.keepq idx (ha1 idx hlt (by simp) pv hpv hcg)
  have s4 : SND (register (gapGrow (pushRule t1 r) r) r) := by
    intro c
    rw [hval4]
    have hsub : ∀ x, x ∈ t1.rules.toList → x ∈ (register (gapGrow (pushRule t1 r) r) r).rules.toList := by
      intro x hx; rw [R.rules]; simp only [Array.toList_push, List.mem_append]; exact Or.inl hx
    exact ⟨fun v hv n hn => ((hs1 c).1 v hv n hn).mono_rules hsub, fun hv n => ((hs1 c).2 hv n).mono_rules hsub⟩
  -- the gap after the rule is known
  have g4 : GI (register (gapGrow (pushRule t1 r) r) r) := by
    have hrl : ∀ idx, idx < t1.rules.size → rule (pushRule t1 r) idx = rule t1 idx := by
      intro idx hi; unfold rule pushRule; exact rule_push_lt _ _ _ hi
    have hrn : rule (pushRule t1 r) t1.rules.size = r := by unfold rule pushRule; exact rule_push_eq _ _
    have hsz2 : (pushRule t1 r).rules.size = t1.rules.size + 1 := by unfold pushRule; simp
    have hv2 : ∀ y, (pushRule t1 r).val y = t1.val y := fun y => rfl
    have hmg : ∀ d, d ∈ r.deps → d.2.natAbs ≤ r.shifts.foldl (fun (g : Nat) (s : Int) => max g s.natAbs) 0 :=
      fun d hd => foldl_max_mem r.shifts 0 d.2 (deps_shift_mem r d hd)
    -- GI of the state after gapGrow
    have g3 : GI (gapGrow (pushRule t1 r) r) := by
      unfold gapGrow
      by_cases hbig : r.shifts.foldl (fun (g : Nat) (s : Int) => max g s.natAbs) 0 > (pushRule t1 r).gapSize
      · rw [if_pos hbig]
        have hgs : (pushRule t1 r).gapSize = t.gapSize := m10
        refine (correctGap_gi _ (by show 1 ≤ r.shifts.foldl (fun (g : Nat) (s : Int) => max g s.natAbs) 0; omega) ?_ ?_).1
        · intro idx hidx d hd
          show d.2.natAbs ≤ r.shifts.foldl (fun (g : Nat) (s : Int) => max g s.natAbs) 0
          have hidx' : idx < t1.rules.size + 1 := by rw [← hsz2]; exact hidx
          by_cases e : idx = t1.rules.size
          · have : rule ({ pushRule t1 r with gapSize := r.shifts.foldl (fun (g : Nat) (s : Int) => max g s.natAbs) 0 } : TM) idx = r := by
              rw [e]; exact hrn
            rw [this] at hd; exact hmg d hd
          · have hlt : idx < t1.rules.size := by omega
            have : rule ({ pushRule t1 r with gapSize := r.shifts.foldl (fun (g : Nat) (s : Int) => max g s.natAbs) 0 } : TM) idx = rule t1 idx := hrl idx hlt
            rw [this] at hd
            have := hb1 idx hlt d hd
            omega
        · intro idx hidx
          have : ({ pushRule t1 r with gapSize := r.shifts.foldl (fun (g : Nat) (s : Int) => max g s.natAbs) 0 } : TM).holding = t1.holding := rfl
          rw [this, hh1] at hidx; cases hidx
      · rw [if_neg hbig]
        have hgs : (pushRule t1 r).gapSize = t.gapSize := m10
        refine ⟨by rw [hgs]; exact g1t, ?_, ?_, ?_, ?_⟩
        · show t1.gap.2 + 1 = t1.gap.1 + t1.gapSize; rw [m9, m10]; exact g2t
        · intro idx hidx d hd
          rw [hgs]
          have hidx' : idx < t1.rules.size + 1 := by rw [← hsz2]; exact hidx
          by_cases e : idx = t1.rules.size
          · rw [e, hrn] at hd
            have := hmg d hd
            rw [hgs] at hbig; omega
          · have hlt : idx < t1.rules.size := by omega
            rw [hrl idx hlt] at hd
            exact hb1 idx hlt d hd
        · rcases win1 with w | ⟨s1, s2, s3⟩
          · exact Or.inl w
          · exact Or.inr ⟨s1, s2, s3⟩
        · intro idx hidx
          have : (pushRule t1 r).holding = t1.holding := rfl
          rw [this, hh1] at hidx; cases hidx
    obtain ⟨v3, _, r3, _, _, _⟩ := gapGrow_frame (pushRule t1 r) r
    have hval3 : ∀ y, (gapGrow (pushRule t1 r) r).val y = t1.val y := fun y => val_congr (v3.trans rfl) y
    have hsize3 : (gapGrow (pushRule t1 r) r).value.size = t1.value.size := by rw [v3]; rfl
    refine ⟨by rw [rf2]; exact g3.g1, by rw [rf1, rf2]; exact g3.g2, ?_, ?_, ?_⟩
    · intro idx hidx d hd
      have hr4 : (register (gapGrow (pushRule t1 r) r) r).rules = (gapGrow (pushRule t1 r) r).rules := by rw [R.rules, r3]; rfl
      rw [hr4] at hidx
      rw [rule_congr hr4] at hd
      rw [rf2]; exact g3.bound idx hidx d hd
    · rcases g3.win with w | ⟨s1, s2, s3⟩
      · left
        intro c hc v hv
        rw [R.value] at hc
        rw [hval4] at hv
        rw [rf1]
        exact w c (by rw [hsize3]; exact hc) v (by rw [hval3]; exact hv)
      · right
        refine ⟨by rw [rf1]; exact s1, by rw [rf3]; exact s2, ?_⟩
        intro c hc v hv
        rw [R.value] at hc
        rw [hval4] at hv
        exact s3 c (by rw [hsize3]; exact hc) v (by rw [hval3]; exact hv)
    · intro idx hidx
      rw [rf3] at hidx
      have : (gapGrow (pushRule t1 r) r).holding = [] := by
        apply List.eq_nil_iff_forall_not_mem.2
        intro x hx
        obtain ⟨_, _, _, _, _, g6⟩ := gapGrow_frame (pushRule t1 r) r
        rcases (g6 x).1 (Or.inr hx) with a | a
        · exact hq1 x (Or.inl a)
        · exact hq1 x (Or.inr a)
      rw [this] at hidx; cases hidx
  exact processQueue_full fuel _ ⟨h4, q4, a4, g4, s4⟩
end TM

namespace TM

theorem full_empty : Full ({} : TM) := by
  refine ⟨tinv_empty.1, tinv_empty.2, agenda_empty, ⟨by decide, by decide, ?_, Or.inl ?_, ?_⟩, ?_⟩
  · intro idx hidx; simp at hidx
  · intro c hc; simp at hc
  · intro idx hidx; cases hidx
  · intro c
    have hv : ({} : TM).val c = some 0 := by unfold val; simp [Array.getD_eq_getD_getElem?]
    refine ⟨?_, ?_⟩
    · intro v hv2 n hn; rw [hv] at hv2; injection hv2 with hv2; omega
    · intro hn; rw [hv] at hn; cases hn

/-- insertions one after the other, checking after each that the table came to rest (queue and hold list empty:
`process_queue` ran to its end within the fuel) -/
def runQ (fuel : Nat) : List Rule → TM → Option TM
  | [], t => some t
  | r :: rs, t =>
    if (t.addRuleKey r fuel).queue.isEmpty && (t.addRuleKey r fuel).holding.isEmpty then runQ fuel rs (t.addRuleKey r fuel) else none

theorem runQ_full (fuel : Nat) : ∀ (rs : List Rule) (t t' : TM), Full t → t.queue = [] → t.holding = [] → runQ fuel rs t = some t' →
    Full t' ∧ t'.queue = [] ∧ t'.holding = [] ∧ t' = rs.foldl (fun t r => t.addRuleKey r fuel) t
  | [], t, t', F, hq, hh, h => by
    simp only [runQ, Option.some.injEq] at h
    subst h; exact ⟨F, hq, hh, rfl⟩
  | r :: rs, t, t', F, hq, hh, h => by
    rw [runQ] at h
    split at h
    · rename_i hc
      simp only [Bool.and_eq_true, List.isEmpty_iff] at hc
      obtain ⟨a, b, c, d⟩ := runQ_full fuel rs _ t' (addRuleKey_full t r fuel F hq hh) hc.1 hc.2 h
      exact ⟨a, b, c, by rw [List.foldl_cons]; exact d⟩
    · cases h

/-- **C03 for the line-by-line model of `TableMethod`: the table equals the least fixed point.** After any sequence of
insertions each of which came to rest, a class reported as pumping has every term computable, and a class reported with the
finite value `v` has exactly the terms below `v` computable: `v` is the least fixed point's answer. -/
theorem tm_eq_lfp (rs : List Rule) (fuel : Nat) (t : TM) (h : runQ fuel rs {} = some t) :
    t = rs.foldl (fun t r => t.addRuleKey r fuel) {} ∧
    ∀ c, (t.val c = none → ∀ n, Comp rs c n) ∧
         (∀ v, t.val c = some v → (∀ n, n < v → Comp rs c n) ∧ ¬ Comp rs c v) := by
  obtain ⟨F, hq, hh, e⟩ := runQ_full fuel rs {} t full_empty rfl rfl h
  have hr : t.rules.toList = rs := by rw [e]; exact (tm_invariants rs fuel).2.2
  refine ⟨e, ?_⟩
  intro c
  have hs := F.snd c
  rw [hr] at hs
  refine ⟨hs.2, ?_⟩
  intro v hv
  refine ⟨hs.1 v hv, ?_⟩
  intro hc
  rcases quiescent_complete t F.inv F.ag hq hh c v (by rw [hr]; exact hc) with a | ⟨v', a, b⟩
  · rw [hv] at a; cases a
  · rw [hv] at a; injection a with a; omega
#print axioms tm_eq_lfp
end TM
example : (TM.runQ 1000 [⟨0, [1], [1]⟩, ⟨1, [], []⟩, ⟨2, [3], [0]⟩] {}).map (fun t => (t.val 0, t.val 1, t.val 2, t.val 3)) =
    some (none, none, some 0, some 0) := by decide +kernel
