import CSSVerif.EngineInv
/-! C04: table universes (what the driver is fed) and a decidable check of the strategy contract `WFU` the engine theorems
assume; the driver evaluates it for every universe it runs. -/

structure UTab where
  empty : Array Bool := #[]
  app : List ((Nat × Nat) × List RuleOut) := []
  initial : List Nat := []
  inferral : List Nat := []
  expansion : List (List Nat) := []
  ver : List Nat := []
  sym : List Nat := []
  ev : Bool := false
instance : Inhabited UTab := ⟨{}⟩

def UTab.toU (a : UTab) : Universe :=
  { empty := a.empty, apply := fun σ x => ((a.app.find? (·.1 == (σ, x))).map (·.2)).getD [],
    initial := a.initial, inferral := a.inferral, expansion := a.expansion, ver := a.ver, sym := a.sym, expandVerified := a.ev }

def wfuB (a : UTab) : Bool :=
  a.app.all (fun e =>
    (!a.sym.contains e.1.1 || e.2.all (fun r => r.children.length == 1 &&
        r.children.all (fun c => a.empty.getD c false == a.empty.getD e.1.2 false))) &&
    (!a.inferral.contains e.1.1 || e.2.all (fun r => decide (0 < r.children.length))) &&
    e.2.all (fun r => r.flags.possiblyEmpty || r.children.all (fun c => a.empty.getD c false == false)))

theorem toU_apply_mem (a : UTab) (σ x : Nat) (r : RuleOut) (h : r ∈ a.toU.apply σ x) :
    ∃ e, e ∈ a.app ∧ e.1 = (σ, x) ∧ r ∈ e.2 := by
  simp only [UTab.toU] at h
  cases hf : a.app.find? (·.1 == (σ, x)) with
  | none => rw [hf] at h; simp at h
  | some e =>
    rw [hf] at h
    simp only [Option.map_some, Option.getD_some] at h
    have h1 := List.mem_of_find?_eq_some hf
    have h2 := List.find?_some hf
    exact ⟨e, h1, by simpa using h2, h⟩

theorem wfuB_sound (a : UTab) (h : wfuB a = true) : WFU a.toU := by
  unfold wfuB at h
  rw [List.all_eq_true] at h
  refine ⟨?_, ?_, ?_, ?_⟩
  · intro σ hσ x r hr
    obtain ⟨e, he, hk, hm⟩ := toU_apply_mem a σ x r hr
    have := h e he
    simp only [Bool.and_eq_true, Bool.or_eq_true, Bool.not_eq_true', List.all_eq_true, beq_iff_eq] at this
    have hs : a.sym.contains e.1.1 = true := by rw [hk]; exact List.contains_iff_mem.2 hσ
    rcases this.1.1 with e1 | e1
    · rw [hs] at e1; cases e1
    · exact (e1 r hm).1
  · intro σ hσ x r hr
    obtain ⟨e, he, hk, hm⟩ := toU_apply_mem a σ x r hr
    have := h e he
    simp only [Bool.and_eq_true, Bool.or_eq_true, Bool.not_eq_true', List.all_eq_true, beq_iff_eq] at this
    have hs : a.inferral.contains e.1.1 = true := by rw [hk]; exact List.contains_iff_mem.2 hσ
    rcases this.1.2 with e1 | e1
    · rw [hs] at e1; cases e1
    · simpa using e1 r hm
  · intro σ x r hr hpe c hc
    obtain ⟨e, he, hk, hm⟩ := toU_apply_mem a σ x r hr
    have := h e he
    simp only [Bool.and_eq_true, Bool.or_eq_true, Bool.not_eq_true', List.all_eq_true, beq_iff_eq] at this
    rcases this.2 r hm with e1 | e1
    · rw [hpe] at e1; cases e1
    · exact e1 c hc
  · intro σ hσ x r hr c hc
    obtain ⟨e, he, hk, hm⟩ := toU_apply_mem a σ x r hr
    have := h e he
    simp only [Bool.and_eq_true, Bool.or_eq_true, Bool.not_eq_true', List.all_eq_true, beq_iff_eq] at this
    have hs : a.sym.contains e.1.1 = true := by rw [hk]; exact List.contains_iff_mem.2 hσ
    rcases this.1.1 with e1 | e1
    · rw [hs] at e1; cases e1
    · have := (e1 r hm).2 c hc
      rw [hk] at this
      exact this

/-- the theorems of `EngineInv`, for a table universe that passes the check -/
theorem table_engine_invariants (a : UTab) (h : wfuB a = true) (fuel c : Nat) (iter : Bool) (ops : List E2.Op) :
    EI a.toU (E2.exec a.toU fuel iter ops (E2.initEngine a.toU fuel c)) :=
  engine_events_genuine (wfuB_sound a h) fuel c iter ops
#print axioms wfuB_sound
#print axioms table_engine_invariants
