/-! C07: object maps of the derived rule forms as compositions of finite partial maps.
`EquivalencePathRule.forward_map` applies the steps' forward maps in order, `backward_map` applies the
steps' backward maps in *reversed* order (rule.py:912-929); `ReverseRule` swaps the two maps of an
equivalence rule; `EquivalenceRule` selects the only non-empty child. -/

abbrev PFun := List (Nat × Nat)

def PFun.app (f : PFun) (x : Nat) : Option Nat := (f.find? (·.1 == x)).map (·.2)

/-- one step of a path: (forward table, backward table) -/
abbrev Step := PFun × PFun

def pathFwd : List Step → Nat → Option Nat
  | [], x => some x
  | s :: rest, x => (s.1.app x).bind (pathFwd rest)

/-- backward through the steps in reversed order -/
def pathBwd : List Step → Nat → Option Nat
  | [], y => some y
  | s :: rest, y => (pathBwd rest y).bind s.2.app

/-- a step whose backward map undoes its forward map -/
def StepInv (s : Step) : Prop := ∀ x y, s.1.app x = some y → s.2.app y = some x
def StepInv' (s : Step) : Prop := ∀ x y, s.2.app y = some x → s.1.app x = some y

/-- **path round trip**: if every step's backward map undoes its forward map, the path's backward map
undoes the path's forward map -/
theorem path_roundtrip : ∀ (steps : List Step), (∀ s ∈ steps, StepInv s) →
    ∀ x y, pathFwd steps x = some y → pathBwd steps y = some x
  | [], _, x, y, h => by simp only [pathFwd, Option.some.injEq] at h; subst h; rfl
  | s :: rest, hs, x, y, h => by
    simp only [pathFwd] at h
    cases hsx : s.1.app x with
    | none => rw [hsx] at h; cases h
    | some z =>
      rw [hsx] at h
      simp only [Option.bind_some] at h
      have ih := path_roundtrip rest (fun t ht => hs t (List.mem_cons_of_mem _ ht)) z y h
      simp only [pathBwd, ih, Option.bind_some]
      exact hs s List.mem_cons_self x z hsx

theorem path_roundtrip' : ∀ (steps : List Step), (∀ s ∈ steps, StepInv' s) →
    ∀ x y, pathBwd steps y = some x → pathFwd steps x = some y
  | [], _, x, y, h => by simp only [pathBwd, Option.some.injEq] at h; subst h; rfl
  | s :: rest, hs, x, y, h => by
    simp only [pathBwd] at h
    cases hby : pathBwd rest y with
    | none => rw [hby] at h; cases h
    | some z =>
      rw [hby] at h
      simp only [Option.bind_some] at h
      have h1 := hs s List.mem_cons_self x z h
      have ih := path_roundtrip' rest (fun t ht => hs t (List.mem_cons_of_mem _ ht)) z y hby
      simp only [pathFwd, h1, Option.bind_some, ih]

/-- reverse of an equivalence rule: the maps are swapped, so the round trips carry over -/
def reverseStep (s : Step) : Step := (s.2, s.1)
theorem reverse_roundtrip (s : Step) (h : StepInv' s) : StepInv (reverseStep s) := fun x y hxy => h y x hxy

/-- the order matters: applying the backward maps in forward order is wrong in general -/
def pathBwdWrong : List Step → Nat → Option Nat
  | [], y => some y
  | s :: rest, y => (s.2.app y).bind (pathBwdWrong rest)

example : let a : Step := ([(0, 1), (1, 2), (2, 0)], [(1, 0), (2, 1), (0, 2)])   -- a 3-cycle and its inverse
          let b : Step := ([(0, 1), (1, 0), (2, 2)], [(0, 1), (1, 0), (2, 2)])   -- a transposition
          pathFwd [a, b] 0 = some 0 ∧ pathBwd [a, b] 0 = some 0 ∧ pathBwdWrong [a, b] 0 = some 2 := by decide
