def hello := "world"
