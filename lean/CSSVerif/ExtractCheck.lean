import CSSVerif.Extractor
import CSSVerif.LfpTotal
/-! C11: a proven checker for the output of the forest extractor. -/

def Pumping (R : List Rule) (c : Nat) : Prop := ∀ n, Comp R c n

def wfB (R : List Rule) (N : Nat) : Bool := R.all (fun r => decide (r.parent < N))

theorem wfB_spec {R : List Rule} {N : Nat} (h : wfB R N = true) : ∀ r ∈ R, r.parent < N := by
  intro r hr
  have := List.all_eq_true.1 h r hr
  simpa using this

/-- decide pumping, with the well-formedness test built in -/
def pumpsB (R : List Rule) (N c : Nat) : Bool := wfB R N && decide (c < N) && pumps R N c
def notPumpsB (R : List Rule) (N c : Nat) : Bool := wfB R N && decide (c < N) && !pumps R N c

theorem pumpsB_spec {R : List Rule} {N c : Nat} (h : pumpsB R N c = true) : Pumping R c := by
  unfold pumpsB at h
  simp only [Bool.and_eq_true, decide_eq_true_eq] at h
  exact (pumps_iff R N c (wfB_spec h.1.1) h.1.2).1 h.2

theorem notPumpsB_spec {R : List Rule} {N c : Nat} (h : notPumpsB R N c = true) : ¬ Pumping R c := by
  unfold notPumpsB at h
  simp only [Bool.and_eq_true, decide_eq_true_eq, Bool.not_eq_true'] at h
  intro hp
  have := (pumps_iff R N c (wfB_spec h.1.1) h.1.2).2 hp
  rw [h.2] at this; cases this

def rulesOfKeys (ks : List Key) : List Rule := ks.map (·.rule)

def keyEq (a b : Key) : Bool := a.rule == b.rule && a.bucket == b.bucket

/-- remove one occurrence -/
def eraseKey : List Key → Key → Option (List Key)
  | [], _ => none
  | x :: xs, k => if keyEq x k then some xs else (eraseKey xs k).map (x :: ·)

/-- multiset inclusion `M ⊆ U` -/
def subMulti : List Key → List Key → Bool
  | [], _ => true
  | k :: M, U => match eraseKey U k with
    | some U' => subMulti M U'
    | none => false

def lhsK (M : List Key) : List Nat := M.map (·.rule.parent)
def distinctB : List Nat → Bool
  | [] => true
  | x :: xs => !xs.contains x && distinctB xs

theorem distinctB_spec : ∀ l, distinctB l = true → l.Nodup
  | [], _ => List.nodup_nil
  | x :: xs, h => by
    simp only [distinctB, Bool.and_eq_true, Bool.not_eq_true'] at h
    have hx : x ∉ xs := by
      intro hm
      have := List.contains_iff_mem.2 hm
      rw [h.1] at this; cases this
    exact List.nodup_cons.2 ⟨hx, distinctB_spec xs h.2⟩

/-- every single removal breaks productivity -/
def oneMinimalB (M : List Key) (N root : Nat) : Bool :=
  (List.range M.length).all (fun i => notPumpsB (rulesOfKeys (M.eraseIdx i)) N root)

def closedB (M : List Key) : Bool := M.all (fun k => k.rule.children.all (fun c => (lhsK M).contains c))

def noReverse (ks : List Key) : List Key := ks.filter (fun k => k.bucket != .reverse)

/-- reverse rules only if needed: when the universe without its REVERSE keys is productive, none is used -/
def reverseOnlyIfNeededB (U M : List Key) (N root : Nat) : Bool :=
  !(pumps (rulesOfKeys (noReverse U)) N root) || M.all (fun k => k.bucket != .reverse)

structure ExtractOK (U M : List Key) (root : Nat) : Prop where
  productive : Pumping (rulesOfKeys M) root
  oneRule    : (lhsK M).Nodup
  closed     : ∀ k ∈ M, ∀ c ∈ k.rule.children, c ∈ lhsK M
  minimal    : ∀ i, i < M.length → ¬ Pumping (rulesOfKeys (M.eraseIdx i)) root

def extractOKB (U M : List Key) (N root : Nat) : Bool :=
  subMulti M U && pumpsB (rulesOfKeys M) N root && distinctB (lhsK M) && closedB M && oneMinimalB M N root

theorem extractOKB_sound (U M : List Key) (N root : Nat) (h : extractOKB U M N root = true) : ExtractOK U M root := by
  unfold extractOKB at h
  simp only [Bool.and_eq_true] at h
  obtain ⟨⟨⟨⟨_, hp⟩, hd⟩, hc⟩, hm⟩ := h
  refine ⟨pumpsB_spec hp, distinctB_spec _ hd, ?_, ?_⟩
  · intro k hk c hcm
    have := List.all_eq_true.1 (List.all_eq_true.1 hc k hk) c hcm
    simpa using this
  · intro i hi
    have := List.all_eq_true.1 hm i (List.mem_range.2 hi)
    exact notPumpsB_spec this

/-- the universe without reverse keys really is unproductive when the checker says reverse rules were needed -/
theorem reverse_needed_sound (U : List Key) (N root : Nat) (h : notPumpsB (rulesOfKeys (noReverse U)) N root = true) :
    ¬ Pumping (rulesOfKeys (noReverse U)) root := notPumpsB_spec h

example : extractOKB [⟨⟨0,[1,0],[0,0]⟩,.normal⟩, ⟨⟨1,[],[]⟩,.verification⟩, ⟨⟨0,[1],[0]⟩,.reverse⟩]
    [⟨⟨0,[1],[0]⟩,.reverse⟩, ⟨⟨1,[],[]⟩,.verification⟩] 2 0 = true := by decide +kernel
