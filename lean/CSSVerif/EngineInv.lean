import CSSVerif.Resume
import CSSVerif.QueueLabels
/-! C04: invariants of the engine model (default database flavour, `E2`): every recorded event is genuine - its start label is the
label of the parent class of a rule that a strategy of the pack produces, its end labels are the labels of that rule's children,
in order - and every label the queue holds is a label of the class database. -/

def lab (c : CDB) (l x : Nat) : Prop := c.classes[l]? = some x
def Ext (c c' : CDB) : Prop := ∃ t, c'.classes = c.classes ++ t

theorem Ext.refl (c : CDB) : Ext c c := ⟨[], by simp⟩
theorem Ext.trans {a b c : CDB} (h1 : Ext a b) (h2 : Ext b c) : Ext a c := by
  obtain ⟨t1, e1⟩ := h1; obtain ⟨t2, e2⟩ := h2
  exact ⟨t1 ++ t2, by rw [e2, e1, List.append_assoc]⟩
theorem Ext.len {a b : CDB} (h : Ext a b) : a.classes.length ≤ b.classes.length := by
  obtain ⟨t, e⟩ := h; rw [e]; simp
theorem lab.ext {c c' : CDB} {l x : Nat} (h : lab c l x) (he : Ext c c') : lab c' l x := by
  obtain ⟨t, e⟩ := he
  unfold lab at *
  rw [e]
  have hl : l < c.classes.length := by
    apply Classical.byContradiction; intro hn
    rw [List.getElem?_eq_none (by omega)] at h; cases h
  rw [List.getElem?_append_left hl]; exact h
theorem lab.lt {c : CDB} {l x : Nat} (h : lab c l x) : l < c.classes.length := by
  apply Classical.byContradiction; intro hn
  unfold lab at h
  rw [List.getElem?_eq_none (by omega)] at h; cases h

theorem getLabel_spec (c : CDB) (x : Nat) : Ext c (c.getLabel x).1 ∧ lab (c.getLabel x).1 (c.getLabel x).2 x := by
  unfold CDB.getLabel CDB.label?
  split
  · rename_i l hl
    refine ⟨Ext.refl c, ?_⟩
    obtain ⟨h1, h2, _⟩ := List.findIdx?_eq_some_iff_getElem.1 hl
    unfold lab
    simp only
    rw [List.getElem?_eq_getElem h1]
    simpa using h2
  · refine ⟨⟨[x], rfl⟩, ?_⟩
    unfold lab
    simp

theorem getLabel_nodup (c : CDB) (x : Nat) (h : c.classes.Nodup) : (c.getLabel x).1.classes.Nodup := by
  unfold CDB.getLabel CDB.label?
  split
  · exact h
  · rename_i hn
    simp only
    have hx : x ∉ c.classes := by
      intro hm
      have := List.findIdx?_eq_none_iff.1 hn x hm
      simp at this
    exact List.nodup_append.2 ⟨h, (by simp), by
      intro a ha b hb e
      simp only [List.mem_singleton] at hb
      rw [e, hb] at ha; exact hx ha⟩

theorem isEmpty_classes (u : Universe) (c : CDB) (l : Nat) : (c.isEmpty u l).1.classes = c.classes := by
  unfold CDB.isEmpty
  split
  · rfl
  · simp [CDB.setEmpty]

inductive Labs (c : CDB) : List Nat → List Nat → Prop
  | nil : Labs c [] []
  | cons {l x : Nat} {ls xs : List Nat} : lab c l x → Labs c ls xs → Labs c (l :: ls) (x :: xs)

theorem Labs.ext {c c' : CDB} (he : Ext c c') : ∀ {ls xs : List Nat}, Labs c ls xs → Labs c' ls xs
  | _, _, .nil => .nil
  | _, _, .cons h t => .cons (h.ext he) (Labs.ext he t)

theorem Labs.snoc {c : CDB} : ∀ {ls xs : List Nat} {l x : Nat}, Labs c ls xs → lab c l x → Labs c (ls ++ [l]) (xs ++ [x])
  | _, _, _, _, .nil, h => .cons h .nil
  | _, _, _, _, .cons h1 t, h => .cons h1 (Labs.snoc t h)

theorem Labs.lt {c : CDB} : ∀ {ls xs : List Nat}, Labs c ls xs → ∀ l, l ∈ ls → l < c.classes.length
  | _, _, .nil, l, hl => by cases hl
  | _, _, .cons h t, l, hl => by
    rcases List.mem_cons.1 hl with e | e
    · rw [e]; exact h.lt
    · exact Labs.lt t l e

theorem Labs.length {c : CDB} : ∀ {ls xs : List Nat}, Labs c ls xs → ls.length = xs.length
  | _, _, .nil => rfl
  | _, _, .cons _ t => by simp [Labs.length t]

/-- the class's own answer to "are you empty", for the class stored under label `l` -/
def TrulyEmpty (u : Universe) (c : CDB) (l : Nat) : Bool := u.empty.getD (c.classes.getD l 0) false

/-- every cached emptiness is the class's own answer -/
structure CacheOK (u : Universe) (c : CDB) : Prop where
  len : c.empties.length = c.classes.length
  ok : ∀ l b, c.empties.getD l none = some b → b = TrulyEmpty u c l

theorem TrulyEmpty.ext {u : Universe} {c c' : CDB} {l : Nat} (he : Ext c c') (hl : l < c.classes.length) :
    TrulyEmpty u c' l = TrulyEmpty u c l := by
  obtain ⟨t, e⟩ := he
  unfold TrulyEmpty
  rw [e, List.getD_eq_getElem?_getD, List.getD_eq_getElem?_getD, List.getElem?_append_left hl]

theorem setEmpty_cache {u : Universe} {c : CDB} (h : CacheOK u c) (l : Nat) (b : Bool)
    (hb : l < c.classes.length → b = TrulyEmpty u c l) : CacheOK u (c.setEmpty l b) := by
  refine ⟨by simp [CDB.setEmpty, h.len], ?_⟩
  intro l' b' hl'
  have hcl : (c.setEmpty l b).classes = c.classes := rfl
  unfold TrulyEmpty
  rw [hcl]
  simp only [CDB.setEmpty, List.getD_eq_getElem?_getD] at hl'
  rw [List.getElem?_set] at hl'
  split at hl'
  · rename_i e
    split at hl'
    · rename_i hlt
      simp only [Option.getD_some, Option.some.injEq] at hl'
      subst e
      rw [← hl']
      exact hb (by rw [← h.len]; exact hlt)
    · simp at hl'
  · have := h.ok l' b' (by rw [List.getD_eq_getElem?_getD]; exact hl')
    exact this

theorem isEmpty_truth {u : Universe} {c : CDB} (h : CacheOK u c) (l : Nat) :
    (c.isEmpty u l).2 = TrulyEmpty u c l ∧ CacheOK u (c.isEmpty u l).1 := by
  unfold CDB.isEmpty
  split
  · rename_i b hb
    exact ⟨h.ok l b hb, h⟩
  · exact ⟨rfl, setEmpty_cache h l _ (fun _ => rfl)⟩

theorem getLabel_cache {u : Universe} {c : CDB} (h : CacheOK u c) (x : Nat) : CacheOK u (c.getLabel x).1 := by
  unfold CDB.getLabel CDB.label?
  split
  · exact h
  · refine ⟨by simp [h.len], ?_⟩
    intro l b hl
    simp only [List.getD_eq_getElem?_getD] at hl
    by_cases hlt : l < c.empties.length
    · rw [List.getElem?_append_left hlt] at hl
      have := h.ok l b (by rw [List.getD_eq_getElem?_getD]; exact hl)
      rw [this]
      unfold TrulyEmpty
      simp only [List.getD_eq_getElem?_getD]
      rw [List.getElem?_append_left (by rw [← h.len]; exact hlt)]
    · rw [List.getElem?_append_right (by omega)] at hl
      cases hh : l - c.empties.length with
      | zero => rw [hh] at hl; simp at hl
      | succ n => rw [hh] at hl; simp at hl

def allStrats (u : Universe) : List Nat := u.initial ++ u.inferral ++ u.expansion.flatten ++ u.ver ++ u.sym

/-- the event is what a strategy of the pack produces: the labels are those of the rule's parent and children -/
def Genuine (u : Universe) (c : CDB) (e : Event) : Prop :=
  ∃ σ x r, σ ∈ allStrats u ∧ r ∈ u.apply σ x ∧ lab c e.start r.parent ∧ Labs c e.ends r.children ∧
    e.isVer = r.isVer ∧ e.twoWay = r.twoWay

theorem Genuine.ext {u : Universe} {c c' : CDB} {e : Event} (h : Genuine u c e) (he : Ext c c') : Genuine u c' e := by
  obtain ⟨σ, x, r, h1, h2, h3, h4, h5, h6⟩ := h
  exact ⟨σ, x, r, h1, h2, h3.ext he, Labs.ext he h4, h5, h6⟩

/-- the rule `r` (of strategy `σ` applied to class `x`) labelled `start -> ends` in the class database of `s` -/
structure ArgsOK (u : Universe) (c : CDB) (start : Nat) (ends : List Nat) (r : RuleOut) : Prop where
  prov : ∃ σ x, σ ∈ allStrats u ∧ r ∈ u.apply σ x
  st : lab c start r.parent
  en : Labs c ends r.children

theorem ArgsOK.ext {u : Universe} {c c' : CDB} {start : Nat} {ends : List Nat} {r : RuleOut} (h : ArgsOK u c start ends r)
    (he : Ext c c') : ArgsOK u c' start ends r := ⟨h.prov, h.st.ext he, Labs.ext he h.en⟩

/-- the stored key of a rule: its start label and the sorted labels of its children, a child left out only if its class is
truly empty and the strategy declared its children possibly empty -/
def KeyClean (u : Universe) (c : CDB) (k : Nat × List Nat) : Prop :=
  ∃ start ends r, ArgsOK u c start ends r ∧
    k = (start, E2.sortNat (ends.filter (fun l => !(r.flags.possiblyEmpty && TrulyEmpty u c l))))

theorem KeyClean.ext {u : Universe} {c c' : CDB} {k : Nat × List Nat} (h : KeyClean u c k) (he : Ext c c') : KeyClean u c' k := by
  obtain ⟨start, ends, r, ha, e⟩ := h
  refine ⟨start, ends, r, ha.ext he, ?_⟩
  rw [e]
  congr 2
  apply List.filter_congr
  intro l hl
  rw [TrulyEmpty.ext he (Labs.lt ha.en l hl)]

structure EI (u : Universe) (s : E2.St) : Prop where
  gen : ∀ e, e ∈ s.log → Genuine u s.cdb e
  ql : QL (E2.packOf u) s.q (fun l => l < s.cdb.classes.length)
  nd : s.cdb.classes.Nodup
  cache : CacheOK u s.cdb
  keys : ∀ k, k ∈ s.rules ++ s.eqv → KeyClean u s.cdb k

theorem EI.ext_q {u : Universe} {s : E2.St} (h : EI u s) (q : Q) (hq : QL (E2.packOf u) q (fun l => l < s.cdb.classes.length)) :
    EI u { s with q := q } := ⟨h.gen, hq, h.nd, h.cache, h.keys⟩

theorem foldl_inv {α β : Type} (f : β → α → β) (I : β → Prop) (l : List α) (b : β) (hb : I b)
    (hf : ∀ b a, a ∈ l → I b → I (f b a)) : I (l.foldl f b) := by
  induction l generalizing b with
  | nil => exact hb
  | cons x xs ih =>
    rw [List.foldl_cons]
    exact ih (f b x) (hf b x List.mem_cons_self hb) (fun b a ha hI => hf b a (List.mem_cons_of_mem _ ha) hI)

def cleanStep (u : Universe) (r : RuleOut) (acc : E2.St × List Nat) (l : Nat) : E2.St × List Nat :=
  if r.flags.possiblyEmpty then
    if (acc.1.cdb.isEmpty u l).2 then
      (({ acc.1 with cdb := (acc.1.cdb.isEmpty u l).1, q := acc.1.q.setStop l } : E2.St), acc.2)
    else (({ acc.1 with cdb := (acc.1.cdb.isEmpty u l).1 } : E2.St), acc.2 ++ [l])
  else (acc.1, acc.2 ++ [l])

/-- the last part of `RuleDBBase.add`: verified flag, then the key goes to the equivalence rules or to the rules -/
def dbFinal2 (s : E2.St) (start : Nat) (ends : List Nat) (r : RuleOut) : E2.St :=
  match ends with
  | [e] =>
    if r.twoWay then
      { s with eq := s.eq.addTwoWay start e,
               eqv := if s.eqv.contains (start, [e]) then s.eqv else s.eqv ++ [(start, [e])],
               rules := s.rules.filter (fun k => k != (start, [e]) && k != (e, [start])) }
    else { s with eq := s.eq.addOneWay start e, rules := if s.rules.contains (start, [e]) then s.rules else s.rules ++ [(start, [e])] }
  | _ => { s with rules := if s.rules.contains (start, ends) then s.rules else s.rules ++ [(start, ends)] }

def dbFinal (s : E2.St) (start : Nat) (ends : List Nat) (r : RuleOut) : E2.St :=
  dbFinal2 (if r.isVer then { s with eq := s.eq.setVerified start } else s) start ends r

theorem dbAdd_eq (u : Universe) (s : E2.St) (start : Nat) (ends : List Nat) (r : RuleOut) :
    E2.dbAdd u s start ends r =
      dbFinal (ends.foldl (cleanStep u r) (({ s with log := s.log ++ [⟨start, ends, r.isVer, r.twoWay⟩] } : E2.St), [])).1 start
        (E2.sortNat (ends.foldl (cleanStep u r) (({ s with log := s.log ++ [⟨start, ends, r.isVer, r.twoWay⟩] } : E2.St), [])).2) r := by
  unfold E2.dbAdd dbFinal dbFinal2
  rfl

theorem cleanFold_spec (u : Universe) (r : RuleOut) (p : Pack) (P : Nat → Prop) : ∀ (ends : List Nat) (acc : E2.St × List Nat),
    CacheOK u acc.1.cdb → QL p acc.1.q P →
    (ends.foldl (cleanStep u r) acc).2 = acc.2 ++ ends.filter (fun l => !(r.flags.possiblyEmpty && TrulyEmpty u acc.1.cdb l)) ∧
    CacheOK u (ends.foldl (cleanStep u r) acc).1.cdb ∧ QL p (ends.foldl (cleanStep u r) acc).1.q P ∧
    (ends.foldl (cleanStep u r) acc).1.cdb.classes = acc.1.cdb.classes ∧
    (ends.foldl (cleanStep u r) acc).1.rules = acc.1.rules ∧ (ends.foldl (cleanStep u r) acc).1.eqv = acc.1.eqv ∧
    (ends.foldl (cleanStep u r) acc).1.log = acc.1.log := by
  intro ends
  induction ends with
  | nil => intro acc hc hq; simp [hc, hq]
  | cons l ls ih =>
    intro acc hc hq
    rw [List.foldl_cons]
    obtain ⟨t1, t2⟩ := isEmpty_truth hc l
    have hcls : (acc.1.cdb.isEmpty u l).1.classes = acc.1.cdb.classes := isEmpty_classes u acc.1.cdb l
    have hte : ∀ c' : CDB, c'.classes = acc.1.cdb.classes → ∀ l', TrulyEmpty u c' l' = TrulyEmpty u acc.1.cdb l' := by
      intro c' e l'; unfold TrulyEmpty; rw [e]
    by_cases hp : r.flags.possiblyEmpty = true
    · by_cases hb : (acc.1.cdb.isEmpty u l).2 = true
      · have hstep : cleanStep u r acc l =
            (({ acc.1 with cdb := (acc.1.cdb.isEmpty u l).1, q := acc.1.q.setStop l } : E2.St), acc.2) := by
          unfold cleanStep; simp [hp, hb]
        rw [hstep]
        obtain ⟨a1, a2, a3, a4, a5, a6, a7⟩ := ih (({ acc.1 with cdb := (acc.1.cdb.isEmpty u l).1, q := acc.1.q.setStop l } : E2.St), acc.2) t2 (hq.setStop l)
        refine ⟨?_, a2, a3, by rw [a4]; exact hcls, a5, a6, a7⟩
        rw [a1, List.filter_cons]
        have : (!(r.flags.possiblyEmpty && TrulyEmpty u acc.1.cdb l)) = false := by rw [← t1, hp, hb]; rfl
        simp only [this, Bool.false_eq_true, ↓reduceIte]
        congr 1
        apply List.filter_congr
        intro l' _
        rw [hte _ hcls]
      · have hstep : cleanStep u r acc l = (({ acc.1 with cdb := (acc.1.cdb.isEmpty u l).1 } : E2.St), acc.2 ++ [l]) := by
          unfold cleanStep; simp [hp, hb]
        rw [hstep]
        obtain ⟨a1, a2, a3, a4, a5, a6, a7⟩ := ih (({ acc.1 with cdb := (acc.1.cdb.isEmpty u l).1 } : E2.St), acc.2 ++ [l]) t2 hq
        refine ⟨?_, a2, a3, by rw [a4]; exact hcls, a5, a6, a7⟩
        rw [a1, List.filter_cons]
        have hb' : (acc.1.cdb.isEmpty u l).2 = false := by simpa using hb
        have : (!(r.flags.possiblyEmpty && TrulyEmpty u acc.1.cdb l)) = true := by rw [← t1, hp, hb']; rfl
        simp only [this, ↓reduceIte, List.append_assoc, List.singleton_append]
        congr 2
        apply List.filter_congr
        intro l' _
        rw [hte _ hcls]
    · have hp' : r.flags.possiblyEmpty = false := by simpa using hp
      have hstep : cleanStep u r acc l = (acc.1, acc.2 ++ [l]) := by unfold cleanStep; simp [hp']
      rw [hstep]
      obtain ⟨a1, a2, a3, a4, a5, a6, a7⟩ := ih (acc.1, acc.2 ++ [l]) hc hq
      refine ⟨?_, a2, a3, a4, a5, a6, a7⟩
      rw [a1, List.filter_cons]
      simp [hp']

theorem dbFinal2_frame (s : E2.St) (start : Nat) (ends : List Nat) (r : RuleOut) :
    (dbFinal2 s start ends r).log = s.log ∧ (dbFinal2 s start ends r).cdb = s.cdb ∧ (dbFinal2 s start ends r).q = s.q ∧
    ∀ k, k ∈ (dbFinal2 s start ends r).rules ++ (dbFinal2 s start ends r).eqv → k ∈ s.rules ++ s.eqv ∨ k = (start, ends) := by
  unfold dbFinal2
  split
  · split
    · refine ⟨rfl, rfl, rfl, ?_⟩
      intro k hk
      simp only [List.mem_append] at hk ⊢
      rcases hk with e | e
      · exact Or.inl (Or.inl (List.mem_filter.1 e).1)
      · split at e
        · exact Or.inl (Or.inr e)
        · rcases List.mem_append.1 e with e | e
          · exact Or.inl (Or.inr e)
          · simp only [List.mem_singleton] at e; exact Or.inr e
    · refine ⟨rfl, rfl, rfl, ?_⟩
      intro k hk
      simp only [List.mem_append] at hk ⊢
      rcases hk with e | e
      · split at e
        · exact Or.inl (Or.inl e)
        · rcases List.mem_append.1 e with e | e
          · exact Or.inl (Or.inl e)
          · simp only [List.mem_singleton] at e; exact Or.inr e
      · exact Or.inl (Or.inr e)
  · refine ⟨rfl, rfl, rfl, ?_⟩
    intro k hk
    simp only [List.mem_append] at hk ⊢
    rcases hk with e | e
    · split at e
      · exact Or.inl (Or.inl e)
      · rcases List.mem_append.1 e with e | e
        · exact Or.inl (Or.inl e)
        · simp only [List.mem_singleton] at e; exact Or.inr e
    · exact Or.inl (Or.inr e)

theorem dbFinal_frame (s : E2.St) (start : Nat) (ends : List Nat) (r : RuleOut) :
    (dbFinal s start ends r).log = s.log ∧ (dbFinal s start ends r).cdb = s.cdb ∧ (dbFinal s start ends r).q = s.q ∧
    ∀ k, k ∈ (dbFinal s start ends r).rules ++ (dbFinal s start ends r).eqv → k ∈ s.rules ++ s.eqv ∨ k = (start, ends) := by
  unfold dbFinal
  obtain ⟨a, b, c, d⟩ := dbFinal2_frame (if r.isVer then { s with eq := s.eq.setVerified start } else s) start ends r
  have e1 : (if r.isVer then ({ s with eq := s.eq.setVerified start } : E2.St) else s).log = s.log := by split <;> rfl
  have e2 : (if r.isVer then ({ s with eq := s.eq.setVerified start } : E2.St) else s).cdb = s.cdb := by split <;> rfl
  have e3 : (if r.isVer then ({ s with eq := s.eq.setVerified start } : E2.St) else s).q = s.q := by split <;> rfl
  have e4 : (if r.isVer then ({ s with eq := s.eq.setVerified start } : E2.St) else s).rules = s.rules := by split <;> rfl
  have e5 : (if r.isVer then ({ s with eq := s.eq.setVerified start } : E2.St) else s).eqv = s.eqv := by split <;> rfl
  refine ⟨by rw [a, e1], by rw [b, e2], by rw [c, e3], ?_⟩
  intro k hk
  have := d k hk
  rw [e4, e5] at this
  exact this

/-- what `dbAdd` does to the parts of the state the invariants talk about -/
theorem dbAdd_frame (u : Universe) (s : E2.St) (start : Nat) (ends : List Nat) (r : RuleOut) (p : Pack) (P : Nat → Prop)
    (hq : QL p s.q P) (hc : CacheOK u s.cdb) :
    (E2.dbAdd u s start ends r).log = s.log ++ [⟨start, ends, r.isVer, r.twoWay⟩] ∧
    (E2.dbAdd u s start ends r).cdb.classes = s.cdb.classes ∧ QL p (E2.dbAdd u s start ends r).q P ∧
    CacheOK u (E2.dbAdd u s start ends r).cdb ∧
    ∀ k, k ∈ (E2.dbAdd u s start ends r).rules ++ (E2.dbAdd u s start ends r).eqv → k ∈ s.rules ++ s.eqv ∨
      k = (start, E2.sortNat (ends.filter (fun l => !(r.flags.possiblyEmpty && TrulyEmpty u s.cdb l)))) := by
  rw [dbAdd_eq]
  obtain ⟨a1, a2, a3, a4, a5, a6, a7⟩ := cleanFold_spec u r p P ends
    (({ s with log := s.log ++ [⟨start, ends, r.isVer, r.twoWay⟩] } : E2.St), []) hc hq
  generalize ends.foldl (cleanStep u r) (({ s with log := s.log ++ [⟨start, ends, r.isVer, r.twoWay⟩] } : E2.St), []) = res at *
  obtain ⟨b1, b2, b3, b4⟩ := dbFinal_frame res.1 start (E2.sortNat res.2) r
  refine ⟨by rw [b1, a7], by rw [b2, a4], by rw [b3]; exact a3, by rw [b2]; exact a2, ?_⟩
  intro k hk
  rcases b4 k hk with e | e
  · rw [a5, a6] at e; exact Or.inl e
  · right; rw [e, a1]; rfl

/-- invariant and growth relative to a base state -/
def Good (u : Universe) (s0 s : E2.St) : Prop := EI u s ∧ Ext s0.cdb s.cdb

theorem Good.refl {u : Universe} {s : E2.St} (h : EI u s) : Good u s s := ⟨h, Ext.refl _⟩
theorem Good.trans {u : Universe} {s0 s1 s2 : E2.St} (h1 : Good u s0 s1) (h2 : Good u s1 s2) : Good u s0 s2 :=
  ⟨h2.1, h1.2.trans h2.2⟩

theorem Good.of {u : Universe} {s0 s s' : E2.St} (h : Good u s0 s) (hlog : ∀ e, e ∈ s'.log → e ∈ s.log)
    (hc : s'.cdb.classes = s.cdb.classes) (hq : QL (E2.packOf u) s'.q (fun l => l < s.cdb.classes.length))
    (hk : ∀ k, k ∈ s'.rules ++ s'.eqv → k ∈ s.rules ++ s.eqv) (hcache : CacheOK u s'.cdb) : Good u s0 s' := by
  have he : Ext s.cdb s'.cdb := ⟨[], by simp [hc]⟩
  refine ⟨⟨fun e he' => (h.1.gen e (hlog e he')).ext he, ?_, by rw [hc]; exact h.1.nd, hcache,
    fun k hk' => (h.1.keys k (hk k hk')).ext he⟩, h.2.trans he⟩
  rw [hc]; exact hq

theorem Good.congr {u : Universe} {s0 s s' : E2.St} (h : Good u s0 s) (hlog : s'.log = s.log) (hc : s'.cdb = s.cdb)
    (hq : s'.q = s.q) (hr : s'.rules = s.rules) (hv : s'.eqv = s.eqv) : Good u s0 s' :=
  h.of (by rw [hlog]; exact fun _ x => x) (by rw [hc]) (by rw [hq]; exact h.1.ql) (by rw [hr, hv]; exact fun _ x => x)
    (by rw [hc]; exact h.1.cache)

theorem Good.setEmpty {u : Universe} {s0 s : E2.St} (h : Good u s0 s) (l : Nat) (b : Bool)
    (hb : l < s.cdb.classes.length → b = TrulyEmpty u s.cdb l) :
    Good u s0 { s with cdb := s.cdb.setEmpty l b } :=
  h.of (fun _ x => x) (by simp [CDB.setEmpty]) h.1.ql (fun _ x => x) (setEmpty_cache h.1.cache l b hb)

theorem Good.isEmptyCdb {u : Universe} {s0 s : E2.St} (h : Good u s0 s) (l : Nat) :
    Good u s0 { s with cdb := (s.cdb.isEmpty u l).1 } :=
  h.of (fun _ x => x) (isEmpty_classes u s.cdb l) h.1.ql (fun _ x => x) (isEmpty_truth h.1.cache l).2

theorem Good.withQ {u : Universe} {s0 s : E2.St} (h : Good u s0 s) (q : Q) (hq : QL (E2.packOf u) q (fun l => l < s.cdb.classes.length)) :
    Good u s0 { s with q := q } :=
  h.of (fun _ x => x) rfl hq (fun _ x => x) h.1.cache

theorem Good.dbAdd {u : Universe} {s0 s : E2.St} (h : Good u s0 s) {start : Nat} {ends : List Nat} {r : RuleOut}
    (ha : ArgsOK u s.cdb start ends r) : Good u s0 (E2.dbAdd u s start ends r) := by
  obtain ⟨h1, h2, h3, h4, h5⟩ := dbAdd_frame u s start ends r _ _ h.1.ql h.1.cache
  have he : Ext s.cdb (E2.dbAdd u s start ends r).cdb := ⟨[], by simp [h2]⟩
  refine ⟨⟨?_, by rw [h2]; exact h3, by rw [h2]; exact h.1.nd, h4, ?_⟩, h.2.trans he⟩
  · intro e hm
    rw [h1] at hm
    rcases List.mem_append.1 hm with e1 | e1
    · exact (h.1.gen e e1).ext he
    · simp only [List.mem_singleton] at e1
      subst e1
      obtain ⟨σ, x, p1, p2⟩ := ha.prov
      exact ⟨σ, x, r, p1, p2, ha.st.ext he, Labs.ext he ha.en, rfl, rfl⟩
  · intro k hk
    rcases h5 k hk with e | e
    · exact (h.1.keys k e).ext he
    · exact KeyClean.ext ⟨start, ends, r, ha, e⟩ he

theorem labelFold (cs : List Nat) : ∀ (c0 : CDB) (ls xs : List Nat), Labs c0 ls xs →
    Ext c0 (cs.foldl (fun (acc : CDB × List Nat) c => ((acc.1.getLabel c).1, acc.2 ++ [(acc.1.getLabel c).2])) (c0, ls)).1 ∧
    Labs (cs.foldl (fun (acc : CDB × List Nat) c => ((acc.1.getLabel c).1, acc.2 ++ [(acc.1.getLabel c).2])) (c0, ls)).1
         (cs.foldl (fun (acc : CDB × List Nat) c => ((acc.1.getLabel c).1, acc.2 ++ [(acc.1.getLabel c).2])) (c0, ls)).2 (xs ++ cs) := by
  induction cs with
  | nil => intro c0 ls xs h; simpa using ⟨Ext.refl c0, h⟩
  | cons c cs ih =>
    intro c0 ls xs h
    rw [List.foldl_cons]
    obtain ⟨e1, l1⟩ := getLabel_spec c0 c
    obtain ⟨a, b⟩ := ih (c0.getLabel c).1 (ls ++ [(c0.getLabel c).2]) (xs ++ [c]) ((Labs.ext e1 h).snoc l1)
    refine ⟨e1.trans a, ?_⟩
    simpa using b

theorem labelFold_nodup (cs : List Nat) : ∀ (c0 : CDB) (ls : List Nat), c0.classes.Nodup →
    (cs.foldl (fun (acc : CDB × List Nat) c => ((acc.1.getLabel c).1, acc.2 ++ [(acc.1.getLabel c).2])) (c0, ls)).1.classes.Nodup := by
  induction cs with
  | nil => intro c0 ls h; exact h
  | cons c cs ih =>
    intro c0 ls h
    rw [List.foldl_cons]
    exact ih _ _ (getLabel_nodup c0 c h)

theorem labelFold_cache {u : Universe} (cs : List Nat) : ∀ (c0 : CDB) (ls : List Nat), CacheOK u c0 →
    CacheOK u (cs.foldl (fun (acc : CDB × List Nat) c => ((acc.1.getLabel c).1, acc.2 ++ [(acc.1.getLabel c).2])) (c0, ls)).1 := by
  induction cs with
  | nil => intro c0 ls h; exact h
  | cons c cs ih =>
    intro c0 ls h
    rw [List.foldl_cons]
    exact ih _ _ (getLabel_cache h c)

theorem labelRule_spec (s : E2.St) (x lbl : Nat) (r : RuleOut) (s' : E2.St) (start : Nat) (ends : List Nat)
    (h : E2.labelRule s x lbl r = some (s', start, ends)) (hx : lab s.cdb lbl x) :
    Ext s.cdb s'.cdb ∧ lab s'.cdb start r.parent ∧ Labs s'.cdb ends r.children ∧ s'.log = s.log ∧ s'.q = s.q ∧
    (s.cdb.classes.Nodup → s'.cdb.classes.Nodup) ∧ s'.rules = s.rules ∧ s'.eqv = s.eqv ∧
    (∀ u : Universe, CacheOK u s.cdb → CacheOK u s'.cdb) := by
  unfold E2.labelRule at h
  split at h
  · cases h
  · simp only [Option.some.injEq, Prod.mk.injEq] at h
    obtain ⟨a, b⟩ := labelFold r.children s.cdb [] [] .nil
    have nd := labelFold_nodup r.children s.cdb []
    have ca := fun u : Universe => labelFold_cache (u := u) r.children s.cdb []
    simp only [List.nil_append] at b
    generalize List.foldl _ (s.cdb, []) r.children = res at a b h nd ca
    obtain ⟨c1, es⟩ := res
    simp only at a b h nd ca
    by_cases hp : (r.parent == x) = true
    · simp only [hp, ↓reduceIte] at h
      obtain ⟨h1, h2, h3⟩ := h
      subst h1; subst h2; subst h3
      have : r.parent = x := by simpa using hp
      refine ⟨a, ?_, b, rfl, rfl, nd, rfl, rfl, ca⟩
      rw [this]; exact hx.ext a
    · simp only [hp] at h
      obtain ⟨h1, h2, h3⟩ := h
      subst h1; subst h2; subst h3
      obtain ⟨e1, l1⟩ := getLabel_spec c1 r.parent
      exact ⟨a.trans e1, l1, Labs.ext e1 b, rfl, rfl, fun h0 => getLabel_nodup c1 r.parent (nd h0), rfl, rfl,
        fun u h0 => getLabel_cache (ca u h0) r.parent⟩

theorem Labs.zip_mem {c : CDB} : ∀ {ls xs : List Nat}, Labs c ls xs → ∀ p, p ∈ xs.zip ls → lab c p.2 p.1
  | _, _, .nil, p, hp => by simp at hp
  | _, _, .cons h t, p, hp => by
    simp only [List.zip_cons_cons, List.mem_cons] at hp
    rcases hp with e | e
    · rw [e]; exact h
    · exact Labs.zip_mem t p e

/-- symmetry and inferral strategies produce rules with exactly one child (the searcher indexes `children[0]`) -/
structure WFU (u : Universe) : Prop where
  sym : ∀ σ, σ ∈ u.sym → ∀ x r, r ∈ u.apply σ x → r.children.length = 1
  /-- an inferral rule has a first child (the searcher carries on with `children[0]`); it may have more -/
  inf : ∀ σ, σ ∈ u.inferral → ∀ x r, r ∈ u.apply σ x → 0 < r.children.length
  /-- the strategy contract on emptiness: children not declared possibly empty are not empty -/
  ne : ∀ σ x r, r ∈ u.apply σ x → r.flags.possiblyEmpty = false → ∀ c, c ∈ r.children → u.empty.getD c false = false
  /-- a class and its symmetric images are empty together -/
  symE : ∀ σ, σ ∈ u.sym → ∀ x r, r ∈ u.apply σ x → ∀ c, c ∈ r.children → u.empty.getD c false = u.empty.getD x false

theorem mem_all_ver {u : Universe} {σ : Nat} (h : σ ∈ u.ver) : σ ∈ allStrats u := by
  unfold allStrats; simp [h]
theorem mem_all_sym {u : Universe} {σ : Nat} (h : σ ∈ u.sym) : σ ∈ allStrats u := by
  unfold allStrats; simp [h]
theorem mem_all_inf {u : Universe} {σ : Nat} (h : σ ∈ u.inferral) : σ ∈ allStrats u := by
  unfold allStrats; simp [h]

theorem Good.grow {u : Universe} {s0 s s' : E2.St} (h : Good u s0 s) (hlog : s'.log = s.log) (he : Ext s.cdb s'.cdb)
    (hq : s'.q = s.q) (hnd : s'.cdb.classes.Nodup) (hr : s'.rules = s.rules) (hv : s'.eqv = s.eqv)
    (hcache : CacheOK u s'.cdb) : Good u s0 s' := by
  refine ⟨⟨?_, ?_, hnd, hcache, fun k hk => (h.1.keys k (by rw [hr, hv] at hk; exact hk)).ext he⟩, h.2.trans he⟩
  · intro e hm; rw [hlog] at hm; exact (h.1.gen e hm).ext he
  · rw [hq]; exact h.1.ql.mono (fun l hl => Nat.lt_of_lt_of_le hl he.len)

/-- applying the rules of one strategy to a labelled class, each through `addRule` -/
theorem applyFold_good {u : Universe} (fuel : Nat)
    (hadd : ∀ s start ends r, EI u s → ArgsOK u s.cdb start ends r → Good u s (E2.addRule u fuel s start ends r))
    (σ x l : Nat) (hσ : σ ∈ allStrats u) (s0 s : E2.St) (h : Good u s0 s) (hl : lab s.cdb l x) :
    Good u s0 ((u.apply σ x).foldl (fun s r =>
          match E2.labelRule s x l r with
          | none => s
          | some (s, start, ends) => E2.addRule u fuel s start ends r) s) ∧
    lab ((u.apply σ x).foldl (fun s r =>
          match E2.labelRule s x l r with
          | none => s
          | some (s, start, ends) => E2.addRule u fuel s start ends r) s).cdb l x := by
  refine foldl_inv _ (fun s' => Good u s0 s' ∧ lab s'.cdb l x) _ _ ⟨h, hl⟩ ?_
  intro b r hr ⟨hb, hlb⟩
  split
  · exact ⟨hb, hlb⟩
  · rename_i s1 start ends hlr
    obtain ⟨e1, l1, l2, l3, l4, l5, l6, l7, l8⟩ := labelRule_spec b x l r s1 start ends hlr hlb
    have hb1 : Good u s0 s1 := hb.grow l3 e1 l4 (l5 hb.1.nd) l6 l7 (l8 u hb.1.cache)
    have hg := hadd s1 start ends r hb1.1 ⟨⟨σ, x, hσ, hr⟩, l1, l2⟩
    exact ⟨hb1.trans hg, hlb.ext (e1.trans hg.2)⟩

def st1 (r : RuleOut) (s : E2.St) (l : Nat) : E2.St :=
  if !r.flags.possiblyEmpty then { s with cdb := s.cdb.setEmpty l false } else s
def st2 (u : Universe) (fuel : Nat) (s : E2.St) (c l : Nat) : E2.St :=
  if !u.sym.isEmpty && !s.symExp.contains l then E2.symExpand u fuel s c l else s
def st3 (u : Universe) (r : RuleOut) (s : E2.St) (l : Nat) : E2.St :=
  if r.flags.workable then { s with q := s.q.add (E2.packOf u) l } else s
def st4 (r : RuleOut) (s : E2.St) (l : Nat) : E2.St :=
  if !r.flags.inferrable then { s with q := s.q.setNotInferrable l } else s
def childStep (u : Universe) (fuel : Nat) (r : RuleOut) (s : E2.St) (c l : Nat) : E2.St :=
  E2.tryVerify u fuel (st4 r (st3 u r (st2 u fuel (st1 r s l) c l) l) l) c l

theorem addRule_succ (u : Universe) (fuel : Nat) (s : E2.St) (start : Nat) (ends : List Nat) (r : RuleOut) :
    E2.addRule u (fuel + 1) s start ends r =
      E2.dbAdd u
        ((fun s => if r.flags.ignoreParent then { s with q := s.q.setStop start } else s)
          ((r.children.zip ends).foldl (fun s (ce : Nat × Nat) => childStep u fuel r s ce.1 ce.2) s)) start ends r := by
  rw [E2.addRule]
  rfl

theorem lab_truly {u : Universe} {c : CDB} {l x : Nat} (h : lab c l x) : TrulyEmpty u c l = u.empty.getD x false := by
  unfold TrulyEmpty
  unfold lab at h
  rw [List.getD_eq_getElem?_getD, h]; rfl

theorem childStep_good {u : Universe} (fuel : Nat) (r : RuleOut)
    (hT : ∀ s x l, EI u s → lab s.cdb l x → Good u s (E2.tryVerify u fuel s x l))
    (hS : ∀ s x l, EI u s → lab s.cdb l x → Good u s (E2.symExpand u fuel s x l))
    (s0 s : E2.St) (c l : Nat) (h : Good u s0 s) (hl : lab s.cdb l c)
    (hne : r.flags.possiblyEmpty = false → u.empty.getD c false = false) : Good u s0 (childStep u fuel r s c l) := by
  unfold childStep
  have g1 : Good u s0 (st1 r s l) ∧ lab (st1 r s l).cdb l c := by
    unfold st1; split
    · rename_i hpe
      have hpe' : r.flags.possiblyEmpty = false := by simpa using hpe
      exact ⟨h.setEmpty l false (fun _ => by rw [lab_truly hl, hne hpe']), hl.ext ⟨[], by simp [CDB.setEmpty]⟩⟩
    · exact ⟨h, hl⟩
  have g2 : Good u s0 (st2 u fuel (st1 r s l) c l) ∧ lab (st2 u fuel (st1 r s l) c l).cdb l c := by
    unfold st2; split
    · have := hS _ c l g1.1.1 g1.2
      exact ⟨g1.1.trans this, g1.2.ext this.2⟩
    · exact g1
  generalize st2 u fuel (st1 r s l) c l = s2 at g2 ⊢
  have g3 : Good u s0 (st3 u r s2 l) ∧ lab (st3 u r s2 l).cdb l c := by
    unfold st3; split
    · exact ⟨g2.1.withQ _ (g2.1.1.ql.add l g2.2.lt), g2.2⟩
    · exact g2
  generalize st3 u r s2 l = s3 at g3 ⊢
  have g4 : Good u s0 (st4 r s3 l) ∧ lab (st4 r s3 l).cdb l c := by
    unfold st4; split
    · exact ⟨g3.1.withQ _ (g3.1.1.ql.setNotInferrable l), g3.2⟩
    · exact g3
  generalize st4 r s3 l = s4 at g4 ⊢
  exact g4.1.trans (hT s4 c l g4.1.1 g4.2)

def symStep (u : Universe) (b : Bool) (x l : Nat) (acc : E2.St × List Nat) (r : RuleOut) : E2.St × List Nat :=
  match E2.labelRule acc.1 x l r with
  | none => (acc.1, acc.2)
  | some (s, start, ends) =>
    (({ (E2.dbAdd u { s with cdb := s.cdb.setEmpty ends.head! b } start [ends.head!] r) with
        q := (E2.dbAdd u { s with cdb := s.cdb.setEmpty ends.head! b } start [ends.head!] r).q.setStop ends.head! } : E2.St),
     acc.2 ++ [ends.head!])

def symFold (u : Universe) (s : E2.St) (x l : Nat) : E2.St × List Nat :=
  u.sym.foldl (fun acc σ => (u.apply σ x).foldl (symStep u (s.cdb.isEmpty u l).2 x l) acc)
    (({ s with cdb := (s.cdb.isEmpty u l).1 } : E2.St), [l])

theorem symExpand_succ (u : Universe) (fuel : Nat) (s : E2.St) (x l : Nat) :
    E2.symExpand u (fuel + 1) s x l =
      { (symFold u s x l).1 with
        symExp := (symFold u s x l).1.symExp ++ (symFold u s x l).2.filter (fun y => !(symFold u s x l).1.symExp.contains y) } := by
  rw [E2.symExpand]
  rfl

theorem Labs.single {c : CDB} {ends xs : List Nat} (h : Labs c ends xs) (h1 : xs.length = 1) : ends = [ends.head!] := by
  cases h with
  | nil => simp at h1
  | cons a t =>
    cases t with
    | nil => rfl
    | cons _ _ => simp at h1

theorem Labs.head {c : CDB} {ends xs : List Nat} (h : Labs c ends xs) (h1 : 0 < xs.length) : lab c ends.head! xs.head! := by
  cases h with
  | nil => simp at h1
  | cons a t => exact a

theorem symStep_good {u : Universe} (hw : WFU u) (b : Bool) (σ x l : Nat) (hσ : σ ∈ u.sym) (s0 : E2.St)
    (acc : E2.St × List Nat) (r : RuleOut) (hr : r ∈ u.apply σ x) (h : Good u s0 acc.1) (hl : lab acc.1.cdb l x)
    (hb : b = u.empty.getD x false) :
    Good u s0 (symStep u b x l acc r).1 ∧ lab (symStep u b x l acc r).1.cdb l x := by
  unfold symStep
  split
  · exact ⟨h, hl⟩
  · rename_i s1 start ends hlr
    obtain ⟨e1, l1, l2, l3, l4, l5, l6, l7, l8⟩ := labelRule_spec acc.1 x l r s1 start ends hlr hl
    have h1 : Good u s0 s1 := h.grow l3 e1 l4 (l5 h.1.nd) l6 l7 (l8 u h.1.cache)
    have hs := Labs.single l2 (hw.sym σ hσ x r hr)
    have hc1 := Labs.head l2 (by rw [hw.sym σ hσ x r hr]; exact Nat.one_pos)
    have hmem : r.children.head! ∈ r.children := by
      have := hw.sym σ hσ x r hr
      cases hch : r.children with
      | nil => rw [hch] at this; simp at this
      | cons a t => exact List.mem_cons_self
    have h2 := h1.setEmpty ends.head! b (fun _ => by rw [lab_truly hc1, hb, hw.symE σ hσ x r hr _ hmem])
    have he2 : Ext s1.cdb ({ s1 with cdb := s1.cdb.setEmpty ends.head! b } : E2.St).cdb := ⟨[], by simp [CDB.setEmpty]⟩
    have ha : ArgsOK u ({ s1 with cdb := s1.cdb.setEmpty ends.head! b } : E2.St).cdb start [ends.head!] r :=
      ⟨⟨σ, x, mem_all_sym hσ, hr⟩, l1.ext he2, by rw [← hs]; exact Labs.ext he2 l2⟩
    have h3 := h2.dbAdd ha
    have h4 := h3.withQ _ (h3.1.ql.setStop ends.head!)
    exact ⟨h4, hl.ext (e1.trans (he2.trans (Ext.trans (Good.dbAdd (Good.refl h2.1) ha).2 (Ext.refl _))))⟩

theorem engine_mutual {u : Universe} (hw : WFU u) : ∀ fuel : Nat,
    (∀ s start ends r, EI u s → ArgsOK u s.cdb start ends r → Good u s (E2.addRule u fuel s start ends r)) ∧
    (∀ s x l, EI u s → lab s.cdb l x → Good u s (E2.tryVerify u fuel s x l)) ∧
    (∀ s x l, EI u s → lab s.cdb l x → Good u s (E2.symExpand u fuel s x l)) := by
  intro fuel
  induction fuel with
  | zero =>
    refine ⟨?_, ?_, ?_⟩
    · intro s start ends r h _; rw [E2.addRule]; exact Good.refl h
    · intro s x l h _; rw [E2.tryVerify]; exact Good.refl h
    · intro s x l h _; rw [E2.symExpand]; exact Good.refl h
  | succ fuel ih =>
    obtain ⟨hA, hT, hS⟩ := ih
    refine ⟨?_, ?_, ?_⟩
    · intro s start ends r h ha
      rw [addRule_succ]
      have hf : Good u s ((r.children.zip ends).foldl (fun s (ce : Nat × Nat) => childStep u fuel r s ce.1 ce.2) s) := by
        refine foldl_inv _ (fun s' => Good u s s') _ _ (Good.refl h) ?_
        intro b ce hce hb
        obtain ⟨σ0, x0, _, hr0⟩ := ha.prov
        exact childStep_good fuel r hT hS s b ce.1 ce.2 hb ((Labs.zip_mem ha.en ce hce).ext hb.2)
          (fun hpe => hw.ne σ0 x0 r hr0 hpe ce.1 (List.of_mem_zip hce).1)
      generalize (r.children.zip ends).foldl (fun s (ce : Nat × Nat) => childStep u fuel r s ce.1 ce.2) s = s1 at hf
      have hg : Good u s ((fun s => if r.flags.ignoreParent then { s with q := s.q.setStop start } else s) s1) := by
        simp only
        split
        · exact hf.withQ _ (hf.1.ql.setStop start)
        · exact hf
      generalize (fun s => if r.flags.ignoreParent then { s with q := s.q.setStop start } else s) s1 = s2 at hg
      exact hg.dbAdd (ha.ext hg.2)
    · intro s x l h hl
      rw [E2.tryVerify]
      split
      · exact Good.refl h
      · simp only
        have g0 : ∀ s1 : E2.St, s1.log = s.log → s1.cdb = (CDB.isEmpty u s.cdb l).fst → s1.q = s.q → s1.rules = s.rules →
            s1.eqv = s.eqv → Good u s s1 ∧ lab s1.cdb l x := by
          intro s1 e1 e2 e3 e4 e5
          have g : Good u s s1 := (Good.refl h).of (by rw [e1]; exact fun _ x => x) (by rw [e2]; exact isEmpty_classes u s.cdb l)
            (by rw [e3]; exact h.ql) (by rw [e4, e5]; exact fun _ x => x) (by rw [e2]; exact (isEmpty_truth h.cache l).2)
          exact ⟨g, hl.ext g.2⟩
        split
        · refine (g0 _ ?_ ?_ ?_ ?_ ?_).1 <;> rfl
        · refine (foldl_inv _ (fun s' => Good u s s' ∧ lab s'.cdb l x) _ _ (g0 _ ?_ ?_ ?_ ?_ ?_) ?_).1
          · rfl
          · rfl
          · rfl
          · rfl
          · rfl
          intro b σ hσ ⟨hb, hlb⟩
          split
          · exact ⟨hb, hlb⟩
          · exact applyFold_good fuel hA σ x l (mem_all_ver hσ) s b hb hlb
    · intro s x l h hl
      rw [symExpand_succ]
      have hf : Good u s (symFold u s x l).1 ∧ lab (symFold u s x l).1.cdb l x := by
        unfold symFold
        have g0 : Good u s ({ s with cdb := (s.cdb.isEmpty u l).1 } : E2.St) := (Good.refl h).isEmptyCdb l
        refine foldl_inv _ (fun (acc : E2.St × List Nat) => Good u s acc.1 ∧ lab acc.1.cdb l x) _ _ ⟨g0, hl.ext g0.2⟩ ?_
        intro acc σ hσ hacc
        refine foldl_inv _ (fun (acc : E2.St × List Nat) => Good u s acc.1 ∧ lab acc.1.cdb l x) _ _ hacc ?_
        intro acc2 r hr ⟨a1, a2⟩
        exact symStep_good hw _ σ x l hσ s acc2 r hr a1 a2 (by rw [(isEmpty_truth h.cache l).1, lab_truly hl])
      exact hf.1.congr rfl rfl rfl rfl rfl

theorem firstInf_spec (u : Universe) (s : E2.St) (x l : Nat) (skip : Option Nat) :
    ∀ (strats : List Nat) (i i' σ : Nat) (r : RuleOut) (s' : E2.St) (start : Nat) (ends : List Nat),
      E2.firstInf u s x l skip i strats = some (i', σ, r, s', start, ends) →
      σ ∈ strats ∧ r ∈ u.apply σ x ∧ E2.labelRule s x l r = some (s', start, ends) := by
  intro strats
  induction strats with
  | nil => intro i i' σ r s' start ends h; simp [E2.firstInf] at h
  | cons τ rest ih =>
    intro i i' σ r s' start ends h
    unfold E2.firstInf at h
    split at h
    · obtain ⟨a, b, c⟩ := ih _ _ _ _ _ _ _ h
      exact ⟨List.mem_cons_of_mem _ a, b, c⟩
    · split at h
      · obtain ⟨a, b, c⟩ := ih _ _ _ _ _ _ _ h
        exact ⟨List.mem_cons_of_mem _ a, b, c⟩
      · rename_i r0 s0 st0 en0 tl hfm
        simp only [Option.some.injEq, Prod.mk.injEq] at h
        obtain ⟨_, h2, h3, h4, h5, h6⟩ := h
        subst h2; subst h3; subst h4; subst h5; subst h6
        have hm : (r0, (s0, st0, en0)) ∈ (u.apply τ x).filterMap (fun r => (E2.labelRule s x l r).map (fun t => (r, t))) := by
          rw [hfm]; exact List.mem_cons_self
        obtain ⟨r1, hr1, e⟩ := List.mem_filterMap.1 hm
        obtain ⟨t, ht, e2⟩ := Option.map_eq_some_iff.1 e
        simp only [Prod.mk.injEq] at e2
        obtain ⟨e3, e4⟩ := e2
        subst e3; subst e4
        exact ⟨List.mem_cons_self, hr1, ht⟩

def infBody (u : Universe) (fuel : Nat) (sa : E2.St) (x l : Nat) (strats : List Nat) (skip : Option Nat) : E2.St :=
  match E2.firstInf u sa x l skip 0 strats with
  | none => sa
  | some (i, σ, r, s1, start, ends) =>
    E2.infExpand u fuel ({ (E2.addRule u fuel s1 start ends r) with q := (E2.addRule u fuel s1 start ends r).q.setNotInferrable start } : E2.St)
      r.children.head! ends.head! (strats.drop (i+1) ++ strats.take (i+1)) (some σ)

theorem infExpand_succ (u : Universe) (fuel : Nat) (s : E2.St) (x l : Nat) (strats : List Nat) (skip : Option Nat) :
    E2.infExpand u (fuel + 1) s x l strats skip =
      if s.infExp.contains l then s else
      { (infBody u fuel { s with infExp := l :: s.infExp } x l strats skip) with
        q := (infBody u fuel { s with infExp := l :: s.infExp } x l strats skip).q.setNotInferrable l } := by
  rw [E2.infExpand]
  rfl

theorem infExpand_good {u : Universe} (hw : WFU u) : ∀ (fuel : Nat) (s : E2.St) (x l : Nat) (strats : List Nat) (skip : Option Nat),
    (∀ σ, σ ∈ strats → σ ∈ u.inferral) → EI u s → lab s.cdb l x → Good u s (E2.infExpand u fuel s x l strats skip) := by
  intro fuel
  induction fuel with
  | zero => intro s x l strats skip _ h _; rw [E2.infExpand]; exact Good.refl h
  | succ fuel ih =>
    intro s x l strats skip hst h hl
    rw [infExpand_succ]
    split
    · exact Good.refl h
    · have g0 : Good u s ({ s with infExp := l :: s.infExp } : E2.St) := (Good.refl h).congr rfl rfl rfl rfl rfl
      generalize ({ s with infExp := l :: s.infExp } : E2.St) = sa at g0 ⊢
      have hla : lab sa.cdb l x := hl.ext g0.2
      have gm : Good u s (infBody u fuel sa x l strats skip) := by
        unfold infBody
        split
        · exact g0
        · rename_i i σ r s1 start ends hfi
          obtain ⟨m1, m2, m3⟩ := firstInf_spec u sa x l skip strats 0 i σ r s1 start ends hfi
          obtain ⟨e1, l1, l2, l3, l4, l5, l6, l7, l8⟩ := labelRule_spec sa x l r s1 start ends m3 hla
          have h1 : Good u s s1 := g0.grow l3 e1 l4 (l5 g0.1.nd) l6 l7 (l8 u g0.1.cache)
          have hadd := (engine_mutual hw fuel).1 s1 start ends r h1.1 ⟨⟨σ, x, mem_all_inf (hst σ m1), m2⟩, l1, l2⟩
          have h2 := h1.trans hadd
          have h3 := h2.withQ _ (h2.1.ql.setNotInferrable start)
          have hc := Labs.head (Labs.ext hadd.2 l2) (hw.inf σ (hst σ m1) x r m2)
          have hrec := ih _ r.children.head! ends.head! (strats.drop (i+1) ++ strats.take (i+1)) (some σ)
            (by
              intro τ hτ
              rcases List.mem_append.1 hτ with e | e
              · exact hst τ (List.mem_of_mem_drop e)
              · exact hst τ (List.mem_of_mem_take e)) h3.1 hc
          exact h3.trans hrec
      exact gm.withQ _ (gm.1.ql.setNotInferrable l)

theorem getD_mem' {l : List Nat} {i d : Nat} (h : i < l.length) : l.getD i d ∈ l := by
  induction l generalizing i with
  | nil => simp at h
  | cons x xs ih =>
    cases i with
    | zero => simp
    | succ i => simp only [List.getD_cons_succ]; exact List.mem_cons_of_mem _ (ih (by simpa using h))

theorem stratsOf_mem {u : Universe} {w : Work} (hw : WorkOK (E2.packOf u) w) (hne : w ≠ .inferral) :
    ∀ σ, σ ∈ E2.stratsOf u w → σ ∈ allStrats u := by
  intro σ hσ
  cases w with
  | inferral => exact absurd rfl hne
  | initial i =>
    simp only [E2.stratsOf, List.mem_singleton] at hσ
    have : i < u.initial.length := hw
    unfold allStrats
    rw [hσ]
    have := getD_mem' (d := 0) this
    exact List.mem_append_left _ (List.mem_append_left _ (List.mem_append_left _ (List.mem_append_left _ this)))
  | expansion j i =>
    simp only [E2.stratsOf, List.mem_singleton] at hσ
    obtain ⟨h1, h2⟩ := hw
    simp only [E2.packOf, List.length_map] at h1 h2
    have hj : (u.expansion.map List.length).getD j 0 = (u.expansion.getD j []).length := by
      simp [List.getD_eq_getElem?_getD, h1]
    rw [hj] at h2
    have m1 : u.expansion.getD j [] ∈ u.expansion := by
      have : u.expansion.getD j [] = u.expansion[j] := by simp [List.getD_eq_getElem?_getD, h1]
      rw [this]; exact List.getElem_mem h1
    have m2 := getD_mem' (d := 0) h2
    unfold allStrats
    rw [hσ]
    have : (u.expansion.getD j []).getD i 0 ∈ u.expansion.flatten := List.mem_flatten.2 ⟨_, m1, m2⟩
    exact List.mem_append_left _ (List.mem_append_left _ (List.mem_append_right _ this))

def expandFold (u : Universe) (fuel : Nat) (s : E2.St) (x l : Nat) (strats : List Nat) : E2.St :=
  strats.foldl (fun s σ =>
    (u.apply σ x).foldl (fun s r =>
      match E2.labelRule s x l r with
      | none => s
      | some (s, start, ends) => E2.addRule u fuel s start ends r) s) s

theorem expandFold_good {u : Universe} (hw : WFU u) (fuel : Nat) (s : E2.St) (x l : Nat) (strats : List Nat)
    (hs : ∀ σ, σ ∈ strats → σ ∈ allStrats u) (h : EI u s) (hl : lab s.cdb l x) : Good u s (expandFold u fuel s x l strats) := by
  unfold expandFold
  refine (foldl_inv _ (fun s' => Good u s s' ∧ lab s'.cdb l x) _ _ ⟨Good.refl h, hl⟩ ?_).1
  intro b σ hσ ⟨hb, hlb⟩
  exact applyFold_good fuel (engine_mutual hw fuel).1 σ x l (hs σ hσ) s b hb hlb

theorem stepEngine_eq (u : Universe) (fuel : Nat) (s : E2.St) :
    (E2.stepEngine u fuel s).1 =
      match Q.next (E2.packOf u) 100000 s.q with
      | (q, .yield w) =>
        if u.expandVerified || !s.eq.uf.isVerified w.label then
          match w.work with
          | .inferral => E2.infExpand u fuel { s with q := q } (s.cdb.classes.getD w.label 0) w.label u.inferral none
          | _ => expandFold u fuel { s with q := q } (s.cdb.classes.getD w.label 0) w.label (E2.stratsOf u w.work)
        else { s with q := q }
      | (q, _) => { s with q := q } := by
  unfold E2.stepEngine expandFold
  generalize Q.next (E2.packOf u) 100000 s.q = res
  obtain ⟨q, o⟩ := res
  cases o with
  | yield w =>
    simp only
    split
    · cases hw : w.work <;> rfl
    · rfl
  | stop => rfl
  | fuel => rfl

theorem stepEngine_good {u : Universe} (hw : WFU u) (fuel : Nat) (s : E2.St) (h : EI u s) :
    Good u s (E2.stepEngine u fuel s).1 := by
  rw [stepEngine_eq]
  have hn := QL.next (p := E2.packOf u) (P := fun l => l < s.cdb.classes.length) 100000 s.q
  generalize Q.next (E2.packOf u) 100000 s.q = res at hn
  obtain ⟨q, o⟩ := res
  obtain ⟨hq, hy⟩ := hn q o h.ql rfl
  have g1 : Good u s ({ s with q := q } : E2.St) := (Good.refl h).withQ q hq
  cases o with
  | yield w =>
    obtain ⟨hlt, hwk⟩ := hy w rfl
    have hl : lab ({ s with q := q } : E2.St).cdb w.label (s.cdb.classes.getD w.label 0) := by
      unfold lab
      simp only
      rw [List.getD_eq_getElem?_getD, List.getElem?_eq_getElem hlt]; rfl
    simp only
    split
    · split
      · exact g1.trans (infExpand_good hw fuel _ _ _ _ none (fun _ x => x) g1.1 hl)
      · rename_i hne
        exact g1.trans (expandFold_good hw fuel _ _ _ _ (stratsOf_mem hwk (by intro e; exact hne e)) g1.1 hl)
    · exact g1
  | stop => exact g1
  | fuel => exact g1

theorem initEngine_good {u : Universe} (hw : WFU u) (fuel c : Nat) : EI u (E2.initEngine u fuel c) := by
  have key : ∀ s0 : E2.St, s0.log = [] → s0.cdb = { classes := [c], empties := [none] } →
      s0.q = (Q.init (E2.packOf u)).add (E2.packOf u) 0 → s0.rules = [] → s0.eqv = [] →
      EI u (if !u.sym.isEmpty then E2.symExpand u fuel (E2.tryVerify u fuel s0 c 0) c 0 else E2.tryVerify u fuel s0 c 0) := by
    intro s0 e1 e2 e3 e4 e5
    have h0 : EI u s0 := by
      refine ⟨fun e he => (by rw [e1] at he; cases he), ?_, by rw [e2]; simp, ?_, ?_⟩
      · rw [e2, e3]
        exact (QL.init _ _).add 0 (by simp)
      · rw [e2]
        refine ⟨rfl, ?_⟩
        intro l b hl
        cases l with
        | zero => simp at hl
        | succ l => simp at hl
      · intro k hk; rw [e4, e5] at hk; cases hk
    have hl : lab s0.cdb 0 c := by rw [e2]; simp [lab]
    have h1 := (engine_mutual hw fuel).2.1 s0 c 0 h0 hl
    split
    · exact (h1.trans ((engine_mutual hw fuel).2.2 _ c 0 h1.1 (lab.ext hl h1.2))).1
    · exact h1.1
  unfold E2.initEngine
  exact key _ rfl rfl rfl rfl rfl

/-- **C04 (engine model).** After any sequence of expansion and search transitions from the initial state, every recorded
event is genuine - the start label is the label of the parent class of a rule that a strategy of the pack produces for some
class, the end labels are the labels of that rule's children, in order - and every label the queue holds is a label of the
class database, every staged work packet names a strategy of the pack. -/
theorem engine_events_genuine {u : Universe} (hw : WFU u) (fuel c : Nat) (iter : Bool) (ops : List E2.Op) :
    EI u (E2.exec u fuel iter ops (E2.initEngine u fuel c)) := by
  unfold E2.exec
  refine foldl_inv _ (fun s => EI u s) _ _ (initEngine_good hw fuel c) ?_
  intro s o _ h
  cases o with
  | expand => exact (stepEngine_good hw fuel s h).1
  | search =>
    simp only [E2.step]
    split
    · exact ((Good.refl h).congr (s' := (E2.searchIter s 0).1) rfl rfl rfl rfl rfl).1
    · exact ((Good.refl h).congr (s' := (E2.search s 0).1) rfl rfl rfl rfl rfl).1
#print axioms engine_events_genuine

/-- non-vacuity: a universe (one expansion strategy splitting class 0 into 1 and 2, a verification strategy for the classes >= 1)
meets `WFU`, and its run records genuine, non-trivial events -/
def exampleU : Universe :=
  { empty := #[false, false, false],
    apply := fun σ x =>
      if σ == 0 && x == 0 then [{ parent := 0, children := [1, 2], flags := ⟨false, true, false, true⟩, twoWay := false, isVer := false }]
      else if σ == 1 && x ≥ 1 then [{ parent := x, children := [], flags := ⟨false, false, false, false⟩, twoWay := false, isVer := true }]
      else [],
    initial := [], inferral := [], expansion := [[0]], ver := [1], sym := [], expandVerified := false }

theorem exampleU_wf : WFU exampleU := by
  refine ⟨fun σ h => (by cases h), fun σ h => (by cases h), ?_, fun σ h => (by cases h)⟩
  intro σ x r hr _ c _
  have : ∀ c, exampleU.empty.getD c false = false := by
    intro c
    match c with
    | 0 => rfl
    | 1 => rfl
    | 2 => rfl
    | _ + 3 => rfl
  exact this c

example : ((E2.exec exampleU 20 false [.expand, .expand, .search] (E2.initEngine exampleU 20 0)).log.map (fun e => (e.start, e.ends))) =
    [(1, []), (2, []), (0, [1, 2])] := by decide +kernel

/-- equal classes share their label and unequal classes never do, in every reachable state of the engine model -/
theorem engine_labels_bijective {u : Universe} (hw : WFU u) (fuel c : Nat) (iter : Bool) (ops : List E2.Op) :
    let s := E2.exec u fuel iter ops (E2.initEngine u fuel c)
    (∀ l l' x, lab s.cdb l x → lab s.cdb l' x → l = l') ∧ (∀ l x x', lab s.cdb l x → lab s.cdb l x' → x = x') := by
  intro s
  have h := (engine_events_genuine hw fuel c iter ops).nd
  refine ⟨?_, ?_⟩
  · intro l l' x h1 h2
    have a := h1.lt; have b := h2.lt
    unfold lab at h1 h2
    rw [List.getElem?_eq_getElem a] at h1
    rw [List.getElem?_eq_getElem b] at h2
    have e : s.cdb.classes[l] = s.cdb.classes[l'] := by
      injection h1 with h1; injection h2 with h2; rw [h1, h2]
    exact (List.getElem_inj h).1 e
  · intro l x x' h1 h2
    unfold lab at h1 h2
    rw [h1] at h2; injection h2
#print axioms engine_labels_bijective

/-- **C04 (engine model): stored keys and emptiness cache.** In every reachable state, every key stored in the rule database
is the start label of a genuine rule with the sorted labels of its children - a child left out only if its class is truly
empty and the strategy declared its children possibly empty - and every cached emptiness is the class's own answer. -/
theorem engine_keys_clean {u : Universe} (hw : WFU u) (fuel c : Nat) (iter : Bool) (ops : List E2.Op) :
    let s := E2.exec u fuel iter ops (E2.initEngine u fuel c)
    (∀ k, k ∈ s.rules ++ s.eqv → KeyClean u s.cdb k) ∧ CacheOK u s.cdb :=
  ⟨(engine_events_genuine hw fuel c iter ops).keys, (engine_events_genuine hw fuel c iter ops).cache⟩
#print axioms engine_keys_clean
