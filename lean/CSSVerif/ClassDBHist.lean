import CSSVerif.ClassDB
/-! C15: the class database as a state machine over histories, with the emptiness cache.
`tr x` is the class's own answer to `is_empty` (a parameter: user code). -/

structure CDBS where
  db      : CDBm
  empties : List (Option Bool)
deriving Repr

inductive COp where
  | getLabel (x : Nat)            -- get_label(class)
  | getClass (l : Int)            -- get_class(label)
  | containsC (x : Nat)           -- class in db
  | containsL (l : Int)           -- label in db
  | isEmpty (x : Nat)             -- is_empty(class) (label looked up)
  | setEmpty (x : Nat) (b : Bool) -- set_empty(class, b)
deriving Repr

inductive COut where
  | label (l : Nat) | cls (x : Nat) | bool (b : Bool) | keyError | unit
deriving Repr, DecidableEq

namespace CDBS
def init : CDBS := ⟨CDBm.empty, []⟩

def setAt : List (Option Bool) → Nat → Bool → List (Option Bool)
  | [], _, _ => []
  | _ :: es, 0, b => some b :: es
  | e :: es, i+1, b => e :: setAt es i b

/-- `get_label` on a class: append when unknown (the emptiness cache gets a `None`). -/
def getLabel (d : CDBS) (x : Nat) : CDBS × Nat :=
  match d.db.label? x with
  | some l => (d, l)
  | none => (⟨⟨d.db.classes ++ [x]⟩, d.empties ++ [none]⟩, d.db.classes.length)

def step (tr : Nat → Bool) (d : CDBS) : COp → CDBS × COut
  | .getLabel x => let (d', l) := d.getLabel x; (d', .label l)
  | .getClass l =>
      if d.db.containsLabel l then
        match d.db.getClass? l.toNat with
        | some x => (d, .cls x)
        | none => (d, .keyError)
      else (d, .keyError)
  | .containsC x => (d, .bool (d.db.containsClass x))
  | .containsL l => (d, .bool (d.db.containsLabel l))
  | .isEmpty x =>
      match d.db.label? x with
      | none => (d, .keyError)            -- `self.label_dict[...]` raises KeyError
      | some l =>
        match d.empties.getD l none with
        | some b => (d, .bool b)
        | none => (⟨d.db, setAt d.empties l (tr x)⟩, .bool (tr x))
  | .setEmpty x b =>
      let (d', l) := d.getLabel x
      (⟨d'.db, setAt d'.empties l b⟩, .unit)

def run (tr : Nat → Bool) (ops : List COp) : CDBS × List COut :=
  ops.foldl (fun (s : CDBS × List COut) op => let (d, o) := step tr s.1 op; (d, s.2 ++ [o])) (init, [])

/-- a history is *truthful* when every explicit `set_empty` tells the truth (the searcher's contract) -/
def Truthful (tr : Nat → Bool) : List COp → Prop
  | [] => True
  | .setEmpty x b :: ops => b = tr x ∧ Truthful tr ops
  | _ :: ops => Truthful tr ops

/-- invariant: no class stored twice, one cache slot per class, every filled slot is the truth -/
structure Inv (tr : Nat → Bool) (d : CDBS) : Prop where
  nodup : d.db.classes.Nodup
  len   : d.empties.length = d.db.classes.length
  truth : ∀ l x b, d.db.classes[l]? = some x → d.empties.getD l none = some b → b = tr x

theorem setAt_length : ∀ (es : List (Option Bool)) (i : Nat) (b : Bool), (setAt es i b).length = es.length
  | [], _, _ => rfl
  | _ :: _, 0, _ => rfl
  | _ :: es, i+1, b => by simp [setAt, setAt_length es i b]

theorem setAt_getD : ∀ (es : List (Option Bool)) (i j : Nat) (b : Bool),
    (setAt es i b).getD j none = if j = i ∧ i < es.length then some b else es.getD j none
  | [], i, j, b => by simp [setAt]
  | e :: es, 0, j, b => by
    cases j with
    | zero => simp [setAt]
    | succ j => simp [setAt]
  | e :: es, i+1, j, b => by
    cases j with
    | zero => simp [setAt]
    | succ j =>
      have := setAt_getD es i j b
      simp only [setAt, List.getD_eq_getElem?_getD, List.getElem?_cons_succ, List.length_cons] at this ⊢
      rw [this]
      by_cases h : j = i ∧ i < es.length
      · have h' : j + 1 = i + 1 ∧ i + 1 < es.length + 1 := ⟨by omega, by omega⟩
        simp [h]
      · have h' : ¬ (j + 1 = i + 1 ∧ i + 1 < es.length + 1) := by omega
        simp [h, h']

theorem inv_init (tr : Nat → Bool) : Inv tr init :=
  ⟨List.nodup_nil, rfl, by intro l x b h; simp [init, CDBm.empty] at h⟩

theorem getLabel_inv {tr : Nat → Bool} {d : CDBS} (h : Inv tr d) (x : Nat) : Inv tr (d.getLabel x).1 := by
  unfold getLabel
  cases hl : d.db.label? x with
  | some l => exact h
  | none =>
    refine ⟨?_, ?_, ?_⟩
    · have := CDBm.getLabel_inv d.db x h.nodup
      unfold CDBm.getLabel at this; rw [hl] at this; exact this
    · simp [h.len]
    · intro l y b hy hb
      simp only at hy hb
      by_cases hlt : l < d.db.classes.length
      · rw [List.getElem?_append_left hlt] at hy
        rw [List.getD_eq_getElem?_getD, List.getElem?_append_left (by rw [h.len]; exact hlt)] at hb
        exact h.truth l y b hy (by rw [List.getD_eq_getElem?_getD]; exact hb)
      · rw [List.getD_eq_getElem?_getD] at hb
        by_cases hle : l = d.empties.length
        · subst hle; simp at hb
        · have hlen := h.len
          rw [List.getElem?_eq_none (by simp; omega)] at hb; simp at hb

theorem getLabel_lookup (d : CDBS) (x : Nat) :
    (d.getLabel x).1.db.classes[(d.getLabel x).2]? = some x := by
  unfold getLabel
  cases hl : d.db.label? x with
  | some l => exact idx_some hl
  | none => simp

theorem step_inv {tr : Nat → Bool} {d : CDBS} (h : Inv tr d) (op : COp)
    (ht : ∀ x b, op = .setEmpty x b → b = tr x) : Inv tr (step tr d op).1 := by
  cases op with
  | getLabel x => exact getLabel_inv h x
  | getClass l =>
    simp only [step]
    split
    · split <;> exact h
    · exact h
  | containsC x => exact h
  | containsL l => exact h
  | isEmpty x =>
    simp only [step]
    cases hl : d.db.label? x with
    | none => exact h
    | some l =>
      simp only
      cases he : d.empties.getD l none with
      | some b => exact h
      | none =>
        refine ⟨h.nodup, by simp [setAt_length, h.len], ?_⟩
        intro l' y b hy hb
        simp only at hy hb
        rw [setAt_getD] at hb
        split at hb
        · rename_i hc
          injection hb with hb; subst hb
          have : d.db.classes[l]? = some x := idx_some hl
          rw [hc.1] at hy; rw [this] at hy; injection hy with hy; rw [hy]
        · exact h.truth l' y b hy hb
  | setEmpty x b =>
    have hb := ht x b rfl
    simp only [step]
    have hi := getLabel_inv h x
    have hlk := getLabel_lookup d x
    generalize d.getLabel x = r at hi hlk
    obtain ⟨d', l⟩ := r
    simp only at hi hlk ⊢
    refine ⟨hi.nodup, by simp [setAt_length, hi.len], ?_⟩
    intro l' y b' hy hb'
    simp only at hy hb'
    rw [setAt_getD] at hb'
    split at hb'
    · rename_i hc
      injection hb' with hb'; subst hb'
      rw [hc.1] at hy; rw [hlk] at hy; injection hy with hy; rw [← hy]; exact hb
    · exact hi.truth l' y b' hy hb'

def stepAcc (tr : Nat → Bool) (s : CDBS × List COut) (op : COp) : CDBS × List COut :=
  ((step tr s.1 op).1, s.2 ++ [(step tr s.1 op).2])

theorem run_eq (tr : Nat → Bool) (ops : List COp) : run tr ops = ops.foldl (stepAcc tr) (init, []) := rfl

theorem foldl_inv (tr : Nat → Bool) : ∀ (ops : List COp) (s : CDBS × List COut), Inv tr s.1 → Truthful tr ops →
    Inv tr (ops.foldl (stepAcc tr) s).1
  | [], s, h, _ => h
  | op :: ops, s, h, ht => by
    have h2 : Truthful tr ops ∧ (∀ x b, op = .setEmpty x b → b = tr x) := by
      cases op with
      | setEmpty x b => exact ⟨ht.2, by intro x' b' e; injection e with e1 e2; subst e1; subst e2; exact ht.1⟩
      | getLabel x => exact ⟨ht, by intro _ _ e; cases e⟩
      | getClass l => exact ⟨ht, by intro _ _ e; cases e⟩
      | containsC x => exact ⟨ht, by intro _ _ e; cases e⟩
      | containsL l => exact ⟨ht, by intro _ _ e; cases e⟩
      | isEmpty x => exact ⟨ht, by intro _ _ e; cases e⟩
    exact foldl_inv tr ops (stepAcc tr s op) (step_inv h op h2.2) h2.1

/-- the invariant holds after every truthful history -/
theorem run_inv (tr : Nat → Bool) (ops : List COp) (ht : Truthful tr ops) : Inv tr (run tr ops).1 := by
  rw [run_eq]; exact foldl_inv tr ops _ (inv_init tr) ht

/-- C15 (emptiness): after any truthful history, `is_empty` on a stored class answers the class's own answer -/
theorem isEmpty_cached (tr : Nat → Bool) (ops : List COp) (ht : Truthful tr ops) (x : Nat)
    (hx : x ∈ (run tr ops).1.db.classes) : (step tr (run tr ops).1 (.isEmpty x)).2 = .bool (tr x) := by
  have hi := run_inv tr ops ht
  generalize (run tr ops).1 = d at hi hx
  simp only [step]
  cases hl : d.db.label? x with
  | none => exact absurd hx (idx_none hl)
  | some l =>
    simp only
    cases he : d.empties.getD l none with
    | none => rfl
    | some b => simp only; rw [hi.truth l x b (idx_some hl) he]

/-- C15 (labels): after any history the stored classes are pairwise distinct, so labels are injective;
`get_label` returns the index of first appearance, which is `< number of classes` (dense). -/
theorem labels_bijective (tr : Nat → Bool) (ops : List COp) (ht : Truthful tr ops) (x y l : Nat)
    (hx : (run tr ops).1.db.label? x = some l) (hy : (run tr ops).1.db.label? y = some l) : x = y :=
  CDBm.label_inj _ (run_inv tr ops ht).nodup x y l hx hy

/-- stored classes are never moved or removed: the class list only grows at the end, by any op -/
theorem step_prefix (tr : Nat → Bool) (d : CDBS) (op : COp) : ∃ t, (step tr d op).1.db.classes = d.db.classes ++ t := by
  have hg : ∀ x, ∃ t, (d.getLabel x).1.db.classes = d.db.classes ++ t := by
    intro x; unfold getLabel
    cases d.db.label? x with
    | some l => exact ⟨[], by simp⟩
    | none => exact ⟨[x], rfl⟩
  cases op with
  | getLabel x => exact hg x
  | getClass l =>
    simp only [step]
    split
    · split <;> exact ⟨[], by simp⟩
    · exact ⟨[], by simp⟩
  | containsC x => exact ⟨[], by simp [step]⟩
  | containsL l => exact ⟨[], by simp [step]⟩
  | isEmpty x =>
    simp only [step]
    cases d.db.label? x with
    | none => exact ⟨[], by simp⟩
    | some l =>
      simp only
      cases d.empties.getD l none with
      | some b => exact ⟨[], by simp⟩
      | none => exact ⟨[], by simp⟩
  | setEmpty x b => exact hg x

/-- membership of a label is total: exactly the labels `0 ≤ l < k` (never an exception) -/
theorem containsL_total (tr : Nat → Bool) (d : CDBS) (l : Int) :
    (step tr d (.containsL l)).2 = .bool (decide (0 ≤ l ∧ l.toNat < d.db.classes.length)) := by
  simp [step, CDBm.containsLabel, Bool.decide_and]

end CDBS

-- non-vacuity: a concrete truthful history with a repeated class, a cached emptiness and membership tests
example : (CDBS.run (fun x => x == 7) [.getLabel 5, .getLabel 7, .getLabel 5, .isEmpty 7, .isEmpty 7, .containsL (-1), .containsL 2, .getClass 1]).2
    = [.label 0, .label 1, .label 0, .bool true, .bool true, .bool false, .bool false, .cls 7] := by decide
