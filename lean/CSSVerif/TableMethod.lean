import CSSVerif.LfpRef
/-! Prototype: line-by-line model of rule_db/forest.py `Function` + `TableMethod` (C03). -/
structure TM where
  rules    : Array Rule := #[]
  shifts   : Array (Array (Option Int)) := #[]
  value    : Array (Option Nat) := #[]          -- Function._value ; none = ∞
  gapSize  : Nat := 1
  gap      : Nat × Nat := (1, 1)
  usingC    : Array (List (Nat × Nat)) := #[]    -- _rules_using_class
  pumpingC  : Array (List Nat) := #[]            -- _rules_pumping_class
  queue    : List Nat := []
  holding  : List Nat := []                     -- a set; kept sorted, `pop` takes the head

namespace TM
def materialise (t : TM) (c : Nat) : TM :=
  if c < t.value.size then t else
  let k := c + 1 - t.value.size
  { t with value := t.value ++ Array.replicate k (some 0),
           usingC := t.usingC ++ Array.replicate (c + 1 - t.usingC.size) [],
           pumpingC := t.pumpingC ++ Array.replicate (c + 1 - t.pumpingC.size) [] }
def val (t : TM) (c : Nat) : Option Nat := t.value.getD c (some 0)

/-- `Function.preimage_gap` -/
def preimageGap (t : TM) (len : Nat) : Nat :=
  let fin := t.value.toList.filterMap id
  let maxv := fin.foldl max 0
  let cnt (i : Nat) : Nat := (fin.filter (· == i)).length
  let rec go (i : Nat) (fuel : Nat) (lastNZ : Int) : Nat :=
    match fuel with
    | 0 => (lastNZ + 1).toNat
    | fuel+1 =>
      if cnt i != 0 then go (i+1) fuel i
      else if (i : Int) - lastNZ ≥ len then (lastNZ + 1).toNat else go (i+1) fuel lastNZ
  go 0 (maxv + 1) (-1)

def insertS (x : Nat) : List Nat → List Nat
  | [] => [x]
  | y :: ys => if x < y then x :: y :: ys else if x == y then y :: ys else y :: insertS x ys

/-- `_correct_gap` -/
def correctGap (t : TM) : TM :=
  let k := t.preimageGap t.gapSize
  let ng := (k, k + t.gapSize - 1)
  let t := if ng.2 > t.gap.2 then { t with queue := t.queue ++ t.holding, holding := [] } else t
  { t with gap := ng }

def canGive (s : Array (Option Int)) : Bool := s.all (fun x => match x with | none => true | some v => v > 0)

/-- `_increase_value` -/
def increaseValue (t : TM) (c idx : Nat) : TM :=
  match t.val c with
  | none => t
  | some cur =>
    if cur > t.gap.2 then { t with holding := insertS idx t.holding } else
    let t := { t with value := t.value.setIfInBounds c (some (cur + 1)) }
    let t := if t.gap.1 != t.preimageGap t.gapSize then t.correctGap else t
    let t := (t.pumpingC.getD c []).foldl (fun (t : TM) r =>
      let sh := (t.shifts.getD r #[]).map (fun x => x.map (· - 1))
      let t := { t with shifts := t.shifts.setIfInBounds r sh }
      if canGive sh then { t with queue := t.queue ++ [r] } else t) t
    (t.usingC.getD c []).foldl (fun (t : TM) (rc : Nat × Nat) =>
      let sh0 := t.shifts.getD rc.1 #[]
      let sh := sh0.setIfInBounds rc.2 ((sh0.getD rc.2 none).map (· + 1))
      let t := { t with shifts := t.shifts.setIfInBounds rc.1 sh }
      if canGive sh then { t with queue := t.queue ++ [rc.1] } else t) t

/-- `_set_infinite` -/
def setInfinite (t : TM) (c : Nat) : TM :=
  match t.val c with
  | none => t
  | some _ =>
    let t := { t with value := t.value.setIfInBounds c none }
    let t := (t.pumpingC.getD c []).foldl (fun (t : TM) ridx =>
      ((t.rules.getD ridx ⟨0, [], []⟩).children).foldl (fun (t : TM) ch =>
        { t with usingC := t.usingC.setIfInBounds ch ((t.usingC.getD ch []).filter (·.1 != ridx)) }) t) t
    let t := { t with pumpingC := t.pumpingC.setIfInBounds c [] }
    let t := (t.usingC.getD c []).foldl (fun (t : TM) (rc : Nat × Nat) =>
      let sh := (t.shifts.getD rc.1 #[]).setIfInBounds rc.2 none
      let t := { t with shifts := t.shifts.setIfInBounds rc.1 sh }
      if canGive sh then { t with queue := t.queue ++ [rc.1] } else t) t
    { t with usingC := t.usingC.setIfInBounds c [] }

/-- `_process_queue` (fuel counts primitive actions) -/
def processQueue : Nat → TM → TM
  | 0, t => t
  | fuel+1, t =>
    match t.queue with
    | idx :: q =>
      let t := { t with queue := q }
      let t := if canGive (t.shifts.getD idx #[]) then t.increaseValue (t.rules.getD idx ⟨0, [], []⟩).parent idx else t
      processQueue fuel t
    | [] =>
      match t.holding with
      | [] => t
      | idx :: h => processQueue fuel ({ t with holding := h }.setInfinite (t.rules.getD idx ⟨0, [], []⟩).parent)

/-- `add_rule_key` -/
def addRuleKey (t : TM) (r : Rule) (fuel : Nat := 100000) : TM :=
  let t := (r.parent :: r.children).foldl materialise t
  let sh : Array (Option Int) :=
    match t.val r.parent with
    | none => (r.deps.map (fun _ => (none : Option Int))).toArray
    | some pv => (r.deps.map (fun d => (t.val d.1).map (fun fv => (fv : Int) + d.2 - pv))).toArray
  let t := { t with rules := t.rules.push r, shifts := t.shifts.push sh }
  let mg : Nat := r.shifts.foldl (fun (g : Nat) (s : Int) => max g s.natAbs) 0
  let t := if mg > t.gapSize then { t with gapSize := mg }.correctGap else t
  let t :=
    match t.val r.parent with
    | none => t
    | some _ =>
      let idx := t.rules.size - 1
      let t := { t with pumpingC := t.pumpingC.setIfInBounds r.parent (t.pumpingC.getD r.parent [] ++ [idx]) }
      let t := (r.children.zipIdx).foldl (fun (t : TM) (ci : Nat × Nat) =>
        match t.val ci.1 with
        | none => t
        | some _ => { t with usingC := t.usingC.setIfInBounds ci.1 (t.usingC.getD ci.1 [] ++ [(idx, ci.2)]) }) t
      { t with queue := t.queue ++ [idx] }
  processQueue fuel t
end TM
