/-! Prototype: spec of "terms computable" and the pumping lemma (core Lean only). -/
structure Rule where
  parent   : Nat
  children : List Nat
  shifts   : List Int
deriving Repr, DecidableEq

/-- the (child, shift) pairs of a rule (zip truncates like Python's zip) -/
def Rule.deps (r : Rule) : List (Nat × Int) := r.children.zip r.shifts

/-- `Comp R c n`: term `n` of class `c` is computable from the rules `R`. -/
inductive Comp (R : List Rule) : Nat → Nat → Prop
  | mk (r : Rule) (n : Nat) (hr : r ∈ R)
      (h : ∀ d ∈ r.deps, ∀ m : Nat, (m : Int) ≤ (n : Int) - d.2 → Comp R d.1 m) :
      Comp R r.parent n

theorem Comp.mono_rules {R R' : List Rule} (hsub : ∀ r, r ∈ R → r ∈ R') {c n : Nat}
    (h : Comp R c n) : Comp R' c n := by
  induction h with
  | mk r n hr _ ih => exact Comp.mk r n (hsub r hr) ih

theorem Comp.congr_rules {R R' : List Rule} (h : ∀ r, r ∈ R ↔ r ∈ R') (c n : Nat) :
    Comp R c n ↔ Comp R' c n :=
  ⟨Comp.mono_rules (fun r => (h r).1), Comp.mono_rules (fun r => (h r).2)⟩

theorem Comp.down {R : List Rule} {c n : Nat} (h : Comp R c n) : ∀ n', n' ≤ n → Comp R c n' := by
  cases h with
  | mk r n hr hd =>
    intro n' hn'
    exact Comp.mk r n' hr (fun d hdm m hm => hd d hdm m (by omega))

/-- Pumping lemma. `G` bounds every shift from above; no class has its number of computable terms
in the window `[k, k+G-1]` (every class either lacks term `k-1` or has term `k+G-1`).
Then every class that has term `k+G-1` has all terms. -/
theorem Comp.pump {R : List Rule} (G k : Nat) (hk : 1 ≤ k)
    (hG : ∀ r ∈ R, ∀ d ∈ r.deps, d.2 ≤ (G : Int))
    (hgap : ∀ c, Comp R c (k - 1) → Comp R c (k + G - 1)) :
    ∀ c n, Comp R c n → k + G - 1 ≤ n → Comp R c (n + 1) := by
  intro c n h
  induction h with
  | mk r n hr hd ih =>
    intro hn
    refine Comp.mk r (n+1) hr ?_
    intro d hdm m hm
    have hs := hG r hr d hdm
    -- the child has term k-1, hence is above the gap
    have hk1 : Comp R d.1 (k - 1) := hd d hdm (k-1) (by omega)
    have hab : Comp R d.1 (k + G - 1) := hgap _ hk1
    by_cases hle : (m : Int) ≤ (n : Int) - d.2
    · exact hd d hdm m hle
    · -- m = n + 1 - shift
      have hm' : (m : Int) = (n : Int) + 1 - d.2 := by omega
      by_cases hbig : k + G - 1 ≤ m - 1
      · have h1 : ((m - 1 : Nat) : Int) ≤ (n : Int) - d.2 := by omega
        have := ih d hdm (m-1) h1 hbig
        have hmm : m - 1 + 1 = m := by omega
        rw [hmm] at this; exact this
      · exact hab.down m (by omega)

theorem Comp.pump_all {R : List Rule} (G k : Nat) (hk : 1 ≤ k)
    (hG : ∀ r ∈ R, ∀ d ∈ r.deps, d.2 ≤ (G : Int))
    (hgap : ∀ c, Comp R c (k - 1) → Comp R c (k + G - 1))
    (c : Nat) (hc : Comp R c (k + G - 1)) : ∀ n, Comp R c n := by
  intro n
  by_cases h : n ≤ k + G - 1
  · exact hc.down n h
  · have : ∀ j, Comp R c (k + G - 1 + j) := by
      intro j
      induction j with
      | zero => simpa using hc
      | succ j ihj =>
        have := Comp.pump G k hk hG hgap c _ ihj (by omega)
        simpa [Nat.add_assoc] using this
    have := this (n - (k + G - 1))
    have e : k + G - 1 + (n - (k + G - 1)) = n := by omega
    rw [e] at this; exact this
#print axioms Comp.pump_all

/-- Completeness below the gap: at a (capped) fixed point `f`, classes below the window have
exactly `f c` computable terms. -/
theorem Comp.below_gap {R : List Rule} (f : Nat → Nat) (G k B : Nat)
    (hG : ∀ r ∈ R, ∀ d ∈ r.deps, -(G : Int) ≤ d.2)
    (hwin : ∀ c, f c < k ∨ k + G ≤ f c) (hB : k ≤ B)
    (hfix : ∀ r ∈ R, f r.parent < B → ∃ d ∈ r.deps, (f d.1 : Int) + d.2 ≤ f r.parent) :
    ∀ c n, Comp R c n → (k + G ≤ f c ∨ n < f c) := by
  intro c n h
  induction h with
  | mk r n hr hd ih =>
    rcases hwin r.parent with hlt | hge
    · obtain ⟨d, hdm, hblock⟩ := hfix r hr (by omega)
      by_cases hn : n < f r.parent
      · exact Or.inr hn
      · exfalso
        have hs := hG r hr d hdm
        have := ih d hdm (f d.1) (by omega)
        rcases this with h1 | h1
        · omega
        · omega
    · exact Or.inl hge
#print axioms Comp.below_gap

/-- **C19, substitution.** If every rule of `R` is either the leaf rule `v → ()` of a verified class `v`
or a rule of `S`, and `v` is productive in `S` (its expansion), then everything computable in `R` is
computable in `S`: replacing the leaf of a productive class by any rule set that makes it productive
keeps every class productive. -/
theorem comp_replace_verified {R S : List Rule} (v : Nat)
    (hR : ∀ r ∈ R, (r.parent = v ∧ r.children = []) ∨ r ∈ S) (hv : ∀ n, Comp S v n) {c n : Nat}
    (h : Comp R c n) : Comp S c n := by
  induction h with
  | mk r n hr _ ih =>
    rcases hR r hr with ⟨hp, _⟩ | hS
    · rw [hp]; exact hv n
    · exact Comp.mk r n hS ih
#print axioms comp_replace_verified
