import CSSVerif.TMMono
/-! C03: invariants of the line-by-line table-method model: the incrementally maintained shift arrays are exactly the
differences `value(child) + shift - value(parent)`; the index lists name exactly the rules that pump / use a class. -/
namespace TM

theorem getD_set_self {α : Type} (a : Array α) (i : Nat) (v d : α) (h : i < a.size) :
    (a.setIfInBounds i v).getD i d = v := by
  simp [Array.getD_eq_getD_getElem?, h]

theorem getD_set_ne {α : Type} (a : Array α) (i j : Nat) (v d : α) (h : i ≠ j) :
    (a.setIfInBounds i v).getD j d = a.getD j d := by
  simp [Array.getD_eq_getD_getElem?, h]

theorem getD_set_oob {α : Type} (a : Array α) (i j : Nat) (v d : α) (h : ¬ i < a.size) :
    (a.setIfInBounds i v).getD j d = a.getD j d := by
  have : a.setIfInBounds i v = a := by simp [Array.setIfInBounds, h]
  rw [this]

theorem ext_getD (a b : Array (Option Int)) (hs : a.size = b.size) (h : ∀ j, a.getD j none = b.getD j none) : a = b := by
  apply Array.ext hs
  intro j h1 h2
  have := h j
  simp only [Array.getD_eq_getD_getElem?, Array.getElem?_eq_getElem h1, Array.getElem?_eq_getElem h2, Option.getD_some] at this
  exact this

def dfltRule : Rule := ⟨0, [], []⟩
def rule (t : TM) (idx : Nat) : Rule := t.rules.getD idx dfltRule
/-- entry `i` of the shift array of rule `idx` -/
def sh (t : TM) (idx i : Nat) : Option Int := (t.shifts.getD idx #[]).getD i none
def shSize (t : TM) (idx : Nat) : Nat := (t.shifts.getD idx #[]).size

def dec (a : Array (Option Int)) : Array (Option Int) := a.map (fun x => x.map (· - 1))
def inc1 (a : Array (Option Int)) (i : Nat) : Array (Option Int) := a.setIfInBounds i ((a.getD i none).map (· + 1))

/-- `_rules_pumping_class` loop of `_increase_value` -/
def pumpStep (t : TM) (r : Nat) : TM :=
  if canGive (dec (t.shifts.getD r #[])) then
    { t with shifts := t.shifts.setIfInBounds r (dec (t.shifts.getD r #[])), queue := t.queue ++ [r] }
  else { t with shifts := t.shifts.setIfInBounds r (dec (t.shifts.getD r #[])) }

/-- `_rules_using_class` loop of `_increase_value` -/
def useStep (t : TM) (rc : Nat × Nat) : TM :=
  if canGive (inc1 (t.shifts.getD rc.1 #[]) rc.2) then
    { t with shifts := t.shifts.setIfInBounds rc.1 (inc1 (t.shifts.getD rc.1 #[]) rc.2), queue := t.queue ++ [rc.1] }
  else { t with shifts := t.shifts.setIfInBounds rc.1 (inc1 (t.shifts.getD rc.1 #[]) rc.2) }

theorem increaseValue_eq (t : TM) (c idx : Nat) :
    t.increaseValue c idx =
      match t.val c with
      | none => t
      | some cur =>
        if cur > t.gap.2 then { t with holding := insertS idx t.holding } else
        (((fun (t : TM) => if t.gap.1 != t.preimageGap t.gapSize then t.correctGap else t)
            { t with value := t.value.setIfInBounds c (some (cur + 1)) }).pumpingC.getD c []).foldl pumpStep
          ((fun (t : TM) => if t.gap.1 != t.preimageGap t.gapSize then t.correctGap else t)
            { t with value := t.value.setIfInBounds c (some (cur + 1)) })
        |> fun t1 => (t1.usingC.getD c []).foldl useStep t1 := by
  unfold increaseValue pumpStep useStep dec inc1
  rfl

/-- everything the two loops leave alone -/
structure Frame (t t' : TM) : Prop where
  value : t'.value = t.value
  rules : t'.rules = t.rules
  usingC : t'.usingC = t.usingC
  pumpingC : t'.pumpingC = t.pumpingC
  holding : t'.holding = t.holding
  gap : t'.gap = t.gap
  gapSize : t'.gapSize = t.gapSize
  ssize : t'.shifts.size = t.shifts.size

theorem Frame.refl (t : TM) : Frame t t := ⟨rfl, rfl, rfl, rfl, rfl, rfl, rfl, rfl⟩
theorem Frame.trans {a b c : TM} (h1 : Frame a b) (h2 : Frame b c) : Frame a c :=
  ⟨h2.value.trans h1.value, h2.rules.trans h1.rules, h2.usingC.trans h1.usingC, h2.pumpingC.trans h1.pumpingC,
   h2.holding.trans h1.holding, h2.gap.trans h1.gap, h2.gapSize.trans h1.gapSize, h2.ssize.trans h1.ssize⟩

theorem pumpStep_spec (t : TM) (r : Nat) (hr : r < t.shifts.size) :
    Frame t (pumpStep t r) ∧
    (∀ x, (pumpStep t r).shifts.getD x #[] = if x = r then dec (t.shifts.getD r #[]) else t.shifts.getD x #[]) ∧
    (∀ x, x ∈ (pumpStep t r).queue ↔ x ∈ t.queue ∨ (x = r ∧ canGive (dec (t.shifts.getD r #[])) = true)) := by
  have hs : ∀ x, (t.shifts.setIfInBounds r (dec (t.shifts.getD r #[]))).getD x #[] =
      if x = r then dec (t.shifts.getD r #[]) else t.shifts.getD x #[] := by
    intro x
    by_cases e : x = r
    · subst e; rw [if_pos rfl]; exact getD_set_self _ _ _ _ hr
    · rw [if_neg e]; exact getD_set_ne _ _ _ _ _ (Ne.symm e)
  unfold pumpStep
  by_cases hc : canGive (dec (t.shifts.getD r #[])) = true
  · rw [if_pos hc]
    refine ⟨⟨rfl, rfl, rfl, rfl, rfl, rfl, rfl, Array.size_setIfInBounds⟩, hs, ?_⟩
    intro x
    show x ∈ t.queue ++ [r] ↔ _
    simp only [List.mem_append, List.mem_singleton]
    constructor
    · rintro (e | e)
      · exact Or.inl e
      · exact Or.inr ⟨e, hc⟩
    · rintro (e | ⟨e, _⟩)
      · exact Or.inl e
      · exact Or.inr e
  · rw [if_neg hc]
    refine ⟨⟨rfl, rfl, rfl, rfl, rfl, rfl, rfl, Array.size_setIfInBounds⟩, hs, ?_⟩
    intro x
    show x ∈ t.queue ↔ _
    constructor
    · exact Or.inl
    · rintro (e | ⟨_, e⟩)
      · exact e
      · exact absurd e hc

theorem pumpFold_spec : ∀ (L : List Nat) (t : TM), L.Nodup → (∀ r, r ∈ L → r < t.shifts.size) →
    Frame t (L.foldl pumpStep t) ∧
    (∀ x, (L.foldl pumpStep t).shifts.getD x #[] = if x ∈ L then dec (t.shifts.getD x #[]) else t.shifts.getD x #[]) ∧
    (∀ x, x ∈ (L.foldl pumpStep t).queue ↔ x ∈ t.queue ∨ (x ∈ L ∧ canGive (dec (t.shifts.getD x #[])) = true))
  | [], t, _, _ => ⟨Frame.refl t, fun x => by simp, fun x => by simp⟩
  | r :: rs, t, hnd, hlt => by
    rw [List.foldl_cons]
    obtain ⟨f1, s1, q1⟩ := pumpStep_spec t r (hlt r List.mem_cons_self)
    have hnd' := (List.nodup_cons.1 hnd)
    obtain ⟨f2, s2, q2⟩ := pumpFold_spec rs (pumpStep t r) hnd'.2
      (fun x hx => by rw [f1.ssize]; exact hlt x (List.mem_cons_of_mem _ hx))
    refine ⟨f1.trans f2, ?_, ?_⟩
    · intro x
      rw [s2 x, s1 x]
      by_cases e : x = r
      · subst e
        have : x ∉ rs := hnd'.1
        simp [this]
      · simp [e]
    · intro x
      rw [q2 x, q1 x, s1 x]
      by_cases e : x = r
      · subst e
        have : x ∉ rs := hnd'.1
        simp [this]
      · simp [e]

theorem inc1_size (a : Array (Option Int)) (i : Nat) : (inc1 a i).size = a.size := by
  unfold inc1; exact Array.size_setIfInBounds

theorem inc1_getD (a : Array (Option Int)) (i j : Nat) :
    (inc1 a i).getD j none = if j = i then (a.getD i none).map (· + 1) else a.getD j none := by
  unfold inc1
  by_cases e : j = i
  · subst e
    rw [if_pos rfl]
    by_cases h : j < a.size
    · exact getD_set_self _ _ _ _ h
    · rw [getD_set_oob _ _ _ _ _ h]
      have : a.getD j none = none := by simp [Array.getD_eq_getD_getElem?, h]
      rw [this]; rfl
  · rw [if_neg e]; exact getD_set_ne _ _ _ _ _ (Ne.symm e)

theorem useStep_spec (t : TM) (rc : Nat × Nat) (hr : rc.1 < t.shifts.size) :
    Frame t (useStep t rc) ∧
    (∀ x, (useStep t rc).shifts.getD x #[] = if x = rc.1 then inc1 (t.shifts.getD rc.1 #[]) rc.2 else t.shifts.getD x #[]) ∧
    (∀ x, x ∈ t.queue → x ∈ (useStep t rc).queue) ∧
    (canGive (inc1 (t.shifts.getD rc.1 #[]) rc.2) = true → rc.1 ∈ (useStep t rc).queue) ∧
    (∀ x, x ∈ (useStep t rc).queue → x ∈ t.queue ∨ x = rc.1) := by
  have hs : ∀ x, (t.shifts.setIfInBounds rc.1 (inc1 (t.shifts.getD rc.1 #[]) rc.2)).getD x #[] =
      if x = rc.1 then inc1 (t.shifts.getD rc.1 #[]) rc.2 else t.shifts.getD x #[] := by
    intro x
    by_cases e : x = rc.1
    · rw [e, if_pos rfl]; exact getD_set_self _ _ _ _ hr
    · rw [if_neg e]; exact getD_set_ne _ _ _ _ _ (Ne.symm e)
  unfold useStep
  by_cases hc : canGive (inc1 (t.shifts.getD rc.1 #[]) rc.2) = true
  · rw [if_pos hc]
    refine ⟨⟨rfl, rfl, rfl, rfl, rfl, rfl, rfl, Array.size_setIfInBounds⟩, hs, ?_, ?_, ?_⟩
    · intro x hx; exact List.mem_append_left _ hx
    · intro _; exact List.mem_append_right _ (by simp)
    · intro x hx
      rcases List.mem_append.1 hx with e | e
      · exact Or.inl e
      · simp only [List.mem_singleton] at e; exact Or.inr e
  · rw [if_neg hc]
    refine ⟨⟨rfl, rfl, rfl, rfl, rfl, rfl, rfl, Array.size_setIfInBounds⟩, hs, fun x hx => hx, fun h => absurd h hc, fun x hx => Or.inl hx⟩

/-- entry `i` of rule `x` after the loop over the (distinct) positions `L`: one more for every listed position -/
theorem useFold_spec : ∀ (L : List (Nat × Nat)) (t : TM), L.Nodup → (∀ rc, rc ∈ L → rc.1 < t.shifts.size) →
    Frame t (L.foldl useStep t) ∧
    (∀ x, ((L.foldl useStep t).shifts.getD x #[]).size = (t.shifts.getD x #[]).size) ∧
    (∀ x i, ((L.foldl useStep t).shifts.getD x #[]).getD i none =
        if (x, i) ∈ L then ((t.shifts.getD x #[]).getD i none).map (· + 1) else (t.shifts.getD x #[]).getD i none) ∧
    (∀ x, x ∈ t.queue → x ∈ (L.foldl useStep t).queue) ∧
    (∀ x, (∃ i, (x, i) ∈ L) → canGive ((L.foldl useStep t).shifts.getD x #[]) = true → x ∈ (L.foldl useStep t).queue) ∧
    (∀ x, x ∈ (L.foldl useStep t).queue → x ∈ t.queue ∨ ∃ i, (x, i) ∈ L)
  | [], t, _, _ => by
    refine ⟨Frame.refl t, fun _ => rfl, fun x i => by simp, fun _ h => h, ?_, fun x h => Or.inl h⟩
    intro x hx; obtain ⟨i, h⟩ := hx; cases h
  | rc :: rs, t, hnd, hlt => by
    rw [List.foldl_cons]
    obtain ⟨f1, s1, q1, g1, b1⟩ := useStep_spec t rc (hlt rc List.mem_cons_self)
    have hnd' := List.nodup_cons.1 hnd
    obtain ⟨f2, z2, s2, q2, g2, b2⟩ := useFold_spec rs (useStep t rc) hnd'.2
      (fun x hx => by rw [f1.ssize]; exact hlt x (List.mem_cons_of_mem _ hx))
    refine ⟨f1.trans f2, ?_, ?_, fun x hx => q2 x (q1 x hx), ?_, ?_⟩
    · intro x
      rw [z2 x, s1 x]
      split
      · rename_i e; rw [e, inc1_size]
      · rfl
    · intro x i
      rw [s2 x i, s1 x]
      by_cases e : x = rc.1
      · rw [if_pos e, inc1_getD]
        by_cases e2 : i = rc.2
        · have hrc : (x, i) = rc := by cases rc; simp_all
          have hnot : (x, i) ∉ rs := by rw [hrc]; exact hnd'.1
          rw [if_neg hnot, if_pos e2, if_pos (by rw [hrc]; exact List.mem_cons_self), e2, e]
        · rw [if_neg e2]
          have hne : (x, i) ≠ rc := by intro h; apply e2; rw [← h]
          by_cases hm : (x, i) ∈ rs
          · rw [if_pos hm, if_pos (List.mem_cons_of_mem _ hm), e]
          · rw [if_neg hm, if_neg (by intro h; rcases List.mem_cons.1 h with a | a; exact hne a; exact hm a), e]
      · rw [if_neg e]
        have hne : (x, i) ≠ rc := by intro h; apply e; rw [← h]
        by_cases hm : (x, i) ∈ rs
        · rw [if_pos hm, if_pos (List.mem_cons_of_mem _ hm)]
        · rw [if_neg hm, if_neg (by intro h; rcases List.mem_cons.1 h with a | a; exact hne a; exact hm a)]
    · intro x ⟨i, hm⟩ hc
      by_cases hx : ∃ j, (x, j) ∈ rs
      · exact g2 x hx hc
      · -- the last update of `x` was this step: the array it checked is the final one
        have hi : (x, i) = rc := by
          rcases List.mem_cons.1 hm with a | a
          · exact a
          · exact absurd ⟨i, a⟩ hx
        have hx1 : x = rc.1 := by rw [← hi]
        have hfin : (rs.foldl useStep (useStep t rc)).shifts.getD x #[] = (useStep t rc).shifts.getD x #[] := by
          apply ext_getD _ _ (z2 x)
          intro j
          have := s2 x j
          rw [if_neg (fun h => hx ⟨j, h⟩)] at this
          exact this
        rw [hfin, s1 x, if_pos hx1] at hc
        exact q2 x (by rw [hx1]; exact g1 hc)
    · intro x hx
      rcases b2 x hx with e | ⟨i, e⟩
      · rcases b1 x e with e2 | e2
        · exact Or.inl e2
        · exact Or.inr ⟨rc.2, by rw [e2]; exact List.mem_cons_self⟩
      · exact Or.inr ⟨i, List.mem_cons_of_mem _ e⟩

theorem dec_size (a : Array (Option Int)) : (dec a).size = a.size := by unfold dec; simp
theorem dec_getD (a : Array (Option Int)) (i : Nat) : (dec a).getD i none = (a.getD i none).map (· - 1) := by
  unfold dec
  by_cases h : i < a.size
  · simp [Array.getD_eq_getD_getElem?, h]
  · simp [Array.getD_eq_getD_getElem?, h]

/-- sizes agree and every class a rule mentions is materialised -/
structure WFt (t : TM) : Prop where
  ss : t.shifts.size = t.rules.size
  us : t.usingC.size = t.value.size
  ps : t.pumpingC.size = t.value.size
  cls : ∀ idx, idx < t.rules.size → (rule t idx).parent < t.value.size ∧ ∀ c, c ∈ (rule t idx).children → c < t.value.size

/-- the shift arrays are the differences of the current values (rules whose parent is still finite) -/
def SI (t : TM) : Prop := ∀ idx, idx < t.rules.size → ∀ pv, t.val (rule t idx).parent = some pv →
  (t.shifts.getD idx #[]).size = (rule t idx).deps.length ∧
  ∀ i, i < (rule t idx).deps.length →
    sh t idx i = (t.val ((rule t idx).deps.getD i (0, 0)).1).map (fun fv => (fv : Int) + ((rule t idx).deps.getD i (0, 0)).2 - pv)

/-- the index lists of a finite class name exactly the rules it is the parent of / the positions where it is a child of a
rule with a finite parent, each once -/
structure IX (t : TM) : Prop where
  pump : ∀ c, t.val c ≠ none → (t.pumpingC.getD c []).Nodup ∧
    ∀ idx, idx ∈ t.pumpingC.getD c [] ↔ (idx < t.rules.size ∧ (rule t idx).parent = c)
  use : ∀ c, t.val c ≠ none → (t.usingC.getD c []).Nodup ∧
    ∀ idx i, (idx, i) ∈ t.usingC.getD c [] ↔
      (idx < t.rules.size ∧ i < (rule t idx).children.length ∧ (rule t idx).children.getD i 0 = c ∧
        t.val (rule t idx).parent ≠ none)

theorem deps_getD_fst (r : Rule) (i : Nat) (h : i < r.deps.length) : (r.deps.getD i (0, 0)).1 = r.children.getD i 0 := by
  unfold Rule.deps at *
  simp only [List.length_zip] at h
  have h1 : i < r.children.length := by omega
  have h2 : i < r.shifts.length := by omega
  have hz : (r.children.zip r.shifts)[i]? = some (r.children[i], r.shifts[i]) :=
    List.getElem?_zip_eq_some.2 ⟨List.getElem?_eq_getElem h1, List.getElem?_eq_getElem h2⟩
  rw [List.getD_eq_getElem?_getD, List.getD_eq_getElem?_getD, hz, List.getElem?_eq_getElem h1]
  rfl

theorem deps_le_children (r : Rule) : r.deps.length ≤ r.children.length := by
  unfold Rule.deps; simp only [List.length_zip]; omega

/-- the part of `_increase_value` that really increments -/
def bump (t : TM) (c cur : Nat) : TM :=
  let t1 := (fun (t : TM) => if t.gap.1 != t.preimageGap t.gapSize then t.correctGap else t)
    { t with value := t.value.setIfInBounds c (some (cur + 1)) }
  let t2 := (t1.pumpingC.getD c []).foldl pumpStep t1
  (t2.usingC.getD c []).foldl useStep t2

theorem increaseValue_cases (t : TM) (c idx : Nat) :
    (t.val c = none ∧ t.increaseValue c idx = t) ∨
    (∃ cur, t.val c = some cur ∧ cur > t.gap.2 ∧ t.increaseValue c idx = { t with holding := insertS idx t.holding }) ∨
    (∃ cur, t.val c = some cur ∧ ¬ cur > t.gap.2 ∧ t.increaseValue c idx = bump t c cur) := by
  rw [increaseValue_eq]
  cases hv : t.val c with
  | none => exact Or.inl ⟨rfl, rfl⟩
  | some cur =>
    by_cases hg : cur > t.gap.2
    · exact Or.inr (Or.inl ⟨cur, rfl, hg, by simp only [hg, ↓reduceIte]⟩)
    · exact Or.inr (Or.inr ⟨cur, rfl, hg, by simp only [hg, ↓reduceIte]; rfl⟩)

def gapfix (t : TM) : TM := if t.gap.1 != t.preimageGap t.gapSize then t.correctGap else t

theorem correctGap_frame (t : TM) :
    t.correctGap.value = t.value ∧ t.correctGap.shifts = t.shifts ∧ t.correctGap.rules = t.rules ∧
    t.correctGap.usingC = t.usingC ∧ t.correctGap.pumpingC = t.pumpingC ∧ t.correctGap.gapSize = t.gapSize ∧
    (∀ x, (x ∈ t.correctGap.queue ∨ x ∈ t.correctGap.holding) ↔ (x ∈ t.queue ∨ x ∈ t.holding)) ∧
    (∀ x, x ∈ t.queue → x ∈ t.correctGap.queue) := by
  unfold correctGap
  simp only
  split
  · refine ⟨rfl, rfl, rfl, rfl, rfl, rfl, ?_, ?_⟩
    · intro x; simp [List.mem_append]
    · intro x hx; exact List.mem_append_left _ hx
  · exact ⟨rfl, rfl, rfl, rfl, rfl, rfl, fun x => Iff.rfl, fun x hx => hx⟩

theorem gapfix_frame (t : TM) :
    (gapfix t).value = t.value ∧ (gapfix t).shifts = t.shifts ∧ (gapfix t).rules = t.rules ∧
    (gapfix t).usingC = t.usingC ∧ (gapfix t).pumpingC = t.pumpingC ∧ (gapfix t).gapSize = t.gapSize ∧
    (∀ x, (x ∈ (gapfix t).queue ∨ x ∈ (gapfix t).holding) ↔ (x ∈ t.queue ∨ x ∈ t.holding)) ∧
    (∀ x, x ∈ t.queue → x ∈ (gapfix t).queue) := by
  unfold gapfix
  split
  · exact correctGap_frame t
  · exact ⟨rfl, rfl, rfl, rfl, rfl, rfl, fun x => Iff.rfl, fun x hx => hx⟩

theorem bump_eq (t : TM) (c cur : Nat) :
    bump t c cur =
      ((((gapfix { t with value := t.value.setIfInBounds c (some (cur + 1)) }).pumpingC.getD c []).foldl pumpStep
          (gapfix { t with value := t.value.setIfInBounds c (some (cur + 1)) })).usingC.getD c []).foldl useStep
        (((gapfix { t with value := t.value.setIfInBounds c (some (cur + 1)) }).pumpingC.getD c []).foldl pumpStep
          (gapfix { t with value := t.value.setIfInBounds c (some (cur + 1)) })) := rfl

theorem rule_congr {t t' : TM} (h : t'.rules = t.rules) (idx : Nat) : rule t' idx = rule t idx := by
  unfold rule; rw [h]

theorem val_congr {t t' : TM} (h : t'.value = t.value) (x : Nat) : t'.val x = t.val x := by
  unfold val; rw [h]

/-- what one real increment does: the class goes up by one, the shift arrays follow, the index lists stay -/
theorem bump_spec (t : TM) (c cur : Nat) (hw : WFt t) (hs : SI t) (hx : IX t) (hc : c < t.value.size) (hv : t.val c = some cur) :
    (bump t c cur).rules = t.rules ∧ (bump t c cur).usingC = t.usingC ∧ (bump t c cur).pumpingC = t.pumpingC ∧
    (∀ x, (bump t c cur).val x = if x = c then some (cur + 1) else t.val x) ∧
    (bump t c cur).value.size = t.value.size ∧ (bump t c cur).shifts.size = t.shifts.size ∧
    SI (bump t c cur) := by
  rw [bump_eq]
  obtain ⟨g1, g2, g3, g4, g5, _, _, _⟩ := gapfix_frame { t with value := t.value.setIfInBounds c (some (cur + 1)) }
  generalize gapfix { t with value := t.value.setIfInBounds c (some (cur + 1)) } = t1 at g1 g2 g3 g4 g5
  simp only at g1 g2 g3 g4 g5
  have hpn := (hx.pump c (by rw [hv]; simp)).1
  have hpm := (hx.pump c (by rw [hv]; simp)).2
  have hun := (hx.use c (by rw [hv]; simp)).1
  have hum := (hx.use c (by rw [hv]; simp)).2
  obtain ⟨f2, s2, _⟩ := pumpFold_spec (t1.pumpingC.getD c []) t1 (by rw [g5]; exact hpn)
    (by intro r hr; rw [g5] at hr; rw [g2, hw.ss]; exact ((hpm r).1 hr).1)
  generalize (t1.pumpingC.getD c []).foldl pumpStep t1 = t2 at f2 s2
  obtain ⟨f3, z3, s3, _⟩ := useFold_spec (t2.usingC.getD c []) t2 (by rw [f2.usingC, g4]; exact hun)
    (by intro rc hr; rw [f2.usingC, g4] at hr; rw [f2.ssize, g2, hw.ss]; exact ((hum rc.1 rc.2).1 hr).1)
  generalize (t2.usingC.getD c []).foldl useStep t2 = t3 at f3 z3 s3
  have hrules : t3.rules = t.rules := by rw [f3.rules, f2.rules, g3]
  have hval : ∀ x, t3.val x = if x = c then some (cur + 1) else t.val x := by
    intro x
    unfold val
    rw [f3.value, f2.value, g1]
    by_cases e : x = c
    · subst e; rw [if_pos rfl]; exact getD_set_self _ _ _ _ hc
    · rw [if_neg e]; exact getD_set_ne _ _ _ _ _ (Ne.symm e)
  refine ⟨hrules, by rw [f3.usingC, f2.usingC, g4], by rw [f3.pumpingC, f2.pumpingC, g5], hval,
    by rw [f3.value, f2.value, g1]; exact Array.size_setIfInBounds, by rw [f3.ssize, f2.ssize, g2], ?_⟩
  -- SI
  intro idx hidx pv' hpv'
  rw [hrules] at hidx
  rw [rule_congr hrules] at hpv' ⊢
  have hpin : (rule t idx).parent = c ↔ idx ∈ t1.pumpingC.getD c [] := by
    rw [g5]; exact ⟨fun h => (hpm idx).2 ⟨hidx, h⟩, fun h => ((hpm idx).1 h).2⟩
  -- the old value of the parent
  have hpold : ∃ pv, t.val (rule t idx).parent = some pv ∧ (pv' : Int) = if (rule t idx).parent = c then (pv : Int) + 1 else pv := by
    rw [hval] at hpv'
    by_cases e : (rule t idx).parent = c
    · rw [if_pos e] at hpv'
      injection hpv' with hpv'
      refine ⟨cur, by rw [e]; exact hv, ?_⟩
      rw [if_pos e, ← hpv']; simp
    · rw [if_neg e] at hpv'
      exact ⟨pv', hpv', by rw [if_neg e]⟩
  obtain ⟨pv, hpv, hrel⟩ := hpold
  obtain ⟨hsz, hent⟩ := hs idx hidx pv hpv
  constructor
  · rw [z3 idx, s2 idx, g2]
    split
    · rw [dec_size]; exact hsz
    · exact hsz
  · intro i hi
    unfold sh
    rw [s3 idx i, s2 idx, g2]
    have hold := hent i hi
    unfold sh at hold
    have hchild := deps_getD_fst (rule t idx) i hi
    have hfin : t.val (rule t idx).parent ≠ none := by rw [hpv]; simp
    have huse : (idx, i) ∈ t2.usingC.getD c [] ↔ (rule t idx).children.getD i 0 = c := by
      rw [f2.usingC, g4, hum idx i]
      exact ⟨fun h => h.2.2.1, fun h => ⟨hidx, Nat.lt_of_lt_of_le hi (deps_le_children _), h, hfin⟩⟩
    rw [hchild] at hold ⊢
    rw [hval ((rule t idx).children.getD i 0)]
    by_cases ep : (rule t idx).parent = c
    · rw [if_pos (hpin.1 ep), dec_getD, hold]
      rw [if_pos ep] at hrel
      by_cases ec : (rule t idx).children.getD i 0 = c
      · rw [if_pos (huse.2 ec), if_pos ec, ec, hv]
        show some _ = some _
        congr 1
        rw [hrel]; dsimp only; push_cast; omega
      · rw [if_neg (fun h => ec (huse.1 h)), if_neg ec]
        cases hcv : t.val ((rule t idx).children.getD i 0) with
        | none => rfl
        | some fv => show some _ = some _; congr 1; rw [hrel]; dsimp only; omega
    · rw [if_neg (fun h => ep (hpin.2 h)), hold]
      rw [if_neg ep] at hrel
      by_cases ec : (rule t idx).children.getD i 0 = c
      · rw [if_pos (huse.2 ec), if_pos ec, ec, hv]
        show some _ = some _
        congr 1
        rw [hrel]; dsimp only; push_cast; omega
      · rw [if_neg (fun h => ec (huse.1 h)), if_neg ec]
        cases hcv : t.val ((rule t idx).children.getD i 0) with
        | none => rfl
        | some fv => show some _ = some _; congr 1; rw [hrel]

/-! ### `_set_infinite` -/

/-- inner loop: forget the positions of rule `ridx` in the `using` lists of its children -/
def dropUse (ridx : Nat) (t : TM) (ch : Nat) : TM :=
  { t with usingC := t.usingC.setIfInBounds ch ((t.usingC.getD ch []).filter (·.1 != ridx)) }

def dropRule (t : TM) (ridx : Nat) : TM := ((t.rules.getD ridx ⟨0, [], []⟩).children).foldl (dropUse ridx) t

/-- last loop: the class is infinite now, its positions in the shift arrays become `none` -/
def infStep (t : TM) (rc : Nat × Nat) : TM :=
  if canGive ((t.shifts.getD rc.1 #[]).setIfInBounds rc.2 none) then
    { t with shifts := t.shifts.setIfInBounds rc.1 ((t.shifts.getD rc.1 #[]).setIfInBounds rc.2 none), queue := t.queue ++ [rc.1] }
  else { t with shifts := t.shifts.setIfInBounds rc.1 ((t.shifts.getD rc.1 #[]).setIfInBounds rc.2 none) }

/-- the three stages of `_set_infinite` -/
def setVal (t : TM) (c : Nat) (v : Option Nat) : TM := { t with value := t.value.setIfInBounds c v }
def inf1 (t : TM) (c : Nat) : TM := ((setVal t c none).pumpingC.getD c []).foldl dropRule (setVal t c none)
def inf2 (t : TM) (c : Nat) : TM := { inf1 t c with pumpingC := (inf1 t c).pumpingC.setIfInBounds c [] }
def inf3 (t : TM) (c : Nat) : TM := ((inf2 t c).usingC.getD c []).foldl infStep (inf2 t c)

theorem setInfinite_eq (t : TM) (c : Nat) :
    t.setInfinite c =
      match t.val c with
      | none => t
      | some _ => { inf3 t c with usingC := (inf3 t c).usingC.setIfInBounds c [] } := by
  unfold setInfinite inf3 inf2 inf1 setVal dropRule dropUse infStep
  rfl

/-- fields that `dropUse` / `dropRule` leave alone -/
structure FrameU (t t' : TM) : Prop where
  value : t'.value = t.value
  rules : t'.rules = t.rules
  shifts : t'.shifts = t.shifts
  pumpingC : t'.pumpingC = t.pumpingC
  holding : t'.holding = t.holding
  queue : t'.queue = t.queue
  gap : t'.gap = t.gap
  gapSize : t'.gapSize = t.gapSize
  usize : t'.usingC.size = t.usingC.size

theorem FrameU.refl (t : TM) : FrameU t t := ⟨rfl, rfl, rfl, rfl, rfl, rfl, rfl, rfl, rfl⟩
theorem FrameU.trans {a b c : TM} (h1 : FrameU a b) (h2 : FrameU b c) : FrameU a c :=
  ⟨h2.value.trans h1.value, h2.rules.trans h1.rules, h2.shifts.trans h1.shifts, h2.pumpingC.trans h1.pumpingC,
   h2.holding.trans h1.holding, h2.queue.trans h1.queue, h2.gap.trans h1.gap, h2.gapSize.trans h1.gapSize, h2.usize.trans h1.usize⟩

theorem getD_setL {α : Type} (a : Array (List α)) (i j : Nat) (v : List α) :
    (a.setIfInBounds i v).getD j [] = if j = i ∧ i < a.size then v else a.getD j [] := by
  by_cases e : j = i
  · subst e
    by_cases h : j < a.size
    · rw [if_pos ⟨rfl, h⟩]; exact getD_set_self _ _ _ _ h
    · rw [if_neg (fun x => h x.2)]; exact getD_set_oob _ _ _ _ _ h
  · rw [if_neg (fun x => e x.1)]; exact getD_set_ne _ _ _ _ _ (Ne.symm e)

/-- after dropping the positions of the rules `P` (with children lists `ch`), what is left of the `using` list of `x` -/
theorem dropFold_spec (ridx : Nat) : ∀ (L : List Nat) (t : TM),
    FrameU t (L.foldl (dropUse ridx) t) ∧
    ∀ x, (L.foldl (dropUse ridx) t).usingC.getD x [] =
      if x ∈ L ∧ x < t.usingC.size then (t.usingC.getD x []).filter (·.1 != ridx) else t.usingC.getD x []
  | [], t => ⟨FrameU.refl t, fun x => by simp⟩
  | ch :: rest, t => by
    rw [List.foldl_cons]
    have f1 : FrameU t (dropUse ridx t ch) := ⟨rfl, rfl, rfl, rfl, rfl, rfl, rfl, rfl, Array.size_setIfInBounds⟩
    have s1 : ∀ x, (dropUse ridx t ch).usingC.getD x [] =
        if x = ch ∧ ch < t.usingC.size then (t.usingC.getD ch []).filter (·.1 != ridx) else t.usingC.getD x [] := by
      intro x; unfold dropUse; exact getD_setL _ _ _ _
    obtain ⟨f2, s2⟩ := dropFold_spec ridx rest (dropUse ridx t ch)
    refine ⟨f1.trans f2, ?_⟩
    intro x
    rw [s2 x, s1 x, f1.usize]
    by_cases e : x = ch
    · subst e
      by_cases hb : x < t.usingC.size
      · simp only [hb, and_true, List.mem_cons, true_or, ↓reduceIte]
        split
        · rw [List.filter_filter]; simp
        · rfl
      · simp [hb]
    · by_cases hr : x ∈ rest
      · simp [e, hr]
      · simp [e, hr]

theorem dropRule_spec (t : TM) (ridx : Nat) :
    FrameU t (dropRule t ridx) ∧
    ∀ x, (dropRule t ridx).usingC.getD x [] =
      if x ∈ (rule t ridx).children ∧ x < t.usingC.size then (t.usingC.getD x []).filter (·.1 != ridx) else t.usingC.getD x [] :=
  dropFold_spec ridx (rule t ridx).children t

theorem dropRules_spec : ∀ (P : List Nat) (t : TM),
    FrameU t (P.foldl dropRule t) ∧
    ∀ x, x < t.usingC.size → (P.foldl dropRule t).usingC.getD x [] =
      (t.usingC.getD x []).filter (fun e => !(P.any (fun r => e.1 == r && (rule t r).children.contains x)))
  | [], t => ⟨FrameU.refl t, fun x _ => by
      show t.usingC.getD x [] = List.filter (fun e => !([] : List Nat).any _) (t.usingC.getD x [])
      exact (List.filter_eq_self.2 (fun a _ => by simp)).symm⟩
  | r :: rest, t => by
    rw [List.foldl_cons]
    obtain ⟨f1, s1⟩ := dropRule_spec t r
    obtain ⟨f2, s2⟩ := dropRules_spec rest (dropRule t r)
    refine ⟨f1.trans f2, ?_⟩
    intro x hx
    rw [s2 x (by rw [f1.usize]; exact hx), s1 x]
    have hru : ∀ q, rule (dropRule t r) q = rule t q := fun q => rule_congr f1.rules q
    by_cases hm : x ∈ (rule t r).children
    · rw [if_pos ⟨hm, hx⟩, List.filter_filter]
      apply List.filter_congr
      intro e _
      have : (rule t r).children.contains x = true := List.contains_iff_mem.2 hm
      simp only [List.any_cons, hru, this, Bool.and_true, bne]
      generalize List.any rest _ = b
      cases (e.1 == r) <;> cases b <;> rfl
    · rw [if_neg (fun h => hm h.1)]
      apply List.filter_congr
      intro e _
      have : (rule t r).children.contains x = false := by
        cases hh : (rule t r).children.contains x with
        | true => exact absurd (List.contains_iff_mem.1 hh) hm
        | false => rfl
      simp only [List.any_cons, hru, this, Bool.and_false, Bool.false_or]

def none1 (a : Array (Option Int)) (i : Nat) : Array (Option Int) := a.setIfInBounds i none

theorem infStep_unfold (t : TM) (rc : Nat × Nat) : infStep t rc =
    if canGive (none1 (t.shifts.getD rc.1 #[]) rc.2) then
      { t with shifts := t.shifts.setIfInBounds rc.1 (none1 (t.shifts.getD rc.1 #[]) rc.2), queue := t.queue ++ [rc.1] }
    else { t with shifts := t.shifts.setIfInBounds rc.1 (none1 (t.shifts.getD rc.1 #[]) rc.2) } := rfl

theorem none1_size (a : Array (Option Int)) (i : Nat) : (none1 a i).size = a.size := by
  unfold none1; exact Array.size_setIfInBounds

theorem none1_getD (a : Array (Option Int)) (i j : Nat) :
    (none1 a i).getD j none = if j = i then (none : Option Int) else a.getD j none := by
  unfold none1
  by_cases e : j = i
  · subst e
    rw [if_pos rfl]
    by_cases h : j < a.size
    · exact getD_set_self _ _ _ _ h
    · rw [getD_set_oob _ _ _ _ _ h]
      simp [Array.getD_eq_getD_getElem?, h]
  · rw [if_neg e]; exact getD_set_ne _ _ _ _ _ (Ne.symm e)

theorem infStep_spec (t : TM) (rc : Nat × Nat) (hr : rc.1 < t.shifts.size) :
    Frame t (infStep t rc) ∧
    (∀ x, (infStep t rc).shifts.getD x #[] = if x = rc.1 then none1 (t.shifts.getD rc.1 #[]) rc.2 else t.shifts.getD x #[]) ∧
    (∀ x, x ∈ t.queue → x ∈ (infStep t rc).queue) ∧
    (canGive (none1 (t.shifts.getD rc.1 #[]) rc.2) = true → rc.1 ∈ (infStep t rc).queue) ∧
    (∀ x, x ∈ (infStep t rc).queue → x ∈ t.queue ∨ x = rc.1) := by
  have hs : ∀ x, (t.shifts.setIfInBounds rc.1 (none1 (t.shifts.getD rc.1 #[]) rc.2)).getD x #[] =
      if x = rc.1 then none1 (t.shifts.getD rc.1 #[]) rc.2 else t.shifts.getD x #[] := by
    intro x
    by_cases e : x = rc.1
    · rw [e, if_pos rfl]; exact getD_set_self _ _ _ _ hr
    · rw [if_neg e]; exact getD_set_ne _ _ _ _ _ (Ne.symm e)
  rw [infStep_unfold]
  by_cases hc : canGive (none1 (t.shifts.getD rc.1 #[]) rc.2) = true
  · rw [if_pos hc]
    refine ⟨⟨rfl, rfl, rfl, rfl, rfl, rfl, rfl, Array.size_setIfInBounds⟩, hs, ?_, ?_, ?_⟩
    · intro x hx; exact List.mem_append_left _ hx
    · intro _; exact List.mem_append_right _ (by simp)
    · intro x hx
      rcases List.mem_append.1 hx with e | e
      · exact Or.inl e
      · simp only [List.mem_singleton] at e; exact Or.inr e
  · rw [if_neg hc]
    refine ⟨⟨rfl, rfl, rfl, rfl, rfl, rfl, rfl, Array.size_setIfInBounds⟩, hs, fun x hx => hx, fun h => absurd h hc, fun x hx => Or.inl hx⟩

/-- entry `i` of rule `x` after the loop over the (distinct) positions `L`: one more for every listed position -/
theorem infFold_spec : ∀ (L : List (Nat × Nat)) (t : TM), L.Nodup → (∀ rc, rc ∈ L → rc.1 < t.shifts.size) →
    Frame t (L.foldl infStep t) ∧
    (∀ x, ((L.foldl infStep t).shifts.getD x #[]).size = (t.shifts.getD x #[]).size) ∧
    (∀ x i, ((L.foldl infStep t).shifts.getD x #[]).getD i none =
        if (x, i) ∈ L then none else (t.shifts.getD x #[]).getD i none) ∧
    (∀ x, x ∈ t.queue → x ∈ (L.foldl infStep t).queue) ∧
    (∀ x, (∃ i, (x, i) ∈ L) → canGive ((L.foldl infStep t).shifts.getD x #[]) = true → x ∈ (L.foldl infStep t).queue) ∧
    (∀ x, x ∈ (L.foldl infStep t).queue → x ∈ t.queue ∨ ∃ i, (x, i) ∈ L)
  | [], t, _, _ => by
    refine ⟨Frame.refl t, fun _ => rfl, fun x i => by simp, fun _ h => h, ?_, fun x h => Or.inl h⟩
    intro x hx; obtain ⟨i, h⟩ := hx; cases h
  | rc :: rs, t, hnd, hlt => by
    rw [List.foldl_cons]
    obtain ⟨f1, s1, q1, g1, b1⟩ := infStep_spec t rc (hlt rc List.mem_cons_self)
    have hnd' := List.nodup_cons.1 hnd
    obtain ⟨f2, z2, s2, q2, g2, b2⟩ := infFold_spec rs (infStep t rc) hnd'.2
      (fun x hx => by rw [f1.ssize]; exact hlt x (List.mem_cons_of_mem _ hx))
    refine ⟨f1.trans f2, ?_, ?_, fun x hx => q2 x (q1 x hx), ?_, ?_⟩
    · intro x
      rw [z2 x, s1 x]
      split
      · rename_i e; rw [e, none1_size]
      · rfl
    · intro x i
      rw [s2 x i, s1 x]
      by_cases e : x = rc.1
      · rw [if_pos e, none1_getD]
        by_cases e2 : i = rc.2
        · have hrc : (x, i) = rc := by cases rc; simp_all
          have hnot : (x, i) ∉ rs := by rw [hrc]; exact hnd'.1
          rw [if_neg hnot, if_pos e2, if_pos (by rw [hrc]; exact List.mem_cons_self)]
        · rw [if_neg e2]
          have hne : (x, i) ≠ rc := by intro h; apply e2; rw [← h]
          by_cases hm : (x, i) ∈ rs
          · rw [if_pos hm, if_pos (List.mem_cons_of_mem _ hm)]
          · rw [if_neg hm, if_neg (by intro h; rcases List.mem_cons.1 h with a | a; exact hne a; exact hm a), e]
      · rw [if_neg e]
        have hne : (x, i) ≠ rc := by intro h; apply e; rw [← h]
        by_cases hm : (x, i) ∈ rs
        · rw [if_pos hm, if_pos (List.mem_cons_of_mem _ hm)]
        · rw [if_neg hm, if_neg (by intro h; rcases List.mem_cons.1 h with a | a; exact hne a; exact hm a)]
    · intro x ⟨i, hm⟩ hc
      by_cases hx : ∃ j, (x, j) ∈ rs
      · exact g2 x hx hc
      · -- the last update of `x` was this step: the array it checked is the final one
        have hi : (x, i) = rc := by
          rcases List.mem_cons.1 hm with a | a
          · exact a
          · exact absurd ⟨i, a⟩ hx
        have hx1 : x = rc.1 := by rw [← hi]
        have hfin : (rs.foldl infStep (infStep t rc)).shifts.getD x #[] = (infStep t rc).shifts.getD x #[] := by
          apply ext_getD _ _ (z2 x)
          intro j
          have := s2 x j
          rw [if_neg (fun h => hx ⟨j, h⟩)] at this
          exact this
        rw [hfin, s1 x, if_pos hx1] at hc
        exact q2 x (by rw [hx1]; exact g1 hc)
    · intro x hx
      rcases b2 x hx with e | ⟨i, e⟩
      · rcases b1 x e with e2 | e2
        · exact Or.inl e2
        · exact Or.inr ⟨rc.2, by rw [e2]; exact List.mem_cons_self⟩
      · exact Or.inr ⟨i, List.mem_cons_of_mem _ e⟩


theorem mem_children_of_getD {r : Rule} {i x : Nat} (hi : i < r.children.length) (h : r.children.getD i 0 = x) : x ∈ r.children := by
  rw [← h, List.getD_eq_getElem?_getD, List.getElem?_eq_getElem hi]
  exact List.getElem_mem hi


def inf4 (t : TM) (c : Nat) : TM := { inf3 t c with usingC := (inf3 t c).usingC.setIfInBounds c [] }

theorem setInfinite_some (t : TM) (c v : Nat) (hv : t.val c = some v) : t.setInfinite c = inf4 t c := by
  rw [setInfinite_eq, hv]; rfl

/-- the fields of the state after `_set_infinite`, in terms of the state before -/
structure InfFields (t : TM) (c : Nat) : Prop where
  rules : (inf4 t c).rules = t.rules
  value : (inf4 t c).value = t.value.setIfInBounds c none
  pumpingC : (inf4 t c).pumpingC = t.pumpingC.setIfInBounds c []
  usingC : (inf4 t c).usingC = (inf1 t c).usingC.setIfInBounds c []
  usize : (inf1 t c).usingC.size = t.usingC.size
  ssize : (inf4 t c).shifts.size = t.shifts.size
  keep : ∀ x, t.val x ≠ none → ∀ e, e ∈ (inf1 t c).usingC.getD x [] ↔ (e ∈ t.usingC.getD x [] ∧ (rule t e.1).parent ≠ c)
  nodup : ∀ x, t.val x ≠ none → ((inf1 t c).usingC.getD x []).Nodup
  shsize : ∀ x, ((inf4 t c).shifts.getD x #[]).size = (t.shifts.getD x #[]).size
  shent : ∀ x i, ((inf4 t c).shifts.getD x #[]).getD i none =
      if (x, i) ∈ t.usingC.getD c [] ∧ (rule t x).parent ≠ c then none else (t.shifts.getD x #[]).getD i none

theorem inf_keep (t : TM) (c v : Nat) (hx : IX t) (hv : t.val c = some v) :
    (inf1 t c).usingC.size = t.usingC.size ∧
    (∀ x, t.val x ≠ none → ∀ e, e ∈ (inf1 t c).usingC.getD x [] ↔ (e ∈ t.usingC.getD x [] ∧ (rule t e.1).parent ≠ c)) ∧
    (∀ x, t.val x ≠ none → ((inf1 t c).usingC.getD x []).Nodup) ∧
    (inf1 t c).rules = t.rules ∧ (inf1 t c).shifts = t.shifts ∧ (inf1 t c).pumpingC = t.pumpingC ∧
    (inf1 t c).value = t.value.setIfInBounds c none := by
  have hpm := (hx.pump c (by rw [hv]; simp)).2
  obtain ⟨f1, u1⟩ := dropRules_spec ((setVal t c none).pumpingC.getD c []) (setVal t c none)
  have e1 : inf1 t c = ((setVal t c none).pumpingC.getD c []).foldl dropRule (setVal t c none) := rfl
  rw [← e1] at f1 u1
  have hP : (setVal t c none).pumpingC.getD c [] = t.pumpingC.getD c [] := rfl
  have hU : (setVal t c none).usingC = t.usingC := rfl
  have hR : ∀ q, rule (setVal t c none) q = rule t q := fun q => rfl
  rw [hP] at u1
  rw [hU] at u1
  have usz : (inf1 t c).usingC.size = t.usingC.size := f1.usize
  refine ⟨usz, ?_, ?_, f1.rules, f1.shifts, f1.pumpingC, f1.value⟩
  · intro x hxv e
    by_cases hlt : x < t.usingC.size
    · rw [u1 x hlt, List.mem_filter]
      constructor
      · rintro ⟨h1, h2⟩
        refine ⟨h1, ?_⟩
        intro hp
        obtain ⟨a1, a2, a3, _⟩ := ((hx.use x hxv).2 e.1 e.2).1 (by cases e; exact h1)
        have : (t.pumpingC.getD c []).any (fun r => e.1 == r && (rule (setVal t c none) r).children.contains x) = true := by
          apply List.any_eq_true.2
          refine ⟨e.1, (hpm e.1).2 ⟨a1, hp⟩, ?_⟩
          rw [hR]
          simp only [beq_self_eq_true, Bool.true_and]
          exact List.contains_iff_mem.2 (mem_children_of_getD a2 a3)
        rw [this] at h2; cases h2
      · rintro ⟨h1, h2⟩
        refine ⟨h1, ?_⟩
        cases hany : (t.pumpingC.getD c []).any (fun r => e.1 == r && (rule (setVal t c none) r).children.contains x) with
        | false => rfl
        | true =>
          obtain ⟨r, hr, hb⟩ := List.any_eq_true.1 hany
          simp only [Bool.and_eq_true, beq_iff_eq] at hb
          rw [← hb.1] at hr
          exact absurd ((hpm e.1).1 hr).2 h2
    · have z1 : (inf1 t c).usingC.getD x [] = [] := by
        simp [Array.getD_eq_getD_getElem?, usz, hlt]
      have z2 : t.usingC.getD x [] = [] := by simp [Array.getD_eq_getD_getElem?, hlt]
      rw [z1, z2]; simp
  · intro x hxv
    by_cases hlt : x < t.usingC.size
    · rw [u1 x hlt]; exact ((hx.use x hxv).1).filter _
    · have z1 : (inf1 t c).usingC.getD x [] = [] := by simp [Array.getD_eq_getD_getElem?, usz, hlt]
      rw [z1]; exact List.nodup_nil

theorem inf_fields (t : TM) (c v : Nat) (hw : WFt t) (hx : IX t) (hv : t.val c = some v) : InfFields t c := by
  obtain ⟨k1, k2, k3, k4, k5, k6, k7⟩ := inf_keep t c v hx hv
  have hum := (hx.use c (by rw [hv]; simp)).2
  have e2u : (inf2 t c).usingC = (inf1 t c).usingC := rfl
  have e2s : (inf2 t c).shifts = t.shifts := k5
  have hU : ∀ e, e ∈ (inf2 t c).usingC.getD c [] ↔ (e ∈ t.usingC.getD c [] ∧ (rule t e.1).parent ≠ c) := by
    rw [e2u]; exact k2 c (by rw [hv]; simp)
  obtain ⟨f3, z3, s3, _⟩ := infFold_spec ((inf2 t c).usingC.getD c []) (inf2 t c) (by rw [e2u]; exact k3 c (by rw [hv]; simp))
    (by intro rc hr; rw [e2s, hw.ss]; exact ((hum rc.1 rc.2).1 (by cases rc; exact ((hU _).1 hr).1)).1)
  have e3 : inf3 t c = ((inf2 t c).usingC.getD c []).foldl infStep (inf2 t c) := rfl
  rw [← e3] at f3 z3 s3
  refine ⟨?_, ?_, ?_, ?_, k1, ?_, k2, k3, ?_, ?_⟩
  · show (inf3 t c).rules = t.rules
    rw [f3.rules]; exact k4
  · show (inf3 t c).value = _
    rw [f3.value]; exact k7
  · show (inf3 t c).pumpingC = _
    rw [f3.pumpingC]; show (inf1 t c).pumpingC.setIfInBounds c [] = _; rw [k6]
  · show (inf3 t c).usingC.setIfInBounds c [] = _
    rw [f3.usingC]; rfl
  · show (inf3 t c).shifts.size = _
    rw [f3.ssize, e2s]
  · intro x
    show ((inf3 t c).shifts.getD x #[]).size = _
    rw [z3 x, e2s]
  · intro x i
    show ((inf3 t c).shifts.getD x #[]).getD i none = _
    rw [s3 x i, e2s]
    by_cases h : (x, i) ∈ (inf2 t c).usingC.getD c []
    · rw [if_pos h, if_pos ((hU (x, i)).1 h)]
    · rw [if_neg h, if_neg (fun h2 => h ((hU (x, i)).2 h2))]

theorem inf4_val (t : TM) (c : Nat) (F : InfFields t c) (hc : c < t.value.size) (x : Nat) :
    (inf4 t c).val x = if x = c then none else t.val x := by
  unfold val
  rw [F.value]
  by_cases e : x = c
  · subst e; rw [if_pos rfl]; exact getD_set_self _ _ _ _ hc
  · rw [if_neg e]; exact getD_set_ne _ _ _ _ _ (Ne.symm e)

theorem inf4_wf (t : TM) (c : Nat) (F : InfFields t c) (hw : WFt t) : WFt (inf4 t c) := by
  refine ⟨?_, ?_, ?_, ?_⟩
  · rw [F.ssize, F.rules]; exact hw.ss
  · rw [F.usingC, F.value, Array.size_setIfInBounds, Array.size_setIfInBounds, F.usize]; exact hw.us
  · rw [F.pumpingC, F.value, Array.size_setIfInBounds, Array.size_setIfInBounds]; exact hw.ps
  · intro idx hidx
    rw [F.rules] at hidx
    rw [rule_congr F.rules, F.value, Array.size_setIfInBounds]
    exact hw.cls idx hidx

theorem inf4_si (t : TM) (c : Nat) (F : InfFields t c) (hs : SI t) (hx : IX t) (hc : c < t.value.size)
    (hcv : t.val c ≠ none) : SI (inf4 t c) := by
  have hum := (hx.use c hcv).2
  intro idx hidx pv hpv
  rw [F.rules] at hidx
  rw [rule_congr F.rules] at hpv ⊢
  rw [inf4_val t c F hc] at hpv
  have hpc : (rule t idx).parent ≠ c := by intro e; rw [if_pos e] at hpv; cases hpv
  rw [if_neg hpc] at hpv
  obtain ⟨hsz, hent⟩ := hs idx hidx pv hpv
  constructor
  · rw [F.shsize]; exact hsz
  · intro i hi
    unfold sh
    rw [F.shent idx i]
    have hold := hent i hi
    unfold sh at hold
    have hchild := deps_getD_fst (rule t idx) i hi
    rw [hchild] at hold ⊢
    rw [inf4_val t c F hc]
    have hfin : t.val (rule t idx).parent ≠ none := by rw [hpv]; simp
    by_cases ec : (rule t idx).children.getD i 0 = c
    · have hin : (idx, i) ∈ t.usingC.getD c [] :=
        (hum idx i).2 ⟨hidx, Nat.lt_of_lt_of_le hi (deps_le_children _), ec, hfin⟩
      rw [if_pos ⟨hin, hpc⟩, if_pos ec]; rfl
    · have hnin : ¬ ((idx, i) ∈ t.usingC.getD c [] ∧ (rule t idx).parent ≠ c) := by
        intro h
        exact ec ((hum idx i).1 h.1).2.2.1
      rw [if_neg hnin, if_neg ec]; exact hold

theorem inf4_ix (t : TM) (c : Nat) (F : InfFields t c) (hx : IX t) (hc : c < t.value.size) : IX (inf4 t c) := by
  refine ⟨?_, ?_⟩
  · intro x hxv
    rw [inf4_val t c F hc] at hxv
    have hxc : x ≠ c := by intro e; rw [if_pos e] at hxv; exact hxv rfl
    rw [if_neg hxc] at hxv
    rw [F.pumpingC, getD_set_ne _ _ _ _ _ (Ne.symm hxc)]
    refine ⟨(hx.pump x hxv).1, ?_⟩
    intro idx
    rw [rule_congr F.rules, F.rules]
    exact (hx.pump x hxv).2 idx
  · intro x hxv
    rw [inf4_val t c F hc] at hxv
    have hxc : x ≠ c := by intro e; rw [if_pos e] at hxv; exact hxv rfl
    rw [if_neg hxc] at hxv
    rw [F.usingC, getD_set_ne _ _ _ _ _ (Ne.symm hxc)]
    refine ⟨F.nodup x hxv, ?_⟩
    intro idx i
    rw [rule_congr F.rules, F.keep x hxv (idx, i), (hx.use x hxv).2 idx i, inf4_val t c F hc, F.rules]
    constructor
    · rintro ⟨⟨a1, a2, a3, a4⟩, a5⟩
      exact ⟨a1, a2, a3, by rw [if_neg a5]; exact a4⟩
    · rintro ⟨a1, a2, a3, a4⟩
      have a5 : (rule t idx).parent ≠ c := by intro e; rw [if_pos e] at a4; exact a4 rfl
      rw [if_neg a5] at a4
      exact ⟨⟨a1, a2, a3, a4⟩, a5⟩

/-! ### `add_rule_key` -/

theorem getD_append_replicate_nil {α : Type} (a : Array (List α)) (k x : Nat) :
    (a ++ Array.replicate k []).getD x [] = a.getD x [] := by
  simp only [Array.getD_eq_getD_getElem?]
  by_cases h : x < a.size
  · rw [Array.getElem?_append_left h]
  · rw [Array.getElem?_append_right (by omega)]
    have : a[x]? = none := by simp [h]
    rw [this]
    by_cases h2 : x - a.size < k
    · simp [Array.getElem?_replicate, h2]
    · simp [Array.getElem?_replicate, h2]

theorem materialise_spec (t : TM) (c : Nat) (hsz : t.usingC.size = t.value.size ∧ t.pumpingC.size = t.value.size) :
    (t.materialise c).rules = t.rules ∧ (t.materialise c).shifts = t.shifts ∧
    (t.materialise c).queue = t.queue ∧ (t.materialise c).holding = t.holding ∧
    (t.materialise c).gap = t.gap ∧ (t.materialise c).gapSize = t.gapSize ∧
    (∀ x, (t.materialise c).val x = t.val x) ∧
    (∀ x, (t.materialise c).usingC.getD x [] = t.usingC.getD x []) ∧
    (∀ x, (t.materialise c).pumpingC.getD x [] = t.pumpingC.getD x []) ∧
    t.value.size ≤ (t.materialise c).value.size ∧ c < (t.materialise c).value.size ∧
    (t.materialise c).usingC.size = (t.materialise c).value.size ∧
    (t.materialise c).pumpingC.size = (t.materialise c).value.size := by
  have hv := materialise_val t c
  unfold materialise at hv ⊢
  split
  · rename_i h
    exact ⟨rfl, rfl, rfl, rfl, rfl, rfl, fun x => rfl, fun x => rfl, fun x => rfl, Nat.le_refl _, h, hsz.1, hsz.2⟩
  · rename_i h
    simp only [h, ↓reduceIte] at hv
    refine ⟨rfl, rfl, rfl, rfl, rfl, rfl, hv, fun x => getD_append_replicate_nil _ _ _, fun x => getD_append_replicate_nil _ _ _, ?_, ?_, ?_, ?_⟩
    · simp
    · simp; omega
    · simp; omega
    · simp; omega

structure TInv (t : TM) : Prop where
  wf : WFt t
  si : SI t
  ix : IX t

theorem TInv.of_same {t t' : TM} (h : TInv t) (hr : t'.rules = t.rules) (hs : t'.shifts = t.shifts)
    (hv : ∀ x, t'.val x = t.val x) (hu : ∀ x, t'.usingC.getD x [] = t.usingC.getD x [])
    (hp : ∀ x, t'.pumpingC.getD x [] = t.pumpingC.getD x []) (hsz : t.value.size ≤ t'.value.size)
    (hus : t'.usingC.size = t'.value.size) (hps : t'.pumpingC.size = t'.value.size) : TInv t' := by
  refine ⟨⟨by rw [hs, hr]; exact h.wf.ss, hus, hps, ?_⟩, ?_, ⟨?_, ?_⟩⟩
  · intro idx hidx
    rw [hr] at hidx
    rw [rule_congr hr]
    obtain ⟨a, b⟩ := h.wf.cls idx hidx
    exact ⟨Nat.lt_of_lt_of_le a hsz, fun c hc => Nat.lt_of_lt_of_le (b c hc) hsz⟩
  · intro idx hidx pv hpv
    rw [hr] at hidx
    rw [rule_congr hr] at hpv ⊢
    rw [hv] at hpv
    obtain ⟨a, b⟩ := h.si idx hidx pv hpv
    refine ⟨by rw [hs]; exact a, ?_⟩
    intro i hi
    have := b i hi
    unfold sh at this ⊢
    rw [hs, hv]; exact this
  · intro c hc
    rw [hv] at hc
    rw [hp]
    refine ⟨(h.ix.pump c hc).1, ?_⟩
    intro idx
    rw [rule_congr hr, hr]
    exact (h.ix.pump c hc).2 idx
  · intro c hc
    rw [hv] at hc
    rw [hu]
    refine ⟨(h.ix.use c hc).1, ?_⟩
    intro idx i
    rw [rule_congr hr, hr, hv]
    exact (h.ix.use c hc).2 idx i

theorem materialise_inv {t : TM} (h : TInv t) (c : Nat) :
    TInv (t.materialise c) ∧ (∀ x, (t.materialise c).val x = t.val x) ∧ c < (t.materialise c).value.size ∧
    t.value.size ≤ (t.materialise c).value.size ∧ (t.materialise c).rules = t.rules ∧ (t.materialise c).shifts = t.shifts ∧
    (t.materialise c).queue = t.queue ∧ (t.materialise c).holding = t.holding ∧ (t.materialise c).gap = t.gap ∧
    (t.materialise c).gapSize = t.gapSize := by
  obtain ⟨m1, m2, m3, m4, m5, m6, m7, m8, m9, m10, m11, m12, m13⟩ := materialise_spec t c ⟨h.wf.us, h.wf.ps⟩
  exact ⟨h.of_same m1 m2 m7 m8 m9 m10 m12 m13, m7, m11, m10, m1, m2, m3, m4, m5, m6⟩

theorem materialiseAll_inv : ∀ (L : List Nat) (t : TM), TInv t →
    TInv (L.foldl materialise t) ∧ (∀ x, (L.foldl materialise t).val x = t.val x) ∧
    (∀ c, c ∈ L → c < (L.foldl materialise t).value.size) ∧ t.value.size ≤ (L.foldl materialise t).value.size ∧
    (L.foldl materialise t).rules = t.rules ∧ (L.foldl materialise t).shifts = t.shifts ∧
    (L.foldl materialise t).queue = t.queue ∧ (L.foldl materialise t).holding = t.holding ∧
    (L.foldl materialise t).gap = t.gap ∧ (L.foldl materialise t).gapSize = t.gapSize
  | [], t, h => ⟨h, fun _ => rfl, fun c hc => (by cases hc), Nat.le_refl _, rfl, rfl, rfl, rfl, rfl, rfl⟩
  | c :: rest, t, h => by
    rw [List.foldl_cons]
    obtain ⟨a1, a2, a3, a4, a5, a6, a7, a8, a9, a10⟩ := materialise_inv h c
    obtain ⟨b1, b2, b3, b4, b5, b6, b7, b8, b9, b10⟩ := materialiseAll_inv rest (t.materialise c) a1
    refine ⟨b1, fun x => by rw [b2, a2], ?_, Nat.le_trans a4 b4, by rw [b5, a5], by rw [b6, a6], by rw [b7, a7],
      by rw [b8, a8], by rw [b9, a9], by rw [b10, a10]⟩
    intro x hx
    rcases List.mem_cons.1 hx with e | e
    · rw [e]; exact Nat.lt_of_lt_of_le a3 b4
    · exact b3 x e

/-- the shift array of a new rule, from the current values -/
def newShifts (t : TM) (r : Rule) : Array (Option Int) :=
  match t.val r.parent with
  | none => (r.deps.map (fun _ => (none : Option Int))).toArray
  | some pv => (r.deps.map (fun d => (t.val d.1).map (fun fv => (fv : Int) + d.2 - pv))).toArray

def pushRule (t : TM) (r : Rule) : TM := { t with rules := t.rules.push r, shifts := t.shifts.push (newShifts t r) }

def gapGrow (t : TM) (r : Rule) : TM :=
  if r.shifts.foldl (fun (g : Nat) (s : Int) => max g s.natAbs) 0 > t.gapSize then
    ({ t with gapSize := r.shifts.foldl (fun (g : Nat) (s : Int) => max g s.natAbs) 0 } : TM).correctGap
  else t

/-- one child position of the new rule `idx` -/
def regUse (idx : Nat) (t : TM) (ci : Nat × Nat) : TM :=
  match t.val ci.1 with
  | none => t
  | some _ => { t with usingC := t.usingC.setIfInBounds ci.1 (t.usingC.getD ci.1 [] ++ [(idx, ci.2)]) }

def register (t : TM) (r : Rule) : TM :=
  match t.val r.parent with
  | none => t
  | some _ =>
    { (r.children.zipIdx.foldl (regUse (t.rules.size - 1))
        ({ t with pumpingC := t.pumpingC.setIfInBounds r.parent (t.pumpingC.getD r.parent [] ++ [t.rules.size - 1]) } : TM)) with
      queue := (r.children.zipIdx.foldl (regUse (t.rules.size - 1))
        ({ t with pumpingC := t.pumpingC.setIfInBounds r.parent (t.pumpingC.getD r.parent [] ++ [t.rules.size - 1]) } : TM)).queue ++ [t.rules.size - 1] }

theorem addRuleKey_eq (t : TM) (r : Rule) (fuel : Nat) :
    t.addRuleKey r fuel =
      processQueue fuel (register (gapGrow (pushRule ((r.parent :: r.children).foldl materialise t) r) r) r) := by
  unfold addRuleKey register gapGrow pushRule newShifts regUse
  rfl

theorem regFold_spec (n : Nat) : ∀ (L : List (Nat × Nat)) (t : TM),
    FrameU t (L.foldl (regUse n) t) ∧
    ∀ x, (L.foldl (regUse n) t).usingC.getD x [] =
      if x < t.usingC.size then
        t.usingC.getD x [] ++ (L.filter (fun ci => ci.1 == x && (t.val ci.1 != none))).map (fun ci => (n, ci.2))
      else t.usingC.getD x []
  | [], t => ⟨FrameU.refl t, fun x => by simp⟩
  | ci :: rest, t => by
    rw [List.foldl_cons]
    have hstep : FrameU t (regUse n t ci) ∧ (∀ x, (regUse n t ci).usingC.getD x [] =
        if x = ci.1 ∧ ci.1 < t.usingC.size ∧ t.val ci.1 ≠ none then t.usingC.getD x [] ++ [(n, ci.2)] else t.usingC.getD x []) := by
      unfold regUse
      cases hv : t.val ci.1 with
      | none =>
        refine ⟨FrameU.refl t, fun x => ?_⟩
        rw [if_neg (fun h => h.2.2 rfl)]
      | some v =>
        refine ⟨⟨rfl, rfl, rfl, rfl, rfl, rfl, rfl, rfl, Array.size_setIfInBounds⟩, fun x => ?_⟩
        show (t.usingC.setIfInBounds ci.1 (t.usingC.getD ci.1 [] ++ [(n, ci.2)])).getD x [] = _
        rw [getD_setL]
        by_cases e : x = ci.1
        · by_cases hb : ci.1 < t.usingC.size
          · rw [if_pos ⟨e, hb⟩, if_pos ⟨e, hb, by simp⟩, e]
          · rw [if_neg (fun h => hb h.2), if_neg (fun h => hb h.2.1)]
        · rw [if_neg (fun h => e h.1), if_neg (fun h => e h.1)]
    obtain ⟨f1, s1⟩ := hstep
    obtain ⟨f2, s2⟩ := regFold_spec n rest (regUse n t ci)
    refine ⟨f1.trans f2, ?_⟩
    intro x
    have hval : ∀ y, (regUse n t ci).val y = t.val y := fun y => val_congr f1.value y
    rw [s2 x, f1.usize, s1 x]
    by_cases hb : x < t.usingC.size
    · rw [if_pos hb, if_pos hb]
      simp only [hval, List.filter_cons]
      by_cases e : x = ci.1
      · by_cases hv : t.val ci.1 ≠ none
        · rw [if_pos ⟨e, by rw [← e]; exact hb, hv⟩]
          have : (ci.1 == x && (t.val ci.1 != none)) = true := by simp [e, hv]
          rw [if_pos this]
          simp
        · rw [if_neg (fun h => hv h.2.2)]
          have : (ci.1 == x && (t.val ci.1 != none)) = false := by
            have : t.val ci.1 = none := by simpa using hv
            simp [this]
          rw [if_neg (by rw [this]; simp)]
      · rw [if_neg (fun h => e h.1)]
        have : (ci.1 == x && (t.val ci.1 != none)) = false := by
          have : (ci.1 == x) = false := by simpa using (Ne.symm e)
          simp [this]
        rw [if_neg (by rw [this]; simp)]
    · rw [if_neg hb, if_neg hb, if_neg (fun h => hb (by rw [h.1]; exact h.2.1))]

theorem getD_push_lt {α : Type} (a : Array α) (x d : α) (i : Nat) (h : i < a.size) : (a.push x).getD i d = a.getD i d := by
  simp [Array.getD_eq_getD_getElem?, Array.getElem?_push, Nat.ne_of_lt h]
theorem getD_push_eq {α : Type} (a : Array α) (x d : α) : (a.push x).getD a.size d = x := by
  simp [Array.getD_eq_getD_getElem?]

theorem gapGrow_frame (t : TM) (r : Rule) :
    (gapGrow t r).value = t.value ∧ (gapGrow t r).shifts = t.shifts ∧ (gapGrow t r).rules = t.rules ∧
    (gapGrow t r).usingC = t.usingC ∧ (gapGrow t r).pumpingC = t.pumpingC ∧
    (∀ x, (x ∈ (gapGrow t r).queue ∨ x ∈ (gapGrow t r).holding) ↔ (x ∈ t.queue ∨ x ∈ t.holding)) := by
  unfold gapGrow
  split
  · obtain ⟨a, b, c, d, e, _, g, _⟩ := correctGap_frame ({ t with gapSize := r.shifts.foldl (fun (g : Nat) (s : Int) => max g s.natAbs) 0 } : TM)
    exact ⟨a, b, c, d, e, g⟩
  · exact ⟨rfl, rfl, rfl, rfl, rfl, fun x => Iff.rfl⟩

/-- the state after the new rule is known to the index lists -/
structure RegFields (t1 : TM) (r : Rule) (t4 : TM) : Prop where
  rules : t4.rules = t1.rules.push r
  shifts : t4.shifts = t1.shifts.push (newShifts t1 r)
  value : t4.value = t1.value
  psize : t4.pumpingC.size = t1.pumpingC.size
  usize : t4.usingC.size = t1.usingC.size
  pump : ∀ x, t4.pumpingC.getD x [] =
    if x = r.parent ∧ t1.val r.parent ≠ none ∧ r.parent < t1.pumpingC.size then t1.pumpingC.getD x [] ++ [t1.rules.size]
    else t1.pumpingC.getD x []
  use : ∀ x, t4.usingC.getD x [] =
    if t1.val r.parent ≠ none ∧ x < t1.usingC.size then
      t1.usingC.getD x [] ++ (r.children.zipIdx.filter (fun ci => ci.1 == x && (t1.val ci.1 != none))).map (fun ci => (t1.rules.size, ci.2))
    else t1.usingC.getD x []
  qh : ∀ x, (x ∈ t4.queue ∨ x ∈ t4.holding) → (x ∈ t1.queue ∨ x ∈ t1.holding ∨ x = t1.rules.size)
  keepq : ∀ x, (x ∈ t1.queue ∨ x ∈ t1.holding) → (x ∈ t4.queue ∨ x ∈ t4.holding)
  newq : t1.val r.parent ≠ none → t1.rules.size ∈ t4.queue

theorem register_fields (t1 : TM) (r : Rule) :
    RegFields t1 r (register (gapGrow (pushRule t1 r) r) r) := by
  obtain ⟨g1, g2, g3, g4, g5, g6⟩ := gapGrow_frame (pushRule t1 r) r
  have hsz : (gapGrow (pushRule t1 r) r).rules.size - 1 = t1.rules.size := by
    rw [g3]; show (t1.rules.push r).size - 1 = _; simp
  have hval : ∀ x, (gapGrow (pushRule t1 r) r).val x = t1.val x := fun x => val_congr (g1.trans rfl) x
  generalize gapGrow (pushRule t1 r) r = t3 at g1 g2 g3 g4 g5 g6 hsz hval
  have g6' : ∀ x, (x ∈ t3.queue ∨ x ∈ t3.holding) ↔ (x ∈ t1.queue ∨ x ∈ t1.holding) := g6
  have g1' : t3.value = t1.value := g1
  have g2' : t3.shifts = t1.shifts.push (newShifts t1 r) := g2
  have g3' : t3.rules = t1.rules.push r := g3
  have g4' : t3.usingC = t1.usingC := g4
  have g5' : t3.pumpingC = t1.pumpingC := g5
  unfold register
  cases hv : t3.val r.parent with
  | none =>
    have hv1 : t1.val r.parent = none := by rw [← hval]; exact hv
    refine ⟨g3', g2', g1', by rw [g5'], by rw [g4'], ?_, ?_, ?_, ?_, ?_⟩
    · intro x; rw [if_neg (fun h => h.2.1 hv1), g5']
    · intro x; rw [if_neg (fun h => h.1 hv1), g4']
    · intro x hx
      rcases (g6' x).1 hx with a | a
      · exact Or.inl a
      · exact Or.inr (Or.inl a)
    · intro x hx; exact (g6' x).2 hx
    · intro hne; exact absurd hv1 hne
  | some pv =>
    have hv1 : t1.val r.parent ≠ none := by rw [← hval, hv]; simp
    simp only
    rw [hsz]
    obtain ⟨f, u⟩ := regFold_spec t1.rules.size r.children.zipIdx
      ({ t3 with pumpingC := t3.pumpingC.setIfInBounds r.parent (t3.pumpingC.getD r.parent [] ++ [t1.rules.size]) } : TM)
    generalize List.foldl (regUse t1.rules.size)
      ({ t3 with pumpingC := t3.pumpingC.setIfInBounds r.parent (t3.pumpingC.getD r.parent [] ++ [t1.rules.size]) } : TM) r.children.zipIdx = t5 at f u
    have fr : t5.rules = t3.rules := f.rules
    have fs : t5.shifts = t3.shifts := f.shifts
    have fv : t5.value = t3.value := f.value
    have fp : t5.pumpingC = t3.pumpingC.setIfInBounds r.parent (t3.pumpingC.getD r.parent [] ++ [t1.rules.size]) := f.pumpingC
    have fu : t5.usingC.size = t3.usingC.size := f.usize
    refine ⟨by show t5.rules = _; rw [fr, g3'], by show t5.shifts = _; rw [fs, g2'], by show t5.value = _; rw [fv, g1'],
      by show t5.pumpingC.size = _; rw [fp, Array.size_setIfInBounds, g5'], by show t5.usingC.size = _; rw [fu, g4'], ?_, ?_, ?_, ?_, ?_⟩
    · intro x
      show t5.pumpingC.getD x [] = _
      rw [fp, getD_setL, g5']
      by_cases e : x = r.parent
      · by_cases hb : r.parent < t1.pumpingC.size
        · rw [if_pos ⟨e, hb⟩, if_pos ⟨e, hv1, hb⟩, e]
        · rw [if_neg (fun h => hb h.2), if_neg (fun h => hb h.2.2)]
      · rw [if_neg (fun h => e h.1), if_neg (fun h => e h.1)]
    · intro x
      show t5.usingC.getD x [] = _
      rw [u x]
      show (if x < t3.usingC.size then _ else _) = _
      rw [g4']
      by_cases hb : x < t1.usingC.size
      · rw [if_pos hb, if_pos ⟨hv1, hb⟩]
        congr 2
        apply List.filter_congr
        intro ci _
        show (ci.1 == x && (t3.val ci.1 != none)) = _
        rw [hval]
      · rw [if_neg hb, if_neg (fun h => hb h.2)]
    · intro x hx
      have hq5 : t5.queue = t3.queue := f.queue
      have hh5 : t5.holding = t3.holding := f.holding
      rcases hx with a | a
      · have a' : x ∈ t5.queue ++ [t1.rules.size] := a
        rcases List.mem_append.1 a' with b | b
        · rw [hq5] at b
          rcases (g6' x).1 (Or.inl b) with c | c
          · exact Or.inl c
          · exact Or.inr (Or.inl c)
        · simp only [List.mem_singleton] at b; exact Or.inr (Or.inr b)
      · have a' : x ∈ t5.holding := a
        rw [hh5] at a'
        rcases (g6' x).1 (Or.inr a') with c | c
        · exact Or.inl c
        · exact Or.inr (Or.inl c)
    · intro x hx
      have hq5 : t5.queue = t3.queue := f.queue
      have hh5 : t5.holding = t3.holding := f.holding
      rcases (g6' x).2 hx with a | a
      · left; show x ∈ t5.queue ++ [t1.rules.size]; exact List.mem_append_left _ (by rw [hq5]; exact a)
      · right; show x ∈ t5.holding; rw [hh5]; exact a
    · intro _
      show t1.rules.size ∈ t5.queue ++ [t1.rules.size]
      exact List.mem_append_right _ (by simp)

theorem nodup_map_of_inj {α β : Type} (f : α → β) (hf : ∀ a b, f a = f b → a = b) :
    ∀ (l : List α), l.Nodup → (l.map f).Nodup
  | [], _ => List.nodup_nil
  | x :: xs, h => by
    simp only [List.map_cons, List.nodup_cons] at h ⊢
    refine ⟨?_, nodup_map_of_inj f hf xs h.2⟩
    intro hm
    obtain ⟨y, hy, e⟩ := List.mem_map.1 hm
    rw [hf y x e] at hy
    exact h.1 hy

theorem zipIdx_reg_nodup (l : List Nat) (p : Nat × Nat → Bool) (n : Nat) :
    ((l.zipIdx.filter p).map (fun ci => (n, ci.2))).Nodup := by
  have h1 : ((l.zipIdx.filter p).map (·.2)).Nodup := by
    have hsub : ((l.zipIdx.filter p).map (·.2)).Sublist (l.zipIdx.map (·.2)) := List.Sublist.map _ List.filter_sublist
    apply List.Nodup.sublist hsub
    rw [List.zipIdx_map_snd]
    exact List.nodup_range'
  have : (l.zipIdx.filter p).map (fun ci => (n, ci.2)) = ((l.zipIdx.filter p).map (·.2)).map (fun i => (n, i)) := by
    rw [List.map_map]; rfl
  rw [this]
  exact nodup_map_of_inj _ (by intro a b e; injection e) _ h1

theorem rule_push_lt (a : Array Rule) (r : Rule) (idx : Nat) (h : idx < a.size) : (a.push r).getD idx dfltRule = a.getD idx dfltRule :=
  getD_push_lt a r dfltRule idx h
theorem rule_push_eq (a : Array Rule) (r : Rule) : (a.push r).getD a.size dfltRule = r := getD_push_eq a r dfltRule

theorem newShifts_spec (t : TM) (r : Rule) (pv : Nat) (hv : t.val r.parent = some pv) :
    (newShifts t r).size = r.deps.length ∧
    ∀ i, i < r.deps.length → (newShifts t r).getD i none =
      (t.val (r.deps.getD i (0, 0)).1).map (fun fv => (fv : Int) + (r.deps.getD i (0, 0)).2 - pv) := by
  unfold newShifts
  rw [hv]
  refine ⟨by simp, ?_⟩
  intro i hi
  simp only [Array.getD_eq_getD_getElem?, List.getElem?_toArray, List.getElem?_map, List.getD_eq_getElem?_getD,
    List.getElem?_eq_getElem hi, Option.map_some, Option.getD_some]

/-- registering the new rule keeps the invariants -/
theorem register_inv (t1 : TM) (r : Rule) (t4 : TM) (h : TInv t1) (F : RegFields t1 r t4)
    (hp : r.parent < t1.value.size) (hch : ∀ c, c ∈ r.children → c < t1.value.size) : TInv t4 := by
  have hn : t4.rules.size = t1.rules.size + 1 := by rw [F.rules]; simp
  have hrl : ∀ idx, idx < t1.rules.size → rule t4 idx = rule t1 idx := by
    intro idx hi; unfold rule; rw [F.rules]; exact rule_push_lt _ _ _ hi
  have hrn : rule t4 t1.rules.size = r := by unfold rule; rw [F.rules]; exact rule_push_eq _ _
  have hval : ∀ x, t4.val x = t1.val x := fun x => val_congr F.value x
  have hsl : ∀ idx, idx < t1.rules.size → t4.shifts.getD idx #[] = t1.shifts.getD idx #[] := by
    intro idx hi; rw [F.shifts]; exact getD_push_lt _ _ _ _ (by rw [h.wf.ss]; exact hi)
  have hsn : t4.shifts.getD t1.rules.size #[] = newShifts t1 r := by
    rw [F.shifts, ← h.wf.ss]; exact getD_push_eq _ _ _
  have cases_idx : ∀ idx, idx < t4.rules.size → idx < t1.rules.size ∨ idx = t1.rules.size := by
    intro idx hi; rw [hn] at hi; omega
  refine ⟨⟨?_, ?_, ?_, ?_⟩, ?_, ⟨?_, ?_⟩⟩
  · rw [F.shifts, F.rules]; simp [h.wf.ss]
  · rw [F.usize, F.value]; exact h.wf.us
  · rw [F.psize, F.value]; exact h.wf.ps
  · intro idx hi
    rw [F.value]
    rcases cases_idx idx hi with e | e
    · rw [hrl idx e]; exact h.wf.cls idx e
    · rw [e, hrn]; exact ⟨hp, hch⟩
  · -- SI
    intro idx hi pv hpv
    rcases cases_idx idx hi with e | e
    · rw [hrl idx e] at hpv ⊢
      rw [hval] at hpv
      obtain ⟨a, b⟩ := h.si idx e pv hpv
      refine ⟨by rw [hsl idx e]; exact a, ?_⟩
      intro i hi2
      have := b i hi2
      unfold sh at this ⊢
      rw [hsl idx e, hval]; exact this
    · rw [e, hrn] at hpv ⊢
      rw [hval] at hpv
      obtain ⟨a, b⟩ := newShifts_spec t1 r pv hpv
      refine ⟨by rw [hsn]; exact a, ?_⟩
      intro i hi2
      unfold sh
      rw [hsn, hval]; exact b i hi2
  · -- IX.pump
    intro c hc
    rw [hval] at hc
    rw [F.pump c]
    obtain ⟨nd, mem⟩ := h.ix.pump c hc
    by_cases hcond : c = r.parent ∧ t1.val r.parent ≠ none ∧ r.parent < t1.pumpingC.size
    · rw [if_pos hcond]
      refine ⟨?_, ?_⟩
      · apply List.nodup_append.2
        refine ⟨nd, by simp, ?_⟩
        intro a ha b hb e
        simp only [List.mem_singleton] at hb
        have := ((mem a).1 ha).1
        omega
      · intro idx
        simp only [List.mem_append, List.mem_singleton]
        constructor
        · rintro (e | e)
          · have := (mem idx).1 e
            exact ⟨by rw [hn]; omega, by rw [hrl idx this.1]; exact this.2⟩
          · rw [e, hrn]; exact ⟨by rw [hn]; omega, hcond.1.symm⟩
        · rintro ⟨a, b⟩
          rcases cases_idx idx a with e | e
          · rw [hrl idx e] at b; exact Or.inl ((mem idx).2 ⟨e, b⟩)
          · exact Or.inr e
    · rw [if_neg hcond]
      refine ⟨nd, ?_⟩
      intro idx
      constructor
      · intro e
        have := (mem idx).1 e
        exact ⟨by rw [hn]; omega, by rw [hrl idx this.1]; exact this.2⟩
      · rintro ⟨a, b⟩
        rcases cases_idx idx a with e | e
        · rw [hrl idx e] at b; exact (mem idx).2 ⟨e, b⟩
        · exfalso
          rw [e, hrn] at b
          apply hcond
          refine ⟨b.symm, by rw [b]; exact hc, by rw [h.wf.ps]; exact hp⟩
  · -- IX.use
    intro c hc
    rw [hval] at hc
    rw [F.use c]
    obtain ⟨nd, mem⟩ := h.ix.use c hc
    have newmem : ∀ idx i, (idx, i) ∈ (r.children.zipIdx.filter (fun ci => ci.1 == c && (t1.val ci.1 != none))).map (fun ci => (t1.rules.size, ci.2)) ↔
        (idx = t1.rules.size ∧ i < r.children.length ∧ r.children.getD i 0 = c) := by
      intro idx i
      simp only [List.mem_map, List.mem_filter, Bool.and_eq_true, beq_iff_eq, bne_iff_ne, Prod.mk.injEq]
      constructor
      · rintro ⟨ci, ⟨hm, e1, _⟩, e2, e3⟩
        have := List.mem_zipIdx_iff_getElem?.1 hm
        have hlt : ci.2 < r.children.length := by
          apply Classical.byContradiction; intro hn2
          rw [List.getElem?_eq_none (by omega)] at this; cases this
        refine ⟨e2.symm, by rw [← e3]; exact hlt, ?_⟩
        rw [← e3, List.getD_eq_getElem?_getD, this]; exact e1
      · rintro ⟨e1, e2, e3⟩
        refine ⟨(c, i), ⟨?_, rfl, hc⟩, e1.symm, rfl⟩
        apply List.mem_zipIdx_iff_getElem?.2
        simp only
        rw [List.getD_eq_getElem?_getD, List.getElem?_eq_getElem e2] at e3
        rw [List.getElem?_eq_getElem e2]; simpa using e3
    by_cases hcond : t1.val r.parent ≠ none ∧ c < t1.usingC.size
    · rw [if_pos hcond]
      refine ⟨?_, ?_⟩
      · apply List.nodup_append.2
        refine ⟨nd, ?_, ?_⟩
        · exact zipIdx_reg_nodup _ _ _
        · intro a ha b hb e
          have h1 := (mem a.1 a.2).1 (by cases a; exact ha)
          have h2 := (newmem b.1 b.2).1 (by cases b; exact hb)
          rw [e] at h1
          omega
      · intro idx i
        rw [List.mem_append, newmem idx i, mem idx i, hval]
        constructor
        · rintro (⟨a1, a2, a3, a4⟩ | ⟨a1, a2, a3⟩)
          · exact ⟨by rw [hn]; omega, by rw [hrl idx a1]; exact a2, by rw [hrl idx a1]; exact a3, by rw [hrl idx a1]; exact a4⟩
          · rw [a1, hrn]; exact ⟨by rw [hn]; omega, a2, a3, hcond.1⟩
        · rintro ⟨a1, a2, a3, a4⟩
          rcases cases_idx idx a1 with e | e
          · rw [hrl idx e] at a2 a3 a4; exact Or.inl ⟨e, a2, a3, a4⟩
          · rw [e, hrn] at a2 a3; exact Or.inr ⟨e, a2, a3⟩
    · rw [if_neg hcond]
      refine ⟨nd, ?_⟩
      intro idx i
      rw [mem idx i, hval]
      constructor
      · rintro ⟨a1, a2, a3, a4⟩
        exact ⟨by rw [hn]; omega, by rw [hrl idx a1]; exact a2, by rw [hrl idx a1]; exact a3, by rw [hrl idx a1]; exact a4⟩
      · rintro ⟨a1, a2, a3, a4⟩
        rcases cases_idx idx a1 with e | e
        · rw [hrl idx e] at a2 a3 a4; exact ⟨e, a2, a3, a4⟩
        · exfalso
          rw [e, hrn] at a2 a3 a4
          apply hcond
          refine ⟨a4, ?_⟩
          rw [h.wf.us]
          exact hch c (mem_children_of_getD a2 a3)

/-- every index waiting in the queue or on hold is the index of a rule -/
def QV (t : TM) : Prop := ∀ idx, (idx ∈ t.queue ∨ idx ∈ t.holding) → idx < t.rules.size

theorem mem_insertS (x : Nat) : ∀ (l : List Nat) (y : Nat), y ∈ insertS x l → y = x ∨ y ∈ l
  | [], y, h => by simp [insertS] at h; exact Or.inl h
  | z :: zs, y, h => by
    unfold insertS at h
    split at h
    · rcases List.mem_cons.1 h with e | e
      · exact Or.inl e
      · exact Or.inr e
    · split at h
      · exact Or.inr h
      · rcases List.mem_cons.1 h with e | e
        · exact Or.inr (by rw [e]; exact List.mem_cons_self)
        · rcases mem_insertS x zs y e with e2 | e2
          · exact Or.inl e2
          · exact Or.inr (List.mem_cons_of_mem _ e2)

theorem TInv.congr {t t' : TM} (h : TInv t) (hr : t'.rules = t.rules) (hs : t'.shifts = t.shifts) (hv : t'.value = t.value)
    (hu : t'.usingC = t.usingC) (hp : t'.pumpingC = t.pumpingC) : TInv t' :=
  h.of_same hr hs (fun x => val_congr hv x) (fun x => by rw [hu]) (fun x => by rw [hp]) (by rw [hv]; exact Nat.le_refl _)
    (by rw [hu, hv]; exact h.wf.us) (by rw [hp, hv]; exact h.wf.ps)

theorem bump_inv (t : TM) (c cur : Nat) (h : TInv t) (hq : QV t) (hc : c < t.value.size) (hv : t.val c = some cur) :
    TInv (bump t c cur) ∧ QV (bump t c cur) ∧ (bump t c cur).rules = t.rules ∧
    (∀ x, (bump t c cur).val x = if x = c then some (cur + 1) else t.val x) := by
  obtain ⟨b1, b2, b3, b4, b5, b6, b7⟩ := bump_spec t c cur h.wf h.si h.ix hc hv
  have hne : ∀ x, (bump t c cur).val x ≠ none ↔ t.val x ≠ none := by
    intro x; rw [b4]
    by_cases e : x = c
    · rw [if_pos e, e, hv]; simp
    · rw [if_neg e]
  refine ⟨⟨⟨by rw [b6, b1]; exact h.wf.ss, by rw [b2, b5]; exact h.wf.us, by rw [b3, b5]; exact h.wf.ps, ?_⟩, b7, ⟨?_, ?_⟩⟩, ?_, b1, b4⟩
  · intro idx hi
    rw [b1] at hi
    rw [rule_congr b1, b5]; exact h.wf.cls idx hi
  · intro x hx
    rw [b3, rule_congr b1 |> fun f => (funext f : rule (bump t c cur) = rule t)]
    rw [b1]
    exact h.ix.pump x ((hne x).1 hx)
  · intro x hx
    have hr : rule (bump t c cur) = rule t := funext (rule_congr b1)
    rw [b2, hr, b1]
    obtain ⟨nd, mem⟩ := h.ix.use x ((hne x).1 hx)
    refine ⟨nd, ?_⟩
    intro idx i
    rw [mem idx i]
    constructor
    · rintro ⟨a1, a2, a3, a4⟩; exact ⟨a1, a2, a3, (hne _).2 a4⟩
    · rintro ⟨a1, a2, a3, a4⟩; exact ⟨a1, a2, a3, (hne _).1 a4⟩
  · -- queue validity
    rw [bump_eq]
    obtain ⟨g1, g2, g3, g4, g5, _, g7, _⟩ := gapfix_frame { t with value := t.value.setIfInBounds c (some (cur + 1)) }
    generalize gapfix { t with value := t.value.setIfInBounds c (some (cur + 1)) } = t1 at g1 g2 g3 g4 g5 g7
    simp only at g1 g2 g3 g4 g5 g7
    have hpn := (h.ix.pump c (by rw [hv]; simp)).1
    have hpm := (h.ix.pump c (by rw [hv]; simp)).2
    have hun := (h.ix.use c (by rw [hv]; simp)).1
    have hum := (h.ix.use c (by rw [hv]; simp)).2
    obtain ⟨f2, _, q2⟩ := pumpFold_spec (t1.pumpingC.getD c []) t1 (by rw [g5]; exact hpn)
      (by intro r hr; rw [g5] at hr; rw [g2, h.wf.ss]; exact ((hpm r).1 hr).1)
    generalize (t1.pumpingC.getD c []).foldl pumpStep t1 = t2 at f2 q2
    obtain ⟨f3, _, _, _, _, b3'⟩ := useFold_spec (t2.usingC.getD c []) t2 (by rw [f2.usingC, g4]; exact hun)
      (by intro rc hr; rw [f2.usingC, g4] at hr; rw [f2.ssize, g2, h.wf.ss]; exact ((hum rc.1 rc.2).1 hr).1)
    generalize (t2.usingC.getD c []).foldl useStep t2 = t3 at f3 b3'
    intro idx hidx
    rw [f3.rules, f2.rules, g3]
    rcases hidx with e | e
    · rcases b3' idx e with e2 | ⟨i, e2⟩
      · rcases (q2 idx).1 e2 with e3 | ⟨e3, _⟩
        · exact hq idx ((g7 idx).1 (Or.inl e3))
        · rw [g5] at e3; exact ((hpm idx).1 e3).1
      · rw [f2.usingC, g4] at e2; exact ((hum idx i).1 e2).1
    · rw [f3.holding, f2.holding] at e
      exact hq idx ((g7 idx).1 (Or.inr e))

theorem increaseValue_inv (t : TM) (c idx : Nat) (h : TInv t) (hq : QV t) (hc : c < t.value.size) (hidx : idx < t.rules.size) :
    TInv (t.increaseValue c idx) ∧ QV (t.increaseValue c idx) ∧ (t.increaseValue c idx).rules = t.rules := by
  rcases increaseValue_cases t c idx with ⟨_, e⟩ | ⟨cur, _, _, e⟩ | ⟨cur, hv, _, e⟩
  · rw [e]; exact ⟨h, hq, rfl⟩
  · rw [e]
    refine ⟨h.congr rfl rfl rfl rfl rfl, ?_, rfl⟩
    intro x hx
    rcases hx with a | a
    · exact hq x (Or.inl a)
    · rcases mem_insertS idx t.holding x a with b | b
      · rw [b]; exact hidx
      · exact hq x (Or.inr b)
  · rw [e]
    obtain ⟨a, b, c', _⟩ := bump_inv t c cur h hq hc hv
    exact ⟨a, b, c'⟩

theorem setInfinite_inv (t : TM) (c : Nat) (h : TInv t) (hq : QV t) (hc : c < t.value.size) :
    TInv (t.setInfinite c) ∧ QV (t.setInfinite c) ∧ (t.setInfinite c).rules = t.rules := by
  cases hv : t.val c with
  | none =>
    have : t.setInfinite c = t := by rw [setInfinite_eq, hv]
    rw [this]; exact ⟨h, hq, rfl⟩
  | some v =>
    rw [setInfinite_some t c v hv]
    have F := inf_fields t c v h.wf h.ix hv
    refine ⟨⟨inf4_wf t c F h.wf, inf4_si t c F h.si h.ix hc (by rw [hv]; simp), inf4_ix t c F h.ix hc⟩, ?_, F.rules⟩
    -- queue validity
    obtain ⟨k1, k2, k3, k4, k5, k6, k7⟩ := inf_keep t c v h.ix hv
    have hum := (h.ix.use c (by rw [hv]; simp)).2
    have e2u : (inf2 t c).usingC = (inf1 t c).usingC := rfl
    have hU : ∀ e, e ∈ (inf2 t c).usingC.getD c [] → e ∈ t.usingC.getD c [] := by
      intro e he; rw [e2u] at he; exact ((k2 c (by rw [hv]; simp) e).1 he).1
    obtain ⟨f3, _, _, _, _, b3⟩ := infFold_spec ((inf2 t c).usingC.getD c []) (inf2 t c) (by rw [e2u]; exact k3 c (by rw [hv]; simp))
      (by intro rc hr; show rc.1 < (inf1 t c).shifts.size; rw [k5, h.wf.ss]; exact ((hum rc.1 rc.2).1 (by cases rc; exact hU _ hr)).1)
    have e3 : inf3 t c = ((inf2 t c).usingC.getD c []).foldl infStep (inf2 t c) := rfl
    rw [← e3] at f3 b3
    obtain ⟨fq, _⟩ := dropRules_spec ((setVal t c none).pumpingC.getD c []) (setVal t c none)
    have e1 : inf1 t c = ((setVal t c none).pumpingC.getD c []).foldl dropRule (setVal t c none) := rfl
    rw [← e1] at fq
    intro idx hidx
    rw [F.rules]
    rcases hidx with e | e
    · have e' : idx ∈ (inf3 t c).queue := e
      rcases b3 idx e' with a | ⟨i, a⟩
      · have : idx ∈ t.queue := by
          have : (inf2 t c).queue = (inf1 t c).queue := rfl
          rw [this, fq.queue] at a; exact a
        exact hq idx (Or.inl this)
      · exact ((hum idx i).1 (hU _ a)).1
    · have e' : idx ∈ (inf3 t c).holding := e
      rw [f3.holding] at e'
      have : (inf2 t c).holding = (inf1 t c).holding := rfl
      rw [this, fq.holding] at e'
      exact hq idx (Or.inr e')

theorem processQueue_succ (fuel : Nat) (t : TM) :
    processQueue (fuel + 1) t =
      match t.queue with
      | idx :: q =>
        processQueue fuel (if canGive (t.shifts.getD idx #[]) then ({ t with queue := q } : TM).increaseValue (rule t idx).parent idx
          else ({ t with queue := q } : TM))
      | [] =>
        match t.holding with
        | [] => t
        | idx :: hd => processQueue fuel (({ t with holding := hd } : TM).setInfinite (rule t idx).parent) := by
  rw [processQueue]
  rfl

theorem processQueue_inv : ∀ (fuel : Nat) (t : TM), TInv t → QV t →
    TInv (processQueue fuel t) ∧ QV (processQueue fuel t) ∧ (processQueue fuel t).rules = t.rules
  | 0, t, h, hq => by rw [processQueue]; exact ⟨h, hq, rfl⟩
  | fuel + 1, t, h, hq => by
    rw [processQueue_succ]
    split
    · rename_i idx q hqe
      have hidx : idx < t.rules.size := hq idx (Or.inl (by rw [hqe]; exact List.mem_cons_self))
      have h0 : TInv ({ t with queue := q } : TM) := h.congr rfl rfl rfl rfl rfl
      have hq0 : QV ({ t with queue := q } : TM) := by
        intro x hx
        rcases hx with a | a
        · exact hq x (Or.inl (by rw [hqe]; exact List.mem_cons_of_mem _ a))
        · exact hq x (Or.inr a)
      by_cases hcg : canGive (t.shifts.getD idx #[]) = true
      · rw [if_pos hcg]
        have hc := (h.wf.cls idx hidx).1
        obtain ⟨a, b, c⟩ := increaseValue_inv ({ t with queue := q } : TM) (rule t idx).parent idx h0 hq0 hc hidx
        obtain ⟨a2, b2, c2⟩ := processQueue_inv fuel _ a b
        exact ⟨a2, b2, by rw [c2]; exact c⟩
      · rw [if_neg hcg]
        exact processQueue_inv fuel _ h0 hq0
    · split
      · exact ⟨h, hq, rfl⟩
      · rename_i hqe idx hd hhe
        have hidx : idx < t.rules.size := hq idx (Or.inr (by rw [hhe]; exact List.mem_cons_self))
        have h0 : TInv ({ t with holding := hd } : TM) := h.congr rfl rfl rfl rfl rfl
        have hq0 : QV ({ t with holding := hd } : TM) := by
          intro x hx
          rcases hx with a | a
          · exact hq x (Or.inl a)
          · exact hq x (Or.inr (by rw [hhe]; exact List.mem_cons_of_mem _ a))
        have hc := (h.wf.cls idx hidx).1
        obtain ⟨a, b, c⟩ := setInfinite_inv ({ t with holding := hd } : TM) (rule t idx).parent h0 hq0 hc
        obtain ⟨a2, b2, c2⟩ := processQueue_inv fuel _ a b
        exact ⟨a2, b2, by rw [c2]; exact c⟩

/-- **the invariants of the table-method model hold after every insertion** -/
theorem addRuleKey_inv (t : TM) (r : Rule) (fuel : Nat) (h : TInv t) (hq : QV t) :
    TInv (t.addRuleKey r fuel) ∧ QV (t.addRuleKey r fuel) ∧ (t.addRuleKey r fuel).rules = t.rules.push r := by
  rw [addRuleKey_eq]
  obtain ⟨m1, m2, m3, m4, m5, m6, m7, m8, _, _⟩ := materialiseAll_inv (r.parent :: r.children) t h
  generalize (r.parent :: r.children).foldl materialise t = t1 at m1 m2 m3 m4 m5 m6 m7 m8
  have F := register_fields t1 r
  generalize register (gapGrow (pushRule t1 r) r) r = t4 at F
  have h4 := register_inv t1 r t4 m1 F (m3 r.parent List.mem_cons_self) (fun c hc => m3 c (List.mem_cons_of_mem _ hc))
  have q4 : QV t4 := by
    intro x hx
    rw [F.rules]
    simp only [Array.size_push]
    rcases F.qh x hx with a | a | a
    · rw [m7] at a; have := hq x (Or.inl a); rw [m5]; omega
    · rw [m8] at a; have := hq x (Or.inr a); rw [m5]; omega
    · omega
  obtain ⟨a, b, c⟩ := processQueue_inv fuel t4 h4 q4
  exact ⟨a, b, by rw [c, F.rules, m5]⟩

theorem tinv_empty : TInv ({} : TM) ∧ QV ({} : TM) := by
  refine ⟨⟨⟨rfl, rfl, rfl, fun idx hi => by simp at hi⟩, fun idx hi => by simp at hi, ⟨?_, ?_⟩⟩, fun idx hi => by rcases hi with a | a <;> simp at a⟩
  · intro c _
    refine ⟨by simp [Array.getD_eq_getD_getElem?], ?_⟩
    intro idx
    simp [Array.getD_eq_getD_getElem?]
  · intro c _
    refine ⟨by simp [Array.getD_eq_getD_getElem?], ?_⟩
    intro idx i
    simp [Array.getD_eq_getD_getElem?]

/-- over any history of insertions: the shift arrays are the differences of the values, the index lists are exact -/
theorem tm_invariants (rs : List Rule) (fuel : Nat) :
    TInv (rs.foldl (fun t r => t.addRuleKey r fuel) {}) ∧ QV (rs.foldl (fun t r => t.addRuleKey r fuel) {}) ∧
    (rs.foldl (fun t r => t.addRuleKey r fuel) ({} : TM)).rules.toList = rs := by
  have aux : ∀ (rs : List Rule) (t : TM), TInv t → QV t →
      TInv (rs.foldl (fun t r => t.addRuleKey r fuel) t) ∧ QV (rs.foldl (fun t r => t.addRuleKey r fuel) t) ∧
      (rs.foldl (fun t r => t.addRuleKey r fuel) t).rules.toList = t.rules.toList ++ rs := by
    intro rs
    induction rs with
    | nil => intro t h hq; exact ⟨h, hq, by simp⟩
    | cons r rs ih =>
      intro t h hq
      rw [List.foldl_cons]
      obtain ⟨a, b, c⟩ := addRuleKey_inv t r fuel h hq
      obtain ⟨a2, b2, c2⟩ := ih _ a b
      exact ⟨a2, b2, by rw [c2, c]; simp⟩
  obtain ⟨a, b, c⟩ := aux rs {} tinv_empty.1 tinv_empty.2
  exact ⟨a, b, by rw [c]; simp⟩
#print axioms tm_invariants
end TM
