import CSSVerif.LfpRef
/-! Totality of the reference: a gap window always exists (pigeon-hole by jumping) and the fuel suffices. -/

theorem filter_len_lt {α : Type} (p q : α → Bool) : ∀ (l : List α), (∀ x, p x = true → q x = true) →
    (∃ x ∈ l, q x = true ∧ p x = false) → (l.filter p).length < (l.filter q).length
  | [], _, h => by obtain ⟨x, hx, _⟩ := h; cases hx
  | y :: ys, hpq, h => by
    have hle : (ys.filter p).length ≤ (ys.filter q).length := by
      clear h
      induction ys with
      | nil => simp
      | cons z zs ih =>
        simp only [List.filter_cons]
        cases hp : p z with
        | true => simp [hpq z hp]; exact ih
        | false => cases hq : q z <;> simp <;> omega
    obtain ⟨x, hx, hqx, hpx⟩ := h
    simp only [List.filter_cons]
    rcases List.mem_cons.1 hx with e | e
    · subst e
      simp [hqx, hpx]; omega
    · have ih := filter_len_lt p q ys hpq ⟨x, e, hqx, hpx⟩
      cases hp : p y with
      | true => simp [hpq y hp]; exact ih
      | false => cases hq : q y <;> simp <;> omega

/-- the jumping argument: starting at `k`, with at most `m` values `≥ k`, an empty window of width `G`
starts at some `k' ≤ k + m·G` -/
theorem window_exists (vals : List Nat) (G : Nat) : ∀ (m k : Nat),
    (vals.filter (fun v => decide (k ≤ v))).length ≤ m →
    ∃ k', k ≤ k' ∧ k' ≤ k + m * G ∧ ∀ v ∈ vals, v < k' ∨ k' + G ≤ v := by
  intro m
  induction m with
  | zero =>
    intro k h
    refine ⟨k, Nat.le_refl _, by simp, ?_⟩
    intro v hv
    left
    have : (vals.filter (fun v => decide (k ≤ v))) = [] := List.eq_nil_of_length_eq_zero (by omega)
    have hnot : v ∉ vals.filter (fun v => decide (k ≤ v)) := by rw [this]; simp
    simp only [List.mem_filter, decide_eq_true_eq, not_and] at hnot
    have := hnot hv
    omega
  | succ m ih =>
    intro k h
    by_cases hw : ∀ v ∈ vals, v < k ∨ k + G ≤ v
    · exact ⟨k, Nat.le_refl _, by omega, hw⟩
    · have : ∃ v ∈ vals, k ≤ v ∧ v < k + G := by
        apply Classical.byContradiction
        intro hno
        apply hw
        intro v hv
        by_cases h1 : v < k
        · exact Or.inl h1
        · right
          apply Nat.le_of_not_lt
          intro h2
          exact hno ⟨v, hv, by omega, h2⟩
      obtain ⟨v, hv, hkv, hvk⟩ := this
      have hlt := filter_len_lt (fun w => decide (v + 1 ≤ w)) (fun w => decide (k ≤ w)) vals
        (by intro x hx; simp only [decide_eq_true_eq] at hx ⊢; omega)
        ⟨v, hv, by simp [hkv], by simp⟩
      obtain ⟨k', h1, h2, h3⟩ := ih (v + 1) (by omega)
      refine ⟨k', by omega, ?_, h3⟩
      have : (m + 1) * G = m * G + G := by rw [Nat.add_mul, Nat.one_mul]
      omega

theorem gapStart_some (f : Array Nat) (G : Nat) (hG : 1 ≤ G) :
    ∃ k, gapStart f G ((f.size + 1) * G + 1) = some k := by
  obtain ⟨k', h1, h2, h3⟩ := window_exists f.toList G f.size 1
    (by exact Nat.le_trans (List.length_filter_le _ _) (by simp))
  have hk : windowOk f G ((f.size + 1) * G + 1) k' = true := by
    unfold windowOk
    simp only [Bool.and_eq_true, decide_eq_true_eq, Array.all_eq_true, Bool.or_eq_true]
    have e : (f.size + 1) * G = f.size * G + G := by rw [Nat.add_mul, Nat.one_mul]
    refine ⟨⟨h1, by omega⟩, ?_⟩
    intro i hi
    exact h3 f[i] (by simp)
  unfold gapStart
  have hmem : k' ∈ List.range ((f.size + 1) * G + 1 + 1) := by
    have e : (f.size + 1) * G = f.size * G + G := by rw [Nat.add_mul, Nat.one_mul]
    simp only [List.mem_range]; omega
  cases hf : (List.range ((f.size + 1) * G + 1 + 1)).find? (windowOk f G ((f.size + 1) * G + 1)) with
  | some k => exact ⟨k, rfl⟩
  | none =>
    have := List.find?_eq_none.1 hf k' hmem
    rw [hk] at this
    exact absurd rfl this
#print axioms gapStart_some

def Bounded (B : Nat) (f : Array Nat) : Prop := ∀ c, fget f c ≤ B
def headroomL (B : Nat) (l : List Nat) : Nat := (l.map (B - ·)).sum
def headroom (B : Nat) (f : Array Nat) : Nat := headroomL B f.toList

theorem upd_bounded {B : Nat} {f : Array Nat} (r : Rule) (h : Bounded B f) : Bounded B (upd B f r) := by
  unfold upd; simp only
  split
  · intro c
    rw [fget_set]
    split
    · exact minFold_le_acc f r.deps B
    · exact h c
  · exact h

theorem pass_bounded {B : Nat} (R : List Rule) {f : Array Nat} (h : Bounded B f) : Bounded B (pass R B f) := by
  induction R generalizing f with
  | nil => exact h
  | cons r R ih => simp only [pass, List.foldl_cons]; exact ih (upd_bounded r h)

theorem headroomL_lt (B : Nat) : ∀ (l l' : List Nat), l.length = l'.length →
    (∀ i, l.getD i 0 ≤ l'.getD i 0) → (∀ i, l'.getD i 0 ≤ B) → l' ≠ l → headroomL B l' < headroomL B l
  | [], [], _, _, _, hne => absurd rfl hne
  | [], _ :: _, hl, _, _, _ => by simp at hl
  | _ :: _, [], hl, _, _, _ => by simp at hl
  | x :: xs, y :: ys, hl, hle, hb, hne => by
    have hxy : x ≤ y := by simpa using hle 0
    have hyB : y ≤ B := by simpa using hb 0
    have hl' : xs.length = ys.length := by simpa using hl
    have hle' : ∀ i, xs.getD i 0 ≤ ys.getD i 0 := fun i => by simpa using hle (i+1)
    have hb' : ∀ i, ys.getD i 0 ≤ B := fun i => by simpa using hb (i+1)
    have hmono : headroomL B ys ≤ headroomL B xs := by
      clear hne hl hle hb
      induction xs generalizing ys with
      | nil => cases ys with
        | nil => exact Nat.le_refl _
        | cons _ _ => simp at hl'
      | cons a as ih =>
        cases ys with
        | nil => simp at hl'
        | cons b bs =>
          have h0 : a ≤ b := by simpa using hle' 0
          have := ih bs (by simpa using hl') (fun i => by simpa using hle' (i+1)) (fun i => by simpa using hb' (i+1))
          simp only [headroomL, List.map_cons, List.sum_cons] at *
          omega
    simp only [headroomL, List.map_cons, List.sum_cons]
    by_cases e : y = x
    · subst e
      have hne' : ys ≠ xs := fun e2 => hne (by rw [e2])
      have := headroomL_lt B xs ys hl' hle' hb' hne'
      simp only [headroomL] at this
      omega
    · simp only [headroomL] at hmono
      omega

theorem fget_toList (f : Array Nat) (c : Nat) : fget f c = f.toList.getD c 0 := by
  unfold fget; simp [List.getD_eq_getElem?_getD]

theorem iter_some {R : List Rule} {B : Nat} : ∀ (fuel : Nat) (f : Array Nat), Bounded B f →
    headroom B f < fuel → ∃ g, iter R B fuel f = some g
  | 0, _, _, h => by omega
  | fuel+1, f, hb, h => by
    simp only [iter]
    split
    · exact ⟨f, rfl⟩
    · rename_i hne
      have hb' := pass_bounded (B := B) R hb
      have hlt : headroom B (pass R B f) < headroom B f := by
        unfold headroom
        apply headroomL_lt B f.toList (pass R B f).toList
        · simp [pass_size]
        · intro i; rw [← fget_toList, ← fget_toList]; exact pass_ge R B f i
        · intro i; rw [← fget_toList]; exact hb' i
        · intro e; apply hne; exact Array.ext' e
      exact iter_some fuel _ hb' (by omega)

theorem headroom_zero (N B : Nat) : headroom B (Array.replicate N 0) = N * B := by
  unfold headroom headroomL
  simp

/-- the reference always answers -/
theorem lfpRef_some (R : List Rule) (N : Nat) : ∃ out, lfpRef R N = some out := by
  unfold lfpRef
  simp only
  have hb0 : Bounded ((N + 1) * maxAbs R + 1) (Array.replicate N 0) := by
    intro c; unfold fget; rw [Array.getElem?_replicate]; split <;> simp
  obtain ⟨f, hf⟩ := iter_some (R := R) (N * ((N + 1) * maxAbs R + 1) + 2) (Array.replicate N 0) hb0
    (by rw [headroom_zero]; omega)
  rw [hf]
  have hsize : f.size = N := by
    have := (iter_spec _ _ _ (sound_zero R N) hf).2.2
    simpa using this
  obtain ⟨k, hk⟩ := gapStart_some f (maxAbs R) (maxAbs_spec R).1
  rw [hsize] at hk
  simp only [hk]
  exact ⟨_, rfl⟩
#print axioms lfpRef_some

/-- decision procedure for "class `c` is pumping" -/
def pumps (R : List Rule) (N c : Nat) : Bool :=
  match lfpRef R N with
  | some out => out[c]? == some none
  | none => false

theorem pumps_iff (R : List Rule) (N c : Nat) (hwf : ∀ r ∈ R, r.parent < N) (hc : c < N) :
    pumps R N c = true ↔ ∀ n, Comp R c n := by
  obtain ⟨out, hout⟩ := lfpRef_some R N
  obtain ⟨_, hall⟩ := lfpRef_correct R N out hwf hout
  obtain ⟨h1, h2, h3⟩ := hall c hc
  unfold pumps
  rw [hout]
  simp only [beq_iff_eq]
  constructor
  · exact h1
  · intro hp
    cases hv : out[c]? with
    | none => exact absurd hv h3
    | some a =>
      cases a with
      | none => rfl
      | some v => exact absurd (hp v) (h2 v hv).2
#print axioms pumps_iff
