import CSSVerif.SeriesSpec
import CSSVerif.SeriesEq
import CSSVerif.MonoSubst
/-! C20 (checker): the equation of a disjoint union, evaluated on a table of terms, holds up to order `N` exactly when the
table satisfies the term recurrence of the union (C09) at every size up to `N`. -/

theorem landing_some (M : List (Param × Int)) (k : Param) : landing some M k = coeff M k := by
  induction M with
  | nil => rfl
  | cons e M ih =>
    rw [landing_cons, coeff_cons, ih]
    by_cases h : e.1 = k
    · rw [if_pos h, if_pos (by rw [h])]
    · rw [if_neg h, if_neg (by intro e1; injection e1 with e2; exact h e2)]

theorem foldl_addAt_cov : ∀ (es : List (Param × Int)) (acc : Terms),
    (∀ x ∈ acc.map (·.1), x ∈ (es.foldl (fun (a : Terms) e => a.addAt e.1 e.2) acc).map (·.1)) ∧
    (∀ m ∈ es, m.1 ∈ (es.foldl (fun (a : Terms) e => a.addAt e.1 e.2) acc).map (·.1))
  | [], acc => ⟨fun _ h => h, fun _ h => by cases h⟩
  | e :: es, acc => by
    obtain ⟨k1, k2⟩ := addAt_keys acc e.1 e.2
    obtain ⟨i1, i2⟩ := foldl_addAt_cov es (acc.addAt e.1 e.2)
    refine ⟨fun x hx => i1 x (k2 x hx), ?_⟩
    intro m hm
    rcases List.mem_cons.1 hm with rfl | hm
    · exact i1 _ k1
    · exact i2 m hm

/-- summing a list of contributions key by key represents that list -/
theorem foldl_addAt_rep (es : List (Param × Int)) : Rep (es.foldl (fun (a : Terms) e => a.addAt e.1 e.2) []) es := by
  obtain ⟨h1, h2⟩ := foldl_addAt_spec es [] (by simp [KeysNodup])
  refine ⟨h1, ?_, (foldl_addAt_cov es []).2⟩
  intro k
  rw [h2 k, coeff_nil, landing_some]; omega

theorem coeff_map_rekey (g : Param → Param) (k : Param) : ∀ (s : List (Param × Int)),
    coeff (s.map (fun e => (g e.1, e.2))) k = landing (fun m => some (g m)) s k
  | [] => rfl
  | e :: s => by
    rw [List.map_cons, coeff_cons, landing_cons, coeff_map_rekey g k s]
    by_cases h : g e.1 = k
    · rw [if_pos h, if_pos (by rw [h])]
    · rw [if_neg h, if_neg (by intro e1; injection e1 with e2; exact h e2)]

/-- padding re-keys: the coefficient at `k` collects the entries whose padded monomial is `k` -/
theorem pad_coeff (nv : Nat) (s : Ser) (k : Param) : coeff (Ser.pad nv s) k = landing (fun m => some (padMono nv m)) s k := by
  unfold Ser.pad
  have := (foldl_addAt_spec (s.map (fun e => (padMono nv e.1, e.2))) [] (by simp [KeysNodup])).2 k
  rw [List.foldl_map] at this
  rw [this, coeff_nil, coeff_map_rekey]; omega

/-- the contributions to `F_cls(x, args)`: one per term of the class, of x-degree at most `N` -/
def appContribs (tab : Nat → Nat → Terms) (N : Nat) (cls : Nat) (args : List Mono) : List (Param × Int) :=
  (List.range (N + 1)).flatMap (fun n => (tab cls n).filterMap (fun e =>
    if xdeg (substMono n e.1 args) ≤ N then some (substMono n e.1 args, e.2) else none))

theorem foldl_cond_addAt' (c : Param × Int → Bool) (g : Param × Int → Param) : ∀ (b : List (Param × Int)) (acc : Terms),
    b.foldl (fun acc e => if c e then acc.addAt (g e) e.2 else acc) acc =
    (b.filterMap (fun e => if c e then some (g e, e.2) else none)).foldl (fun (a : Terms) e => a.addAt e.1 e.2) acc
  | [], acc => rfl
  | e :: b, acc => by
    simp only [List.foldl_cons, List.filterMap_cons]
    by_cases h : c e = true
    · simp only [h, ↓reduceIte, List.foldl_cons]
      exact foldl_cond_addAt' c g b _
    · simp only [h, Bool.false_eq_true, ↓reduceIte]
      exact foldl_cond_addAt' c g b _

theorem appSeries_eq_fold (tab : Nat → Nat → Terms) (N : Nat) (cls : Nat) (args : List Mono) :
    appSeries tab N cls args = (appContribs tab N cls args).foldl (fun (a : Terms) e => a.addAt e.1 e.2) [] := by
  unfold appSeries appContribs
  rw [List.foldl_flatMap]
  congr 1
  funext acc n
  have := foldl_cond_addAt' (fun e => decide (xdeg (substMono n e.1 args) ≤ N)) (fun e => substMono n e.1 args) (tab cls n) acc
  simp only [decide_eq_true_eq] at this
  exact this

/-- **the meaning of a class function in an equation**: the coefficient of `F_cls(x, args)` at a (padded) monomial collects
the terms of the class whose substituted monomial pads to it -/
theorem app_coeff (tab : Nat → Nat → Terms) (nv N : Nat) (cls : Nat) (args : List Mono) (k : Param) :
    coeff (evalExpr tab nv N (.app cls args)) k = landing (fun m => some (padMono nv m)) (appContribs tab N cls args) k := by
  unfold evalExpr
  rw [pad_coeff, appSeries_eq_fold]
  exact landing_rep _ k _ _ (foldl_addAt_rep _)

theorem landing_flatMap (g : Param → Option Param) (k : Param) (f : Nat → List (Param × Int)) : ∀ (ns : List Nat),
    landing g (ns.flatMap f) k = (ns.map (fun n => landing g (f n) k)).sum
  | [] => rfl
  | n :: ns => by
    rw [List.flatMap_cons, landing_append, landing_flatMap g k f ns]; simp

theorem sum_single (n0 : Nat) (F : Nat → Int) : ∀ (ns : List Nat), ns.Nodup → (∀ n ∈ ns, n ≠ n0 → F n = 0) →
    (ns.map F).sum = if n0 ∈ ns then F n0 else 0
  | [], _, _ => rfl
  | n :: ns, hn, h => by
    simp only [List.nodup_cons] at hn
    rw [List.map_cons, List.sum_cons, sum_single n0 F ns hn.2 (fun x hx => h x (List.mem_cons_of_mem _ hx))]
    by_cases e : n = n0
    · subst e
      rw [if_neg hn.1, if_pos (List.mem_cons_self ..)]; omega
    · rw [h n (List.mem_cons_self ..) e]
      by_cases hm : n0 ∈ ns
      · rw [if_pos hm, if_pos (List.mem_cons_of_mem _ hm)]; omega
      · rw [if_neg hm, if_neg (by intro h2; rcases List.mem_cons.1 h2 with h2 | h2; exact e h2.symm; exact hm h2)]; omega

theorem xdeg_subst (m : List (List Nat)) (n : Nat) (p : Param) : xdeg (substMono n p (m.map argMono)) = n := by
  unfold xdeg substMono
  rw [substFold_getD, List.zip_map_right, List.map_map]
  have : ∀ (l : List (Nat × List Nat)), (l.map ((fun pa : Nat × Mono => pa.2.getD 0 0 * pa.1) ∘ Prod.map id argMono)).sum = 0 := by
    intro l; induction l with
    | nil => rfl
    | cons a l ih => simp only [List.map_cons, List.sum_cons, ih, Function.comp, Prod.map, id, argMono_getD_zero]; simp
  rw [this]; simp

/-- re-keying of a child's parameters into the parent's: `Constructor.param_map` -/
def rk (m : List (List Nat)) (r : Nat) : PMap := fun p => some (paramMapSum m r p)

theorem landing_filterMap_all (g : Param → Option Param) (k : Param) (h : Param × Int → Param) :
    ∀ (T : List (Param × Int)), landing g (T.filterMap (fun e => some (h e, e.2))) k = landing (fun p => g p) (T.map (fun e => (h e, e.2))) k
  | [] => rfl
  | e :: T => by simp only [List.filterMap_cons, List.map_cons]; rw [landing_cons, landing_cons, landing_filterMap_all g k h T]

/-- **substituting products of parent variables is `param_map`**: with `r` parent statistics and every child statistic
replaced by the product of the parent variables mapped to it, the coefficient of `F_cls` at the monomial `x^n · k^q` is the
number of terms of size `n` of the class that `param_map` sends to `q` (zero beyond the order `N`) -/
theorem app_coeff_struct (tab : Nat → Nat → Terms) (r N : Nat) (cls : Nat) (m : List (List Nat))
    (hm : ∀ ps ∈ m, ∀ q ∈ ps, q < r) (k : Param) :
    coeff (evalExpr tab (r + 1) N (.app cls (m.map argMono))) k =
      match k with
      | [] => 0
      | n0 :: q => if n0 ≤ N then landing (rk m r) (tab cls n0) q else 0 := by
  rw [app_coeff]
  unfold appContribs
  rw [landing_flatMap]
  -- the contributions of size `n`, re-keyed
  have hF : ∀ n, n ≤ N → ∀ k', landing (fun mo => some (padMono (r + 1) mo)) ((tab cls n).filterMap (fun e =>
      if xdeg (substMono n e.1 (m.map argMono)) ≤ N then some (substMono n e.1 (m.map argMono), e.2) else none)) k' =
      landing (fun p => some (n :: paramMapSum m r p)) (tab cls n) k' := by
    intro n hn k'
    induction (tab cls n) with
    | nil => rfl
    | cons e T ih =>
      rw [List.filterMap_cons, xdeg_subst, if_pos hn]
      simp only
      rw [landing_cons, landing_cons, ih, padMono_subst m r hm]
  have hrange : ∀ n ∈ List.range (N + 1), n ≤ N := fun n hn => by have := List.mem_range.1 hn; omega
  cases k with
  | nil =>
    simp only
    have : ∀ (ns : List Nat), (∀ n ∈ ns, n ≤ N) → (ns.map (fun n => landing (fun mo => some (padMono (r + 1) mo)) ((tab cls n).filterMap (fun e =>
      if xdeg (substMono n e.1 (m.map argMono)) ≤ N then some (substMono n e.1 (m.map argMono), e.2) else none)) [])).sum = 0 := by
      intro ns hns
      induction ns with
      | nil => rfl
      | cons n ns ih =>
        rw [List.map_cons, List.sum_cons, ih (fun x hx => hns x (List.mem_cons_of_mem _ hx)), hF n (hns n (List.mem_cons_self ..))]
        have : ∀ (T : List (Param × Int)), landing (fun p => some (n :: paramMapSum m r p)) T [] = 0 := by
          intro T; induction T with
          | nil => rfl
          | cons e T ih2 => rw [landing_cons, ih2, if_neg (by intro e1; injection e1 with e2; cases e2)]; rfl
        rw [this]; rfl
    exact this _ hrange
  | cons n0 q =>
    simp only
    rw [sum_single n0 _ _ List.nodup_range]
    · by_cases h0 : n0 ≤ N
      · rw [if_pos (List.mem_range.2 (by omega)), if_pos h0, hF n0 h0]
        unfold rk
        induction (tab cls n0) with
        | nil => rfl
        | cons e T ih =>
          rw [landing_cons, landing_cons, ih]
          by_cases e1 : paramMapSum m r e.1 = q
          · rw [if_pos (by rw [e1]), if_pos (by rw [e1])]
          · rw [if_neg (by intro e2; injection e2 with e3; injection e3 with _ e4; exact e1 e4),
                if_neg (by intro e2; injection e2 with e3; exact e1 e3)]
      · rw [if_neg (by intro h; have := List.mem_range.1 h; omega), if_neg h0]
    · intro n hn hne
      rw [hF n (hrange n hn)]
      induction (tab cls n) with
      | nil => rfl
      | cons e T ih =>
        rw [landing_cons, ih, if_neg (by intro e2; injection e2 with e3; injection e3 with e4 _; exact hne e4)]; rfl
#print axioms app_coeff_struct

/-- the right-hand side of a union equation: the sum of the children's functions -/
def sumApps (cs : List (Nat × List (List Nat))) : Expr :=
  cs.foldr (fun c e => .add (.app c.1 (c.2.map argMono)) e) (.const 0)

theorem sumApps_coeff (tab : Nat → Nat → Terms) (r N : Nat) : ∀ (cs : List (Nat × List (List Nat))),
    (∀ c ∈ cs, ∀ ps ∈ c.2, ∀ q ∈ ps, q < r) → ∀ (k : Param),
    coeff (evalExpr tab (r + 1) N (sumApps cs)) k =
      match k with
      | [] => 0
      | n0 :: q => if n0 ≤ N then (cs.map (fun c => landing (rk c.2 r) (tab c.1 n0) q)).sum else 0
  | [], _, k => by
    have : evalExpr tab (r + 1) N (sumApps []) = [] := by simp [sumApps, evalExpr]
    rw [this, coeff_nil]
    cases k with
    | nil => rfl
    | cons n0 q => simp
  | c :: cs, h, k => by
    have e1 : sumApps (c :: cs) = .add (.app c.1 (c.2.map argMono)) (sumApps cs) := rfl
    rw [e1]
    have := (Ser.add_spec (evalExpr tab (r + 1) N (.app c.1 (c.2.map argMono))) (evalExpr tab (r + 1) N (sumApps cs))
      (evalExpr_nodup _ _ _ _)).2 k
    have e2 : evalExpr tab (r + 1) N (.add (.app c.1 (c.2.map argMono)) (sumApps cs)) =
        (evalExpr tab (r + 1) N (.app c.1 (c.2.map argMono))).add (evalExpr tab (r + 1) N (sumApps cs)) := by
      rw [evalExpr]
    rw [e2, this, app_coeff_struct tab r N c.1 c.2 (h c (List.mem_cons_self ..)) k,
      sumApps_coeff tab r N cs (fun c' hc' => h c' (List.mem_cons_of_mem _ hc')) k]
    cases k with
    | nil => rfl
    | cons n0 q =>
      simp only [List.map_cons, List.sum_cons]
      by_cases h0 : n0 ≤ N
      · rw [if_pos h0, if_pos h0, if_pos h0]
      · rw [if_neg h0, if_neg h0, if_neg h0]; rfl

/-- **C20: a union equation holds up to order `N` iff the term recurrence of the union holds at every size up to `N`.**
`F_p(x, k) = Σ_c F_c(x, args_c)` - where `args_c` replaces each statistic of the child by the product of the parent
variables mapped to it - evaluates to an empty residual on a table of terms exactly when, for every size `n ≤ N` and every
parameter vector `q`, the parent's terms at `q` are the sum over the children of the terms that `param_map` sends to `q`. -/
theorem unionEq_iff_terms (tab : Nat → Nat → Terms) (r N : Nat) (p : Nat) (mp : List (List Nat))
    (cs : List (Nat × List (List Nat))) (hmp : ∀ ps ∈ mp, ∀ q ∈ ps, q < r) (hcs : ∀ c ∈ cs, ∀ ps ∈ c.2, ∀ q ∈ ps, q < r) :
    residual tab (r + 1) N (.app p (mp.map argMono)) (sumApps cs) = [] ↔
      ∀ n, n ≤ N → ∀ q, landing (rk mp r) (tab p n) q = (cs.map (fun c => landing (rk c.2 r) (tab c.1 n) q)).sum := by
  rw [residual_nil_iff]
  constructor
  · intro h n hn q
    have := h (n :: q) (by simpa [xdeg] using hn)
    rw [app_coeff_struct tab r N p mp hmp, sumApps_coeff tab r N cs hcs] at this
    simpa [hn] using this
  · intro h k hk
    rw [app_coeff_struct tab r N p mp hmp, sumApps_coeff tab r N cs hcs]
    cases k with
    | nil => rfl
    | cons n0 q =>
      have h0 : n0 ≤ N := by simpa [xdeg] using hk
      simp only [h0, ↓reduceIte]
      exact h n0 h0 q
#print axioms unionEq_iff_terms

/-! ### the parent's own variables: the identity map -/
def identMap (r : Nat) : List (List Nat) := (List.range r).map (fun j => [j])

theorem identSum (j : Nat) : ∀ (p : List Nat) (s : Nat),
    ((p.zip ((List.range' s p.length).map (fun i => [i]))).map
      (fun vm => (vm.2.map (fun q => if q = j then 1 else 0)).sum * vm.1)).sum = if s ≤ j ∧ j < s + p.length then p.getD (j - s) 0 else 0
  | [], s => by simp
  | v :: p, s => by
    rw [List.length_cons, List.range'_succ, List.map_cons, List.zip_cons_cons, List.map_cons, List.sum_cons, identSum j p (s + 1)]
    simp only [List.map_cons, List.map_nil, List.sum_cons, List.sum_nil]
    by_cases e : s = j
    · subst e
      rw [if_pos rfl, if_neg (by omega), if_pos (by omega)]
      simp
    · rw [if_neg e]
      by_cases h : s + 1 ≤ j ∧ j < s + 1 + p.length
      · rw [if_pos h, if_pos (by omega)]
        have : j - s = (j - (s + 1)) + 1 := by omega
        rw [this, List.getD_cons_succ]; omega
      · rw [if_neg h, if_neg (by omega)]; simp

theorem paramMapSum_ident (r : Nat) (p : Param) (hp : p.length = r) : paramMapSum (identMap r) r p = p := by
  apply List.ext_getElem
  · rw [paramMapSum_length, hp]
  · intro j h1 h2
    have e1 : (paramMapSum (identMap r) r p)[j] = (paramMapSum (identMap r) r p).getD j 0 := by
      rw [List.getD_eq_getElem?_getD, List.getElem?_eq_getElem h1]; rfl
    have e2 : p[j] = p.getD j 0 := by
      rw [List.getD_eq_getElem?_getD, List.getElem?_eq_getElem h2]; rfl
    rw [e1, e2]
    unfold paramMapSum
    rw [sumFold_getD j _ _ (by
      intro vm hvm q hq
      simp only [List.length_replicate]
      have := (List.of_mem_zip hvm).2
      unfold identMap at this
      obtain ⟨i, hi, hv⟩ := List.mem_map.1 this
      rw [← hv] at hq
      simp only [List.mem_singleton] at hq
      subst hq
      exact List.mem_range.1 hi)]
    have hz2 : (List.replicate r 0).getD j 0 = 0 := by
      rw [List.getD_eq_getElem?_getD, List.getElem?_replicate]; split <;> rfl
    rw [hz2]
    unfold identMap
    rw [List.range_eq_range', ← hp, identSum j p 0]
    rw [if_pos ⟨Nat.zero_le _, by omega⟩]
    simp

theorem landing_ident (r : Nat) (T : Terms) (hT : ∀ e ∈ T, e.1.length = r) (q : Param) : landing (rk (identMap r) r) T q = coeff T q := by
  induction T with
  | nil => rfl
  | cons e T ih =>
    rw [landing_cons, coeff_cons, ih (fun x hx => hT x (List.mem_cons_of_mem _ hx))]
    unfold rk
    rw [paramMapSum_ident r e.1 (hT e (List.mem_cons_self ..))]
    by_cases h : e.1 = q
    · rw [if_pos h, if_pos (by rw [h])]
    · rw [if_neg h, if_neg (by intro e1; injection e1 with e2; exact h e2)]

/-- the same with the parent's own variables on the left: the parent's coefficient at `q` -/
theorem unionEq_iff_terms_ident (tab : Nat → Nat → Terms) (r N : Nat) (p : Nat) (cs : List (Nat × List (List Nat)))
    (hp : ∀ n, ∀ e ∈ tab p n, e.1.length = r) (hcs : ∀ c ∈ cs, ∀ ps ∈ c.2, ∀ q ∈ ps, q < r) :
    residual tab (r + 1) N (.app p ((identMap r).map argMono)) (sumApps cs) = [] ↔
      ∀ n, n ≤ N → ∀ q, coeff (tab p n) q = (cs.map (fun c => landing (rk c.2 r) (tab c.1 n) q)).sum := by
  rw [unionEq_iff_terms tab r N p (identMap r) cs (by
    intro ps hps q hq
    unfold identMap at hps
    obtain ⟨i, hi, rfl⟩ := List.mem_map.1 hps
    simp only [List.mem_singleton] at hq
    subst hq
    exact List.mem_range.1 hi) hcs]
  constructor
  · intro h n hn q; rw [← landing_ident r (tab p n) (hp n) q]; exact h n hn q
  · intro h n hn q; rw [landing_ident r (tab p n) (hp n) q]; exact h n hn q
#print axioms unionEq_iff_terms_ident

/-- non-vacuity: a parent with two statistics, one child whose single statistic carries both (args `k₁·k₂`), one child without -/
example :
    let tab : Nat → Nat → Terms := fun c n => match c with
      | 0 => [([n, n], 1), ([0, 0], 1)]
      | 1 => [([n], 1)]
      | _ => [([], 1)]
    residual tab 3 4 (.app 0 ((identMap 2).map argMono)) (sumApps [(1, [[0, 1]]), (2, [])]) = [] := by decide +kernel

/-- **the meaning of `*` in an equation**: the coefficient of a product at a (padded) monomial collects one contribution per
pair of entries of the factors whose monomials add up to it, within the order `N` (truncated Cauchy product) -/
theorem mul_coeff (tab : Nat → Nat → Terms) (nv N : Nat) (a b : Expr) (k : Param) :
    coeff (evalExpr tab nv N (.mul a b)) k =
      landing (fun m => some (padMono nv m)) (mulContribs N (evalExpr tab nv N a) (evalExpr tab nv N b)) k := by
  have e : evalExpr tab nv N (.mul a b) = Ser.pad nv (Ser.mul N (evalExpr tab nv N a) (evalExpr tab nv N b)) := by rw [evalExpr]
  rw [e, pad_coeff, Ser.mul_eq_fold]
  exact landing_rep _ k _ _ (foldl_addAt_rep _)

theorem add_coeff (tab : Nat → Nat → Terms) (nv N : Nat) (a b : Expr) (k : Param) :
    coeff (evalExpr tab nv N (.add a b)) k = coeff (evalExpr tab nv N a) k + coeff (evalExpr tab nv N b) k := by
  have e : evalExpr tab nv N (.add a b) = (evalExpr tab nv N a).add (evalExpr tab nv N b) := by rw [evalExpr]
  rw [e]
  exact (Ser.add_spec _ _ (evalExpr_nodup _ _ _ _)).2 k
#print axioms mul_coeff
