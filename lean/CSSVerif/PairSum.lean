import CSSVerif.UnionEq
/-! C20 (checker): sums over pairs of contributions - the toolkit for the product equation. -/

theorem sum_map_add {α : Type} (F G : α → Int) : ∀ (l : List α), (l.map (fun a => F a + G a)).sum = (l.map F).sum + (l.map G).sum
  | [] => rfl
  | a :: l => by simp only [List.map_cons, List.sum_cons, sum_map_add F G l]; omega

theorem sum_map_zero {α : Type} : ∀ (l : List α), (l.map (fun _ => (0 : Int))).sum = 0
  | [] => rfl
  | a :: l => by simp only [List.map_cons, List.sum_cons, sum_map_zero l]; rfl

theorem sum_map_congr {α : Type} (F G : α → Int) (l : List α) (h : ∀ a ∈ l, F a = G a) : (l.map F).sum = (l.map G).sum := by
  rw [List.map_congr_left h]

theorem sum_map_mul_left {α : Type} (c : Int) (F : α → Int) : ∀ (l : List α), (l.map (fun a => c * F a)).sum = c * (l.map F).sum
  | [] => by simp
  | a :: l => by simp only [List.map_cons, List.sum_cons, sum_map_mul_left c F l, Int.mul_add]

theorem sum_flatMap_map {α β : Type} (f : α → List β) (g : β → Int) : ∀ (l : List α),
    ((l.flatMap f).map g).sum = (l.map (fun a => ((f a).map g).sum)).sum
  | [] => rfl
  | a :: l => by
    rw [List.flatMap_cons, List.map_append, List.sum_append, sum_flatMap_map f g l]; simp

theorem sum_comm {α β : Type} (X : α → β → Int) (B : List β) : ∀ (A : List α),
    (A.map (fun a => (B.map (fun b => X a b)).sum)).sum = (B.map (fun b => (A.map (fun a => X a b)).sum)).sum
  | [] => by simp only [List.map_nil, List.sum_nil]; exact (sum_map_zero B).symm
  | a :: A => by
    simp only [List.map_cons, List.sum_cons]
    rw [sum_comm X B A, ← sum_map_add]

theorem sum_range_le (n : Nat) (H : Nat → Int) : ∀ (d : Nat),
    ((List.range (n + d + 1)).map (fun i => if i ≤ n then H i else 0)).sum = ((List.range (n + 1)).map H).sum
  | 0 => by
    apply sum_map_congr
    intro i hi
    rw [if_pos (by have := List.mem_range.1 hi; omega)]
  | d + 1 => by
    have : n + (d + 1) + 1 = (n + d + 1) + 1 := by omega
    rw [this, List.range_succ, List.map_append, List.sum_append, sum_range_le n H d]
    simp only [List.map_cons, List.map_nil, List.sum_cons, List.sum_nil]
    rw [if_neg (by omega)]; omega

theorem landing_flatMapG {α : Type} (g : Param → Option Param) (k : Param) (f : α → List (Param × Int)) : ∀ (l : List α),
    landing g (l.flatMap f) k = (l.map (fun a => landing g (f a) k)).sum
  | [] => rfl
  | a :: l => by
    rw [List.flatMap_cons, landing_append, landing_flatMapG g k f l]; simp

/-- the weighted number of pairs of entries that `f` sends to `k` -/
def pairSum (f : Param → Param → Option Param) (A B : List (Param × Int)) (k : Param) : Int :=
  (A.map (fun ea => (B.map (fun eb => if f ea.1 eb.1 = some k then ea.2 * eb.2 else 0)).sum)).sum

theorem pairSum_right (f : Param → Param → Option Param) (A B : List (Param × Int)) (k : Param) :
    pairSum f A B k = (A.map (fun ea => ea.2 * landing (fun b => f ea.1 b) B k)).sum := by
  unfold pairSum
  apply sum_map_congr
  intro ea _
  induction B with
  | nil => simp [landing]
  | cons eb B ih =>
    rw [List.map_cons, List.sum_cons, ih, landing_cons, Int.mul_add]
    by_cases h : f ea.1 eb.1 = some k
    · rw [if_pos h, if_pos h]
    · rw [if_neg h, if_neg h]; simp

theorem pairSum_left (f : Param → Param → Option Param) (A B : List (Param × Int)) (k : Param) :
    pairSum f A B k = (B.map (fun eb => eb.2 * landing (fun a => f a eb.1) A k)).sum := by
  unfold pairSum
  rw [sum_comm]
  apply sum_map_congr
  intro eb _
  induction A with
  | nil => simp [landing]
  | cons ea A ih =>
    rw [List.map_cons, List.sum_cons, ih, landing_cons, Int.mul_add]
    by_cases h : f ea.1 eb.1 = some k
    · rw [if_pos h, if_pos h, Int.mul_comm]
    · rw [if_neg h, if_neg h]; simp

/-- two lists of contributions with the same weight under every re-keying -/
def SameLanding (A A' : List (Param × Int)) : Prop := ∀ (g : Param → Option Param) (k : Param), landing g A k = landing g A' k

theorem pairSum_congr (f : Param → Param → Option Param) {A A' B B' : List (Param × Int)} (hA : SameLanding A A')
    (hB : SameLanding B B') (k : Param) : pairSum f A B k = pairSum f A' B' k := by
  have h1 : pairSum f A B k = pairSum f A' B k := by
    rw [pairSum_left f A B, pairSum_left f A' B]
    apply sum_map_congr
    intro eb _
    rw [hA]
  have h2 : pairSum f A' B k = pairSum f A' B' k := by
    rw [pairSum_right f A' B, pairSum_right f A' B']
    apply sum_map_congr
    intro ea _
    rw [hB]
  rw [h1, h2]

theorem pairSum_flatMap_left (f : Param → Param → Option Param) (FA : Nat → List (Param × Int)) (B : List (Param × Int)) (k : Param)
    (ns : List Nat) : pairSum f (ns.flatMap FA) B k = (ns.map (fun n => pairSum f (FA n) B k)).sum := by
  unfold pairSum
  rw [sum_flatMap_map]

theorem pairSum_flatMap_right (f : Param → Param → Option Param) (A : List (Param × Int)) (FB : Nat → List (Param × Int)) (k : Param)
    (ns : List Nat) : pairSum f A (ns.flatMap FB) k = (ns.map (fun n => pairSum f A (FB n) k)).sum := by
  rw [pairSum_right]
  have : ∀ ea : Param × Int, ea.2 * landing (fun b => f ea.1 b) (ns.flatMap FB) k =
      (ns.map (fun n => ea.2 * landing (fun b => f ea.1 b) (FB n) k)).sum := by
    intro ea
    rw [landing_flatMapG, sum_map_mul_left]
  rw [sum_map_congr _ _ A (fun ea _ => this ea), sum_comm]
  apply sum_map_congr
  intro n _
  rw [pairSum_right]

/-- the contributions of a truncated product, re-keyed through `g`, are a sum over pairs -/
theorem landing_mulContribs (g : Param → Option Param) (N : Nat) (A B : Ser) (k : Param) :
    landing g (mulContribs N A B) k =
      pairSum (fun a b => if xdeg (monoAdd a b) ≤ N then g (monoAdd a b) else none) A B k := by
  unfold mulContribs pairSum
  rw [landing_flatMapG]
  apply sum_map_congr
  intro ea _
  induction B with
  | nil => rfl
  | cons eb B ih =>
    rw [List.filterMap_cons, List.map_cons, List.sum_cons, ← ih]
    by_cases h : xdeg (monoAdd ea.1 eb.1) ≤ N
    · simp only [h, ↓reduceIte]
      rw [landing_cons]
    · simp only [h, ↓reduceIte]
      simp
#print axioms landing_mulContribs
#print axioms pairSum_congr
