import CSSVerif.LfpRef
/-! Property theorems for C03 stated on the proven reference. -/

/-- the answer of class `c`: `none` = pumping, `some v` = exactly `v` computable terms -/
def Answer (R : List Rule) (c : Nat) (a : Option Nat) : Prop :=
  match a with
  | none => ∀ n, Comp R c n
  | some v => (∀ n, n < v → Comp R c n) ∧ ¬ Comp R c v

/-- an answer is unique: the specification determines it -/
theorem Answer.unique {R : List Rule} {c : Nat} {a b : Option Nat} (ha : Answer R c a) (hb : Answer R c b) : a = b := by
  cases a with
  | none =>
    cases b with
    | none => rfl
    | some v => exact absurd (ha v) hb.2
  | some v =>
    cases b with
    | none => exact absurd (hb v) ha.2
    | some w =>
      congr
      rcases Nat.lt_trichotomy v w with h | h | h
      · exact absurd (hb.1 v h) ha.2
      · exact h
      · exact absurd (ha.1 w h) hb.2

theorem Answer.congr {R R' : List Rule} (h : ∀ r, r ∈ R ↔ r ∈ R') {c : Nat} {a : Option Nat}
    (ha : Answer R c a) : Answer R' c a := by
  cases a with
  | none => exact fun n => (Comp.congr_rules h c n).1 (ha n)
  | some v => exact ⟨fun n hn => (Comp.congr_rules h c n).1 (ha.1 n hn), fun hc => ha.2 ((Comp.congr_rules h c v).2 hc)⟩

theorem lfpRef_answer {R : List Rule} {N : Nat} {out : Array (Option Nat)}
    (hwf : ∀ r ∈ R, r.parent < N) (h : lfpRef R N = some out) (c : Nat) (hc : c < N) :
    ∃ a, out[c]? = some a ∧ Answer R c a := by
  obtain ⟨_, hall⟩ := lfpRef_correct R N out hwf h
  obtain ⟨h1, h2, h3⟩ := hall c hc
  cases hv : out[c]? with
  | none => exact absurd hv h3
  | some a =>
    refine ⟨a, rfl, ?_⟩
    cases a with
    | none => exact h1 hv
    | some v => exact h2 v hv

/-- C03, order independence: any two insertion orders / groupings / repetitions of the same set of
rules give the same answer for every class. -/
theorem lfpRef_perm {R R' : List Rule} {N : Nat} {out out' : Array (Option Nat)}
    (hset : ∀ r, r ∈ R ↔ r ∈ R') (hwf : ∀ r ∈ R, r.parent < N)
    (h : lfpRef R N = some out) (h' : lfpRef R' N = some out') (c : Nat) (hc : c < N) :
    out[c]? = out'[c]? := by
  obtain ⟨a, ha, hA⟩ := lfpRef_answer hwf h c hc
  obtain ⟨b, hb, hB⟩ := lfpRef_answer (fun r hr => hwf r ((hset r).2 hr)) h' c hc
  rw [ha, hb, Answer.unique (hA.congr hset) hB]

/-- the order `0 < 1 < 2 < … < ∞` on answers -/
def ansLe : Option Nat → Option Nat → Prop
  | _, none => True
  | none, some _ => False
  | some v, some w => v ≤ w

/-- C03, monotonicity: adding rules never lowers an answer. -/
theorem lfpRef_mono {R R' : List Rule} {N : Nat} {out out' : Array (Option Nat)}
    (hsub : ∀ r, r ∈ R → r ∈ R') (hwf' : ∀ r ∈ R', r.parent < N)
    (h : lfpRef R N = some out) (h' : lfpRef R' N = some out') (c : Nat) (hc : c < N) :
    ∃ a b, out[c]? = some a ∧ out'[c]? = some b ∧ ansLe a b := by
  obtain ⟨a, ha, hA⟩ := lfpRef_answer (fun r hr => hwf' r (hsub r hr)) h c hc
  obtain ⟨b, hb, hB⟩ := lfpRef_answer hwf' h' c hc
  refine ⟨a, b, ha, hb, ?_⟩
  cases b with
  | none => trivial
  | some w =>
    cases a with
    | none => exact hB.2 (Comp.mono_rules hsub (hA w))
    | some v =>
      show v ≤ w
      apply Nat.le_of_not_lt
      intro hlt
      exact hB.2 (Comp.mono_rules hsub (hA.1 w hlt))
#print axioms lfpRef_perm
#print axioms lfpRef_mono
