import CSSVerif.QueueInv
/-! C16 clause 3: once the queue is drained, every added and never-stopped label has received all its work. -/

def nlKeys (q : Q) : List Nat := q.nextLevel.map (·.1)

theorem counterAdd_mem (c : List (Nat × Nat)) (l x : Nat) :
    x ∈ (counterAdd c l).map (·.1) ↔ x = l ∨ x ∈ c.map (·.1) := by
  unfold counterAdd
  split
  · rename_i hany
    have hm : (c.map (fun e => if e.1 == l then (e.1, e.2 + 1) else e)).map (·.1) = c.map (·.1) := by
      rw [List.map_map]; apply List.map_congr_left; intro e _; simp only [Function.comp]; split <;> rfl
    rw [hm]
    constructor
    · exact Or.inr
    · rintro (e | e)
      · subst e
        obtain ⟨y, hy, hyl⟩ := List.any_eq_true.1 hany
        have : y.1 = x := by simpa using hyl
        rw [← this]; exact List.mem_map.2 ⟨y, hy, rfl⟩
      · exact e
  · simp only [List.map_append, List.map_cons, List.map_nil, List.mem_append, List.mem_singleton]
    constructor
    · rintro (e | e); exact Or.inr e; exact Or.inl e
    · rintro (e | e); exact Or.inr e; exact Or.inl e

theorem helperWorking_fields (p : Pack) (q : Q) (l : Nat) (ws : List Nat) (hq : q.working = l :: ws) :
    (helperWorking p q).working = ws ∧ (helperWorking p q).curr = q.curr ∧ (helperWorking p q).ignore = q.ignore ∧
    (∀ x, x ∈ q.infExp → x ∈ (helperWorking p q).infExp) ∧
    (∀ x, x ∈ (helperWorking p q).infExp → x ∈ q.infExp ∨ (x = l ∧ WP.mk l .inferral ∈ (helperWorking p q).staging)) ∧
    (∀ x, x ∈ q.initExp → x ∈ (helperWorking p q).initExp) ∧
    (∀ x, x ∈ (helperWorking p q).initExp → x ∈ q.initExp ∨
        (x = l ∧ ∀ i, i < p.nInit → WP.mk l (.initial i) ∈ (helperWorking p q).staging)) ∧
    (0 < p.nInf → l ∉ q.ignore → l ∈ (helperWorking p q).infExp) ∧
    (0 < p.nInit → l ∉ q.ignore → l ∈ (helperWorking p q).initExp) ∧
    (∀ w, w ∈ q.staging → w ∈ (helperWorking p q).staging) ∧
    (helperWorking p q).nextLevel = counterAdd q.nextLevel l := by
  rw [helperWorking_unfold p q l ws hq]
  unfold infPart initPart canInf canInit Q.setNotInferrable Q.setNotInitial
  by_cases hi : l ∈ q.ignore <;> by_cases h1 : l ∈ q.infExp <;> by_cases h2 : l ∈ q.initExp <;>
    by_cases n1 : 0 < p.nInf <;> by_cases n2 : 0 < p.nInit <;>
    simp [hi, h1, h2, n1, n2] <;> grind

theorem helperCurr_cases (p : Pack) (q : Q) (idx l : Nat) (rest : List (List Nat))
    (hpop : popFirst q.curr 0 = some (idx, l, rest)) :
    (idx = p.exp.length ∧ helperCurr p q = ({ q with curr := rest } : Q).setStop l) ∨
    (idx ≠ p.exp.length ∧ helperCurr p q =
      { q with curr := pushAt rest (idx + 1) l,
               staging := q.staging ++ (List.range (p.exp.getD idx 0)).map (fun i => WP.mk l (.expansion idx i)) }) := by
  unfold helperCurr
  rw [hpop]
  simp only
  by_cases h : idx = p.exp.length
  · exact Or.inl ⟨h, by simp [h]⟩
  · exact Or.inr ⟨h, by simp [h]⟩

structure Complete (p : Pack) (M : Nat → Prop) (H : List WP) (l : Nat) : Prop where
  inf : 0 < p.nInf → WP.mk l .inferral ∈ H ∨ M l
  ini : ∀ i, i < p.nInit → WP.mk l (.initial i) ∈ H
  exp : ∀ j, j < p.exp.length → ∀ i, i < p.exp.getD j 0 → WP.mk l (.expansion j i) ∈ H

theorem Complete.mono {p : Pack} {M M' : Nat → Prop} {H H' : List WP} {l : Nat} (h : Complete p M H l)
    (hM : ∀ x, M x → M' x) (hH : ∀ w, w ∈ H → w ∈ H') : Complete p M' H' l :=
  ⟨fun n => (h.inf n).elim (fun e => Or.inl (hH _ e)) (fun e => Or.inr (hM _ e)),
   fun i hi => hH _ (h.ini i hi), fun j hj i hi => hH _ (h.exp j hj i hi)⟩

structure DI (p : Pack) (q : Q) (H : List WP) (A U M : Nat → Prop) : Prop where
  d1 : ∀ l, l ∈ q.ignore → U l ∨ Complete p M H l
  d2 : ∀ l, l ∉ q.ignore → l ∈ q.infExp → WP.mk l .inferral ∈ H ++ q.staging ∨ M l
  d3 : ∀ l, l ∉ q.ignore → l ∈ q.initExp → ∀ i, i < p.nInit → WP.mk l (.initial i) ∈ H ++ q.staging
  d4 : ∀ l, l ∉ q.ignore → (l ∈ nlKeys q ∨ ∃ j, l ∈ q.curr.getD j []) →
        (0 < p.nInf → l ∈ q.infExp) ∧ (0 < p.nInit → l ∈ q.initExp)
  d5 : ∀ l j, l ∉ q.ignore → l ∈ q.curr.getD j [] → ∀ j', j' < j → ∀ i, i < p.exp.getD j' 0 →
        WP.mk l (.expansion j' i) ∈ H ++ q.staging
  d6 : ∀ l, A l → l ∉ q.ignore → l ∈ q.working ∨ l ∈ nlKeys q ∨ ∃ j, l ∈ q.curr.getD j []
  len : q.curr.length = p.exp.length + 1

theorem DI.init (p : Pack) : DI p (Q.init p) [] (fun _ => False) (fun _ => False) (fun _ => False) := by
  refine ⟨?_, ?_, ?_, ?_, ?_, ?_, by simp [Q.init]⟩
  · intro l hl; simp [Q.init] at hl
  · intro l _ hl; simp [Q.init] at hl
  · intro l _ hl; simp [Q.init] at hl
  · intro l _ hl
    rcases hl with e | ⟨j, e⟩
    · simp [Q.init, nlKeys] at e
    · simp only [Q.init] at e; rw [getD_replicate_nil] at e; cases e
  · intro l j _ e; simp only [Q.init] at e; rw [getD_replicate_nil] at e; cases e
  · intro l hl; cases hl

theorem mem_drop {H st : List WP} {w x : WP} (hx : x ∈ H ++ w :: st) (hne : x ≠ w) : x ∈ H ++ st := by
  rcases List.mem_append.1 hx with e | e
  · exact List.mem_append_left _ e
  · rcases List.mem_cons.1 e with e | e
    · exact absurd e hne
    · exact List.mem_append_right _ e

theorem DI.drop {p : Pack} {q : Q} {H : List WP} {A U M : Nat → Prop} {w : WP} {st : List WP} (h : DI p q H A U M)
    (hst : q.staging = w :: st) (hig : w.label ∈ q.ignore) : DI p { q with staging := st } H A U M := by
  have ne : ∀ l wk, l ∉ q.ignore → WP.mk l wk ≠ w := by
    intro l wk hl e; apply hl; rw [← e] at hig; exact hig
  refine ⟨h.d1, ?_, ?_, h.d4, ?_, h.d6, h.len⟩
  · intro l hl hi
    rcases h.d2 l hl hi with e | e
    · rw [hst] at e; exact Or.inl (mem_drop e (ne _ _ hl))
    · exact Or.inr e
  · intro l hl hi i hlt
    have e := h.d3 l hl hi i hlt
    rw [hst] at e; exact mem_drop e (ne _ _ hl)
  · intro l j hl hc j' hj i hlt
    have e := h.d5 l j hl hc j' hj i hlt
    rw [hst] at e; exact mem_drop e (ne _ _ hl)

theorem mem_yield {H st : List WP} {w x : WP} (hx : x ∈ H ++ w :: st) : x ∈ (H ++ [w]) ++ st := by
  rw [List.append_assoc]; exact hx

theorem DI.yield {p : Pack} {q : Q} {H : List WP} {A U M : Nat → Prop} {w : WP} {st : List WP} (h : DI p q H A U M)
    (hst : q.staging = w :: st) : DI p { q with staging := st } (H ++ [w]) A U M := by
  refine ⟨?_, ?_, ?_, h.d4, ?_, h.d6, h.len⟩
  · intro l hl
    rcases h.d1 l hl with e | e
    · exact Or.inl e
    · exact Or.inr (e.mono (fun _ x => x) (fun _ x => List.mem_append_left _ x))
  · intro l hl hi
    rcases h.d2 l hl hi with e | e
    · rw [hst] at e; exact Or.inl (mem_yield e)
    · exact Or.inr e
  · intro l hl hi i hlt
    have e := h.d3 l hl hi i hlt
    rw [hst] at e; exact mem_yield e
  · intro l j hl hc j' hj i hlt
    have e := h.d5 l j hl hc j' hj i hlt
    rw [hst] at e; exact mem_yield e

theorem DI.add {p : Pack} {q : Q} {H : List WP} {A U M : Nat → Prop} (h : DI p q H A U M) (l : Nat) :
    DI p (q.add p l) H (fun x => A x ∨ x = l) U M := by
  unfold Q.add
  split
  · refine ⟨h.d1, h.d2, h.d3, h.d4, h.d5, ?_, h.len⟩
    intro x hx hi
    rcases hx with hx | hx
    · rcases h.d6 x hx hi with e | e
      · exact Or.inl (List.mem_append_left _ e)
      · exact Or.inr e
    · subst hx; exact Or.inl (List.mem_append_right _ List.mem_cons_self)
  · rename_i hcan
    split
    · rename_i hnig
      have hcan' : canInf p q l = false ∧ canInit p q l = false := by
        cases a : canInf p q l <;> cases b : canInit p q l <;> simp_all
      refine ⟨h.d1, h.d2, h.d3, ?_, h.d5, ?_, h.len⟩
      · intro x hx hk
        simp only [nlKeys] at hk
        rcases hk with e | e
        · rcases (counterAdd_mem _ _ _).1 e with e | e
          · subst e
            unfold canInf canInit at hcan'
            constructor
            · intro n
              have := hcan'.1
              simp only [n, decide_true, Bool.true_and, Bool.not_eq_false'] at this
              exact List.contains_iff_mem.1 this
            · intro n
              have := hcan'.2
              simp only [n, decide_true, Bool.true_and, Bool.not_eq_false'] at this
              exact List.contains_iff_mem.1 this
          · exact h.d4 x hx (Or.inl e)
        · exact h.d4 x hx (Or.inr e)
      · intro x hx hi
        simp only [nlKeys]
        rcases hx with hx | hx
        · rcases h.d6 x hx hi with e | e | e
          · exact Or.inl e
          · exact Or.inr (Or.inl ((counterAdd_mem _ _ _).2 (Or.inr e)))
          · exact Or.inr (Or.inr e)
        · subst hx; exact Or.inr (Or.inl ((counterAdd_mem _ _ _).2 (Or.inl rfl)))
    · rename_i hig
      have hig' : l ∈ q.ignore := by simpa using hig
      refine ⟨h.d1, h.d2, h.d3, h.d4, h.d5, ?_, h.len⟩
      intro x hx hi
      rcases hx with hx | hx
      · exact h.d6 x hx hi
      · subst hx; exact absurd hig' hi

theorem DI.monoUM {p : Pack} {q : Q} {H : List WP} {A U M U' M' : Nat → Prop} (h : DI p q H A U M)
    (hU : ∀ x, U x → U' x) (hM : ∀ x, M x → M' x) : DI p q H A U' M' := by
  refine ⟨?_, ?_, h.d3, h.d4, h.d5, h.d6, h.len⟩
  · intro l hl
    rcases h.d1 l hl with e | e
    · exact Or.inl (hU _ e)
    · exact Or.inr (e.mono hM (fun _ x => x))
  · intro l hl hi
    rcases h.d2 l hl hi with e | e
    · exact Or.inl e
    · exact Or.inr (hM _ e)

theorem filter_keys_mem (c : List (Nat × Nat)) (l x : Nat) :
    x ∈ (c.filter (·.1 != l)).map (·.1) ↔ x ≠ l ∧ x ∈ c.map (·.1) := by
  simp only [List.mem_map, List.mem_filter]
  constructor
  · rintro ⟨e, ⟨he, hne⟩, rfl⟩
    exact ⟨by simpa using hne, e, he, rfl⟩
  · rintro ⟨hne, e, he, rfl⟩
    exact ⟨e, ⟨he, by simpa using hne⟩, rfl⟩

/-- marking `l` as stopped, given a reason: the user said so, or all its work has been handed out -/
theorem DI.setStop {p : Pack} {q : Q} {H : List WP} {A A' U M : Nat → Prop} (h : DI p q H A' U M) (l : Nat)
    (hA : ∀ x, A x → x ≠ l → A' x) (hj : U l ∨ Complete p M H l) : DI p (q.setStop l) H A U M := by
  obtain ⟨f1, f2, f3, f4, f5, f6, f7⟩ := setStop_fields q l
  have hk : ∀ x, x ∈ nlKeys (q.setStop l) ↔ x ≠ l ∧ x ∈ nlKeys q := by
    intro x; simp only [nlKeys]; rw [f7]; exact filter_keys_mem _ _ _
  refine ⟨?_, ?_, ?_, ?_, ?_, ?_, by rw [f2]; exact h.len⟩
  · intro x hx
    rcases (f4 x).1 hx with e | e
    · subst e; exact hj
    · exact h.d1 x e
  · intro x hx hi
    have hx' : x ∉ q.ignore := fun e => hx ((f4 x).2 (Or.inr e))
    rw [f1]; exact h.d2 x hx' ((f5 x).1 hi).2
  · intro x hx hi
    have hx' : x ∉ q.ignore := fun e => hx ((f4 x).2 (Or.inr e))
    rw [f1]; exact h.d3 x hx' ((f6 x).1 hi).2
  · intro x hx hk'
    have hx' : x ∉ q.ignore := fun e => hx ((f4 x).2 (Or.inr e))
    have hne : x ≠ l := fun e => hx ((f4 x).2 (Or.inl e))
    have hk2 : x ∈ nlKeys q ∨ ∃ j, x ∈ q.curr.getD j [] := by
      rcases hk' with e | e
      · exact Or.inl ((hk x).1 e).2
      · rw [f2] at e; exact Or.inr e
    obtain ⟨a, b⟩ := h.d4 x hx' hk2
    exact ⟨fun n => (f5 x).2 ⟨hne, a n⟩, fun n => (f6 x).2 ⟨hne, b n⟩⟩
  · intro x j hx hc
    have hx' : x ∉ q.ignore := fun e => hx ((f4 x).2 (Or.inr e))
    rw [f2] at hc; rw [f1]; exact h.d5 x j hx' hc
  · intro x hx hi
    have hx' : x ∉ q.ignore := fun e => hi ((f4 x).2 (Or.inr e))
    have hne : x ≠ l := fun e => hi ((f4 x).2 (Or.inl e))
    rcases h.d6 x (hA x hx hne) hx' with e | e | e
    · rw [f3]; exact Or.inl e
    · exact Or.inr (Or.inl ((hk x).2 ⟨hne, e⟩))
    · rw [f2]; exact Or.inr (Or.inr e)

theorem DI.stop {p : Pack} {q : Q} {H : List WP} {A U M : Nat → Prop} (h : DI p q H A U M) (l : Nat) :
    DI p (q.setStop l) H A (fun x => U x ∨ x = l) M :=
  (h.monoUM (fun _ e => Or.inl e) (fun _ e => e)).setStop l (fun _ e _ => e) (Or.inl (Or.inr rfl))

theorem DI.notInf {p : Pack} {q : Q} {H : List WP} {A U M : Nat → Prop} (h : DI p q H A U M) (l : Nat) :
    DI p (q.setNotInferrable l) H A U (fun x => M x ∨ x = l) := by
  have h' := h.monoUM (M' := fun x => M x ∨ x = l) (fun _ e => e) (fun _ e => Or.inl e)
  unfold Q.setNotInferrable
  split
  · refine ⟨h'.d1, ?_, h'.d3, ?_, h'.d5, h'.d6, h'.len⟩
    · intro x hx hi
      rcases List.mem_cons.1 hi with e | e
      · exact Or.inr (Or.inr e)
      · exact h'.d2 x hx e
    · intro x hx hk
      obtain ⟨a, b⟩ := h'.d4 x hx hk
      exact ⟨fun n => List.mem_cons_of_mem _ (a n), b⟩
  · exact h'

theorem DI.hWorking {p : Pack} {q : Q} {H : List WP} {A U M : Nat → Prop} (h : DI p q H A U M) :
    DI p (helperWorking p q) H A U M := by
  match hq : q.working with
  | [] => unfold helperWorking; rw [hq]; exact h
  | l :: ws =>
    obtain ⟨f1, f2, f3, f4, f5, f6, f7, f8, f9, f10, f11⟩ := helperWorking_fields p q l ws hq
    have stg : ∀ w, w ∈ H ++ q.staging → w ∈ H ++ (helperWorking p q).staging := by
      intro w hw
      rcases List.mem_append.1 hw with e | e
      · exact List.mem_append_left _ e
      · exact List.mem_append_right _ (f10 w e)
    have hk : ∀ x, x ∈ nlKeys (helperWorking p q) ↔ x = l ∨ x ∈ nlKeys q := by
      intro x; simp only [nlKeys]; rw [f11]; exact counterAdd_mem _ _ _
    refine ⟨?_, ?_, ?_, ?_, ?_, ?_, by rw [f2]; exact h.len⟩
    · intro x hx; rw [f3] at hx; exact h.d1 x hx
    · intro x hx hi
      rw [f3] at hx
      rcases f5 x hi with e | ⟨e, e2⟩
      · rcases h.d2 x hx e with a | a
        · exact Or.inl (stg _ a)
        · exact Or.inr a
      · subst e; exact Or.inl (List.mem_append_right _ e2)
    · intro x hx hi i hlt
      rw [f3] at hx
      rcases f7 x hi with e | ⟨e, e2⟩
      · exact stg _ (h.d3 x hx e i hlt)
      · subst e; exact List.mem_append_right _ (e2 i hlt)
    · intro x hx hk'
      rw [f3] at hx
      have old : (x ∈ nlKeys q ∨ ∃ j, x ∈ q.curr.getD j []) →
          (0 < p.nInf → x ∈ (helperWorking p q).infExp) ∧ (0 < p.nInit → x ∈ (helperWorking p q).initExp) := by
        intro hh
        obtain ⟨a, b⟩ := h.d4 x hx hh
        exact ⟨fun n => f4 x (a n), fun n => f6 x (b n)⟩
      rcases hk' with e | e
      · rcases (hk x).1 e with e | e
        · subst e; exact ⟨fun n => f8 n hx, fun n => f9 n hx⟩
        · exact old (Or.inl e)
      · rw [f2] at e; exact old (Or.inr e)
    · intro x j hx hc j' hj i hlt
      rw [f3] at hx; rw [f2] at hc
      exact stg _ (h.d5 x j hx hc j' hj i hlt)
    · intro x hx hi
      rw [f3] at hi
      rcases h.d6 x hx hi with e | e | e
      · rw [hq] at e
        rcases List.mem_cons.1 e with e | e
        · exact Or.inr (Or.inl ((hk x).2 (Or.inl e)))
        · rw [f1]; exact Or.inl e
      · exact Or.inr (Or.inl ((hk x).2 (Or.inr e)))
      · rw [f2]; exact Or.inr (Or.inr e)

theorem DI.hCurr {p : Pack} {q : Q} {H : List WP} {A U M : Nat → Prop} (h : DI p q H A U M)
    (hst : q.staging = []) : DI p (helperCurr p q) H A U M := by
  match hpop : popFirst q.curr 0 with
  | none => unfold helperCurr; rw [hpop]; exact h
  | some (idx, l, rest) =>
    obtain ⟨hlen, _, hidx, _⟩ := popFirst_spec q.curr 0 0 idx l rest hpop
    obtain ⟨g1, g2, _⟩ := popFirst_get q.curr 0 idx l rest hpop
    simp only [Nat.sub_zero] at g1 g2
    have hl_in : l ∈ q.curr.getD idx [] := by rw [g1]; exact List.mem_cons_self
    have sub : ∀ x j, x ∈ rest.getD j [] → x ∈ q.curr.getD j [] := by
      intro x j hx
      by_cases e : j = idx
      · subst e; rw [g1]; exact List.mem_cons_of_mem _ hx
      · rw [g2 j e] at hx; exact hx
    have sup : ∀ x j, x ∈ q.curr.getD j [] → x ≠ l ∨ j ≠ idx → x ∈ rest.getD j [] := by
      intro x j hx hne
      by_cases e : j = idx
      · subst e; rw [g1] at hx
        rcases List.mem_cons.1 hx with e2 | e2
        · rcases hne with a | a
          · exact absurd e2 a
          · exact absurd rfl a
        · exact e2
      · rw [g2 j e]; exact hx
    rcases helperCurr_cases p q idx l rest hpop with ⟨hK, heq⟩ | ⟨hK, heq⟩
    · rw [heq]
      have h1 : DI p ({ q with curr := rest } : Q) H (fun x => A x ∧ x ≠ l) U M := by
        refine ⟨h.d1, h.d2, h.d3, ?_, ?_, ?_, by simp only; rw [hlen]; exact h.len⟩
        · intro x hx hk
          apply h.d4 x hx
          rcases hk with e | ⟨j, e⟩
          · exact Or.inl e
          · exact Or.inr ⟨j, sub x j e⟩
        · intro x j hx hc
          exact h.d5 x j hx (sub x j hc)
        · intro x hx hi
          rcases h.d6 x hx.1 hi with e | e | ⟨j, e⟩
          · exact Or.inl e
          · exact Or.inr (Or.inl e)
          · exact Or.inr (Or.inr ⟨j, sup x j e (Or.inl hx.2)⟩)
      apply h1.setStop l (fun x a b => ⟨a, b⟩)
      by_cases hig : l ∈ q.ignore
      · exact h.d1 l hig
      · right
        obtain ⟨a, b⟩ := h.d4 l hig (Or.inr ⟨idx, hl_in⟩)
        have hs : ∀ w, w ∈ H ++ q.staging → w ∈ H := by intro w hw; rw [hst] at hw; simpa using hw
        refine ⟨?_, ?_, ?_⟩
        · intro n
          rcases h.d2 l hig (a n) with e | e
          · exact Or.inl (hs _ e)
          · exact Or.inr e
        · intro i hlt
          have n : 0 < p.nInit := by omega
          exact hs _ (h.d3 l hig (b n) i hlt)
        · intro j hj i hlt
          exact hs _ (h.d5 l idx hig hl_in j (by omega) i hlt)
    · rw [heq]
      have hidx' : idx + 1 < rest.length := by rw [hlen, h.len]; have := h.len; omega
      obtain ⟨k1, k2⟩ := pushAt_get rest (idx + 1) l hidx'
      have cur' : ∀ x j, x ∈ (pushAt rest (idx + 1) l).getD j [] ↔ (j = idx + 1 ∧ x = l) ∨ x ∈ rest.getD j [] := by
        intro x j
        by_cases e : j = idx + 1
        · subst e; rw [k1]; simp only [List.mem_append, List.mem_singleton, true_and]
          constructor
          · rintro (a | a); exact Or.inr a; exact Or.inl a
          · rintro (a | a); exact Or.inr a; exact Or.inl a
        · rw [k2 j e]
          constructor
          · exact Or.inr
          · rintro (⟨a, _⟩ | a)
            · exact absurd a e
            · exact a
      have stg : ∀ w st, w ∈ H ++ q.staging → w ∈ H ++ (q.staging ++ st) := by
        intro w st hw
        rcases List.mem_append.1 hw with e | e
        · exact List.mem_append_left _ e
        · exact List.mem_append_right _ (List.mem_append_left _ e)
      refine ⟨h.d1, ?_, ?_, ?_, ?_, ?_, ?_⟩
      · intro x hx hi
        rcases h.d2 x hx hi with e | e
        · exact Or.inl (stg _ _ e)
        · exact Or.inr e
      · intro x hx hi i hlt
        exact stg _ _ (h.d3 x hx hi i hlt)
      · intro x hx hk
        apply h.d4 x hx
        rcases hk with e | ⟨j, e⟩
        · exact Or.inl e
        · simp only at e
          rcases (cur' x j).1 e with ⟨_, e2⟩ | e2
          · subst e2; exact Or.inr ⟨idx, hl_in⟩
          · exact Or.inr ⟨j, sub x j e2⟩
      · intro x j hx hc j' hj i hlt
        simp only at hc ⊢
        rcases (cur' x j).1 hc with ⟨e1, e2⟩ | e2
        · subst e1; subst e2
          by_cases e : j' = idx
          · subst e
            apply List.mem_append_right; apply List.mem_append_right
            exact List.mem_map.2 ⟨i, List.mem_range.2 hlt, rfl⟩
          · exact stg _ _ (h.d5 x idx hx hl_in j' (by omega) i hlt)
        · exact stg _ _ (h.d5 x j hx (sub x j e2) j' hj i hlt)
      · intro x hx hi
        simp only
        rcases h.d6 x hx hi with e | e | ⟨j, e⟩
        · exact Or.inl e
        · exact Or.inr (Or.inl e)
        · right; right
          by_cases e1 : x = l ∧ j = idx
          · obtain ⟨a, b⟩ := e1
            exact ⟨idx + 1, (cur' x _).2 (Or.inl ⟨rfl, a⟩)⟩
          · have : x ≠ l ∨ j ≠ idx := by
              by_cases a : x = l
              · right; intro b; exact e1 ⟨a, b⟩
              · left; exact a
            exact ⟨j, (cur' x j).2 (Or.inr (sup x j e this))⟩
      · simp only; rw [(pushAt_spec rest (idx + 1) 0 l hidx').1, hlen]; exact h.len

theorem mem_sortDesc (c : List (Nat × Nat)) (x : Nat) : x ∈ (sortDesc c).map (·.1) ↔ x ∈ c.map (·.1) := by
  unfold sortDesc
  have aux : ∀ (c acc : List (Nat × Nat)),
      x ∈ (c.foldl (fun acc e => insertDesc e acc) acc).map (·.1) ↔ (x ∈ c.map (·.1) ∨ x ∈ acc.map (·.1)) := by
    intro c
    induction c with
    | nil => intro acc; simp
    | cons e es ih =>
      intro acc
      rw [List.foldl_cons, ih, mem_insertDesc]
      simp only [List.map_cons, List.mem_cons]
      constructor
      · rintro (a | a | a)
        · exact Or.inl (Or.inr a)
        · exact Or.inl (Or.inl a)
        · exact Or.inr a
      · rintro ((a | a) | a)
        · exact Or.inr (Or.inl a)
        · exact Or.inl a
        · exact Or.inr (Or.inr a)
  rw [aux]; simp

theorem DI.changeLevel {p : Pack} {q q' : Q} {H : List WP} {A U M : Nat → Prop} (h : DI p q H A U M)
    (hc : changeLevel q = some q') : DI p q' H A U M := by
  unfold _root_.changeLevel at hc
  simp only at hc
  split at hc
  · cases hc
  · rename_i d rest hcur
    split at hc
    · cases hc
    · injection hc with hc
      subst hc
      have c0 : q.curr.getD 0 [] = d := by rw [hcur]; rfl
      have cs : ∀ j, q.curr.getD (j + 1) [] = rest.getD j [] := by intro j; rw [hcur]; rfl
      refine ⟨h.d1, h.d2, h.d3, ?_, ?_, ?_, by simp only [List.length_cons]; rw [← h.len, hcur]; rfl⟩
      · intro x hx hk
        apply h.d4 x hx
        rcases hk with e | ⟨j, e⟩
        · simp [nlKeys] at e
        · cases j with
          | zero =>
            simp only [List.getD_cons_zero, List.mem_append] at e
            rcases e with e | e
            · exact Or.inr ⟨0, by rw [c0]; exact e⟩
            · exact Or.inl ((mem_sortDesc _ _).1 e)
          | succ j =>
            simp only [List.getD_cons_succ] at e
            exact Or.inr ⟨j + 1, by rw [cs]; exact e⟩
      · intro x j hx hcj j' hj
        cases j with
        | zero => omega
        | succ j =>
          simp only [List.getD_cons_succ] at hcj
          exact h.d5 x (j + 1) hx (by rw [cs]; exact hcj) j' hj
      · intro x hx hi
        rcases h.d6 x hx hi with e | e | ⟨j, e⟩
        · exact Or.inl e
        · right; right
          refine ⟨0, ?_⟩
          simp only [List.getD_cons_zero, List.mem_append]
          exact Or.inr ((mem_sortDesc _ _).2 e)
        · right; right
          cases j with
          | zero =>
            refine ⟨0, ?_⟩
            simp only [List.getD_cons_zero, List.mem_append]
            rw [c0] at e; exact Or.inl e
          | succ j =>
            refine ⟨j + 1, ?_⟩
            simp only [List.getD_cons_succ]
            rw [cs] at e; exact e

theorem DI.next {p : Pack} {A U M : Nat → Prop} : ∀ (f : Nat) (q q' : Q) (H : List WP) (o : Out), DI p q H A U M →
    Q.next p f q = (q', o) → DI p q' (handedAfter H o) A U M := by
  intro f
  induction f with
  | zero =>
    intro q q' H o h hn
    simp only [Q.next] at hn
    injection hn with h1 h2; subst h1; subst h2; exact h
  | succ f ih =>
    intro q q' H o h hn
    unfold Q.next at hn
    split at hn
    · rename_i w st hst
      simp only at hn
      split at hn
      · rename_i hig
        exact ih _ _ _ _ (h.drop hst (List.contains_iff_mem.1 hig)) hn
      · injection hn with h1 h2; subst h1; subst h2
        exact h.yield hst
    · rename_i hst
      split at hn
      · exact ih _ _ _ _ h.hWorking hn
      · split at hn
        · split at hn
          · injection hn with h1 h2; subst h1; subst h2; exact h
          · rename_i q2 hcl
            have h2 := h.changeLevel hcl
            have hst2 : q2.staging = [] := by
              unfold _root_.changeLevel at hcl
              simp only at hcl
              split at hcl
              · cases hcl
              · split at hcl
                · cases hcl
                · injection hcl with hcl; subst hcl; exact hst
            exact ih _ _ _ _ (h2.hCurr hst2) hn
        · exact ih _ _ _ _ (h.hCurr hst) hn

def addedIn (ops : List Op) (l : Nat) : Prop := Op.add l ∈ ops
def stoppedIn (ops : List Op) (l : Nat) : Prop := Op.stop l ∈ ops
def markedIn (ops : List Op) (l : Nat) : Prop := Op.notInferrable l ∈ ops

theorem DI.congr {p : Pack} {q : Q} {H : List WP} {A U M A' U' M' : Nat → Prop} (h : DI p q H A U M)
    (hA : ∀ x, A' x → A x) (hU : ∀ x, U x → U' x) (hM : ∀ x, M x → M' x) : DI p q H A' U' M' := by
  have h' := h.monoUM hU hM
  exact ⟨h'.d1, h'.d2, h'.d3, h'.d4, h'.d5, fun l hl => h'.d6 l (hA l hl), h'.len⟩

theorem runOps_DI (p : Pack) (fuel : Nat) (ops : List Op) :
    DI p (runOps p fuel ops).1 (runOps p fuel ops).2 (addedIn ops) (stoppedIn ops) (markedIn ops) := by
  unfold runOps
  have aux : ∀ (ops pre : List Op) (s : Q × List WP), DI p s.1 s.2 (addedIn pre) (stoppedIn pre) (markedIn pre) →
      DI p (ops.foldl (stepOp p fuel) s).1 (ops.foldl (stepOp p fuel) s).2
        (addedIn (pre ++ ops)) (stoppedIn (pre ++ ops)) (markedIn (pre ++ ops)) := by
    intro ops
    induction ops with
    | nil => intro pre s h; simpa using h
    | cons o ops ih =>
      intro pre s h
      simp only [List.foldl_cons]
      have e : pre ++ o :: ops = (pre ++ [o]) ++ ops := by simp
      rw [e]
      apply ih
      cases o with
      | add l =>
        refine (h.add l).congr ?_ ?_ ?_
        · intro x hx; simp only [addedIn, List.mem_append, List.mem_singleton] at hx
          rcases hx with a | a
          · exact Or.inl a
          · injection a with a; exact Or.inr a
        · intro x hx; simp only [stoppedIn, List.mem_append] at hx ⊢; exact Or.inl hx
        · intro x hx; simp only [markedIn, List.mem_append] at hx ⊢; exact Or.inl hx
      | stop l =>
        refine (h.stop l).congr ?_ ?_ ?_
        · intro x hx; simp only [addedIn, List.mem_append, List.mem_singleton] at hx
          rcases hx with a | a
          · exact a
          · cases a
        · intro x hx; simp only [stoppedIn, List.mem_append, List.mem_singleton]
          rcases hx with a | a
          · exact Or.inl a
          · subst a; exact Or.inr rfl
        · intro x hx; simp only [markedIn, List.mem_append] at hx ⊢; exact Or.inl hx
      | notInferrable l =>
        refine (h.notInf l).congr ?_ ?_ ?_
        · intro x hx; simp only [addedIn, List.mem_append, List.mem_singleton] at hx
          rcases hx with a | a
          · exact a
          · cases a
        · intro x hx; simp only [stoppedIn, List.mem_append] at hx ⊢; exact Or.inl hx
        · intro x hx; simp only [markedIn, List.mem_append, List.mem_singleton]
          rcases hx with a | a
          · exact Or.inl a
          · subst a; exact Or.inr rfl
      | next =>
        refine (DI.next fuel s.1 _ s.2 _ h rfl).congr ?_ ?_ ?_
        · intro x hx; simp only [addedIn, List.mem_append, List.mem_singleton] at hx
          rcases hx with a | a
          · exact a
          · cases a
        · intro x hx; simp only [stoppedIn, List.mem_append] at hx ⊢; exact Or.inl hx
        · intro x hx; simp only [markedIn, List.mem_append] at hx ⊢; exact Or.inl hx
  have := aux ops [] (Q.init p, []) (by
    refine (DI.init p).congr ?_ ?_ ?_
    · intro x hx; simp [addedIn] at hx
    · intro x hx; cases hx
    · intro x hx; cases hx)
  simpa using this

/-- **C16 clause 3.** Over any history of add / stop / not-inferrable / next operations: once the queue is drained
(`Dry`: what `__next__` leaves behind when it signals exhaustion, `next_stop_dry`), every label that was added and never told to
stop has been handed its inferral work (unless it was marked not-inferrable), every initial strategy and every strategy of
every expansion set. -/
theorem drained_complete (p : Pack) (fuel : Nat) (ops : List Op) (hdry : Dry (runOps p fuel ops).1)
    (l : Nat) (hadd : Op.add l ∈ ops) (hns : Op.stop l ∉ ops) :
    (0 < p.nInf → WP.mk l .inferral ∈ (runOps p fuel ops).2 ∨ Op.notInferrable l ∈ ops) ∧
    (∀ i, i < p.nInit → WP.mk l (.initial i) ∈ (runOps p fuel ops).2) ∧
    (∀ j, j < p.exp.length → ∀ i, i < p.exp.getD j 0 → WP.mk l (.expansion j i) ∈ (runOps p fuel ops).2) := by
  have h := runOps_DI p fuel ops
  obtain ⟨d1, d2, d3, d4⟩ := hdry
  generalize (runOps p fuel ops).1 = q at h d1 d2 d3 d4
  generalize (runOps p fuel ops).2 = H at h
  have hnl : q.nextLevel = [] := by
    unfold changeLevel at d4
    simp only at d4
    split at d4
    · rename_i hc; have := h.len; rw [hc] at this; simp at this
    · split at d4
      · rename_i he
        have : (sortDesc q.nextLevel).length = 0 := by simpa using he
        rw [sortDesc_length] at this
        exact List.length_eq_zero_iff.1 this
      · cases d4
  have hig : l ∈ q.ignore := by
    apply Classical.byContradiction
    intro hn
    rcases h.d6 l hadd hn with e | e | ⟨j, e⟩
    · rw [d2] at e; cases e
    · simp [nlKeys, hnl] at e
    · rw [all_empty_getD q.curr d3 j] at e; cases e
  rcases h.d1 l hig with e | e
  · exact absurd e hns
  · exact ⟨e.inf, e.ini, e.exp⟩

/-- the same, phrased for a history that ends with a `next` answering "exhausted" -/
theorem drained_complete_after_stop (p : Pack) (fuel : Nat) (ops : List Op)
    (hstop : (Q.next p fuel (runOps p fuel ops).1).2 = .stop)
    (l : Nat) (hadd : Op.add l ∈ ops) (hns : Op.stop l ∉ ops) :
    Complete p (markedIn (ops ++ [.next])) (runOps p fuel (ops ++ [.next])).2 l := by
  have hd : Dry (runOps p fuel (ops ++ [.next])).1 := by
    unfold runOps
    rw [List.foldl_append]
    simp only [List.foldl_cons, List.foldl_nil, stepOp]
    exact next_stop_dry p fuel (runOps p fuel ops).1 _ (Prod.ext rfl hstop)
  obtain ⟨a, b, c⟩ := drained_complete p fuel (ops ++ [.next]) hd l (List.mem_append_left _ hadd)
    (by intro e; rcases List.mem_append.1 e with e | e; exact hns e; simp at e)
  exact ⟨a, b, c⟩
#print axioms drained_complete
#print axioms drained_complete_after_stop
/-- non-vacuity: a history that drains the queue, with an added never-stopped label (3) and a stopped one (4) -/
example : let r := runOps ⟨1, 1, [2]⟩ 50 [.add 3, .add 4, .stop 4, .next, .next, .next, .next, .next]
    (r.1.staging = [] ∧ r.1.working = [] ∧ r.1.curr.all (·.isEmpty) = true ∧ (changeLevel r.1).isNone = true) ∧
    r.2 = [⟨3, .inferral⟩, ⟨3, .initial 0⟩, ⟨3, .expansion 0 0⟩, ⟨3, .expansion 0 1⟩] := by decide
