import CSSVerif.ObjGen
import CSSVerif.PairSum
import CSSVerif.ObjectsSpec
/-! C07 (model): generation and counting agree at a product rule - the number of objects the rule emits for a parameter value is
the coefficient `CartesianProduct.get_terms` computes from the numbers of the children's objects. -/

/-- the terms of a child read off its objects: how many objects per parameter value -/
def countsOf (ob : ObjTab) : Nat → Terms := fun s => (ob s).map (fun e => (e.1, (e.2.length : Int)))
def withCounts (cs : List Child) (objs : List ObjTab) : List Child := (cs.zip objs).map (fun co => { co.1 with terms := countsOf co.2 })

/-- how many emitted entries carry the parameters `k` -/
def cnt {β : Type} (k : Param) (l : List (Param × β)) : Int := ((l.filter (fun e => e.1 == k)).length : Int)

theorem cnt_append {β : Type} (k : Param) (a b : List (Param × β)) : cnt k (a ++ b) = cnt k a + cnt k b := by
  unfold cnt; rw [List.filter_append, List.length_append]; omega

theorem cnt_flatMap {α β : Type} (k : Param) (f : α → List (Param × β)) : ∀ (l : List α),
    cnt k (l.flatMap f) = (l.map (fun a => cnt k (f a))).sum
  | [] => rfl
  | a :: l => by rw [List.flatMap_cons, cnt_append, cnt_flatMap k f l]; simp

theorem cnt_map_const {α β : Type} (k key : Param) (g : α → β) (l : List α) :
    cnt k (l.map (fun t => (key, g t))) = if key = k then (l.length : Int) else 0 := by
  unfold cnt
  by_cases h : key = k
  · rw [if_pos h]
    have : (l.map (fun t => (key, g t))).filter (fun e => e.1 == k) = l.map (fun t => (key, g t)) := by
      apply List.filter_eq_self.2
      intro e he
      obtain ⟨t, _, rfl⟩ := List.mem_map.1 he
      simpa using h
    rw [this, List.length_map]
  · rw [if_neg h]
    have : (l.map (fun t => (key, g t))).filter (fun e => e.1 == k) = [] := by
      apply List.filter_eq_nil_iff.2
      intro e he
      obtain ⟨t, _, rfl⟩ := List.mem_map.1 he
      simpa using h
    rw [this]; rfl

theorem coeff_map {α : Type} (G : α → Param × Int) (k : Param) : ∀ (l : List α),
    coeff (l.map G) k = (l.map (fun a => if (G a).1 = k then (G a).2 else 0)).sum
  | [] => rfl
  | a :: l => by rw [List.map_cons, coeff_cons, coeff_map G k l]; simp

theorem coeff_flatMap {α : Type} (f : α → List (Param × Int)) (k : Param) (l : List α) :
    coeff (l.flatMap f) k = (l.map (fun a => coeff (f a) k)).sum := by
  rw [← landing_some, landing_flatMapG]
  apply sum_map_congr
  intro a _
  rw [landing_some]

/-- one entry per choice of dictionary items: the key and the number of tuples it stands for -/
def emitWeights (parent : List String) (cs : List Child) (objs : List ObjTab) (n : Nat) : List (Param × Int) :=
  (comps (n : Int) (cs.map (fun c => (c.minSize, c.maxSize)))).flatMap (fun sizes =>
    (cartesian (perChildObjs parent cs objs sizes)).map (fun combo =>
      (keySum parent.length (combo.map (·.1)), ((cartesian (combo.map (·.2))).length : Int))))

theorem productEmit_cnt (parent : List String) (cs : List Child) (objs : List ObjTab) (n : Nat) (k : Param) :
    cnt k (productEmit parent cs objs n) = coeff (emitWeights parent cs objs n) k := by
  unfold productEmit emitWeights
  rw [cnt_flatMap, coeff_flatMap]
  apply sum_map_congr
  intro sizes _
  rw [cnt_flatMap, coeff_map]
  apply sum_map_congr
  intro combo _
  rw [cnt_map_const k _ (fun t => t)]

theorem cartesian_map {α β : Type} (f : α → β) : ∀ (L : List (List α)), cartesian (L.map (List.map f)) = (cartesian L).map (List.map f)
  | [] => rfl
  | l :: L => by
    rw [List.map_cons, cartesian_cons, cartesian_cons, cartesian_map f L, List.flatMap_map, List.map_flatMap]
    congr 1
    funext x
    rw [List.map_map, List.map_map]
    rfl

theorem comboVal_lengths : ∀ (combo : List (Param × List Obj)),
    comboVal (combo.map (fun e => (e.1, (e.2.length : Int)))) = (((combo.map (fun e => e.2.length)).foldr (· * ·) 1 : Nat) : Int)
  | [] => rfl
  | e :: combo => by
    rw [List.map_cons, comboVal_cons, comboVal_lengths combo]
    simp

theorem emitWeights_eq (parent : List String) (cs : List Child) (objs : List ObjTab) (hlen : objs.length = cs.length) (n : Nat) :
    emitWeights parent cs objs n = prodContribs parent (withCounts cs objs) n := by
  unfold emitWeights prodContribs
  have hb : (withCounts cs objs).map (fun c => (c.minSize, c.maxSize)) = cs.map (fun c => (c.minSize, c.maxSize)) := by
    unfold withCounts
    rw [List.map_map]
    have : ((fun c : Child => (c.minSize, c.maxSize)) ∘ fun co : Child × ObjTab => { co.1 with terms := countsOf co.2 }) =
        (fun c : Child => (c.minSize, c.maxSize)) ∘ Prod.fst := by funext co; rfl
    rw [this, ← List.map_map, List.map_fst_zip (by omega)]
  rw [hb]
  congr 1
  funext sizes
  have hp : perChild parent (withCounts cs objs) sizes =
      (perChildObjs parent cs objs sizes).map (List.map (fun e => (e.1, (e.2.length : Int)))) := by
    unfold perChild perChildObjs withCounts
    rw [List.zip_map_left, List.map_map, List.map_map]
    apply List.map_congr_left
    intro cos _
    simp only [Function.comp, Prod.map, id]
    unfold countsOf
    rw [List.map_map, List.map_map]
    rfl
  rw [hp, cartesian_map, List.map_map]
  apply List.map_congr_left
  intro combo _
  simp only [Function.comp]
  have ek : comboKey parent.length (combo.map (fun e => (e.1, (e.2.length : Int)))) = keySum parent.length (combo.map (·.1)) := by
    unfold comboKey keySum
    rw [List.foldl_map, List.foldl_map]
  rw [ek, comboVal_lengths, cartesian_length, List.map_map]
  rfl

/-- **C07 (model): at a product rule the objects generated for a parameter value are as many as the rule counts** - the number
of tuples of sub-objects emitted with parameters `k` is the coefficient at `k` of `CartesianProduct.get_terms` applied to the
numbers of the children's objects -/
theorem productEmit_count (parent : List String) (cs : List Child) (objs : List ObjTab) (hlen : objs.length = cs.length) (n : Nat) (k : Param) :
    cnt k (productEmit parent cs objs n) = coeff (productTerms parent (withCounts cs objs) n) k := by
  rw [productEmit_cnt, emitWeights_eq parent cs objs hlen, (productTerms_conv parent (withCounts cs objs) n).2 k]
#print axioms productEmit_count

/-! ### disjoint unions -/

def OptRel {σ τ : Type} (R : σ → τ → Prop) : Option σ → Option τ → Prop
  | some a, some b => R a b
  | none, none => True
  | _, _ => False

theorem foldlM_sim {σ τ α : Type} (R : σ → τ → Prop) (f : σ → α → Option σ) (g : τ → α → Option τ) :
    ∀ (l : List α), (∀ a ∈ l, ∀ s t, R s t → OptRel R (f s a) (g t a)) → ∀ s t, R s t → OptRel R (l.foldlM f s) (l.foldlM g t)
  | [], _, s, t, h => h
  | a :: l, hs, s, t, h => by
    rw [List.foldlM_cons, List.foldlM_cons]
    have h1 := hs a (List.mem_cons_self ..) s t h
    cases hf : f s a with
    | none =>
      cases hg : g t a with
      | none => trivial
      | some t' => rw [hf, hg] at h1; exact h1.elim
    | some s' =>
      cases hg : g t a with
      | none => rw [hf, hg] at h1; exact h1.elim
      | some t' =>
        rw [hf, hg] at h1
        exact foldlM_sim R f g l (fun a ha => hs a (List.mem_cons_of_mem _ ha)) s' t' h1

/-- what has been emitted so far is counted by the terms built so far -/
def CountRel {β : Type} (accE : List (Param × β)) (accT : Terms) : Prop := KeysNodup accT ∧ ∀ k, cnt k accE = coeff accT k

/-- **C07 (model): at a disjoint union the objects generated for a parameter value are as many as the rule counts** - either
both the generation and `DisjointUnion.get_terms` (on the numbers of the children's objects) stop at the same failed assertion,
or the number of emitted objects with parameters `k` is the coefficient at `k` of the computed terms -/
theorem unionEmit_count (parent : List String) (cs : List Child) (objs : List ObjTab) (n : Nat) :
    OptRel (fun em t => ∀ k, cnt k em = coeff t k) (unionEmit parent cs objs n) (unionTerms parent (withCounts cs objs) n) := by
  have key : OptRel CountRel (unionEmit parent cs objs n) (unionTerms parent (withCounts cs objs) n) := by
    unfold unionEmit unionTerms withCounts
    rw [← List.zipIdx_map_fst 0 (cs.zip objs), List.map_map, List.foldlM_map]
    rw [List.zipIdx_map_fst 0 (cs.zip objs)]
    apply foldlM_sim CountRel
    · intro co _ s t h
      simp only [Function.comp]
      unfold countsOf
      rw [List.foldlM_map]
      apply foldlM_sim CountRel
      · intro e _ s t h
        have hc : childPosToParentPos parent { co.1.1 with terms := fun s => (co.1.2 s).map (fun e => (e.1, (e.2.length : Int))) } =
            childPosToParentPos parent co.1.1 := rfl
        rw [hc]
        cases hk : paramMapSame (childPosToParentPos parent co.1.1) parent.length e.1 with
        | none => trivial
        | some k =>
          show CountRel _ _
          obtain ⟨h1, h2⟩ := addAt_spec t k (e.2.length : Int) h.1
          refine ⟨h1, fun k' => ?_⟩
          rw [h2 k', cnt_append, h.2 k', cnt_map_const k' k (fun o => (co.2, o))]
      · exact h
    · exact ⟨by simp [KeysNodup], fun k => rfl⟩
  cases h1 : unionEmit parent cs objs n with
  | none =>
    cases h2 : unionTerms parent (withCounts cs objs) n with
    | none => trivial
    | some t => rw [h1, h2] at key; exact key.elim
  | some em =>
    cases h2 : unionTerms parent (withCounts cs objs) n with
    | none => rw [h1, h2] at key; exact key.elim
    | some t => rw [h1, h2] at key; exact key.2
#print axioms unionEmit_count

/-! ### the dictionary of objects -/

/-- the list stored under `k` (all entries with that key; with distinct keys there is at most one) -/
def dictGet {β : Type} (d : List (Param × List β)) (k : Param) : List β := (d.filter (fun e => e.1 == k)).flatMap (·.2)

theorem dictGet_not_mem {β : Type} (d : List (Param × List β)) (k : Param) (h : k ∉ d.map (·.1)) : dictGet d k = [] := by
  unfold dictGet
  have : d.filter (fun e => e.1 == k) = [] := by
    apply List.filter_eq_nil_iff.2
    intro e he hk
    exact h (List.mem_map.2 ⟨e, he, by simpa using hk⟩)
  rw [this]; rfl

theorem groupAdd_ne {β : Type} (e : Param × List β) (es : List (Param × List β)) (k : Param) (v : β) (h : e.1 ≠ k) :
    groupAdd (e :: es) k v = e :: groupAdd es k v := by
  have hb : (e.1 == k) = false := by simpa using h
  unfold groupAdd
  simp only [List.any_cons, hb, Bool.false_or]
  by_cases ha : es.any (fun x => x.1 == k) = true
  · simp only [ha, ↓reduceIte, List.map_cons, hb, Bool.false_eq_true]
  · simp only [ha, Bool.false_eq_true, ↓reduceIte, List.cons_append]

theorem map_upd_id {β : Type} (es : List (Param × List β)) (k : Param) (v : β) (h : k ∉ es.map (·.1)) :
    es.map (fun e => if e.1 == k then (e.1, e.2 ++ [v]) else e) = es := by
  induction es with
  | nil => rfl
  | cons e es ih =>
    simp only [List.map_cons, List.mem_cons, not_or] at h
    have hb : (e.1 == k) = false := by simpa using (fun e1 => h.1 e1.symm)
    rw [List.map_cons, hb, ih h.2]; rfl

theorem groupAdd_eq {β : Type} (e : Param × List β) (es : List (Param × List β)) (k : Param) (v : β) (h : e.1 = k)
    (hn : k ∉ es.map (·.1)) : groupAdd (e :: es) k v = (e.1, e.2 ++ [v]) :: es := by
  have hb : (e.1 == k) = true := by simpa using h
  unfold groupAdd
  simp only [List.any_cons, hb, Bool.true_or, ↓reduceIte, List.map_cons]
  rw [map_upd_id es k v hn]

theorem groupAdd_spec {β : Type} (k : Param) (v : β) : ∀ (acc : List (Param × List β)), (acc.map (·.1)).Nodup →
    ((groupAdd acc k v).map (·.1)).Nodup ∧ (∀ x, x ∈ (groupAdd acc k v).map (·.1) ↔ x = k ∨ x ∈ acc.map (·.1)) ∧
    ∀ k', dictGet (groupAdd acc k v) k' = dictGet acc k' ++ (if k = k' then [v] else [])
  | [], _ => by
    refine ⟨by simp [groupAdd], by simp [groupAdd], fun k' => ?_⟩
    unfold groupAdd dictGet
    by_cases e : k = k'
    · subst e; simp
    · have : (k == k') = false := by simpa using e
      simp [this, e]
  | e :: es, hn => by
    simp only [List.map_cons, List.nodup_cons] at hn
    by_cases h : e.1 = k
    · have hk : k ∉ es.map (·.1) := by rw [← h]; exact hn.1
      rw [groupAdd_eq e es k v h hk]
      refine ⟨by simpa using hn, ?_, fun k' => ?_⟩
      · intro x; simp only [List.map_cons, List.mem_cons]; rw [h]
        constructor
        · rintro (a | a)
          · exact Or.inl a
          · exact Or.inr (Or.inr a)
        · rintro (a | a | a)
          · exact Or.inl a
          · exact Or.inl a
          · exact Or.inr a
      · unfold dictGet
        by_cases e1 : k = k'
        · have hb : (e.1 == k') = true := by simpa [h] using e1
          have hes : es.filter (fun x => x.1 == k') = [] := by
            apply List.filter_eq_nil_iff.2
            intro x hx hxk
            exact hk (List.mem_map.2 ⟨x, hx, by rw [e1]; simpa using hxk⟩)
          simp only [List.filter_cons, hb, ↓reduceIte, hes, List.flatMap_cons, List.flatMap_nil, List.append_nil, if_pos e1]
        · have hb : (e.1 == k') = false := by simpa [h] using e1
          simp only [List.filter_cons, hb, Bool.false_eq_true, ↓reduceIte, if_neg e1, List.append_nil]
    · rw [groupAdd_ne e es k v h]
      obtain ⟨i1, i2, i3⟩ := groupAdd_spec k v es hn.2
      refine ⟨?_, ?_, fun k' => ?_⟩
      · simp only [List.map_cons, List.nodup_cons]
        refine ⟨?_, i1⟩
        intro hm
        rcases (i2 e.1).1 hm with a | a
        · exact h a
        · exact hn.1 a
      · intro x
        simp only [List.map_cons, List.mem_cons]
        rw [i2 x]
        constructor
        · rintro (a | a | a)
          · exact Or.inr (Or.inl a)
          · exact Or.inl a
          · exact Or.inr (Or.inr a)
        · rintro (a | a | a)
          · exact Or.inr (Or.inl a)
          · exact Or.inl a
          · exact Or.inr (Or.inr a)
      · have := i3 k'
        unfold dictGet at this ⊢
        by_cases hb : (e.1 == k') = true
        · simp only [List.filter_cons, hb, ↓reduceIte, List.flatMap_cons, this, List.append_assoc]
        · simp only [List.filter_cons, hb, Bool.false_eq_true, ↓reduceIte, this]

/-- **C07 (model): the dictionary of a rule's objects** has pairwise distinct keys, and under each key exactly the emitted
objects with that key, in the order of emission -/
theorem groupByKey_spec {β : Type} (l : List (Param × β)) :
    ((groupByKey l).map (·.1)).Nodup ∧ ∀ k, dictGet (groupByKey l) k = (l.filter (fun e => e.1 == k)).map (·.2) := by
  unfold groupByKey
  have aux : ∀ (l : List (Param × β)) (acc : List (Param × List β)) (pre : List (Param × β)),
      ((acc.map (·.1)).Nodup ∧ ∀ k, dictGet acc k = (pre.filter (fun e => e.1 == k)).map (·.2)) →
      (((l.foldl (fun acc e => groupAdd acc e.1 e.2) acc).map (·.1)).Nodup ∧
        ∀ k, dictGet (l.foldl (fun acc e => groupAdd acc e.1 e.2) acc) k = ((pre ++ l).filter (fun e => e.1 == k)).map (·.2)) := by
    intro l
    induction l with
    | nil => intro acc pre h; simpa using h
    | cons e l ih =>
      intro acc pre h
      rw [List.foldl_cons]
      have e1 : pre ++ e :: l = (pre ++ [e]) ++ l := by simp
      rw [e1]
      apply ih
      obtain ⟨i1, _, i3⟩ := groupAdd_spec e.1 e.2 acc h.1
      refine ⟨i1, fun k => ?_⟩
      rw [i3 k, h.2 k, List.filter_append, List.map_append]
      congr 1
      by_cases hk : e.1 = k
      · have hb : (e.1 == k) = true := by simpa using hk
        simp [hk]
      · have hb : (e.1 == k) = false := by simpa using hk
        simp [hk, hb]
  simpa using aux l [] [] ⟨by simp, fun k => by simp [dictGet]⟩
#print axioms groupByKey_spec
