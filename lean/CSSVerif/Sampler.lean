import CSSVerif.Walk
/-! Prototype: model of CartesianProduct._valid_compositions / reliance_profile / get_extra_parameters
and of the threshold walk of random_sample_sub_objects (C08). Parameter vectors are lists aligned with
`parent_parameters` = "n" :: parent.extra_parameters. -/

structure ProdData where
  keys : List String                         -- parent_parameters
  minimumSizes : List Nat                    -- aligned with keys
  minChild : List (List Nat)                 -- per child, aligned with keys
  maxChild : List (List (Option Nat))        -- per child, aligned with keys (none = unbounded)
  emap : List (List (String × String))       -- extra_parameters per child (parent var ↦ child var), dict order

/-- `reliance_profile`: per child, per key, the admissible range as (lo, hiExclusive) -/
def profile (d : ProdData) (params : List Nat) : List (List (Nat × Nat)) :=
  (d.minChild.zip d.maxChild).map (fun (mm : List Nat × List (Option Nat)) =>
    (List.range d.keys.length).map (fun i =>
      let lo := mm.1.getD i 0
      let a : Int := (params.getD i 0 : Int) - (d.minimumSizes.getD i 0 : Int) + (lo : Int) + 1
      let hi : Int := match mm.2.getD i none with
        | some m => min a ((m : Int) + 1)
        | none => a
      (lo, hi.toNat)))

def cartN : List (List Nat) → List (List Nat)
  | [] => [[]]
  | l :: ls => l.flatMap (fun x => (cartN ls).map (x :: ·))

/-- `_helper` over (min,max) pairs per child -/
def helperVC (nk : Nat) : List (List (Nat × Nat)) → List Int → List (List (List Nat))
  | [], _ => []
  | [mm], params =>
    if (List.range nk).all (fun i => ((mm.getD i (0,0)).1 : Int) ≤ params.getD i 0 ∧ params.getD i 0 ≤ ((mm.getD i (0,0)).2 : Int))
    then [[params.map Int.toNat]] else []
  | mm :: rest, params =>
    let still := (List.range nk).map (fun i => (rest.map (fun r => (r.getD i (0,0)).1)).sum)
    let avail := (List.range nk).map (fun i => (rest.map (fun r => (r.getD i (0,0)).2)).sum)
    let ranges : List (List Nat) := (List.range nk).map (fun i =>
      let lo : Int := max ((mm.getD i (0,0)).1 : Int) (params.getD i 0 - (avail.getD i 0 : Int))
      let hi : Int := min ((mm.getD i (0,0)).2 : Int) (params.getD i 0 - (still.getD i 0 : Int))
      -- Python range(lo, hi+1): empty if hi < lo; negative lo cannot occur with hi ≥ lo ≥ min ≥ 0
      if hi < lo then [] else (List.range (hi - lo + 1).toNat).map (fun (j : Nat) => (lo + (j : Int)).toNat))
    (cartN ranges).flatMap (fun vals =>
      let upd := (List.range nk).map (fun i => params.getD i 0 - (vals.getD i 0 : Int))
      (helperVC nk rest upd).map (fun comp => vals :: comp))

/-- `_valid_compositions` -/
def validComps (d : ProdData) (params : List Nat) : List (List (List Nat)) :=
  let prof := profile d params
  if prof.all (fun p => p.all (fun r => r.1 < r.2)) then
    helperVC d.keys.length (prof.map (fun p => p.map (fun r => (r.1, r.2 - 1)))) (params.map (fun (x : Nat) => (x : Int)))
  else []

/-- `get_extra_parameters` for one child: list of (child var, value) with "n" first; none = contradiction -/
def extraParams (d : ProdData) (cp : List Nat) (em : List (String × String)) : Option (List (String × Nat)) :=
  em.foldlM (fun (acc : List (String × Nat)) (e : String × String) =>
    let v := cp.getD ((d.keys.findIdx? (· == e.1)).getD 0) 0
    match acc.find? (·.1 == e.2) with
    | none => some (acc ++ [(e.2, v)])
    | some old => if old.2 == v then some acc else none) [("n", cp.getD 0 0)]
