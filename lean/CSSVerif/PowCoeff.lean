import CSSVerif.UnionEq
/-! C20 (checker): the meaning of `^` in an emitted equation. `Ser.pow N a (j+1)` is the truncated Cauchy product of
`Ser.pow N a j` with `a` (one contribution per pair of entries, `mulContribs`), `Ser.pow N a 0` is the constant `1`; the
coefficient of `.pow a (j+1)` at a padded monomial collects the contributions that land on it. Together with `mul_coeff` and
`add_coeff` this gives every arithmetic node of an equation its coefficient-wise meaning, for any exponent. -/

theorem Ser.pow_zero (N : Nat) (a : Ser) : Ser.pow N a 0 = [([], 1)] := rfl

theorem Ser.pow_succ (N : Nat) (a : Ser) (j : Nat) : Ser.pow N a (j + 1) = Ser.mul N (Ser.pow N a j) a := rfl

/-- every power has distinct keys and its coefficients are those of the contributions of the previous power and the base -/
theorem Ser.pow_succ_spec (N : Nat) (a : Ser) (j : Nat) :
    KeysNodup (Ser.pow N a (j + 1)) ∧
    ∀ k, coeff (Ser.pow N a (j + 1)) k = coeff (mulContribs N (Ser.pow N a j) a) k := by
  rw [Ser.pow_succ]
  exact Ser.mul_spec N _ a

theorem Ser.pow_nodup (N : Nat) (a : Ser) : ∀ j, KeysNodup (Ser.pow N a j)
  | 0 => by simp [Ser.pow_zero, KeysNodup]
  | j + 1 => (Ser.pow_succ_spec N a j).1

/-- **the meaning of `^` in an equation** (successor exponent): one contribution per pair of entries of the previous power
and of the base whose monomials add up, within the order `N`, to the (padded) monomial -/
theorem pow_coeff_succ (tab : Nat → Nat → Terms) (nv N : Nat) (a : Expr) (j : Nat) (k : Param) :
    coeff (evalExpr tab nv N (.pow a (j + 1))) k =
      landing (fun m => some (padMono nv m)) (mulContribs N (Ser.pow N (evalExpr tab nv N a) j) (evalExpr tab nv N a)) k := by
  have e : evalExpr tab nv N (.pow a (j + 1)) = Ser.pad nv (Ser.pow N (evalExpr tab nv N a) (j + 1)) := by rw [evalExpr]
  rw [e, pad_coeff, Ser.pow_succ, Ser.mul_eq_fold]
  exact landing_rep _ k _ _ (foldl_addAt_rep _)

/-- exponent zero: the constant one (at the padded empty monomial) -/
theorem pow_coeff_zero (tab : Nat → Nat → Terms) (nv N : Nat) (a : Expr) (k : Param) :
    coeff (evalExpr tab nv N (.pow a 0)) k = if padMono nv [] == k then 1 else 0 := by
  have e : evalExpr tab nv N (.pow a 0) = Ser.pad nv (Ser.pow N (evalExpr tab nv N a) 0) := by rw [evalExpr]
  rw [e, Ser.pow_zero]
  simp only [Ser.pad, Terms.addAt, coeff, List.foldl_cons, List.foldl_nil, List.nil_append]
  by_cases h : padMono nv [] == k
  · simp [h]
  · simp [h]

#print axioms Ser.pow_succ_spec
#print axioms Ser.pow_nodup
#print axioms pow_coeff_succ
#print axioms pow_coeff_zero
