import CSSVerif.Prune
/-! C05: proven checker for proof trees (flattened to their nodes) and the executable model of the
unbounded depth-first generator of all proof trees (sizes only), used as the reference for "smallest". -/

/-- a node of a flattened tree: label, sorted labels of its children (`[]` for a leaf) -/
abbrev TNode := Nat × List Nat

/-- `IsProofTree R ns`: the node list `ns` of a tree is a proof tree over the rules `R`:
every internal node is a recorded rule; every leaf either carries a `()` rule or its label is
internal somewhere in the tree; every label has at most one rule in the tree. -/
def IsProofTree (R : List RuleK) (ns : List TNode) : Prop :=
  (∀ n ∈ ns, n.2 ≠ [] → (n.1, n.2) ∈ R) ∧
  (∀ n ∈ ns, n.2 = [] → (n.1, []) ∈ R ∨ ∃ m ∈ ns, m.1 = n.1 ∧ m.2 ≠ []) ∧
  (∀ n ∈ ns, ∀ m ∈ ns, n.1 = m.1 → n.2 ≠ [] → m.2 ≠ [] → n.2 = m.2)

def checkTree (R : List RuleK) (ns : List TNode) : Bool :=
  ns.all (fun n => n.2.isEmpty || R.contains (n.1, n.2)) &&
  ns.all (fun n => !n.2.isEmpty || R.contains (n.1, []) || ns.any (fun m => m.1 == n.1 && !m.2.isEmpty)) &&
  ns.all (fun n => ns.all (fun m => !(n.1 == m.1) || n.2.isEmpty || m.2.isEmpty || n.2 == m.2))

theorem checkTree_sound (R : List RuleK) (ns : List TNode) (h : checkTree R ns = true) : IsProofTree R ns := by
  unfold checkTree at h
  simp only [Bool.and_eq_true, List.all_eq_true, Bool.or_eq_true, List.isEmpty_iff, List.contains_iff_mem,
    Bool.not_eq_true', List.any_eq_true, beq_iff_eq, Bool.not_eq_eq_eq_not, Bool.not_true] at h
  obtain ⟨⟨h1, h2⟩, h3⟩ := h
  refine ⟨?_, ?_, ?_⟩
  · intro n hn hne
    rcases h1 n hn with e | e
    · exact absurd e hne
    · exact e
  · intro n hn he
    rcases h2 n hn with (e | e) | ⟨m, hm, hml, hmc⟩
    · simp [he] at e
    · exact Or.inl e
    · refine Or.inr ⟨m, hm, hml, ?_⟩
      intro hc; rw [hc] at hmc; simp at hmc
  · intro n hn m hm hl hne hme
    rcases h3 n hn m hm with ((e | e) | e) | e
    · simp [hl] at e
    · exact absurd e hne
    · exact absurd e hme
    · exact e

/-- the tree is rooted at `root` (its first node in pre-order) -/
def rootedAt (ns : List TNode) (root : Nat) : Bool := (ns.head?.map (·.1)) == some root

/-! ### model of `proof_tree_generator_dfs` without `maximum`: all (seen, size) pairs in order -/
def rulesOf (R : List RuleK) (l : Nat) : List (List Nat) := (R.filter (·.1 == l)).map (·.2)

mutual
  def dfsTree (R : List RuleK) : Nat → Nat → List Nat → List (List Nat × Nat)
    | 0, _, _ => []
    | fuel+1, root, seen =>
      if seen.contains root then [(seen, 1)]
      else
        let seen' := root :: seen
        (rulesOf R root).flatMap (fun rule =>
          if rule.isEmpty then [(seen', 1)]
          else (dfsForest R fuel rule seen').map (fun (s, n) => (s, n + 1)))
  def dfsForest (R : List RuleK) : Nat → List Nat → List Nat → List (List Nat × Nat)
    | 0, _, _ => []
    | _+1, [], seen => [(seen, 0)]
    | fuel+1, r :: rs, seen =>
      (dfsTree R fuel r seen).flatMap (fun (s1, n1) =>
        (dfsForest R fuel rs s1).map (fun (s2, n2) => (s2, n1 + n2)))
end

/-- sizes of all proof trees rooted at `root`, in generation order (capped number) -/
def allSizes (R : List RuleK) (root : Nat) (fuel : Nat := 64) : List Nat :=
  if (keys R).contains root then (dfsTree R fuel root []).map (·.2) else []

def minSize (R : List RuleK) (root : Nat) : Option Nat :=
  match allSizes R root with
  | [] => none
  | x :: xs => some (xs.foldl min x)

example : checkTree [(0,[1,2]),(1,[]),(2,[0])] [(0,[1,2]),(1,[]),(2,[0]),(0,[])] = true := by decide
example : minSize [(0,[1,2]),(0,[1]),(1,[]),(2,[0])] 0 = some 2 := by decide
