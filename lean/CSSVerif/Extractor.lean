import CSSVerif.LfpRef
/-! Prototype: model of ForestRuleExtractor._minimize (C11); productivity decided by `lfpRef`. -/
inductive Bucket | reverse | normal | equiv | verification
deriving Repr, DecidableEq, BEq

structure Key where
  rule : Rule
  bucket : Bucket
deriving Repr
instance : Inhabited Key := ⟨⟨⟨0, [], []⟩, .normal⟩⟩

def nClasses (ks : List Key) : Nat :=
  ks.foldl (fun m k => max m (k.rule.children.foldl max k.rule.parent + 1)) 0

def pumpingSet (ks : List Key) (n : Nat) : Array (Option Nat) := (lfpRef (ks.map (·.rule)) n).getD #[]
def isPumping (out : Array (Option Nat)) (c : Nat) : Bool := out.getD c (some 0) == none
def productive (root n : Nat) (ks : List Key) : Bool := isPumping (pumpingSet ks n) root

/-- `pumping_subuniverse` + `_sorted_stable_rules` -/
def stableByBucket (ks : List Key) (n : Nat) (b : Bucket) : List Key :=
  let out := pumpingSet ks n
  ks.filter (fun k => k.bucket == b && isPumping out k.rule.parent && k.rule.children.all (isPumping out))

/-- first phase of `_minimize_key`: repeatedly find the first prefix of `minimizing` that makes the root
pump together with everything else; its last rule goes to `maybe_useful`, the list is cut there -/
def phase1 (root n : Nat) : Nat → List Key → List Key → List Key → List Key
  | 0, _, _, maybe => maybe
  | fuel+1, fixed, minimizing, maybe =>
    if minimizing.isEmpty then maybe else
    if productive root n (fixed ++ maybe) then maybe else
    -- smallest i such that fixed ++ maybe ++ minimizing[0..i] is productive
    match (List.range minimizing.length).find? (fun i => productive root n (fixed ++ maybe ++ minimizing.take (i+1))) with
    | none => maybe      -- RuntimeError in Python; unreachable when the universe pumps
    | some i => phase1 root n fuel fixed (minimizing.take i) (maybe ++ [minimizing.getD i ⟨⟨0,[],[]⟩, .normal⟩])

/-- second phase: pop candidates from the end, keep those whose removal breaks productivity;
the argument is `maybe_useful` reversed -/
def phase2 (root n : Nat) (others : List Key) : List Key → List Key → List Key
  | needed, [] => needed
  | needed, rk :: restRev =>
    let maybe' := restRev.reverse
    let needed' := if productive root n (needed ++ maybe' ++ others) then needed else needed ++ [rk]
    phase2 root n others needed' restRev

def minimize (ks : List Key) (root : Nat) : List Key :=
  let n := nClasses ks
  let order := [Bucket.reverse, .normal, .equiv, .verification]
  let byB := order.map (fun b => (b, stableByBucket ks n b))
  let (needed, _) := order.foldl (fun (acc : List Key × List (Bucket × List Key)) b =>
    let (needed, byB) := acc
    let mine := ((byB.find? (·.1 == b)).map (·.2)).getD []
    let others := (byB.filter (·.1 != b)).flatMap (·.2)
    -- not_minimizing = needed ++ maybe_useful ++ others (order irrelevant for productivity)
    let maybe := phase1 root n (mine.length + 1) (needed ++ others) mine []
    let needed := phase2 root n others needed maybe.reverse
    (needed, byB.map (fun e => if e.1 == b then (b, []) else e))) ([], byB)
  needed
