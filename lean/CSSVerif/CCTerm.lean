import CSSVerif.CCComplete
/-! C06: the cycle search comes to rest - within `|keys| + |one-way edges|` iterations the stack is empty, so `cc_exact` holds
without a run-time hypothesis whenever the fuel is at least that large. -/
namespace EqDB
open EDB

theorem fold_stack_len (path : List Nat) : ∀ (todo : List Nat) (acc : EDB × List (List Nat)),
    (todo.foldl (CC.stepSucc path) acc).2.length ≤ acc.2.length + todo.length
  | [], acc => by simp
  | y :: todo, acc => by
    rw [List.foldl_cons]
    have h1 := fold_stack_len path todo (CC.stepSucc path acc y)
    have h2 : (CC.stepSucc path acc y).2.length ≤ acc.2.length + 1 := by
      unfold CC.stepSucc
      simp only
      split <;> simp
    simp only [List.length_cons]
    omega

/-- the one-way edges whose source has not been visited yet -/
def pendingEdges (ow : List (Nat × Nat)) (vis : List Nat) : List (Nat × Nat) := ow.filter (fun p => !vis.contains p.1)

theorem pending_visit (x : Nat) (vis : List Nat) (hx : x ∉ vis) : ∀ (ow : List (Nat × Nat)),
    (pendingEdges ow (x :: vis)).length + (succOf ow x).length = (pendingEdges ow vis).length
  | [] => rfl
  | p :: ow => by
    have ih := pending_visit x vis hx ow
    unfold pendingEdges succOf at ih ⊢
    by_cases h1 : p.1 = x
    · have hb : (p.1 == x) = true := by simpa using h1
      have hc1 : (x :: vis).contains p.1 = true := by simp [h1]
      have hc2 : vis.contains p.1 = false := by rw [h1]; simpa using hx
      simp only [List.filter_cons, hb, hc1, hc2, Bool.not_true, Bool.not_false, Bool.false_eq_true, ↓reduceIte, List.map_cons,
        List.length_cons]
      omega
    · have hb : (p.1 == x) = false := by simpa using h1
      by_cases h2 : vis.contains p.1 = true
      · have hc1 : (x :: vis).contains p.1 = true := by
          have : p.1 ∈ vis := by simpa using h2
          simp [this]
        simp only [List.filter_cons, hb, hc1, h2, Bool.not_true, Bool.false_eq_true, ↓reduceIte]
        exact ih
      · have h2' : vis.contains p.1 = false := by simpa using h2
        have hc1 : (x :: vis).contains p.1 = false := by
          have : p.1 ∉ vis := by simpa using h2
          simp [this, h1]
        simp only [List.filter_cons, hb, hc1, h2', Bool.not_false, Bool.false_eq_true, ↓reduceIte, List.length_cons]
        omega

/-- **the search terminates**: with fuel at least (stack size + edges out of unvisited vertices) it ends with an empty stack -/
theorem goS_rest (ow : List (Nat × Nat)) : ∀ (fuel : Nat) (uf : EDB) (st : List (List Nat)) (vis : List Nat),
    st.length + (pendingEdges ow vis).length ≤ fuel → (CC.goS (succOf ow) fuel uf st vis).2.1 = []
  | 0, uf, st, vis, h => by
    have : st = [] := List.eq_nil_of_length_eq_zero (by omega)
    subst this; rfl
  | fuel+1, uf, [], vis, _ => by rw [CC.goS]
  | fuel+1, uf, path :: rest, vis, h => by
    rw [CC.goS]
    by_cases hc : vis.contains path.getLast! = true
    · simp only [hc, ↓reduceIte]
      exact goS_rest ow fuel uf rest vis (by simp only [List.length_cons] at h; omega)
    · simp only [hc, Bool.false_eq_true, ↓reduceIte]
      apply goS_rest
      have hx : path.getLast! ∉ vis := by simpa using hc
      have h1 := fold_stack_len path (succOf ow path.getLast!) (uf, rest)
      have h2 := pending_visit path.getLast! vis hx ow
      simp only [List.length_cons] at h
      simp only at h1
      omega

theorem keysOW_length (d : EqDB) : d.keysOW.length ≤ d.oneWay.length := by
  unfold keysOW
  have aux : ∀ (l : List (Nat × Nat)) (acc : List Nat),
      (l.foldl (fun acc p => if acc.contains p.1 then acc else acc ++ [p.1]) acc).length ≤ acc.length + l.length := by
    intro l
    induction l with
    | nil => intro acc; simp
    | cons p l ih =>
      intro acc
      rw [List.foldl_cons]
      have := ih (if acc.contains p.1 then acc else acc ++ [p.1])
      have h2 : (if acc.contains p.1 then acc else acc ++ [p.1]).length ≤ acc.length + 1 := by split <;> simp
      simp only [List.length_cons]
      omega
  simpa using aux d.oneWay []

/-- the hypothesis of `cc_complete` holds whenever the fuel is at least twice the number of one-way edges -/
theorem ccRest_of_fuel (d : EqDB) (fuel : Nat) (hf : 2 * d.refreshOneWay.oneWay.length ≤ fuel) :
    (CC.goS (succOf d.refreshOneWay.oneWay) fuel d.uf ((d.refreshOneWay.keysOW.map (fun k => [k])).reverse) []).2.1 = [] := by
  apply goS_rest
  have h1 := keysOW_length d.refreshOneWay
  have h2 : (pendingEdges d.refreshOneWay.oneWay []).length ≤ d.refreshOneWay.oneWay.length := List.length_filter_le _ _
  simp only [List.length_reverse, List.length_map]
  omega

/-- **C06, without a run-time hypothesis: after `connect_cycles` the classes are exactly the strongly connected components**, for
every database reachable by the operations (`eqdb_wf`) and every fuel of at least twice the number of one-way edges (the
default fuel is 100000) -/
theorem cc_exact_of_fuel (d : EqDB) (hwf : WF d.uf) (fuel : Nat) (hf : 2 * d.refreshOneWay.oneWay.length ≤ fuel)
    (a b : Nat) (ha : ∃ p ∈ d.refreshOneWay.oneWay, p.1 = a ∨ p.2 = a) (hb : ∃ p ∈ d.refreshOneWay.oneWay, p.1 = b ∨ p.2 = b) :
    (d.connectCycles fuel).equivalent a b = true ↔
      (_root_.Reach d.refreshOneWay.oneWay a b ∧ _root_.Reach d.refreshOneWay.oneWay b a) :=
  cc_exact d hwf fuel (ccRest_of_fuel d fuel hf) a b ha hb
#print axioms cc_exact_of_fuel
end EqDB
