import CSSVerif.EquivDB
import CSSVerif.Prune
import CSSVerif.IterPrune
/-! Prototype 2: the searcher engine with the full equivalence database and the `search`
(has_specification) transition (C04/C05/C14/C17). Reuses Flags, RuleOut, Universe, EDB, CDB, Event,
packOf, sortNat, … from `Cssv.Engine`. -/
namespace E2
structure St where
  cdb : CDB
  q : Q
  eq : EqDB
  rules : List (Nat × List Nat)       -- rule_to_strategy keys
  eqv : List (Nat × List Nat)         -- eqv_rule_to_strategy keys
  tried : List Nat
  symExp : List Nat
  infExp : List Nat
  log : List Event
deriving Repr

def packOf (u : Universe) : Pack := ⟨u.inferral.length, u.initial.length, u.expansion.map List.length⟩

def insertSorted (x : Nat) : List Nat → List Nat
  | [] => [x]
  | y :: ys => if x ≤ y then x :: y :: ys else y :: insertSorted x ys
def sortNat (l : List Nat) : List Nat := l.foldr insertSorted []

/-- `RuleDBBase.add` with `_clean_labels` -/
def dbAdd (u : Universe) (s : St) (start : Nat) (ends : List Nat) (r : RuleOut) : St :=
  let s := { s with log := s.log ++ [⟨start, ends, r.isVer, r.twoWay⟩] }
  -- _clean_labels
  let (s, cleaned) := ends.foldl (fun (acc : St × List Nat) l =>
      let (s, cl) := acc
      if r.flags.possiblyEmpty then
        let (cdb, b) := s.cdb.isEmpty u l
        let s := { s with cdb := cdb }
        if b then ({ s with q := s.q.setStop l }, cl) else (s, cl ++ [l])
      else (s, cl ++ [l])) (s, [])
  let ends := sortNat cleaned
  let s := if r.isVer then { s with eq := s.eq.setVerified start } else s
  match ends with
  | [e] =>
    if r.twoWay then
      { s with eq := s.eq.addTwoWay start e,
               eqv := if s.eqv.contains (start, [e]) then s.eqv else s.eqv ++ [(start, [e])],
               rules := s.rules.filter (fun k => k != (start, [e]) && k != (e, [start])) }
    else { s with eq := s.eq.addOneWay start e, rules := if s.rules.contains (start, [e]) then s.rules else s.rules ++ [(start, [e])] }
  | _ => { s with rules := if s.rules.contains (start, ends) then s.rules else s.rules ++ [(start, ends)] }

/-- label children (in order), then the parent; `none` when the rule is the self-equivalence that
`_expand_class_with_strategy` filters out -/
def labelRule (s : St) (x lbl : Nat) (r : RuleOut) : Option (St × Nat × List Nat) :=
  if r.children.length == 1 && r.children.head! == r.parent then none else
  let (cdb, ends) := r.children.foldl (fun (acc : CDB × List Nat) c =>
      let (cdb, l) := acc.1.getLabel c; (cdb, acc.2 ++ [l])) (s.cdb, [])
  let (cdb, start) := if r.parent == x then (cdb, lbl) else cdb.getLabel r.parent
  some ({ s with cdb := cdb }, start, ends)

mutual
  /-- `add_rule` -/
  def addRule (u : Universe) : Nat → St → Nat → List Nat → RuleOut → St
    | 0, s, _, _, _ => s
    | fuel+1, s, start, ends, r =>
      let s := (r.children.zip ends).foldl (fun s (ce : Nat × Nat) =>
          let (c, l) := ce
          let s := if !r.flags.possiblyEmpty then { s with cdb := s.cdb.setEmpty l false } else s
          let s := if !u.sym.isEmpty && !s.symExp.contains l then symExpand u fuel s c l else s
          let s := if r.flags.workable then { s with q := s.q.add (packOf u) l } else s
          let s := if !r.flags.inferrable then { s with q := s.q.setNotInferrable l } else s
          tryVerify u fuel s c l) s
      let s := if r.flags.ignoreParent then { s with q := s.q.setStop start } else s
      dbAdd u s start ends r
  /-- `try_verify` -/
  def tryVerify (u : Universe) : Nat → St → Nat → Nat → St
    | 0, s, _, _ => s
    | fuel+1, s, x, l =>
      if s.tried.contains l then s else
      let s := { s with tried := l :: s.tried }
      let (cdb, b) := s.cdb.isEmpty u l
      let s := { s with cdb := cdb }
      if b then s else
      u.ver.foldl (fun s σ =>
        if s.eq.uf.isVerified l then s else
        (u.apply σ x).foldl (fun s r =>
          match labelRule s x l r with
          | none => s
          | some (s, start, ends) => addRule u fuel s start ends r) s) s
  /-- `_symmetry_expand` -/
  def symExpand (u : Universe) : Nat → St → Nat → Nat → St
    | 0, s, _, _ => s
    | _fuel+1, s, x, l =>
      let (cdb, b) := s.cdb.isEmpty u l
      let s := { s with cdb := cdb }
      let (s, syms) := u.sym.foldl (fun (acc : St × List Nat) σ =>
        (u.apply σ x).foldl (fun (acc : St × List Nat) r =>
          let (s, syms) := acc
          match labelRule s x l r with
          | none => (s, syms)
          | some (s, start, ends) =>
            let sl := ends.head!
            let s := { s with cdb := s.cdb.setEmpty sl b }
            let s := dbAdd u s start [sl] r
            ({ s with q := s.q.setStop sl }, syms ++ [sl])) acc) (s, [l])
      { s with symExp := s.symExp ++ syms.filter (fun y => !s.symExp.contains y) }
end

/-- first inferral strategy (in order, skipping `skip`) that yields a recordable rule -/
def firstInf (u : Universe) (s : St) (x l : Nat) (skip : Option Nat) : Nat → List Nat →
    Option (Nat × Nat × RuleOut × St × Nat × List Nat)
  | _, [] => none
  | i, σ :: rest =>
    if some σ == skip then firstInf u s x l skip (i+1) rest else
    match (u.apply σ x).filterMap (fun r => (labelRule s x l r).map (fun t => (r, t))) with
    | [] => firstInf u s x l skip (i+1) rest
    | (r, (s', start, ends)) :: _ => some (i, σ, r, s', start, ends)

/-- `_inferral_expand` -/
def infExpand (u : Universe) : Nat → St → Nat → Nat → List Nat → Option Nat → St
  | 0, s, _, _, _, _ => s
  | fuel+1, s, x, l, strats, skip =>
    if s.infExp.contains l then s else
    let s := { s with infExp := l :: s.infExp }
    let s :=
      match firstInf u s x l skip 0 strats with
      | none => s
      | some (i, σ, r, s, start, ends) =>
        let s := addRule u fuel s start ends r
        let s := { s with q := s.q.setNotInferrable start }
        let rot := strats.drop (i+1) ++ strats.take (i+1)
        infExpand u fuel s r.children.head! ends.head! rot (some σ)
    { s with q := s.q.setNotInferrable l }

def stratsOf (u : Universe) : Work → List Nat
  | .inferral => u.inferral
  | .initial i => [u.initial.getD i 0]
  | .expansion j i => [(u.expansion.getD j []).getD i 0]

/-- one packet of `_expand_classes_for` -/
def stepEngine (u : Universe) (fuel : Nat) (s : St) : St × Option WP :=
  match Q.next (packOf u) 100000 s.q with
  | (q, .yield w) =>
    let s := { s with q := q }
    let x := s.cdb.classes.getD w.label 0
    if u.expandVerified || !s.eq.uf.isVerified w.label then
      match w.work with
      | .inferral => (infExpand u fuel s x w.label u.inferral none, some w)
      | _ =>
        let s := (stratsOf u w.work).foldl (fun s σ =>
          (u.apply σ x).foldl (fun s r =>
            match labelRule s x w.label r with
            | none => s
            | some (s, start, ends) => addRule u fuel s start ends r) s) s
        (s, some w)
    else (s, some w)
  | (q, _) => ({ s with q := q }, none)

def initEngine (u : Universe) (fuel : Nat) (startClass : Nat) : St :=
  let cdb : CDB := { classes := [startClass], empties := [none] }
  let q := (Q.init (packOf u)).add (packOf u) 0
  let s : St := { cdb := cdb, q := q, eq := {}, rules := [], eqv := [], tried := [], symExp := [], infExp := [], log := [] }
  let s := tryVerify u fuel s startClass 0
  if !u.sym.isEmpty then symExpand u fuel s startClass 0 else s

/-- `rules_up_to_equivalence` (after `connect_cycles`) -/
def rulesUpToEq (s : St) : EqDB × List RuleK :=
  let eq := s.eq.connectCycles
  let all := s.rules ++ s.eqv
  let rd := all.foldl (fun (acc : List RuleK) k =>
    match k.2 with
    | [e] => if eq.equivalent k.1 e then acc else
        let r := (eq.uf.find k.1, sortNat (k.2.map eq.uf.find)); if acc.contains r then acc else acc ++ [r]
    | _ => let r := (eq.uf.find k.1, sortNat (k.2.map eq.uf.find)); if acc.contains r then acc else acc ++ [r]) []
  (eq, rd)

/-- `has_specification()` for a non-iterative pack: connect cycles, prune, mark survivors verified -/
def search (s : St) (rootLabel : Nat) : St × Bool :=
  let (eq, rd) := rulesUpToEq s
  let pr := prune rd
  let ks := keys pr
  let eq := ks.foldl (fun (eq : EqDB) k => eq.setVerified k) eq
  ({ s with eq := eq }, ks.contains (eq.uf.find rootLabel))

/-- `has_specification()` for an iterative pack: the representative of the root's class is the pre-verified
root (as repaired in /repo; the unrepaired code passed the raw label, finding F1). -/
def searchIter (s : St) (rootLabel : Nat) : St × Bool :=
  let (eq, rd) := rulesUpToEq s
  let pr := iterPrune rd (eq.uf.find rootLabel)
  let ks := keys pr
  let eq := ks.foldl (fun (eq : EqDB) k => eq.setVerified k) eq
  ({ s with eq := eq }, ks.contains (eq.uf.find rootLabel))
end E2
