/-! Prototype: utils.compositions enumerates exactly the bounded compositions (C07/C09/C10). -/
abbrev Bound := Nat × Option Nat

def sumMin (bs : List Bound) : Nat := (bs.map (·.1)).sum
/-- `some s` when every part has an upper bound, `s` their sum -/
def sumMax : List Bound → Option Nat
  | [] => some 0
  | b :: bs => match b.2, sumMax bs with
    | some m, some s => some (m + s)
    | _, _ => none

def guardOk (n : Int) (bs : List Bound) : Bool :=
  decide (0 ≤ n) && decide ((sumMin bs : Int) ≤ n) &&
  (match sumMax bs with | some s => decide (n ≤ (s : Int)) | none => true)

def comps : Int → List Bound → List (List Nat)
  | _, [] => []
  | n, [b] => if guardOk n [b] then [[n.toNat]] else []
  | n, b :: b' :: bs =>
    if guardOk n (b :: b' :: bs) then
      let hi := match b.2 with | some m => m | none => n.toNat
      ((List.range (hi + 1 - b.1)).map (· + b.1)).flatMap
        (fun (i : Nat) => (comps (n - (i : Int)) (b' :: bs)).map (i :: ·))
    else []

/-- `l` respects the bounds position-wise -/
def Within : List Nat → List Bound → Prop
  | [], [] => True
  | x :: xs, b :: bs => b.1 ≤ x ∧ (∀ m, b.2 = some m → x ≤ m) ∧ Within xs bs
  | _, _ => False

theorem sumMin_le_of_within : ∀ (l : List Nat) (bs : List Bound), Within l bs → sumMin bs ≤ l.sum
  | [], [], _ => by simp [sumMin]
  | x :: xs, b :: bs, h => by
    obtain ⟨h1, _, h3⟩ := h
    have := sumMin_le_of_within xs bs h3
    simp [sumMin] at *; omega
  | [], _ :: _, h => by cases h
  | _ :: _, [], h => by cases h

theorem le_sumMax_of_within : ∀ (l : List Nat) (bs : List Bound) (s : Nat), Within l bs → sumMax bs = some s → l.sum ≤ s
  | [], [], s, _, hs => by simp [sumMax] at hs; subst hs; simp
  | x :: xs, b :: bs, s, h, hs => by
    obtain ⟨_, h2, h3⟩ := h
    unfold sumMax at hs
    split at hs
    · rename_i m s' hm hs'
      injection hs with hs; subst hs
      have := le_sumMax_of_within xs bs s' h3 hs'
      have := h2 m hm
      simp; omega
    · cases hs
  | [], _ :: _, _, h, _ => by cases h
  | _ :: _, [], _, h, _ => by cases h

theorem guard_of_within (l : List Nat) (bs : List Bound) (h : Within l bs) : guardOk (l.sum : Int) bs = true := by
  unfold guardOk
  have h1 := sumMin_le_of_within l bs h
  simp only [Bool.and_eq_true, decide_eq_true_eq]
  refine ⟨⟨by omega, by omega⟩, ?_⟩
  split
  · rename_i s hs
    have := le_sumMax_of_within l bs s h hs
    simp; omega
  · rfl

/-- completeness: every bounded composition is produced -/
theorem comps_complete : ∀ (bs : List Bound) (l : List Nat), bs ≠ [] → Within l bs → l ∈ comps (l.sum : Int) bs
  | [], _, h, _ => absurd rfl h
  | [b], l, _, h => by
    match l, h with
    | [x], h =>
      unfold comps
      rw [if_pos (guard_of_within [x] [b] h)]
      simp
  | b :: b' :: bs, l, _, h => by
    match l, h with
    | x :: xs, h =>
      have hg := guard_of_within (x :: xs) (b :: b' :: bs) h
      obtain ⟨h1, h2, h3⟩ := h
      unfold comps
      rw [if_pos hg]
      simp only [List.mem_flatMap, List.mem_map, List.mem_range]
      refine ⟨x, ⟨x - b.1, ?_, by omega⟩, xs, ?_, rfl⟩
      · split
        · rename_i m hm; have := h2 m hm; omega
        · have e2 : ((x : Int) + (xs.sum : Int)).toNat = x + xs.sum := by omega
          simp only [List.sum_cons, Int.natCast_add] at *
          rw [e2]; omega
      · have := comps_complete (b' :: bs) xs (by simp) h3
        have e : (((x :: xs).sum : Nat) : Int) - (x : Int) = (xs.sum : Int) := by
          simp only [List.sum_cons, Int.natCast_add]; omega
        rw [e]; exact this
#print axioms comps_complete

theorem guardOk_spec {n : Int} {bs : List Bound} (h : guardOk n bs = true) :
    0 ≤ n ∧ (sumMin bs : Int) ≤ n ∧ ∀ s, sumMax bs = some s → n ≤ (s : Int) := by
  unfold guardOk at h
  simp only [Bool.and_eq_true, decide_eq_true_eq] at h
  refine ⟨h.1.1, h.1.2, ?_⟩
  intro s hs
  rw [hs] at h
  simpa using h.2

/-- soundness: everything produced is a bounded composition of `n` -/
theorem comps_sound : ∀ (bs : List Bound) (n : Int) (l : List Nat), l ∈ comps n bs → Within l bs ∧ (l.sum : Int) = n
  | [], _, _, h => by simp [comps] at h
  | [b], n, l, h => by
    unfold comps at h
    split at h
    · rename_i hg
      obtain ⟨h0, h1, h2⟩ := guardOk_spec hg
      simp only [List.mem_singleton] at h
      subst h
      simp only [sumMin, List.map_cons, List.map_nil, List.sum_cons, List.sum_nil, Nat.add_zero] at h1
      refine ⟨⟨by omega, ?_, trivial⟩, by simp; omega⟩
      intro m hm
      have := h2 m (by simp [sumMax, hm])
      omega
    · simp at h
  | b :: b' :: bs, n, l, h => by
    unfold comps at h
    split at h
    · rename_i hg
      obtain ⟨h0, _, _⟩ := guardOk_spec hg
      simp only [List.mem_flatMap, List.mem_map, List.mem_range] at h
      obtain ⟨i, ⟨j, hj, rfl⟩, xs, hxs, rfl⟩ := h
      obtain ⟨hw, hsum⟩ := comps_sound (b' :: bs) _ xs hxs
      refine ⟨⟨by omega, ?_, hw⟩, by simp only [List.sum_cons, Int.natCast_add]; omega⟩
      intro m hm
      rw [hm] at hj
      simp only at hj
      omega
    · simp at h
#print axioms comps_sound

/-- C10 for products: in a bounded composition of `n`, part `i` is at most `n` minus the minimum
sizes of all the other parts — i.e. child `i` is read at sizes `≤ n - shift_i` with
`shift_i = Σ min − min_i` (`CartesianProductStrategy.shifts`). -/
theorem within_part_le : ∀ (l : List Nat) (bs : List Bound), Within l bs →
    ∀ i, i < l.length → l.getD i 0 + (sumMin bs - (bs.getD i (0, none)).1) ≤ l.sum
  | [], [], _, i, hi => by simp at hi
  | x :: xs, b :: bs, h, i, hi => by
    obtain ⟨h1, _, h3⟩ := h
    have hmin := sumMin_le_of_within xs bs h3
    cases i with
    | zero =>
      simp only [List.getD_cons_zero, sumMin, List.map_cons, List.sum_cons] at *
      omega
    | succ j =>
      have := within_part_le xs bs h3 j (by simpa using hi)
      simp only [List.getD_cons_succ, sumMin, List.map_cons, List.sum_cons] at *
      have hb : (bs.getD j (0, none)).1 ≤ (bs.map (·.1)).sum := by
        clear this hmin h3 hi h1
        induction bs generalizing j with
        | nil => simp
        | cons c cs ih =>
          cases j with
          | zero => simp
          | succ k => have := ih k; simp only [List.getD_cons_succ, List.map_cons, List.sum_cons]; omega
      omega
  | [], _ :: _, h, _, _ => by cases h
  | _ :: _, [], h, _, _ => by cases h

theorem product_local (bs : List Bound) (n : Nat) (l : List Nat) (h : l ∈ comps (n : Int) bs)
    (i : Nat) (hi : i < l.length) : l.getD i 0 + (sumMin bs - (bs.getD i (0, none)).1) ≤ n := by
  obtain ⟨hw, hs⟩ := comps_sound bs n l h
  have := within_part_le l bs hw i hi
  omega
#print axioms product_local

/-- model of `ReverseRule.shifts` (strategies/rule.py:1003-1009) -/
def reverseShifts (s : List Int) (idx : Nat) : List Int :=
  let p := - s.getD idx 0
  p :: ((s.eraseIdx idx).map (· + p))

/-- C10 for quotients (`Quotient._a`): the compositions range over total size `n + shift_idx`; the part
of child `j` is then at most `n - (shift_j - shift_idx)`, which is the shift the reverse rule declares
for that child (`s_j + pshift`, `pshift = -s_idx`). Shifts are those of the original product:
`shift_k = Σ min − min_k`. -/
theorem quotient_local (bs : List Bound) (n idx : Nat) (l : List Nat)
    (h : l ∈ comps ((n + (sumMin bs - (bs.getD idx (0, none)).1) : Nat) : Int) bs)
    (j : Nat) (hj : j < l.length) :
    (l.getD j 0 : Int) ≤ (n : Int) -
      (((sumMin bs - (bs.getD j (0, none)).1 : Nat) : Int) - ((sumMin bs - (bs.getD idx (0, none)).1 : Nat) : Int)) := by
  have := product_local bs _ l h j hj
  omega
#print axioms quotient_local
