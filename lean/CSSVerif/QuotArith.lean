import CSSVerif.Quotient
import CSSVerif.SeriesSpec
import CSSVerif.NormCanon
/-! C09 (quotient): the exact polynomial division of `Quotient.get_terms` (model `polyDiv`) is sound for every fuel, dividend,
divisor and start quotient: every step subtracts `v·x^k·c` from the dividend and adds `v·x^k` to the quotient, so
`dividend + quotient·c` is preserved, and when the division ends (no leading term left) the dividend is zero: the answer times
the divisor is the dividend, coefficient by coefficient (`polyDiv_exact`). -/

/-- `Σ e.2 · g e.1` over the entries -/
def qwsum (g : Param → Int) (t : Terms) : Int := (t.map (fun e => e.2 * g e.1)).sum

/-- coefficient of `q · c` at `m`: every entry `(k, v)` of `q` contributes `v ·` (the weight of `c` landing on `m` after the shift by `k`) -/
def pmul (q c : Terms) (m : Param) : Int := qwsum (fun k => landing (fun p => some (addParams p k)) c m) q

theorem Terms.sub_spec (a b : Terms) (h : KeysNodup a) :
    KeysNodup (a.sub b) ∧ ∀ k, coeff (a.sub b) k = coeff a k - coeff b k := by
  have e : a.sub b = (Ser.neg b).foldl (fun (t : Terms) e => t.addAt e.1 e.2) a := by
    unfold Terms.sub Ser.neg
    rw [List.foldl_map]
  rw [e]
  obtain ⟨h1, h2⟩ := foldl_addAt_spec (Ser.neg b) a h
  refine ⟨h1, fun k => ?_⟩
  rw [h2 k, Ser.neg_spec]; omega

theorem scaleShift_coeff (k : Param) (v : Int) (m : Param) : ∀ (t : Terms),
    coeff (t.scaleShift k v) m = landing (fun p => some (addParams p k)) t m * v
  | [] => by simp [Terms.scaleShift, coeff, landing]
  | e :: t => by
    have ih := scaleShift_coeff k v m t
    unfold Terms.scaleShift at ih ⊢
    rw [List.map_cons, coeff_cons, landing_cons, ih]
    by_cases h : addParams e.1 k = m
    · rw [if_pos h, if_pos (by rw [h]), Int.add_mul]
    · rw [if_neg h, if_neg (by intro e1; injection e1 with e2; exact h e2), Int.add_mul]; simp

theorem qwsum_nil (g : Param → Int) : qwsum g [] = 0 := rfl
theorem qwsum_cons (g : Param → Int) (e : Param × Int) (t : Terms) : qwsum g (e :: t) = e.2 * g e.1 + qwsum g t := by
  simp [qwsum]
theorem qwsum_append (g : Param → Int) (s t : Terms) : qwsum g (s ++ t) = qwsum g s + qwsum g t := by
  simp [qwsum]

theorem qwsum_upd (g : Param → Int) (k : Param) (v : Int) : ∀ (t : Terms), KeysNodup t →
    qwsum g (t.map (fun e => if e.1 == k then (e.1, e.2 + v) else e)) = qwsum g t + (if k ∈ t.map (·.1) then v * g k else 0)
  | [], _ => by simp [qwsum]
  | e :: t, h => by
    have hn : e.1 ∉ t.map (·.1) ∧ KeysNodup t := by
      unfold KeysNodup at h ⊢
      rw [List.map_cons, List.nodup_cons] at h
      exact h
    have ih := qwsum_upd g k v t hn.2
    rw [List.map_cons, qwsum_cons, qwsum_cons, ih]
    by_cases hk : e.1 = k
    · have hk' : (e.1 == k) = true := by simpa using hk
      have h1 : k ∉ t.map (·.1) := hk ▸ hn.1
      have h2 : k ∈ (e :: t).map (·.1) := by rw [List.map_cons, ← hk]; exact List.mem_cons_self
      rw [if_pos hk', if_neg h1, if_pos h2]
      simp only [hk, Int.add_mul]; omega
    · have hk' : ¬ (e.1 == k) = true := by simpa using hk
      rw [if_neg hk']
      by_cases h1 : k ∈ t.map (·.1)
      · have h2 : k ∈ (e :: t).map (·.1) := by rw [List.map_cons]; exact List.mem_cons_of_mem _ h1
        rw [if_pos h1, if_pos h2]; omega
      · have h2 : k ∉ (e :: t).map (·.1) := by
          rw [List.map_cons]; intro hm
          cases List.mem_cons.mp hm with
          | inl h3 => exact hk h3.symm
          | inr h3 => exact h1 h3
        rw [if_neg h1, if_neg h2]; omega

/-- adding `v` at key `k` adds `v · g k` to the weighted sum -/
theorem qwsum_addAt (g : Param → Int) (t : Terms) (k : Param) (v : Int) (h : KeysNodup t) :
    qwsum g (t.addAt k v) = qwsum g t + v * g k := by
  unfold Terms.addAt
  by_cases ha : t.any (·.1 == k) = true
  · rw [if_pos ha, qwsum_upd g k v t h]
    have : k ∈ t.map (·.1) := by
      rw [List.any_eq_true] at ha
      obtain ⟨e, he, hk⟩ := ha
      have : e.1 = k := by simpa using hk
      exact this ▸ List.mem_map_of_mem he
    rw [if_pos this]
  · rw [if_neg ha, qwsum_append, qwsum_cons, qwsum_nil]; simp

theorem leadTerm_fold_some (f : Option (Param × Int) → Param × Int → Option (Param × Int))
    (hf : ∀ b e, ∃ r, f b e = some r) : ∀ (l : List (Param × Int)) (b : Param × Int), ∃ r, l.foldl f (some b) = some r
  | [], b => ⟨b, rfl⟩
  | e :: l, b => by
    obtain ⟨r, hr⟩ := hf (some b) e
    rw [List.foldl_cons, hr]
    exact leadTerm_fold_some f hf l r

def leadStep (best : Option (Param × Int)) (e : Param × Int) : Option (Param × Int) :=
  match best with
  | none => some e
  | some b => if paramLe b.1 e.1 then some e else some b

theorem leadTerm_eq (t : Terms) : leadTerm t = t.norm.foldl leadStep none := rfl

theorem leadStep_some (b : Option (Param × Int)) (e : Param × Int) : ∃ r, leadStep b e = some r := by
  cases b with
  | none => exact ⟨e, rfl⟩
  | some b =>
    unfold leadStep
    by_cases hc : paramLe b.1 e.1 = true
    · exact ⟨e, by simp [hc]⟩
    · exact ⟨b, by simp [hc]⟩

theorem leadTerm_none (t : Terms) (h : leadTerm t = none) : t.norm = [] := by
  rw [leadTerm_eq] at h
  cases hl : t.norm with
  | nil => rfl
  | cons e l =>
    exfalso
    rw [hl, List.foldl_cons] at h
    obtain ⟨r0, hr0⟩ := leadStep_some none e
    rw [hr0] at h
    obtain ⟨r, hr⟩ := leadTerm_fold_some leadStep leadStep_some l r0
    rw [hr] at h
    cases h

/-- **soundness of the exact division**, any fuel: `dividend + quotient·c` is preserved by every step and the dividend is zero at the end -/
theorem polyDiv_sound : ∀ (fuel : Nat) (a c q r : Terms), KeysNodup a → KeysNodup q → polyDiv fuel a c q = some r →
    KeysNodup r ∧ ∀ m, coeff a m + pmul q c m = pmul r c m
  | 0, _, _, _, _, _, _, h => by simp [polyDiv] at h
  | fuel + 1, a, c, q, r, ha, hq, h => by
    rw [polyDiv] at h
    cases hl : leadTerm a with
    | none =>
      simp only [hl] at h
      injection h with h
      subst h
      refine ⟨hq, fun m => ?_⟩
      have : coeff a m = 0 := by
        rw [← norm_coeff a ha m, leadTerm_none a hl, coeff_nil]
      omega
    | some la =>
      simp only [hl] at h
      cases hc : leadTerm c with
      | none => simp only [hc] at h; cases h
      | some lc =>
        simp only [hc] at h
        cases hs : subParams? la.1 lc.1 with
        | none => simp only [hs] at h; cases h
        | some k =>
          simp only [hs] at h
          by_cases hd : (la.2 % lc.2 != 0) = true
          · rw [if_pos hd] at h; cases h
          · rw [if_neg hd] at h
            obtain ⟨hs1, hs2⟩ := Terms.sub_spec a (c.scaleShift k (la.2 / lc.2)) ha
            obtain ⟨hq1, _⟩ := addAt_spec q k (la.2 / lc.2) hq
            obtain ⟨hr, hm⟩ := polyDiv_sound fuel _ c _ r (norm_keys _ hs1) hq1 h
            refine ⟨hr, fun m => ?_⟩
            have := hm m
            rw [norm_coeff _ hs1, hs2, scaleShift_coeff] at this
            unfold pmul at this ⊢
            rw [qwsum_addAt _ q k _ hq] at this
            rw [← this, Int.mul_comm (la.2 / lc.2)]
            omega

/-- **the quotient's division is exact**: if `polyDiv` (started, as `quotientTerms` does, with the empty quotient) answers `r`,
then `r · c = a`, coefficient by coefficient, and `r` has distinct keys -/
theorem polyDiv_exact (fuel : Nat) (a c r : Terms) (ha : KeysNodup a) (h : polyDiv fuel a c [] = some r) :
    KeysNodup r ∧ ∀ m, pmul r c m = coeff a m := by
  obtain ⟨hr, hm⟩ := polyDiv_sound fuel a c [] r ha (by simp [KeysNodup]) h
  refine ⟨hr, fun m => ?_⟩
  have := hm m
  unfold pmul at this ⊢
  rw [qwsum_nil] at this
  omega

/-- non-vacuity: `(x + 1)·(x + 2) = x² + 3x + 2` divided by `x + 2` -/
example : polyDiv 10 [([2], 1), ([1], 3), ([0], 2)] [([1], 1), ([0], 2)] [] = some [([1], 1), ([0], 1)] := by decide

#print axioms Terms.sub_spec
#print axioms scaleShift_coeff
#print axioms qwsum_addAt
#print axioms polyDiv_sound
#print axioms polyDiv_exact
