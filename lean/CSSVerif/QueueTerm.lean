import CSSVerif.Queue
/-! C16: `__next__` terminates — a measure that every primitive action lowers. -/

def wsum : Nat → List (List Nat) → Nat
  | _, [] => 0
  | base, d :: rest => base * d.length + wsum (base - 1) rest

theorem popFirst_spec : ∀ (c : List (List Nat)) (i base : Nat) (idx l : Nat) (rest : List (List Nat)),
    popFirst c i = some (idx, l, rest) →
    rest.length = c.length ∧ i ≤ idx ∧ idx < i + c.length ∧ wsum base rest + (base - (idx - i)) = wsum base c
  | [], _, _, _, _, _, h => by simp [popFirst] at h
  | [] :: cs, i, base, idx, l, rest, h => by
    simp only [popFirst, Option.map_eq_some_iff] at h
    obtain ⟨⟨j, l', r⟩, hp, he⟩ := h
    simp only [Prod.mk.injEq] at he
    obtain ⟨rfl, rfl, rfl⟩ := he
    obtain ⟨h1, h2, h3, h4⟩ := popFirst_spec cs (i+1) (base - 1) j l' r hp
    refine ⟨by simp [h1], by omega, by simp; omega, ?_⟩
    simp only [wsum, List.length_nil, Nat.mul_zero, Nat.zero_add]
    have : base - 1 - (j - (i + 1)) = base - (j - i) := by omega
    rw [← this]; exact h4
  | (x :: d) :: cs, i, base, idx, l, rest, h => by
    simp only [popFirst, Option.some.injEq, Prod.mk.injEq] at h
    obtain ⟨rfl, rfl, rfl⟩ := h
    refine ⟨by simp, Nat.le_refl _, by simp, ?_⟩
    simp only [wsum, List.length_cons, Nat.sub_self, Nat.sub_zero]
    rw [Nat.mul_add]; omega

theorem pushAt_spec : ∀ (c : List (List Nat)) (j base l : Nat), j < c.length →
    (pushAt c j l).length = c.length ∧ wsum base (pushAt c j l) = wsum base c + (base - j)
  | [], _, _, _, h => by simp at h
  | d :: rest, 0, base, l, _ => by
    simp only [pushAt, List.length_cons, wsum, List.length_append, List.length_nil, Nat.sub_zero]
    refine ⟨trivial, ?_⟩
    rw [Nat.mul_add]; omega
  | d :: rest, j+1, base, l, h => by
    have hj : j < rest.length := by simpa using h
    obtain ⟨h1, h2⟩ := pushAt_spec rest j (base - 1) l hj
    simp only [pushAt, List.length_cons, wsum, h1, h2]
    refine ⟨trivial, ?_⟩
    have : base - 1 - j = base - (j + 1) := by omega
    omega
#print axioms popFirst_spec
#print axioms pushAt_spec

def K (p : Pack) : Nat := p.exp.length
def maxExp (p : Pack) : Nat := p.exp.foldl max 0
def S (p : Pack) : Nat := 1 + p.nInit + maxExp p
def Phi (p : Pack) (q : Q) : Nat :=
  (K p + 4) * q.working.length + (K p + 3) * q.nextLevel.length + wsum (K p + 2) q.curr
def mu (p : Pack) (q : Q) : Nat := (S p + 1) * Phi p q + q.staging.length
def QInv (p : Pack) (q : Q) : Prop := q.curr.length = K p + 1

theorem counterAdd_len (c : List (Nat × Nat)) (l : Nat) : (counterAdd c l).length ≤ c.length + 1 := by
  unfold counterAdd; split <;> simp

theorem getD_le_maxExp (p : Pack) (i : Nat) : p.exp.getD i 0 ≤ maxExp p := by
  unfold maxExp
  have aux : ∀ (l : List Nat) (m i : Nat), m ≤ l.foldl max m ∧ l.getD i 0 ≤ l.foldl max m := by
    intro l
    induction l with
    | nil => intro m i; simp
    | cons x xs ih =>
      intro m i
      simp only [List.foldl_cons]
      refine ⟨Nat.le_trans (Nat.le_max_left _ _) (ih (max m x) 0).1, ?_⟩
      cases i with
      | zero => simp; exact Nat.le_trans (Nat.le_max_right _ _) (ih (max m x) 0).1
      | succ i => simpa using (ih (max m x) i).2
  exact (aux p.exp 0 i).2

/-- the `set*` bookkeeping operations do not touch the lists the measure looks at, except that
`setStop` may shrink `nextLevel` -/
theorem setNotInferrable_same (q : Q) (l : Nat) :
    (q.setNotInferrable l).working = q.working ∧ (q.setNotInferrable l).nextLevel = q.nextLevel ∧
    (q.setNotInferrable l).curr = q.curr ∧ (q.setNotInferrable l).staging = q.staging := by
  unfold Q.setNotInferrable; split <;> simp
theorem setNotInitial_same (q : Q) (l : Nat) :
    (q.setNotInitial l).working = q.working ∧ (q.setNotInitial l).nextLevel = q.nextLevel ∧
    (q.setNotInitial l).curr = q.curr ∧ (q.setNotInitial l).staging = q.staging := by
  unfold Q.setNotInitial; split <;> simp
theorem setStop_le (q : Q) (l : Nat) :
    (q.setStop l).working = q.working ∧ (q.setStop l).nextLevel.length ≤ q.nextLevel.length ∧
    (q.setStop l).curr = q.curr ∧ (q.setStop l).staging = q.staging := by
  unfold Q.setStop; simp [List.length_filter_le]

theorem helperWorking_dec (p : Pack) (q : Q) (hs : q.staging = []) (hw : q.working ≠ []) :
    mu p (helperWorking p q) < mu p q ∧ (helperWorking p q).curr = q.curr := by
  unfold helperWorking
  match hq : q.working with
  | [] => exact absurd hq hw
  | l :: ws =>
    simp only
    -- name the intermediate queues
    generalize hq0 : ({ q with working := ws } : Q) = q0
    have e0 : q0.working = ws ∧ q0.nextLevel = q.nextLevel ∧ q0.curr = q.curr ∧ q0.staging = q.staging := by
      subst hq0; simp
    generalize hr1 : (if canInf p q0 l = true then (q0.setNotInferrable l, [WP.mk l .inferral]) else (q0, [])) = r1
    have e1 : r1.1.working = ws ∧ r1.1.nextLevel = q.nextLevel ∧ r1.1.curr = q.curr ∧ r1.1.staging = q.staging ∧ r1.2.length ≤ 1 := by
      subst hr1
      split
      · have := setNotInferrable_same q0 l
        simp only [this.1, this.2.1, this.2.2.1, this.2.2.2, e0.1, e0.2.1, e0.2.2.1, e0.2.2.2, List.length_cons, List.length_nil]
        simp
      · simp only [e0.1, e0.2.1, e0.2.2.1, e0.2.2.2, List.length_nil]; simp
    obtain ⟨q1, st1⟩ := r1
    simp only at e1 ⊢
    generalize hr2 : (if canInit p q1 l = true then (q1.setNotInitial l, (List.range p.nInit).map (fun i => WP.mk l (.initial i))) else (q1, [])) = r2
    have e2 : r2.1.working = ws ∧ r2.1.nextLevel = q.nextLevel ∧ r2.1.curr = q.curr ∧ r2.1.staging = q.staging ∧ r2.2.length ≤ p.nInit := by
      subst hr2
      split
      · have := setNotInitial_same q1 l
        simp only [this.1, this.2.1, this.2.2.1, this.2.2.2, e1.1, e1.2.1, e1.2.2.1, e1.2.2.2.1, List.length_map, List.length_range]
        simp
      · simp only [e1.1, e1.2.1, e1.2.2.1, e1.2.2.2.1, List.length_nil]; simp
    obtain ⟨q2, st2⟩ := r2
    simp only at e2 ⊢
    refine ⟨?_, e2.2.2.1⟩
    unfold mu Phi
    simp only [e2.1, e2.2.2.1, List.length_append, e2.2.2.2.1, hs, List.length_nil, hq, List.length_cons]
    have hc := counterAdd_len q2.nextLevel l
    rw [e2.2.1] at hc
    have h1 := e1.2.2.2.2
    have h2 := e2.2.2.2.2
    have hS : st1.length + st2.length ≤ S p := by unfold S; omega
    -- Φ drops by at least one, staging grows by at most S
    have key : (K p + 4) * ws.length + (K p + 3) * (counterAdd q2.nextLevel l).length + 1
        ≤ (K p + 4) * (ws.length + 1) + (K p + 3) * q.nextLevel.length := by
      have hc' : (counterAdd q2.nextLevel l).length ≤ q.nextLevel.length + 1 := by rw [e2.2.1]; exact hc
      have hm := Nat.mul_le_mul_left (K p + 3) hc'
      rw [Nat.mul_add, Nat.mul_one] at hm
      rw [Nat.mul_add, Nat.mul_one]
      omega
    have key2 : ((K p + 4) * ws.length + (K p + 3) * (counterAdd q2.nextLevel l).length + wsum (K p + 2) q.curr) + 1
        ≤ (K p + 4) * (ws.length + 1) + (K p + 3) * q.nextLevel.length + wsum (K p + 2) q.curr := by omega
    have := Nat.mul_le_mul_left (S p + 1) key2
    rw [Nat.mul_add (S p + 1) _ 1] at this
    omega
#print axioms helperWorking_dec

theorem popFirst_some_of_nonempty : ∀ (c : List (List Nat)) (i : Nat), c.all (·.isEmpty) = false →
    ∃ r, popFirst c i = some r
  | [], _, h => by simp at h
  | [] :: cs, i, h => by
    have : cs.all (·.isEmpty) = false := by simpa using h
    obtain ⟨r, hr⟩ := popFirst_some_of_nonempty cs (i+1) this
    exact ⟨(r.1, r.2.1, [] :: r.2.2), by simp [popFirst, hr]⟩
  | (x :: d) :: cs, i, _ => ⟨_, rfl⟩

theorem helperCurr_dec (p : Pack) (q : Q) (hs : q.staging = []) (hinv : QInv p q)
    (hne : q.curr.all (·.isEmpty) = false) :
    mu p (helperCurr p q) < mu p q ∧ QInv p (helperCurr p q) ∧ (helperCurr p q).working = q.working := by
  obtain ⟨⟨idx, l, rest⟩, hpop⟩ := popFirst_some_of_nonempty q.curr 0 hne
  obtain ⟨hlen, _, hidx, hw⟩ := popFirst_spec q.curr 0 (K p + 2) idx l rest hpop
  unfold QInv at hinv
  unfold helperCurr
  rw [hpop]
  simp only
  split
  · -- last deque: the label is dropped and stopped
    rename_i hlast
    have hst := setStop_le ({ q with curr := rest } : Q) l
    simp only at hst
    generalize ({ q with curr := rest } : Q).setStop l = qs at hst ⊢
    obtain ⟨e1, e2, e3, e4⟩ := hst
    refine ⟨?_, ?_, e1⟩
    · unfold mu Phi
      rw [e1, e3, e4, hs]
      simp only [List.length_nil, Nat.add_zero]
      have h1 := Nat.mul_le_mul_left (K p + 3) e2
      have h2 : wsum (K p + 2) rest + 1 ≤ wsum (K p + 2) q.curr := by
        have : idx - 0 = idx := by omega
        rw [this] at hw
        have hK : idx = K p := hlast
        omega
      exact Nat.mul_lt_mul_of_pos_left (by omega) (Nat.succ_pos _)
    · unfold QInv; rw [e3]; omega
  · -- move the label one deque further and stage the strategies of this set
    rename_i hnl
    have hi : idx + 1 < rest.length := by
      have : idx ≠ K p := hnl
      omega
    obtain ⟨hpl, hpw⟩ := pushAt_spec rest (idx + 1) (K p + 2) l hi
    refine ⟨?_, by unfold QInv; simp only; omega, rfl⟩
    unfold mu Phi
    simp only [hs, List.append_nil, List.nil_append, List.length_map, List.length_range, List.length_nil, Nat.add_zero]
    have hS : p.exp.getD idx 0 ≤ S p := by
      have := getD_le_maxExp p idx; unfold S; omega
    have hidx0 : idx - 0 = idx := by omega
    rw [hidx0] at hw
    have h2 : wsum (K p + 2) (pushAt rest (idx + 1) l) + 1 ≤ wsum (K p + 2) q.curr := by
      rw [hpw]
      have : idx < K p + 1 := by omega
      omega
    have key : ((K p + 4) * q.working.length + (K p + 3) * q.nextLevel.length + wsum (K p + 2) (pushAt rest (idx + 1) l)) + 1
        ≤ (K p + 4) * q.working.length + (K p + 3) * q.nextLevel.length + wsum (K p + 2) q.curr := by omega
    have := Nat.mul_le_mul_left (S p + 1) key
    rw [Nat.mul_add (S p + 1) _ 1] at this
    omega
#print axioms helperCurr_dec

theorem insertDesc_length (e : Nat × Nat) : ∀ l, (insertDesc e l).length = l.length + 1
  | [] => rfl
  | x :: xs => by
    unfold insertDesc
    split
    · simp
    · simp [insertDesc_length e xs]

theorem sortDesc_length (c : List (Nat × Nat)) : (sortDesc c).length = c.length := by
  unfold sortDesc
  have aux : ∀ (c acc : List (Nat × Nat)), (c.foldl (fun acc e => insertDesc e acc) acc).length = acc.length + c.length := by
    intro c
    induction c with
    | nil => intro acc; simp
    | cons e c ih => intro acc; simp only [List.foldl_cons, ih, insertDesc_length, List.length_cons]; omega
  simpa using aux c []

theorem changeLevel_spec (p : Pack) (q q' : Q) (hs : q.staging = []) (hinv : QInv p q)
    (hall : q.curr.all (·.isEmpty) = true) (h : changeLevel q = some q') :
    mu p q' < mu p q ∧ QInv p q' ∧ q'.staging = [] ∧ q'.working = q.working ∧ q'.curr.all (·.isEmpty) = false := by
  unfold changeLevel at h
  simp only at h
  split at h
  · cases h
  · rename_i d rest hc
    split at h
    · cases h
    · rename_i hne
      injection h with h
      subst h
      have hd : d = [] := by
        have : (d :: rest).all (·.isEmpty) = true := by rw [← hc]; exact hall
        simp only [List.all_cons, Bool.and_eq_true, List.isEmpty_iff] at this
        exact this.1
      subst hd
      have hlen : ((sortDesc q.nextLevel).map (·.1)).length = q.nextLevel.length := by
        simp [sortDesc_length]
      have hpos : 0 < q.nextLevel.length := by
        rw [← hlen]
        cases hh : (sortDesc q.nextLevel).map (·.1) with
        | nil => simp [hh] at hne
        | cons a b => simp
      refine ⟨?_, ?_, hs, rfl, ?_⟩
      · unfold mu Phi
        simp only [hs, List.length_nil, Nat.add_zero, List.nil_append, Nat.mul_zero, hc, wsum, hlen]
        apply Nat.mul_lt_mul_of_pos_left ?_ (Nat.succ_pos _)
        have e : (K p + 3) * q.nextLevel.length = (K p + 2) * q.nextLevel.length + q.nextLevel.length := by
          rw [show K p + 3 = (K p + 2) + 1 from rfl, Nat.add_mul, Nat.one_mul]
        omega
      · unfold QInv at hinv ⊢; rw [hc] at hinv; simpa using hinv
      · simp only [List.nil_append, List.all_cons, Bool.and_eq_false_iff]
        left
        cases hh : (sortDesc q.nextLevel).map (·.1) with
        | nil => simp [hh] at hne
        | cons a b => simp

/-- C16 clause 4: `__next__` always terminates — with more fuel than the measure it never runs out. -/
theorem next_terminates (p : Pack) : ∀ (m : Nat) (q : Q), mu p q ≤ m → QInv p q →
    ∀ fuel, m < fuel → ∀ q' , Q.next p fuel q ≠ (q', .fuel) := by
  intro m
  induction m using Nat.strongRecOn with
  | _ m ih =>
    intro q hm hinv fuel hf q'
    cases fuel with
    | zero => omega
    | succ f =>
      unfold Q.next
      split
      · rename_i w st hst
        simp only
        have hmu : mu p { q with staging := st } + 1 = mu p q := by
          unfold mu Phi; simp [hst]; omega
        split
        · exact ih (mu p { q with staging := st }) (by omega) _ (Nat.le_refl _) hinv f (by omega) q'
        · intro h; cases h
      · rename_i hst
        split
        · rename_i hw
          have hw' : q.working ≠ [] := by intro e; simp [e] at hw
          obtain ⟨hd, hc⟩ := helperWorking_dec p q hst hw'
          exact ih (mu p (helperWorking p q)) (by omega) _ (Nat.le_refl _) (by unfold QInv at *; rw [hc]; exact hinv) f (by omega) q'
        · split
          · rename_i hall
            split
            · intro h; cases h
            · rename_i q2 hcl
              obtain ⟨h1, h2, h3, _, h5⟩ := changeLevel_spec p q q2 hst hinv hall hcl
              obtain ⟨hd, hi, _⟩ := helperCurr_dec p q2 h3 h2 h5
              exact ih (mu p (helperCurr p q2)) (by omega) _ (Nat.le_refl _) hi f (by omega) q'
          · rename_i hall
            have hall' : q.curr.all (·.isEmpty) = false := by
              cases hb : q.curr.all (·.isEmpty) with
              | true => exact absurd hb hall
              | false => rfl
            obtain ⟨hd, hi, _⟩ := helperCurr_dec p q hst hinv hall'
            exact ih (mu p (helperCurr p q)) (by omega) _ (Nat.le_refl _) hi f (by omega) q'
#print axioms next_terminates
