import CSSVerif.PairSum
/-! C20 (checker): the equation of a Cartesian product of two classes holds up to order `N` exactly when the table satisfies
the convolution recurrence of the product (C09, `productTerms`) at every size up to `N`. -/

theorem landing_map_rekey (g : Param → Option Param) (h : Param → Param) (k : Param) : ∀ (S : List (Param × Int)),
    landing g (S.map (fun e => (h e.1, e.2))) k = landing (fun p => g (h p)) S k
  | [] => rfl
  | e :: S => by rw [List.map_cons, landing_cons, landing_cons, landing_map_rekey g h k S]

theorem pad_same (nv : Nat) (S : Ser) (g : Param → Option Param) (k : Param) :
    landing g (Ser.pad nv S) k = landing (fun p => g (padMono nv p)) S k := by
  unfold Ser.pad
  have e : S.foldl (fun (acc : Terms) e => acc.addAt (padMono nv e.1) e.2) [] =
      (S.map (fun e => (padMono nv e.1, e.2))).foldl (fun (a : Terms) e => a.addAt e.1 e.2) [] := by rw [List.foldl_map]
  rw [e, landing_rep g k _ _ (foldl_addAt_rep _), landing_map_rekey]

/-- the terms of a class up to size `N`, keyed by size and by the parameters in the parent's coordinates -/
def tabKeyed (tab : Nat → Nat → Terms) (r N c : Nat) (m : List (List Nat)) : List (Param × Int) :=
  (List.range (N + 1)).flatMap (fun n => (tab c n).map (fun e => (n :: paramMapSum m r e.1, e.2)))

/-- the evaluated class function carries the same weights as the keyed table, under every re-keying -/
theorem app_same (tab : Nat → Nat → Terms) (r N c : Nat) (m : List (List Nat)) (hm : ∀ ps ∈ m, ∀ q ∈ ps, q < r) :
    SameLanding (evalExpr tab (r + 1) N (.app c (m.map argMono))) (tabKeyed tab r N c m) := by
  intro g k
  have e : evalExpr tab (r + 1) N (.app c (m.map argMono)) = Ser.pad (r + 1) (appSeries tab N c (m.map argMono)) := by rw [evalExpr]
  rw [e, pad_same, appSeries_eq_fold, landing_rep _ k _ _ (foldl_addAt_rep _)]
  unfold appContribs tabKeyed
  rw [landing_flatMap, landing_flatMap]
  apply sum_map_congr
  intro n hn
  have hn' : n ≤ N := by have := List.mem_range.1 hn; omega
  induction (tab c n) with
  | nil => rfl
  | cons e T ih =>
    rw [List.filterMap_cons, xdeg_subst, if_pos hn']
    simp only [List.map_cons]
    rw [landing_cons, landing_cons, ih, padMono_subst m r hm]
#print axioms app_same

theorem addParams_length (a b : Param) : (addParams a b).length = min a.length b.length := by
  unfold addParams; simp

theorem addParams_getD : ∀ (a b : Param) (i : Nat), i < a.length → i < b.length →
    (addParams a b).getD i 0 = a.getD i 0 + b.getD i 0
  | [], _, _, h, _ => by cases h
  | _ :: _, [], _, _, h => by cases h
  | x :: a, y :: b, 0, _, _ => rfl
  | x :: a, y :: b, i + 1, ha, hb => by
    have e : addParams (x :: a) (y :: b) = (x + y) :: addParams a b := rfl
    rw [e, List.getD_cons_succ, List.getD_cons_succ, List.getD_cons_succ]
    exact addParams_getD a b i (by simpa using ha) (by simpa using hb)

/-- the key of a pair in the product of two padded series: sizes add, parameters add position by position -/
theorem pad_monoAdd_cons (r n1 n2 : Nat) (q1 q2 : Param) (h1 : q1.length = r) (h2 : q2.length = r) :
    padMono (r + 1) (monoAdd (n1 :: q1) (n2 :: q2)) = (n1 + n2) :: addParams (addParams (List.replicate r 0) q1) q2 := by
  apply List.ext_getElem
  · simp [padMono, addParams_length, h1, h2]
  · intro i hi1 hi2
    have e1 : (padMono (r + 1) (monoAdd (n1 :: q1) (n2 :: q2)))[i] = (padMono (r + 1) (monoAdd (n1 :: q1) (n2 :: q2))).getD i 0 := by
      rw [List.getD_eq_getElem?_getD, List.getElem?_eq_getElem hi1]; rfl
    have e2 : ((n1 + n2) :: addParams (addParams (List.replicate r 0) q1) q2)[i] =
        ((n1 + n2) :: addParams (addParams (List.replicate r 0) q1) q2).getD i 0 := by
      rw [List.getD_eq_getElem?_getD, List.getElem?_eq_getElem hi2]; rfl
    rw [e1, e2]
    have hi : i < r + 1 := by simpa [padMono] using hi1
    unfold padMono
    rw [getD_map_range, if_pos hi, monoAdd_getD]
    cases i with
    | zero => rfl
    | succ j =>
      have hj : j < r := by omega
      show q1.getD j 0 + q2.getD j 0 = (addParams (addParams (List.replicate r 0) q1) q2).getD j 0
      rw [addParams_getD _ _ j (by rw [addParams_length]; simp [h1]; exact hj) (by omega),
        addParams_getD _ _ j (by simp; exact hj) (by omega)]
      have hz : (List.replicate r 0).getD j 0 = 0 := by
        rw [List.getD_eq_getElem?_getD, List.getElem?_replicate]; split <;> rfl
      rw [hz]; omega

theorem xdeg_monoAdd_cons (n1 n2 : Nat) (q1 q2 : Param) : xdeg (monoAdd (n1 :: q1) (n2 :: q2)) = n1 + n2 := by
  unfold xdeg; rw [monoAdd_getD]; rfl

/-- a class's terms of one size in the parent's coordinates -/
def mapped (tab : Nat → Nat → Terms) (r c : Nat) (m : List (List Nat)) (n : Nat) : List (Param × Int) :=
  (tab c n).map (fun e => (paramMapSum m r e.1, e.2))

def fq (r : Nat) : Param → Param → Option Param := fun a b => some (addParams (addParams (List.replicate r 0) a) b)

def fmul (r N : Nat) : Param → Param → Option Param :=
  fun a b => if xdeg (monoAdd a b) ≤ N then some (padMono (r + 1) (monoAdd a b)) else none

theorem fmul_cons (r N n1 n2 : Nat) (q1 q2 : Param) (h1 : q1.length = r) (h2 : q2.length = r) (h : n1 + n2 ≤ N) :
    fmul r N (n1 :: q1) (n2 :: q2) = some ((n1 + n2) :: addParams (addParams (List.replicate r 0) q1) q2) := by
  unfold fmul
  rw [xdeg_monoAdd_cons, if_pos h, pad_monoAdd_cons r n1 n2 q1 q2 h1 h2]

theorem fmul_cons_ne (r N n1 n2 n : Nat) (q1 q2 q : Param) (h1 : q1.length = r) (h2 : q2.length = r) (h : n1 + n2 ≠ n) :
    fmul r N (n1 :: q1) (n2 :: q2) ≠ some (n :: q) := by
  unfold fmul
  rw [xdeg_monoAdd_cons]
  split
  · rw [pad_monoAdd_cons r n1 n2 q1 q2 h1 h2]
    intro e; injection e with e; injection e with e _; exact h e
  · intro e; cases e

/-- pairs of terms of sizes `n1`, `n2` contribute to size `n` only when `n1 + n2 = n`, and then as the parameters say -/
theorem pairSum_piece (tab : Nat → Nat → Terms) (r N c1 c2 : Nat) (m1 m2 : List (List Nat)) (n1 n2 n : Nat) (hn : n ≤ N) (q : Param) :
    pairSum (fmul r N) ((tab c1 n1).map (fun e => (n1 :: paramMapSum m1 r e.1, e.2)))
        ((tab c2 n2).map (fun e => (n2 :: paramMapSum m2 r e.1, e.2))) (n :: q) =
      if n1 + n2 = n then pairSum (fq r) (mapped tab r c1 m1 n1) (mapped tab r c2 m2 n2) q else 0 := by
  unfold pairSum mapped
  rw [List.map_map, List.map_map]
  by_cases h : n1 + n2 = n
  · rw [if_pos h]
    apply sum_map_congr
    intro ea _
    simp only [Function.comp]
    rw [List.map_map, List.map_map]
    apply sum_map_congr
    intro eb _
    simp only [Function.comp]
    rw [fmul_cons r N n1 n2 _ _ (paramMapSum_length ..) (paramMapSum_length ..) (by omega), h]
    unfold fq
    by_cases hk : addParams (addParams (List.replicate r 0) (paramMapSum m1 r ea.1)) (paramMapSum m2 r eb.1) = q
    · rw [if_pos (by rw [hk]), if_pos (by rw [hk])]
    · rw [if_neg (by intro e; injection e with e; injection e with _ e; exact hk e), if_neg (by intro e; injection e with e; exact hk e)]
  · rw [if_neg h]
    rw [sum_map_congr _ (fun _ => 0) _ (by
      intro ea _
      simp only [Function.comp]
      rw [List.map_map]
      rw [sum_map_congr _ (fun _ => 0) _ (by
        intro eb _
        simp only [Function.comp]
        rw [if_neg (fmul_cons_ne r N n1 n2 n _ _ q (paramMapSum_length ..) (paramMapSum_length ..) h)])]
      exact sum_map_zero _)]
    exact sum_map_zero _
#print axioms pairSum_piece

theorem flatMap_eq_map_singleton {α β : Type} (f : α → List β) (g : α → β) : ∀ (l : List α), (∀ a ∈ l, f a = [g a]) → l.flatMap f = l.map g
  | [], _ => rfl
  | a :: l, h => by
    rw [List.flatMap_cons, h a (List.mem_cons_self ..), flatMap_eq_map_singleton f g l (fun x hx => h x (List.mem_cons_of_mem _ hx))]; rfl

theorem comps_two (n : Nat) : comps (n : Int) [(0, none), (0, none)] = (List.range (n + 1)).map (fun i => [i, n - i]) := by
  unfold comps
  have hg : guardOk (n : Int) [(0, none), (0, none)] = true := by simp [guardOk, sumMin, sumMax]
  rw [if_pos hg]
  simp only [Int.toNat_natCast, Nat.sub_zero, Nat.add_zero, List.map_id']
  apply flatMap_eq_map_singleton
  intro i hi
  have hi' : i ≤ n := by have := List.mem_range.1 hi; omega
  unfold comps
  have hg2 : guardOk ((n : Int) - (i : Int)) [(0, none)] = true := by
    simp only [guardOk, sumMin, sumMax, List.map_cons, List.map_nil, List.sum_cons, List.sum_nil, Bool.and_true, Bool.and_eq_true, decide_eq_true_eq]
    omega
  rw [if_pos hg2]
  have : ((n : Int) - (i : Int)).toNat = n - i := by omega
  rw [this]; rfl
#print axioms comps_two

theorem cartesian_two {α : Type} (L1 L2 : List α) : cartesian [L1, L2] = L1.flatMap (fun x => L2.map (fun y => [x, y])) := by
  have e1 : cartesian [L2] = L2.map (fun y => [y]) := by
    show L2.flatMap (fun x => (cartesian []).map (x :: ·)) = _
    apply flatMap_eq_map_singleton
    intro a _; rfl
  show L1.flatMap (fun x => (cartesian [L2]).map (x :: ·)) = _
  rw [e1]
  congr 1
  funext x
  rw [List.map_map]; rfl

/-- the contributions to a product of two unbounded children, as a sum over the splittings of the size -/
theorem prodContribs_two (tab : Nat → Nat → Terms) (r c1 c2 : Nat) (m1 m2 : List (List Nat)) (parent : List String) (C1 C2 : Child)
    (hr : parent.length = r) (h1 : childPosToParentPos parent C1 = m1) (h2 : childPosToParentPos parent C2 = m2)
    (t1 : C1.terms = tab c1) (t2 : C2.terms = tab c2) (b1 : C1.minSize = 0 ∧ C1.maxSize = none) (b2 : C2.minSize = 0 ∧ C2.maxSize = none)
    (n : Nat) (q : Param) :
    coeff (prodContribs parent [C1, C2] n) q =
      ((List.range (n + 1)).map (fun i => pairSum (fq r) (mapped tab r c1 m1 i) (mapped tab r c2 m2 (n - i)) q)).sum := by
  unfold prodContribs
  simp only [List.map_cons, List.map_nil, b1.1, b1.2, b2.1, b2.2]
  rw [comps_two, ← landing_some, List.flatMap_map, landing_flatMapG]
  apply sum_map_congr
  intro i _
  have hp : perChild parent [C1, C2] [i, n - i] = [mapped tab r c1 m1 i, mapped tab r c2 m2 (n - i)] := by
    unfold perChild mapped
    simp only [List.zip_cons_cons, List.zip_nil_right, List.map_cons, List.map_nil, h1, h2, t1, t2, hr]
  rw [hp, cartesian_two, List.map_flatMap, landing_flatMapG]
  unfold pairSum
  apply sum_map_congr
  intro x _
  rw [List.map_map]
  induction (mapped tab r c2 m2 (n - i)) with
  | nil => rfl
  | cons y L ih =>
    rw [List.map_cons, landing_cons, ih, List.map_cons, List.sum_cons]
    congr 1
    simp only [Function.comp]
    have ek : comboKey parent.length [x, y] = addParams (addParams (List.replicate r 0) x.1) y.1 := by
      unfold comboKey; rw [hr]; rfl
    have ev : comboVal [x, y] = x.2 * y.2 := by
      unfold comboVal; simp only [List.foldl_cons, List.foldl_nil, Int.one_mul]
    rw [ek, ev]
    unfold fq
    rfl
#print axioms prodContribs_two

theorem landing_pad_nil (nv : Nat) : ∀ (M : List (Param × Int)), landing (fun m => some (padMono (nv + 1) m)) M [] = 0
  | [] => rfl
  | e :: M => by
    rw [landing_cons, landing_pad_nil nv M, if_neg (by
      intro h; injection h with h
      have := congrArg List.length h
      simp [padMono] at this)]
    rfl

/-- the coefficient of `F_c1 · F_c2` at `x^n k^q`: the convolution over the splittings of `n` -/
theorem mul_apps_coeff (tab : Nat → Nat → Terms) (r N c1 c2 : Nat) (m1 m2 : List (List Nat))
    (hm1 : ∀ ps ∈ m1, ∀ q ∈ ps, q < r) (hm2 : ∀ ps ∈ m2, ∀ q ∈ ps, q < r) (n : Nat) (hn : n ≤ N) (q : Param) :
    coeff (evalExpr tab (r + 1) N (.mul (.app c1 (m1.map argMono)) (.app c2 (m2.map argMono)))) (n :: q) =
      ((List.range (n + 1)).map (fun i => pairSum (fq r) (mapped tab r c1 m1 i) (mapped tab r c2 m2 (n - i)) q)).sum := by
  rw [mul_coeff, landing_mulContribs]
  show pairSum (fmul r N) _ _ _ = _
  rw [pairSum_congr (fmul r N) (app_same tab r N c1 m1 hm1) (app_same tab r N c2 m2 hm2)]
  unfold tabKeyed
  rw [pairSum_flatMap_left]
  -- the inner sum over the second size picks `n - n1`
  have inner : ∀ n1, pairSum (fmul r N) ((tab c1 n1).map (fun e => (n1 :: paramMapSum m1 r e.1, e.2)))
      ((List.range (N + 1)).flatMap (fun n2 => (tab c2 n2).map (fun e => (n2 :: paramMapSum m2 r e.1, e.2)))) (n :: q) =
      if n1 ≤ n then pairSum (fq r) (mapped tab r c1 m1 n1) (mapped tab r c2 m2 (n - n1)) q else 0 := by
    intro n1
    rw [pairSum_flatMap_right]
    rw [sum_map_congr _ _ _ (fun n2 _ => pairSum_piece tab r N c1 c2 m1 m2 n1 n2 n hn q)]
    rw [sum_single (n - n1) _ _ List.nodup_range (by
      intro n2 _ hne
      rw [if_neg (by omega)])]
    by_cases h1 : n1 ≤ n
    · rw [if_pos (List.mem_range.2 (by omega)), if_pos (by omega), if_pos h1]
    · rw [if_neg h1]
      split
      · rw [if_neg (by omega)]
      · rfl
  rw [sum_map_congr _ _ _ (fun n1 _ => inner n1)]
  obtain ⟨d, rfl⟩ : ∃ d, N = n + d := ⟨N - n, by omega⟩
  exact sum_range_le n _ d
#print axioms mul_apps_coeff

/-- **C20: the equation of a product of two classes holds up to order `N` iff the convolution recurrence of the product
(`CartesianProduct.get_terms`, C09) holds at every size up to `N`.** `F_p(x, k) = F_c1(x, args₁) · F_c2(x, args₂)` evaluates to an
empty residual on a table of terms exactly when, for every size `n ≤ N` and every parameter vector, the parent's terms are what
`productTerms` computes from the children's terms (children without size bounds). -/
theorem productEq_iff_terms (tab : Nat → Nat → Terms) (r N p c1 c2 : Nat) (m1 m2 : List (List Nat)) (parent : List String) (C1 C2 : Child)
    (hr : parent.length = r) (h1 : childPosToParentPos parent C1 = m1) (h2 : childPosToParentPos parent C2 = m2)
    (t1 : C1.terms = tab c1) (t2 : C2.terms = tab c2) (b1 : C1.minSize = 0 ∧ C1.maxSize = none) (b2 : C2.minSize = 0 ∧ C2.maxSize = none)
    (hp : ∀ n, ∀ e ∈ tab p n, e.1.length = r)
    (hm1 : ∀ ps ∈ m1, ∀ q ∈ ps, q < r) (hm2 : ∀ ps ∈ m2, ∀ q ∈ ps, q < r) :
    residual tab (r + 1) N (.app p ((identMap r).map argMono)) (.mul (.app c1 (m1.map argMono)) (.app c2 (m2.map argMono))) = [] ↔
      ∀ n, n ≤ N → ∀ q, coeff (tab p n) q = coeff (productTerms parent [C1, C2] n) q := by
  have hid : ∀ ps ∈ identMap r, ∀ q ∈ ps, q < r := by
    intro ps hps q hq
    unfold identMap at hps
    obtain ⟨i, hi, rfl⟩ := List.mem_map.1 hps
    simp only [List.mem_singleton] at hq
    subst hq
    exact List.mem_range.1 hi
  have rhs : ∀ n q, coeff (productTerms parent [C1, C2] n) q =
      ((List.range (n + 1)).map (fun i => pairSum (fq r) (mapped tab r c1 m1 i) (mapped tab r c2 m2 (n - i)) q)).sum := by
    intro n q
    rw [(productTerms_conv parent [C1, C2] n).2 q]
    exact prodContribs_two tab r c1 c2 m1 m2 parent C1 C2 hr h1 h2 t1 t2 b1 b2 n q
  rw [residual_nil_iff]
  constructor
  · intro h n hn q
    have := h (n :: q) (by simpa [xdeg] using hn)
    rw [app_coeff_struct tab r N p (identMap r) hid, mul_apps_coeff tab r N c1 c2 m1 m2 hm1 hm2 n hn q] at this
    simp only [hn, ↓reduceIte] at this
    rw [landing_ident r (tab p n) (hp n) q] at this
    rw [this, rhs]
  · intro h k hk
    cases k with
    | nil =>
      rw [app_coeff_struct tab r N p (identMap r) hid, mul_coeff]
      exact (landing_pad_nil r _).symm
    | cons n q =>
      have hn : n ≤ N := by simpa [xdeg] using hk
      rw [app_coeff_struct tab r N p (identMap r) hid, mul_apps_coeff tab r N c1 c2 m1 m2 hm1 hm2 n hn q]
      simp only [hn, ↓reduceIte]
      rw [landing_ident r (tab p n) (hp n) q, h n hn q, rhs]
#print axioms productEq_iff_terms

/-! non-vacuity: words `a^i b^(n-i)` with the statistic "number of a" = (words in `a`, statistic = length) x (words in `b`) -/
def exTab : Nat → Nat → Terms := fun c n => match c with
  | 0 => (List.range (n + 1)).map (fun i => ([i], 1))
  | 1 => [([n], 1)]
  | _ => [([], 1)]
def exC1 : Child := { names := ["a"], emap := [("k", "a")], terms := exTab 1 }
def exC2 : Child := { names := [], emap := [], terms := exTab 2 }

example : ∀ n, n ≤ 4 → ∀ q, coeff (exTab 0 n) q = coeff (productTerms ["k"] [exC1, exC2] n) q :=
  (productEq_iff_terms exTab 1 4 0 1 2 [[0]] [] ["k"] exC1 exC2 rfl (by decide) (by decide) rfl rfl ⟨rfl, rfl⟩ ⟨rfl, rfl⟩
    (by intro n e he; simp only [exTab, List.mem_map] at he; obtain ⟨i, _, rfl⟩ := he; rfl)
    (by decide) (by decide)).1 (by decide +kernel)
