/-! C18 (model): the JSON form of a bijection's matching - `Bijection._classes_to_array`, `_populate_json_map` and the rebuilding
in `from_dict`. Classes are identifiers; the matching is a dictionary (pair of classes ↦ order of the children), here an
association list with pairwise distinct keys. -/
namespace BijJ

abbrev Key := Nat × Nat
abbrev Matching := List (Key × List Nat)

/-- `_classes_to_array`: the classes in order of first appearance (domain class, then codomain class, pair by pair) -/
def addClass (cs : List Nat) (c : Nat) : List Nat := if cs.contains c then cs else cs ++ [c]
def classesArr (m : Matching) : List Nat := m.foldl (fun cs e => addClass (addClass cs e.1.1) e.1.2) []

/-- position of a class in the array (`id_map`) -/
def idx (cs : List Nat) (c : Nat) : Nat := (cs.findIdx? (· == c)).getD 0

/-- a dictionary as an association list: `d[k] = v` (insertion order kept, an existing key is overwritten in place) -/
def aset {β : Type} (l : List (Nat × β)) (k : Nat) (v : β) : List (Nat × β) :=
  if l.any (·.1 == k) then l.map (fun e => if e.1 == k then (k, v) else e) else l ++ [(k, v)]
def aget {β : Type} (l : List (Nat × β)) (k : Nat) : Option β := (l.find? (·.1 == k)).map (·.2)

/-- `_populate_json_map`: the nested dictionary index ↦ index ↦ value -/
def setOuter (jm : List (Nat × List (Nat × List Nat))) (i1 i2 : Nat) (v : List Nat) : List (Nat × List (Nat × List Nat)) :=
  aset jm i1 (aset ((aget jm i1).getD []) i2 v)
def jsonMap (cs : List Nat) (m : Matching) : List (Nat × List (Nat × List Nat)) :=
  m.foldl (fun jm e => setOuter jm (idx cs e.1.1) (idx cs e.1.2) e.2) []

/-- `from_dict`: the matching rebuilt from the array and the nested dictionary -/
def rebuild (cs : List Nat) (jm : List (Nat × List (Nat × List Nat))) : Matching :=
  jm.flatMap (fun o => o.2.map (fun i => ((cs.getD o.1 0, cs.getD i.1 0), i.2)))

def lookup (m : Matching) (k : Key) : Option (List Nat) := (m.find? (·.1 == k)).map (·.2)

/-- the JSON round trip of a matching -/
def roundtrip (m : Matching) : Matching := rebuild (classesArr m) (jsonMap (classesArr m) m)

/-! ### the array lists every class once, and `idx` finds it -/

theorem addClass_nodup {cs : List Nat} (h : cs.Nodup) (c : Nat) : (addClass cs c).Nodup := by
  unfold addClass
  split
  · exact h
  · rename_i hc
    rw [List.nodup_append]
    refine ⟨h, by simp, ?_⟩
    intro a ha b hb e
    have : b = c := by simpa using hb
    subst this; subst e
    exact hc (by simpa using ha)

theorem addClass_mem (cs : List Nat) (c x : Nat) : x ∈ addClass cs c ↔ x ∈ cs ∨ x = c := by
  unfold addClass
  split
  · rename_i hc
    have : c ∈ cs := by simpa using hc
    constructor
    · exact Or.inl
    · rintro (h | rfl)
      · exact h
      · exact this
  · simp

theorem classesArr_spec (m : Matching) :
    (classesArr m).Nodup ∧ ∀ x, x ∈ classesArr m ↔ ∃ e ∈ m, x = e.1.1 ∨ x = e.1.2 := by
  unfold classesArr
  have aux : ∀ (m : Matching) (cs : List Nat), cs.Nodup →
      (m.foldl (fun cs e => addClass (addClass cs e.1.1) e.1.2) cs).Nodup ∧
      ∀ x, x ∈ m.foldl (fun cs e => addClass (addClass cs e.1.1) e.1.2) cs ↔ x ∈ cs ∨ ∃ e ∈ m, x = e.1.1 ∨ x = e.1.2 := by
    intro m
    induction m with
    | nil => intro cs h; exact ⟨h, fun x => by simp⟩
    | cons e m ih =>
      intro cs h
      rw [List.foldl_cons]
      obtain ⟨h1, h2⟩ := ih _ (addClass_nodup (addClass_nodup h e.1.1) e.1.2)
      refine ⟨h1, fun x => ?_⟩
      rw [h2 x, addClass_mem, addClass_mem]
      constructor
      · rintro (((h3 | h3) | h3) | ⟨e', he', h3⟩)
        · exact Or.inl h3
        · exact Or.inr ⟨e, List.mem_cons_self .., Or.inl h3⟩
        · exact Or.inr ⟨e, List.mem_cons_self .., Or.inr h3⟩
        · exact Or.inr ⟨e', List.mem_cons_of_mem _ he', h3⟩
      · rintro (h3 | ⟨e', he', h3⟩)
        · exact Or.inl (Or.inl (Or.inl h3))
        · rcases List.mem_cons.1 he' with rfl | he'
          · rcases h3 with h3 | h3
            · exact Or.inl (Or.inl (Or.inr h3))
            · exact Or.inl (Or.inr h3)
          · exact Or.inr ⟨e', he', h3⟩
  have := aux m [] List.nodup_nil
  exact ⟨this.1, fun x => by rw [this.2 x]; simp⟩

theorem getD_idx : ∀ (cs : List Nat) (c : Nat), c ∈ cs → cs.getD (idx cs c) 0 = c
  | [], _, h => by cases h
  | x :: cs, c, h => by
    unfold idx
    rw [List.findIdx?_cons]
    by_cases e : x = c
    · subst e; simp
    · have hb : (x == c) = false := by simpa using e
      rw [hb]
      have hc : c ∈ cs := by
        rcases List.mem_cons.1 h with h1 | h1
        · exact absurd h1.symm e
        · exact h1
      have ih := getD_idx cs c hc
      unfold idx at ih
      cases hf : cs.findIdx? (· == c) with
      | none =>
        have := List.findIdx?_eq_none_iff.1 hf c hc
        simp at this
      | some i =>
        rw [hf] at ih
        simpa using ih

theorem idx_inj (cs : List Nat) (a b : Nat) (ha : a ∈ cs) (hb : b ∈ cs) (h : idx cs a = idx cs b) : a = b := by
  rw [← getD_idx cs a ha, ← getD_idx cs b hb, h]

/-! ### dictionaries -/

theorem aset_cons_ne {β : Type} (e : Nat × β) (l : List (Nat × β)) (k : Nat) (v : β) (h : e.1 ≠ k) :
    aset (e :: l) k v = e :: aset l k v := by
  have hb : (e.1 == k) = false := by simpa using h
  unfold aset
  simp only [List.any_cons, hb, Bool.false_or]
  by_cases ha : l.any (fun x => x.1 == k) = true
  · simp only [ha, ↓reduceIte, List.map_cons, hb, Bool.false_eq_true]
  · simp only [ha, Bool.false_eq_true, ↓reduceIte, List.cons_append]

theorem map_set_id {β : Type} (l : List (Nat × β)) (k : Nat) (v : β) (h : k ∉ l.map (·.1)) :
    l.map (fun e => if e.1 == k then (k, v) else e) = l := by
  induction l with
  | nil => rfl
  | cons e l ih =>
    simp only [List.map_cons, List.mem_cons, not_or] at h
    have hb : (e.1 == k) = false := by simpa using (fun e1 => h.1 e1.symm)
    rw [List.map_cons, hb, ih h.2]; rfl

theorem aset_cons_eq {β : Type} (e : Nat × β) (l : List (Nat × β)) (k : Nat) (v : β) (h : e.1 = k) (hn : k ∉ l.map (·.1)) :
    aset (e :: l) k v = (k, v) :: l := by
  have hb : (e.1 == k) = true := by simpa using h
  unfold aset
  simp only [List.any_cons, hb, Bool.true_or, ↓reduceIte, List.map_cons]
  rw [map_set_id l k v hn]

theorem aset_spec {β : Type} (k : Nat) (v : β) : ∀ (l : List (Nat × β)), (l.map (·.1)).Nodup →
    ((aset l k v).map (·.1)).Nodup ∧ (∀ x, x ∈ (aset l k v).map (·.1) ↔ x = k ∨ x ∈ l.map (·.1)) ∧
    ∀ j, aget (aset l k v) j = if j = k then some v else aget l j
  | [], _ => by
    refine ⟨by simp [aset], by simp [aset], fun j => ?_⟩
    unfold aset aget
    by_cases e : j = k
    · subst e; simp
    · have : (k == j) = false := by simpa using (fun e1 => e e1.symm)
      simp [this, e]
  | e :: l, hn => by
    simp only [List.map_cons, List.nodup_cons] at hn
    by_cases h : e.1 = k
    · have hk : k ∉ l.map (·.1) := by rw [← h]; exact hn.1
      rw [aset_cons_eq e l k v h hk]
      refine ⟨by simp only [List.map_cons, List.nodup_cons]; exact ⟨hk, hn.2⟩, ?_, fun j => ?_⟩
      · intro x; simp only [List.map_cons, List.mem_cons]; rw [h]
        constructor
        · rintro (a | a)
          · exact Or.inl a
          · exact Or.inr (Or.inr a)
        · rintro (a | a | a)
          · exact Or.inl a
          · exact Or.inl a
          · exact Or.inr a
      · unfold aget
        by_cases e1 : j = k
        · subst e1; simp
        · have h1 : (k == j) = false := by simpa using (fun e2 => e1 e2.symm)
          have h2 : (e.1 == j) = false := by rw [h]; exact h1
          simp [List.find?_cons, h1, h2, e1]
    · rw [aset_cons_ne e l k v h]
      obtain ⟨i1, i2, i3⟩ := aset_spec k v l hn.2
      refine ⟨?_, ?_, fun j => ?_⟩
      · simp only [List.map_cons, List.nodup_cons]
        refine ⟨?_, i1⟩
        intro hm
        rcases (i2 e.1).1 hm with a | a
        · exact h a
        · exact hn.1 a
      · intro x
        simp only [List.map_cons, List.mem_cons]
        rw [i2 x]
        constructor
        · rintro (a | a | a)
          · exact Or.inr (Or.inl a)
          · exact Or.inl a
          · exact Or.inr (Or.inr a)
        · rintro (a | a | a)
          · exact Or.inr (Or.inl a)
          · exact Or.inl a
          · exact Or.inr (Or.inr a)
      · have := i3 j
        unfold aget at this ⊢
        by_cases hb : (e.1 == j) = true
        · have hej : e.1 = j := by simpa using hb
          have hjk : j ≠ k := by rw [← hej]; exact h
          simp [List.find?_cons, hb, hjk]
        · have hb' : (e.1 == j) = false := by simpa using hb
          simp only [List.find?_cons, hb']
          exact this
#print axioms aset_spec

theorem aget_of_mem {β : Type} : ∀ {l : List (Nat × β)}, (l.map (·.1)).Nodup → ∀ {k : Nat} {v : β}, (k, v) ∈ l → aget l k = some v
  | [], _, _, _, h => by cases h
  | e :: l, hn, k, v, h => by
    simp only [List.map_cons, List.nodup_cons] at hn
    unfold aget
    rw [List.find?_cons]
    rcases List.mem_cons.1 h with rfl | h
    · simp
    · have hne : e.1 ≠ k := fun e1 => hn.1 (e1 ▸ List.mem_map.2 ⟨(k, v), h, rfl⟩)
      have hb : (e.1 == k) = false := by simpa using hne
      rw [hb]
      exact aget_of_mem hn.2 h

theorem mem_of_aget {β : Type} {l : List (Nat × β)} {k : Nat} {v : β} (h : aget l k = some v) : (k, v) ∈ l := by
  unfold aget at h
  cases hf : l.find? (·.1 == k) with
  | none => rw [hf] at h; cases h
  | some e =>
    rw [hf] at h
    have h1 := List.mem_of_find?_eq_some hf
    have h2 : e.1 = k := by simpa using List.find?_some hf
    have h3 : e.2 = v := by simpa using h
    rw [← h2, ← h3]; exact h1

/-- the value stored under `i1`, `i2` -/
def jget (jm : List (Nat × List (Nat × List Nat))) (i1 i2 : Nat) : Option (List Nat) := (aget jm i1).bind (fun inner => aget inner i2)

/-- distinct outer keys, distinct keys in every inner dictionary -/
def WFJ (jm : List (Nat × List (Nat × List Nat))) : Prop := (jm.map (·.1)).Nodup ∧ ∀ o ∈ jm, (o.2.map (·.1)).Nodup

theorem setOuter_spec (jm : List (Nat × List (Nat × List Nat))) (h : WFJ jm) (i1 i2 : Nat) (v : List Nat) :
    WFJ (setOuter jm i1 i2 v) ∧ ∀ j1 j2, jget (setOuter jm i1 i2 v) j1 j2 = if j1 = i1 ∧ j2 = i2 then some v else jget jm j1 j2 := by
  unfold setOuter
  have hin : (((aget jm i1).getD []).map (·.1)).Nodup := by
    cases ha : aget jm i1 with
    | none => simp
    | some inner => exact h.2 (i1, inner) (mem_of_aget ha)
  obtain ⟨a1, a2, a3⟩ := aset_spec i2 v ((aget jm i1).getD []) hin
  obtain ⟨b1, b2, b3⟩ := aset_spec i1 (aset ((aget jm i1).getD []) i2 v) jm h.1
  refine ⟨⟨b1, ?_⟩, fun j1 j2 => ?_⟩
  · intro o ho
    have hk : o.1 ∈ (aset jm i1 (aset ((aget jm i1).getD []) i2 v)).map (·.1) := List.mem_map.2 ⟨o, ho, rfl⟩
    have hg := aget_of_mem b1 (k := o.1) (v := o.2) ho
    rw [b3 o.1] at hg
    by_cases e : o.1 = i1
    · rw [if_pos e] at hg
      have : o.2 = aset ((aget jm i1).getD []) i2 v := (Option.some.inj hg).symm
      rw [this]; exact a1
    · rw [if_neg e] at hg
      exact h.2 o (mem_of_aget hg)
  · unfold jget
    rw [b3 j1]
    by_cases e1 : j1 = i1
    · subst e1
      rw [if_pos rfl]
      simp only [Option.bind_some]
      rw [a3 j2]
      by_cases e2 : j2 = i2
      · rw [if_pos e2, if_pos ⟨trivial, e2⟩]
      · rw [if_neg e2, if_neg (fun hh => e2 hh.2)]
        cases aget jm j1 with
        | none => rfl
        | some inner => rfl
    · rw [if_neg e1, if_neg (fun hh => e1 hh.1)]

/-- the index pair of an entry -/
def ikey (cs : List Nat) (e : Key × List Nat) : Nat × Nat := (idx cs e.1.1, idx cs e.1.2)

theorem jsonFold_spec (cs : List Nat) : ∀ (m : Matching) (jm : List (Nat × List (Nat × List Nat))), WFJ jm →
    WFJ (m.foldl (fun jm e => setOuter jm (idx cs e.1.1) (idx cs e.1.2) e.2) jm) ∧
    ∀ j1 j2, jget (m.foldl (fun jm e => setOuter jm (idx cs e.1.1) (idx cs e.1.2) e.2) jm) j1 j2 =
      match m.reverse.find? (fun e => ikey cs e == (j1, j2)) with
      | some e => some e.2
      | none => jget jm j1 j2
  | [], jm, h => ⟨h, fun _ _ => rfl⟩
  | e :: m, jm, h => by
    rw [List.foldl_cons]
    obtain ⟨w1, g1⟩ := setOuter_spec jm h (idx cs e.1.1) (idx cs e.1.2) e.2
    obtain ⟨w2, g2⟩ := jsonFold_spec cs m _ w1
    refine ⟨w2, fun j1 j2 => ?_⟩
    rw [g2 j1 j2, List.reverse_cons, List.find?_append]
    cases hf : m.reverse.find? (fun e => ikey cs e == (j1, j2)) with
    | some e' => rfl
    | none =>
      simp only [Option.none_or, List.find?_cons, List.find?_nil]
      rw [g1 j1 j2]
      by_cases hk : j1 = idx cs e.1.1 ∧ j2 = idx cs e.1.2
      · have : (ikey cs e == (j1, j2)) = true := by
          unfold ikey; rw [hk.1, hk.2]; simp
        rw [if_pos hk, this]
      · have : (ikey cs e == (j1, j2)) = false := by
          unfold ikey
          simp only [beq_eq_false_iff_ne, ne_eq, Prod.mk.injEq]
          intro hh; exact hk ⟨hh.1.symm, hh.2.symm⟩
        rw [if_neg hk, this]
#print axioms jsonFold_spec

theorem entry_unique : ∀ {m : Matching}, (m.map (·.1)).Nodup → ∀ {e e' : Key × List Nat}, e ∈ m → e' ∈ m → e.1 = e'.1 → e = e'
  | [], _, _, _, h, _, _ => by cases h
  | x :: m, hn, e, e', h1, h2, hk => by
    simp only [List.map_cons, List.nodup_cons] at hn
    rcases List.mem_cons.1 h1 with a1 | a1
    · rcases List.mem_cons.1 h2 with a2 | a2
      · rw [a1, a2]
      · exact absurd (show x.1 ∈ m.map (·.1) from List.mem_map.2 ⟨e', a2, by rw [← hk, a1]⟩) hn.1
    · rcases List.mem_cons.1 h2 with a2 | a2
      · exact absurd (show x.1 ∈ m.map (·.1) from List.mem_map.2 ⟨e, a1, by rw [hk, a2]⟩) hn.1
      · exact entry_unique hn.2 a1 a2 hk

/-- **C18 (model): the JSON round trip of a bijection's matching gives back exactly its items** - `from_dict` of what
`to_jsonable` writes (classes in an array in order of first appearance, the matching as a dictionary of dictionaries over
array positions) is the same dictionary -/
theorem roundtrip_items (m : Matching) (hn : (m.map (·.1)).Nodup) (k : Key) (v : List Nat) :
    (k, v) ∈ roundtrip m ↔ (k, v) ∈ m := by
  unfold roundtrip
  obtain ⟨cnd, cmem⟩ := classesArr_spec m
  obtain ⟨wf, gj⟩ := jsonFold_spec (classesArr m) m [] ⟨by simp, fun o ho => nomatch ho⟩
  have hjm : jsonMap (classesArr m) m = m.foldl (fun jm e => setOuter jm (idx (classesArr m) e.1.1) (idx (classesArr m) e.1.2) e.2) [] := rfl
  rw [hjm]
  have inC1 : ∀ e ∈ m, e.1.1 ∈ classesArr m := fun e he => (cmem _).2 ⟨e, he, Or.inl rfl⟩
  have inC2 : ∀ e ∈ m, e.1.2 ∈ classesArr m := fun e he => (cmem _).2 ⟨e, he, Or.inr rfl⟩
  -- what `jget` of the built dictionary says
  have key : ∀ j1 j2 w, jget (m.foldl (fun jm e => setOuter jm (idx (classesArr m) e.1.1) (idx (classesArr m) e.1.2) e.2) []) j1 j2 = some w →
      ∃ e ∈ m, ikey (classesArr m) e = (j1, j2) ∧ e.2 = w := by
    intro j1 j2 w hw
    rw [gj j1 j2] at hw
    cases hf : m.reverse.find? (fun e => ikey (classesArr m) e == (j1, j2)) with
    | none => rw [hf] at hw; simp [jget, aget] at hw
    | some e =>
      rw [hf] at hw
      refine ⟨e, List.mem_reverse.1 (List.mem_of_find?_eq_some hf), by simpa using List.find?_some hf, Option.some.inj hw⟩
  constructor
  · intro h
    unfold rebuild at h
    obtain ⟨o, ho, hi⟩ := List.mem_flatMap.1 h
    obtain ⟨i, hi1, hi2⟩ := List.mem_map.1 hi
    have g1 := aget_of_mem wf.1 (k := o.1) (v := o.2) ho
    have g2 : aget o.2 i.1 = some i.2 := aget_of_mem (wf.2 o ho) (k := i.1) (v := i.2) hi1
    have g : jget (m.foldl (fun jm e => setOuter jm (idx (classesArr m) e.1.1) (idx (classesArr m) e.1.2) e.2) []) o.1 i.1 = some i.2 := by
      unfold jget; rw [g1]; exact g2
    obtain ⟨e, he, hk, hv⟩ := key o.1 i.1 i.2 g
    unfold ikey at hk
    have h1 : o.1 = idx (classesArr m) e.1.1 := (congrArg Prod.fst hk).symm
    have h2 : i.1 = idx (classesArr m) e.1.2 := (congrArg Prod.snd hk).symm
    have e1 : k = e.1 := by
      have := congrArg Prod.fst hi2
      simp only at this
      rw [← this, h1, h2, getD_idx _ _ (inC1 e he), getD_idx _ _ (inC2 e he)]
    have e2 : v = e.2 := by
      have := congrArg Prod.snd hi2
      simp only at this
      rw [← this, hv]
    rw [e1, e2]; exact he
  · intro h
    have hfind : ∃ e', m.reverse.find? (fun e => ikey (classesArr m) e == ikey (classesArr m) (k, v)) = some e' := by
      cases hf : m.reverse.find? (fun e => ikey (classesArr m) e == ikey (classesArr m) (k, v)) with
      | some e' => exact ⟨e', rfl⟩
      | none =>
        have := List.find?_eq_none.1 hf (k, v) (List.mem_reverse.2 h)
        simp at this
    obtain ⟨e', hf⟩ := hfind
    have he' : e' ∈ m := List.mem_reverse.1 (List.mem_of_find?_eq_some hf)
    have hk' : ikey (classesArr m) e' = ikey (classesArr m) (k, v) := by simpa using List.find?_some hf
    have hkey : e'.1 = k := by
      unfold ikey at hk'
      have a := idx_inj _ _ _ (inC1 e' he') (inC1 (k, v) h) (congrArg Prod.fst hk')
      have b := idx_inj _ _ _ (inC2 e' he') (inC2 (k, v) h) (congrArg Prod.snd hk')
      exact Prod.ext a b
    have hee : e' = (k, v) := entry_unique hn he' h hkey
    have g : jget (m.foldl (fun jm e => setOuter jm (idx (classesArr m) e.1.1) (idx (classesArr m) e.1.2) e.2) [])
        (idx (classesArr m) k.1) (idx (classesArr m) k.2) = some v := by
      rw [gj]
      have : (fun e => ikey (classesArr m) e == (idx (classesArr m) k.1, idx (classesArr m) k.2)) =
          (fun e => ikey (classesArr m) e == ikey (classesArr m) (k, v)) := rfl
      rw [this, hf, hee]
    unfold jget at g
    cases ha : aget (m.foldl (fun jm e => setOuter jm (idx (classesArr m) e.1.1) (idx (classesArr m) e.1.2) e.2) []) (idx (classesArr m) k.1) with
    | none => rw [ha] at g; cases g
    | some inner =>
      rw [ha] at g
      simp only [Option.bind_some] at g
      unfold rebuild
      refine List.mem_flatMap.2 ⟨(idx (classesArr m) k.1, inner), mem_of_aget ha, List.mem_map.2 ⟨(idx (classesArr m) k.2, v), mem_of_aget g, ?_⟩⟩
      simp only
      rw [getD_idx _ _ (inC1 (k, v) h), getD_idx _ _ (inC2 (k, v) h)]
#print axioms roundtrip_items

example : roundtrip [((3, 7), [1, 0]), ((3, 8), [0]), ((4, 3), [2, 0, 1])] = [((3, 7), [1, 0]), ((3, 8), [0]), ((4, 3), [2, 0, 1])] := by decide
end BijJ
