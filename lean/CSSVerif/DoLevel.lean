import CSSVerif.Queue
/-! C16, clause 5 (model): `do_level` hands out work while the level counter stands still; it ends either because the counter
advanced, or with the documented error — and then the queue is dry. -/

inductive LevelEnd | advanced | noMore | fuel
deriving Repr, DecidableEq

/-- `DefaultQueue.do_level`: `start` = `levels_completed` when the iteration begins (the length of `sizes`);
`steps` bounds the number of hand-outs, `f` the primitive actions of each `__next__` -/
def doLevelF (p : Pack) (f : Nat) (start : Nat) : Nat → Q → List WP → Q × List WP × LevelEnd
  | 0, q, acc => (q, acc, .fuel)
  | steps + 1, q, acc =>
    if q.sizes.length != start then (q, acc, .advanced) else
    match Q.next p f q with
    | (q', .yield w) => doLevelF p f start steps q' (acc ++ [w])
    | (q', .stop) => if q'.sizes.length == start then (q', acc, .noMore) else (q', acc, .advanced)
    | (q', .fuel) => (q', acc, .fuel)

/-- **C16 clause 5.** -/
theorem doLevel_spec (p : Pack) (f start : Nat) : ∀ (steps : Nat) (q : Q) (acc : List WP) (q' : Q) (out : List WP) (e : LevelEnd),
    doLevelF p f start steps q acc = (q', out, e) →
      (e = .advanced → q'.sizes.length ≠ start) ∧
      (e = .noMore → q'.sizes.length = start ∧ Dry q') ∧
      (∃ more, out = acc ++ more)
  | 0, q, acc, q', out, e, h => by
    simp only [doLevelF, Prod.mk.injEq] at h
    obtain ⟨rfl, rfl, rfl⟩ := h
    refine ⟨?_, ?_, ⟨[], by simp⟩⟩ <;> intro h <;> cases h
  | steps + 1, q, acc, q', out, e, h => by
    unfold doLevelF at h
    split at h
    · rename_i hne
      simp only [Prod.mk.injEq] at h
      obtain ⟨rfl, rfl, rfl⟩ := h
      refine ⟨fun _ => by simpa using hne, ?_, ⟨[], by simp⟩⟩
      intro h; cases h
    · split at h
      · rename_i q1 w hn
        obtain ⟨h1, h2, more, hm⟩ := doLevel_spec p f start steps q1 (acc ++ [w]) q' out e h
        exact ⟨h1, h2, w :: more, by rw [hm]; simp⟩
      · rename_i q1 hn
        split at h
        · rename_i heq
          simp only [Prod.mk.injEq] at h
          obtain ⟨rfl, rfl, rfl⟩ := h
          refine ⟨?_, fun _ => ⟨by simpa using heq, next_stop_dry p f q _ hn⟩, ⟨[], by simp⟩⟩
          intro h; cases h
        · rename_i hne
          simp only [Prod.mk.injEq] at h
          obtain ⟨rfl, rfl, rfl⟩ := h
          refine ⟨fun _ => by simpa using hne, ?_, ⟨[], by simp⟩⟩
          intro h; cases h
      · rename_i q1 hn
        simp only [Prod.mk.injEq] at h
        obtain ⟨rfl, rfl, rfl⟩ := h
        refine ⟨?_, ?_, ⟨[], by simp⟩⟩ <;> intro h <;> cases h
#print axioms doLevel_spec
