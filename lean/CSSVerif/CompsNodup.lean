import CSSVerif.Comps
/-! C07: `utils.compositions` yields every bounded composition once. -/

theorem nodup_map_cons (i : Nat) : ∀ (l : List (List Nat)), l.Nodup → (l.map (i :: ·)).Nodup
  | [], _ => List.nodup_nil
  | x :: xs, h => by
    have h' := List.nodup_cons.1 h
    simp only [List.map_cons]
    refine List.nodup_cons.2 ⟨?_, nodup_map_cons i xs h'.2⟩
    intro hm
    obtain ⟨y, hy, e⟩ := List.mem_map.1 hm
    injection e with _ e2
    subst e2
    exact h'.1 hy

theorem nodup_flatMap_heads (f : Nat → List (List Nat)) : ∀ (is : List Nat), is.Nodup → (∀ i ∈ is, (f i).Nodup) →
    (is.flatMap (fun i => (f i).map (i :: ·))).Nodup
  | [], _, _ => by simp
  | i :: is, hnd, hf => by
    have hnd' := List.nodup_cons.1 hnd
    simp only [List.flatMap_cons]
    refine List.nodup_append.2 ⟨nodup_map_cons i _ (hf i List.mem_cons_self),
      nodup_flatMap_heads f is hnd'.2 (fun j hj => hf j (List.mem_cons_of_mem _ hj)), ?_⟩
    intro a ha b hb e
    subst e
    obtain ⟨y, _, rfl⟩ := List.mem_map.1 ha
    obtain ⟨j, hj, hb'⟩ := List.mem_flatMap.1 hb
    obtain ⟨z, _, e2⟩ := List.mem_map.1 hb'
    injection e2 with e3 _
    subst e3
    exact hnd'.1 hj

theorem nodup_map_add (b : Nat) : ∀ (l : List Nat), l.Nodup → (l.map (· + b)).Nodup
  | [], _ => List.nodup_nil
  | x :: xs, h => by
    have h' := List.nodup_cons.1 h
    simp only [List.map_cons]
    refine List.nodup_cons.2 ⟨?_, nodup_map_add b xs h'.2⟩
    intro hm
    obtain ⟨y, hy, e⟩ := List.mem_map.1 hm
    have : y = x := by omega
    subst this
    exact h'.1 hy

/-- no composition is produced twice -/
theorem comps_nodup : ∀ (bs : List Bound) (n : Int), (comps n bs).Nodup
  | [], n => by simp [comps]
  | [b], n => by
    unfold comps
    split <;> simp
  | b :: b' :: bs, n => by
    unfold comps
    split
    · exact nodup_flatMap_heads (fun i => comps (n - (i : Int)) (b' :: bs)) _
        (nodup_map_add _ _ List.nodup_range) (fun i _ => comps_nodup (b' :: bs) _)
    · simp
#print axioms comps_nodup
