/-! C15: model of class_db.ClassDB and its theorems. Classes are abstracted to their keys (Nat). -/
def idx (x : Nat) : List Nat → Option Nat
  | [] => none
  | y :: ys => if y = x then some 0 else (idx x ys).map (· + 1)

theorem idx_none {x : Nat} : ∀ {l : List Nat}, idx x l = none → x ∉ l
  | [], _ => by simp
  | y :: ys, h => by
    unfold idx at h
    split at h
    · cases h
    · rename_i hne
      have h' : idx x ys = none := by
        cases hi : idx x ys with
        | none => rfl
        | some v => rw [hi] at h; cases h
      intro hm
      rcases List.mem_cons.1 hm with e | e
      · exact hne e.symm
      · exact idx_none h' e

theorem idx_some {x : Nat} : ∀ {l : List Nat} {i : Nat}, idx x l = some i → l[i]? = some x
  | [], _, h => by cases h
  | y :: ys, i, h => by
    unfold idx at h
    split at h
    · rename_i he; injection h with h; subst h; simp [he]
    · cases hi : idx x ys with
      | none => rw [hi] at h; cases h
      | some v =>
        rw [hi] at h; injection h with h; subst h
        simpa using idx_some hi

theorem idx_append_new {x : Nat} : ∀ {l : List Nat}, x ∉ l → idx x (l ++ [x]) = some l.length
  | [], _ => by simp [idx]
  | y :: ys, h => by
    have hne : y ≠ x := fun e => h (by simp [e])
    have hys : x ∉ ys := fun hm => h (List.mem_cons_of_mem _ hm)
    simp only [List.cons_append, idx, hne, ↓reduceIte, idx_append_new hys, Option.map_some, List.length_cons]

structure CDBm where
  classes : List Nat
deriving Repr

namespace CDBm
def empty : CDBm := ⟨[]⟩
def label? (d : CDBm) (x : Nat) : Option Nat := idx x d.classes
def getLabel (d : CDBm) (x : Nat) : CDBm × Nat :=
  match d.label? x with
  | some l => (d, l)
  | none => (⟨d.classes ++ [x]⟩, d.classes.length)
def getClass? (d : CDBm) (l : Nat) : Option Nat := d.classes[l]?
def containsLabel (d : CDBm) (l : Int) : Bool := decide (0 ≤ l) && decide (l.toNat < d.classes.length)
def containsClass (d : CDBm) (x : Nat) : Bool := d.classes.contains x

/-- invariant: no class is stored twice -/
def Inv (d : CDBm) : Prop := d.classes.Nodup

theorem inv_empty : Inv empty := List.nodup_nil

theorem getLabel_inv (d : CDBm) (x : Nat) (h : Inv d) : Inv (d.getLabel x).1 := by
  unfold getLabel
  cases hl : d.label? x with
  | some l => exact h
  | none =>
    show (d.classes ++ [x]).Nodup
    refine List.nodup_append.2 ⟨h, by simp, ?_⟩
    intro a ha b hb
    have : b = x := by simpa using hb
    subst this
    intro e; subst e
    exact idx_none hl ha

/-- stored classes are never moved: labels are stable -/
theorem getLabel_prefix (d : CDBm) (x : Nat) : ∃ t, (d.getLabel x).1.classes = d.classes ++ t := by
  unfold getLabel
  cases d.label? x with
  | some l => exact ⟨[], by simp⟩
  | none => exact ⟨[x], rfl⟩

/-- looking the returned label up gives the class back -/
theorem getClass_getLabel (d : CDBm) (x : Nat) : (d.getLabel x).1.getClass? (d.getLabel x).2 = some x := by
  unfold getLabel getClass?
  cases hl : d.label? x with
  | some l =>
    exact idx_some hl
  | none => simp

/-- asking again returns the same label and leaves the database unchanged -/
theorem getLabel_idem (d : CDBm) (x : Nat) :
    (d.getLabel x).1.getLabel x = ((d.getLabel x).1, (d.getLabel x).2) := by
  unfold getLabel
  cases hl : d.label? x with
  | some l => simp only [hl]
  | none =>
    simp only
    have hx : x ∉ d.classes := idx_none hl
    have : (⟨d.classes ++ [x]⟩ : CDBm).label? x = some d.classes.length := idx_append_new hx
    simp only [this]

/-- new labels are dense: the next label is the number of classes stored so far -/
theorem getLabel_dense (d : CDBm) (x : Nat) :
    (d.getLabel x).2 < (d.getLabel x).1.classes.length ∧
    ((d.getLabel x).1.classes.length = d.classes.length ∨
     ((d.getLabel x).1.classes.length = d.classes.length + 1 ∧ (d.getLabel x).2 = d.classes.length)) := by
  unfold getLabel
  cases hl : d.label? x with
  | some l =>
    have h1 := idx_some hl
    have : l < d.classes.length := by
      rcases Nat.lt_or_ge l d.classes.length with h | h
      · exact h
      · rw [List.getElem?_eq_none h] at h1; cases h1
    exact ⟨this, Or.inl rfl⟩
  | none => simp

/-- under the invariant, equal labels mean equal classes (injectivity) -/
theorem label_inj (d : CDBm) (_h : Inv d) (x y : Nat) (l : Nat)
    (hx : d.label? x = some l) (hy : d.label? y = some l) : x = y := by
  have h1 := idx_some hx
  have h2 := idx_some hy
  rw [h1] at h2; injection h2

/-- membership is total and exact -/
theorem containsLabel_iff (d : CDBm) (l : Int) :
    d.containsLabel l = true ↔ ∃ k : Nat, l = k ∧ (d.getClass? k).isSome := by
  unfold containsLabel getClass?
  constructor
  · intro h
    simp only [Bool.and_eq_true, decide_eq_true_eq] at h
    refine ⟨l.toNat, by omega, ?_⟩
    simp [h.2]
  · rintro ⟨k, rfl, hk⟩
    simp only [Bool.and_eq_true, decide_eq_true_eq]
    refine ⟨by omega, ?_⟩
    have : k < d.classes.length := by
      rcases Nat.lt_or_ge k d.classes.length with h | h
      · exact h
      · simp [List.getElem?_eq_none h] at hk
    simpa using this
end CDBm
