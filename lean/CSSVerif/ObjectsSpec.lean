import CSSVerif.Terms
/-! C07 (model): the tuples of sub-objects a product rule builds its objects from. `cartesian L` (itertools.product) has
exactly Π |L_i| elements and lists every tuple once when every factor lists its objects once. -/

theorem cartesian_cons {α : Type} (l : List α) (ls : List (List α)) :
    cartesian (l :: ls) = l.flatMap (fun x => (cartesian ls).map (x :: ·)) := by rw [cartesian]

theorem cartesian_length {α : Type} : ∀ (L : List (List α)), (cartesian L).length = (L.map List.length).foldr (· * ·) 1
  | [] => rfl
  | l :: ls => by
    have ih := cartesian_length ls
    rw [cartesian_cons]
    simp only [List.map_cons, List.foldr_cons]
    rw [← ih]
    induction l with
    | nil => simp
    | cons x xs ihx =>
      simp only [List.flatMap_cons, List.length_append, List.length_map, List.length_cons]
      rw [ihx, Nat.add_mul, Nat.one_mul, Nat.add_comm]

theorem map_cons_nodup {α : Type} (x : α) : ∀ (C : List (List α)), C.Nodup → (C.map (x :: ·)).Nodup
  | [], _ => by simp
  | c :: cs, h => by
    have hc := List.nodup_cons.1 h
    simp only [List.map_cons, List.nodup_cons]
    refine ⟨?_, map_cons_nodup x cs hc.2⟩
    intro hm
    obtain ⟨r, hr, e⟩ := List.mem_map.1 hm
    injection e with _ e2
    exact hc.1 (e2 ▸ hr)

theorem flatMap_cons_nodup {α : Type} (C : List (List α)) (hC : C.Nodup) : ∀ (l : List α), l.Nodup →
    (l.flatMap (fun x => C.map (x :: ·))).Nodup
  | [], _ => by simp
  | x :: xs, hl => by
    have hx := List.nodup_cons.1 hl
    simp only [List.flatMap_cons]
    rw [List.nodup_append]
    refine ⟨map_cons_nodup x C hC, flatMap_cons_nodup C hC xs hx.2, ?_⟩
    intro a ha b hb e
    subst e
    obtain ⟨r, _, rfl⟩ := List.mem_map.1 ha
    obtain ⟨y, hy, hm⟩ := List.mem_flatMap.1 hb
    obtain ⟨r', _, e'⟩ := List.mem_map.1 hm
    injection e' with e1 _
    exact hx.1 (e1 ▸ hy)

/-- **C07 (model): every tuple of sub-objects once.** -/
theorem cartesian_nodup {α : Type} : ∀ (L : List (List α)), (∀ l ∈ L, l.Nodup) → (cartesian L).Nodup
  | [], _ => by simp [cartesian]
  | l :: ls, h => by
    rw [cartesian_cons]
    exact flatMap_cons_nodup _ (cartesian_nodup ls (fun x hx => h x (List.mem_cons_of_mem _ hx))) l (h l List.mem_cons_self)
#print axioms cartesian_length
#print axioms cartesian_nodup
