import CSSVerif.WalkCount
import CSSVerif.ProductSpec
/-! C08: the product sampler is uniform, assembled from the threshold walk and the product count (counting form). -/

/-- **C08 (uniform_compose, counting form).** Let the weights `ws` of the compositions be the numbers of tuples of child objects
they account for (`ws[c] = Π_j counts[c][j]`, what `random_sample_sub_objects` computes from the children's counts). Of the
`T = Σ ws` equally likely draws `r ∈ [1, T]`, exactly `Π_j counts[c][j]` select composition `c`; the children are then sampled
independently and uniformly, so each of the `Π_j counts[c][j]` tuples of composition `c` has probability
`(hits / T) · (1 / Π_j counts[c][j]) = 1 / T`: every object of the parent is equally likely. -/
theorem uniform_compose (ws : List Nat) (counts : List (List Nat)) (c : Nat)
    (hw : ws.getD c 0 = (counts.getD c []).foldr (· * ·) 1) :
    hits ws c ws.sum = (counts.getD c []).foldr (· * ·) 1 := by
  rw [walk_count, hw]

/-- ... and `T` is the number of objects of the parent: the total of the product's terms is the sum over the compositions of
the products of the children's totals (`productTerms_total`). -/
theorem uniform_total (parent : List String) (cs : List Child) (n : Nat) :
    total (productTerms parent cs n) =
    ((comps (n : Int) (cs.map (fun c => (c.minSize, c.maxSize)))).map (fun sizes =>
      (((cs.zip sizes).map (fun (cz : Child × Nat) => total (cz.1.terms cz.2)))).foldr (· * ·) 1)).sum :=
  productTerms_total parent cs n
#print axioms uniform_compose
example : hits [2 * 3, 1 * 4] 0 (2 * 3 + 1 * 4) = 6 := by decide
