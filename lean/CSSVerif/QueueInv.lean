import CSSVerif.QueueTerm
/-! C16 clause 2: no work packet is handed out twice. Structural lemmas first. -/

theorem popFirst_get : ∀ (c : List (List Nat)) (i idx l : Nat) (rest : List (List Nat)),
    popFirst c i = some (idx, l, rest) →
    c.getD (idx - i) [] = l :: rest.getD (idx - i) [] ∧ (∀ j, j ≠ idx - i → rest.getD j [] = c.getD j []) ∧
    (∀ j, j < idx - i → c.getD j [] = [])
  | [], _, _, _, _, h => by simp [popFirst] at h
  | [] :: cs, i, idx, l, rest, h => by
    simp only [popFirst, Option.map_eq_some_iff] at h
    obtain ⟨⟨j, l', r⟩, hp, he⟩ := h
    simp only [Prod.mk.injEq] at he
    obtain ⟨rfl, rfl, rfl⟩ := he
    obtain ⟨h1, h2, h3⟩ := popFirst_get cs (i+1) j l' r hp
    have hle := (popFirst_spec cs (i+1) 0 j l' r hp).2.1
    have e : j - i = (j - (i+1)) + 1 := by omega
    rw [e]
    refine ⟨by simpa using h1, ?_, ?_⟩
    · intro k hk
      cases k with
      | zero => rfl
      | succ k => simp only [List.getD_cons_succ]; exact h2 k (by omega)
    · intro k hk
      cases k with
      | zero => rfl
      | succ k => simp only [List.getD_cons_succ]; exact h3 k (by omega)
  | (x :: d) :: cs, i, idx, l, rest, h => by
    simp only [popFirst, Option.some.injEq, Prod.mk.injEq] at h
    obtain ⟨rfl, rfl, rfl⟩ := h
    simp only [Nat.sub_self, List.getD_cons_zero]
    refine ⟨trivial, ?_, ?_⟩
    · intro j hj
      cases j with
      | zero => exact absurd rfl hj
      | succ j => rfl
    · intro j hj; omega

theorem pushAt_get : ∀ (c : List (List Nat)) (j l : Nat), j < c.length →
    (pushAt c j l).getD j [] = c.getD j [] ++ [l] ∧ ∀ k, k ≠ j → (pushAt c j l).getD k [] = c.getD k []
  | [], _, _, h => by simp at h
  | d :: rest, 0, l, _ => by
    simp only [pushAt, List.getD_cons_zero]
    refine ⟨trivial, ?_⟩
    intro k hk
    cases k with
    | zero => exact absurd rfl hk
    | succ k => rfl
  | d :: rest, j+1, l, h => by
    obtain ⟨h1, h2⟩ := pushAt_get rest j l (by simpa using h)
    simp only [pushAt, List.getD_cons_succ]
    refine ⟨h1, ?_⟩
    intro k hk
    cases k with
    | zero => rfl
    | succ k => simp only [List.getD_cons_succ]; exact h2 k (by omega)
#print axioms popFirst_get
#print axioms pushAt_get

def live (q : Q) : List WP := q.staging.filter (fun w => !q.ignore.contains w.label)

structure QI (p : Pack) (q : Q) (H : List WP) : Prop where
  nodup : (H ++ live q).Nodup
  inf : ∀ w ∈ H ++ q.staging, w.work = .inferral → w.label ∈ q.infExp ∨ w.label ∈ q.ignore
  ini : ∀ w ∈ H ++ q.staging, ∀ i, w.work = .initial i → w.label ∈ q.initExp ∨ w.label ∈ q.ignore
  exp : ∀ w ∈ H ++ q.staging, ∀ j i, w.work = .expansion j i →
          w.label ∈ q.ignore ∨ ∃ j', j < j' ∧ w.label ∈ q.curr.getD j' []
  uniq : ∀ j1 j2 l, l ∈ q.curr.getD j1 [] → l ∈ q.curr.getD j2 [] → j1 = j2
  dnd : ∀ j, (q.curr.getD j []).Nodup
  nl : (q.nextLevel.map (·.1)).Nodup
  len : q.curr.length = p.exp.length + 1

theorem getD_replicate_nil (n j : Nat) : (List.replicate n ([] : List Nat)).getD j [] = [] := by
  induction n generalizing j with
  | zero => simp
  | succ n ih => cases j with
    | zero => rfl
    | succ j => rw [List.replicate_succ, List.getD_cons_succ]; exact ih j

theorem QI.init (p : Pack) : QI p (Q.init p) [] := by
  refine ⟨by simp [live, Q.init], ?_, ?_, ?_, ?_, ?_, by simp [Q.init], by simp [Q.init]⟩
  · intro w hw; simp [Q.init] at hw
  · intro w hw; simp [Q.init] at hw
  · intro w hw; simp [Q.init] at hw
  · intro j1 j2 l h1; simp only [Q.init, getD_replicate_nil] at h1; cases h1
  · intro j; simp only [Q.init, getD_replicate_nil]; exact List.nodup_nil

theorem counterAdd_keys (c : List (Nat × Nat)) (l : Nat) (h : (c.map (·.1)).Nodup) :
    ((counterAdd c l).map (·.1)).Nodup := by
  unfold counterAdd
  split
  · have : (c.map (fun e => if e.1 == l then (e.1, e.2 + 1) else e)).map (·.1) = c.map (·.1) := by
      simp only [List.map_map]
      apply List.map_congr_left
      intro e _
      simp only [Function.comp]
      split <;> rfl
    rw [this]; exact h
  · rename_i hno
    simp only [List.map_append, List.map_cons, List.map_nil]
    refine List.nodup_append.2 ⟨h, by simp, ?_⟩
    intro a ha b hb
    simp only [List.mem_singleton] at hb
    subst hb
    intro e; subst e
    apply hno
    obtain ⟨x, hx, hxa⟩ := List.mem_map.1 ha
    exact List.any_eq_true.2 ⟨x, hx, by simp [hxa]⟩

theorem QI.add {p : Pack} {q : Q} {H : List WP} (h : QI p q H) (l : Nat) : QI p (q.add p l) H := by
  unfold Q.add
  split
  · exact ⟨h.nodup, h.inf, h.ini, h.exp, h.uniq, h.dnd, h.nl, h.len⟩
  · split
    · exact ⟨h.nodup, h.inf, h.ini, h.exp, h.uniq, h.dnd, counterAdd_keys _ _ h.nl, h.len⟩
    · exact h

theorem QI.setNotInferrable {p : Pack} {q : Q} {H : List WP} (h : QI p q H) (l : Nat) :
    QI p (q.setNotInferrable l) H := by
  unfold Q.setNotInferrable
  split
  · refine ⟨h.nodup, ?_, h.ini, h.exp, h.uniq, h.dnd, h.nl, h.len⟩
    intro w hw hk
    rcases h.inf w hw hk with e | e
    · exact Or.inl (List.mem_cons_of_mem _ e)
    · exact Or.inr e
  · exact h

theorem QI.setNotInitial {p : Pack} {q : Q} {H : List WP} (h : QI p q H) (l : Nat) :
    QI p (q.setNotInitial l) H := by
  unfold Q.setNotInitial
  split
  · refine ⟨h.nodup, h.inf, ?_, h.exp, h.uniq, h.dnd, h.nl, h.len⟩
    intro w hw i hk
    rcases h.ini w hw i hk with e | e
    · exact Or.inl (List.mem_cons_of_mem _ e)
    · exact Or.inr e
  · exact h
#print axioms QI.add

theorem setStop_fields (q : Q) (l : Nat) :
    (q.setStop l).staging = q.staging ∧ (q.setStop l).curr = q.curr ∧ (q.setStop l).working = q.working ∧
    (∀ x, x ∈ (q.setStop l).ignore ↔ x = l ∨ x ∈ q.ignore) ∧
    (∀ x, x ∈ (q.setStop l).infExp ↔ x ≠ l ∧ x ∈ q.infExp) ∧
    (∀ x, x ∈ (q.setStop l).initExp ↔ x ≠ l ∧ x ∈ q.initExp) ∧
    (q.setStop l).nextLevel = q.nextLevel.filter (·.1 != l) := by
  unfold Q.setStop
  refine ⟨rfl, rfl, rfl, ?_, ?_, ?_, rfl⟩
  · intro x
    simp only
    split
    · rename_i hc
      have := List.contains_iff_mem.1 hc
      constructor
      · intro h; exact Or.inr h
      · rintro (e | e)
        · subst e; exact this
        · exact e
    · simp
  · intro x; simp [List.mem_filter, and_comm]
  · intro x; simp [List.mem_filter, and_comm]

theorem live_sublist_of_ignore_grows (st : List WP) (ig ig' : List Nat) (h : ∀ x, x ∈ ig → x ∈ ig') :
    (st.filter (fun w => !ig'.contains w.label)).Sublist (st.filter (fun w => !ig.contains w.label)) := by
  induction st with
  | nil => exact List.Sublist.refl _
  | cons w st ih =>
    rw [List.filter_cons, List.filter_cons]
    cases h1 : ig.contains w.label with
    | true =>
      have h2 : ig'.contains w.label = true := List.contains_iff_mem.2 (h _ (List.contains_iff_mem.1 h1))
      rw [h2]
      simp only [Bool.not_true, Bool.false_eq_true, if_false]
      exact ih
    | false =>
      cases h2 : ig'.contains w.label with
      | true =>
        simp only [Bool.not_true, Bool.false_eq_true, if_false, Bool.not_false, if_true]
        exact List.Sublist.cons _ ih
      | false =>
        simp only [Bool.not_false, if_true]
        exact List.Sublist.cons₂ _ ih

theorem QI.setStop {p : Pack} {q : Q} {H : List WP} (h : QI p q H) (l : Nat) : QI p (q.setStop l) H := by
  obtain ⟨e1, e2, _, e4, e5, e6, e7⟩ := setStop_fields q l
  refine ⟨?_, ?_, ?_, ?_, ?_, ?_, ?_, ?_⟩
  · unfold live
    rw [e1]
    have hs := live_sublist_of_ignore_grows q.staging q.ignore (q.setStop l).ignore (fun x hx => (e4 x).2 (Or.inr hx))
    exact List.Nodup.sublist (List.Sublist.append (List.Sublist.refl H) hs) h.nodup
  · intro w hw hk
    rw [e1] at hw
    by_cases hl : w.label = l
    · exact Or.inr ((e4 _).2 (Or.inl hl))
    · rcases h.inf w hw hk with e | e
      · exact Or.inl ((e5 _).2 ⟨hl, e⟩)
      · exact Or.inr ((e4 _).2 (Or.inr e))
  · intro w hw i hk
    rw [e1] at hw
    by_cases hl : w.label = l
    · exact Or.inr ((e4 _).2 (Or.inl hl))
    · rcases h.ini w hw i hk with e | e
      · exact Or.inl ((e6 _).2 ⟨hl, e⟩)
      · exact Or.inr ((e4 _).2 (Or.inr e))
  · intro w hw j i hk
    rw [e1] at hw
    rw [e2]
    rcases h.exp w hw j i hk with e | e
    · exact Or.inl ((e4 _).2 (Or.inr e))
    · exact Or.inr e
  · rw [e2]; exact h.uniq
  · rw [e2]; exact h.dnd
  · rw [e7]
    exact List.Nodup.sublist (List.Sublist.map _ List.filter_sublist) h.nl
  · rw [e2]; exact h.len

/-- dropping an ignored packet from the head of staging -/
theorem QI.drop {p : Pack} {q : Q} {H : List WP} {w : WP} {st : List WP} (h : QI p q H)
    (hs : q.staging = w :: st) (hig : q.ignore.contains w.label = true) : QI p { q with staging := st } H := by
  refine ⟨?_, ?_, ?_, ?_, h.uniq, h.dnd, h.nl, h.len⟩
  · have := h.nodup
    unfold live at this ⊢
    rw [hs, List.filter_cons, hig] at this
    simp only [Bool.not_true, Bool.false_eq_true, if_false] at this
    exact this
  · intro x hx hk
    apply h.inf x _ hk
    rw [hs]
    rcases List.mem_append.1 hx with e | e
    · exact List.mem_append_left _ e
    · exact List.mem_append_right _ (List.mem_cons_of_mem _ e)
  · intro x hx i hk
    apply h.ini x _ i hk
    rw [hs]
    rcases List.mem_append.1 hx with e | e
    · exact List.mem_append_left _ e
    · exact List.mem_append_right _ (List.mem_cons_of_mem _ e)
  · intro x hx j i hk
    apply h.exp x _ j i hk
    rw [hs]
    rcases List.mem_append.1 hx with e | e
    · exact List.mem_append_left _ e
    · exact List.mem_append_right _ (List.mem_cons_of_mem _ e)

theorem mem_snoc_staging {H st : List WP} {w x : WP} (hx : x ∈ (H ++ [w]) ++ st) : x ∈ H ++ (w :: st) := by
  simp only [List.mem_append, List.mem_cons, List.mem_singleton, List.not_mem_nil, or_false] at hx ⊢
  rcases hx with (e | e) | e
  · exact Or.inl e
  · exact Or.inr (Or.inl e)
  · exact Or.inr (Or.inr e)

/-- handing out a non-ignored packet from the head of staging -/
theorem QI.yield {p : Pack} {q : Q} {H : List WP} {w : WP} {st : List WP} (h : QI p q H)
    (hs : q.staging = w :: st) (hig : q.ignore.contains w.label = false) :
    QI p { q with staging := st } (H ++ [w]) := by
  refine ⟨?_, ?_, ?_, ?_, h.uniq, h.dnd, h.nl, h.len⟩
  · have := h.nodup
    unfold live at this ⊢
    rw [hs, List.filter_cons, hig] at this
    simp only [Bool.not_false, if_true] at this
    rw [List.append_assoc]
    exact this
  · intro x hx hk
    apply h.inf x _ hk
    rw [hs]; exact mem_snoc_staging hx
  · intro x hx i hk
    apply h.ini x _ i hk
    rw [hs]; exact mem_snoc_staging hx
  · intro x hx j i hk
    apply h.exp x _ j i hk
    rw [hs]; exact mem_snoc_staging hx
#print axioms QI.setStop
#print axioms QI.yield

/-- appending freshly staged packets -/
theorem QI.stageList {p : Pack} {q : Q} {H : List WP} (h : QI p q H) (st : List WP)
    (hnd : st.Nodup)
    (hfresh : ∀ w ∈ st, w.label ∉ q.ignore → w ∉ H ++ live q)
    (hinf : ∀ w ∈ st, w.work = .inferral → w.label ∈ q.infExp ∨ w.label ∈ q.ignore)
    (hini : ∀ w ∈ st, ∀ i, w.work = .initial i → w.label ∈ q.initExp ∨ w.label ∈ q.ignore)
    (hexp : ∀ w ∈ st, ∀ j i, w.work = .expansion j i →
        w.label ∈ q.ignore ∨ ∃ j', j < j' ∧ w.label ∈ q.curr.getD j' []) :
    QI p { q with staging := q.staging ++ st } H := by
  refine ⟨?_, ?_, ?_, ?_, h.uniq, h.dnd, h.nl, h.len⟩
  · unfold live
    simp only [List.filter_append]
    rw [← List.append_assoc]
    refine List.nodup_append.2 ⟨h.nodup, List.Nodup.sublist List.filter_sublist hnd, ?_⟩
    intro a ha b hb e
    subst e
    have hbm := List.mem_filter.1 hb
    have hni : a.label ∉ q.ignore := by
      intro hc
      have hcc := List.contains_iff_mem.2 hc
      have h2 := hbm.2
      rw [hcc] at h2
      simp at h2
    exact hfresh a hbm.1 hni ha
  · intro w hw hk
    rcases List.mem_append.1 hw with e | e
    · exact h.inf w (List.mem_append_left _ e) hk
    · rcases List.mem_append.1 e with e | e
      · exact h.inf w (List.mem_append_right _ e) hk
      · exact hinf w e hk
  · intro w hw i hk
    rcases List.mem_append.1 hw with e | e
    · exact h.ini w (List.mem_append_left _ e) i hk
    · rcases List.mem_append.1 e with e | e
      · exact h.ini w (List.mem_append_right _ e) i hk
      · exact hini w e i hk
  · intro w hw j i hk
    rcases List.mem_append.1 hw with e | e
    · exact h.exp w (List.mem_append_left _ e) j i hk
    · rcases List.mem_append.1 e with e | e
      · exact h.exp w (List.mem_append_right _ e) j i hk
      · exact hexp w e j i hk
#print axioms QI.stageList

theorem setNotInferrable_fields (q : Q) (l : Nat) :
    (q.setNotInferrable l).staging = q.staging ∧ (q.setNotInferrable l).curr = q.curr ∧
    (q.setNotInferrable l).ignore = q.ignore ∧ (q.setNotInferrable l).initExp = q.initExp ∧
    (q.setNotInferrable l).nextLevel = q.nextLevel ∧
    (l ∈ (q.setNotInferrable l).infExp ∨ l ∈ q.ignore) := by
  unfold Q.setNotInferrable
  split
  · exact ⟨rfl, rfl, rfl, rfl, rfl, Or.inl List.mem_cons_self⟩
  · rename_i hc
    refine ⟨rfl, rfl, rfl, rfl, rfl, ?_⟩
    simp only [Bool.and_eq_true, Bool.not_eq_true', not_and, Bool.not_eq_false] at hc
    by_cases hi : q.ignore.contains l = true
    · exact Or.inr (List.contains_iff_mem.1 hi)
    · have : q.ignore.contains l = false := by cases hh : q.ignore.contains l <;> simp_all
      exact Or.inl (List.contains_iff_mem.1 (hc this))

theorem setNotInitial_fields (q : Q) (l : Nat) :
    (q.setNotInitial l).staging = q.staging ∧ (q.setNotInitial l).curr = q.curr ∧
    (q.setNotInitial l).ignore = q.ignore ∧ (q.setNotInitial l).infExp = q.infExp ∧
    (q.setNotInitial l).nextLevel = q.nextLevel ∧
    (l ∈ (q.setNotInitial l).initExp ∨ l ∈ q.ignore) := by
  unfold Q.setNotInitial
  split
  · exact ⟨rfl, rfl, rfl, rfl, rfl, Or.inl List.mem_cons_self⟩
  · rename_i hc
    refine ⟨rfl, rfl, rfl, rfl, rfl, ?_⟩
    simp only [Bool.and_eq_true, Bool.not_eq_true', not_and, Bool.not_eq_false] at hc
    by_cases hi : q.ignore.contains l = true
    · exact Or.inr (List.contains_iff_mem.1 hi)
    · have : q.ignore.contains l = false := by cases hh : q.ignore.contains l <;> simp_all
      exact Or.inl (List.contains_iff_mem.1 (hc this))

theorem live_sub_staging (q : Q) : ∀ w ∈ live q, w ∈ q.staging := fun w hw => (List.mem_filter.1 hw).1

theorem QI.withNextLevel {p : Pack} {q : Q} {H : List WP} (h : QI p q H) (nl : List (Nat × Nat))
    (hnl : (nl.map (·.1)).Nodup) : QI p { q with nextLevel := nl } H :=
  ⟨h.nodup, h.inf, h.ini, h.exp, h.uniq, h.dnd, hnl, h.len⟩

theorem QI.withWorking {p : Pack} {q : Q} {H : List WP} (h : QI p q H) (ws : List Nat) :
    QI p { q with working := ws } H :=
  ⟨h.nodup, h.inf, h.ini, h.exp, h.uniq, h.dnd, h.nl, h.len⟩

theorem nodup_map_inj {α β : Type} (f : α → β) (hf : ∀ a b, f a = f b → a = b) :
    ∀ (l : List α), l.Nodup → (l.map f).Nodup
  | [], _ => List.nodup_nil
  | x :: xs, h => by
    simp only [List.map_cons, List.nodup_cons] at h ⊢
    refine ⟨?_, nodup_map_inj f hf xs h.2⟩
    intro hm
    obtain ⟨y, hy, e⟩ := List.mem_map.1 hm
    rw [hf y x e] at hy
    exact h.1 hy

def infPart (p : Pack) (q0 : Q) (l : Nat) : Q × List WP :=
  if canInf p q0 l = true then (q0.setNotInferrable l, [WP.mk l .inferral]) else (q0, [])
def initPart (p : Pack) (q1 : Q) (l : Nat) : Q × List WP :=
  if canInit p q1 l = true then (q1.setNotInitial l, (List.range p.nInit).map (fun i => WP.mk l (.initial i))) else (q1, [])

theorem infPart_spec {p : Pack} {q0 : Q} {H : List WP} (h0 : QI p q0 H) (l : Nat) :
    QI p (infPart p q0 l).1 H ∧ (infPart p q0 l).1.staging = q0.staging ∧ (infPart p q0 l).1.ignore = q0.ignore ∧
    (infPart p q0 l).1.curr = q0.curr ∧ (infPart p q0 l).1.initExp = q0.initExp ∧
    (infPart p q0 l).1.nextLevel = q0.nextLevel ∧ (infPart p q0 l).2.Nodup ∧
    (∀ w ∈ (infPart p q0 l).2, w = WP.mk l .inferral ∧ l ∉ q0.infExp ∧ (l ∈ (infPart p q0 l).1.infExp ∨ l ∈ q0.ignore)) := by
  unfold infPart
  split
  · rename_i hci
    obtain ⟨f1, f2, f3, f4, f5, f6⟩ := setNotInferrable_fields q0 l
    refine ⟨h0.setNotInferrable l, f1, f3, f2, f4, f5, by simp, ?_⟩
    intro w hw
    simp only [List.mem_singleton] at hw
    refine ⟨hw, ?_, f6⟩
    unfold canInf at hci
    simp only [Bool.and_eq_true, Bool.not_eq_true'] at hci
    intro hm; have := List.contains_iff_mem.2 hm; rw [this] at hci; exact absurd hci.2 (by simp)
  · exact ⟨h0, rfl, rfl, rfl, rfl, rfl, List.nodup_nil, fun w hw => by cases hw⟩

theorem initPart_spec {p : Pack} {q1 : Q} {H : List WP} (h1 : QI p q1 H) (l : Nat) :
    QI p (initPart p q1 l).1 H ∧ (initPart p q1 l).1.staging = q1.staging ∧ (initPart p q1 l).1.ignore = q1.ignore ∧
    (initPart p q1 l).1.curr = q1.curr ∧ (initPart p q1 l).1.infExp = q1.infExp ∧
    (initPart p q1 l).1.nextLevel = q1.nextLevel ∧ (initPart p q1 l).2.Nodup ∧
    (∀ w ∈ (initPart p q1 l).2, (∃ i, w = WP.mk l (.initial i)) ∧ l ∉ q1.initExp ∧ (l ∈ (initPart p q1 l).1.initExp ∨ l ∈ q1.ignore)) := by
  unfold initPart
  split
  · rename_i hci
    obtain ⟨f1, f2, f3, f4, f5, f6⟩ := setNotInitial_fields q1 l
    refine ⟨h1.setNotInitial l, f1, f3, f2, f4, f5, ?_, ?_⟩
    · exact nodup_map_inj _ (by intro a b e; injection e with _ e2; injection e2) _ List.nodup_range
    · intro w hw
      obtain ⟨i, _, hi⟩ := List.mem_map.1 hw
      refine ⟨⟨i, hi.symm⟩, ?_, f6⟩
      unfold canInit at hci
      simp only [Bool.and_eq_true, Bool.not_eq_true'] at hci
      intro hm; have := List.contains_iff_mem.2 hm; rw [this] at hci; exact absurd hci.2 (by simp)
  · exact ⟨h1, rfl, rfl, rfl, rfl, rfl, List.nodup_nil, fun w hw => by cases hw⟩

theorem helperWorking_unfold (p : Pack) (q : Q) (l : Nat) (ws : List Nat) (hq : q.working = l :: ws) :
    helperWorking p q =
      { (initPart p (infPart p { q with working := ws } l).1 l).1 with
        staging := (initPart p (infPart p { q with working := ws } l).1 l).1.staging ++
                    (infPart p { q with working := ws } l).2 ++ (initPart p (infPart p { q with working := ws } l).1 l).2,
        nextLevel := counterAdd (initPart p (infPart p { q with working := ws } l).1 l).1.nextLevel l } := by
  unfold helperWorking infPart initPart
  rw [hq]

theorem QI.hWorking {p : Pack} {q : Q} {H : List WP} (h : QI p q H) : QI p (helperWorking p q) H := by
  match hq : q.working with
  | [] => unfold helperWorking; rw [hq]; exact h
  | l :: ws =>
    rw [helperWorking_unfold p q l ws hq]
    have h0 := h.withWorking ws
    generalize ({ q with working := ws } : Q) = q0 at h0 ⊢
    obtain ⟨h1, a1, a2, a3, a4, a5, a6, a7⟩ := infPart_spec h0 l
    generalize infPart p q0 l = r1 at h1 a1 a2 a3 a4 a5 a6 a7 ⊢
    obtain ⟨q1, st1⟩ := r1
    simp only at h1 a1 a2 a3 a4 a5 a6 a7 ⊢
    obtain ⟨h2, b1, b2, b3, b4, b5, b6, b7⟩ := initPart_spec h1 l
    generalize initPart p q1 l = r2 at h2 b1 b2 b3 b4 b5 b6 b7 ⊢
    obtain ⟨q2, st2⟩ := r2
    simp only at h2 b1 b2 b3 b4 b5 b6 b7 ⊢
    rw [List.append_assoc]
    have hst := h2.stageList (st1 ++ st2)
      (by
        refine List.nodup_append.2 ⟨a6, b6, ?_⟩
        intro a ha b hb e
        obtain ⟨e1, _, _⟩ := a7 a ha
        obtain ⟨⟨i, e2⟩, _, _⟩ := b7 b hb
        rw [e1, e2] at e; injection e with _ e3; cases e3)
      (by
        intro w hw hni hmem
        have hmem' : w ∈ H ++ q0.staging := by
          rcases List.mem_append.1 hmem with e | e
          · exact List.mem_append_left _ e
          · have := live_sub_staging q2 w e
            rw [b1, a1] at this
            exact List.mem_append_right _ this
        rw [b2, a2] at hni
        rcases List.mem_append.1 hw with e | e
        · obtain ⟨e1, e2, _⟩ := a7 w e
          subst e1
          rcases h0.inf _ hmem' rfl with x | x
          · exact e2 x
          · exact hni x
        · obtain ⟨⟨i, e1⟩, e2, _⟩ := b7 w e
          subst e1
          rcases h0.ini _ hmem' i rfl with x | x
          · rw [← a4] at x; exact e2 x
          · exact hni x)
      (by
        intro w hw hk
        rcases List.mem_append.1 hw with e | e
        · obtain ⟨e1, _, e3⟩ := a7 w e
          subst e1
          rw [b4, b2, a2]; exact e3
        · obtain ⟨⟨i, e1⟩, _, _⟩ := b7 w e
          subst e1; cases hk)
      (by
        intro w hw i hk
        rcases List.mem_append.1 hw with e | e
        · obtain ⟨e1, _, _⟩ := a7 w e
          subst e1; cases hk
        · obtain ⟨⟨i', e1⟩, _, e3⟩ := b7 w e
          subst e1
          rw [b2]; exact e3)
      (by
        intro w hw j i hk
        rcases List.mem_append.1 hw with e | e
        · obtain ⟨e1, _, _⟩ := a7 w e
          subst e1; cases hk
        · obtain ⟨⟨i', e1⟩, _, _⟩ := b7 w e
          subst e1; cases hk)
    exact hst.withNextLevel _ (counterAdd_keys _ _ h2.nl)
#print axioms QI.hWorking

theorem QI.hCurr {p : Pack} {q : Q} {H : List WP} (h : QI p q H)
    (hne : q.curr.all (·.isEmpty) = false) : QI p (helperCurr p q) H := by
  obtain ⟨⟨idx, l, rest⟩, hpop⟩ := popFirst_some_of_nonempty q.curr 0 hne
  obtain ⟨hlen, _, hidx, _⟩ := popFirst_spec q.curr 0 0 idx l rest hpop
  obtain ⟨g1, g2, _⟩ := popFirst_get q.curr 0 idx l rest hpop
  simp only [Nat.sub_zero] at g1 g2
  have hl_in : l ∈ q.curr.getD idx [] := by rw [g1]; exact List.mem_cons_self
  have hl_notin_rest : l ∉ rest.getD idx [] := by
    have := h.dnd idx; rw [g1] at this; exact (List.nodup_cons.1 this).1
  unfold helperCurr
  rw [hpop]
  simp only
  split
  · -- dropped from the last deque and stopped
    rename_i hlast
    have hmid : QI p { q with curr := rest } (H) ∨ True := Or.inr trivial
    clear hmid
    obtain ⟨e1, e2, _, e4, e5, e6, e7⟩ := setStop_fields ({ q with curr := rest } : Q) l
    simp only at e1 e2 e4 e5 e6 e7
    refine ⟨?_, ?_, ?_, ?_, ?_, ?_, ?_, ?_⟩
    · unfold live
      rw [e1]
      have hs := live_sublist_of_ignore_grows q.staging q.ignore (({ q with curr := rest } : Q).setStop l).ignore
        (fun x hx => (e4 x).2 (Or.inr hx))
      exact List.Nodup.sublist (List.Sublist.append (List.Sublist.refl H) hs) h.nodup
    · intro w hw hk
      rw [e1] at hw
      by_cases hl : w.label = l
      · exact Or.inr ((e4 _).2 (Or.inl hl))
      · rcases h.inf w hw hk with e | e
        · exact Or.inl ((e5 _).2 ⟨hl, e⟩)
        · exact Or.inr ((e4 _).2 (Or.inr e))
    · intro w hw i hk
      rw [e1] at hw
      by_cases hl : w.label = l
      · exact Or.inr ((e4 _).2 (Or.inl hl))
      · rcases h.ini w hw i hk with e | e
        · exact Or.inl ((e6 _).2 ⟨hl, e⟩)
        · exact Or.inr ((e4 _).2 (Or.inr e))
    · intro w hw j i hk
      rw [e1] at hw
      rw [e2]
      by_cases hl : w.label = l
      · exact Or.inl ((e4 _).2 (Or.inl hl))
      · rcases h.exp w hw j i hk with e | ⟨j', hj, hm⟩
        · exact Or.inl ((e4 _).2 (Or.inr e))
        · right
          refine ⟨j', hj, ?_⟩
          by_cases hji : j' = idx
          · subst hji
            rw [g1] at hm
            rcases List.mem_cons.1 hm with e | e
            · exact absurd e hl
            · exact e
          · rw [g2 j' hji]; exact hm
    · rw [e2]
      intro j1 j2 m h1 h2
      have m1 : m ∈ q.curr.getD j1 [] := by
        by_cases hj : j1 = idx
        · subst hj; rw [g1]; exact List.mem_cons_of_mem _ h1
        · rw [← g2 j1 hj]; exact h1
      have m2 : m ∈ q.curr.getD j2 [] := by
        by_cases hj : j2 = idx
        · subst hj; rw [g1]; exact List.mem_cons_of_mem _ h2
        · rw [← g2 j2 hj]; exact h2
      exact h.uniq j1 j2 m m1 m2
    · rw [e2]
      intro j
      by_cases hj : j = idx
      · subst hj
        have := h.dnd j; rw [g1] at this; exact (List.nodup_cons.1 this).2
      · rw [g2 j hj]; exact h.dnd j
    · rw [e7]
      exact List.Nodup.sublist (List.Sublist.map _ List.filter_sublist) h.nl
    · rw [e2]; show rest.length = _; rw [hlen]; exact h.len
  · -- moved one deque further, strategies of this set staged
    rename_i hnl
    have hi : idx + 1 < rest.length := by
      have := h.len
      have : idx ≠ p.exp.length := hnl
      omega
    obtain ⟨p1, p2⟩ := pushAt_get rest (idx + 1) l hi
    -- the queue after the move, before staging
    have hmoved : QI p { q with curr := pushAt rest (idx + 1) l } H := by
      have mem_old : ∀ k m, m ≠ l → m ∈ (pushAt rest (idx + 1) l).getD k [] → m ∈ q.curr.getD k [] := by
        intro k m hm hmem
        by_cases hk1 : k = idx + 1
        · subst hk1
          rw [p1] at hmem
          rcases List.mem_append.1 hmem with e | e
          · rw [← g2 (idx+1) (by omega)]; exact e
          · simp only [List.mem_singleton] at e; exact absurd e hm
        · rw [p2 k hk1] at hmem
          by_cases hk : k = idx
          · subst hk; rw [g1]; exact List.mem_cons_of_mem _ hmem
          · rw [← g2 k hk]; exact hmem
      have mem_new : ∀ k m, m ≠ l → m ∈ q.curr.getD k [] → m ∈ (pushAt rest (idx + 1) l).getD k [] := by
        intro k m hm hmem
        by_cases hk1 : k = idx + 1
        · subst hk1
          rw [p1]; apply List.mem_append_left
          rw [g2 (idx+1) (by omega)]; exact hmem
        · rw [p2 k hk1]
          by_cases hk : k = idx
          · subst hk
            rw [g1] at hmem
            rcases List.mem_cons.1 hmem with e | e
            · exact absurd e hm
            · exact e
          · rw [g2 k hk]; exact hmem
      have l_only : ∀ k, l ∈ (pushAt rest (idx + 1) l).getD k [] → k = idx + 1 := by
        intro k hmem
        by_cases hk1 : k = idx + 1
        · exact hk1
        · rw [p2 k hk1] at hmem
          by_cases hk : k = idx
          · subst hk; exact absurd hmem hl_notin_rest
          · rw [g2 k hk] at hmem
            exact absurd (h.uniq k idx l hmem hl_in) hk
      refine ⟨h.nodup, h.inf, h.ini, ?_, ?_, ?_, h.nl, ?_⟩
      · intro w hw j i hk
        rcases h.exp w hw j i hk with e | ⟨j', hj, hm⟩
        · exact Or.inl e
        · right
          by_cases hwl : w.label = l
          · have : j' = idx := h.uniq j' idx l (hwl ▸ hm) hl_in
            subst this
            refine ⟨j' + 1, by omega, ?_⟩
            simp only
            rw [p1, hwl]; exact List.mem_append_right _ (by simp)
          · exact ⟨j', hj, mem_new j' _ hwl hm⟩
      · intro j1 j2 m h1 h2
        simp only at h1 h2
        by_cases hm : m = l
        · subst hm
          rw [l_only j1 h1, l_only j2 h2]
        · exact h.uniq j1 j2 m (mem_old j1 m hm h1) (mem_old j2 m hm h2)
      · intro j
        simp only
        by_cases hk1 : j = idx + 1
        · subst hk1
          rw [p1]
          refine List.nodup_append.2 ⟨?_, by simp, ?_⟩
          · rw [g2 (idx+1) (by omega)]; exact h.dnd (idx+1)
          · intro a ha b hb e
            simp only [List.mem_singleton] at hb
            subst hb; subst e
            rw [g2 (idx+1) (by omega)] at ha
            have := h.uniq (idx+1) idx a ha hl_in
            omega
        · rw [p2 j hk1]
          by_cases hk : j = idx
          · subst hk
            have := h.dnd j; rw [g1] at this; exact (List.nodup_cons.1 this).2
          · rw [g2 j hk]; exact h.dnd j
      · simp only; rw [(pushAt_spec rest (idx+1) 0 l hi).1, hlen]; exact h.len
    have hst := hmoved.stageList ((List.range (p.exp.getD idx 0)).map (fun i => WP.mk l (.expansion idx i)))
      (nodup_map_inj _ (by intro a b e; injection e with _ e2; injection e2) _ List.nodup_range)
      (by
        intro w hw hni hmem
        obtain ⟨i, _, hi'⟩ := List.mem_map.1 hw
        subst hi'
        have hmem' : (WP.mk l (.expansion idx i)) ∈ H ++ q.staging := by
          rcases List.mem_append.1 hmem with e | e
          · exact List.mem_append_left _ e
          · exact List.mem_append_right _ (live_sub_staging _ _ e)
        rcases h.exp _ hmem' idx i rfl with e | ⟨j', hj, hm⟩
        · exact hni e
        · have := h.uniq j' idx l hm hl_in
          omega)
      (by intro w hw hk; obtain ⟨i, _, hi'⟩ := List.mem_map.1 hw; subst hi'; cases hk)
      (by intro w hw i hk; obtain ⟨i', _, hi'⟩ := List.mem_map.1 hw; subst hi'; cases hk)
      (by
        intro w hw j i hk
        obtain ⟨i', _, hi'⟩ := List.mem_map.1 hw
        subst hi'
        injection hk with hj _
        subst hj
        right
        refine ⟨idx + 1, by omega, ?_⟩
        simp only
        rw [p1]; exact List.mem_append_right _ (by simp))
    exact hst
#print axioms QI.hCurr

theorem mem_insertDesc (e : Nat × Nat) : ∀ (l : List (Nat × Nat)) (x : Nat),
    x ∈ (insertDesc e l).map (·.1) ↔ x = e.1 ∨ x ∈ l.map (·.1)
  | [], x => by simp [insertDesc]
  | y :: ys, x => by
    unfold insertDesc
    split
    · simp
    · simp only [List.map_cons, List.mem_cons, mem_insertDesc e ys x]
      constructor
      · rintro (h | h | h)
        · exact Or.inr (Or.inl h)
        · exact Or.inl h
        · exact Or.inr (Or.inr h)
      · rintro (h | h | h)
        · exact Or.inr (Or.inl h)
        · exact Or.inl h
        · exact Or.inr (Or.inr h)

theorem insertDesc_nodup (e : Nat × Nat) : ∀ (l : List (Nat × Nat)), (l.map (·.1)).Nodup → e.1 ∉ l.map (·.1) →
    ((insertDesc e l).map (·.1)).Nodup
  | [], _, _ => by simp [insertDesc]
  | y :: ys, h, hn => by
    unfold insertDesc
    split
    · simp only [List.map_cons, List.nodup_cons] at h ⊢
      exact ⟨hn, h⟩
    · simp only [List.map_cons, List.nodup_cons, List.mem_cons, not_or] at h hn ⊢
      refine ⟨?_, insertDesc_nodup e ys h.2 hn.2⟩
      intro hm
      rcases (mem_insertDesc e ys y.1).1 hm with e1 | e1
      · exact hn.1 e1.symm
      · exact h.1 e1

theorem sortDesc_keys (c : List (Nat × Nat)) (h : (c.map (·.1)).Nodup) :
    ((sortDesc c).map (·.1)).Nodup ∧ ∀ x, x ∈ (sortDesc c).map (·.1) ↔ x ∈ c.map (·.1) := by
  unfold sortDesc
  have aux : ∀ (c acc : List (Nat × Nat)), (c.map (·.1)).Nodup → (acc.map (·.1)).Nodup →
      (∀ x, x ∈ c.map (·.1) → x ∉ acc.map (·.1)) →
      ((c.foldl (fun acc e => insertDesc e acc) acc).map (·.1)).Nodup ∧
      ∀ x, x ∈ (c.foldl (fun acc e => insertDesc e acc) acc).map (·.1) ↔ (x ∈ c.map (·.1) ∨ x ∈ acc.map (·.1)) := by
    intro c
    induction c with
    | nil => intro acc _ ha _; exact ⟨ha, fun x => by simp⟩
    | cons e c ih =>
      intro acc hc ha hd
      simp only [List.map_cons, List.nodup_cons] at hc
      simp only [List.foldl_cons]
      have hnew : e.1 ∉ acc.map (·.1) := hd e.1 (by simp)
      obtain ⟨r1, r2⟩ := ih (insertDesc e acc) hc.2 (insertDesc_nodup e acc ha hnew)
        (by
          intro x hx hm
          rcases (mem_insertDesc e acc x).1 hm with e1 | e1
          · subst e1; exact hc.1 hx
          · exact hd x (by simp [hx]) e1)
      refine ⟨r1, ?_⟩
      intro x
      rw [r2 x, mem_insertDesc]
      simp only [List.map_cons, List.mem_cons]
      constructor
      · rintro (h | h | h)
        · exact Or.inl (Or.inr h)
        · exact Or.inl (Or.inl h)
        · exact Or.inr h
      · rintro ((h | h) | h)
        · exact Or.inr (Or.inl h)
        · exact Or.inl h
        · exact Or.inr (Or.inr h)
  obtain ⟨r1, r2⟩ := aux c [] h (by simp) (by simp)
  exact ⟨r1, fun x => by rw [r2 x]; simp⟩

theorem all_empty_getD : ∀ (c : List (List Nat)), c.all (·.isEmpty) = true → ∀ j, c.getD j [] = []
  | [], _, j => by simp
  | d :: rest, h, j => by
    simp only [List.all_cons, Bool.and_eq_true, List.isEmpty_iff] at h
    cases j with
    | zero => simpa using h.1
    | succ j => simpa using all_empty_getD rest h.2 j

theorem QI.changeLevel {p : Pack} {q q' : Q} {H : List WP} (h : QI p q H)
    (hall : q.curr.all (·.isEmpty) = true) (hc : changeLevel q = some q') : QI p q' H := by
  unfold _root_.changeLevel at hc
  simp only at hc
  split at hc
  · cases hc
  · rename_i d rest hcur
    split at hc
    · cases hc
    · injection hc with hc
      subst hc
      have hempty := all_empty_getD q.curr hall
      have hd : d = [] := by have := hempty 0; rw [hcur] at this; simpa using this
      subst hd
      have hrest : ∀ j, rest.getD j [] = [] := by
        intro j; have := hempty (j+1); rw [hcur] at this; simpa using this
      obtain ⟨k1, _⟩ := sortDesc_keys q.nextLevel h.nl
      refine ⟨h.nodup, h.inf, h.ini, ?_, ?_, ?_, by simp, ?_⟩
      · intro w hw j i hk
        rcases h.exp w hw j i hk with e | ⟨j', _, hm⟩
        · exact Or.inl e
        · rw [hempty j'] at hm; cases hm
      · intro j1 j2 m h1 h2
        simp only [List.nil_append] at h1 h2
        cases j1 with
        | zero =>
          cases j2 with
          | zero => rfl
          | succ j2 => simp only [List.getD_cons_succ, hrest] at h2; cases h2
        | succ j1 => simp only [List.getD_cons_succ, hrest] at h1; cases h1
      · intro j
        simp only [List.nil_append]
        cases j with
        | zero => simpa using k1
        | succ j => simp only [List.getD_cons_succ, hrest]; exact List.nodup_nil
      · have := h.len; rw [hcur] at this; simpa using this
#print axioms QI.changeLevel

def handedAfter (H : List WP) : Out → List WP
  | .yield w => H ++ [w]
  | _ => H

theorem QI.next {p : Pack} : ∀ (f : Nat) (q q' : Q) (H : List WP) (o : Out), QI p q H →
    Q.next p f q = (q', o) → QI p q' (handedAfter H o) := by
  intro f
  induction f with
  | zero =>
    intro q q' H o h hn
    simp only [Q.next] at hn
    injection hn with h1 h2; subst h1; subst h2; exact h
  | succ f ih =>
    intro q q' H o h hn
    unfold Q.next at hn
    split at hn
    · rename_i w st hst
      simp only at hn
      split at hn
      · rename_i hig
        exact ih _ _ _ _ (h.drop hst hig) hn
      · rename_i hig
        injection hn with h1 h2; subst h1; subst h2
        have : q.ignore.contains w.label = false := by
          cases hh : q.ignore.contains w.label with
          | true => exact absurd hh hig
          | false => rfl
        exact h.yield hst this
    · rename_i hst
      split at hn
      · exact ih _ _ _ _ h.hWorking hn
      · split at hn
        · rename_i hall
          split at hn
          · injection hn with h1 h2; subst h1; subst h2; exact h
          · rename_i q2 hcl
            have h2 := h.changeLevel hall hcl
            obtain ⟨_, _, _, _, h5⟩ := changeLevel_spec p q q2 hst h.len hall hcl
            exact ih _ _ _ _ (h2.hCurr h5) hn
        · rename_i hall
          have hall' : q.curr.all (·.isEmpty) = false := by
            cases hb : q.curr.all (·.isEmpty) with
            | true => exact absurd hb hall
            | false => rfl
          exact ih _ _ _ _ (h.hCurr hall') hn

inductive Op where
  | add (l : Nat) | stop (l : Nat) | notInferrable (l : Nat) | next
deriving Repr

def stepOp (p : Pack) (fuel : Nat) (s : Q × List WP) : Op → Q × List WP
  | .add l => (s.1.add p l, s.2)
  | .stop l => (s.1.setStop l, s.2)
  | .notInferrable l => (s.1.setNotInferrable l, s.2)
  | .next => let r := Q.next p fuel s.1; (r.1, handedAfter s.2 r.2)

def runOps (p : Pack) (fuel : Nat) (ops : List Op) : Q × List WP := ops.foldl (stepOp p fuel) (Q.init p, [])

theorem runOps_inv (p : Pack) (fuel : Nat) (ops : List Op) : QI p (runOps p fuel ops).1 (runOps p fuel ops).2 := by
  unfold runOps
  have aux : ∀ (ops : List Op) (s : Q × List WP), QI p s.1 s.2 →
      QI p (ops.foldl (stepOp p fuel) s).1 (ops.foldl (stepOp p fuel) s).2 := by
    intro ops
    induction ops with
    | nil => intro s h; exact h
    | cons o ops ih =>
      intro s h
      simp only [List.foldl_cons]
      apply ih
      cases o with
      | add l => exact h.add l
      | stop l => exact h.setStop l
      | notInferrable l => exact h.setNotInferrable l
      | next => exact QI.next fuel s.1 _ s.2 _ h rfl
  exact aux ops _ (QI.init p)

/-- C16 clause 2: over any history of add / stop / not-inferrable / next operations, no work packet
(label + inferral tuple | initial strategy i | strategy i of expansion set j) is handed out twice. -/
theorem handed_nodup (p : Pack) (fuel : Nat) (ops : List Op) : (runOps p fuel ops).2.Nodup :=
  (List.nodup_append.1 (runOps_inv p fuel ops).nodup).1
#print axioms handed_nodup

/-! Clause 1 in history form: once a label is in `ignore` it stays there and is never handed out. -/
theorem helperWorking_ignore (p : Pack) (q : Q) : (helperWorking p q).ignore = q.ignore := by
  match hq : q.working with
  | [] => unfold helperWorking; rw [hq]
  | l :: ws =>
    rw [helperWorking_unfold p q l ws hq]
    simp only
    unfold initPart infPart
    split <;> split <;> simp [(setNotInitial_fields _ l).2.2.1, (setNotInferrable_fields _ l).2.2.1]

theorem helperCurr_ignore (p : Pack) (q : Q) : ∀ x, x ∈ q.ignore → x ∈ (helperCurr p q).ignore := by
  intro x hx
  unfold helperCurr
  split
  · exact hx
  · simp only
    split
    · exact ((setStop_fields _ _).2.2.2.1 x).2 (Or.inr hx)
    · exact hx

theorem changeLevel_ignore (q q' : Q) (h : changeLevel q = some q') : q'.ignore = q.ignore := by
  unfold changeLevel at h
  simp only at h
  split at h
  · cases h
  · split at h
    · cases h
    · injection h with h; subst h; rfl

theorem next_ignore_mono (p : Pack) : ∀ (f : Nat) (q q' : Q) (o : Out), Q.next p f q = (q', o) →
    ∀ x, x ∈ q.ignore → x ∈ q'.ignore := by
  intro f
  induction f with
  | zero => intro q q' o h x hx; simp only [Q.next] at h; injection h with h1 _; subst h1; exact hx
  | succ f ih =>
    intro q q' o h x hx
    unfold Q.next at h
    split at h
    · simp only at h
      split at h
      · exact ih _ _ _ h x hx
      · injection h with h1 _; subst h1; exact hx
    · split at h
      · exact ih _ _ _ h x (by rw [helperWorking_ignore]; exact hx)
      · split at h
        · split at h
          · injection h with h1 _; subst h1; exact hx
          · rename_i q2 hcl
            exact ih _ _ _ h x (helperCurr_ignore p q2 x (by rw [changeLevel_ignore q q2 hcl]; exact hx))
        · exact ih _ _ _ h x (helperCurr_ignore p q x hx)

/-- a label that is ignored before an operation is not handed out by it, and stays ignored -/
theorem stepOp_respects_ignore (p : Pack) (fuel : Nat) (s : Q × List WP) (o : Op) (l : Nat) (hl : l ∈ s.1.ignore) :
    l ∈ (stepOp p fuel s o).1.ignore ∧ ∀ w ∈ (stepOp p fuel s o).2, w ∈ s.2 ∨ w.label ≠ l := by
  cases o with
  | add x =>
    refine ⟨?_, fun w hw => Or.inl hw⟩
    show l ∈ (s.1.add p x).ignore
    unfold Q.add; split
    · exact hl
    · split <;> exact hl
  | stop x => exact ⟨((setStop_fields s.1 x).2.2.2.1 l).2 (Or.inr hl), fun w hw => Or.inl hw⟩
  | notInferrable x =>
    refine ⟨?_, fun w hw => Or.inl hw⟩
    show l ∈ (s.1.setNotInferrable x).ignore
    rw [(setNotInferrable_fields s.1 x).2.2.1]; exact hl
  | next =>
    simp only [stepOp]
    generalize hr : Q.next p fuel s.1 = r
    obtain ⟨q', o⟩ := r
    refine ⟨next_ignore_mono p fuel s.1 q' o hr l hl, ?_⟩
    intro w hw
    cases o with
    | yield w' =>
      simp only [handedAfter, List.mem_append, List.mem_singleton] at hw
      rcases hw with e | e
      · exact Or.inl e
      · subst e
        right
        intro e
        have h1 := next_not_ignored p fuel s.1 q' w hr
        have h2 := next_ignore_mono p fuel s.1 q' _ hr l hl
        rw [e] at h1
        have := List.contains_iff_mem.2 h2
        rw [this] at h1; cases h1
    | stop => exact Or.inl hw
    | fuel => exact Or.inl hw

/-- C16 clause 1: after `stop l` (or `verified l`, which is the same operation) no packet for `l`
is ever handed out again, whatever operations follow. -/
theorem stop_respected (p : Pack) (fuel : Nat) (s : Q × List WP) (l : Nat) (hl : l ∈ s.1.ignore) :
    ∀ (ops : List Op), ∀ w ∈ (ops.foldl (stepOp p fuel) s).2, w ∈ s.2 ∨ w.label ≠ l := by
  intro ops
  induction ops generalizing s with
  | nil => intro w hw; exact Or.inl hw
  | cons o ops ih =>
    intro w hw
    simp only [List.foldl_cons] at hw
    obtain ⟨h1, h2⟩ := stepOp_respects_ignore p fuel s o l hl
    rcases ih (stepOp p fuel s o) h1 w hw with e | e
    · exact h2 w e
    · exact Or.inr e
#print axioms stop_respected
