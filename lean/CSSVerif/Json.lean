/-! C18: the JSON layout of the rule forms (`to_jsonable` / `from_dict` of Rule, VerificationRule,
EquivalenceRule, ReverseRule, EquivalencePathRule) with strategies and classes abstracted to numbers,
and the proof that loading what was dumped gives the value back. -/

inductive J where
  | num (n : Nat)
  | str (s : String)
  | arr (l : List J)
  | obj (kv : List (String × J))

/-- a plain rule: strategy, class, children (rule.py:365-391) -/
structure Plain where
  strategy : Nat
  cls : Nat
  children : List Nat
deriving DecidableEq, Repr

/-- a rule that can be wrapped: plain or reverse of a plain rule with its index (rule.py:983-998) -/
inductive Unit1 where
  | plain (p : Plain)
  | rev (p : Plain) (idx : Nat)
deriving DecidableEq, Repr

inductive Single where
  | unit (u : Unit1)
  | equiv (u : Unit1)            -- EquivalenceRule: only `original_rule` is stored (rule.py:732-745)
  | ver (strategy cls : Nat)     -- VerificationRule (rule.py:1093-1112)
deriving DecidableEq, Repr

inductive Form where
  | single (s : Single)
  | path (rs : List Single)      -- EquivalencePathRule: the list of its rules (rule.py:833-849)
deriving DecidableEq, Repr

def J.field : J → String → Option J
  | .obj kv, k => (kv.find? (·.1 == k)).map (·.2)
  | _, _ => none
def J.asNum : J → Option Nat | .num n => some n | _ => none
def J.asStr : J → Option String | .str s => some s | _ => none
def J.asArr : J → Option (List J) | .arr l => some l | _ => none

def plainToJ (p : Plain) : J :=
  .obj [("class_module", .str "comb_spec_searcher.strategies.rule"), ("rule_class", .str "Rule"),
        ("comb_class", .num p.cls), ("children", .arr (p.children.map .num)), ("strategy", .num p.strategy)]

def unitToJ : Unit1 → J
  | .plain p => plainToJ p
  | .rev p idx => .obj [("class_module", .str "comb_spec_searcher.strategies.rule"), ("rule_class", .str "ReverseRule"),
                        ("original_rule", plainToJ p), ("idx", .num idx)]

def singleToJ : Single → J
  | .unit u => unitToJ u
  | .equiv u => .obj [("class_module", .str "comb_spec_searcher.strategies.rule"), ("rule_class", .str "EquivalenceRule"),
                      ("original_rule", unitToJ u)]
  | .ver s c => .obj [("class_module", .str "comb_spec_searcher.strategies.rule"), ("rule_class", .str "VerificationRule"),
                      ("comb_class", .num c), ("strategy", .num s)]

def toJ : Form → J
  | .single s => singleToJ s
  | .path rs => .obj [("class_module", .str "comb_spec_searcher.strategies.rule"), ("rule_class", .str "EquivalencePathRule"),
                      ("rules", .arr (rs.map singleToJ))]

def plainFromJ (j : J) : Option Plain := do
  let rc ← (← j.field "rule_class").asStr
  if rc != "Rule" then none else
  let c ← (← j.field "comb_class").asNum
  let s ← (← j.field "strategy").asNum
  let ch ← (← (← j.field "children").asArr).mapM J.asNum
  pure ⟨s, c, ch⟩

def unitFromJ (j : J) : Option Unit1 := do
  let rc ← (← j.field "rule_class").asStr
  if rc == "Rule" then (plainFromJ j).map .plain
  else if rc == "ReverseRule" then do
    let p ← plainFromJ (← j.field "original_rule")
    let idx ← (← j.field "idx").asNum
    pure (.rev p idx)
  else none

def singleFromJ (j : J) : Option Single := do
  let rc ← (← j.field "rule_class").asStr
  if rc == "EquivalenceRule" then (unitFromJ (← j.field "original_rule")).map .equiv
  else if rc == "VerificationRule" then do
    let c ← (← j.field "comb_class").asNum
    let s ← (← j.field "strategy").asNum
    pure (.ver s c)
  else (unitFromJ j).map .unit

def fromJ (j : J) : Option Form := do
  let rc ← (← j.field "rule_class").asStr
  if rc == "EquivalencePathRule" then do
    let rs ← (← (← j.field "rules").asArr).mapM singleFromJ
    pure (.path rs)
  else (singleFromJ j).map .single

theorem mapM_asNum (l : List Nat) : l.mapM (J.asNum ∘ J.num) = some l := by
  induction l with
  | nil => rfl
  | cons x xs ih => simp [List.mapM_cons, J.asNum, ih]

theorem plain_roundtrip (p : Plain) : plainFromJ (plainToJ p) = some p := by
  simp [plainFromJ, plainToJ, J.field, J.asStr, J.asNum, J.asArr, mapM_asNum]

theorem unit_roundtrip (u : Unit1) : unitFromJ (unitToJ u) = some u := by
  cases u with
  | plain p =>
    have := plain_roundtrip p
    simp only [unitToJ]
    simp [unitFromJ, plainToJ, J.field, J.asStr] at *
    simpa [plainToJ] using this
  | rev p idx =>
    have := plain_roundtrip p
    simp [unitFromJ, unitToJ, J.field, J.asStr, J.asNum, this]

theorem single_roundtrip (s : Single) : singleFromJ (singleToJ s) = some s := by
  cases s with
  | unit u =>
    cases u with
    | plain p =>
      have := unit_roundtrip (.plain p)
      simp [singleFromJ, singleToJ, unitToJ, plainToJ, J.field, J.asStr] at *
      simpa [unitToJ, plainToJ] using this
    | rev p idx =>
      have := unit_roundtrip (.rev p idx)
      simp [singleFromJ, singleToJ, unitToJ, J.field, J.asStr] at *
      simpa [unitToJ] using this
  | equiv u =>
    have := unit_roundtrip u
    simp [singleFromJ, singleToJ, J.field, J.asStr, this]
  | ver s c => simp [singleFromJ, singleToJ, J.field, J.asStr, J.asNum]

theorem mapM_single (rs : List Single) : rs.mapM (singleFromJ ∘ singleToJ) = some rs := by
  induction rs with
  | nil => rfl
  | cons x xs ih => simp [List.mapM_cons, single_roundtrip, ih]

/-- **C18 (rule forms).** Loading the dumped JSON of a rule form gives the rule form back. -/
theorem fromJ_toJ (f : Form) : fromJ (toJ f) = some f := by
  cases f with
  | path rs => simp [fromJ, toJ, J.field, J.asStr, J.asArr, mapM_single]
  | single s =>
    have := single_roundtrip s
    cases s with
    | unit u =>
      cases u with
      | plain p => simp [fromJ, toJ, singleToJ, unitToJ, plainToJ, J.field, J.asStr] at *; simpa [singleToJ, unitToJ, plainToJ] using this
      | rev p idx => simp [fromJ, toJ, singleToJ, unitToJ, J.field, J.asStr] at *; simpa [singleToJ, unitToJ] using this
    | equiv u => simp [fromJ, toJ, singleToJ, J.field, J.asStr] at *; simpa [singleToJ] using this
    | ver s c => simp [fromJ, toJ, singleToJ, J.field, J.asStr] at *; simpa [singleToJ] using this
#print axioms fromJ_toJ

example : fromJ (toJ (.path [.equiv (.rev ⟨3, 0, [1, 2]⟩ 1), .unit (.plain ⟨4, 2, [5]⟩), .ver 6 5])) =
    some (.path [.equiv (.rev ⟨3, 0, [1, 2]⟩ 1), .unit (.plain ⟨4, 2, [5]⟩), .ver 6 5]) := by decide
