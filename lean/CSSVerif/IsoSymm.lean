import CSSVerif.IsoRefl
/-! C12 (reference relation): `isoRef` is symmetric — `isoRef g1 g2 = isoRef g2 g1`. -/

inductive Matched (r : Nat → Nat → Bool) : List Nat → List Nat → Prop
  | nil : Matched r [] []
  | cons {x y : Nat} {xs ys : List Nat} (h : r x y = true) (t : Matched r xs ys) : Matched r (x :: xs) (y :: ys)

theorem matchDFS_iff (r : Nat → Nat → Bool) : ∀ (cs avail : List Nat),
    matchDFS r cs avail = true ↔ ∃ p, p.Perm avail ∧ Matched r cs p
  | [], avail => by
    unfold matchDFS
    constructor
    · intro h
      have : avail = [] := by simpa using h
      subst this
      exact ⟨[], List.Perm.refl _, Matched.nil⟩
    · rintro ⟨p, hp, hm⟩
      cases hm
      have : avail = [] := List.Perm.eq_nil (hp.symm)
      simp [this]
  | x :: xs, avail => by
    unfold matchDFS
    rw [List.any_eq_true]
    constructor
    · rintro ⟨y, hy, h⟩
      simp only [Bool.and_eq_true] at h
      obtain ⟨p', hp', hm'⟩ := (matchDFS_iff r xs (avail.erase y)).1 h.2
      exact ⟨y :: p', (List.Perm.cons y hp').trans (List.perm_cons_erase hy).symm, Matched.cons h.1 hm'⟩
    · rintro ⟨p, hp, hm⟩
      cases hm with
      | cons h t =>
        rename_i y ys
        have hy : y ∈ avail := hp.subset List.mem_cons_self
        refine ⟨y, hy, ?_⟩
        simp only [Bool.and_eq_true]
        refine ⟨h, (matchDFS_iff r xs (avail.erase y)).2 ⟨ys, ?_, t⟩⟩
        exact List.cons_perm_iff_perm_erase.1 hp |>.2

theorem matched_perm_right (r : Nat → Nat → Bool) {l2 l2' : List Nat} (hp : l2.Perm l2') :
    ∀ l1, Matched r l1 l2 → ∃ l1', l1'.Perm l1 ∧ Matched r l1' l2' := by
  induction hp with
  | nil => intro l1 h; exact ⟨l1, List.Perm.refl _, h⟩
  | cons a _ ih =>
    intro l1 h
    cases h with
    | cons hx t =>
      obtain ⟨s', hs', hm'⟩ := ih _ t
      exact ⟨_ :: s', List.Perm.cons _ hs', Matched.cons hx hm'⟩
  | swap a b t =>
    intro l1 h
    cases h with
    | cons hx t1 =>
      cases t1 with
      | cons hy t2 =>
        exact ⟨_, List.Perm.swap _ _ _, Matched.cons hy (Matched.cons hx t2)⟩
  | trans _ _ ih1 ih2 =>
    intro l1 h
    obtain ⟨m, hm1, hm2⟩ := ih1 l1 h
    obtain ⟨m', hm1', hm2'⟩ := ih2 m hm2
    exact ⟨m', hm1'.trans hm1, hm2'⟩

theorem matched_flip (r : Nat → Nat → Bool) : ∀ {l1 l2 : List Nat}, Matched r l1 l2 → Matched (fun a b => r b a) l2 l1
  | _, _, .nil => Matched.nil
  | _, _, .cons h t => Matched.cons h (matched_flip r t)

theorem matchDFS_symm_imp (r : Nat → Nat → Bool) (cs avail : List Nat) (h : matchDFS r cs avail = true) :
    matchDFS (fun a b => r b a) avail cs = true := by
  obtain ⟨p, hp, hm⟩ := (matchDFS_iff r cs avail).1 h
  obtain ⟨q, hq, hm'⟩ := matched_perm_right r hp cs hm
  exact (matchDFS_iff _ avail cs).2 ⟨q, hq, matched_flip r hm'⟩

theorem matchDFS_symm (r : Nat → Nat → Bool) (cs avail : List Nat) :
    matchDFS r cs avail = matchDFS (fun a b => r b a) avail cs := by
  cases h : matchDFS r cs avail with
  | true => exact (matchDFS_symm_imp r cs avail h).symm
  | false =>
    cases h2 : matchDFS (fun a b => r b a) avail cs with
    | false => rfl
    | true =>
      have := matchDFS_symm_imp (fun a b => r b a) avail cs h2
      exact (Bool.false_ne_true (h ▸ this)).elim
#print axioms matchDFS_symm

/-! ### relations as tables -/
def mkRel (n1 n2 : Nat) (f : Nat → Nat → Bool) : Rel :=
  (Array.range n1).map (fun a => (Array.range n2).map (fun b => f a b))

theorem get_mkRel (n1 n2 : Nat) (f : Nat → Nat → Bool) (a b : Nat) :
    (mkRel n1 n2 f).get a b = (decide (a < n1) && decide (b < n2) && f a b) := by
  unfold mkRel Rel.get
  simp only [Array.getD_eq_getD_getElem?, Array.getElem?_map, Array.getElem?_range]
  by_cases ha : a < n1
  · by_cases hb : b < n2
    · simp [ha, hb]
    · simp [ha, hb]
  · simp [ha]

theorem mkRel_congr (n1 n2 : Nat) (f g : Nat → Nat → Bool) (h : ∀ a b, a < n1 → b < n2 → f a b = g a b) :
    mkRel n1 n2 f = mkRel n1 n2 g := by
  unfold mkRel
  apply Array.ext
  · simp
  · intro i h1 h2
    simp only [Array.size_map, Array.size_range] at h1
    simp only [Array.getElem_map, Array.getElem_range]
    apply Array.ext
    · simp
    · intro j h3 h4
      simp only [Array.size_map, Array.size_range] at h3
      simp only [Array.getElem_map, Array.getElem_range]
      exact h i j h1 h3

theorem mkRel_inj (n1 n2 : Nat) (f g : Nat → Nat → Bool) (h : mkRel n1 n2 f = mkRel n1 n2 g) :
    ∀ a b, a < n1 → b < n2 → f a b = g a b := by
  intro a b ha hb
  have := congrArg (fun r => Rel.get r a b) h
  simp only [get_mkRel, ha, hb, decide_true, Bool.true_and] at this
  exact this

/-- the transposed table -/
def trRel (n1 n2 : Nat) (r : Rel) : Rel := mkRel n2 n1 (fun b a => r.get a b)

theorem refine_eq_mk (g1 g2 : Gram) (r : Rel) :
    refine g1 g2 r = mkRel g1.size g2.size (fun a b => r.get a b && localOk g1 g2 r a b) := rfl

theorem localOk_tr (g1 g2 : Gram) (f : Nat → Nat → Bool) (a b : Nat) :
    localOk g2 g1 (trRel g1.size g2.size (mkRel g1.size g2.size f)) b a = localOk g1 g2 (mkRel g1.size g2.size f) a b := by
  have hget : (fun x y => (trRel g1.size g2.size (mkRel g1.size g2.size f)).get x y) =
      (fun x y => (mkRel g1.size g2.size f).get y x) := by
    funext x y
    unfold trRel
    rw [get_mkRel, get_mkRel]
    by_cases hx : x < g2.size
    · by_cases hy : y < g1.size
      · simp [hx, hy]
      · simp [hx, hy]
    · simp [hx]
  unfold localOk
  simp only
  generalize g1.getD (resolve g1 g1.size a) (.atom 0) = ra
  generalize g2.getD (resolve g2 g2.size b) (.atom 0) = rb
  cases ra <;> cases rb <;> simp only [] <;> try rfl
  · rename_i s t; exact Bool.beq_comm
  · rename_i c1 c2
    rw [hget, ← matchDFS_symm (fun x y => (mkRel g1.size g2.size f).get x y) c1 c2]
    rw [Bool.beq_comm (a := c2.length)]
  · rename_i c1 c2
    rw [hget, ← matchDFS_symm (fun x y => (mkRel g1.size g2.size f).get x y) c1 c2]
    rw [Bool.beq_comm (a := c2.length)]

theorem refine_tr (g1 g2 : Gram) (f : Nat → Nat → Bool) :
    refine g2 g1 (trRel g1.size g2.size (mkRel g1.size g2.size f)) =
    trRel g1.size g2.size (refine g1 g2 (mkRel g1.size g2.size f)) := by
  rw [refine_eq_mk, refine_eq_mk]
  unfold trRel
  apply mkRel_congr
  intro b a hb ha
  rw [get_mkRel, get_mkRel, get_mkRel]
  have := localOk_tr g1 g2 f a b
  unfold trRel at this
  rw [this, get_mkRel]
  simp [ha, hb]

theorem beq_tr (n1 n2 : Nat) (f g : Nat → Nat → Bool) :
    (trRel n1 n2 (mkRel n1 n2 f) == trRel n1 n2 (mkRel n1 n2 g)) = (mkRel n1 n2 f == mkRel n1 n2 g) := by
  have key : trRel n1 n2 (mkRel n1 n2 f) = trRel n1 n2 (mkRel n1 n2 g) ↔ mkRel n1 n2 f = mkRel n1 n2 g := by
    constructor
    · intro h
      apply mkRel_congr
      intro a b ha hb
      have := mkRel_inj n2 n1 _ _ h b a hb ha
      simp only [get_mkRel, ha, hb, decide_true, Bool.true_and] at this
      exact this
    · intro h; rw [h]
  by_cases h : mkRel n1 n2 f = mkRel n1 n2 g
  · rw [beq_iff_eq.2 h, beq_iff_eq.2 (key.2 h)]
  · have h1 : (mkRel n1 n2 f == mkRel n1 n2 g) = false := by
      cases hb : (mkRel n1 n2 f == mkRel n1 n2 g) with
      | false => rfl
      | true => exact absurd (beq_iff_eq.1 hb) h
    have h2 : (trRel n1 n2 (mkRel n1 n2 f) == trRel n1 n2 (mkRel n1 n2 g)) = false := by
      cases hb : (trRel n1 n2 (mkRel n1 n2 f) == trRel n1 n2 (mkRel n1 n2 g)) with
      | false => rfl
      | true => exact absurd (key.1 (beq_iff_eq.1 hb)) h
    rw [h1, h2]

theorem isoIter_tr (g1 g2 : Gram) : ∀ (fuel : Nat) (f : Nat → Nat → Bool),
    isoIter g2 g1 fuel (trRel g1.size g2.size (mkRel g1.size g2.size f)) =
    trRel g1.size g2.size (isoIter g1 g2 fuel (mkRel g1.size g2.size f))
  | 0, _ => rfl
  | fuel + 1, f => by
    unfold isoIter
    simp only
    rw [refine_tr, refine_eq_mk g1 g2, beq_tr]
    split
    · rfl
    · exact isoIter_tr g1 g2 fuel _

/-- **C12 (reference relation): symmetry.** -/
theorem isoRef_symm (g1 g2 : Gram) : isoRef g2 g1 = isoRef g1 g2 := by
  unfold isoRef
  simp only
  have hfull : ((Array.range g2.size).map (fun _ => (Array.range g1.size).map (fun _ => true)) : Rel) =
      trRel g1.size g2.size (mkRel g1.size g2.size (fun _ _ => true)) := by
    unfold trRel
    show mkRel g2.size g1.size (fun _ _ => true) = _
    apply mkRel_congr
    intro b a hb ha
    rw [get_mkRel]; simp [ha, hb]
  have hfull1 : ((Array.range g1.size).map (fun _ => (Array.range g2.size).map (fun _ => true)) : Rel) =
      mkRel g1.size g2.size (fun _ _ => true) := rfl
  rw [hfull, hfull1, Nat.mul_comm g2.size g1.size, isoIter_tr]
  -- the entry (0,0) of a transposed table
  have hmk : ∀ (fuel : Nat) (f : Nat → Nat → Bool), ∃ h, isoIter g1 g2 fuel (mkRel g1.size g2.size f) = mkRel g1.size g2.size h := by
    intro fuel
    induction fuel with
    | zero => intro f; exact ⟨f, rfl⟩
    | succ k ih =>
      intro f
      unfold isoIter
      simp only
      split
      · exact ⟨f, rfl⟩
      · rw [refine_eq_mk]; exact ih _
  obtain ⟨h, hh⟩ := hmk (g1.size * g2.size + 1) (fun _ _ => true)
  rw [hh]
  unfold trRel
  rw [get_mkRel, get_mkRel]
  by_cases h1 : 0 < g1.size
  · by_cases h2 : 0 < g2.size
    · simp [h1, h2]
    · simp [h1, h2]
  · simp [h1]
#print axioms isoRef_symm
