import CSSVerif.SeriesEq
/-! The canonical form of a term list is canonical: two lists with pairwise distinct keys have the same `norm` exactly when
they have the same coefficient at every key. (This is what comparing printed, normalised term lists between the
implementation and the models means.) -/

theorem paramLe_refl : ∀ (a : Param), paramLe a a = true
  | [] => rfl
  | x :: xs => by simp [paramLe, paramLe_refl xs]

theorem paramLe_total : ∀ (a b : Param), paramLe a b = true ∨ paramLe b a = true
  | [], _ => Or.inl rfl
  | _ :: _, [] => Or.inr rfl
  | x :: xs, y :: ys => by
    simp only [paramLe, Bool.or_eq_true, decide_eq_true_eq, Bool.and_eq_true, beq_iff_eq]
    rcases Nat.lt_trichotomy x y with h | h | h
    · exact Or.inl (Or.inl h)
    · subst h
      rcases paramLe_total xs ys with h2 | h2
      · exact Or.inl (Or.inr ⟨rfl, h2⟩)
      · exact Or.inr (Or.inr ⟨rfl, h2⟩)
    · exact Or.inr (Or.inl h)

theorem paramLe_antisymm : ∀ (a b : Param), paramLe a b = true → paramLe b a = true → a = b
  | [], [], _, _ => rfl
  | [], _ :: _, _, h => by simp [paramLe] at h
  | _ :: _, [], h, _ => by simp [paramLe] at h
  | x :: xs, y :: ys, h1, h2 => by
    simp only [paramLe, Bool.or_eq_true, decide_eq_true_eq, Bool.and_eq_true, beq_iff_eq] at h1 h2
    rcases h1 with h1 | ⟨e1, h1⟩
    · rcases h2 with h2 | ⟨e2, _⟩
      · omega
      · omega
    · rcases h2 with h2 | ⟨_, h2⟩
      · omega
      · rw [e1, paramLe_antisymm xs ys h1 h2]

theorem paramLe_trans : ∀ (a b c : Param), paramLe a b = true → paramLe b c = true → paramLe a c = true
  | [], _, _, _, _ => rfl
  | _ :: _, [], _, h, _ => by simp [paramLe] at h
  | _ :: _, _ :: _, [], _, h => by simp [paramLe] at h
  | x :: xs, y :: ys, z :: zs, h1, h2 => by
    simp only [paramLe, Bool.or_eq_true, decide_eq_true_eq, Bool.and_eq_true, beq_iff_eq] at h1 h2 ⊢
    rcases h1 with h1 | ⟨e1, h1⟩
    · rcases h2 with h2 | ⟨e2, _⟩
      · exact Or.inl (by omega)
      · exact Or.inl (by omega)
    · rcases h2 with h2 | ⟨e2, h2⟩
      · exact Or.inl (by omega)
      · exact Or.inr ⟨by omega, paramLe_trans xs ys zs h1 h2⟩

/-- sorted by key -/
def SortedK : Terms → Prop
  | [] => True
  | e :: t => (∀ x ∈ t, paramLe e.1 x.1 = true) ∧ SortedK t

theorem insertT_sorted (e : Param × Int) : ∀ (t : Terms), SortedK t → SortedK (insertT e t)
  | [], _ => ⟨fun _ h => (nomatch h), trivial⟩
  | x :: xs, h => by
    unfold insertT
    split
    · rename_i hle
      refine ⟨?_, h⟩
      intro y hy
      rcases List.mem_cons.1 hy with rfl | hy
      · exact hle
      · exact paramLe_trans _ _ _ hle (h.1 y hy)
    · rename_i hle
      have hxe : paramLe x.1 e.1 = true := by
        rcases paramLe_total x.1 e.1 with h1 | h1
        · exact h1
        · exact absurd h1 hle
      refine ⟨?_, insertT_sorted e xs h.2⟩
      intro y hy
      rcases (mem_insertT e xs y).1 hy with rfl | hy
      · exact hxe
      · exact h.1 y hy

theorem foldr_insertT_sorted : ∀ (t : Terms), SortedK (t.foldr insertT [])
  | [] => trivial
  | e :: t => insertT_sorted e _ (foldr_insertT_sorted t)

theorem insertT_keys (e : Param × Int) : ∀ (t : Terms), KeysNodup t → e.1 ∉ t.map (·.1) → KeysNodup (insertT e t)
  | [], _, _ => by simp [insertT, KeysNodup]
  | x :: xs, h, hn => by
    unfold insertT
    split
    · unfold KeysNodup at h ⊢
      simp only [List.map_cons, List.nodup_cons] at h ⊢
      exact ⟨by simpa using hn, h⟩
    · unfold KeysNodup at h ⊢
      simp only [List.map_cons, List.nodup_cons, List.mem_cons, not_or] at h hn ⊢
      refine ⟨?_, insertT_keys e xs h.2 hn.2⟩
      intro hm
      obtain ⟨y, hy, hk⟩ := List.mem_map.1 hm
      rcases (mem_insertT e xs y).1 hy with rfl | hy
      · exact hn.1 hk
      · exact h.1 (List.mem_map.2 ⟨y, hy, hk⟩)

theorem foldr_insertT_keys : ∀ (t : Terms), KeysNodup t → KeysNodup (t.foldr insertT [])
  | [], _ => by simp [KeysNodup]
  | e :: t, h => by
    unfold KeysNodup at h
    simp only [List.map_cons, List.nodup_cons] at h
    refine insertT_keys e _ (foldr_insertT_keys t h.2) ?_
    intro hm
    obtain ⟨y, hy, hk⟩ := List.mem_map.1 hm
    exact h.1 (List.mem_map.2 ⟨y, (mem_foldr_insertT t y).1 hy, hk⟩)

theorem norm_keys (t : Terms) (h : KeysNodup t) : KeysNodup t.norm := by
  unfold Terms.norm
  apply foldr_insertT_keys
  unfold KeysNodup at h ⊢
  exact (List.filter_sublist.map _).nodup h

theorem norm_sorted (t : Terms) : SortedK t.norm := foldr_insertT_sorted _

/-- two sorted lists with distinct keys and the same entries are equal -/
theorem sorted_unique : ∀ (l1 l2 : Terms), SortedK l1 → SortedK l2 → KeysNodup l1 → KeysNodup l2 → (∀ x, x ∈ l1 ↔ x ∈ l2) → l1 = l2
  | [], [], _, _, _, _, _ => rfl
  | [], y :: _, _, _, _, _, h => nomatch (h y).2 (List.mem_cons_self ..)
  | x :: _, [], _, _, _, _, h => nomatch (h x).1 (List.mem_cons_self ..)
  | x :: l1, y :: l2, s1, s2, n1, n2, h => by
    unfold KeysNodup at n1 n2
    simp only [List.map_cons, List.nodup_cons] at n1 n2
    have hx2 : x ∈ y :: l2 := (h x).1 (List.mem_cons_self ..)
    have hy1 : y ∈ x :: l1 := (h y).2 (List.mem_cons_self ..)
    have hxy : x = y := by
      rcases List.mem_cons.1 hx2 with e | hx
      · exact e
      · rcases List.mem_cons.1 hy1 with e | hy
        · exact e.symm
        · have k1 := s1.1 y hy
          have k2 := s2.1 x hx
          have ek := paramLe_antisymm _ _ k1 k2
          exact absurd (List.mem_map.2 ⟨y, hy, ek.symm⟩) n1.1
    subst hxy
    congr 1
    apply sorted_unique l1 l2 s1.2 s2.2 n1.2 n2.2
    intro z
    constructor
    · intro hz
      rcases List.mem_cons.1 ((h z).1 (List.mem_cons_of_mem _ hz)) with e | hz2
      · subst e; exact absurd (List.mem_map.2 ⟨z, hz, rfl⟩) n1.1
      · exact hz2
    · intro hz
      rcases List.mem_cons.1 ((h z).2 (List.mem_cons_of_mem _ hz)) with e | hz1
      · subst e; exact absurd (List.mem_map.2 ⟨z, hz, rfl⟩) n2.1
      · exact hz1

theorem mem_of_coeff_ne_zero {t : Terms} {k : Param} (hn : KeysNodup t) (h : coeff t k ≠ 0) : (k, coeff t k) ∈ t := by
  by_cases hm : k ∈ t.map (·.1)
  · obtain ⟨e, he, rfl⟩ := List.mem_map.1 hm
    rw [coeff_of_mem hn (v := e.2) he]
    exact he
  · exact absurd (coeff_not_mem hm) h

/-- **the canonical form is canonical**: term lists with pairwise distinct keys and the same coefficient at every key have the
same `norm` (and conversely, `norm` keeps every coefficient) -/
theorem norm_canonical (a b : Terms) (ha : KeysNodup a) (hb : KeysNodup b) (h : ∀ k, coeff a k = coeff b k) : a.norm = b.norm := by
  apply sorted_unique _ _ (norm_sorted a) (norm_sorted b) (norm_keys a ha) (norm_keys b hb)
  have one : ∀ (a b : Terms), KeysNodup a → KeysNodup b → (∀ k, coeff a k = coeff b k) → ∀ x, x ∈ a.norm → x ∈ b.norm := by
    intro a b ha hb h x hx
    obtain ⟨h1, h2⟩ := (mem_norm a x).1 hx
    have hc : coeff a x.1 = x.2 := coeff_of_mem ha (v := x.2) h1
    have hcb : coeff b x.1 = x.2 := by rw [← h x.1, hc]
    have := mem_of_coeff_ne_zero hb (k := x.1) (by rw [hcb]; exact h2)
    rw [hcb] at this
    exact (mem_norm b x).2 ⟨this, h2⟩
  intro x
  exact ⟨one a b ha hb h x, one b a hb ha (fun k => (h k).symm) x⟩

theorem norm_coeff (t : Terms) (hn : KeysNodup t) (k : Param) : coeff t.norm k = coeff t k := by
  by_cases h : coeff t k = 0
  · rw [h]
    by_cases hm : k ∈ t.norm.map (·.1)
    · obtain ⟨e, he, rfl⟩ := List.mem_map.1 hm
      obtain ⟨h1, h2⟩ := (mem_norm t e).1 he
      exact absurd (by rw [← coeff_of_mem hn (v := e.2) h1]; exact h) h2
    · exact coeff_not_mem hm
  · have := mem_of_coeff_ne_zero hn h
    exact coeff_of_mem (norm_keys t hn) ((mem_norm t _).2 ⟨this, h⟩)

/-- both directions: equal canonical forms iff equal coefficients -/
theorem norm_eq_iff (a b : Terms) (ha : KeysNodup a) (hb : KeysNodup b) : a.norm = b.norm ↔ ∀ k, coeff a k = coeff b k :=
  ⟨fun h k => by rw [← norm_coeff a ha k, ← norm_coeff b hb k, h], norm_canonical a b ha hb⟩
#print axioms norm_eq_iff
