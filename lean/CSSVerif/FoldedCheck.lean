import CSSVerif.GroupPaths
/-! C02: a decidable, proven check that a grouped rule set `S` arises from the ungrouped one `R` by folding the chains through
the hidden classes `H` (the relation `Folded` of `group_preserves`). The Spec driver evaluates it for the rule sets of every
returned specification. -/

/-- follow the unary shift-0 rules from the hidden class `x` to the first class that is not hidden -/
def chainEnd (R : List Rule) (H : List Nat) : Nat → Nat → Option Nat
  | 0, _ => none
  | fuel + 1, x =>
    if !H.contains x then none else
    match (R.filter (fun r => r.parent == x)) with
    | [] => none
    | r0 :: rs =>
      match r0.deps with
      | [(y, s)] =>
        if s == 0 && rs.all (fun r => r.deps == [(y, 0)]) then
          if H.contains y then chainEnd R H fuel y else some y
        else none
      | _ => none

theorem chainEnd_sound (R : List Rule) (H : List Nat) : ∀ (fuel x e : Nat), chainEnd R H fuel x = some e →
    Chain R (fun c => c ∈ H) x e := by
  intro fuel
  induction fuel with
  | zero => intro x e h; simp [chainEnd] at h
  | succ fuel ih =>
    intro x e h
    unfold chainEnd at h
    split at h
    · cases h
    · rename_i hx
      have hxH : x ∈ H := by
        have : H.contains x = true := by simpa using hx
        exact List.contains_iff_mem.1 this
      split at h
      · cases h
      · rename_i r0 rs hf
        split at h
        · rename_i y s hd0
          split at h
          · rename_i hc
            simp only [Bool.and_eq_true, beq_iff_eq, List.all_eq_true] at hc
            obtain ⟨hs, hall⟩ := hc
            subst hs
            have hall' : ∀ r ∈ R, r.parent = x → r.deps = [(y, 0)] := by
              intro r hr hp
              have hm : r ∈ R.filter (fun r => r.parent == x) := List.mem_filter.2 ⟨hr, by simpa using hp⟩
              rw [hf] at hm
              rcases List.mem_cons.1 hm with e1 | e1
              · rw [e1]; exact hd0
              · simpa using hall r e1
            split at h
            · rename_i hy
              exact Chain.step x y e hxH hall' (List.contains_iff_mem.1 hy) (ih y e h)
            · rename_i hy
              injection h with h; subst h
              exact Chain.last x y hxH hall' (by intro hm; exact hy (List.contains_iff_mem.2 hm))
          · cases h
        · cases h

def foldedB (R S : List Rule) (H : List Nat) : Bool :=
  R.all (fun r => H.contains r.parent ||
    (S.contains r && r.deps.all (fun d => !H.contains d.1)) ||
    (match r.deps with
     | [(x, s)] => s == 0 &&
        (match chainEnd R H (R.length + 1) x with
         | some e => S.any (fun p => p.parent == r.parent && p.deps == [(e, 0)])
         | none => false)
     | _ => false))

theorem foldedB_sound (R S : List Rule) (H : List Nat) (h : foldedB R S H = true) : Folded R S (fun c => c ∈ H) := by
  intro r hr hnh
  unfold foldedB at h
  have := List.all_eq_true.1 h r hr
  simp only [Bool.or_eq_true, Bool.and_eq_true] at this
  rcases this with (e | e) | e
  · exact absurd (List.contains_iff_mem.1 e) hnh
  · left
    refine ⟨List.contains_iff_mem.1 e.1, ?_⟩
    intro d hd hm
    have := List.all_eq_true.1 e.2 d hd
    rw [List.contains_iff_mem.2 hm] at this
    cases this
  · right
    split at e
    · rename_i x s hdeps
      simp only [Bool.and_eq_true, beq_iff_eq] at e
      obtain ⟨hs, e⟩ := e
      subst hs
      split at e
      · rename_i e' hce
        obtain ⟨p, hp, hpp⟩ := List.any_eq_true.1 e
        simp only [Bool.and_eq_true, beq_iff_eq] at hpp
        exact ⟨x, e', hdeps, chainEnd_sound R H _ x e' hce, p, hp, hpp.1, hpp.2⟩
      · cases e
    · cases e

/-- grouping as checked by `foldedB` preserves productivity of every class that stays (`group_preserves`) -/
theorem foldedB_preserves (R S : List Rule) (H : List Nat) (h : foldedB R S H = true) (c : Nat) (hc : c ∉ H)
    (hprod : ∀ n, Comp R c n) : ∀ n, Comp S c n :=
  group_preserves (foldedB_sound R S H h) c hc hprod
#print axioms foldedB_sound
#print axioms foldedB_preserves
example : foldedB [⟨0, [1], [0]⟩, ⟨1, [2], [0]⟩, ⟨2, [3, 0], [0, 1]⟩, ⟨3, [], []⟩]
    [⟨0, [2], [0]⟩, ⟨2, [3, 0], [0, 1]⟩, ⟨3, [], []⟩] [1] = true := by decide
