import CSSVerif.ProductSpec
/-! C07 (model): object generation at one rule - `DisjointUnion.get_sub_objects` / `CartesianProduct.get_sub_objects` followed by
the loop of `Rule._ensure_level_objects` (`product(*subobjects)`, `objects[parameters].extend(backward_map(..))`). Objects of the
children are abstract identifiers; an object of the parent is identified with the tuple of sub-objects it is built from (the
strategy's `backward_map` is a bijection by contract: C07's round-trip clauses). -/

abbrev Obj := Nat
/-- the objects of a child, per size: the dictionary `parameters ↦ list of objects` in dictionary order -/
abbrev ObjTab := Nat → List (Param × List Obj)

/-- the objects a disjoint union emits for size `n`, in order: (parent parameters, index of the child, object of that child);
`none` = the assertion of `param_map` fails -/
def unionEmit (parent : List String) (cs : List Child) (objs : List ObjTab) (n : Nat) : Option (List (Param × Nat × Obj)) :=
  ((cs.zip objs).zipIdx).foldlM (fun (acc : List (Param × Nat × Obj)) (co : (Child × ObjTab) × Nat) =>
    (co.1.2 n).foldlM (fun (acc : List (Param × Nat × Obj)) (e : Param × List Obj) => do
      let k ← paramMapSame (childPosToParentPos parent co.1.1) parent.length e.1
      pure (acc ++ e.2.map (fun o => (k, co.2, o)))) acc) []

/-- the children's dictionaries at the sizes of one composition, keys in the parent's coordinates -/
def perChildObjs (parent : List String) (cs : List Child) (objs : List ObjTab) (sizes : List Nat) : List (List (Param × List Obj)) :=
  ((cs.zip objs).zip sizes).map (fun (cos : (Child × ObjTab) × Nat) =>
    (cos.1.2 cos.2).map (fun e => (paramMapSum (childPosToParentPos parent cos.1.1) parent.length e.1, e.2)))

/-- `_new_param`: the sum of the children's parameters in the parent's coordinates -/
def keySum (np : Nat) (ks : List Param) : Param := ks.foldl addParams (List.replicate np 0)

/-- the objects a Cartesian product emits for size `n`, in order: (parent parameters, tuple of sub-objects) -/
def productEmit (parent : List String) (cs : List Child) (objs : List ObjTab) (n : Nat) : List (Param × List Obj) :=
  (comps (n : Int) (cs.map (fun c => (c.minSize, c.maxSize)))).flatMap (fun sizes =>
    (cartesian (perChildObjs parent cs objs sizes)).flatMap (fun combo =>
      (cartesian (combo.map (·.2))).map (fun tup => (keySum parent.length (combo.map (·.1)), tup))))

/-- `objects[parameters].extend(..)` on a `defaultdict(list)`: group by key, keys in order of first appearance -/
def groupAdd {β : Type} (acc : List (Param × List β)) (k : Param) (v : β) : List (Param × List β) :=
  if acc.any (·.1 == k) then acc.map (fun e => if e.1 == k then (e.1, e.2 ++ [v]) else e) else acc ++ [(k, [v])]
def groupByKey {β : Type} (l : List (Param × β)) : List (Param × List β) := l.foldl (fun acc e => groupAdd acc e.1 e.2) []
