import CSSVerif.Walk
/-! C08: counting form of the threshold walk — exactly `ws[i]` of the draws `1..Σ ws` select block `i`; so a
uniform draw selects block `i` with probability `ws[i] / Σ ws`. -/

/-- the draws `r ∈ [1, t]` (as `r = k + 1`, `k < t`) that select block `i` -/
def hits (ws : List Nat) (i t : Nat) : Nat :=
  ((List.range t).filter (fun k => (walk ws (k + 1)).map (·.1) == some i)).length

theorem range_add (a b : Nat) : List.range (a + b) = List.range a ++ (List.range b).map (· + a) := by
  induction b with
  | zero => simp
  | succ b ih =>
    rw [← Nat.add_assoc, List.range_succ, ih, List.range_succ, List.map_append, List.append_assoc]
    simp [Nat.add_comm]

theorem filter_length_all {α : Type} (p : α → Bool) (l : List α) (h : ∀ x ∈ l, p x = true) : (l.filter p).length = l.length := by
  rw [List.filter_eq_self.2 h]

theorem filter_length_none {α : Type} (p : α → Bool) (l : List α) (h : ∀ x ∈ l, p x = false) : (l.filter p).length = 0 := by
  rw [List.filter_eq_nil_iff.2 (by intro x hx; rw [h x hx]; simp)]; rfl

theorem walk_count : ∀ (ws : List Nat) (i : Nat), hits ws i ws.sum = ws.getD i 0
  | [], i => by simp [hits]
  | w :: ws, i => by
    unfold hits
    rw [List.sum_cons, range_add, List.filter_append, List.length_append, List.filter_map, List.length_map]
    cases i with
    | zero =>
      -- the first w draws select block 0, none of the others does
      have h1 : ((List.range w).filter (fun k => (walk (w :: ws) (k + 1)).map (·.1) == some 0)).length = w := by
        rw [filter_length_all]; · simp
        intro k hk
        have : k + 1 ≤ w := by have := List.mem_range.1 hk; omega
        simp [walk, this]
      have h2 : ((List.range ws.sum).filter ((fun k => (walk (w :: ws) (k + 1)).map (·.1) == some 0) ∘ (· + w))).length = 0 := by
        apply filter_length_none
        intro k _
        have : ¬ (k + w + 1 ≤ w) := by omega
        simp only [Function.comp, walk, this, ↓reduceIte]
        cases walk ws (k + w + 1 - w) with
        | none => rfl
        | some p => simp
      rw [h1, h2]; simp
    | succ i =>
      have h1 : ((List.range w).filter (fun k => (walk (w :: ws) (k + 1)).map (·.1) == some (i + 1))).length = 0 := by
        apply filter_length_none
        intro k hk
        have : k + 1 ≤ w := by have := List.mem_range.1 hk; omega
        simp [walk, this]
      have h2 : ((List.range ws.sum).filter ((fun k => (walk (w :: ws) (k + 1)).map (·.1) == some (i + 1)) ∘ (· + w))).length = hits ws i ws.sum := by
        unfold hits
        congr 1
        apply List.filter_congr
        intro k _
        have hn : ¬ (k + w + 1 ≤ w) := by omega
        have he : k + w + 1 - w = k + 1 := by omega
        simp only [Function.comp, walk, hn, ↓reduceIte, he]
        cases walk ws (k + 1) with
        | none => rfl
        | some p => simp
      rw [h1, h2, walk_count ws i]; simp
#print axioms walk_count
example : hits [2, 0, 3, 1] 2 6 = 3 ∧ hits [2, 0, 3, 1] 1 6 = 0 := by decide
