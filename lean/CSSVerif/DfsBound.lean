import CSSVerif.ProofTree
import CSSVerif.BSearch
/-! C05: the depth-first generator with `maximum` yields exactly the trees of the unbounded generator whose size is at most
`maximum`, in the same order (sizes model). -/

mutual
  /-- `_dfs_tree(root, seen, maximum)` -/
  def dfsTreeB (R : List RuleK) : Nat → Nat → List Nat → Int → List (List Nat × Nat)
    | 0, _, _, _ => []
    | fuel+1, root, seen, M =>
      if M ≤ 0 then []
      else if seen.contains root then [(seen, 1)]
      else
        let seen' := root :: seen
        (rulesOf R root).flatMap (fun rule =>
          if rule.isEmpty then [(seen', 1)]
          else (dfsForestB R fuel rule seen' M).map (fun (s, n) => (s, n + 1)))
  /-- `_dfs_forest(root_labels, seen, maximum)` -/
  def dfsForestB (R : List RuleK) : Nat → List Nat → List Nat → Int → List (List Nat × Nat)
    | 0, _, _, _ => []
    | _+1, [], seen, M => if M ≤ 0 then [] else [(seen, 0)]
    | fuel+1, r :: rs, seen, M =>
      if M ≤ 0 then []
      else
        (dfsTreeB R fuel r seen (M - ((rs.length : Int) + 1) + 1)).flatMap (fun (s1, n1) =>
          ((dfsForestB R fuel rs s1 (M - (n1 : Int))).filter (fun (_, n2) => decide (((n1 + n2 : Nat) : Int) < M))).map
            (fun (s2, n2) => (s2, n1 + n2)))
end

theorem dfs_lower (R : List RuleK) : ∀ (fuel : Nat),
    (∀ root seen, ∀ p ∈ dfsTree R fuel root seen, 1 ≤ p.2) ∧
    (∀ rs seen, ∀ p ∈ dfsForest R fuel rs seen, rs.length ≤ p.2) := by
  intro fuel
  induction fuel with
  | zero => exact ⟨fun _ _ p hp => by simp [dfsTree] at hp, fun _ _ p hp => by simp [dfsForest] at hp⟩
  | succ fuel ih =>
    refine ⟨?_, ?_⟩
    · intro root seen p hp
      unfold dfsTree at hp
      split at hp
      · simp only [List.mem_singleton] at hp; rw [hp]; exact Nat.le_refl _
      · simp only [List.mem_flatMap] at hp
        obtain ⟨rule, _, hp⟩ := hp
        split at hp
        · simp only [List.mem_singleton] at hp; rw [hp]; exact Nat.le_refl _
        · obtain ⟨q, _, e⟩ := List.mem_map.1 hp
          rw [← e]; simp
    · intro rs seen p hp
      cases rs with
      | nil => simp [dfsForest] at hp; rw [hp]; simp
      | cons r rs =>
        unfold dfsForest at hp
        simp only [List.mem_flatMap] at hp
        obtain ⟨q1, h1, hp⟩ := hp
        obtain ⟨q2, h2, e⟩ := List.mem_map.1 hp
        have a := ih.1 r seen q1 h1
        have b := ih.2 rs q1.1 q2 h2
        rw [← e]; simp only [List.length_cons]; omega

theorem filter_flatMap' {α β : Type} (l : List α) (g : α → List β) (p : β → Bool) :
    (l.flatMap g).filter p = l.flatMap (fun x => (g x).filter p) := by
  induction l with
  | nil => rfl
  | cons x xs ih => simp [List.flatMap_cons, List.filter_append, ih]

theorem flatMap_filter_skip {α β : Type} (l : List α) (g : α → List β) (p : α → Bool)
    (h : ∀ x ∈ l, p x = false → g x = []) : (l.filter p).flatMap g = l.flatMap g := by
  induction l with
  | nil => rfl
  | cons x xs ih =>
    have ih' := ih (fun y hy => h y (List.mem_cons_of_mem _ hy))
    rw [List.filter_cons]
    cases hp : p x with
    | true => simp [List.flatMap_cons, ih']
    | false => simp [List.flatMap_cons, ih', h x List.mem_cons_self hp]

theorem flatMap_congr' {α β : Type} (l : List α) (g g' : α → List β) (h : ∀ x ∈ l, g x = g' x) :
    l.flatMap g = l.flatMap g' := by
  induction l with
  | nil => rfl
  | cons x xs ih =>
    rw [List.flatMap_cons, List.flatMap_cons, h x List.mem_cons_self, ih (fun y hy => h y (List.mem_cons_of_mem _ hy))]

/-- **C05 (bounded generator).** With the same fuel, the bounded generator is the unbounded one filtered by size. -/
theorem dfsB_eq_filter (R : List RuleK) : ∀ (fuel : Nat),
    (∀ root seen (M : Int), dfsTreeB R fuel root seen M = (dfsTree R fuel root seen).filter (fun p => decide ((p.2 : Int) ≤ M))) ∧
    (∀ rs seen (M : Int), dfsForestB R fuel rs seen M = (dfsForest R fuel rs seen).filter (fun p => decide ((p.2 : Int) < M))) := by
  intro fuel
  induction fuel with
  | zero => exact ⟨fun _ _ _ => by simp [dfsTreeB, dfsTree], fun _ _ _ => by simp [dfsForestB, dfsForest]⟩
  | succ fuel ih =>
    refine ⟨?_, ?_⟩
    · intro root seen M
      unfold dfsTreeB dfsTree
      by_cases hM : M ≤ 0
      · simp only [hM, ↓reduceIte]
        symm
        apply List.filter_eq_nil_iff.2
        intro p hp
        have := (dfs_lower R (fuel + 1)).1 root seen p (by unfold dfsTree; exact hp)
        simp only [decide_eq_true_eq]; omega
      · simp only [hM, ↓reduceIte]
        split
        · have : (1 : Int) ≤ M := by omega
          simp [this]
        · rw [filter_flatMap']
          apply flatMap_congr'
          intro rule _
          split
          · have : (1 : Int) ≤ M := by omega
            simp [this]
          · rw [ih.2, List.filter_map]
            congr 1
    · intro rs seen M
      cases rs with
      | nil =>
        unfold dfsForestB dfsForest
        by_cases hM : M ≤ 0
        · have : ¬ ((0 : Int) < M) := by omega
          simp [hM, this]
        · have : (0 : Int) < M := by omega
          simp [hM, this]
      | cons r rs =>
        unfold dfsForestB dfsForest
        by_cases hM : M ≤ 0
        · simp only [hM, ↓reduceIte]
          symm
          apply List.filter_eq_nil_iff.2
          intro p _
          simp only [decide_eq_true_eq]; omega
        · simp only [hM, ↓reduceIte]
          rw [ih.1, filter_flatMap']
          rw [flatMap_filter_skip]
          · apply flatMap_congr'
            intro q1 _
            rw [ih.2, List.filter_filter, List.filter_map]
            congr 1
            apply List.filter_congr
            intro q2 _
            simp only [Function.comp]
            cases h : decide (((q1.2 + q2.2 : Nat) : Int) < M) <;> simp_all <;> omega
          · intro q1 h1 hq
            have hq' : ¬ ((q1.2 : Int) ≤ M - ((rs.length : Int) + 1) + 1) := by simpa using hq
            rw [List.map_eq_nil_iff]
            apply List.filter_eq_nil_iff.2
            intro q2 h2
            rw [ih.2] at h2
            have h2' := (List.mem_filter.1 h2).1
            have b := (dfs_lower R fuel).2 rs q1.1 q2 h2'
            simp only [decide_eq_true_eq]
            omega
#print axioms dfsB_eq_filter

/-- what `next(proof_tree_generator_dfs(..., maximum=m))` finds: the size of the first tree, `none` = StopIteration -/
def findB (R : List RuleK) (fuel root : Nat) (m : Nat) : Option Nat :=
  ((dfsTreeB R fuel root [] (m : Int)).head?).map (·.2)

/-- `s` is the size of a proof tree the unbounded generator produces -/
def IsSize (R : List RuleK) (fuel root : Nat) (s : Nat) : Prop := ∃ p ∈ dfsTree R fuel root [], p.2 = s

theorem findB_sound (R : List RuleK) (fuel root m s : Nat) (h : findB R fuel root m = some s) :
    s ≤ m ∧ IsSize R fuel root s := by
  unfold findB at h
  rw [(dfsB_eq_filter R fuel).1] at h
  obtain ⟨p, hp, e⟩ := Option.map_eq_some_iff.1 h
  have hm := List.mem_of_mem_head? hp
  obtain ⟨h1, h2⟩ := List.mem_filter.1 hm
  simp only [decide_eq_true_eq] at h2
  exact ⟨by rw [← e]; omega, p, h1, e⟩

theorem findB_complete (R : List RuleK) (fuel root m : Nat) (h : findB R fuel root m = none) :
    ∀ s, s ≤ m → ¬ IsSize R fuel root s := by
  unfold findB at h
  rw [(dfsB_eq_filter R fuel).1] at h
  intro s hs ⟨p, hp, e⟩
  have hnil : (dfsTree R fuel root []).filter (fun p => decide ((p.2 : Int) ≤ (m : Int))) = [] := by
    cases hh : (dfsTree R fuel root []).filter (fun p => decide ((p.2 : Int) ≤ (m : Int))) with
    | nil => rfl
    | cons x xs => rw [hh] at h; simp at h
  have := List.filter_eq_nil_iff.1 hnil p hp
  simp only [decide_eq_true_eq] at this
  omega

/-- **C05 ('smallest').** The binary search of `_get_smallest_node`, run with the bounded depth-first generator from the size
`hi` of any proof tree, ends at the minimum size among all proof trees the unbounded generator produces. -/
theorem smallest_is_min (R : List RuleK) (fuel root hi : Nat) (hA : IsSize R fuel root hi) :
    IsSize R fuel root (bsearch (findB R fuel root) hi 1 hi) ∧
    ∀ s, s < bsearch (findB R fuel root) hi 1 hi → ¬ IsSize R fuel root s := by
  have lower : ∀ s, IsSize R fuel root s → 1 ≤ s := by
    intro s ⟨p, hp, e⟩
    have := (dfs_lower R fuel).1 root [] p hp
    omega
  apply bsearch_min (findB R fuel root) (IsSize R fuel root) (findB_sound R fuel root) (findB_complete R fuel root)
    hi 1 hi (by omega) (lower hi hA) hA
  intro s hs hs'
  have := lower s hs'
  omega
#print axioms smallest_is_min
example : (dfsTreeB [(0,[1,2]),(0,[1]),(1,[]),(2,[0])] 64 0 [] 2).map (·.2) = [2] ∧
    (dfsTree [(0,[1,2]),(0,[1]),(1,[]),(2,[0])] 64 0 []).map (·.2) = [4, 2] ∧
    bsearch (findB [(0,[1,2]),(0,[1]),(1,[]),(2,[0])] 64 0) 4 1 4 = 2 := by decide
