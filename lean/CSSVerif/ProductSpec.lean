import CSSVerif.Product
import CSSVerif.TermsAlg
/-! C09 (model): `productTerms` is the merge of one contribution per (composition of n, choice of one term per child):
key = sum of the children's keys mapped to the parent's coordinates, value = product of the values. -/

def comboKey (np : Nat) (combo : List (Param × Int)) : Param := combo.foldl (fun k e => addParams k e.1) (List.replicate np 0)
def comboVal (combo : List (Param × Int)) : Int := combo.foldl (fun v e => v * e.2) 1

def perChild (parent : List String) (cs : List Child) (sizes : List Nat) : List (List (Param × Int)) :=
  (cs.zip sizes).map (fun (cs : Child × Nat) =>
    (cs.1.terms cs.2).map (fun e => (paramMapSum (childPosToParentPos parent cs.1) parent.length e.1, e.2)))

/-- all contributions to the parent's terms of size `n` -/
def prodContribs (parent : List String) (cs : List Child) (n : Nat) : List (Param × Int) :=
  (comps (n : Int) (cs.map (fun c => (c.minSize, c.maxSize)))).flatMap (fun sizes =>
    (cartesian (perChild parent cs sizes)).map (fun combo => (comboKey parent.length combo, comboVal combo)))

theorem foldl_addAt_spec : ∀ (es : List (Param × Int)) (acc : Terms), KeysNodup acc →
    KeysNodup (es.foldl (fun (a : Terms) e => a.addAt e.1 e.2) acc) ∧
    ∀ k, coeff (es.foldl (fun (a : Terms) e => a.addAt e.1 e.2) acc) k = coeff acc k + coeff es k
  | [], acc, h => ⟨h, fun k => by simp [coeff_nil]⟩
  | e :: es, acc, h => by
    obtain ⟨h1, h2⟩ := addAt_spec acc e.1 e.2 h
    obtain ⟨h3, h4⟩ := foldl_addAt_spec es (acc.addAt e.1 e.2) h1
    refine ⟨h3, fun k => ?_⟩
    rw [List.foldl_cons, h4 k, h2 k, coeff_cons]
    by_cases hk : e.1 = k
    · simp [hk]; omega
    · have : (e.1 == k) = false := by simpa using hk
      simp [hk, this]

theorem productTerms_eq_fold (parent : List String) (cs : List Child) (n : Nat) :
    productTerms parent cs n = (prodContribs parent cs n).foldl (fun (a : Terms) e => a.addAt e.1 e.2) [] := by
  unfold productTerms prodContribs
  simp only
  rw [List.foldl_flatMap]
  congr 1
  funext acc sizes
  rw [List.foldl_map]
  rfl

/-- **C09 (model): the product's terms are the convolution of the children's terms.** -/
theorem productTerms_conv (parent : List String) (cs : List Child) (n : Nat) :
    KeysNodup (productTerms parent cs n) ∧
    ∀ k, coeff (productTerms parent cs n) k = coeff (prodContribs parent cs n) k := by
  rw [productTerms_eq_fold]
  obtain ⟨h1, h2⟩ := foldl_addAt_spec (prodContribs parent cs n) [] (by simp [KeysNodup])
  exact ⟨h1, fun k => by rw [h2 k, coeff_nil]; simp⟩
#print axioms productTerms_conv

/-! ### count level: the number of objects convolves -/
def total (t : List (Param × Int)) : Int := (t.map (·.2)).sum

theorem total_mapAdd (k : Param) (v : Int) : ∀ (t : Terms), KeysNodup t → k ∈ t.map (·.1) →
    total (t.map (fun e => if e.1 == k then (e.1, e.2 + v) else e)) = total t + v
  | [], _, hm => by simp at hm
  | e :: es, hn, hm => by
    unfold KeysNodup at hn
    simp only [List.map_cons, List.nodup_cons] at hn
    unfold total
    simp only [List.map_cons, List.sum_cons]
    by_cases he : e.1 = k
    · have hb : (e.1 == k) = true := by simpa using he
      have hnot : ∀ x ∈ es, (x.1 == k) = false := by
        intro x hx
        have : x.1 ≠ k := by
          intro hxk
          exact hn.1 (by rw [he, ← hxk]; exact List.mem_map.2 ⟨x, hx, rfl⟩)
        simpa using this
      have hsame : es.map (fun e => if e.1 == k then (e.1, e.2 + v) else e) = es := by
        conv => rhs; rw [← List.map_id es]
        apply List.map_congr_left
        intro x hx; simp [hnot x hx]
      rw [hsame]
      simp only [hb, ↓reduceIte]
      omega
    · have hb : (e.1 == k) = false := by simpa using he
      have hm' : k ∈ es.map (·.1) := by
        simp only [List.map_cons, List.mem_cons] at hm
        rcases hm with h | h
        · exact absurd h.symm he
        · exact h
      have ih := total_mapAdd k v es hn.2 hm'
      unfold total at ih
      simp only [hb, Bool.false_eq_true, ↓reduceIte]
      omega

theorem total_addAt (t : Terms) (k : Param) (v : Int) (h : KeysNodup t) : total (t.addAt k v) = total t + v := by
  unfold Terms.addAt
  split
  · rename_i hany
    have hmem : k ∈ t.map (·.1) := by
      obtain ⟨e, he, hek⟩ := List.any_eq_true.1 hany
      exact List.mem_map.2 ⟨e, he, by simpa using hek⟩
    exact total_mapAdd k v t h hmem
  · unfold total; simp

theorem total_foldl_addAt : ∀ (es : List (Param × Int)) (acc : Terms), KeysNodup acc →
    total (es.foldl (fun (a : Terms) e => a.addAt e.1 e.2) acc) = total acc + total es
  | [], acc, _ => by simp [total]
  | e :: es, acc, h => by
    rw [List.foldl_cons, total_foldl_addAt es _ (addAt_spec acc e.1 e.2 h).1, total_addAt acc e.1 e.2 h]
    unfold total; simp only [List.map_cons, List.sum_cons]; omega

theorem comboVal_cons (e : Param × Int) (es : List (Param × Int)) : comboVal (e :: es) = e.2 * comboVal es := by
  unfold comboVal
  simp only [List.foldl_cons, Int.one_mul]
  have : ∀ (l : List (Param × Int)) (a : Int), l.foldl (fun v e => v * e.2) a = a * l.foldl (fun v e => v * e.2) 1 := by
    intro l
    induction l with
    | nil => intro a; simp
    | cons x xs ih => intro a; simp only [List.foldl_cons, Int.one_mul]; rw [ih (a * x.2), ih x.2, Int.mul_assoc]
  exact this es e.2

/-- Σ over all choices of the product of the chosen values = product over the children of their totals -/
theorem cartesian_total : ∀ (L : List (List (Param × Int))),
    ((cartesian L).map comboVal).sum = (L.map total).foldr (· * ·) 1
  | [] => by simp [cartesian, comboVal]
  | l :: ls => by
    have ih := cartesian_total ls
    unfold cartesian
    simp only [List.map_cons, List.foldr_cons]
    rw [← ih]
    induction l with
    | nil => simp [total]
    | cons x xs ihx =>
      simp only [List.flatMap_cons, List.map_append, List.sum_append, List.map_map]
      rw [ihx]
      have : (List.map (comboVal ∘ fun x_1 => x :: x_1) (cartesian ls)).sum = x.2 * ((cartesian ls).map comboVal).sum := by
        generalize cartesian ls = C
        induction C with
        | nil => simp
        | cons c cs ihc =>
          simp only [List.map_cons, List.sum_cons, Function.comp, comboVal_cons] at ihc ⊢
          rw [ihc, Int.mul_add]
      rw [this]
      unfold total
      simp only [List.map_cons, List.sum_cons]
      rw [Int.add_mul]

/-- **C09 (model, count level): P_n = Σ over the bounded compositions of n of Π_i C_i(k_i).** -/
theorem productTerms_total (parent : List String) (cs : List Child) (n : Nat) :
    total (productTerms parent cs n) =
    ((comps (n : Int) (cs.map (fun c => (c.minSize, c.maxSize)))).map (fun sizes =>
      (((cs.zip sizes).map (fun (cz : Child × Nat) => total (cz.1.terms cz.2)))).foldr (· * ·) 1)).sum := by
  rw [productTerms_eq_fold, total_foldl_addAt _ [] (by simp [KeysNodup])]
  unfold prodContribs
  generalize comps (n : Int) (cs.map (fun c => (c.minSize, c.maxSize))) = C
  have htot : ∀ (l : List (Param × Int)) (f : Param → Param), total (l.map (fun e => (f e.1, e.2))) = total l := by
    intro l f; unfold total; rw [List.map_map]; rfl
  induction C with
  | nil => simp [total]
  | cons sizes C ih =>
    simp only [List.flatMap_cons, List.map_cons, List.sum_cons]
    have happ : ∀ (a b : List (Param × Int)), total (a ++ b) = total a + total b := by
      intro a b; unfold total; simp
    have e0 : total ([] : Terms) = 0 := rfl
    rw [e0, Int.zero_add] at ih ⊢
    rw [happ, ih]
    congr 1
    have : total ((cartesian (perChild parent cs sizes)).map (fun combo => (comboKey parent.length combo, comboVal combo))) =
        ((cartesian (perChild parent cs sizes)).map comboVal).sum := by
      unfold total; rw [List.map_map]; rfl
    rw [this, cartesian_total]
    congr 1
    unfold perChild
    rw [List.map_map]
    apply List.map_congr_left
    intro cz _
    exact htot _ _
#print axioms productTerms_total
