import CSSVerif.TableMethod
/-! C03 (model): the table method never takes a term back — over any insertion, the value the model holds for a class only
grows (a finite value increases or becomes infinite; infinite stays infinite). -/

/-- order on values: `none` = ∞ is the top -/
def vle : Option Nat → Option Nat → Prop
  | _, none => True
  | some x, some y => x ≤ y
  | none, some _ => False

theorem vle_refl (a : Option Nat) : vle a a := by cases a <;> simp [vle]
theorem vle_trans {a b c : Option Nat} (h1 : vle a b) (h2 : vle b c) : vle a c := by
  cases a <;> cases b <;> cases c <;> simp [vle] at * <;> omega

def TMle (s t : TM) : Prop := ∀ c, vle (s.val c) (t.val c)
theorem TMle.refl (t : TM) : TMle t t := fun c => vle_refl _
theorem TMle.trans {a b c : TM} (h1 : TMle a b) (h2 : TMle b c) : TMle a c := fun x => vle_trans (h1 x) (h2 x)
theorem TMle.of_value_eq {s t : TM} (h : t.value = s.value) : TMle s t := by
  intro c; unfold TM.val; rw [h]; exact vle_refl _

theorem foldl_value {α : Type} (f : TM → α → TM) (hf : ∀ t x, (f t x).value = t.value) :
    ∀ (l : List α) (t : TM), (l.foldl f t).value = t.value
  | [], _ => rfl
  | x :: xs, t => by rw [List.foldl_cons, foldl_value f hf xs, hf]

namespace TM
theorem materialise_val (t : TM) (c c' : Nat) : (t.materialise c).val c' = t.val c' := by
  unfold materialise val
  split
  · rfl
  · simp only [Array.getD_eq_getD_getElem?, Array.getElem?_append]
    split
    · rfl
    · rename_i h1 h2
      have : t.value[c']? = none := Array.getElem?_eq_none (by omega)
      rw [this]
      simp only [Array.getElem?_replicate, Option.getD_none]
      split <;> rfl

theorem correctGap_value (t : TM) : t.correctGap.value = t.value := by
  unfold correctGap
  simp only
  split <;> rfl

theorem val_set (t : TM) (c : Nat) (v : Option Nat) (c' : Nat) :
    ({ t with value := t.value.setIfInBounds c v } : TM).val c' = if c = c' ∧ c < t.value.size then v else t.val c' := by
  unfold val
  simp only [Array.getD_eq_getD_getElem?, Array.getElem?_setIfInBounds]
  by_cases h : c = c'
  · subst h
    by_cases h2 : c < t.value.size
    · simp [h2]
    · simp [h2]
  · simp [h]

theorem increaseValue_le (t : TM) (c idx : Nat) : TMle t (t.increaseValue c idx) := by
  unfold increaseValue
  cases hv : t.val c with
  | none => exact TMle.refl t
  | some cur =>
    simp only
    split
    · exact TMle.of_value_eq rfl
    · -- the value of c goes from cur to cur + 1; everything after that leaves `value` alone
      have hval : ∀ (t0 : TM), ((t0.usingC.getD c []).foldl (fun (t : TM) (rc : Nat × Nat) =>
            let sh0 := t.shifts.getD rc.1 #[]
            let sh := sh0.setIfInBounds rc.2 ((sh0.getD rc.2 none).map (· + 1))
            let t := { t with shifts := t.shifts.setIfInBounds rc.1 sh }
            if canGive sh then { t with queue := t.queue ++ [rc.1] } else t) t0).value = t0.value := by
        intro t0
        apply foldl_value
        intro t x; simp only; split <;> rfl
      have hval2 : ∀ (t0 : TM), ((t0.pumpingC.getD c []).foldl (fun (t : TM) r =>
            let sh := (t.shifts.getD r #[]).map (fun x => x.map (· - 1))
            let t := { t with shifts := t.shifts.setIfInBounds r sh }
            if canGive sh then { t with queue := t.queue ++ [r] } else t) t0).value = t0.value := by
        intro t0
        apply foldl_value
        intro t x; simp only; split <;> rfl
      intro c'
      unfold val
      rw [hval, hval2]
      have hcg : ∀ (b : Bool) (t0 : TM), (if b = true then t0.correctGap else t0).value = t0.value := by
        intro b t0; split
        · exact correctGap_value t0
        · rfl
      rw [hcg]
      have := val_set t c (some (cur + 1)) c'
      unfold val at this
      simp only at this ⊢
      rw [this]
      split
      · rename_i h
        obtain ⟨h1, _⟩ := h
        subst h1
        unfold val at hv
        rw [hv]
        simp [vle]
      · exact vle_refl _

theorem setInfinite_le (t : TM) (c : Nat) : TMle t (t.setInfinite c) := by
  unfold setInfinite
  cases hv : t.val c with
  | none => exact TMle.refl t
  | some cur =>
    simp only
    intro c'
    have h3 : ∀ (t0 : TM), ((t0.usingC.getD c []).foldl (fun (t : TM) (rc : Nat × Nat) =>
          let sh := (t.shifts.getD rc.1 #[]).setIfInBounds rc.2 none
          let t := { t with shifts := t.shifts.setIfInBounds rc.1 sh }
          if canGive sh then { t with queue := t.queue ++ [rc.1] } else t) t0).value = t0.value := by
      intro t0
      apply foldl_value
      intro t x; simp only; split <;> rfl
    have h1 : ∀ (t0 : TM), ((t0.pumpingC.getD c []).foldl (fun (t : TM) ridx =>
          ((t.rules.getD ridx ⟨0, [], []⟩).children).foldl (fun (t : TM) ch =>
            { t with usingC := t.usingC.setIfInBounds ch ((t.usingC.getD ch []).filter (·.1 != ridx)) }) t) t0).value = t0.value := by
      intro t0
      apply foldl_value
      intro t x
      apply foldl_value
      intro t y; rfl
    unfold val
    simp only
    rw [h3]
    simp only
    rw [h1]
    have := val_set t c none c'
    unfold val at this
    simp only at this
    rw [this]
    split
    · simp [vle]
    · exact vle_refl _

theorem processQueue_le : ∀ (fuel : Nat) (t : TM), TMle t (processQueue fuel t)
  | 0, t => TMle.refl t
  | fuel + 1, t => by
    unfold processQueue
    split
    · rename_i idx q hq
      simp only
      refine TMle.trans ?_ (processQueue_le fuel _)
      split
      · refine TMle.trans (TMle.of_value_eq (s := t) (t := { t with queue := q }) rfl) (increaseValue_le _ _ _)
      · exact TMle.of_value_eq rfl
    · split
      · exact TMle.refl t
      · rename_i idx h hh
        refine TMle.trans ?_ (processQueue_le fuel _)
        exact TMle.trans (TMle.of_value_eq (s := t) (t := { t with holding := h }) rfl) (setInfinite_le _ _)
end TM

namespace TM
theorem foldl_materialise_val : ∀ (l : List Nat) (t : TM) (c : Nat), (l.foldl materialise t).val c = t.val c
  | [], _, _ => rfl
  | x :: xs, t, c => by rw [List.foldl_cons, foldl_materialise_val xs, materialise_val]

/-- **C03 (model): inserting a rule never lowers the value of any class.** -/
theorem addRuleKey_le (t : TM) (r : Rule) (fuel : Nat) : TMle t (t.addRuleKey r fuel) := by
  unfold addRuleKey
  simp only
  refine TMle.trans ?_ (processQueue_le fuel _)
  intro c
  have hm := foldl_materialise_val (r.parent :: r.children) t c
  have key : ∀ (t4 t1 : TM), t4.value = t1.value → t1.val c = t.val c → vle (t.val c) (t4.val c) := by
    intro t4 t1 h1 h2
    have : t4.val c = t1.val c := by unfold val; rw [h1]
    rw [this, h2]; exact vle_refl _
  apply key _ ((r.parent :: r.children).foldl materialise t) _ hm
  -- everything between the materialisation and the queue processing leaves `value` alone
  have hcg : ∀ (p : Prop) [Decidable p] (t0 t0' : TM), t0'.value = t0.value → (if p then t0'.correctGap else t0).value = t0.value := by
    intro p _ t0 t0' h; split
    · rw [correctGap_value, h]
    · rfl
  split
  · rw [hcg]; rfl
  · rename_i pv hpv
    dsimp only
    rw [foldl_value _ (by intro t x; split <;> rfl)]
    rw [hcg]; rfl
#print axioms addRuleKey_le

/-- over any history of insertions -/
theorem addRules_le (rs : List Rule) (fuel : Nat) (t : TM) : TMle t (rs.foldl (fun t r => t.addRuleKey r fuel) t) := by
  induction rs generalizing t with
  | nil => exact TMle.refl t
  | cons r rs ih => exact TMle.trans (addRuleKey_le t r fuel) (ih _)
end TM
