import CSSVerif.Terms
/-! C09: algebra of `Terms` — coefficient semantics of `addAt`, and the law
"complement ∘ union = the flipped child". The constructors are re-expressed through one primitive,
`addMapped`, and shown equal to the definitions used by the drivers. -/

def coeff (t : Terms) (k : Param) : Int := ((t.filter (fun e => e.1 == k)).map (·.2)).sum

def KeysNodup (t : Terms) : Prop := (t.map (·.1)).Nodup

theorem coeff_nil (k : Param) : coeff [] k = 0 := rfl

theorem coeff_not_mem {t : Terms} {k : Param} (h : k ∉ t.map (·.1)) : coeff t k = 0 := by
  unfold coeff
  have : t.filter (fun e => e.1 == k) = [] := by
    apply List.filter_eq_nil_iff.2
    intro e he hk
    exact h (List.mem_map.2 ⟨e, he, by simpa using hk⟩)
  rw [this]; rfl

theorem coeff_append (a b : Terms) (k : Param) : coeff (a ++ b) k = coeff a k + coeff b k := by
  unfold coeff; simp [List.filter_append, List.sum_append]

theorem coeff_cons (e : Param × Int) (es : Terms) (k : Param) :
    coeff (e :: es) k = (if e.1 = k then e.2 else 0) + coeff es k := by
  unfold coeff
  by_cases h : e.1 = k
  · have : (e.1 == k) = true := by simpa using h
    simp [List.filter_cons, this, h]
  · have : (e.1 == k) = false := by simpa using h
    simp [List.filter_cons, this, h]

theorem coeff_mapAdd (k : Param) (v : Int) : ∀ (t : Terms), KeysNodup t → ∀ k',
    coeff (t.map (fun e => if e.1 == k then (e.1, e.2 + v) else e)) k' =
      coeff t k' + (if k = k' ∧ k ∈ t.map (·.1) then v else 0)
  | [], _, k' => by simp [coeff]
  | e :: es, h, k' => by
    unfold KeysNodup at h
    simp only [List.map_cons, List.nodup_cons] at h
    have ih := coeff_mapAdd k v es h.2 k'
    simp only [List.map_cons]
    rw [coeff_cons, coeff_cons, ih]
    by_cases hek : e.1 = k
    · have hb : (e.1 == k) = true := by simpa using hek
      simp only [hb, ↓reduceIte]
      have hnot : k ∉ es.map (·.1) := by rw [← hek]; exact h.1
      by_cases hkk : k = k'
      · subst hkk
        simp [hek, hnot]; omega
      · have : e.1 ≠ k' := by rw [hek]; exact hkk
        simp [this, hkk]
    · have hb : (e.1 == k) = false := by simpa using hek
      simp only [hb, Bool.false_eq_true, ↓reduceIte, List.mem_cons]
      have : (k = e.1) = False := by
        apply propext; constructor
        · intro e2; exact hek e2.symm
        · intro f; exact f.elim
      simp only [this, false_or]
      omega

theorem addAt_spec (t : Terms) (k : Param) (v : Int) (h : KeysNodup t) :
    KeysNodup (t.addAt k v) ∧ ∀ k', coeff (t.addAt k v) k' = coeff t k' + (if k = k' then v else 0) := by
  unfold Terms.addAt
  split
  · rename_i hany
    -- the key is present exactly once: its entry gets `v` added
    have keys_same : (t.map (fun e => if e.1 == k then (e.1, e.2 + v) else e)).map (·.1) = t.map (·.1) := by
      simp only [List.map_map]
      apply List.map_congr_left
      intro e _; simp only [Function.comp]; split <;> rfl
    refine ⟨by unfold KeysNodup; rw [keys_same]; exact h, ?_⟩
    intro k'
    rw [coeff_mapAdd k v t h k']
    have hmem : k ∈ t.map (·.1) := by
      obtain ⟨e, he, hek⟩ := List.any_eq_true.1 hany
      exact List.mem_map.2 ⟨e, he, by simpa using hek⟩
    simp [hmem]
  · rename_i hno
    have hk : k ∉ t.map (·.1) := by
      intro hm
      obtain ⟨e, he, hek⟩ := List.mem_map.1 hm
      exact hno (List.any_eq_true.2 ⟨e, he, by simp [hek]⟩)
    refine ⟨?_, ?_⟩
    · unfold KeysNodup
      simp only [List.map_append, List.map_cons, List.map_nil]
      refine List.nodup_append.2 ⟨h, by simp, ?_⟩
      intro a ha b hb e
      simp only [List.mem_singleton] at hb
      subst hb; subst e; exact hk ha
    · intro k'
      rw [coeff_append]
      congr 1
      unfold coeff
      by_cases e : k = k'
      · subst e; simp
      · have : ((k, v).1 == k') = false := by simpa using e
        simp [List.filter_cons, this, e]

/-- add every entry of `es`, re-keyed through `f`, with sign `sg`; fails when `f` fails (an
assertion of the Python code) or — if `nonneg` — when a coefficient would become negative -/
def addMapped (f : Param → Option Param) (sg : Int) (nonneg : Bool) : Terms → List (Param × Int) → Option Terms
  | acc, [] => some acc
  | acc, e :: es =>
    match f e.1 with
    | none => none
    | some k =>
      let acc' := acc.addAt k (sg * e.2)
      if nonneg && decide (coeff acc' k < 0) then none else addMapped f sg nonneg acc' es

/-- the weighted count of entries landing on `k` -/
def landing (f : Param → Option Param) (es : List (Param × Int)) (k : Param) : Int :=
  ((es.filter (fun e => f e.1 == some k)).map (·.2)).sum

theorem landing_cons (f : Param → Option Param) (e : Param × Int) (es : List (Param × Int)) (k : Param) :
    landing f (e :: es) k = (if f e.1 = some k then e.2 else 0) + landing f es k := by
  unfold landing
  by_cases h : f e.1 = some k
  · have : (f e.1 == some k) = true := by simpa using h
    simp [List.filter_cons, this, h]
  · have : (f e.1 == some k) = false := by simpa using h
    simp [List.filter_cons, this, h]

theorem addMapped_spec (f : Param → Option Param) (sg : Int) (nonneg : Bool) :
    ∀ (es : List (Param × Int)) (acc out : Terms), KeysNodup acc → addMapped f sg nonneg acc es = some out →
      KeysNodup out ∧ ∀ k, coeff out k = coeff acc k + sg * landing f es k
  | [], acc, out, h, he => by
    simp only [addMapped, Option.some.injEq] at he
    subst he
    exact ⟨h, fun k => by simp [landing]⟩
  | e :: es, acc, out, h, he => by
    simp only [addMapped] at he
    split at he
    · cases he
    · rename_i k hk
      split at he
      · cases he
      · obtain ⟨h1, h2⟩ := addAt_spec acc k (sg * e.2) h
        obtain ⟨r1, r2⟩ := addMapped_spec f sg nonneg es _ out h1 he
        refine ⟨r1, ?_⟩
        intro k'
        rw [r2 k', h2 k', landing_cons, hk]
        by_cases e1 : k = k'
        · subst e1; simp [Int.mul_add]; omega
        · have : ¬ (some k = some k') := by intro e2; injection e2 with e3; exact e1 e3
          simp [e1, this]
#print axioms addMapped_spec

/-- `T` represents the formal sum of contributions `M`: same coefficient at every key, and every
contributing key is present in `T` -/
structure Rep (T : Terms) (M : List (Param × Int)) : Prop where
  nd : KeysNodup T
  co : ∀ k, coeff T k = landing some M k
  cov : ∀ m ∈ M, m.1 ∈ T.map (·.1)

theorem landing_append (f : Param → Option Param) (a b : List (Param × Int)) (k : Param) :
    landing f (a ++ b) k = landing f a k + landing f b k := by
  unfold landing; simp [List.filter_append, List.sum_append]

theorem landing_split (f : Param → Option Param) (M : List (Param × Int)) (p : Param) (k : Param) :
    landing f M k = landing f (M.filter (fun m => m.1 == p)) k + landing f (M.filter (fun m => !(m.1 == p))) k := by
  induction M with
  | nil => simp [landing]
  | cons m M ih =>
    rw [landing_cons]
    by_cases h : m.1 = p
    · have hb : (m.1 == p) = true := by simpa using h
      simp only [List.filter_cons, hb, ↓reduceIte, Bool.not_true, Bool.false_eq_true]
      rw [landing_cons, ih]; omega
    · have hb : (m.1 == p) = false := by simpa using h
      simp only [List.filter_cons, hb, Bool.false_eq_true, ↓reduceIte, Bool.not_false]
      rw [landing_cons, ih]; omega

/-- all contributions in `M` have key `p`: re-keying through `g` sends them all to `g p` -/
theorem landing_same_key (g : Param → Option Param) (p k : Param) : ∀ (M : List (Param × Int)),
    (∀ m ∈ M, m.1 = p) → landing g M k = if g p = some k then landing some M p else 0
  | [], _ => by simp [landing]
  | m :: M, h => by
    rw [landing_cons, landing_cons, landing_same_key g p k M (fun x hx => h x (List.mem_cons_of_mem _ hx))]
    have hm : m.1 = p := h m List.mem_cons_self
    rw [hm]
    by_cases hg : g p = some k
    · simp [hg]
    · simp [hg]

/-- re-keying the represented value equals re-keying the contributions -/
theorem landing_rep (g : Param → Option Param) (k : Param) : ∀ (T : Terms) (M : List (Param × Int)),
    Rep T M → landing g T k = landing g M k
  | [], M, h => by
    have : M = [] := by
      cases M with
      | nil => rfl
      | cons m M => have := h.cov m List.mem_cons_self; simp at this
    subst this; rfl
  | (p, c) :: T', M, h => by
    have hnd := h.nd
    unfold KeysNodup at hnd
    simp only [List.map_cons, List.nodup_cons] at hnd
    -- contributions with key p and the others
    have hrep' : Rep T' (M.filter (fun m => !(m.1 == p))) := by
      refine ⟨hnd.2, ?_, ?_⟩
      · intro k'
        by_cases hk : k' = p
        · subst hk
          rw [coeff_not_mem hnd.1]
          unfold landing
          have : ((M.filter (fun m => !(m.1 == k'))).filter (fun e => some e.1 == some k')) = [] := by
            apply List.filter_eq_nil_iff.2
            intro e he hk2
            have h1 := (List.mem_filter.1 he).2
            simp only [beq_iff_eq, Option.some.injEq] at hk2
            simp [hk2] at h1
          rw [this]; rfl
        · have h1 := h.co k'
          rw [coeff_cons] at h1
          have hpk : ¬ (p = k') := fun e => hk e.symm
          simp only [hpk, ↓reduceIte, Int.zero_add] at h1
          rw [h1, landing_split some M p k']
          have : landing some (M.filter (fun m => m.1 == p)) k' = 0 := by
            unfold landing
            have : ((M.filter (fun m => m.1 == p)).filter (fun e => some e.1 == some k')) = [] := by
              apply List.filter_eq_nil_iff.2
              intro e he hk2
              have h2 := (List.mem_filter.1 he).2
              simp only [beq_iff_eq, Option.some.injEq] at hk2 h2
              exact hpk (h2 ▸ hk2)
            rw [this]; rfl
          omega
      · intro m hm
        have hmM := (List.mem_filter.1 hm).1
        have hne := (List.mem_filter.1 hm).2
        have := h.cov m hmM
        simp only [List.map_cons, List.mem_cons] at this
        rcases this with e | e
        · simp [e] at hne
        · exact e
    rw [landing_cons, landing_rep g k T' _ hrep', landing_split g M p k]
    have hsame := landing_same_key g p k (M.filter (fun m => m.1 == p))
      (fun m hm => by simpa using (List.mem_filter.1 hm).2)
    rw [hsame]
    -- c is the coefficient at p
    have hc := h.co p
    rw [coeff_cons, coeff_not_mem hnd.1] at hc
    simp only [↓reduceIte, Int.add_zero] at hc
    have hp2 : landing some M p = landing some (M.filter (fun m => m.1 == p)) p := by
      rw [landing_split some M p p]
      have : landing some (M.filter (fun m => !(m.1 == p))) p = 0 := by
        unfold landing
        have : ((M.filter (fun m => !(m.1 == p))).filter (fun e => some e.1 == some p)) = [] := by
          apply List.filter_eq_nil_iff.2
          intro e he hk2
          have h1 := (List.mem_filter.1 he).2
          simp only [beq_iff_eq, Option.some.injEq] at hk2
          simp [hk2] at h1
        rw [this]; rfl
      omega
    by_cases hg : g p = some k
    · simp only [hg, ↓reduceIte]; omega
    · simp only [hg, ↓reduceIte]
#print axioms landing_rep

def contribs (f : Param → Option Param) (sg : Int) (es : List (Param × Int)) : List (Param × Int) :=
  es.filterMap (fun e => (f e.1).map (fun k => (k, sg * e.2)))

theorem landing_contribs (f : Param → Option Param) (sg : Int) (g : Param → Option Param) (k : Param) :
    ∀ es, landing g (contribs f sg es) k = sg * landing (fun p => (f p).bind g) es k
  | [] => by simp [contribs, landing]
  | e :: es => by
    have ih := landing_contribs f sg g k es
    unfold contribs at ih ⊢
    rw [List.filterMap_cons]
    cases hf : f e.1 with
    | none =>
      simp only [Option.map_none]
      rw [ih, landing_cons]
      simp [hf]
    | some p =>
      simp only [Option.map_some]
      rw [landing_cons, ih, landing_cons]
      simp only [hf, Option.bind_some]
      by_cases hg : g p = some k
      · simp [hg, Int.mul_add]
      · simp [hg, Int.mul_add]

theorem addAt_keys (t : Terms) (k : Param) (v : Int) :
    k ∈ (t.addAt k v).map (·.1) ∧ ∀ x, x ∈ t.map (·.1) → x ∈ (t.addAt k v).map (·.1) := by
  unfold Terms.addAt
  split
  · rename_i hany
    have keys_same : (t.map (fun e => if e.1 == k then (e.1, e.2 + v) else e)).map (·.1) = t.map (·.1) := by
      simp only [List.map_map]
      apply List.map_congr_left
      intro e _; simp only [Function.comp]; split <;> rfl
    rw [keys_same]
    refine ⟨?_, fun x hx => hx⟩
    obtain ⟨e, he, hek⟩ := List.any_eq_true.1 hany
    exact List.mem_map.2 ⟨e, he, by simpa using hek⟩
  · simp only [List.map_append, List.map_cons, List.map_nil, List.mem_append, List.mem_singleton]
    exact ⟨Or.inr trivial, fun x hx => Or.inl hx⟩

theorem addMapped_rep (f : Param → Option Param) (sg : Int) :
    ∀ (es : List (Param × Int)) (acc out : Terms) (M : List (Param × Int)), Rep acc M →
      addMapped f sg false acc es = some out → Rep out (M ++ contribs f sg es)
  | [], acc, out, M, h, he => by
    simp only [addMapped, Option.some.injEq] at he
    subst he
    simpa [contribs] using h
  | e :: es, acc, out, M, h, he => by
    simp only [addMapped] at he
    split at he
    · cases he
    · rename_i k hk
      simp only [Bool.false_and, Bool.false_eq_true, ↓reduceIte] at he
      obtain ⟨h1, h2⟩ := addAt_spec acc k (sg * e.2) h.nd
      obtain ⟨k1, k2⟩ := addAt_keys acc k (sg * e.2)
      have hrep : Rep (acc.addAt k (sg * e.2)) (M ++ [(k, sg * e.2)]) := by
        refine ⟨h1, ?_, ?_⟩
        · intro k'
          rw [h2 k', h.co k', landing_append]
          congr 1
          unfold landing
          by_cases e1 : k = k'
          · subst e1; simp
          · have : (some k == some k') = false := by simpa using e1
            simp [List.filter_cons, this, e1]
        · intro m hm
          rcases List.mem_append.1 hm with e1 | e1
          · exact k2 _ (h.cov m e1)
          · simp only [List.mem_singleton] at e1; subst e1; exact k1
      have := addMapped_rep f sg es _ out _ hrep he
      have e2 : contribs f sg (e :: es) = (k, sg * e.2) :: contribs f sg es := by
        unfold contribs; rw [List.filterMap_cons, hk]; rfl
      rw [e2]
      simpa [List.append_assoc] using this
#print axioms addMapped_rep

abbrev PMap := Param → Option Param

/-- union of the children `cs` (re-keying map, terms) added onto `acc` -/
def unionList : Terms → List (PMap × Terms) → Option Terms
  | acc, [] => some acc
  | acc, (f, t) :: cs => (addMapped f 1 false acc t).bind (fun acc' => unionList acc' cs)

def allContribs : List (PMap × Terms) → List (Param × Int)
  | [] => []
  | (f, t) :: cs => contribs f 1 t ++ allContribs cs

theorem unionList_rep : ∀ (cs : List (PMap × Terms)) (acc out : Terms) (M : List (Param × Int)),
    Rep acc M → unionList acc cs = some out → Rep out (M ++ allContribs cs)
  | [], acc, out, M, h, he => by
    simp only [unionList, Option.some.injEq] at he; subst he; simpa [allContribs] using h
  | (f, t) :: cs, acc, out, M, h, he => by
    simp only [unionList] at he
    cases h1 : addMapped f 1 false acc t with
    | none => rw [h1] at he; cases he
    | some acc' =>
      rw [h1] at he
      simp only [Option.bind_some] at he
      have := unionList_rep cs acc' out _ (addMapped_rep f 1 t acc acc' M h h1) he
      simpa [allContribs, List.append_assoc] using this

/-- subtract the siblings, each re-keyed into the flipped child's coordinates -/
def subList (toChild : PMap) : Terms → List (PMap × Terms) → Option Terms
  | acc, [] => some acc
  | acc, (f, t) :: cs => (addMapped (fun p => (f p).bind toChild) (-1) true acc t).bind (fun acc' => subList toChild acc' cs)

def sibLanding (toChild : PMap) (k : Param) : List (PMap × Terms) → Int
  | [] => 0
  | (f, t) :: cs => landing (fun p => (f p).bind toChild) t k + sibLanding toChild k cs

theorem subList_spec (toChild : PMap) : ∀ (cs : List (PMap × Terms)) (acc out : Terms), KeysNodup acc →
    subList toChild acc cs = some out → KeysNodup out ∧ ∀ k, coeff out k = coeff acc k - sibLanding toChild k cs
  | [], acc, out, h, he => by
    simp only [subList, Option.some.injEq] at he; subst he
    exact ⟨h, fun k => by simp [sibLanding]⟩
  | (f, t) :: cs, acc, out, h, he => by
    simp only [subList] at he
    cases h1 : addMapped (fun p => (f p).bind toChild) (-1) true acc t with
    | none => rw [h1] at he; cases he
    | some acc' =>
      rw [h1] at he
      simp only [Option.bind_some] at he
      obtain ⟨a1, a2⟩ := addMapped_spec _ (-1) true t acc acc' h h1
      obtain ⟨b1, b2⟩ := subList_spec toChild cs acc' out a1 he
      refine ⟨b1, fun k => ?_⟩
      rw [b2 k, a2 k]
      simp only [sibLanding]
      omega

theorem landing_allContribs (g : PMap) (k : Param) : ∀ cs, landing g (allContribs cs) k = sibLanding g k cs
  | [] => by simp [allContribs, sibLanding, landing]
  | (f, t) :: cs => by
    simp only [allContribs, sibLanding]
    rw [landing_append, landing_contribs, landing_allContribs g k cs]
    omega

theorem landing_filter_nz (g : PMap) (k : Param) : ∀ (T : Terms),
    landing g (T.filter (fun e => e.2 != 0)) k = landing g T k
  | [] => rfl
  | e :: T => by
    rw [landing_cons]
    by_cases hz : e.2 = 0
    · have : (e.2 != 0) = false := by simp [hz]
      rw [List.filter_cons, this]
      simp only [Bool.false_eq_true, ↓reduceIte]
      rw [landing_filter_nz g k T]
      simp [hz]
    · have : (e.2 != 0) = true := by simp [hz]
      rw [List.filter_cons, this]
      simp only [↓reduceIte]
      rw [landing_cons, landing_filter_nz g k T]

/-- **C09, complement ∘ union.** Let `U` be the union (`DisjointUnion.get_terms`) of the flipped child
`(f0, t0)` and its siblings `sibs`, and let `R` be what `Complement.get_terms` computes from `U` and the
siblings' terms (parent terms re-keyed by `toChild`, siblings subtracted in the child's coordinates).
If neither computation hits an assertion, then at every key `R` holds the flipped child's terms
re-keyed through parent coordinates and back; when that round trip is the identity on the child's own
keys (`hround`), `R` *is* the child's terms. -/
theorem complement_union (toChild : PMap) (f0 : PMap) (t0 : Terms) (sibs : List (PMap × Terms))
    (U R0 R : Terms)
    (hU : unionList [] ((f0, t0) :: sibs) = some U)
    (hR0 : addMapped toChild 1 false [] (U.filter (fun e => e.2 != 0)) = some R0)
    (hR : subList toChild R0 sibs = some R) :
    (∀ k, coeff R k = landing (fun p => (f0 p).bind toChild) t0 k) ∧
    ((∀ e ∈ t0, (f0 e.1).bind toChild = some e.1) → ∀ k, coeff R k = landing some t0 k) := by
  have hrepU := unionList_rep ((f0, t0) :: sibs) [] U [] ⟨List.nodup_nil, fun k => rfl, fun m hm => by cases hm⟩ hU
  simp only [List.nil_append] at hrepU
  obtain ⟨c1, c2⟩ := addMapped_spec toChild 1 false _ [] R0 List.nodup_nil hR0
  obtain ⟨d1, d2⟩ := subList_spec toChild sibs R0 R c1 hR
  have key : ∀ k, coeff R k = landing (fun p => (f0 p).bind toChild) t0 k := by
    intro k
    rw [d2 k, c2 k, coeff_nil, landing_filter_nz, landing_rep toChild k U _ hrepU]
    simp only [allContribs]
    rw [landing_append, landing_contribs, landing_allContribs]
    omega
  refine ⟨key, ?_⟩
  intro hround k
  rw [key k]
  unfold landing
  congr 2
  apply List.filter_congr
  intro e he
  show ((f0 e.1).bind toChild == some k) = (some e.1 == some k)
  rw [hround e he]
#print axioms complement_union
