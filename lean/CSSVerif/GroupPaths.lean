import CSSVerif.Forest
/-! C02 (model): folding chains of unary shift-0 (equivalence) rules into path rules keeps every class that is not
hidden computable at every size at which it was (`_group_equiv_in_path`). `H` = the hidden classes (interior of the
chains); `S` = the rule set after folding: rules of non-hidden classes that do not touch a hidden class are kept, a
rule whose only child is the hidden head of a chain is replaced by the path rule to the chain's end. -/

/-- `Chain R H x e`: from the hidden class `x`, following the unary shift-0 rules (the only rules hidden classes have),
the first class that is not hidden is `e` -/
inductive Chain (R : List Rule) (H : Nat → Prop) : Nat → Nat → Prop
  | last (x y : Nat) (hx : H x) (hall : ∀ r ∈ R, r.parent = x → r.deps = [(y, 0)]) (hy : ¬ H y) : Chain R H x y
  | step (x y e : Nat) (hx : H x) (hall : ∀ r ∈ R, r.parent = x → r.deps = [(y, 0)]) (hy : H y) (hc : Chain R H y e) :
      Chain R H x e

/-- how `S` arises from `R` -/
def Folded (R S : List Rule) (H : Nat → Prop) : Prop :=
  ∀ r ∈ R, ¬ H r.parent →
    (r ∈ S ∧ ∀ d ∈ r.deps, ¬ H d.1) ∨
    (∃ x e, r.deps = [(x, 0)] ∧ Chain R H x e ∧ ∃ p ∈ S, p.parent = r.parent ∧ p.deps = [(e, 0)])

theorem fold_paths_comp {R S : List Rule} {H : Nat → Prop} (hf : Folded R S H) {c n : Nat} (h : Comp R c n) :
    (¬ H c → Comp S c n) ∧ (∀ e, Chain R H c e → ∀ m, m ≤ n → Comp S e m) := by
  induction h with
  | mk r n hr _ ih =>
    constructor
    · intro hc
      rcases hf r hr hc with ⟨hS, hd⟩ | ⟨x, e, hdeps, hch, p, hp, hpar, hpd⟩
      · exact Comp.mk r n hS (fun d hdm m hm => (ih d hdm m hm).1 (hd d hdm))
      · rw [← hpar]
        refine Comp.mk p n hp ?_
        intro d hd m hm
        rw [hpd] at hd
        simp only [List.mem_singleton] at hd
        subst hd
        have hx : (x, (0 : Int)) ∈ r.deps := by rw [hdeps]; simp
        have hm' : m ≤ n := by simp only at hm; omega
        exact (ih (x, 0) hx n (by simp)).2 e hch m hm'
    · intro e hch m hm
      cases hch with
      | last x y hx hall hy =>
        have hd := hall r hr rfl
        have hmem : (e, (0 : Int)) ∈ r.deps := by rw [hd]; simp
        exact (ih (e, 0) hmem m (by simp only; omega)).1 hy
      | step x y e' hx hall hy hc =>
        have hd := hall r hr rfl
        have hmem : (y, (0 : Int)) ∈ r.deps := by rw [hd]; simp
        exact (ih (y, 0) hmem m (by simp only; omega)).2 e hc m (Nat.le_refl _)

/-- **C02 (model): grouping equivalence chains into path rules preserves productivity** of every class that stays. -/
theorem group_preserves {R S : List Rule} {H : Nat → Prop} (hf : Folded R S H) (c : Nat) (hc : ¬ H c)
    (hprod : ∀ n, Comp R c n) : ∀ n, Comp S c n :=
  fun n => (fold_paths_comp hf (hprod n)).1 hc
#print axioms group_preserves

/-- non-vacuity: `0 → [1]`, `1 → [2]`, `2 → [3, 0]` (shift 1 on 0), `3` a leaf; hidden = {1}; after folding `0 → [2]`. -/
example : Folded
    [⟨0, [1], [0]⟩, ⟨1, [2], [0]⟩, ⟨2, [3, 0], [0, 1]⟩, ⟨3, [], []⟩]
    [⟨0, [2], [0]⟩, ⟨2, [3, 0], [0, 1]⟩, ⟨3, [], []⟩] (fun c => c = 1) := by
  intro r hr hnh
  simp only [List.mem_cons, List.not_mem_nil, or_false] at hr
  rcases hr with rfl | rfl | rfl | rfl
  · right
    refine ⟨1, 2, rfl, ?_, ⟨0, [2], [0]⟩, by simp, rfl, rfl⟩
    refine Chain.last 1 2 rfl ?_ (by decide)
    intro r hr hp
    simp only [List.mem_cons, List.not_mem_nil, or_false] at hr
    rcases hr with rfl | rfl | rfl | rfl <;> first | rfl | (simp at hp)
  · exact absurd rfl hnh
  · left; refine ⟨by simp, ?_⟩
    intro d hd
    simp [Rule.deps] at hd
    rcases hd with rfl | rfl <;> decide
  · left; exact ⟨by simp, by intro d hd; simp [Rule.deps] at hd⟩
