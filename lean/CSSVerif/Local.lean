import CSSVerif.SpecEval
import CSSVerif.Shifts
/-! C10 as theorems about the model: what a rule's functional `ruleSemO r a n` reads from the valuation `a`.
Union / complement: the children (and, for the complement, the original parent) at size `n` only.
Product: child `i` only at sizes `m` with `m + (Σ min − min_i) ≤ n`. -/

theorem foldlM_ext {α β : Type} (f g : β → α → Option β) : ∀ (l : List α) (init : β),
    (∀ acc x, x ∈ l → f acc x = g acc x) → l.foldlM f init = l.foldlM g init
  | [], _, _ => rfl
  | x :: xs, init, h => by
    simp only [List.foldlM_cons]
    rw [h init x List.mem_cons_self]
    cases g init x with
    | none => rfl
    | some v => exact foldlM_ext f g xs v (fun acc y hy => h acc y (List.mem_cons_of_mem _ hy))

theorem foldl_ext {α β : Type} (f g : β → α → β) : ∀ (l : List α) (init : β),
    (∀ acc x, x ∈ l → f acc x = g acc x) → l.foldl f init = l.foldl g init
  | [], _, _ => rfl
  | x :: xs, init, h => by
    simp only [List.foldl_cons]
    rw [h init x List.mem_cons_self]
    exact foldl_ext f g xs _ (fun acc y hy => h acc y (List.mem_cons_of_mem _ hy))

/-- `childPosToParentPos` ignores the provider -/
theorem cpp_terms (parent : List String) (c : Child) (t : Nat → Terms) :
    childPosToParentPos parent { c with terms := t } = childPosToParentPos parent c := rfl

/-- **union_local**: the union's terms at size `n` depend on the children's terms at size `n` only -/
theorem union_local (r : SRule) (a b : Nat → Nat → Terms) (n : Nat)
    (h : ∀ c ∈ r.sub, a c n = b c n) :
    unionTerms r.parentNames (attach a r) n = unionTerms r.parentNames (attach b r) n := by
  unfold unionTerms attach
  rw [List.foldlM_map, List.foldlM_map]
  apply foldlM_ext
  intro acc cc hcc
  have hsub : cc.2 ∈ r.sub := (List.of_mem_zip hcc).2
  simp only [cpp_terms]
  rw [h cc.2 hsub]

/-- the product's terms at size `n`: child `i` is read only at the parts of the bounded compositions of `n` -/
theorem product_congr (parent : List String) (cds : List (Child × Nat)) (a b : Nat → Nat → Terms) (n : Nat)
    (h : ∀ sizes ∈ comps (n : Int) (cds.map (fun cc => (cc.1.minSize, cc.1.maxSize))),
         ∀ p ∈ cds.zip sizes, a p.1.2 p.2 = b p.1.2 p.2) :
    productTerms parent (cds.map (fun (cc : Child × Nat) => { cc.1 with terms := a cc.2 })) n =
    productTerms parent (cds.map (fun (cc : Child × Nat) => { cc.1 with terms := b cc.2 })) n := by
  unfold productTerms
  simp only [List.map_map]
  have hb : (List.map ((fun (c : Child) => (c.minSize, c.maxSize)) ∘ fun (cc : Child × Nat) => { cc.1 with terms := a cc.2 }) cds) =
            cds.map (fun cc => (cc.1.minSize, cc.1.maxSize)) := by
    apply List.map_congr_left; intro x _; rfl
  have hb' : (List.map ((fun (c : Child) => (c.minSize, c.maxSize)) ∘ fun (cc : Child × Nat) => { cc.1 with terms := b cc.2 }) cds) =
            cds.map (fun cc => (cc.1.minSize, cc.1.maxSize)) := by
    apply List.map_congr_left; intro x _; rfl
  rw [hb, hb']
  apply foldl_ext
  intro acc sizes hs
  congr 2
  -- the per-child lists of (mapped parameter, value) agree
  rw [List.zip_map_left, List.zip_map_left, List.map_map, List.map_map]
  apply List.map_congr_left
  intro p hp
  simp only [Function.comp, Prod.map, id]
  rw [h sizes hs p hp]
  rfl

/-- **product_local (model)**: with `shift_i = Σ min − min_i`, child `i` is read only at sizes `m` with
`m + shift_i ≤ n` — the read bound the forest analysis is told (`product_local` for the compositions) -/
theorem product_local_model (r : SRule) (a b : Nat → Nat → Terms) (n : Nat)
    (h : ∀ (i : Nat) (cc : Child × Nat), (r.children.zip r.sub)[i]? = some cc → ∀ m : Nat,
         m + (sumMin ((r.children.zip r.sub).map (fun cc => (cc.1.minSize, cc.1.maxSize))) - cc.1.minSize) ≤ n →
         a cc.2 m = b cc.2 m) :
    productTerms r.parentNames (attach a r) n = productTerms r.parentNames (attach b r) n := by
  unfold attach
  apply product_congr
  intro sizes hs p hp
  -- p = (cds[i], sizes[i])
  obtain ⟨i, hi1, hi2⟩ := List.mem_iff_getElem.1 hp
  have hlen : i < (r.children.zip r.sub).length := by
    have := hi1; simp only [List.length_zip] at this ⊢; omega
  have hil : i < sizes.length := by
    have := hi1; simp only [List.length_zip] at this; omega
  have hp1 : p.1 = (r.children.zip r.sub)[i] := by rw [← hi2]; simp
  have hp2 : p.2 = sizes[i] := by rw [← hi2]; simp
  have hloc := product_local _ n sizes hs i hil
  have hget : ((r.children.zip r.sub).map (fun cc => (cc.1.minSize, cc.1.maxSize))).getD i (0, none) = (p.1.1.minSize, p.1.1.maxSize) := by
    rw [List.getD_eq_getElem?_getD, List.getElem?_map, List.getElem?_eq_getElem hlen, hp1]; rfl
  rw [hget] at hloc
  have hs2 : sizes.getD i 0 = p.2 := by
    rw [List.getD_eq_getElem?_getD, List.getElem?_eq_getElem hil, hp2]; rfl
  rw [hs2] at hloc
  exact h i p.1 (by rw [List.getElem?_eq_getElem hlen, hp1]) p.2 (by simpa using hloc)
#print axioms union_local
#print axioms product_local_model

/-! ### complement -/

theorem zipIdx_zipIdx_idx {α : Type} (l : List α) (x : (α × Nat) × Nat) (hx : x ∈ l.zipIdx.zipIdx) : x.1.2 = x.2 := by
  obtain ⟨i, hi, e⟩ := List.mem_iff_getElem.1 hx
  simp only [List.getElem_zipIdx, Nat.zero_add] at e
  rw [← e]

theorem attachRev_getD_data (a : Nat → Nat → Terms) (r : SRule) (j : Nat) :
    ((attachRev a r).getD j ⟨[], [], 0, none, fun _ => []⟩).names = (r.children.getD j ⟨[], [], 0, none, fun _ => []⟩).names ∧
    ((attachRev a r).getD j ⟨[], [], 0, none, fun _ => []⟩).emap = (r.children.getD j ⟨[], [], 0, none, fun _ => []⟩).emap := by
  unfold attachRev
  simp only [List.getD_eq_getElem?_getD, List.getElem?_map, List.getElem?_zipIdx]
  cases h : r.children[j]? with
  | none => simp
  | some c => simp

/-- **complement_local**: the complement's terms at size `n` depend only on the original parent's terms at `n` and on
the terms at `n` of the children other than the flipped one -/
theorem complement_local (r : SRule) (a b : Nat → Nat → Terms) (n : Nat)
    (hp : a (r.sub.headD 0) n = b (r.sub.headD 0) n)
    (h : ∀ j, j < r.children.length → j ≠ r.idx → a (revClass r j) n = b (revClass r j) n) :
    complementTerms r.parentNames (attachRev a r) r.idx (a (r.sub.headD 0)) n =
    complementTerms r.parentNames (attachRev b r) r.idx (b (r.sub.headD 0)) n := by
  unfold complementTerms
  have hda := attachRev_getD_data a r r.idx
  have hdb := attachRev_getD_data b r r.idx
  simp only [hda.1, hda.2, hdb.1, hdb.2, hp]
  -- the siblings: same base list, providers agreeing at n
  have hoth : ∀ (c : Nat → Nat → Terms),
      (List.map (·.1) (List.filter (fun x => x.2 != r.idx) (attachRev c r).zipIdx)) =
      (List.filter (fun (x : (Child × Nat) × Nat) => x.2 != r.idx) r.children.zipIdx.zipIdx).map
        (fun x => ({ x.1.1 with terms := c (revClass r x.1.2) } : Child)) := by
    intro c
    unfold attachRev
    rw [List.zipIdx_map, List.filter_map, List.map_map]
    apply List.map_congr_left
    intro x _
    rfl
  rw [hoth a, hoth b, List.foldlM_map, List.foldlM_map]
  congr 1
  apply foldlM_ext
  intro acc x hx
  have hxm := List.mem_filter.1 hx
  have hidx : x.1.2 = x.2 := zipIdx_zipIdx_idx r.children x hxm.1
  have hne : x.1.2 ≠ r.idx := by
    have := hxm.2
    rw [hidx]
    simpa using this
  have hlt : x.1.2 < r.children.length := by
    obtain ⟨i, hi, e⟩ := List.mem_iff_getElem.1 hxm.1
    simp only [List.getElem_zipIdx, Nat.zero_add] at e
    rw [← e]
    simpa using hi
  simp only [cpp_terms]
  rw [h x.1.2 hlt hne]
#print axioms complement_local

/-- the class a non-flipped child of a reverse rule reads is one of the rule's declared sub-classes -/
theorem revClass_mem_sub (r : SRule) (j : Nat) (hwf : r.sub.length = r.children.length) (hidx : r.idx < r.children.length)
    (hj : j < r.children.length) (hne : j ≠ r.idx) : revClass r j ∈ r.sub := by
  unfold revClass
  have : (j == r.idx) = false := by simpa using hne
  rw [this]
  simp only [Bool.false_eq_true, ↓reduceIte]
  have hk : (if j < r.idx then j else j - 1) < (r.sub.drop 1).length := by
    simp only [List.length_drop]
    split <;> omega
  rw [List.getD_eq_getElem?_getD, List.getElem?_eq_getElem hk]
  exact List.mem_of_mem_drop (List.getElem_mem hk)
