/-! Prototype: Terms (finitely supported maps from parameter tuples to integers) and the models of
DisjointUnion / CartesianProduct / Complement `get_terms` (C09). -/
abbrev Param := List Nat
abbrev Terms := List (Param × Int)

def Terms.addAt (t : Terms) (k : Param) (v : Int) : Terms :=
  if t.any (·.1 == k) then t.map (fun e => if e.1 == k then (e.1, e.2 + v) else e) else t ++ [(k, v)]

def paramLe : Param → Param → Bool
  | [], _ => true
  | _ :: _, [] => false
  | a :: as, b :: bs => a < b || (a == b && paramLe as bs)

def insertT (e : Param × Int) : Terms → Terms
  | [] => [e]
  | x :: xs => if paramLe e.1 x.1 then e :: x :: xs else x :: insertT e xs
/-- canonical form: zero entries removed, sorted by key -/
def Terms.norm (t : Terms) : Terms := (t.filter (·.2 != 0)).foldr insertT []

/-- `Counter(d)`: entries with equal keys are summed (a provider's dict has unique keys, so this is the identity there) -/
def Terms.merged (t : Terms) : Terms := t.foldl (fun acc e => acc.addAt e.1 e.2) []

structure Child where
  names : List String                      -- child.extra_parameters
  emap  : List (String × String)           -- extra_parameters[i] : parent var ↦ child var (dict order)
  minSize : Nat := 0
  maxSize : Option Nat := none
  terms : Nat → Terms                      -- sub-term provider

def posOf (names : List String) (n : String) : Nat := (names.findIdx? (· == n)).getD 0

/-- `_build_children_param_maps`: for every child parameter, the parent positions that map to it -/
def childPosToParentPos (parent : List String) (c : Child) : List (List Nat) :=
  c.names.map (fun cn => (c.emap.filter (·.2 == cn)).map (fun e => posOf parent e.1))

/-- `DisjointUnion.param_map`; `none` = the assertion fails -/
def paramMapSame (m : List (List Nat)) (nParent : Nat) (p : Param) : Option Param := do
  let init : List (Option Nat) := List.replicate nParent none
  let res ← (p.zip m).foldlM (fun (acc : List (Option Nat)) (vm : Nat × List Nat) =>
      vm.2.foldlM (fun (acc : List (Option Nat)) pos =>
        match acc.getD pos none with
        | none => some (acc.set pos (some vm.1))
        | some w => if w == vm.1 then some acc else none) acc) init
  pure (res.map (·.getD 0))

/-- `Constructor.param_map` (sums) -/
def paramMapSum (m : List (List Nat)) (nParent : Nat) (p : Param) : Param :=
  (p.zip m).foldl (fun acc (vm : Nat × List Nat) =>
    vm.2.foldl (fun acc pos => acc.set pos (acc.getD pos 0 + vm.1)) acc) (List.replicate nParent 0)

/-- `DisjointUnion.get_terms` -/
def unionTerms (parent : List String) (cs : List Child) (n : Nat) : Option Terms :=
  cs.foldlM (fun (acc : Terms) c =>
    (c.terms n).foldlM (fun (acc : Terms) e => do
      let k ← paramMapSame (childPosToParentPos parent c) parent.length e.1
      pure (acc.addAt k e.2)) acc) []

/-- `Complement.get_terms` (as repaired: the siblings are subtracted in the parent's coordinates, what is
left is re-keyed into the flipped child's coordinates): `sub` = [original parent, other children…] -/
def complementTerms (parent : List String) (cs : List Child) (idx : Nat)
    (parentTerms : Nat → Terms) (n : Nat) : Option Terms := do
  let flipped := cs.getD idx ⟨[], [], 0, none, fun _ => []⟩
  -- _build_parent_param_map: parent position ↦ child positions
  let p2c : List (List Nat) := parent.map (fun pv =>
    match flipped.emap.find? (·.1 == pv) with
    | some e => [posOf flipped.names e.2]
    | none => [])
  let toChild (p : Param) := paramMapSame p2c flipped.names.length p
  let others := (cs.zipIdx.filter (·.2 != idx)).map (·.1)
  let remaining ← others.foldlM (fun (acc : Terms) c =>
    (c.terms n).foldlM (fun (acc : Terms) e => do
      let k ← paramMapSame (childPosToParentPos parent c) parent.length e.1
      let acc := acc.addAt k (-e.2)
      if ((acc.find? (·.1 == k)).map (·.2)).getD 0 < 0 then none else pure acc) acc) (parentTerms n).merged
  remaining.foldlM (fun (acc : Terms) e => do
      if e.2 == 0 then pure acc else
      let k ← toChild e.1
      pure (acc.addAt k e.2)) []

/-- all ways to pick one entry from each list (itertools.product) -/
def cartesian {α : Type} : List (List α) → List (List α)
  | [] => [[]]
  | l :: ls => l.flatMap (fun x => (cartesian ls).map (x :: ·))

def addParams (a b : Param) : Param := (a.zip b).map (fun p => p.1 + p.2)
