/-! Prototype: tree_searcher.prune computes the greatest self-supporting rule set (C05). -/
abbrev RuleK := Nat × List Nat

def keys (R : List RuleK) : List Nat := R.map (·.1)

def stepP (R : List RuleK) : List RuleK := R.filter (fun r => r.2.all (fun c => decide (c ∈ keys R)))

def pruneF : Nat → List RuleK → List RuleK
  | 0, R => R
  | fuel+1, R => let R' := stepP R; if R'.length = R.length then R else pruneF fuel R'

def prune (R : List RuleK) : List RuleK := pruneF (R.length + 1) R

/-- `S` is self-supporting inside `R` -/
def Supported (S R : List RuleK) : Prop :=
  ∀ r ∈ S, r ∈ R ∧ ∀ c ∈ r.2, c ∈ keys S

theorem stepP_sub (R : List RuleK) : ∀ r ∈ stepP R, r ∈ R := fun r h => (List.mem_filter.1 h).1

theorem stepP_length_le (R : List RuleK) : (stepP R).length ≤ R.length := List.length_filter_le _ _

theorem stepP_fix {R : List RuleK} (h : (stepP R).length = R.length) : stepP R = R := by
  unfold stepP at *
  exact List.filter_eq_self.2 (List.length_filter_eq_length_iff.1 h)

theorem supported_step {S R : List RuleK} (h : Supported S R) : Supported S (stepP R) := by
  intro r hr
  obtain ⟨hrR, hc⟩ := h r hr
  refine ⟨?_, hc⟩
  unfold stepP
  rw [List.mem_filter]
  refine ⟨hrR, ?_⟩
  rw [List.all_eq_true]
  intro c hcm
  have := hc c hcm
  simp only [decide_eq_true_eq]
  unfold keys at *
  obtain ⟨r', hr', e⟩ := List.mem_map.1 this
  exact List.mem_map.2 ⟨r', (h r' hr').1, e⟩

theorem pruneF_spec (fuel : Nat) (R : List RuleK) (hf : R.length < fuel) :
    (∀ r ∈ pruneF fuel R, r ∈ R) ∧ stepP (pruneF fuel R) = pruneF fuel R ∧
    ∀ S, Supported S R → Supported S (pruneF fuel R) := by
  induction fuel generalizing R with
  | zero => omega
  | succ fuel ih =>
    simp only [pruneF]
    split
    · rename_i heq
      exact ⟨fun r h => h, stepP_fix heq, fun S h => h⟩
    · rename_i hne
      have hlt : (stepP R).length < R.length := Nat.lt_of_le_of_ne (stepP_length_le R) hne
      obtain ⟨h1, h2, h3⟩ := ih (stepP R) (by omega)
      exact ⟨fun r h => stepP_sub R r (h1 r h), h2, fun S h => h3 S (supported_step h)⟩

/-- the pruned rule set is itself self-supporting, is contained in `R`, and contains every
self-supporting subset of `R` – i.e. it is the greatest fixed point. -/
theorem prune_gfp (R : List RuleK) :
    Supported (prune R) R ∧ ∀ S, Supported S R → ∀ r ∈ S, r ∈ prune R := by
  obtain ⟨h1, h2, h3⟩ := pruneF_spec (R.length + 1) R (Nat.lt_succ_self _)
  refine ⟨?_, fun S hS r hr => ((h3 S hS) r hr).1⟩
  intro r hr
  refine ⟨h1 r hr, ?_⟩
  have : r ∈ stepP (prune R) := by unfold prune; rw [h2]; exact hr
  have := (List.mem_filter.1 this).2
  rw [List.all_eq_true] at this
  intro c hc
  simpa using this c hc
#print axioms prune_gfp
