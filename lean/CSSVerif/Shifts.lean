import CSSVerif.SpecEval
/-! C10: the shifts the model assigns to a skeleton rule (`CartesianProductStrategy.shifts`,
`DisjointUnionStrategy.shifts`, `ReverseRule.shifts`), to be compared with Python's `rule.shifts()`.
The read bounds they promise are `product_local` / `quotient_local` (Comps.lean). -/

def productShifts (mins : List Nat) : List Int := mins.map (fun m => ((mins.sum - m : Nat) : Int))

theorem reverse_parent_read (s : List Int) (idx : Nat) (m : Int) :
    m - (reverseShifts s idx).getD 0 0 = m + s.getD idx 0 := by
  simp [reverseShifts]

/-- a sibling that the original rule reads at sizes `≤ n - s_j` (with `n = m + s_idx`) is read at sizes
`≤ m - (s_j + pshift)`, `pshift = -s_idx`: exactly the shift the reverse rule declares for it. -/
theorem reverse_sibling_read (sj sidx m : Int) : (m + sidx) - sj = m - (sj + (-sidx)) := by omega

def modelShifts (r : SRule) : List Int :=
  match r.kind with
  | .ver => []
  | .union => r.sub.map (fun _ => 0)
  | .complement => r.sub.map (fun _ => 0)
  | .product => productShifts (r.children.map (·.minSize))
  | .quotient => reverseShifts (productShifts (r.children.map (·.minSize))) r.idx

example : reverseShifts (productShifts [2, 0, 1]) 1 = [-3, -2, -1] := by decide
