import CSSVerif.TMInv
/-! C03: the agenda of the table-method model is complete - a rule that can give a term to a class that is still finite is in
the queue or on hold - so a quiescent table is a pre-fixed point: it never reports fewer terms than are computable. -/
namespace TM

/-- every rule (other than `x`) that can give a term to its still finite parent is waiting in the queue or on hold -/
def AGx (t : TM) (x : Option Nat) : Prop :=
  ∀ idx, idx < t.rules.size → some idx ≠ x → ∀ pv, t.val (rule t idx).parent = some pv →
    canGive (t.shifts.getD idx #[]) = true → (idx ∈ t.queue ∨ idx ∈ t.holding)

theorem canGive_ext (a b : Array (Option Int)) (h : a = b) : canGive a = canGive b := by rw [h]

theorem bump_agenda (t : TM) (c cur : Nat) (x : Option Nat) (h : TInv t) (hc : c < t.value.size) (hv : t.val c = some cur)
    (ha : AGx t x) (hx : ∀ i, x = some i → i < t.rules.size → (rule t i).parent = c) : AGx (bump t c cur) none := by
  obtain ⟨b1, b2, b3, b4, _, _, _⟩ := bump_spec t c cur h.wf h.si h.ix hc hv
  have hpn := (h.ix.pump c (by rw [hv]; simp)).1
  have hpm := (h.ix.pump c (by rw [hv]; simp)).2
  have hun := (h.ix.use c (by rw [hv]; simp)).1
  have hum := (h.ix.use c (by rw [hv]; simp)).2
  intro idx hidx _ pv hpv hcg
  rw [b1] at hidx
  rw [rule_congr b1] at hpv
  -- unfold the three stages
  rw [bump_eq] at hcg ⊢
  obtain ⟨g1, g2, g3, g4, g5, _, g7, g8⟩ := gapfix_frame { t with value := t.value.setIfInBounds c (some (cur + 1)) }
  generalize gapfix { t with value := t.value.setIfInBounds c (some (cur + 1)) } = t1 at g1 g2 g3 g4 g5 g7 g8 hcg ⊢
  simp only at g1 g2 g3 g4 g5 g7 g8
  obtain ⟨f2, s2, q2⟩ := pumpFold_spec (t1.pumpingC.getD c []) t1 (by rw [g5]; exact hpn)
    (by intro r hr; rw [g5] at hr; rw [g2, h.wf.ss]; exact ((hpm r).1 hr).1)
  generalize (t1.pumpingC.getD c []).foldl pumpStep t1 = t2 at f2 s2 q2 hcg ⊢
  obtain ⟨f3, z3, s3, q3, g3', _⟩ := useFold_spec (t2.usingC.getD c []) t2 (by rw [f2.usingC, g4]; exact hun)
    (by intro rc hr; rw [f2.usingC, g4] at hr; rw [f2.ssize, g2, h.wf.ss]; exact ((hum rc.1 rc.2).1 hr).1)
  generalize (t2.usingC.getD c []).foldl useStep t2 = t3 at f3 z3 s3 q3 g3' hcg ⊢
  by_cases huse : ∃ i, (idx, i) ∈ t2.usingC.getD c []
  · exact Or.inl (g3' idx huse hcg)
  · -- no position of this rule uses `c`: its array after the second loop is the array after the first
    have hsame : t3.shifts.getD idx #[] = t2.shifts.getD idx #[] := by
      apply ext_getD _ _ (z3 idx)
      intro j
      have := s3 idx j
      rw [if_neg (fun hh => huse ⟨j, hh⟩)] at this
      exact this
    rw [hsame, s2 idx] at hcg
    by_cases hp : idx ∈ t1.pumpingC.getD c []
    · rw [if_pos hp] at hcg
      exact Or.inl (q3 idx ((q2 idx).2 (Or.inr ⟨hp, hcg⟩)))
    · rw [if_neg hp, g2] at hcg
      -- the rule is untouched: it was on the agenda before (it is not the popped rule, whose parent is `c`)
      have hpar : (rule t idx).parent ≠ c := by
        intro e; apply hp; rw [g5]; exact (hpm idx).2 ⟨hidx, e⟩
      have hne : some idx ≠ x := by
        intro e
        exact hpar (hx idx e.symm hidx)
      have hpv' : t.val (rule t idx).parent = some pv := by
        have := b4 (rule t idx).parent
        rw [if_neg hpar] at this
        rw [← this]; exact hpv
      rcases ha idx hidx hne pv hpv' hcg with e | e
      · exact Or.inl (q3 idx ((q2 idx).2 (Or.inl (g8 idx e))))
      · rcases (g7 idx).2 (Or.inr e) with e2 | e2
        · exact Or.inl (q3 idx ((q2 idx).2 (Or.inl e2)))
        · exact Or.inr (by rw [f3.holding, f2.holding]; exact e2)

theorem increaseValue_agenda (t : TM) (c idx0 : Nat) (h : TInv t) (hc : c < t.value.size) (hidx0 : idx0 < t.rules.size)
    (hpar : (rule t idx0).parent = c) (ha : AGx t (some idx0)) : AGx (t.increaseValue c idx0) none := by
  rcases increaseValue_cases t c idx0 with ⟨hv, e⟩ | ⟨cur, _, _, e⟩ | ⟨cur, hv, _, e⟩
  · rw [e]
    intro idx hidx _ pv hpv hcg
    by_cases e2 : idx = idx0
    · rw [e2, hpar, hv] at hpv; cases hpv
    · exact ha idx hidx (by intro h2; injection h2 with h2; exact e2 h2) pv hpv hcg
  · rw [e]
    intro idx hidx _ pv hpv hcg
    by_cases e2 : idx = idx0
    · right
      show idx ∈ insertS idx0 t.holding
      rw [e2]
      -- insertS puts it there
      have : ∀ (l : List Nat), idx0 ∈ insertS idx0 l := by
        intro l
        induction l with
        | nil => simp [insertS]
        | cons y ys ih =>
          unfold insertS
          split
          · exact List.mem_cons_self
          · split
            · rename_i _ he; have : idx0 = y := by simpa using he
              rw [this]; exact List.mem_cons_self
            · exact List.mem_cons_of_mem _ ih
      exact this _
    · rcases ha idx hidx (by intro h2; injection h2 with h2; exact e2 h2) pv hpv hcg with a | a
      · exact Or.inl a
      · right
        show idx ∈ insertS idx0 t.holding
        have : ∀ (l : List Nat), idx ∈ l → idx ∈ insertS idx0 l := by
          intro l
          induction l with
          | nil => intro hm; cases hm
          | cons y ys ih =>
            intro hm
            unfold insertS
            split
            · exact List.mem_cons_of_mem _ hm
            · split
              · exact hm
              · rcases List.mem_cons.1 hm with b | b
                · rw [b]; exact List.mem_cons_self
                · exact List.mem_cons_of_mem _ (ih b)
        exact this _ a
  · rw [e]
    exact bump_agenda t c cur (some idx0) h hc hv ha (fun i hi _ => by injection hi with hi; rw [← hi]; exact hpar)

theorem setInfinite_agenda (t : TM) (c idx0 : Nat) (h : TInv t) (hc : c < t.value.size)
    (hpar : (rule t idx0).parent = c) (ha : AGx t (some idx0)) : AGx (t.setInfinite c) none := by
  cases hv : t.val c with
  | none =>
    have : t.setInfinite c = t := by rw [setInfinite_eq, hv]
    rw [this]
    intro idx hidx _ pv hpv hcg
    by_cases e2 : idx = idx0
    · rw [e2, hpar, hv] at hpv; cases hpv
    · exact ha idx hidx (by intro h2; injection h2 with h2; exact e2 h2) pv hpv hcg
  | some v =>
    rw [setInfinite_some t c v hv]
    have F := inf_fields t c v h.wf h.ix hv
    obtain ⟨k1, k2, k3, k4, k5, k6, k7⟩ := inf_keep t c v h.ix hv
    have hum := (h.ix.use c (by rw [hv]; simp)).2
    have e2u : (inf2 t c).usingC = (inf1 t c).usingC := rfl
    have hU : ∀ e, e ∈ (inf2 t c).usingC.getD c [] ↔ (e ∈ t.usingC.getD c [] ∧ (rule t e.1).parent ≠ c) := by
      rw [e2u]; exact k2 c (by rw [hv]; simp)
    obtain ⟨f3, z3, s3, q3, g3, _⟩ := infFold_spec ((inf2 t c).usingC.getD c []) (inf2 t c) (by rw [e2u]; exact k3 c (by rw [hv]; simp))
      (by intro rc hr; show rc.1 < (inf1 t c).shifts.size; rw [k5, h.wf.ss]; exact ((hum rc.1 rc.2).1 (by cases rc; exact ((hU _).1 hr).1)).1)
    have e3 : inf3 t c = ((inf2 t c).usingC.getD c []).foldl infStep (inf2 t c) := rfl
    rw [← e3] at f3 z3 s3 q3 g3
    obtain ⟨fq, _⟩ := dropRules_spec ((setVal t c none).pumpingC.getD c []) (setVal t c none)
    have e1 : inf1 t c = ((setVal t c none).pumpingC.getD c []).foldl dropRule (setVal t c none) := rfl
    rw [← e1] at fq
    have hq2 : (inf2 t c).queue = t.queue := fq.queue
    have hh2 : (inf2 t c).holding = t.holding := fq.holding
    have hs2 : (inf2 t c).shifts = t.shifts := k5
    intro idx hidx _ pv hpv hcg
    rw [F.rules] at hidx
    rw [rule_congr F.rules] at hpv
    rw [inf4_val t c F hc] at hpv
    have hpc : (rule t idx).parent ≠ c := by intro e; rw [if_pos e] at hpv; cases hpv
    rw [if_neg hpc] at hpv
    have hcg3 : canGive ((inf3 t c).shifts.getD idx #[]) = true := hcg
    by_cases huse : ∃ i, (idx, i) ∈ (inf2 t c).usingC.getD c []
    · exact Or.inl (g3 idx huse hcg3)
    · have hsame : (inf3 t c).shifts.getD idx #[] = t.shifts.getD idx #[] := by
        rw [← hs2]
        apply ext_getD _ _ (z3 idx)
        intro j
        have := s3 idx j
        rw [if_neg (fun hh => huse ⟨j, hh⟩)] at this
        exact this
      rw [hsame] at hcg3
      have hne : some idx ≠ some idx0 := by
        intro e; injection e with e; rw [e] at hpc; exact hpc hpar
      rcases ha idx hidx hne pv hpv hcg3 with a | a
      · left; show idx ∈ (inf3 t c).queue; exact q3 idx (by rw [hq2]; exact a)
      · right; show idx ∈ (inf3 t c).holding; rw [f3.holding, hh2]; exact a


theorem processQueue_agenda : ∀ (fuel : Nat) (t : TM), TInv t → QV t → AGx t none → AGx (processQueue fuel t) none
  | 0, t, _, _, ha => by rw [processQueue]; exact ha
  | fuel + 1, t, h, hq, ha => by
    rw [processQueue_succ]
    split
    · rename_i idx q hqe
      have hidx : idx < t.rules.size := hq idx (Or.inl (by rw [hqe]; exact List.mem_cons_self))
      have h0 : TInv ({ t with queue := q } : TM) := h.congr rfl rfl rfl rfl rfl
      have hq0 : QV ({ t with queue := q } : TM) := by
        intro x hx
        rcases hx with a | a
        · exact hq x (Or.inl (by rw [hqe]; exact List.mem_cons_of_mem _ a))
        · exact hq x (Or.inr a)
      have ha0 : AGx ({ t with queue := q } : TM) (some idx) := by
        intro i hi hne pv hpv hcg
        rcases ha i hi (by simp) pv hpv hcg with a | a
        · rw [hqe] at a
          rcases List.mem_cons.1 a with b | b
          · exact absurd (by rw [b]) hne
          · exact Or.inl b
        · exact Or.inr a
      by_cases hcg : canGive (t.shifts.getD idx #[]) = true
      · rw [if_pos hcg]
        have hc := (h.wf.cls idx hidx).1
        obtain ⟨a, b, _⟩ := increaseValue_inv ({ t with queue := q } : TM) (rule t idx).parent idx h0 hq0 hc hidx
        exact processQueue_agenda fuel _ a b (increaseValue_agenda _ _ idx h0 hc hidx rfl ha0)
      · rw [if_neg hcg]
        refine processQueue_agenda fuel _ h0 hq0 ?_
        intro i hi _ pv hpv hcg2
        by_cases e : i = idx
        · rw [e] at hcg2; exact absurd hcg2 hcg
        · exact ha0 i hi (by intro h2; injection h2 with h2; exact e h2) pv hpv hcg2
    · split
      · exact ha
      · rename_i hqe idx hd hhe
        have hidx : idx < t.rules.size := hq idx (Or.inr (by rw [hhe]; exact List.mem_cons_self))
        have h0 : TInv ({ t with holding := hd } : TM) := h.congr rfl rfl rfl rfl rfl
        have hq0 : QV ({ t with holding := hd } : TM) := by
          intro x hx
          rcases hx with a | a
          · exact hq x (Or.inl a)
          · exact hq x (Or.inr (by rw [hhe]; exact List.mem_cons_of_mem _ a))
        have ha0 : AGx ({ t with holding := hd } : TM) (some idx) := by
          intro i hi hne pv hpv hcg
          rcases ha i hi (by simp) pv hpv hcg with a | a
          · exact Or.inl a
          · rw [hhe] at a
            rcases List.mem_cons.1 a with b | b
            · exact absurd (by rw [b]) hne
            · exact Or.inr b
        have hc := (h.wf.cls idx hidx).1
        obtain ⟨a, b, _⟩ := setInfinite_inv ({ t with holding := hd } : TM) (rule t idx).parent h0 hq0 hc
        exact processQueue_agenda fuel _ a b (setInfinite_agenda _ _ idx h0 hc rfl ha0)

theorem addRuleKey_agenda (t : TM) (r : Rule) (fuel : Nat) (h : TInv t) (hq : QV t) (ha : AGx t none) :
    AGx (t.addRuleKey r fuel) none := by
  rw [addRuleKey_eq]
  obtain ⟨m1, m2, m3, m4, m5, m6, m7, m8, _, _⟩ := materialiseAll_inv (r.parent :: r.children) t h
  have ha1 : AGx ((r.parent :: r.children).foldl materialise t) none := by
    intro idx hidx _ pv hpv hcg
    rw [m5] at hidx
    rw [rule_congr m5, m2] at hpv
    rw [m6] at hcg
    rw [m7, m8]
    exact ha idx hidx (by simp) pv hpv hcg
  generalize (r.parent :: r.children).foldl materialise t = t1 at m1 m2 m3 m4 m5 m6 m7 m8 ha1
  -- the state after registration
  have F := register_fields t1 r
  have h4 := register_inv t1 r _ m1 F (m3 r.parent List.mem_cons_self) (fun c hc => m3 c (List.mem_cons_of_mem _ hc))
  have q4 : QV (register (gapGrow (pushRule t1 r) r) r) := by
    intro x hx
    rw [F.rules]
    simp only [Array.size_push]
    rcases F.qh x hx with a | a | a
    · rw [m7] at a; have := hq x (Or.inl a); rw [m5]; omega
    · rw [m8] at a; have := hq x (Or.inr a); rw [m5]; omega
    · omega
  refine processQueue_agenda fuel _ h4 q4 ?_
  -- agenda of the registered state
  intro idx hidx _ pv hpv hcg
  rw [F.rules] at hidx
  simp only [Array.size_push] at hidx
  have hvalR : ∀ y, (register (gapGrow (pushRule t1 r) r) r).val y = t1.val y := fun y => val_congr F.value y
  rw [hvalR] at hpv
  by_cases e : idx = t1.rules.size
  · -- the new rule is always queued when its parent is finite
    have hr : rule (register (gapGrow (pushRule t1 r) r) r) idx = r := by
      unfold rule; rw [F.rules, e]; exact rule_push_eq _ _
    rw [hr] at hpv
    left
    rw [e]
    exact F.newq (by rw [hpv]; simp)
  · have hlt : idx < t1.rules.size := by omega
    have hr : rule (register (gapGrow (pushRule t1 r) r) r) idx = rule t1 idx := by
      unfold rule; rw [F.rules]; exact rule_push_lt _ _ _ hlt
    rw [hr] at hpv
    have hsh : (register (gapGrow (pushRule t1 r) r) r).shifts.getD idx #[] = t1.shifts.getD idx #[] := by
      rw [F.shifts]; exact getD_push_lt _ _ _ _ (by rw [m1.wf.ss]; exact hlt)
    rw [hsh] at hcg
    exact F.keepq idx (ha1 idx hlt (by simp) pv hpv hcg)

theorem agenda_empty : AGx ({} : TM) none := by
  intro idx hidx; simp at hidx

/-- over any history of insertions the agenda is complete -/
theorem tm_agenda (rs : List Rule) (fuel : Nat) : AGx (rs.foldl (fun t r => t.addRuleKey r fuel) {}) none := by
  have aux : ∀ (rs : List Rule) (t : TM), TInv t → QV t → AGx t none → AGx (rs.foldl (fun t r => t.addRuleKey r fuel) t) none := by
    intro rs
    induction rs with
    | nil => intro t _ _ ha; exact ha
    | cons r rs ih =>
      intro t h hq ha
      rw [List.foldl_cons]
      obtain ⟨a, b, _⟩ := addRuleKey_inv t r fuel h hq
      exact ih _ a b (addRuleKey_agenda t r fuel h hq ha)
  exact aux rs {} tinv_empty.1 tinv_empty.2 agenda_empty
#print axioms tm_agenda

theorem all_false_witness {α : Type} (p : α → Bool) (a : Array α) (h : a.all p = false) :
    ∃ i, ∃ hi : i < a.size, p a[i] = false := by
  apply Classical.byContradiction
  intro hn
  have : a.all p = true := by
    rw [Array.all_eq_true]
    intro i hi
    cases hb : p a[i] with
    | true => rfl
    | false => exact absurd ⟨i, hi, hb⟩ hn
  rw [this] at h; cases h

theorem not_canGive (a : Array (Option Int)) (h : canGive a = false) : ∃ i, i < a.size ∧ ∃ z : Int, a.getD i none = some z ∧ z ≤ 0 := by
  unfold canGive at h
  obtain ⟨i, hi, hb⟩ := all_false_witness _ a h
  have hg : a.getD i none = a[i] := by simp [Array.getD_eq_getD_getElem?, hi]
  cases hx : a[i] with
  | none => rw [hx] at hb; simp at hb
  | some z =>
    rw [hx] at hb
    refine ⟨i, hi, z, by rw [hg, hx], ?_⟩
    simp only [decide_eq_false_iff_not] at hb; omega

/-- **C03 (model): a quiescent table never under-reports.** After any history of insertions that ends with the queue and the
hold list empty, every computable term is below the reported value of its class (or the class is reported as pumping). -/
theorem tm_complete (rs : List Rule) (fuel : Nat)
    (hq : (rs.foldl (fun t r => t.addRuleKey r fuel) ({} : TM)).queue = [])
    (hh : (rs.foldl (fun t r => t.addRuleKey r fuel) ({} : TM)).holding = []) :
    ∀ c n, Comp rs c n →
      (rs.foldl (fun t r => t.addRuleKey r fuel) ({} : TM)).val c = none ∨
      ∃ v, (rs.foldl (fun t r => t.addRuleKey r fuel) ({} : TM)).val c = some v ∧ n < v := by
  obtain ⟨hinv, _, hrules⟩ := tm_invariants rs fuel
  have hag := tm_agenda rs fuel
  generalize rs.foldl (fun t r => t.addRuleKey r fuel) ({} : TM) = t at hq hh hinv hrules hag
  intro c n hcomp
  induction hcomp with
  | mk r n hr _ ih =>
    cases hpv : t.val r.parent with
    | none => exact Or.inl rfl
    | some pv =>
      right
      refine ⟨pv, rfl, ?_⟩
      -- the index of the rule
      rw [← hrules] at hr
      obtain ⟨idx, hidx, e⟩ := List.mem_iff_getElem.1 hr
      have hidx' : idx < t.rules.size := by simpa using hidx
      have hrule : rule t idx = r := by
        unfold rule
        simp only [Array.getD_eq_getD_getElem?, Array.getElem?_eq_getElem hidx', Option.getD_some]
        have : t.rules[idx] = t.rules.toList[idx] := by simp
        rw [this, e]
      -- it cannot give: it is not on the (empty) agenda
      have hng : canGive (t.shifts.getD idx #[]) = false := by
        cases hcg : canGive (t.shifts.getD idx #[]) with
        | false => rfl
        | true =>
          rcases hag idx hidx' (by simp) pv (by rw [hrule]; exact hpv) hcg with a | a
          · rw [hq] at a; cases a
          · rw [hh] at a; cases a
      obtain ⟨i, hi, z, hz, hz0⟩ := not_canGive _ hng
      obtain ⟨hsz, hent⟩ := hinv.si idx hidx' pv (by rw [hrule]; exact hpv)
      rw [hsz] at hi
      have he := hent i hi
      unfold sh at he
      rw [hz, hrule] at he
      rw [hrule] at hi
      -- the blocking dependency
      have hd : r.deps.getD i (0, 0) ∈ r.deps := by
        rw [List.getD_eq_getElem?_getD, List.getElem?_eq_getElem hi]; exact List.getElem_mem hi
      cases hcv : t.val (r.deps.getD i (0, 0)).1 with
      | none => rw [hcv] at he; cases he
      | some fv =>
        rw [hcv] at he
        have he2 : some z = some ((fv : Int) + (r.deps.getD i (0, 0)).2 - pv) := he
        injection he2 with he
        -- z = fv + s - pv ≤ 0
        apply Classical.byContradiction
        intro hn
        have hpn : pv ≤ n := by omega
        by_cases hneg : (n : Int) - (r.deps.getD i (0, 0)).2 < 0
        · omega
        · have hm := ih (r.deps.getD i (0, 0)) hd ((n : Int) - (r.deps.getD i (0, 0)).2).toNat (by omega)
          rcases hm with a | ⟨v, a, b⟩
          · rw [hcv] at a; cases a
          · rw [hcv] at a; injection a with a
            omega
#print axioms tm_complete
end TM
