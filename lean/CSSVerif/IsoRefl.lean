import CSSVerif.Iso
/-! C12 (reference relation): `isoRef` is reflexive on well-formed grammars — the diagonal survives every refinement
round, because the identity permutation matches the children of a class with themselves. -/

theorem self_mem_perms : ∀ (l : List Nat), l ∈ perms l
  | [] => by simp [perms]
  | x :: xs => by
    unfold perms
    rw [List.mem_flatMap]
    refine ⟨xs, self_mem_perms xs, ?_⟩
    cases xs <;> simp [insertAll]

/-- every child mentioned by a rule is a class of the grammar -/
def GWF (g : Gram) : Prop :=
  ∀ a, a < g.size → match g.getD a (.atom 0) with
    | .atom _ => True
    | .union cs => ∀ c ∈ cs, c < g.size
    | .prod cs => ∀ c ∈ cs, c < g.size

def Diag (g : Gram) (r : Rel) : Prop := ∀ a, a < g.size → r.get a a = true

theorem resolve_lt (g : Gram) (hwf : GWF g) : ∀ (fuel a : Nat), a < g.size → resolve g fuel a < g.size
  | 0, a, h => h
  | fuel + 1, a, h => by
    unfold resolve
    have := hwf a h
    split
    · rename_i d hd
      rw [hd] at this
      exact resolve_lt g hwf fuel d (this d (by simp))
    · exact h

theorem matchDFS_self (r : Nat → Nat → Bool) : ∀ (cs : List Nat), (∀ c ∈ cs, r c c = true) → matchDFS r cs cs = true
  | [], _ => rfl
  | x :: xs, h => by
    unfold matchDFS
    rw [List.any_eq_true]
    refine ⟨x, List.mem_cons_self, ?_⟩
    have hx : r x x = true := h x List.mem_cons_self
    have he : (x :: xs).erase x = xs := by simp
    rw [hx, he, Bool.true_and]
    exact matchDFS_self r xs (fun c hc => h c (List.mem_cons_of_mem _ hc))

theorem localOk_diag (g : Gram) (hwf : GWF g) (r : Rel) (hd : Diag g r) (a : Nat) (ha : a < g.size) :
    localOk g g r a a = true := by
  unfold localOk
  have hr := resolve_lt g hwf g.size a ha
  have hw := hwf _ hr
  simp only
  generalize g.getD (resolve g g.size a) (.atom 0) = rule at hw
  cases rule with
  | atom s => simp
  | union cs =>
    simp only [beq_self_eq_true, Bool.true_and]
    exact matchDFS_self (fun x y => r.get x y) cs (fun c hc => hd c (hw c hc))
  | prod cs =>
    simp only [beq_self_eq_true, Bool.true_and]
    exact matchDFS_self (fun x y => r.get x y) cs (fun c hc => hd c (hw c hc))

theorem refine_get (g1 g2 : Gram) (r : Rel) (a b : Nat) (ha : a < g1.size) (hb : b < g2.size) :
    (refine g1 g2 r).get a b = (r.get a b && localOk g1 g2 r a b) := by
  unfold refine Rel.get
  simp [Array.getD_eq_getD_getElem?, ha, hb]

theorem refine_diag (g : Gram) (hwf : GWF g) (r : Rel) (hd : Diag g r) : Diag g (refine g g r) := by
  intro a ha
  rw [refine_get g g r a a ha ha, hd a ha, localOk_diag g hwf r hd a ha]
  rfl

theorem isoIter_diag (g : Gram) (hwf : GWF g) : ∀ (fuel : Nat) (r : Rel), Diag g r → Diag g (isoIter g g fuel r)
  | 0, r, h => h
  | fuel + 1, r, h => by
    unfold isoIter
    simp only
    split
    · exact h
    · exact isoIter_diag g hwf fuel _ (refine_diag g hwf r h)

/-- **C12 (reference relation): reflexivity.** -/
theorem isoRef_refl (g : Gram) (hwf : GWF g) (hne : 0 < g.size) : isoRef g g = true := by
  unfold isoRef
  simp only
  apply isoIter_diag g hwf _ _ _ 0 hne
  intro a ha
  unfold Rel.get
  simp [Array.getD_eq_getD_getElem?, ha]
#print axioms isoRef_refl

example : GWF #[.union [1, 2], .atom 0, .prod [3, 0], .atom 1] := by
  intro a ha
  have : a = 0 ∨ a = 1 ∨ a = 2 ∨ a = 3 := by simp at ha; omega
  rcases this with h | h | h | h <;> subst h <;> simp [Array.getD_eq_getD_getElem?]
