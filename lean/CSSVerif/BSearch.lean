/-! C05(d): the binary search of `RuleDBBase._get_smallest_node` returns the minimum achievable size,
for any bounded finder that is sound and complete. -/

/-- `find m` = size of some proof tree of size `≤ m` produced by the bounded generator, if any -/
def bsearch (find : Nat → Option Nat) : Nat → Nat → Nat → Nat
  | 0, _, hi => hi
  | fuel+1, lo, hi =>
    if lo < hi then
      let mid := (lo + hi) / 2
      match find mid with
      | some s => bsearch find fuel lo (min mid s)
      | none => bsearch find fuel (mid + 1) hi
    else hi

theorem bsearch_min (find : Nat → Option Nat) (A : Nat → Prop)
    (hsound : ∀ m s, find m = some s → s ≤ m ∧ A s)
    (hcomplete : ∀ m, find m = none → ∀ s, s ≤ m → ¬ A s) :
    ∀ (fuel lo hi : Nat), hi - lo ≤ fuel → lo ≤ hi → A hi → (∀ s, s < lo → ¬ A s) →
      A (bsearch find fuel lo hi) ∧ ∀ s, s < bsearch find fuel lo hi → ¬ A s := by
  intro fuel
  induction fuel with
  | zero =>
    intro lo hi hf hle hA hlow
    simp only [bsearch]
    have : lo = hi := by omega
    subst this
    exact ⟨hA, hlow⟩
  | succ fuel ih =>
    intro lo hi hf hle hA hlow
    simp only [bsearch]
    split
    · rename_i hlt
      split
      · rename_i s hs
        obtain ⟨h1, h2⟩ := hsound _ s hs
        have hmin : A (min ((lo + hi) / 2) s) := by
          have : min ((lo + hi) / 2) s = s := Nat.min_eq_right h1
          rw [this]; exact h2
        have hlo : lo ≤ min ((lo + hi) / 2) s := by
          apply Nat.le_of_not_lt
          intro hc
          exact hlow _ hc hmin
        exact ih lo _ (by
          have : min ((lo + hi) / 2) s ≤ (lo + hi) / 2 := Nat.min_le_left _ _
          omega) hlo hmin hlow
      · rename_i hn
        have hnone := hcomplete _ hn
        exact ih ((lo + hi) / 2 + 1) hi (by omega) (by omega) hA (by
          intro s hs
          exact hnone s (by omega))
    · have : lo = hi := by omega
      subst this
      exact ⟨hA, hlow⟩
#print axioms bsearch_min
