import CSSVerif.UnionFind
/-! C06 (two-way part, verified flags): over any history of `union` and `setVerified` operations the observable union-find
relates exactly the labels connected by merged pairs, and a label is verified exactly when some label of its class was marked. -/
namespace EDB

theorem touch_verified (e : EDB) (l : Nat) : (e.touch l).verified = e.verified := by
  unfold touch; split <;> rfl

theorem touch_rel {e : EDB} (h : WF e) (l x y : Nat) : Rel (e.touch l) x y ↔ Rel e x y := by
  unfold Rel; rw [touch_find h, touch_find h]

/-- the merge step of `union` on a structure that knows both labels -/
def mergeOf (t : EDB) (a b : Nat) : EDB :=
  if t.find a == t.find b then t else
  let (hv, lt) : Nat × Nat :=
    if t.w (t.find a) > t.w (t.find b) || (t.w (t.find a) == t.w (t.find b) && t.find a > t.find b) then (t.find a, t.find b)
    else (t.find b, t.find a)
  { t with root := t.root.map (fun (p : Nat × Nat) => if p.2 == lt then (p.1, hv) else p),
           weight := t.weight.map (fun (p : Nat × Nat) => if p.1 == hv then (p.1, t.w hv + t.w lt) else p) }

theorem union_eq (e : EDB) (a b : Nat) :
    e.union a b =
      if ((e.touch a).touch b).isVerified a || ((e.touch a).touch b).isVerified b then
        (mergeOf ((e.touch a).touch b) a b).setVerified a
      else mergeOf ((e.touch a).touch b) a b := by
  unfold union mergeOf
  rfl

theorem mergeOf_same {t : EDB} {a b : Nat} (h : t.find a = t.find b) : mergeOf t a b = t := by
  unfold mergeOf; simp [h]

theorem mergeOf_left {t : EDB} {a b : Nat} (h : t.find a ≠ t.find b)
    (hc : (t.w (t.find a) > t.w (t.find b) || (t.w (t.find a) == t.w (t.find b) && t.find a > t.find b)) = true) :
    mergeOf t a b = t.retarget (t.find a) (t.find b) (t.weight.map (fun (p : Nat × Nat) =>
        if p.1 == t.find a then (p.1, t.w (t.find a) + t.w (t.find b)) else p)) := by
  unfold mergeOf retarget
  have : (t.find a == t.find b) = false := by simpa using h
  simp only [this, Bool.false_eq_true, ↓reduceIte, hc]

theorem mergeOf_right {t : EDB} {a b : Nat} (h : t.find a ≠ t.find b)
    (hc : (t.w (t.find a) > t.w (t.find b) || (t.w (t.find a) == t.w (t.find b) && t.find a > t.find b)) = false) :
    mergeOf t a b = t.retarget (t.find b) (t.find a) (t.weight.map (fun (p : Nat × Nat) =>
        if p.1 == t.find b then (p.1, t.w (t.find b) + t.w (t.find a)) else p)) := by
  unfold mergeOf retarget
  have : (t.find a == t.find b) = false := by simpa using h
  simp only [this, Bool.false_eq_true, ↓reduceIte, hc]

theorem mergeOf_spec {t : EDB} (h : WF t) (a b : Nat) (ha : a ∈ t.keys) (hb : b ∈ t.keys) :
    WF (mergeOf t a b) ∧ (mergeOf t a b).keys = t.keys ∧ (mergeOf t a b).verified = t.verified ∧
    (∀ x y, Rel (mergeOf t a b) x y ↔ (Rel t x y ∨ (Rel t x a ∧ Rel t y b) ∨ (Rel t x b ∧ Rel t y a))) ∧
    ((mergeOf t a b).find a = t.find a ∨ (mergeOf t a b).find a = t.find b) := by
  by_cases he : t.find a = t.find b
  · rw [mergeOf_same he]
    refine ⟨h, rfl, rfl, ?_, Or.inl rfl⟩
    intro x y
    constructor
    · exact Or.inl
    · rintro (e | ⟨e1, e2⟩ | ⟨e1, e2⟩)
      · exact e
      · unfold Rel at *; rw [e1, e2, he]
      · unfold Rel at *; rw [e1, e2, he]
  · have hka := find_root_is_key h ha
    have hkb := find_root_is_key h hb
    have hfa : t.find a ∈ t.keys := List.mem_map.2 ⟨_, hka, rfl⟩
    have hfb : t.find b ∈ t.keys := List.mem_map.2 ⟨_, hkb, rfl⟩
    cases hc : (t.w (t.find a) > t.w (t.find b) || (t.w (t.find a) == t.w (t.find b) && t.find a > t.find b)) with
    | true =>
      rw [mergeOf_left he hc]
      have hfind := retarget_find h (t.find a) (t.find b) (t.weight.map (fun (p : Nat × Nat) =>
        if p.1 == t.find a then (p.1, t.w (t.find a) + t.w (t.find b)) else p)) hka he hfb
      refine ⟨retarget_wf h _ _ _ hka he, retarget_keys t _ _ _, rfl, ?_, ?_⟩
      · exact fun x y => retarget_rel h a b ha hb he _ x y
      · left
        have := hfind a
        rw [if_neg he] at this
        exact this
    | false =>
      rw [mergeOf_right he hc]
      have hfind := retarget_find h (t.find b) (t.find a) (t.weight.map (fun (p : Nat × Nat) =>
        if p.1 == t.find b then (p.1, t.w (t.find b) + t.w (t.find a)) else p)) hkb (Ne.symm he) hfa
      refine ⟨retarget_wf h _ _ _ hkb (Ne.symm he), retarget_keys t _ _ _, rfl, ?_, ?_⟩
      · intro x y
        rw [retarget_rel h b a hb ha (Ne.symm he) _ x y]
        constructor
        · rintro (e | e | e)
          · exact Or.inl e
          · exact Or.inr (Or.inr e)
          · exact Or.inr (Or.inl e)
        · rintro (e | e | e)
          · exact Or.inl e
          · exact Or.inr (Or.inr e)
          · exact Or.inr (Or.inl e)
      · right
        have := hfind a
        rw [if_pos rfl] at this
        exact this

theorem mergeOf_find {t : EDB} (h : WF t) (a b : Nat) (ha : a ∈ t.keys) (hb : b ∈ t.keys) (x : Nat) :
    (mergeOf t a b).find x =
      if t.find x = t.find a ∨ t.find x = t.find b then (mergeOf t a b).find a else t.find x := by
  by_cases he : t.find a = t.find b
  · rw [mergeOf_same he]
    split
    · rename_i hx; rcases hx with e | e
      · exact e
      · rw [e, he]
    · rfl
  · have hka := find_root_is_key h ha
    have hkb := find_root_is_key h hb
    have hfa : t.find a ∈ t.keys := List.mem_map.2 ⟨_, hka, rfl⟩
    have hfb : t.find b ∈ t.keys := List.mem_map.2 ⟨_, hkb, rfl⟩
    cases hc : (t.w (t.find a) > t.w (t.find b) || (t.w (t.find a) == t.w (t.find b) && t.find a > t.find b)) with
    | true =>
      rw [mergeOf_left he hc]
      rw [retarget_find h _ _ _ hka he hfb x, retarget_find h _ _ _ hka he hfb a, if_neg he]
      by_cases h1 : t.find x = t.find b
      · rw [if_pos h1, if_pos (Or.inr h1)]
      · rw [if_neg h1]
        by_cases h2 : t.find x = t.find a
        · rw [if_pos (Or.inl h2)]; exact h2
        · rw [if_neg (by intro hh; rcases hh with e | e; exact h2 e; exact h1 e)]
    | false =>
      rw [mergeOf_right he hc]
      rw [retarget_find h _ _ _ hkb (Ne.symm he) hfa x, retarget_find h _ _ _ hkb (Ne.symm he) hfa a, if_pos rfl]
      by_cases h1 : t.find x = t.find a
      · rw [if_pos h1, if_pos (Or.inl h1)]
      · rw [if_neg h1]
        by_cases h2 : t.find x = t.find b
        · rw [if_pos (Or.inr h2)]; exact h2
        · rw [if_neg (by intro hh; rcases hh with e | e; exact h1 e; exact h2 e)]

theorem setVerified_spec {e : EDB} (h : WF e) (l : Nat) :
    WF (e.setVerified l) ∧ (∀ x, (e.setVerified l).find x = e.find x) ∧
    (∀ x, x ∈ e.keys → x ∈ (e.setVerified l).keys) ∧ l ∈ (e.setVerified l).keys ∧
    (∀ x, (e.setVerified l).isVerified x = true ↔ (e.isVerified x = true ∨ e.find x = e.find l)) := by
  unfold setVerified
  have hw := touch_wf h l
  have hf := touch_find h l
  have hv := touch_verified e l
  simp only
  split
  · rename_i hver
    refine ⟨hw, hf, touch_keys_mono e l, touch_key e l, ?_⟩
    intro x
    unfold isVerified at hver ⊢
    rw [hf, hv] at *
    constructor
    · exact Or.inl
    · rintro (e1 | e1)
      · exact e1
      · rw [e1]; exact hver
  · rename_i hver
    refine ⟨⟨hw.nd, hw.idem⟩, hf, touch_keys_mono e l, touch_key e l, ?_⟩
    intro x
    have hfx : (⟨(e.touch l).root, (e.touch l).weight, (e.touch l).find l :: (e.touch l).verified⟩ : EDB).find x = e.find x := hf x
    unfold isVerified
    simp only
    rw [hfx, hf l, hv]
    simp only [List.contains_cons, Bool.or_eq_true, beq_iff_eq]
    constructor
    · rintro (e1 | e1)
      · exact Or.inr e1
      · exact Or.inl e1
    · rintro (e1 | e1)
      · exact Or.inr e1
      · exact Or.inl e1

theorem union_spec {e : EDB} (h : WF e) (a b : Nat) :
    WF (e.union a b) ∧ (∀ x, x ∈ e.keys → x ∈ (e.union a b).keys) ∧
    (∀ x y, Rel (e.union a b) x y ↔ (Rel e x y ∨ (Rel e x a ∧ Rel e y b) ∨ (Rel e x b ∧ Rel e y a))) ∧
    (∀ x, (e.union a b).isVerified x = true ↔
      (e.isVerified x = true ∨ ((Rel e x a ∨ Rel e x b) ∧ (e.isVerified a = true ∨ e.isVerified b = true)))) := by
  rw [union_eq]
  have hw1 := touch_wf h a
  have hw := touch_wf hw1 b
  have hfind : ∀ x, ((e.touch a).touch b).find x = e.find x := fun x => by rw [touch_find hw1, touch_find h]
  have hver : ((e.touch a).touch b).verified = e.verified := by rw [touch_verified, touch_verified]
  have hka : a ∈ ((e.touch a).touch b).keys := touch_keys_mono _ b a (touch_key e a)
  have hkb : b ∈ ((e.touch a).touch b).keys := touch_key _ b
  have hkm : ∀ x, x ∈ e.keys → x ∈ ((e.touch a).touch b).keys := fun x hx => touch_keys_mono _ b x (touch_keys_mono e a x hx)
  have hisv : ∀ x, ((e.touch a).touch b).isVerified x = e.isVerified x := by
    intro x; unfold isVerified; rw [hfind, hver]
  have hrel : ∀ x y, Rel ((e.touch a).touch b) x y ↔ Rel e x y := by
    intro x y; unfold Rel; rw [hfind, hfind]
  generalize (e.touch a).touch b = t at hw hfind hver hka hkb hkm hisv hrel
  obtain ⟨m1, m2, m3, m4, _⟩ := mergeOf_spec hw a b hka hkb
  have m5 := mergeOf_find hw a b hka hkb
  have relm : ∀ x y, Rel (mergeOf t a b) x y ↔ (Rel e x y ∨ (Rel e x a ∧ Rel e y b) ∨ (Rel e x b ∧ Rel e y a)) := by
    intro x y; rw [m4]; simp only [hrel]
  have misv : ∀ x, (mergeOf t a b).isVerified x = true ↔
      (if t.find x = t.find a ∨ t.find x = t.find b then e.verified.contains ((mergeOf t a b).find a) = true
       else e.isVerified x = true) := by
    intro x
    unfold isVerified
    rw [m3, hver, m5 x]
    split
    · rfl
    · rw [hfind]
  have inclass : ∀ x, (t.find x = t.find a ∨ t.find x = t.find b) ↔ (Rel e x a ∨ Rel e x b) := by
    intro x; unfold Rel; rw [hfind, hfind, hfind]
  have hma : (mergeOf t a b).find a = t.find a ∨ (mergeOf t a b).find a = t.find b := by
    obtain ⟨_, _, _, _, x⟩ := mergeOf_spec hw a b hka hkb; exact x
  cases hv : (t.isVerified a || t.isVerified b) with
  | false =>
    simp only [Bool.false_eq_true, ↓reduceIte]
    have hva : e.isVerified a = false := by rw [← hisv]; exact (Bool.or_eq_false_iff.1 hv).1
    have hvb : e.isVerified b = false := by rw [← hisv]; exact (Bool.or_eq_false_iff.1 hv).2
    refine ⟨m1, fun x hx => by rw [m2]; exact hkm x hx, relm, ?_⟩
    intro x
    rw [misv x]
    have nover : e.verified.contains ((mergeOf t a b).find a) = false := by
      unfold isVerified at hva hvb
      rcases hma with e1 | e1
      · rw [e1, hfind]; exact hva
      · rw [e1, hfind]; exact hvb
    split
    · rename_i hin
      rw [nover]
      constructor
      · intro hh; cases hh
      · rintro (e1 | ⟨_, e2 | e2⟩)
        · -- x in the merged class and verified before: impossible
          unfold isVerified at e1 hva hvb
          rcases (inclass x).1 hin with e3 | e3
          · unfold Rel at e3; rw [e3, hva] at e1; cases e1
          · unfold Rel at e3; rw [e3, hvb] at e1; cases e1
        · rw [hva] at e2; cases e2
        · rw [hvb] at e2; cases e2
    · rename_i hout
      constructor
      · exact Or.inl
      · rintro (e1 | ⟨e2, _⟩)
        · exact e1
        · exact absurd ((inclass x).2 e2) hout
  | true =>
    simp only [↓reduceIte]
    have hvab : e.isVerified a = true ∨ e.isVerified b = true := by
      rw [← hisv a, ← hisv b]
      simpa using hv
    obtain ⟨s1, s2, s3, _, s5⟩ := setVerified_spec m1 a
    refine ⟨s1, fun x hx => s3 x (by rw [m2]; exact hkm x hx), ?_, ?_⟩
    · intro x y
      have : Rel ((mergeOf t a b).setVerified a) x y ↔ Rel (mergeOf t a b) x y := by
        unfold Rel; rw [s2, s2]
      rw [this]; exact relm x y
    · intro x
      rw [s5 x, misv x]
      have hrelma : (mergeOf t a b).find x = (mergeOf t a b).find a ↔ (Rel e x a ∨ Rel e x b) := by
        have := relm x a
        unfold Rel at this ⊢
        rw [this]
        constructor
        · rintro (e1 | ⟨e1, _⟩ | ⟨e1, _⟩)
          · exact Or.inl e1
          · exact Or.inl e1
          · exact Or.inr e1
        · rintro (e1 | e1)
          · exact Or.inl e1
          · exact Or.inr (Or.inr ⟨e1, rfl⟩)
      rw [hrelma]
      split
      · rename_i hin
        have hin' := (inclass x).1 hin
        constructor
        · intro _; exact Or.inr ⟨hin', hvab⟩
        · intro _; exact Or.inr hin'
      · rename_i hout
        constructor
        · rintro (e1 | e1)
          · exact Or.inl e1
          · exact absurd ((inclass x).2 e1) hout
        · rintro (e1 | ⟨e2, _⟩)
          · exact Or.inl e1
          · exact absurd ((inclass x).2 e2) hout

/-- the equivalence generated by a list of pairs -/
inductive Gen (P : List (Nat × Nat)) : Nat → Nat → Prop
  | refl (x : Nat) : Gen P x x
  | base (a b : Nat) (h : (a, b) ∈ P) : Gen P a b
  | symm {x y : Nat} : Gen P x y → Gen P y x
  | trans {x y z : Nat} : Gen P x y → Gen P y z → Gen P x z

theorem Gen.mono {P Q : List (Nat × Nat)} (h : ∀ p, p ∈ P → p ∈ Q) {x y : Nat} (g : Gen P x y) : Gen Q x y := by
  induction g with
  | refl x => exact .refl x
  | base a b hm => exact .base a b (h _ hm)
  | symm _ ih => exact .symm ih
  | trans _ _ ih1 ih2 => exact .trans ih1 ih2

inductive UOp where
  | union (a b : Nat)      -- a two-way edge
  | verify (a : Nat)
deriving Repr

def applyOp (e : EDB) : UOp → EDB
  | .union a b => e.union a b
  | .verify a => e.setVerified a

def pairsOf (ops : List UOp) : List (Nat × Nat) := ops.filterMap (fun o => match o with | .union a b => some (a, b) | _ => none)
def marksOf (ops : List UOp) : List Nat := ops.filterMap (fun o => match o with | .verify a => some a | _ => none)

structure UInv (e : EDB) (P : List (Nat × Nat)) (M : List Nat) : Prop where
  wf : WF e
  rel : ∀ x y, Rel e x y ↔ Gen P x y
  ver : ∀ x, e.isVerified x = true ↔ ∃ y, Gen P x y ∧ y ∈ M

theorem UInv.union {e : EDB} {P : List (Nat × Nat)} {M : List Nat} (h : UInv e P M) (a b : Nat) :
    UInv (e.union a b) (P ++ [(a, b)]) M := by
  obtain ⟨u1, _, u3, u4⟩ := union_spec h.wf a b
  have up : ∀ {x y}, Gen P x y → Gen (P ++ [(a, b)]) x y := fun g => g.mono (fun p hp => List.mem_append_left _ hp)
  have gab : Gen (P ++ [(a, b)]) a b := .base a b (List.mem_append_right _ (by simp))
  have hrel : ∀ x y, Rel (e.union a b) x y ↔ Gen (P ++ [(a, b)]) x y := by
    intro x y
    constructor
    · intro hr
      rcases (u3 x y).1 hr with e1 | ⟨e1, e2⟩ | ⟨e1, e2⟩
      · exact up ((h.rel x y).1 e1)
      · exact .trans (up ((h.rel x a).1 e1)) (.trans gab (.symm (up ((h.rel y b).1 e2))))
      · exact .trans (up ((h.rel x b).1 e1)) (.trans (.symm gab) (.symm (up ((h.rel y a).1 e2))))
    · intro g
      induction g with
      | refl x => rfl
      | base c d hm =>
        rcases List.mem_append.1 hm with e1 | e1
        · exact (u3 c d).2 (Or.inl ((h.rel c d).2 (.base c d e1)))
        · simp only [List.mem_singleton, Prod.mk.injEq] at e1
          obtain ⟨rfl, rfl⟩ := e1
          exact (u3 c d).2 (Or.inr (Or.inl ⟨rfl, rfl⟩))
      | symm _ ih => exact ih.symm
      | trans _ _ ih1 ih2 => exact ih1.trans ih2
  refine ⟨u1, hrel, ?_⟩
  intro x
  rw [u4 x]
  constructor
  · rintro (e1 | ⟨e2, e3⟩)
    · obtain ⟨y, g, hm⟩ := (h.ver x).1 e1
      exact ⟨y, up g, hm⟩
    · have gxa : Gen (P ++ [(a, b)]) x a := by
        rcases e2 with e2 | e2
        · exact up ((h.rel x a).1 e2)
        · exact .trans (up ((h.rel x b).1 e2)) (.symm gab)
      rcases e3 with e3 | e3
      · obtain ⟨y, g, hm⟩ := (h.ver a).1 e3
        exact ⟨y, .trans gxa (up g), hm⟩
      · obtain ⟨y, g, hm⟩ := (h.ver b).1 e3
        exact ⟨y, .trans gxa (.trans gab (up g)), hm⟩
  · rintro ⟨y, g, hm⟩
    -- x ~ y in the new relation: either already before, or through the merged pair
    rcases (u3 x y).1 ((hrel x y).2 g) with e1 | ⟨e1, e2⟩ | ⟨e1, e2⟩
    · exact Or.inl ((h.ver x).2 ⟨y, (h.rel x y).1 e1, hm⟩)
    · exact Or.inr ⟨Or.inl e1, Or.inr ((h.ver b).2 ⟨y, (h.rel b y).1 e2.symm, hm⟩)⟩
    · exact Or.inr ⟨Or.inr e1, Or.inl ((h.ver a).2 ⟨y, (h.rel a y).1 e2.symm, hm⟩)⟩

theorem UInv.verify {e : EDB} {P : List (Nat × Nat)} {M : List Nat} (h : UInv e P M) (a : Nat) :
    UInv (e.setVerified a) P (M ++ [a]) := by
  obtain ⟨s1, s2, _, _, s5⟩ := setVerified_spec h.wf a
  have hrel : ∀ x y, Rel (e.setVerified a) x y ↔ Gen P x y := by
    intro x y
    have : Rel (e.setVerified a) x y ↔ Rel e x y := by unfold Rel; rw [s2, s2]
    rw [this]; exact h.rel x y
  refine ⟨s1, hrel, ?_⟩
  intro x
  rw [s5 x]
  constructor
  · rintro (e1 | e1)
    · obtain ⟨y, g, hm⟩ := (h.ver x).1 e1
      exact ⟨y, g, List.mem_append_left _ hm⟩
    · exact ⟨a, (h.rel x a).1 e1, List.mem_append_right _ (by simp)⟩
  · rintro ⟨y, g, hm⟩
    rcases List.mem_append.1 hm with e1 | e1
    · exact Or.inl ((h.ver x).2 ⟨y, g, e1⟩)
    · simp only [List.mem_singleton] at e1
      subst e1
      exact Or.inr ((h.rel x y).2 g)

theorem UInv.init : UInv ⟨[], [], []⟩ [] [] := by
  refine ⟨⟨by simp [keys], fun x r hm => by cases hm⟩, ?_, ?_⟩
  · intro x y
    constructor
    · intro hr
      have : x = y := by simpa [Rel, find] using hr
      rw [this]; exact .refl y
    · intro g
      induction g with
      | refl x => rfl
      | base a b hm => cases hm
      | symm _ ih => exact ih.symm
      | trans _ _ ih1 ih2 => exact ih1.trans ih2
  · intro x
    constructor
    · intro hv; simp [isVerified] at hv
    · rintro ⟨y, _, hm⟩; cases hm

/-- **C06 (two-way edges and verified flags).** After any history of merges and verified marks, two labels are equivalent
exactly when they are connected by merged pairs, and a label is verified exactly when some label of its class was marked -
before or after the merges. -/
theorem unionfind_history (ops : List UOp) :
    UInv (ops.foldl applyOp ⟨[], [], []⟩) (pairsOf ops) (marksOf ops) := by
  have aux : ∀ (ops pre : List UOp) (e : EDB), UInv e (pairsOf pre) (marksOf pre) →
      UInv (ops.foldl applyOp e) (pairsOf (pre ++ ops)) (marksOf (pre ++ ops)) := by
    intro ops
    induction ops with
    | nil => intro pre e h; simpa using h
    | cons o ops ih =>
      intro pre e h
      have e1 : pre ++ o :: ops = (pre ++ [o]) ++ ops := by simp
      rw [List.foldl_cons, e1]
      apply ih
      cases o with
      | union a b =>
        have := h.union a b
        simpa [pairsOf, marksOf, applyOp, List.filterMap_append] using this
      | verify a =>
        have := h.verify a
        simpa [pairsOf, marksOf, applyOp, List.filterMap_append] using this
  simpa using aux ops [] _ (by simpa [pairsOf, marksOf] using UInv.init)
#print axioms unionfind_history
end EDB
example : let e := [EDB.UOp.union 1 2, .verify 3, .union 3 2].foldl EDB.applyOp ⟨[], [], []⟩
    e.isVerified 1 = true ∧ e.isVerified 4 = false ∧ e.find 1 = e.find 3 := by decide
