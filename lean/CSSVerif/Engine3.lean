import CSSVerif.Engine
import CSSVerif.TableMethod
/-! Prototype 3: the searcher engine with the forest rule database (C03/C04/C11 integration). -/
namespace E3
structure FKey where
  parent : Nat
  children : List Nat
  shifts : List Int
  bucket : Nat          -- 0 verification, 1 equiv, 2 normal, 3 reverse
deriving Repr

structure FUniverse where
  base : Universe
  minsize : Array Nat
  reverse : Bool

structure St where
  cdb : CDB
  q : Q
  tm : TM
  alreadyEmpty : List Nat
  tried : List Nat
  symExp : List Nat
  infExp : List Nat
  log : List FKey

def packOf (u : FUniverse) : Pack := ⟨u.base.inferral.length, u.base.initial.length, u.base.expansion.map List.length⟩

def insertSorted (x : Nat) : List Nat → List Nat
  | [] => [x]
  | y :: ys => if x ≤ y then x :: y :: ys else y :: insertSorted x ys
def sortNat (l : List Nat) : List Nat := l.foldr insertSorted []

/-- `Rule.forest_key` / `ReverseRule.forest_key` data of a rule over the universe -/
def shiftsOf (u : FUniverse) (r : RuleOut) : List Int :=
  if r.isVer then [] else
  if r.isProd then
    let mins := r.children.map (fun c => u.minsize.getD c 0)
    let tot := mins.sum
    mins.map (fun m => ((tot - m : Nat) : Int))
  else r.children.map (fun _ => 0)

def nonEmptyCount (u : FUniverse) (s : St) (ls : List Nat) : St × Nat :=
  ls.foldl (fun (acc : St × Nat) l =>
    let (cdb, b) := acc.1.cdb.isEmpty u.base l
    ({ acc.1 with cdb := cdb }, if b then acc.2 else acc.2 + 1)) (s, 0)

def tmAdd (s : St) (k : FKey) : St :=
  { s with tm := s.tm.addRuleKey ⟨k.parent, k.children, k.shifts⟩, log := s.log ++ [k] }

/-- `RuleDBForest.add` (with `_add_empty_rule`, reverse keys when `reverse` is on) -/
def dbAdd (u : FUniverse) (s : St) (start : Nat) (ends : List Nat) (r : RuleOut) : St :=
  -- _add_empty_rule
  let s := if r.flags.possiblyEmpty then
      ends.foldl (fun (s : St) l =>
        if s.alreadyEmpty.contains l then s else
        let (cdb, b) := s.cdb.isEmpty u.base l
        let s := { s with cdb := cdb }
        if b then
          let s := { s with alreadyEmpty := l :: s.alreadyEmpty, q := s.q.setStop l }
          tmAdd s ⟨l, [], [], 0⟩
        else s) s
    else s
  let sh := shiftsOf u r
  let (s, ne) := nonEmptyCount u s ends
  let bucket (eqv : Bool) (rev : Bool) : Nat := if r.isVer then 0 else if eqv then 1 else if rev then 3 else 2
  let s := tmAdd s ⟨start, ends, sh, bucket (!r.isVer && ne == 1) false⟩
  if u.reverse && !r.isVer then
    (List.range ends.length).foldl (fun (s : St) i =>
      let p := - sh.getD i 0
      let rsh := p :: ((sh.eraseIdx i).map (· + p))
      let ch := start :: ends.eraseIdx i
      let (s, ne') := nonEmptyCount u s ch
      tmAdd s ⟨ends.getD i 0, ch, rsh, bucket (ne' == 1) true⟩) s
  else s

/-- label children (in order), then the parent; `none` when the rule is the self-equivalence that
`_expand_class_with_strategy` filters out -/
def labelRule (s : St) (x lbl : Nat) (r : RuleOut) : Option (St × Nat × List Nat) :=
  if r.children.length == 1 && r.children.head! == r.parent then none else
  let (cdb, ends) := r.children.foldl (fun (acc : CDB × List Nat) c =>
      let (cdb, l) := acc.1.getLabel c; (cdb, acc.2 ++ [l])) (s.cdb, [])
  let (cdb, start) := if r.parent == x then (cdb, lbl) else cdb.getLabel r.parent
  some ({ s with cdb := cdb }, start, ends)

mutual
  /-- `add_rule` -/
  def addRule (u : FUniverse) : Nat → St → Nat → List Nat → RuleOut → St
    | 0, s, _, _, _ => s
    | fuel+1, s, start, ends, r =>
      let s := (r.children.zip ends).foldl (fun s (ce : Nat × Nat) =>
          let (c, l) := ce
          let s := if !r.flags.possiblyEmpty then { s with cdb := s.cdb.setEmpty l false } else s
          let s := if !u.base.sym.isEmpty && !s.symExp.contains l then symExpand u fuel s c l else s
          let s := if r.flags.workable then { s with q := s.q.add (packOf u) l } else s
          let s := if !r.flags.inferrable then { s with q := s.q.setNotInferrable l } else s
          tryVerify u fuel s c l) s
      let s := if r.flags.ignoreParent then { s with q := s.q.setStop start } else s
      dbAdd u s start ends r
  /-- `try_verify` -/
  def tryVerify (u : FUniverse) : Nat → St → Nat → Nat → St
    | 0, s, _, _ => s
    | fuel+1, s, x, l =>
      if s.tried.contains l then s else
      let s := { s with tried := l :: s.tried }
      let (cdb, b) := s.cdb.isEmpty u.base l
      let s := { s with cdb := cdb }
      if b then s else
      u.base.ver.foldl (fun s σ =>
        if (s.tm.val l == none) then s else
        (u.base.apply σ x).foldl (fun s r =>
          match labelRule s x l r with
          | none => s
          | some (s, start, ends) => addRule u fuel s start ends r) s) s
  /-- `_symmetry_expand` -/
  def symExpand (u : FUniverse) : Nat → St → Nat → Nat → St
    | 0, s, _, _ => s
    | _fuel+1, s, x, l =>
      let (cdb, b) := s.cdb.isEmpty u.base l
      let s := { s with cdb := cdb }
      let (s, syms) := u.base.sym.foldl (fun (acc : St × List Nat) σ =>
        (u.base.apply σ x).foldl (fun (acc : St × List Nat) r =>
          let (s, syms) := acc
          match labelRule s x l r with
          | none => (s, syms)
          | some (s, start, ends) =>
            let sl := ends.head!
            let s := { s with cdb := s.cdb.setEmpty sl b }
            let s := dbAdd u s start [sl] r
            ({ s with q := s.q.setStop sl }, syms ++ [sl])) acc) (s, [l])
      { s with symExp := s.symExp ++ syms.filter (fun y => !s.symExp.contains y) }
end

/-- first inferral strategy (in order, skipping `skip`) that yields a recordable rule -/
def firstInf (u : FUniverse) (s : St) (x l : Nat) (skip : Option Nat) : Nat → List Nat →
    Option (Nat × Nat × RuleOut × St × Nat × List Nat)
  | _, [] => none
  | i, σ :: rest =>
    if some σ == skip then firstInf u s x l skip (i+1) rest else
    match (u.base.apply σ x).filterMap (fun r => (labelRule s x l r).map (fun t => (r, t))) with
    | [] => firstInf u s x l skip (i+1) rest
    | (r, (s', start, ends)) :: _ => some (i, σ, r, s', start, ends)

/-- `_inferral_expand` -/
def infExpand (u : FUniverse) : Nat → St → Nat → Nat → List Nat → Option Nat → St
  | 0, s, _, _, _, _ => s
  | fuel+1, s, x, l, strats, skip =>
    if s.infExp.contains l then s else
    let s := { s with infExp := l :: s.infExp }
    let s :=
      match firstInf u s x l skip 0 strats with
      | none => s
      | some (i, σ, r, s, start, ends) =>
        let s := addRule u fuel s start ends r
        let s := { s with q := s.q.setNotInferrable start }
        let rot := strats.drop (i+1) ++ strats.take (i+1)
        infExpand u fuel s r.children.head! ends.head! rot (some σ)
    { s with q := s.q.setNotInferrable l }

def stratsOf (u : FUniverse) : Work → List Nat
  | .inferral => u.base.inferral
  | .initial i => [u.base.initial.getD i 0]
  | .expansion j i => [(u.base.expansion.getD j []).getD i 0]

/-- one packet of `_expand_classes_for` -/
def stepEngine (u : FUniverse) (fuel : Nat) (s : St) : St × Option WP :=
  match Q.next (packOf u) 100000 s.q with
  | (q, .yield w) =>
    let s := { s with q := q }
    let x := s.cdb.classes.getD w.label 0
    if u.base.expandVerified || !(s.tm.val w.label == none) then
      match w.work with
      | .inferral => (infExpand u fuel s x w.label u.base.inferral none, some w)
      | _ =>
        let s := (stratsOf u w.work).foldl (fun s σ =>
          (u.base.apply σ x).foldl (fun s r =>
            match labelRule s x w.label r with
            | none => s
            | some (s, start, ends) => addRule u fuel s start ends r) s) s
        (s, some w)
    else (s, some w)
  | (q, _) => ({ s with q := q }, none)

def initEngine (u : FUniverse) (fuel : Nat) (startClass : Nat) : St :=
  let cdb : CDB := { classes := [startClass], empties := [none] }
  let q := (Q.init (packOf u)).add (packOf u) 0
  let s : St := { cdb := cdb, q := q, tm := {}, alreadyEmpty := [], tried := [], symExp := [], infExp := [], log := [] }
  let s := tryVerify u fuel s startClass 0
  if !u.base.sym.isEmpty then symExpand u fuel s startClass 0 else s

end E3
