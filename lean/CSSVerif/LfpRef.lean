import CSSVerif.Forest
/-! Executable reference for the table method, with soundness pieces. -/

def fget (f : Array Nat) (c : Nat) : Nat := f[c]?.getD 0

theorem fget_set (f : Array Nat) (p v c : Nat) :
    fget (f.setIfInBounds p v) c = if p = c ∧ p < f.size then v else fget f c := by
  unfold fget
  rw [Array.getElem?_setIfInBounds]
  by_cases h : p = c
  · subst h
    by_cases h2 : p < f.size
    · simp [h2]
    · simp [h2]
  · simp [h]

def depVal (f : Array Nat) (d : Nat × Int) : Nat := Int.toNat ((fget f d.1 : Int) + d.2)

def minFold (f : Array Nat) (ds : List (Nat × Int)) (acc : Nat) : Nat :=
  ds.foldl (fun acc d => min acc (depVal f d)) acc

theorem minFold_cons (f : Array Nat) (e : Nat × Int) (ds : List (Nat × Int)) (acc : Nat) :
    minFold f (e :: ds) acc = minFold f ds (min acc (depVal f e)) := rfl

def ruleVal (f : Array Nat) (B : Nat) (r : Rule) : Nat := minFold f r.deps B

theorem minFold_le_acc (f : Array Nat) (ds : List (Nat × Int)) (acc : Nat) : minFold f ds acc ≤ acc := by
  induction ds generalizing acc with
  | nil => simp [minFold]
  | cons d ds ih =>
    rw [minFold_cons]
    exact Nat.le_trans (ih _) (Nat.min_le_left _ _)

theorem minFold_le_dep (f : Array Nat) (ds : List (Nat × Int)) (acc : Nat) :
    ∀ d ∈ ds, minFold f ds acc ≤ depVal f d := by
  induction ds generalizing acc with
  | nil => intro d hd; cases hd
  | cons e ds ih =>
    intro d hd
    rw [minFold_cons]
    rcases List.mem_cons.1 hd with h | h
    · subst h
      exact Nat.le_trans (minFold_le_acc f ds _) (Nat.min_le_right _ _)
    · exact ih _ d h

theorem minFold_attained (f : Array Nat) (ds : List (Nat × Int)) (acc : Nat) :
    minFold f ds acc = acc ∨ ∃ d ∈ ds, minFold f ds acc = depVal f d := by
  induction ds generalizing acc with
  | nil => left; simp [minFold]
  | cons e ds ih =>
    rw [minFold_cons]
    rcases ih (min acc (depVal f e)) with h | ⟨d, hd, h⟩
    · rcases Nat.le_total acc (depVal f e) with hle | hle
      · left; rw [h]; exact Nat.min_eq_left hle
      · right; exact ⟨e, List.mem_cons_self, by rw [h]; exact Nat.min_eq_right hle⟩
    · right; exact ⟨d, List.mem_cons_of_mem _ hd, h⟩

/-- every term below `fget f c` is computable -/
def Sound (R : List Rule) (f : Array Nat) : Prop := ∀ c n, n < fget f c → Comp R c n

def upd (B : Nat) (f : Array Nat) (r : Rule) : Array Nat :=
  let v := ruleVal f B r
  if fget f r.parent < v then f.setIfInBounds r.parent v else f

theorem upd_sound {R : List Rule} {B : Nat} {f : Array Nat} {r : Rule} (hr : r ∈ R)
    (hs : Sound R f) : Sound R (upd B f r) := by
  unfold upd
  simp only
  split
  · intro c n hn
    rw [fget_set] at hn
    split at hn
    · rename_i hc
      obtain ⟨hpc, _⟩ := hc
      subst hpc
      refine Comp.mk r n hr ?_
      intro d hd m hm
      have h1 : ruleVal f B r ≤ depVal f d := minFold_le_dep f r.deps B d hd
      have h2 : n < depVal f d := Nat.lt_of_lt_of_le hn h1
      unfold depVal at h2
      apply hs
      omega
    · exact hs c n hn
  · exact hs

def pass (R : List Rule) (B : Nat) (f : Array Nat) : Array Nat := R.foldl (upd B) f

theorem pass_sound {R : List Rule} {B : Nat} (R' : List Rule) (hsub : ∀ r ∈ R', r ∈ R)
    {f : Array Nat} (hs : Sound R f) : Sound R (pass R' B f) := by
  induction R' generalizing f with
  | nil => simpa [pass] using hs
  | cons r R' ih =>
    simp only [pass, List.foldl_cons]
    exact ih (fun r' h => hsub r' (List.mem_cons_of_mem _ h)) (upd_sound (hsub r List.mem_cons_self) hs)

theorem upd_size (B : Nat) (f : Array Nat) (r : Rule) : (upd B f r).size = f.size := by
  unfold upd; simp only; split <;> simp

theorem upd_ge (B : Nat) (f : Array Nat) (r : Rule) (c : Nat) : fget f c ≤ fget (upd B f r) c := by
  unfold upd; simp only
  split
  · rw [fget_set]; split
    · rename_i h hc; obtain ⟨hpc, _⟩ := hc; subst hpc; exact Nat.le_of_lt h
    · exact Nat.le_refl _
  · exact Nat.le_refl _

theorem pass_size (R : List Rule) (B : Nat) (f : Array Nat) : (pass R B f).size = f.size := by
  induction R generalizing f with
  | nil => rfl
  | cons r R ih => simp only [pass, List.foldl_cons]; exact (ih (upd B f r)).trans (upd_size B f r)

theorem pass_ge (R : List Rule) (B : Nat) (f : Array Nat) (c : Nat) : fget f c ≤ fget (pass R B f) c := by
  induction R generalizing f with
  | nil => exact Nat.le_refl _
  | cons r R ih =>
    simp only [pass, List.foldl_cons]
    exact Nat.le_trans (upd_ge B f r c) (ih (upd B f r))

/-- a rule is *blocked* at `f` if it cannot raise its parent -/
def Blocked (B : Nat) (f : Array Nat) (r : Rule) : Prop := ¬ (fget f r.parent < ruleVal f B r)

theorem pass_fix {R : List Rule} {B : Nat} {f : Array Nat} (hp : ∀ r ∈ R, r.parent < f.size)
    (h : pass R B f = f) : ∀ r ∈ R, Blocked B f r := by
  induction R generalizing f with
  | nil => intro r hr; cases hr
  | cons r R ih =>
    simp only [pass, List.foldl_cons] at h
    have hb : Blocked B f r := by
      intro hlt
      -- the update fires and strictly raises the parent; later updates never lower it
      have h1 : fget (upd B f r) r.parent = ruleVal f B r := by
        unfold upd; simp only; rw [if_pos hlt, fget_set]
        simp [hp r List.mem_cons_self]
      have h2 := pass_ge R B (upd B f r) r.parent
      have h3 : fget (pass R B (upd B f r)) r.parent = fget f r.parent := by
        show fget (List.foldl (upd B) (upd B f r) R) r.parent = _
        rw [h]
      omega
    have hu : upd B f r = f := by
      unfold upd; simp only; rw [if_neg hb]
    rw [hu] at h
    intro r' hr'
    rcases List.mem_cons.1 hr' with e | e
    · subst e; exact hb
    · exact ih (fun r'' h'' => hp r'' (List.mem_cons_of_mem _ h'')) h r' e

theorem blocked_dep {B : Nat} {f : Array Nat} {r : Rule} (hb : Blocked B f r) (hlt : fget f r.parent < B) :
    ∃ d ∈ r.deps, (fget f d.1 : Int) + d.2 ≤ fget f r.parent := by
  unfold Blocked ruleVal at hb
  rcases minFold_attained f r.deps B with h | ⟨d, hd, h⟩
  · omega
  · refine ⟨d, hd, ?_⟩
    rw [h] at hb
    unfold depVal at hb
    omega

def iter (R : List Rule) (B : Nat) : Nat → Array Nat → Option (Array Nat)
  | 0, _ => none
  | fuel+1, f => let f' := pass R B f; if f' = f then some f else iter R B fuel f'

theorem iter_spec {R : List Rule} {B : Nat} (fuel : Nat) (f g : Array Nat)
    (hs : Sound R f) (h : iter R B fuel f = some g) :
    Sound R g ∧ pass R B g = g ∧ g.size = f.size := by
  induction fuel generalizing f with
  | zero => simp [iter] at h
  | succ fuel ih =>
    simp only [iter] at h
    split at h
    · rename_i heq
      injection h with h; subst h
      exact ⟨hs, heq, rfl⟩
    · have := ih (pass R B f) (pass_sound R (fun _ h => h) hs) h
      exact ⟨this.1, this.2.1, this.2.2.trans (pass_size R B f)⟩

def maxAbs (R : List Rule) : Nat :=
  R.foldl (fun g r => r.shifts.foldl (fun g s => max g s.natAbs) g) 1

theorem foldl_max_ge (ss : List Int) (g : Nat) : g ≤ ss.foldl (fun g s => max g s.natAbs) g := by
  induction ss generalizing g with
  | nil => exact Nat.le_refl _
  | cons s ss ih => exact Nat.le_trans (Nat.le_max_left _ _) (ih _)

theorem foldl_max_mem (ss : List Int) (g : Nat) : ∀ s ∈ ss, s.natAbs ≤ ss.foldl (fun g s => max g s.natAbs) g := by
  induction ss generalizing g with
  | nil => intro s hs; cases hs
  | cons t ss ih =>
    intro s hs
    rcases List.mem_cons.1 hs with e | e
    · subst e; exact Nat.le_trans (Nat.le_max_right _ _) (foldl_max_ge ss _)
    · exact ih _ s e

theorem maxAbs_aux_ge (R : List Rule) (g : Nat) :
    g ≤ R.foldl (fun g r => r.shifts.foldl (fun g s => max g s.natAbs) g) g := by
  induction R generalizing g with
  | nil => exact Nat.le_refl _
  | cons r R ih => exact Nat.le_trans (foldl_max_ge r.shifts g) (ih _)

theorem maxAbs_aux_mem (R : List Rule) (g : Nat) : ∀ r ∈ R, ∀ s ∈ r.shifts,
    s.natAbs ≤ R.foldl (fun g r => r.shifts.foldl (fun g s => max g s.natAbs) g) g := by
  induction R generalizing g with
  | nil => intro r hr; cases hr
  | cons t R ih =>
    intro r hr s hs
    rcases List.mem_cons.1 hr with e | e
    · subst e; exact Nat.le_trans (foldl_max_mem r.shifts g s hs) (maxAbs_aux_ge R _)
    · exact ih _ r e s hs

theorem maxAbs_spec (R : List Rule) : 1 ≤ maxAbs R ∧ ∀ r ∈ R, ∀ d ∈ r.deps, d.2.natAbs ≤ maxAbs R := by
  refine ⟨maxAbs_aux_ge R 1, ?_⟩
  intro r hr d hd
  have : d.2 ∈ r.shifts := (List.of_mem_zip hd).2
  exact maxAbs_aux_mem R 1 r hr d.2 this

def windowOk (f : Array Nat) (G B k : Nat) : Bool :=
  decide (1 ≤ k) && decide (k + G ≤ B) && f.all (fun v => decide (v < k) || decide (k + G ≤ v))

def gapStart (f : Array Nat) (G B : Nat) : Option Nat := (List.range (B + 1)).find? (windowOk f G B)

theorem windowOk_spec {f : Array Nat} {G B k : Nat} (h : windowOk f G B k = true) :
    1 ≤ k ∧ k + G ≤ B ∧ ∀ c, fget f c < k ∨ k + G ≤ fget f c := by
  unfold windowOk at h
  simp only [Bool.and_eq_true, decide_eq_true_eq, Array.all_eq_true, Bool.or_eq_true] at h
  obtain ⟨⟨h1, h2⟩, h3⟩ := h
  refine ⟨h1, h2, ?_⟩
  intro c
  unfold fget
  by_cases hc : c < f.size
  · have := h3 c hc
    simp [hc]; exact this
  · simp [hc]; left; omega

def lfpRef (R : List Rule) (N : Nat) : Option (Array (Option Nat)) :=
  let G := maxAbs R
  let B := (N + 1) * G + 1
  match iter R B (N * B + 2) (Array.replicate N 0) with
  | none => none
  | some f =>
    match gapStart f G B with
    | none => none
    | some k => some (f.map (fun v => if k + G ≤ v then none else some v))

theorem sound_zero (R : List Rule) (N : Nat) : Sound R (Array.replicate N 0) := by
  intro c n hn
  unfold fget at hn
  rw [Array.getElem?_replicate] at hn
  split at hn <;> simp at hn

/-- Main theorem: whatever `lfpRef` answers is the least fixed point of the
"terms computable" operator, phrased through `Comp`. -/
theorem lfpRef_correct (R : List Rule) (N : Nat) (out : Array (Option Nat))
    (hwf : ∀ r ∈ R, r.parent < N) (h : lfpRef R N = some out) :
    out.size = N ∧ ∀ c, c < N →
      (out[c]? = some none → ∀ n, Comp R c n) ∧
      (∀ v, out[c]? = some (some v) → (∀ n, n < v → Comp R c n) ∧ ¬ Comp R c v) ∧
      (out[c]? ≠ none) := by
  unfold lfpRef at h
  simp only at h
  split at h
  · cases h
  · rename_i f hiter
    split at h
    · cases h
    · rename_i k hgap
      injection h with h
      obtain ⟨hsound, hfix, hsize⟩ := iter_spec _ _ _ (sound_zero R N) hiter
      have hsize' : f.size = N := by rw [hsize]; simp
      have hw := windowOk_spec (List.find?_some hgap)
      obtain ⟨hk1, hkB, hwin⟩ := hw
      obtain ⟨hG1, hGb⟩ := maxAbs_spec R
      have hblocked := pass_fix (f := f) (fun r hr => by rw [hsize']; exact hwf r hr) hfix
      -- completeness below the window
      have hbelow := Comp.below_gap (R := R) (fget f) (maxAbs R) k ((N + 1) * maxAbs R + 1)
        (fun r hr d hd => by have := hGb r hr d hd; omega) hwin (by omega)
        (fun r hr hlt => blocked_dep (hblocked r hr) hlt)
      -- the window is genuinely empty in the least fixed point
      have hgapC : ∀ c, Comp R c (k - 1) → Comp R c (k + maxAbs R - 1) := by
        intro c hc
        rcases hbelow c (k - 1) hc with h1 | h1
        · exact hsound c _ (by omega)
        · rcases hwin c with h2 | h2
          · omega
          · exact hsound c _ (by omega)
      have hpump := fun c hc => Comp.pump_all (R := R) (maxAbs R) k hk1
        (fun r hr d hd => by have := hGb r hr d hd; omega) hgapC c hc
      subst h
      refine ⟨by simp [hsize'], ?_⟩
      intro c hc
      have hcf : c < f.size := by omega
      have hval : fget f c = f[c] := by unfold fget; simp [hcf]
      simp only [Array.getElem?_map, hcf, getElem?_pos, Option.map_some]
      refine ⟨?_, ?_, by simp⟩
      · intro hnone
        have : k + maxAbs R ≤ f[c] := by
          by_cases hh : k + maxAbs R ≤ f[c]
          · exact hh
          · simp [hh] at hnone
        exact hpump c (hsound c _ (by omega))
      · intro v hv
        have hlt : ¬ (k + maxAbs R ≤ f[c]) := by
          intro hh; simp [hh] at hv
        simp [hlt] at hv
        subst hv
        refine ⟨fun n hn => hsound c n (by omega), ?_⟩
        intro hcomp
        rcases hbelow c _ hcomp with h1 | h1 <;> omega
#print axioms lfpRef_correct
