/-! C11: the greedy minimisation of ForestRuleExtractor, over an abstract monotone productivity test.
`α` is the type of rule keys. -/
variable {α : Type}

/-- second phase of `_minimize_key` (argument: `maybe_useful` reversed) -/
def phase2G (prod : List α → Bool) (others : List α) : List α → List α → List α
  | needed, [] => needed
  | needed, rk :: restRev =>
    let needed' := if prod (needed ++ restRev.reverse ++ others) then needed else needed ++ [rk]
    phase2G prod others needed' restRev

/-- `x` is *necessary* in the universe `U`: some unproductive set contains everything of `U` except `x` -/
def Necessary (prod : List α → Bool) (U : List α) (x : α) : Prop :=
  ∃ S, prod S = false ∧ ∀ y ∈ U, y ≠ x → y ∈ S

theorem Necessary.shrink {prod : List α → Bool} {U U' : List α} {x : α}
    (h : Necessary prod U x) (hsub : ∀ y ∈ U', y ∈ U) : Necessary prod U' x := by
  obtain ⟨S, hS, hall⟩ := h
  exact ⟨S, hS, fun y hy hne => hall y (hsub y hy) hne⟩

theorem phase2G_sub (prod : List α → Bool) (others : List α) : ∀ (revM needed : List α),
    ∀ x ∈ phase2G prod others needed revM, x ∈ needed ∨ x ∈ revM
  | [], needed, x, hx => Or.inl hx
  | rk :: restRev, needed, x, hx => by
    simp only [phase2G] at hx
    split at hx
    · rcases phase2G_sub prod others restRev needed x hx with h | h
      · exact Or.inl h
      · exact Or.inr (List.mem_cons_of_mem _ h)
    · rcases phase2G_sub prod others restRev (needed ++ [rk]) x hx with h | h
      · rcases List.mem_append.1 h with h | h
        · exact Or.inl h
        · simp only [List.mem_singleton] at h; subst h; exact Or.inr List.mem_cons_self
      · exact Or.inr (List.mem_cons_of_mem _ h)

theorem phase2G_sup (prod : List α → Bool) (others : List α) : ∀ (revM needed : List α),
    ∀ x ∈ needed, x ∈ phase2G prod others needed revM
  | [], _, x, hx => hx
  | rk :: restRev, needed, x, hx => by
    simp only [phase2G]
    split
    · exact phase2G_sup prod others restRev needed x hx
    · exact phase2G_sup prod others restRev (needed ++ [rk]) x (List.mem_append_left _ hx)

/-- the productive invariant is kept -/
theorem phase2G_productive (prod : List α → Bool)
    (hmono : ∀ a b : List α, (∀ x ∈ a, x ∈ b) → prod a = true → prod b = true) (others : List α) :
    ∀ (revM needed : List α), prod (needed ++ revM.reverse ++ others) = true →
      prod (phase2G prod others needed revM ++ others) = true
  | [], needed, h => by simpa [phase2G] using h
  | rk :: restRev, needed, h => by
    simp only [phase2G]
    split
    · rename_i hp
      exact phase2G_productive prod hmono others restRev needed hp
    · apply phase2G_productive prod hmono others restRev (needed ++ [rk])
      apply hmono _ _ _ h
      intro x hx
      simp only [List.reverse_cons, List.mem_append, List.mem_singleton, List.mem_reverse] at hx ⊢
      rcases hx with (h1 | h2 | h3) | h4
      · exact Or.inl (Or.inl (Or.inl h1))
      · exact Or.inl (Or.inr h2)
      · exact Or.inl (Or.inl (Or.inr h3))
      · exact Or.inr h4

/-- every rule the second phase adds is necessary in the universe that is left afterwards -/
theorem phase2G_necessary (prod : List α → Bool)
    (hmono : ∀ a b : List α, (∀ x ∈ a, x ∈ b) → prod a = true → prod b = true) (others : List α) :
    ∀ (revM needed : List α), ∀ x ∈ phase2G prod others needed revM, x ∉ needed →
      Necessary prod (phase2G prod others needed revM ++ others) x
  | [], needed, x, hx, hn => absurd hx hn
  | rk :: restRev, needed, x, hx, hn => by
    simp only [phase2G] at hx ⊢
    split at hx
    · rename_i hp
      simp only [hp, ↓reduceIte]
      exact phase2G_necessary prod hmono others restRev needed x hx hn
    · rename_i hp
      simp only [hp]
      by_cases hxn : x ∈ needed ++ [rk]
      · -- x is the rule just kept: the unproductive witness is `needed ++ maybe' ++ others`
        have hxrk : x = rk := by
          rcases List.mem_append.1 hxn with h | h
          · exact absurd h hn
          · simpa using h
        subst hxrk
        refine ⟨needed ++ restRev.reverse ++ others, by simpa using hp, ?_⟩
        intro y hy hne
        rcases List.mem_append.1 hy with h | h
        · rcases phase2G_sub prod others restRev (needed ++ [x]) y h with h1 | h1
          · rcases List.mem_append.1 h1 with h2 | h2
            · exact List.mem_append_left _ (List.mem_append_left _ h2)
            · simp only [List.mem_singleton] at h2; exact absurd h2 hne
          · exact List.mem_append_left _ (List.mem_append_right _ (List.mem_reverse.2 h1))
        · exact List.mem_append_right _ h
      · exact phase2G_necessary prod hmono others restRev (needed ++ [rk]) x hx hxn
#print axioms phase2G_necessary
#print axioms phase2G_productive
