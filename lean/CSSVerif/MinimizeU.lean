import CSSVerif.MinimizeAll
import CSSVerif.ExtractCheck
/-! C11: the minimisation theorems with monotonicity of the productivity test required only inside a universe of good
(well-formed) rule lists, and their instance for the `lfpRef`-based test: no hypothesis about the test is left. -/
variable {α : Type}

/-- `Good` lists are closed under taking lists of their elements; the test is monotone towards good lists -/
structure MonoIn (prod : List α → Bool) (Good : List α → Prop) : Prop where
  clos : ∀ b b' : List α, Good b → (∀ x ∈ b', x ∈ b) → Good b'
  mono : ∀ a b : List α, Good b → (∀ x ∈ a, x ∈ b) → prod a = true → prod b = true

theorem phase2G_productiveU (prod : List α → Bool) {Good : List α → Prop} (hm : MonoIn prod Good) (others : List α) :
    ∀ (revM needed : List α), Good (needed ++ revM.reverse ++ others) → prod (needed ++ revM.reverse ++ others) = true →
      prod (phase2G prod others needed revM ++ others) = true
  | [], needed, _, h => by simpa [phase2G] using h
  | rk :: restRev, needed, hg, h => by
    simp only [phase2G]
    split
    · rename_i hp
      refine phase2G_productiveU prod hm others restRev needed (hm.clos _ _ hg ?_) hp
      intro x hx
      simp only [List.reverse_cons, List.mem_append, List.mem_singleton, List.mem_reverse] at hx ⊢
      rcases hx with (h1 | h2) | h3
      · exact Or.inl (Or.inl h1)
      · exact Or.inl (Or.inr (Or.inl h2))
      · exact Or.inr h3
    · have hsub : ∀ x ∈ needed ++ [rk] ++ restRev.reverse ++ others, x ∈ needed ++ (rk :: restRev).reverse ++ others := by
        intro x hx
        simp only [List.reverse_cons, List.mem_append, List.mem_singleton, List.mem_reverse] at hx ⊢
        rcases hx with ((h1 | h2) | h3) | h4
        · exact Or.inl (Or.inl h1)
        · exact Or.inl (Or.inr (Or.inr h2))
        · exact Or.inl (Or.inr (Or.inl h3))
        · exact Or.inr h4
      have hsub' : ∀ x ∈ needed ++ (rk :: restRev).reverse ++ others, x ∈ needed ++ [rk] ++ restRev.reverse ++ others := by
        intro x hx
        simp only [List.reverse_cons, List.mem_append, List.mem_singleton, List.mem_reverse] at hx ⊢
        rcases hx with (h1 | h2 | h3) | h4
        · exact Or.inl (Or.inl (Or.inl h1))
        · exact Or.inl (Or.inr h2)
        · exact Or.inl (Or.inl (Or.inr h3))
        · exact Or.inr h4
      have hg' := hm.clos _ _ hg hsub
      exact phase2G_productiveU prod hm others restRev (needed ++ [rk]) hg' (hm.mono _ _ hg' hsub' h)

theorem phase2G_necessaryU (prod : List α → Bool) (others : List α) :
    ∀ (revM needed : List α), ∀ x ∈ phase2G prod others needed revM, x ∉ needed →
      Necessary prod (phase2G prod others needed revM ++ others) x
  | [], needed, x, hx, hn => absurd hx hn
  | rk :: restRev, needed, x, hx, hn => by
    simp only [phase2G] at hx ⊢
    split at hx
    · rename_i hp
      simp only [hp, ↓reduceIte]
      exact phase2G_necessaryU prod others restRev needed x hx hn
    · rename_i hp
      simp only [hp]
      by_cases hxn : x ∈ needed ++ [rk]
      · have hxrk : x = rk := by
          rcases List.mem_append.1 hxn with h | h
          · exact absurd h hn
          · simpa using h
        subst hxrk
        refine ⟨needed ++ restRev.reverse ++ others, by simpa using hp, ?_⟩
        intro y hy hne
        rcases List.mem_append.1 hy with h | h
        · rcases phase2G_sub prod others restRev (needed ++ [x]) y h with h1 | h1
          · rcases List.mem_append.1 h1 with h2 | h2
            · exact List.mem_append_left _ (List.mem_append_left _ h2)
            · simp only [List.mem_singleton] at h2; exact absurd h2 hne
          · exact List.mem_append_left _ (List.mem_append_right _ (List.mem_reverse.2 h1))
        · exact List.mem_append_right _ h
      · exact phase2G_necessaryU prod others restRev (needed ++ [rk]) x hx hxn

theorem phase1G_specU [Inhabited α] (prod : List α → Bool) {Good : List α → Prop} (hm : MonoIn prod Good) (fixed : List α) :
    ∀ (fuel : Nat) (minimizing maybe : List α), minimizing.length < fuel →
      Good (fixed ++ maybe ++ minimizing) → prod (fixed ++ maybe ++ minimizing) = true →
      prod (fixed ++ phase1G prod fuel fixed minimizing maybe) = true
  | 0, _, _, hf, _, _ => by omega
  | fuel+1, minimizing, maybe, hf, hg, hp => by
    unfold phase1G
    split
    · rename_i he
      have : minimizing = [] := by simpa using he
      subst this
      simpa using hp
    · split
      · rename_i hq; exact hq
      · rename_i hne hq
        split
        · rename_i hnone
          exfalso
          have hlen : 0 < minimizing.length := by
            cases minimizing with
            | nil => simp at hne
            | cons _ _ => simp
          have := List.find?_eq_none.1 hnone (minimizing.length - 1) (by simp; omega)
          have e : minimizing.take (minimizing.length - 1 + 1) = minimizing := by
            rw [Nat.sub_add_cancel hlen]; exact List.take_length
          rw [e] at this
          exact this hp
        · rename_i i hsome
          have hi := List.find?_some hsome
          have hmem := List.mem_of_find?_eq_some hsome
          have hil : i < minimizing.length := by simpa using hmem
          have hget : minimizing.getD i default = minimizing[i] := by
            rw [List.getD_eq_getElem?_getD, List.getElem?_eq_getElem hil]; rfl
          have htk : ∀ y, y ∈ minimizing.take (i + 1) → y ∈ minimizing.take i ∨ y = minimizing[i] := by
            intro y hy
            rw [List.take_add_one, List.getElem?_eq_getElem hil] at hy
            simp only [Option.toList_some, List.mem_append, List.mem_singleton] at hy
            exact hy
          have hsubG : ∀ x ∈ fixed ++ (maybe ++ [minimizing.getD i default]) ++ minimizing.take i, x ∈ fixed ++ maybe ++ minimizing := by
            intro x hx
            simp only [List.mem_append, List.mem_singleton] at hx ⊢
            rcases hx with (h1 | h2 | h3) | h4
            · exact Or.inl (Or.inl h1)
            · exact Or.inl (Or.inr h2)
            · rw [h3, hget]; exact Or.inr (List.getElem_mem hil)
            · exact Or.inr (List.mem_of_mem_take h4)
          have hg' := hm.clos _ _ hg hsubG
          have hstep : prod (fixed ++ (maybe ++ [minimizing.getD i default]) ++ minimizing.take i) = true := by
            apply hm.mono _ _ hg' _ hi
            intro x hx
            simp only [List.mem_append, List.mem_singleton] at hx ⊢
            rcases hx with (h1 | h2) | h3
            · exact Or.inl (Or.inl h1)
            · exact Or.inl (Or.inr (Or.inl h2))
            · rcases htk x h3 with h4 | h4
              · exact Or.inr h4
              · exact Or.inl (Or.inr (Or.inr (by rw [hget]; exact h4)))
          have hlt : (minimizing.take i).length < fuel := by rw [List.length_take]; omega
          exact phase1G_specU prod hm fixed fuel (minimizing.take i) _ hlt hg' hstep

theorem minG_specU [Inhabited α] (prod : List α → Bool) {Good : List α → Prop} (hm : MonoIn prod Good) :
    ∀ (buckets : List (List α)) (needed : List α), Good (needed ++ buckets.flatten) → prod (needed ++ buckets.flatten) = true →
      prod (minG prod needed buckets) = true ∧
      ∀ x ∈ minG prod needed buckets, x ∉ needed → Necessary prod (minG prod needed buckets) x
  | [], needed, _, h => ⟨by simpa [minG] using h, fun x hx hn => absurd (by simpa [minG] using hx) hn⟩
  | mine :: later, needed, hg, h => by
    simp only [minG]
    have hperm1 : ∀ x ∈ needed ++ later.flatten ++ [] ++ mine, x ∈ needed ++ (mine :: later).flatten := by
      intro x hx
      simp only [List.flatten_cons, List.mem_append, List.append_nil] at hx ⊢
      rcases hx with (h1 | h2) | h3
      · exact Or.inl h1
      · exact Or.inr (Or.inr h2)
      · exact Or.inr (Or.inl h3)
    have hperm2 : ∀ x ∈ needed ++ (mine :: later).flatten, x ∈ needed ++ later.flatten ++ [] ++ mine := by
      intro x hx
      simp only [List.flatten_cons, List.mem_append, List.append_nil] at hx ⊢
      rcases hx with h1 | h2 | h3
      · exact Or.inl (Or.inl h1)
      · exact Or.inr h2
      · exact Or.inl (Or.inr h3)
    have hg1 := hm.clos _ _ hg hperm1
    have hfix := hm.mono _ _ hg1 hperm2 h
    have p1 := phase1G_specU prod hm (needed ++ later.flatten) (mine.length + 1) mine [] (by omega) hg1 hfix
    have hsubM : ∀ x ∈ phase1G prod (mine.length + 1) (needed ++ later.flatten) mine [], x ∈ mine := by
      intro x hx
      rcases phase1G_sub prod _ _ _ _ x hx with h3 | h3
      · simp at h3
      · exact h3
    have hsub2 : ∀ x ∈ needed ++ (phase1G prod (mine.length + 1) (needed ++ later.flatten) mine []).reverse.reverse ++ later.flatten,
        x ∈ needed ++ (mine :: later).flatten := by
      intro x hx
      simp only [List.mem_append, List.reverse_reverse, List.flatten_cons] at hx ⊢
      rcases hx with (h1 | h2) | h3
      · exact Or.inl h1
      · exact Or.inr (Or.inl (hsubM x h2))
      · exact Or.inr (Or.inr h3)
    have hg2 := hm.clos _ _ hg hsub2
    have hp2in : prod (needed ++ (phase1G prod (mine.length + 1) (needed ++ later.flatten) mine []).reverse.reverse ++ later.flatten) = true := by
      apply hm.mono _ _ hg2 _ p1
      intro x hx
      simp only [List.mem_append, List.reverse_reverse] at hx ⊢
      rcases hx with (h1 | h2) | h3
      · exact Or.inl (Or.inl h1)
      · exact Or.inr h2
      · exact Or.inl (Or.inr h3)
    have hprod2 := phase2G_productiveU prod hm later.flatten _ needed hg2 hp2in
    have hg3 : Good (phase2G prod later.flatten needed (phase1G prod (mine.length + 1) (needed ++ later.flatten) mine []).reverse ++ later.flatten) := by
      apply hm.clos _ _ hg2
      intro x hx
      rcases List.mem_append.1 hx with h1 | h1
      · rcases phase2G_sub prod later.flatten _ needed x h1 with h2 | h2
        · exact List.mem_append_left _ (List.mem_append_left _ h2)
        · exact List.mem_append_left _ (List.mem_append_right _ (List.mem_reverse.2 h2))
      · exact List.mem_append_right _ h1
    obtain ⟨r1, r2⟩ := minG_specU prod hm later _ hg3 hprod2
    refine ⟨r1, fun x hx hn => ?_⟩
    by_cases hx2 : x ∈ phase2G prod later.flatten needed (phase1G prod (mine.length + 1) (needed ++ later.flatten) mine []).reverse
    · have hnec := phase2G_necessaryU prod later.flatten _ needed x hx2 hn
      apply hnec.shrink
      intro y hy
      rcases minG_sub prod later _ y hy with h1 | h1
      · exact List.mem_append_left _ h1
      · exact List.mem_append_right _ h1
    · exact r2 x hx hx2
#print axioms minG_specU

/-! ### the instance: the `lfpRef`-based test on well-formed keys -/
def GoodK (n : Nat) (l : List Key) : Prop := ∀ k ∈ l, k.rule.parent < n

theorem productive_eq_pumps (root n : Nat) (ks : List Key) (hwf : GoodK n ks) (hroot : root < n) :
    productive root n ks = pumps (ks.map (·.rule)) n root := by
  unfold productive pumpingSet pumps isPumping
  obtain ⟨out, hout⟩ := lfpRef_some (ks.map (·.rule)) n
  have hwf' : ∀ r ∈ ks.map (·.rule), r.parent < n := by
    intro r hr
    obtain ⟨k, hk, rfl⟩ := List.mem_map.1 hr
    exact hwf k hk
  obtain ⟨hsz, _⟩ := lfpRef_correct _ n out hwf' hout
  rw [hout]
  simp only [Option.getD_some]
  have hlt : root < out.size := by omega
  rw [Array.getD_eq_getD_getElem?, Array.getElem?_eq_getElem hlt]
  simp only [Option.getD_some]
  cases out[root] <;> rfl

theorem productive_mono (root n : Nat) (hroot : root < n) (a b : List Key) (hb : GoodK n b) (hsub : ∀ x ∈ a, x ∈ b)
    (h : productive root n a = true) : productive root n b = true := by
  have ha : GoodK n a := fun k hk => hb k (hsub k hk)
  rw [productive_eq_pumps root n a ha hroot] at h
  rw [productive_eq_pumps root n b hb hroot]
  have hwfa : ∀ r ∈ a.map (·.rule), r.parent < n := by
    intro r hr; obtain ⟨k, hk, rfl⟩ := List.mem_map.1 hr; exact ha k hk
  have hwfb : ∀ r ∈ b.map (·.rule), r.parent < n := by
    intro r hr; obtain ⟨k, hk, rfl⟩ := List.mem_map.1 hr; exact hb k hk
  rw [pumps_iff _ n root hwfb hroot]
  have := (pumps_iff _ n root hwfa hroot).1 h
  intro m
  apply Comp.mono_rules _ (this m)
  intro r hr
  obtain ⟨k, hk, rfl⟩ := List.mem_map.1 hr
  exact List.mem_map.2 ⟨k, hsub k hk, rfl⟩

theorem monoIn_productive (root n : Nat) (hroot : root < n) : MonoIn (productive root n) (GoodK n) :=
  ⟨fun b b' hb hsub k hk => hb k (hsub k hk), fun a b hb hsub h => productive_mono root n hroot a b hb hsub h⟩

theorem foldl_maxK_ge (f : Key → Nat) : ∀ (ks : List Key) (m : Nat), m ≤ ks.foldl (fun m k => max m (f k)) m ∧
    ∀ k ∈ ks, f k ≤ ks.foldl (fun m k => max m (f k)) m
  | [], m => ⟨Nat.le_refl _, fun _ h => by cases h⟩
  | x :: xs, m => by
    obtain ⟨h1, h2⟩ := foldl_maxK_ge f xs (max m (f x))
    simp only [List.foldl_cons]
    refine ⟨Nat.le_trans (Nat.le_max_left _ _) h1, fun k hk => ?_⟩
    rcases List.mem_cons.1 hk with e | e
    · subst e; exact Nat.le_trans (Nat.le_max_right _ _) h1
    · exact h2 k e

theorem foldl_max_init : ∀ (l : List Nat) (a : Nat), a ≤ l.foldl max a
  | [], a => Nat.le_refl _
  | x :: xs, a => by
    simp only [List.foldl_cons]
    exact Nat.le_trans (Nat.le_max_left _ _) (foldl_max_init xs _)

theorem nClasses_wf (ks : List Key) : GoodK (nClasses ks) ks := by
  intro k hk
  unfold nClasses
  have := (foldl_maxK_ge (fun (k : Key) => k.rule.children.foldl max k.rule.parent + 1) ks 0).2 k hk
  have h2 := foldl_max_init k.rule.children k.rule.parent
  omega

/-- **C11 (model), no hypothesis on the test.** For a root that is one of the classes of the universe, if the stable
sub-universe of `ks` is productive then the extractor model's output is productive for the root (every term of the root
computable: `Pumping`) and no rule of it can be removed. -/
theorem minimize_correct_wf (ks : List Key) (root : Nat) (hroot : root < nClasses ks)
    (hprod : productive root (nClasses ks)
      (stableByBucket ks (nClasses ks) .reverse ++ (stableByBucket ks (nClasses ks) .normal ++
       (stableByBucket ks (nClasses ks) .equiv ++ stableByBucket ks (nClasses ks) .verification))) = true) :
    productive root (nClasses ks) (minimize ks root) = true ∧
    ∀ x ∈ minimize ks root, Necessary (productive root (nClasses ks)) (minimize ks root) x := by
  rw [minimize_eq_minG]
  have hst : ∀ b, GoodK (nClasses ks) (stableByBucket ks (nClasses ks) b) := by
    intro b k hk
    unfold stableByBucket at hk
    exact nClasses_wf ks k (List.mem_filter.1 hk).1
  have hg : GoodK (nClasses ks) ([] ++ [stableByBucket ks (nClasses ks) .reverse, stableByBucket ks (nClasses ks) .normal,
      stableByBucket ks (nClasses ks) .equiv, stableByBucket ks (nClasses ks) .verification].flatten) := by
    intro k hk
    simp only [List.nil_append, List.flatten_cons, List.flatten_nil, List.append_nil, List.mem_append] at hk
    rcases hk with h | h | h | h
    · exact hst _ k h
    · exact hst _ k h
    · exact hst _ k h
    · exact hst _ k h
  have h := minG_specU (productive root (nClasses ks)) (monoIn_productive root (nClasses ks) hroot)
    [stableByBucket ks (nClasses ks) .reverse, stableByBucket ks (nClasses ks) .normal,
     stableByBucket ks (nClasses ks) .equiv, stableByBucket ks (nClasses ks) .verification] [] hg
    (by simpa using hprod)
  exact ⟨h.1, fun x hx => h.2 x hx (by simp)⟩
#print axioms minimize_correct_wf

/-- in terms of the specification of "terms computable": every term of the root is computable from the extracted rules -/
theorem minimize_pumping (ks : List Key) (root : Nat) (hroot : root < nClasses ks)
    (hprod : productive root (nClasses ks)
      (stableByBucket ks (nClasses ks) .reverse ++ (stableByBucket ks (nClasses ks) .normal ++
       (stableByBucket ks (nClasses ks) .equiv ++ stableByBucket ks (nClasses ks) .verification))) = true) :
    ∀ n, Comp ((minimize ks root).map (·.rule)) root n := by
  have h := (minimize_correct_wf ks root hroot hprod).1
  have hgood : GoodK (nClasses ks) (minimize ks root) := by
    intro k hk
    rw [minimize_eq_minG] at hk
    rcases minG_sub _ _ _ k hk with h1 | h1
    · simp at h1
    · simp only [List.flatten_cons, List.flatten_nil, List.append_nil, List.mem_append] at h1
      have hst : ∀ b, ∀ k ∈ stableByBucket ks (nClasses ks) b, k.rule.parent < nClasses ks := by
        intro b k hk
        unfold stableByBucket at hk
        exact nClasses_wf ks k (List.mem_filter.1 hk).1
      rcases h1 with h2 | h2 | h2 | h2 <;> exact hst _ k h2
  rw [productive_eq_pumps root _ _ hgood hroot] at h
  have hwf : ∀ r ∈ (minimize ks root).map (·.rule), r.parent < nClasses ks := by
    intro r hr; obtain ⟨k, hk, rfl⟩ := List.mem_map.1 hr; exact hgood k hk
  exact (pumps_iff _ _ root hwf hroot).1 h
#print axioms minimize_pumping
