import CSSVerif.Local
/-! C10 for quotients (model): what `quotientTerms` reads from the valuation. -/

theorem attachRev_map_min (a : Nat → Nat → Terms) (r : SRule) :
    (attachRev a r).map (·.minSize) = r.children.map (·.minSize) := by
  unfold attachRev
  rw [List.map_map]
  have : ((fun (c : Child) => c.minSize) ∘ fun (cj : Child × Nat) => ({ cj.1 with terms := a (revClass r cj.2) } : Child)) =
         (fun (c : Child) => c.minSize) ∘ Prod.fst := rfl
  rw [this, ← List.map_map, List.zipIdx_map_fst]

theorem attachRev_getD_min (a : Nat → Nat → Terms) (r : SRule) (j : Nat) :
    ((attachRev a r).getD j dfltChild).minSize = (r.children.getD j dfltChild).minSize := by
  unfold attachRev
  simp only [List.getD_eq_getElem?_getD, List.getElem?_map, List.getElem?_zipIdx]
  cases h : r.children[j]? with
  | none => simp [dfltChild]
  | some c => simp

theorem attachRev_getD_data' (a : Nat → Nat → Terms) (r : SRule) (j : Nat) :
    ((attachRev a r).getD j dfltChild).names = (r.children.getD j dfltChild).names ∧
    ((attachRev a r).getD j dfltChild).emap = (r.children.getD j dfltChild).emap := attachRev_getD_data a r j

theorem qShift_attachRev (a : Nat → Nat → Terms) (r : SRule) : qShift (attachRev a r) r.idx = qShift r.children r.idx := by
  unfold qShift
  rw [attachRev_map_min, attachRev_getD_min]

theorem qBoundsA_attachRev (a : Nat → Nat → Terms) (r : SRule) (n : Nat) :
    qBoundsA (attachRev a r) r.idx n = qBoundsA r.children r.idx n := by
  unfold qBoundsA attachRev
  apply List.ext_getElem?
  intro j
  simp only [List.getElem?_map, List.getElem?_zipIdx, Nat.zero_add]
  cases h : r.children[j]? with
  | none => simp
  | some c => simp

/-- the non-flipped children of `attachRev a r`, over a base list that does not depend on `a` -/
def othersBase (r : SRule) : List ((Child × Nat) × Nat) :=
  List.filter (fun (x : (Child × Nat) × Nat) => x.2 != r.idx) r.children.zipIdx.zipIdx

theorem qOthers_attachRev (a : Nat → Nat → Terms) (r : SRule) :
    qOthers (attachRev a r) r.idx = (othersBase r).map (fun x => ({ x.1.1 with terms := a (revClass r x.1.2) } : Child)) := by
  unfold qOthers attachRev othersBase
  rw [List.zipIdx_map, List.filter_map, List.map_map]
  apply List.map_congr_left
  intro x _
  rfl

theorem qOthers_bounds_attachRev (a : Nat → Nat → Terms) (r : SRule) :
    (qOthers (attachRev a r) r.idx).map (fun c => (c.minSize, c.maxSize)) = (othersBase r).map (fun x => (x.1.1.minSize, x.1.1.maxSize)) := by
  rw [qOthers_attachRev, List.map_map]
  apply List.map_congr_left
  intro x _
  rfl

/-- **quotient congruence**: `quotientTerms` on `attachRev a r` and on `attachRev b r` agree as soon as `a` and `b`
agree (i) on the original parent at size `n + shift`, (ii) on child `j` at the parts of the compositions `_a` ranges
over, (iii) on the other children at the parts of the compositions `_c` ranges over -/
theorem quotient_congr (r : SRule) (a b : Nat → Nat → Terms) (n : Nat)
    (hp : a (r.sub.headD 0) (n + qShift r.children r.idx) = b (r.sub.headD 0) (n + qShift r.children r.idx))
    (hA : n ≠ 0 → ∀ sizes ∈ comps ((n + qShift r.children r.idx : Nat) : Int) (qBoundsA r.children r.idx n),
          ∀ p ∈ r.children.zipIdx.zip sizes, a (revClass r p.1.2) p.2 = b (revClass r p.1.2) p.2)
    (hC : ∀ sizes ∈ comps (qShift r.children r.idx : Int) ((othersBase r).map (fun x => (x.1.1.minSize, x.1.1.maxSize))),
          ∀ p ∈ (othersBase r).zip sizes, a (revClass r p.1.1.2) p.2 = b (revClass r p.1.1.2) p.2) :
    quotientTerms r.parentNames (attachRev a r) r.idx (a (r.sub.headD 0)) n =
    quotientTerms r.parentNames (attachRev b r) r.idx (b (r.sub.headD 0)) n := by
  -- `_a`
  have hquotA : quotA r.parentNames (attachRev a r) r.idx (a (r.sub.headD 0)) n =
                quotA r.parentNames (attachRev b r) r.idx (b (r.sub.headD 0)) n := by
    unfold quotA
    rw [qShift_attachRev a r, qShift_attachRev b r, qBoundsA_attachRev a r, qBoundsA_attachRev b r, hp]
    by_cases hn : n = 0
    · subst hn; rfl
    · have hne : (n == 0) = false := by simpa using hn
      simp only [hne, Bool.false_eq_true, ↓reduceIte]
      apply foldl_ext
      intro acc sizes hs
      congr 1
      unfold attachRev
      rw [List.zip_map_left, List.zip_map_left, List.map_map, List.map_map]
      apply List.map_congr_left
      intro p hpm
      simp only [Function.comp, Prod.map, id, qMapped]
      rw [hA hn sizes hs p hpm]
      rfl
  -- `_c`
  have hquotC : quotC r.parentNames (attachRev a r) r.idx = quotC r.parentNames (attachRev b r) r.idx := by
    unfold quotC
    rw [qShift_attachRev a r, qShift_attachRev b r, qOthers_bounds_attachRev a r, qOthers_bounds_attachRev b r]
    apply foldl_ext
    intro acc sizes hs
    congr 1
    rw [qOthers_attachRev a r, qOthers_attachRev b r]
    rw [List.zip_map_left, List.zip_map_left, List.map_map, List.map_map]
    apply List.map_congr_left
    intro p hpm
    simp only [Function.comp, Prod.map, id, qMapped]
    rw [hC sizes hs p hpm]
    rfl
  unfold quotientTerms
  have hd1 := attachRev_getD_data' a r r.idx
  have hd2 := attachRev_getD_data' b r r.idx
  simp only [attachRev_getD_min, hd1.1, hd1.2, hd2.1, hd2.2, hquotA, hquotC]
#print axioms quotient_congr

/-! ### discharging the hypotheses of `quotient_congr` from declared shifts -/

theorem sumMin_qBoundsA (cs : List Child) (idx n : Nat) : sumMin (qBoundsA cs idx n) = (cs.map (·.minSize)).sum := by
  unfold sumMin qBoundsA
  rw [List.map_map]
  have : (List.map ((fun (x : Bound) => x.1) ∘ fun (ci : Child × Nat) =>
      if ci.2 == idx then (ci.1.minSize, some (n - 1)) else (ci.1.minSize, ci.1.maxSize)) cs.zipIdx) =
      cs.zipIdx.map (fun ci => ci.1.minSize) := by
    apply List.map_congr_left
    intro x _
    simp only [Function.comp]
    split <;> rfl
  rw [this]
  have h2 : cs.zipIdx.map (fun ci => ci.1.minSize) = (cs.zipIdx.map Prod.fst).map (·.minSize) := by rw [List.map_map]; rfl
  rw [h2, List.zipIdx_map_fst]

theorem qBoundsA_getD_min (cs : List Child) (idx n j : Nat) (hj : j < cs.length) :
    ((qBoundsA cs idx n).getD j (0, none)).1 = (cs.getD j dfltChild).minSize := by
  unfold qBoundsA
  rw [List.getD_eq_getElem?_getD, List.getElem?_map, List.getElem?_zipIdx, List.getElem?_eq_getElem hj,
      List.getD_eq_getElem?_getD, List.getElem?_eq_getElem hj]
  simp only [Option.map_some, Nat.zero_add, Option.getD_some]
  split <;> rfl

theorem qBoundsA_idx_max (cs : List Child) (idx n : Nat) (hj : idx < cs.length) :
    ((qBoundsA cs idx n).getD idx (0, none)).2 = some (n - 1) := by
  unfold qBoundsA
  rw [List.getD_eq_getElem?_getD, List.getElem?_map, List.getElem?_zipIdx, List.getElem?_eq_getElem hj]
  simp

/-- in a composition within bounds, a part whose bound is `some m` is at most `m` -/
theorem within_le_max : ∀ (l : List Nat) (bs : List Bound), Within l bs → ∀ i m, (bs.getD i (0, none)).2 = some m → i < l.length →
    l.getD i 0 ≤ m
  | [], [], _, i, _, _, hi => by simp at hi
  | x :: xs, b :: bs, h, i, m, hb, hi => by
    obtain ⟨_, h2, h3⟩ := h
    cases i with
    | zero => simp at hb ⊢; exact h2 m hb
    | succ j =>
      simp at hb hi ⊢
      have := within_le_max xs bs h3 j m (by simpa [List.getD_eq_getElem?_getD] using hb) hi
      simpa [List.getD_eq_getElem?_getD] using this
  | [], _ :: _, h, _, _, _, _ => by cases h
  | _ :: _, [], h, _, _, _, _ => by cases h

theorem within_length : ∀ (l : List Nat) (bs : List Bound), Within l bs → l.length = bs.length
  | [], [], _ => rfl
  | x :: xs, b :: bs, h => by simp [within_length xs bs h.2.2]
  | [], _ :: _, h => by cases h
  | _ :: _, [], h => by cases h

theorem zz_filter_map {α : Type} (f : α → Nat) (idx : Nat) : ∀ (l : List α) (k : Nat),
    (((l.zipIdx k).zipIdx k).filter (fun x => x.2 != idx)).map (fun x => f x.1.1) =
    (((l.map f).zipIdx k).filter (fun x => x.2 != idx)).map (·.1)
  | [], _ => rfl
  | x :: xs, k => by
    simp only [List.zipIdx_cons, List.map_cons, List.filter_cons]
    by_cases h : k = idx
    · have : (k != idx) = false := by simpa using h
      simp only [this, Bool.false_eq_true, ↓reduceIte]
      exact zz_filter_map f idx xs (k + 1)
    · have : (k != idx) = true := by simpa using h
      simp only [this, ↓reduceIte, List.map_cons]
      rw [zz_filter_map f idx xs (k + 1)]

theorem filter_ne_sum (idx : Nat) : ∀ (l : List Nat) (k : Nat),
    (((l.zipIdx k).filter (fun x => x.2 != idx)).map (·.1)).sum +
      (if k ≤ idx ∧ idx < k + l.length then l.getD (idx - k) 0 else 0) = l.sum
  | [], k => by simp
  | x :: xs, k => by
    have ih := filter_ne_sum idx xs (k + 1)
    simp only [List.zipIdx_cons, List.filter_cons, List.sum_cons, List.length_cons]
    by_cases h : k = idx
    · subst h
      have hb : (k != k) = false := by simp
      simp only [hb, Bool.false_eq_true, ↓reduceIte]
      have c1 : ¬ (k + 1 ≤ k ∧ k < k + 1 + xs.length) := by omega
      have c2 : k ≤ k ∧ k < k + (xs.length + 1) := by omega
      simp only [c1, ↓reduceIte, Nat.add_zero] at ih
      simp only [c2, and_self, ↓reduceIte, Nat.sub_self, List.getD_cons_zero]
      omega
    · have hb : (k != idx) = true := by simpa using h
      simp only [hb, ↓reduceIte, List.map_cons, List.sum_cons]
      by_cases c : k + 1 ≤ idx ∧ idx < k + 1 + xs.length
      · have c2 : k ≤ idx ∧ idx < k + (xs.length + 1) := by omega
        simp only [c, and_self, ↓reduceIte] at ih
        simp only [c2, and_self, ↓reduceIte]
        have e : idx - k = (idx - (k + 1)) + 1 := by omega
        rw [e, List.getD_cons_succ]
        omega
      · have c2 : ¬ (k ≤ idx ∧ idx < k + (xs.length + 1)) := by omega
        simp only [c, ↓reduceIte, Nat.add_zero] at ih
        simp only [c2, ↓reduceIte, Nat.add_zero]
        omega

theorem sumMin_othersBase (r : SRule) (hidx : r.idx < r.children.length) :
    sumMin ((othersBase r).map (fun x => (x.1.1.minSize, x.1.1.maxSize))) = qShift r.children r.idx := by
  unfold sumMin othersBase qShift
  rw [List.map_map]
  have h1 : (List.map ((fun (x : Bound) => x.1) ∘ fun (x : (Child × Nat) × Nat) => (x.1.1.minSize, x.1.1.maxSize))
      (List.filter (fun x => x.2 != r.idx) r.children.zipIdx.zipIdx)) =
      (List.filter (fun (x : (Child × Nat) × Nat) => x.2 != r.idx) r.children.zipIdx.zipIdx).map (fun x => x.1.1.minSize) := by
    apply List.map_congr_left; intro x _; rfl
  rw [h1, zz_filter_map (fun c => c.minSize) r.idx r.children 0]
  have := filter_ne_sum r.idx (r.children.map (·.minSize)) 0
  have c : 0 ≤ r.idx ∧ r.idx < 0 + (r.children.map (·.minSize)).length := by simp; exact hidx
  simp only [c, and_self, ↓reduceIte, Nat.sub_zero] at this
  have hg : (r.children.map (·.minSize)).getD r.idx 0 = (r.children.getD r.idx dfltChild).minSize := by
    rw [List.getD_eq_getElem?_getD, List.getElem?_map, List.getD_eq_getElem?_getD, List.getElem?_eq_getElem hidx]; rfl
  rw [hg] at this
  omega

theorem getD_le_sum : ∀ (l : List Nat) (i : Nat), l.getD i 0 ≤ l.sum
  | [], i => by simp
  | x :: xs, 0 => by simp
  | x :: xs, i + 1 => by
    have := getD_le_sum xs i
    simp only [List.getD_cons_succ, List.sum_cons]
    omega

theorem child_min_le_sum (cs : List Child) (j : Nat) (hj : j < cs.length) :
    (cs.getD j dfltChild).minSize ≤ (cs.map (·.minSize)).sum := by
  have := getD_le_sum (cs.map (·.minSize)) j
  have hg : (cs.map (·.minSize)).getD j 0 = (cs.getD j dfltChild).minSize := by
    rw [List.getD_eq_getElem?_getD, List.getElem?_map, List.getD_eq_getElem?_getD, List.getElem?_eq_getElem hj]; rfl
  omega

/-- the sibling hypothesis: classes other than the flipped one are read at sizes bounded by the declared
reverse shift `Σ min − min_j − qShift` -/
def SibHyp (r : SRule) (a b : Nat → Nat → Terms) (n : Nat) : Prop :=
  ∀ j, j < r.children.length → j ≠ r.idx → ∀ m : Nat,
    (m : Int) + (r.children.getD r.idx dfltChild).minSize ≤ (n : Int) + (r.children.getD j dfltChild).minSize →
    a (revClass r j) m = b (revClass r j) m

theorem quot_hA (r : SRule) (a b : Nat → Nat → Terms) (n : Nat) (hidx : r.idx < r.children.length) (hn : n ≠ 0)
    (hself : ∀ m, m < n → a r.cls m = b r.cls m) (hsib : SibHyp r a b n) :
    ∀ sizes ∈ comps ((n + qShift r.children r.idx : Nat) : Int) (qBoundsA r.children r.idx n),
      ∀ p ∈ r.children.zipIdx.zip sizes, a (revClass r p.1.2) p.2 = b (revClass r p.1.2) p.2 := by
  intro sizes hs p hp
  obtain ⟨hw, _⟩ := comps_sound _ _ _ hs
  have hlen := within_length _ _ hw
  have hbl : (qBoundsA r.children r.idx n).length = r.children.length := by simp [qBoundsA]
  obtain ⟨i, hi, he⟩ := List.mem_iff_getElem.mp hp
  have hi' : i < r.children.length ∧ i < sizes.length := by
    simp only [List.length_zip, List.length_zipIdx] at hi; omega
  rw [List.getElem_zip, List.getElem_zipIdx] at he
  subst he
  simp only [Nat.zero_add]
  have hsz : sizes[i] = sizes.getD i 0 := by rw [List.getD_eq_getElem?_getD, List.getElem?_eq_getElem hi'.2]; rfl
  by_cases hii : i = r.idx
  · subst hii
    have h1 := within_le_max _ _ hw r.idx (n - 1) (qBoundsA_idx_max _ _ _ hidx) hi'.2
    have : revClass r r.idx = r.cls := by simp [revClass]
    rw [this]
    apply hself
    omega
  · have hq : sizes ∈ comps ((n + (sumMin (qBoundsA r.children r.idx n) -
        ((qBoundsA r.children r.idx n).getD r.idx (0, none)).1) : Nat) : Int) (qBoundsA r.children r.idx n) := by
      rw [sumMin_qBoundsA, qBoundsA_getD_min _ _ _ _ hidx]; exact hs
    have h1 := quotient_local _ n r.idx sizes hq i hi'.2
    rw [sumMin_qBoundsA, qBoundsA_getD_min _ _ _ _ hidx, qBoundsA_getD_min _ _ _ _ hi'.1] at h1
    have m1 := child_min_le_sum r.children i hi'.1
    have m2 := child_min_le_sum r.children r.idx hidx
    apply hsib i hi'.1 hii
    rw [hsz]
    omega

theorem othersBase_mem (r : SRule) (x : (Child × Nat) × Nat) (hx : x ∈ othersBase r) :
    x.1.2 < r.children.length ∧ x.1.2 ≠ r.idx ∧ x.1.1 = r.children.getD x.1.2 dfltChild := by
  unfold othersBase at hx
  obtain ⟨hm, hf⟩ := List.mem_filter.mp hx
  obtain ⟨i, hi, he⟩ := List.mem_iff_getElem.mp hm
  simp only [List.length_zipIdx] at hi
  rw [List.getElem_zipIdx, List.getElem_zipIdx] at he
  subst he
  simp only [Nat.zero_add, bne_iff_ne, ne_eq] at hf ⊢
  refine ⟨hi, hf, ?_⟩
  rw [List.getD_eq_getElem?_getD, List.getElem?_eq_getElem hi]; rfl

theorem quot_hC (r : SRule) (a b : Nat → Nat → Terms) (n : Nat) (hidx : r.idx < r.children.length)
    (hmin : (r.children.getD r.idx dfltChild).minSize ≤ n) (hsib : SibHyp r a b n) :
    ∀ sizes ∈ comps (qShift r.children r.idx : Int) ((othersBase r).map (fun x => (x.1.1.minSize, x.1.1.maxSize))),
      ∀ p ∈ (othersBase r).zip sizes, a (revClass r p.1.1.2) p.2 = b (revClass r p.1.1.2) p.2 := by
  intro sizes hs p hp
  obtain ⟨i, hi, he⟩ := List.mem_iff_getElem.mp hp
  have hi' : i < (othersBase r).length ∧ i < sizes.length := by
    simp only [List.length_zip] at hi; omega
  rw [List.getElem_zip] at he
  subst he
  have hx := othersBase_mem r (othersBase r)[i] (List.getElem_mem _)
  have h1 := product_local _ _ sizes hs i hi'.2
  rw [sumMin_othersBase r hidx] at h1
  have hb : ((List.map (fun (x : (Child × Nat) × Nat) => (x.1.1.minSize, x.1.1.maxSize)) (othersBase r)).getD i (0, none)).1 =
      (othersBase r)[i].1.1.minSize := by
    rw [List.getD_eq_getElem?_getD, List.getElem?_map, List.getElem?_eq_getElem hi'.1]; rfl
  rw [hb, hx.2.2] at h1
  have hsz : sizes[i] = sizes.getD i 0 := by rw [List.getD_eq_getElem?_getD, List.getElem?_eq_getElem hi'.2]; rfl
  apply hsib _ hx.1 hx.2.1
  have m1 := child_min_le_sum r.children _ hx.1
  have m2 := child_min_le_sum r.children r.idx hidx
  unfold qShift at h1
  simp only
  rw [hsz]
  omega
