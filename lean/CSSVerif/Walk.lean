/-! Prototype: the cumulative-threshold walk used by both samplers (C08). -/

/-- `walk ws r`: Python `total = 0; for i, w in enumerate(ws): total += w; if r <= total: return i`
returning also the offset inside the chosen block (1-based). -/
def walk : List Nat → Nat → Option (Nat × Nat)
  | [], _ => none
  | w :: ws, r => if r ≤ w then some (0, r) else (walk ws (r - w)).map (fun p => (p.1 + 1, p.2))

/-- inverse: position of offset `o` in block `i` -/
def unwalk : List Nat → Nat → Nat → Nat
  | [], _, o => o
  | _ :: _, 0, o => o
  | w :: ws, i+1, o => w + unwalk ws i o

theorem walk_some (ws : List Nat) (r : Nat) (h1 : 1 ≤ r) (h2 : r ≤ ws.sum) :
    ∃ i o, walk ws r = some (i, o) ∧ i < ws.length ∧ 1 ≤ o ∧ o ≤ ws.getD i 0 ∧ unwalk ws i o = r := by
  induction ws generalizing r with
  | nil => simp at h2; omega
  | cons w ws ih =>
    unfold walk
    by_cases h : r ≤ w
    · refine ⟨0, r, by simp [h], by simp, h1, by simpa using h, by simp [unwalk]⟩
    · simp only [h, ↓reduceIte]
      have h2' : r - w ≤ ws.sum := by simp at h2; omega
      obtain ⟨i, o, hw, hi, ho1, ho2, hu⟩ := ih (r - w) (by omega) h2'
      refine ⟨i + 1, o, by simp [hw], by simp; omega, ho1, by simpa using ho2, ?_⟩
      simp [unwalk, hu]; omega

theorem unwalk_pos (ws : List Nat) (i o : Nat) (h1 : 1 ≤ o) : 1 ≤ unwalk ws i o := by
  induction ws generalizing i with
  | nil => simpa [unwalk] using h1
  | cons w ws ih =>
    cases i with
    | zero => simpa [unwalk] using h1
    | succ i => have := ih i; simp only [unwalk]; omega

theorem walk_unwalk (ws : List Nat) (i o : Nat) (hi : i < ws.length) (h1 : 1 ≤ o) (h2 : o ≤ ws.getD i 0) :
    walk ws (unwalk ws i o) = some (i, o) := by
  induction ws generalizing i with
  | nil => simp at hi
  | cons w ws ih =>
    cases i with
    | zero =>
      have h2' : o ≤ w := by simpa using h2
      simp [unwalk, walk, h2']
    | succ i =>
      have hi' : i < ws.length := by simpa using hi
      have h2' : o ≤ ws.getD i 0 := by simpa using h2
      have := ih i hi' h2'
      have hp := unwalk_pos ws i o h1
      unfold unwalk walk
      have hn : ¬ (w + unwalk ws i o ≤ w) := by omega
      simp only [hn, ↓reduceIte]
      have e : w + unwalk ws i o - w = unwalk ws i o := by omega
      rw [e, this]; rfl
#print axioms walk_some
#print axioms walk_unwalk
