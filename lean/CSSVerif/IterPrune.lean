import CSSVerif.Prune
/-! C05 (iterative packs): `iterative_prune` computes the least set derivable bottom-up with
recursion allowed only to the (pre-verified) root. -/

/-- `k` is derivable: some rule `k → cs` has every child equal to the root or derivable -/
inductive Der (R : List RuleK) (root : Nat) : Nat → Prop
  | mk (k : Nat) (cs : List Nat) (hr : (k, cs) ∈ R) (h : ∀ c ∈ cs, c ≠ root → Der R root c) : Der R root k

def stepI (R : List RuleK) (V : List Nat) : List Nat :=
  R.foldl (fun V r => if r.2.all (fun c => V.contains c) && !V.contains r.1 then r.1 :: V else V) V

def iterV (R : List RuleK) : Nat → List Nat → List Nat
  | 0, V => V
  | fuel+1, V => let V' := stepI R V; if V'.length = V.length then V else iterV R fuel V'

def iterPrune (R : List RuleK) (root : Nat) : List RuleK :=
  let V := iterV R (R.length + 1) [root]
  R.filter (fun r => r.2.all (fun c => V.contains c))

/-- invariant: everything in `V` is the root or derivable -/
def SoundV (R : List RuleK) (root : Nat) (V : List Nat) : Prop := ∀ k ∈ V, k = root ∨ Der R root k

theorem stepI_aux (R R' : List RuleK) (root : Nat) (hsub : ∀ r ∈ R', r ∈ R) (V : List Nat) (hV : SoundV R root V) :
    SoundV R root (R'.foldl (fun V r => if r.2.all (fun c => V.contains c) && !V.contains r.1 then r.1 :: V else V) V) := by
  induction R' generalizing V with
  | nil => exact hV
  | cons r R' ih =>
    simp only [List.foldl_cons]
    apply ih (fun r' h => hsub r' (List.mem_cons_of_mem _ h))
    split
    · rename_i hc
      simp only [Bool.and_eq_true] at hc
      intro k hk
      rcases List.mem_cons.1 hk with e | e
      · subst e
        right
        refine Der.mk r.1 r.2 (hsub r List.mem_cons_self) ?_
        intro c hcm hne
        rcases hV c (List.contains_iff_mem.1 (List.all_eq_true.1 hc.1 c hcm)) with e | e
        · exact absurd e hne
        · exact e
      · exact hV k e
    · exact hV

theorem stepI_sound (R : List RuleK) (root : Nat) (V : List Nat) (hV : SoundV R root V) :
    SoundV R root (stepI R V) := stepI_aux R R root (fun _ h => h) V hV

theorem iterV_sound (R : List RuleK) (root : Nat) : ∀ fuel V, SoundV R root V → SoundV R root (iterV R fuel V)
  | 0, _, h => h
  | fuel+1, V, h => by
    simp only [iterV]
    split
    · exact h
    · exact iterV_sound R root fuel _ (stepI_sound R root V h)

/-- soundness: every rule kept by `iterative_prune` has all its children equal to the root or
derivable, hence its parent is derivable -/
theorem iterPrune_sound (R : List RuleK) (root : Nat) :
    ∀ r ∈ iterPrune R root, r ∈ R ∧ Der R root r.1 := by
  intro r hr
  unfold iterPrune at hr
  simp only [List.mem_filter] at hr
  obtain ⟨hrR, hall⟩ := hr
  have hs := iterV_sound R root (R.length + 1) [root] (by intro k hk; left; simpa using hk)
  refine ⟨hrR, Der.mk r.1 r.2 hrR ?_⟩
  intro c hc hne
  rcases hs c (List.contains_iff_mem.1 (List.all_eq_true.1 hall c hc)) with e | e
  · exact absurd e hne
  · exact e
#print axioms iterPrune_sound

/-- the fold only ever adds labels -/
theorem fold_len_ge (R' : List RuleK) (V : List Nat) :
    V.length ≤ (R'.foldl (fun V r => if r.2.all (fun c => V.contains c) && !V.contains r.1 then r.1 :: V else V) V).length := by
  induction R' generalizing V with
  | nil => exact Nat.le_refl _
  | cons r R' ih =>
    simp only [List.foldl_cons]
    split
    · exact Nat.le_trans (by simp) (ih (r.1 :: V))
    · exact ih V

/-- if a pass leaves the length unchanged, no rule could fire: `V` is closed under the rules -/
theorem fold_fix (R' : List RuleK) (V : List Nat)
    (h : (R'.foldl (fun V r => if r.2.all (fun c => V.contains c) && !V.contains r.1 then r.1 :: V else V) V).length = V.length) :
    ∀ r ∈ R', (∀ c ∈ r.2, c ∈ V) → r.1 ∈ V := by
  induction R' generalizing V with
  | nil => intro r hr; cases hr
  | cons t R' ih =>
    simp only [List.foldl_cons] at h
    split at h
    · have := fold_len_ge R' (t.1 :: V)
      simp only [List.length_cons] at this
      omega
    · rename_i hnf
      intro r hr hc
      rcases List.mem_cons.1 hr with e | e
      · subst e
        simp only [Bool.and_eq_true, Bool.not_eq_true', not_and, Bool.not_eq_false] at hnf
        have hall : r.2.all (fun c => V.contains c) = true :=
          List.all_eq_true.2 (fun c hcm => List.contains_iff_mem.2 (hc c hcm))
        exact List.contains_iff_mem.1 (hnf hall)
      · exact ih V h r e hc

/-- completeness at a fixed point: a closed `V` containing the root contains everything derivable -/
theorem der_in_closed (R : List RuleK) (root : Nat) (V : List Nat) (hroot : root ∈ V)
    (hclosed : ∀ r ∈ R, (∀ c ∈ r.2, c ∈ V) → r.1 ∈ V) : ∀ k, Der R root k → k ∈ V := by
  intro k h
  induction h with
  | mk k cs hr _ ih =>
    apply hclosed (k, cs) hr
    intro c hc
    by_cases e : c = root
    · subst e; exact hroot
    · exact ih c hc e

theorem iterV_root (R : List RuleK) (root : Nat) : ∀ fuel V, root ∈ V → root ∈ iterV R fuel V
  | 0, _, h => h
  | fuel+1, V, h => by
    simp only [iterV]
    split
    · exact h
    · apply iterV_root R root fuel
      have aux : ∀ (R' : List RuleK) (V : List Nat), root ∈ V →
          root ∈ R'.foldl (fun V r => if r.2.all (fun c => V.contains c) && !V.contains r.1 then r.1 :: V else V) V := by
        intro R'
        induction R' with
        | nil => intro V h; exact h
        | cons t R' ih =>
          intro V h
          simp only [List.foldl_cons]
          split
          · exact ih _ (List.mem_cons_of_mem _ h)
          · exact ih _ h
      exact aux R V h

/-- C05(b): when the iteration has reached a fixed point (checked at run time; always the case with
fuel `|R|+1`), a rule is kept **iff** all its children are the root or derivable. -/
theorem iterPrune_exact (R : List RuleK) (root : Nat)
    (hfix : (stepI R (iterV R (R.length + 1) [root])).length = (iterV R (R.length + 1) [root]).length) :
    ∀ r, r ∈ iterPrune R root ↔ (r ∈ R ∧ ∀ c ∈ r.2, c ≠ root → Der R root c) := by
  intro r
  constructor
  · intro hr
    have := iterPrune_sound R root r hr
    refine ⟨this.1, ?_⟩
    unfold iterPrune at hr
    simp only [List.mem_filter] at hr
    have hs := iterV_sound R root (R.length + 1) [root] (by intro k hk; left; simpa using hk)
    intro c hc hne
    rcases hs c (List.contains_iff_mem.1 (List.all_eq_true.1 hr.2 c hc)) with e | e
    · exact absurd e hne
    · exact e
  · rintro ⟨hrR, hd⟩
    unfold iterPrune
    simp only [List.mem_filter]
    refine ⟨hrR, List.all_eq_true.2 ?_⟩
    intro c hc
    apply List.contains_iff_mem.2
    have hroot := iterV_root R root (R.length + 1) [root] (by simp)
    by_cases e : c = root
    · subst e; exact hroot
    · exact der_in_closed R root _ hroot (fold_fix R _ hfix) c (hd c hc e)
#print axioms iterPrune_exact
