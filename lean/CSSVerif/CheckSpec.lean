import CSSVerif.C03Props
/-! C02: a proven checker for "closed, one rule per class, productive". -/
def lhs (R : List Rule) : List Nat := R.map (·.parent)

def nodupB : List Nat → Bool
  | [] => true
  | x :: xs => !(xs.contains x) && nodupB xs

theorem nodupB_sound : ∀ l, nodupB l = true → l.Nodup
  | [], _ => List.nodup_nil
  | x :: xs, h => by
    simp only [nodupB, Bool.and_eq_true, Bool.not_eq_true'] at h
    refine List.nodup_cons.2 ⟨?_, nodupB_sound xs h.2⟩
    intro hm
    have : xs.contains x = true := List.contains_iff_mem.2 hm
    rw [this] at h; exact absurd h.1 (by simp)

def bound (R : List Rule) : Nat := R.foldl (fun m r => max m (r.parent + 1)) 0

theorem bound_spec (R : List Rule) : ∀ r ∈ R, r.parent < bound R := by
  have aux : ∀ (R : List Rule) (m : Nat), m ≤ R.foldl (fun m r => max m (r.parent + 1)) m ∧
      ∀ r ∈ R, r.parent < R.foldl (fun m r => max m (r.parent + 1)) m := by
    intro R
    induction R with
    | nil => intro m; exact ⟨Nat.le_refl _, fun r hr => by cases hr⟩
    | cons t R ih =>
      intro m
      obtain ⟨h1, h2⟩ := ih (max m (t.parent + 1))
      refine ⟨Nat.le_trans (Nat.le_max_left _ _) h1, ?_⟩
      intro r hr
      rcases List.mem_cons.1 hr with e | e
      · subst e
        have : r.parent + 1 ≤ max m (r.parent + 1) := Nat.le_max_right _ _
        exact Nat.lt_of_lt_of_le (Nat.lt_of_succ_le this) h1
      · exact h2 r e
  exact (aux R 0).2

def checkSpec (R : List Rule) (root : Nat) (emptyCls : List Nat) : Bool :=
  nodupB (lhs R) && (lhs R).contains root &&
  R.all (fun r => r.children.all (fun c => (lhs R).contains c || emptyCls.contains c)) &&
  (match lfpRef R (bound R) with
   | some out => R.all (fun r => out[r.parent]? == some none)
   | none => false)

theorem checkSpec_sound (R : List Rule) (root : Nat) (emptyCls : List Nat)
    (h : checkSpec R root emptyCls = true) :
    (lhs R).Nodup ∧ root ∈ lhs R ∧
    (∀ r ∈ R, ∀ c ∈ r.children, c ∈ lhs R ∨ c ∈ emptyCls) ∧
    (∀ r ∈ R, ∀ n, Comp R r.parent n) := by
  unfold checkSpec at h
  simp only [Bool.and_eq_true] at h
  obtain ⟨⟨⟨h1, h2⟩, h3⟩, h4⟩ := h
  refine ⟨nodupB_sound _ h1, List.contains_iff_mem.1 h2, ?_, ?_⟩
  · intro r hr c hc
    have := List.all_eq_true.1 h3 r hr
    have := List.all_eq_true.1 this c hc
    simp only [Bool.or_eq_true] at this
    rcases this with e | e
    · exact Or.inl (List.contains_iff_mem.1 e)
    · exact Or.inr (List.contains_iff_mem.1 e)
  · intro r hr
    split at h4
    · rename_i out hout
      have hr' := List.all_eq_true.1 h4 r hr
      have hr'' : out[r.parent]? = some none := by simpa using hr'
      obtain ⟨a, ha, hA⟩ := lfpRef_answer (bound_spec R) hout r.parent (bound_spec R r hr)
      rw [hr''] at ha
      injection ha with ha
      subst ha
      exact hA
    · cases h4
#print axioms checkSpec_sound
