import CSSVerif.ClassDBHist
/-! Driver for C15. Lines: `reset e1,e2,..` (ids of the empty classes; `-` for none), `L x` get_label,
`A x` add (get_label with the answer dropped), `G l` get_class, `CC x` class in db, `CL l` label in db, `E x` is_empty, `S x b` set_empty. -/
def showOut : COut → String
  | .label l => s!"label {l}"
  | .cls x => s!"class {x}"
  | .bool b => if b then "True" else "False"
  | .keyError => "KeyError"
  | .unit => "ok"
partial def loop (h : IO.FS.Stream) (em : List Nat) (d : CDBS) : IO Unit := do
  let line ← h.getLine
  if line.isEmpty then pure () else
    let tr : Nat → Bool := fun x => em.contains x
    let go (op : COp) : IO Unit := do
      let (d', o) := CDBS.step tr d op
      IO.println (showOut o ++ s!" | n={d'.db.classes.length} E={d'.empties.map (fun e => match e with | none => "N" | some true => "T" | some false => "F")}")
      loop h em d'
    match line.trimAscii.toString.splitOn " " with
    | ["reset", es] =>
      match (if es = "-" then some [] else (es.splitOn ",").mapM String.toNat?) with
      | some em' => IO.println "ok"; loop h em' CDBS.init
      | none => IO.println "bad-op"; loop h em d
    | ["L", x] => match x.toNat? with | some x => go (.getLabel x) | none => IO.println "bad-op"; loop h em d
    | ["A", x] =>
      match x.toNat? with
      | some x =>
        let (d', _) := CDBS.step tr d (.getLabel x)
        IO.println s!"ok | n={d'.db.classes.length}"
        loop h em d'
      | none => IO.println "bad-op"; loop h em d
    | ["G", l] => match l.toInt? with | some l => go (.getClass l) | none => IO.println "bad-op"; loop h em d
    | ["CC", x] => match x.toNat? with | some x => go (.containsC x) | none => IO.println "bad-op"; loop h em d
    | ["CL", l] => match l.toInt? with | some l => go (.containsL l) | none => IO.println "bad-op"; loop h em d
    | ["E", x] => match x.toNat? with | some x => go (.isEmpty x) | none => IO.println "bad-op"; loop h em d
    | ["S", x, b] => match x.toNat?, b with
      | some x, "1" => go (.setEmpty x true)
      | some x, "0" => go (.setEmpty x false)
      | _, _ => IO.println "bad-op"; loop h em d
    | _ => IO.println "bad-op"; loop h em d
def main : IO Unit := do loop (← IO.getStdin) [] CDBS.init
