import CSSVerif.Queue
import CSSVerif.DoLevel
def showWP (w : WP) : String :=
  match w.work with
  | .inferral => s!"{w.label}:inf"
  | .initial i => s!"{w.label}:init:{i}"
  | .expansion j i => s!"{w.label}:exp:{j}:{i}"
def fuelOf (_q : Q) : Nat := 100000
/-- `do_level` through the proven model `doLevelF` (DoLevel.lean) -/
def doLevel (p : Pack) (start : Nat) (q : Q) (_acc : List String) : Q × List String :=
  match doLevelF p (fuelOf q) start 100000 q [] with
  | (q', out, .advanced) => (q', out.map showWP)
  | (q', out, .noMore) => (q', out.map showWP ++ ["nomore"])
  | (q', out, .fuel) => (q', out.map showWP ++ ["FUEL"])
def showQ (q : Q) : String :=
  s!"W{q.working} N{q.nextLevel} C{q.curr} I{q.ignore.mergeSort} S{q.sizes} X{q.infExp.mergeSort} Y{q.initExp.mergeSort} G{q.staging.map showWP}"
partial def loop (h : IO.FS.Stream) (p : Pack) (q : Q) : IO Unit := do
  let line ← h.getLine
  if line.isEmpty then pure () else
    match line.trimAscii.toString.splitOn " " with
    | ["pack", a, b, c] =>
      let p : Pack := ⟨a.toNat!, b.toNat!, if c = "-" then [] else (c.splitOn ",").map String.toNat!⟩
      IO.println "ok"; loop h p (Q.init p)
    | ["add", l] => let q := q.add p l.toNat!; IO.println ("- || " ++ showQ q); loop h p q
    | ["stop", l] => let q := q.setStop l.toNat!; IO.println ("- || " ++ showQ q); loop h p q
    | ["ninf", l] => let q := q.setNotInferrable l.toNat!; IO.println ("- || " ++ showQ q); loop h p q
    | ["next"] =>
      match Q.next p (fuelOf q) q with
      | (q', .yield w) => IO.println (showWP w ++ s!" L{q'.sizes.length} || " ++ showQ q'); loop h p q'
      | (q', .stop) => IO.println (s!"stop L{q'.sizes.length} || " ++ showQ q'); loop h p q'
      | (q', .fuel) => IO.println "FUEL"; loop h p q'
    | ["level"] =>
      let (q', out) := doLevel p q.sizes.length q []
      IO.println (" ".intercalate out ++ s!" L{q'.sizes.length} || " ++ showQ q'); loop h p q'
    | _ => IO.println "bad-op"; loop h p q
def main : IO Unit := do loop (← IO.getStdin) ⟨0,0,[]⟩ (Q.init ⟨0,0,[]⟩)
