import CSSVerif.Json
/-! Driver for C18. One rule form per line in the compact syntax
`U(P(s,c,[c1,c2]))`, `U(R(P(..),idx))`, `E(P(..))`, `E(R(P(..),idx))`, `V(s,c)`, `T([<single>;<single>;..])`.
Prints `rt=<1 iff fromJ (toJ f) = some f> <the shape read back from the JSON value toJ f>`. -/

def splitTop (s : String) (sep : Char) : List String :=
  let (parts, cur, _) := s.foldl (fun (acc : List String × String × Nat) ch =>
    let (parts, cur, depth) := acc
    if ch == sep && depth == 0 then (parts ++ [cur], "", depth)
    else
      let depth := if ch == '(' || ch == '[' then depth + 1 else if ch == ')' || ch == ']' then depth - 1 else depth
      (parts, cur.push ch, depth)) ([], "", 0)
  parts ++ [cur]

def inner (s : String) (pre : String) : Option String :=
  if s.startsWith pre && s.endsWith ")" then some ((s.drop pre.length).dropEnd 1).toString else none

def parsePlain (s : String) : Option Plain := do
  let body ← inner s "P("
  match splitTop body ',' with
  | [a, b, c] =>
    let ch := ((c.drop 1).dropEnd 1).toString
    let cs ← (if ch = "" then some [] else (ch.splitOn ",").mapM String.toNat?)
    pure ⟨← a.toNat?, ← b.toNat?, cs⟩
  | _ => none

def parseUnit (s : String) : Option Unit1 :=
  if s.startsWith "P(" then (parsePlain s).map .plain
  else do
    let body ← inner s "R("
    match splitTop body ',' with
    | [p, i] => pure (.rev (← parsePlain p) (← i.toNat?))
    | _ => none

def parseSingle (s : String) : Option Single :=
  if s.startsWith "U(" then do pure (.unit (← parseUnit (← inner s "U(")))
  else if s.startsWith "E(" then do pure (.equiv (← parseUnit (← inner s "E(")))
  else do
    let body ← inner s "V("
    match splitTop body ',' with
    | [a, b] => pure (.ver (← a.toNat?) (← b.toNat?))
    | _ => none

def parseForm (s : String) : Option Form :=
  if s.startsWith "T([" then do
    let body := ((s.drop 3).dropEnd 2).toString
    let rs ← (splitTop body ';').mapM parseSingle
    pure (.path rs)
  else (parseSingle s).map .single

/-- read the shape back from a JSON value (non-recursive on `J`: the forms have bounded depth) -/
def showPlainJ (j : J) : String :=
  let n (k : String) := ((j.field k).bind J.asNum).map toString |>.getD "?"
  let ch := (((j.field "children").bind J.asArr).getD []).map (fun c => (c.asNum.map toString).getD "?")
  s!"P({n "strategy"},{n "comb_class"},[{",".intercalate ch}])"
def rcOf (j : J) : String := ((j.field "rule_class").bind J.asStr).getD "?"
def showUnitJ (j : J) : String :=
  if rcOf j == "ReverseRule" then
    s!"R({showPlainJ ((j.field "original_rule").getD (.num 0))},{(((j.field "idx").bind J.asNum).map toString).getD "?"})"
  else showPlainJ j
def showSingleJ (j : J) : String :=
  match rcOf j with
  | "EquivalenceRule" => s!"E({showUnitJ ((j.field "original_rule").getD (.num 0))})"
  | "VerificationRule" =>
    let n (k : String) := ((j.field k).bind J.asNum).map toString |>.getD "?"
    s!"V({n "strategy"},{n "comb_class"})"
  | _ => s!"U({showUnitJ j})"
def showJ (j : J) : String :=
  if rcOf j == "EquivalencePathRule" then
    "T([" ++ ";".intercalate ((((j.field "rules").bind J.asArr).getD []).map showSingleJ) ++ "])"
  else showSingleJ j

partial def loop (h : IO.FS.Stream) : IO Unit := do
  let line ← h.getLine
  if line.isEmpty then pure () else
    match parseForm line.trimAscii.toString with
    | some f =>
      let j := toJ f
      IO.println (s!"rt={if fromJ j == some f then 1 else 0} " ++ showJ j)
    | none => IO.println "bad-op"
    loop h
def main : IO Unit := do loop (← IO.getStdin)
