import CSSVerif.Iso
def parseG (s : String) : Gram :=
  ((s.splitOn ";").map (fun r =>
    match r.splitOn ":" with
    | ["a", n] => GRule.atom n.toNat!
    | ["u", cs] => GRule.union ((cs.splitOn ",").map String.toNat!)
    | ["p", cs] => GRule.prod ((cs.splitOn ",").map String.toNat!)
    | _ => GRule.atom 0)).toArray
partial def loop (h : IO.FS.Stream) : IO Unit := do
  let line ← h.getLine
  if line.isEmpty then pure () else
    match line.trimAscii.toString.splitOn " " with
    | [a, b] => IO.println (if isoRef (parseG a) (parseG b) then "True" else "False")
    | _ => IO.println "bad-op"
    loop h
def main : IO Unit := do loop (← IO.getStdin)
