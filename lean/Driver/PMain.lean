import CSSVerif.Sampler
def strsP (s : String) : List String := if s = "" then [] else s.splitOn ","
def natsP (s : String) : List Nat := (strsP s).map String.toNat!
def fldP (fs : List String) (key : String) : String :=
  ((fs.find? (·.startsWith (key ++ "="))).map (fun f => (f.drop (key.length + 1)).toString)).getD ""
partial def loop (h : IO.FS.Stream) : IO Unit := do
  let line ← h.getLine
  if line.isEmpty then pure () else
    let fs := line.trimAscii.toString.splitOn "|"
    let keys := strsP (fldP fs "K")
    let chs := (fs.filter (·.startsWith "C;")).map (fun c => c.splitOn ";")
    let d : ProdData := {
      keys := keys, minimumSizes := natsP (fldP fs "MS"),
      minChild := chs.map (fun c => natsP (fldP c "MIN")),
      maxChild := chs.map (fun c => (strsP (fldP c "MAX")).map (fun x => x.toNat?)),
      emap := chs.map (fun c => (strsP (fldP c "E")).map (fun e => match e.splitOn ":" with | [a, b] => (a, b) | _ => ("", ""))) }
    let params := natsP (fldP fs "P")
    let comps := validComps d params
    let out := comps.map (fun comp =>
      let eps := (comp.zip d.emap).map (fun ce => extraParams d ce.1 ce.2)
      if eps.any (·.isNone) then "skip" else
      "&".intercalate (eps.map (fun o => ",".intercalate ((o.getD []).map (fun kv => kv.1 ++ "=" ++ toString kv.2)))))
    IO.println (" ".intercalate out)
    loop h
def main : IO Unit := do loop (← IO.getStdin)
