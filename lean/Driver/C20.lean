import CSSVerif.Series
/-! Driver for C20.
`reset` forgets the tables; `tab cls n@terms+n@terms..` stores the true terms of a class;
`eq nv N <lhs> ;; <rhs>` evaluates both sides on the stored series (prefix syntax: `+ a b`, `* a b`, `^ a k`,
`c int`, `v i`, `F cls nargs m1 .. mk` with monomials `e0.e1...` or `-`) and prints `zero` or the residual;
`rat M p0,p1,.. | q0,q1,.. | c0,c1,..` checks `Q·C ≡ P (mod x^{M+1})`. -/
def parseTermsS (s : String) : Terms :=
  if s = "" then [] else (s.splitOn "/").map (fun e =>
    match e.splitOn "=" with
    | [k, v] => ((if k = "" then [] else (k.splitOn ".").map String.toNat!), v.toInt!)
    | _ => ([], 0))
def parseMono (s : String) : Mono := if s = "-" then [] else (s.splitOn ".").map String.toNat!
partial def parseExpr : List String → Option (Expr × List String)
  | "+" :: r => do let (a, r) ← parseExpr r; let (b, r) ← parseExpr r; pure (.add a b, r)
  | "*" :: r => do let (a, r) ← parseExpr r; let (b, r) ← parseExpr r; pure (.mul a b, r)
  | "^" :: r => do
      let (a, r) ← parseExpr r
      match r with
      | k :: r => pure (.pow a (← k.toNat?), r)
      | [] => none
  | "c" :: k :: r => do pure (.const (← k.toInt?), r)
  | "v" :: k :: r => do pure (.var (← k.toNat?), r)
  | "F" :: cls :: na :: r => do
      let na ← na.toNat?
      pure (.app (← cls.toNat?) ((r.take na).map parseMono), r.drop na)
  | _ => none
def showSer (s : Ser) : String :=
  " ".intercalate ((s.take 4).map (fun e => ".".intercalate (e.1.map toString) ++ "=" ++ toString e.2))
def ints (s : String) : List Int := if s = "" then [] else (s.splitOn ",").map String.toInt!
partial def loop (h : IO.FS.Stream) (tabs : List (Nat × List (Nat × Terms))) : IO Unit := do
  let line ← h.getLine
  if line.isEmpty then pure () else
    let toks := (line.trimAscii.toString.splitOn " ").filter (· != "")
    match toks with
    | ["reset"] => IO.println "ok"; loop h []
    | ["tab", cls, body] =>
      let rows := (if body = "-" then [] else body.splitOn "+").map (fun e =>
        match e.splitOn "@" with | [n, t] => (n.toNat!, parseTermsS t) | _ => (0, []))
      IO.println "ok"; loop h ((cls.toNat!, rows) :: tabs)
    | "eq" :: nv :: n :: rest =>
      let tab (c n : Nat) : Terms := (((tabs.find? (·.1 == c)).map (·.2)).getD []).find? (·.1 == n) |>.map (·.2) |>.getD []
      let i := rest.idxOf ";;"
      match parseExpr (rest.take i), parseExpr (rest.drop (i + 1)) with
      | some (l, []), some (r, []) =>
        let res := residual tab nv.toNat! n.toNat! l r
        IO.println (if res.isEmpty then "zero" else "nonzero " ++ showSer res)
      | _, _ => IO.println "bad-op"
      loop h tabs
    | ["rat", m, p, "|", q, "|", c] =>
      let M := m.toNat!
      let (p, q, c) := (ints p, ints q, ints c)
      if checkRational p q c M then IO.println "rat-ok"
      else IO.println s!"rat-BAD first-bad-order={((List.range (M+1)).find? (fun n => convAt q c n != p.getD n 0)).getD 0}"
      loop h tabs
    | _ => IO.println "bad-op"; loop h tabs
def main : IO Unit := do loop (← IO.getStdin) []
