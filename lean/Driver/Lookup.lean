import CSSVerif.Lookup
/-! Driver for C14 (strategy recomputation). Universe lines `U bits`, `A σ x rules`, `P init inf exp ver sym ev` as for the
engine drivers; then `L c0,c1,..(label ↦ class id) | start:e,e:onlyEquiv ; ...` prints for every key the index of the strategy
the model's lookup hands back (`none` when no replayed rule has that key). -/
def nats (s : String) : List Nat := if s = "" || s = "-" then [] else (s.splitOn ",").map String.toNat!
def b (s : String) : Bool := s == "1"
def parseRuleOut (s : String) : RuleOut :=
  match s.splitOn ":" with
  | p :: cs :: fl :: tw :: iv :: _ =>
    let f := fl.toList.map (· == '1')
    { parent := p.toNat!, children := nats cs, flags := ⟨f.getD 0 false, f.getD 1 false, f.getD 2 false, f.getD 3 false⟩, twoWay := b tw, isVer := b iv }
  | _ => default
structure UAcc where
  empty : Array Bool := #[]
  app : List ((Nat × Nat) × List RuleOut) := []
  pack : List Nat := []
instance : Inhabited UAcc := ⟨{}⟩
partial def loop (h : IO.FS.Stream) (a : UAcc) : IO Unit := do
  let line ← h.getLine
  if line.isEmpty then pure () else
    match line.trimAscii.toString.splitOn " " with
    | ["U", bits] => loop h { (default : UAcc) with empty := (bits.toList.map (· == '1')).toArray }
    | ["A", σ, x, rs] => loop h { a with app := a.app ++ [((σ.toNat!, x.toNat!), (rs.splitOn ";").map parseRuleOut)] }
    | ["P", i, f, e, v, y, _] =>
      -- pack iteration order (StrategyPack.__iter__): initial, verification, inferral, symmetries, expansion sets
      let exp := if e = "-" then [] else ((e.splitOn ";").map nats).flatten
      loop h { a with pack := nats i ++ nats v ++ nats f ++ nats y ++ exp }
    | ["L", cls, "|", keys] =>
      let ctx : LCtx := { classes := nats cls, emptyOf := fun x => a.empty.getD x false, pack := a.pack,
                          apply := fun σ x => ((a.app.find? (·.1 == (σ, x))).map (·.2)).getD [] }
      let out := (if keys = "-" then [] else keys.splitOn ";").map (fun k =>
        match k.splitOn ":" with
        | [s, es, oe] => match lookup ctx (b oe) (s.toNat!, nats es) with | some σ => toString σ | none => "none"
        | _ => "bad-op")
      IO.println (" ".intercalate out); loop h a
    | _ => IO.println "bad-op"; loop h a
def main : IO Unit := do loop (← IO.getStdin) {}
