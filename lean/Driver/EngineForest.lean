import CSSVerif.Engine3
import CSSVerif.EngineTable
def nats (s : String) : List Nat := if s = "" || s = "-" then [] else (s.splitOn ",").map String.toNat!
def b (s : String) : Bool := s == "1"
def parseRuleOut (s : String) : RuleOut :=
  match s.splitOn ":" with
  | [p, cs, fl, tw, iv, ip] =>
    let f := fl.toList.map (· == '1')
    { parent := p.toNat!, children := nats cs, flags := ⟨f.getD 0 false, f.getD 1 false, f.getD 2 false, f.getD 3 false⟩, twoWay := b tw, isVer := b iv, isProd := b ip }
  | _ => default
structure UAcc where
  empty : Array Bool := #[]
  app : List ((Nat × Nat) × List RuleOut) := []
  initial : List Nat := []
  inferral : List Nat := []
  expansion : List (List Nat) := []
  ver : List Nat := []
  sym : List Nat := []
  ev : Bool := false
  minsize : Array Nat := #[]
  reverse : Bool := true
instance : Inhabited UAcc := ⟨{}⟩
def UAcc.toBase (a : UAcc) : Universe :=
  { empty := a.empty, apply := fun σ x => ((a.app.find? (·.1 == (σ, x))).map (·.2)).getD [],
    initial := a.initial, inferral := a.inferral, expansion := a.expansion, ver := a.ver, sym := a.sym, expandVerified := a.ev }
def UAcc.toU (a : UAcc) : E3.FUniverse := ⟨a.toBase, a.minsize, a.reverse⟩
/-- the same table as a `UTab` (its `toU` is `toBase`): the contract WFU of the engine theorems, decided by the proven `wfuB` -/
def UAcc.tab (a : UAcc) : UTab :=
  { empty := a.empty, app := a.app, initial := a.initial, inferral := a.inferral, expansion := a.expansion, ver := a.ver, sym := a.sym, ev := a.ev }
partial def runAll (u : E3.FUniverse) (fuel : Nat) (s : E3.St) (n : Nat) : E3.St × Nat :=
  match E3.stepEngine u fuel s with
  | (s, some _) => runAll u fuel s (n+1)
  | (s, none) => (s, n)
def report (s : E3.St) (n : Nat) : String :=
  let ev := " ".intercalate (s.log.map (fun k => s!"K{k.parent}>{k.children}{k.shifts}b{k.bucket}"))
  let nl := s.cdb.classes.length
  let ver := (List.range nl).map (fun l => match s.tm.val l with | none => "inf" | some v => toString v)
  s!"packets={n} classes={s.cdb.classes} empt={s.cdb.empties.map (fun o => match o with | none => 2 | some true => 1 | some false => 0)} val={ver} tried={s.tried.mergeSort} sym={s.symExp.mergeSort} inf={s.infExp.mergeSort} ign={s.q.ignore.mergeSort} | {ev}"
partial def loop (h : IO.FS.Stream) (a : UAcc) : IO Unit := do
  let line ← h.getLine
  if line.isEmpty then pure () else
    match line.trimAscii.toString.splitOn " " with
    | ["U", bits] => loop h { (default : UAcc) with empty := (bits.toList.map (· == '1')).toArray }
    | ["A", σ, x, rs] => loop h { a with app := a.app ++ [((σ.toNat!, x.toNat!), (rs.splitOn ";").map parseRuleOut)] }
    | ["P", i, f, e, v, y, ev] =>
      loop h { a with initial := nats i, inferral := nats f, expansion := if e = "-" then [] else (e.splitOn ";").map nats, ver := nats v, sym := nats y, ev := b ev }
    | ["M", ms, rv] => loop h { a with minsize := (nats ms).toArray, reverse := b rv }
    | ["R", c] =>
      let u := a.toU
      let fuel := 4 * a.empty.size + 10
      let (s, n) := runAll u fuel (E3.initEngine u fuel c.toNat!) 0
      IO.println (s!"wfu={if wfuB a.tab then 1 else 0} " ++ report s n); loop h a
    | _ => IO.println "bad"; loop h a
def main : IO Unit := do loop (← IO.getStdin) {}
