import CSSVerif.ProofTree
import CSSVerif.IterPrune
import CSSVerif.Scc
import CSSVerif.DfsBound
/-! Driver for C05.
`db n root iter ev;ev;..` with `ev = start|e,e|k` (k=2 two-way unary, 1 one-way unary, 0 otherwise):
   prints `has=<0/1> surv=[least members of the surviving classes]` computed by the proven references
   (sccB for the classes, prune / iterPrune for the fixed point).
`rd p:c,c;p:;..` sets the rule dictionary; prints its pruned form. `ip root` prints the iterative pruning.
`tree root l:c,c;l:;..` prints the verdict of the proven tree checker. `min root` / `sizes root`. -/
def parseNats (s : String) : Option (List Nat) := if s = "" then some [] else (s.splitOn ",").mapM String.toNat?
def parseRK (s : String) : Option RuleK :=
  match s.splitOn ":" with
  | [p, cs] => do pure ((← p.toNat?), (← parseNats cs))
  | _ => none
def parseEv (s : String) : Option (Nat × List Nat × Nat) :=
  match s.splitOn "|" with
  | [p, cs, k] => do pure ((← p.toNat?), (← parseNats cs), (← k.toNat?))
  | _ => none
def dedup (l : List RuleK) : List RuleK := l.foldl (fun acc r => if acc.contains r then acc else acc ++ [r]) []
def rkLt (a b : RuleK) : Bool := a.1 < b.1 || (a.1 == b.1 && decide (a.2 < b.2))
def showRules (l : List RuleK) : String :=
  ";".intercalate (((dedup l).toArray.qsort rkLt).toList.map (fun r => s!"{r.1}:{",".intercalate (r.2.map toString)}"))
def refRules (n : Nat) (evs : List (Nat × List Nat × Nat)) : List RuleK :=
  let E : List (Nat × Nat) := evs.flatMap (fun (s, es, k) =>
    match es, k with
    | [e], 2 => if s == e then [] else [(s, e), (e, s)]
    | [e], 1 => if s == e then [] else [(s, e)]
    | _, _ => [])
  let rep (l : Nat) : Nat := ((List.range n).find? (fun m => sccB E l m == some true)).getD l
  dedup (evs.filterMap (fun (s, es, _) =>
    match es with
    | [e] => if rep s == rep e then none else some (rep s, [rep e])
    | _ => some (rep s, (es.map rep).mergeSort)))

def specRef (n root : Nat) (iter : Bool) (evs : List (Nat × List Nat × Nat)) : String :=
  let E : List (Nat × Nat) := evs.flatMap (fun (s, es, k) =>
    match es, k with
    | [e], 2 => if s == e then [] else [(s, e), (e, s)]
    | [e], 1 => if s == e then [] else [(s, e)]
    | _, _ => [])
  let rep (l : Nat) : Nat := ((List.range n).find? (fun m => sccB E l m == some true)).getD l
  let rules : List RuleK := dedup (evs.filterMap (fun (s, es, _) =>
    match es with
    | [e] => if rep s == rep e then none else some (rep s, [rep e])
    | _ => some (rep s, (es.map rep).mergeSort)))
  let kept := if iter then iterPrune rules (rep root) else prune rules
  let surv := ((keys kept).eraseDups.mergeSort)
  s!"has={if (keys kept).contains (rep root) then 1 else 0} surv={surv}"
partial def loop (h : IO.FS.Stream) (R : List RuleK) : IO Unit := do
  let line ← h.getLine
  if line.isEmpty then pure () else
    match line.trimAscii.toString.splitOn " " with
    | ["db", n, root, it, evs] =>
      match n.toNat?, root.toNat?, it.toNat?, (if evs = "-" then some [] else (evs.splitOn ";").mapM parseEv) with
      | some n, some root, some it, some evs => IO.println (specRef n root (it == 1) evs); loop h R
      | _, _, _, _ => IO.println "bad-op"; loop h R
    | ["dbt", n, evs, ns] =>
      -- a tree returned through the real database (labels = least members of the classes) against the recorded rules up to equivalence
      match n.toNat?, (if evs = "-" then some [] else (evs.splitOn ";").mapM parseEv), (ns.splitOn ";").mapM parseRK with
      | some n, some evs, some ns => IO.println (if checkTree (refRules n evs) ns then "tree-ok" else "tree-BAD"); loop h R
      | _, _, _ => IO.println "bad-op"; loop h R
    | ["rd", rs] =>
      match (if rs = "-" then some [] else (rs.splitOn ";").mapM parseRK) with
      | some R' => IO.println ("prune " ++ showRules (prune R')); loop h R'
      | none => IO.println "bad-op"; loop h R
    | ["ip", root] =>
      match root.toNat? with
      | some root => IO.println ("iprune " ++ showRules (iterPrune R root)); loop h R
      | none => IO.println "bad-op"; loop h R
    | ["tree", root, ns] =>
      match root.toNat?, (ns.splitOn ";").mapM parseRK with
      | some root, some ns =>
        IO.println ((if checkTree R ns then "tree-ok" else "tree-BAD") ++ (if rootedAt ns root then "" else " not-rooted")); loop h R
      | _, _ => IO.println "bad-op"; loop h R
    | ["min", root] =>
      match root.toNat? with
      | some root => IO.println (match minSize R root with | some m => s!"min {m}" | none => "min none"); loop h R
      | none => IO.println "bad-op"; loop h R
    | ["sizes", root] =>
      match root.toNat? with
      | some root => IO.println s!"sizes {allSizes R root}"; loop h R
      | none => IO.println "bad-op"; loop h R
    | ["bsizes", root, m] =>
      -- the bounded generator's model (proven equal to the unbounded one filtered by size: dfsB_eq_filter)
      match root.toNat?, m.toNat? with
      | some root, some m =>
        IO.println s!"bsizes {if (keys R).contains root then (dfsTreeB R 64 root [] (m : Int)).map (·.2) else []}"; loop h R
      | _, _ => IO.println "bad-op"; loop h R
    | ["bsearch", root, hi] =>
      match root.toNat?, hi.toNat? with
      | some root, some hi => IO.println s!"bsearch {bsearch (findB R 64 root) hi 1 hi}"; loop h R
      | _, _ => IO.println "bad-op"; loop h R
    | _ => IO.println "bad-op"; loop h R
def main : IO Unit := do loop (← IO.getStdin) []
