import CSSVerif.TMSound
/-! Driver for C03: per history line `N p|c,c|s,s;...`, print after every prefix the answer of the
`TableMethod` model and of the proven reference `lfpRef`:  `M v v v;v v v | L v v v;v v v`. -/
def parseRule' (s : String) : Option Rule :=
  match s.splitOn "|" with
  | [p, cs, ss] => do
      let p ← p.toNat?
      let cs ← (if cs = "" then some [] else (cs.splitOn ",").mapM String.toNat?)
      let ss ← (if ss = "" then some [] else (ss.splitOn ",").mapM String.toInt?)
      pure ⟨p, cs, ss⟩
  | _ => none
def showV (n : Nat) (t : TM) : String :=
  " ".intercalate ((List.range n).map (fun c => match t.val c with | none => "inf" | some v => toString v))
def showL (o : Option (Array (Option Nat))) : String :=
  match o with
  | none => "none"
  | some a => " ".intercalate (a.toList.map (fun v => match v with | none => "inf" | some v => toString v))
partial def loop (h : IO.FS.Stream) : IO Unit := do
  let line ← h.getLine
  if line.isEmpty then pure () else
    match line.trimAscii.toString.splitOn " " with
    | [n, rs] =>
      match n.toNat?, (rs.splitOn ";").mapM parseRule' with
      | some n, some R =>
        let (_, ms, ls) := R.foldl (fun (acc : TM × List String × List String) r =>
          let (t, ms, ls) := acc
          let t := t.addRuleKey r
          (t, ms ++ [showV n t], ls ++ [showL (lfpRef t.rules.toList n)])) (({} : TM), [], [])
        -- the hypothesis of the proven `tm_eq_lfp`: every insertion came to rest (runQ answers some)
        let rest := (TM.runQ 100000 R {}).isSome
        IO.println ("M " ++ ";".intercalate ms ++ " | L " ++ ";".intercalate ls ++ (if rest then " | rest=1" else " | rest=0"))
      | _, _ => IO.println "bad-op"
    | _ => IO.println "bad-op"
    loop h
def main : IO Unit := do loop (← IO.getStdin)
