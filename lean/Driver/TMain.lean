import CSSVerif.Quotient
def strs (s : String) : List String := if s = "" then [] else s.splitOn ","
def parseTerms (s : String) : Terms :=
  if s = "" then [] else (s.splitOn "/").map (fun e =>
    match e.splitOn "=" with
    | [k, v] => ((if k = "" then [] else (k.splitOn ".").map String.toNat!), v.toInt!)
    | _ => ([], 0))
def field (fs : List String) (key : String) : String :=
  ((fs.find? (·.startsWith (key ++ "="))).map (fun f => (f.drop (key.length + 1)).toString)).getD ""
def parseChild (s : String) : Child :=
  let fs := s.splitOn ";"
  let tbl : List (Nat × Terms) := (if field fs "T" = "" then [] else (field fs "T").splitOn "+").map (fun e =>
    match e.splitOn "@" with
    | [n, t] => (n.toNat!, parseTerms t)
    | _ => (0, []))
  { names := strs (field fs "C"),
    emap := (strs (field fs "E")).map (fun e => match e.splitOn ":" with | [a, b] => (a, b) | _ => ("", "")),
    minSize := (field fs "MIN").toNat!, maxSize := (field fs "MAX").toNat?,
    terms := fun n => ((tbl.find? (·.1 == n)).map (·.2)).getD [] }
def showTerms (t : Terms) : String :=
  "/".intercalate (t.norm.map (fun e => ".".intercalate (e.1.map toString) ++ "=" ++ toString e.2))
partial def loop (h : IO.FS.Stream) : IO Unit := do
  let line ← h.getLine
  if line.isEmpty then pure () else
    let fs := line.trimAscii.toString.splitOn "|"
    let kind := fs.headD ""
    let parent := strs (field fs "P")
    let n := (field fs "N").toNat!
    let cs := (fs.filter (·.startsWith "C=")).map parseChild
    match kind with
    | "union" => IO.println (match unionTerms parent cs n with | some t => showTerms t | none => "assert")
    | "product" => IO.println (showTerms (productTerms parent cs n))
    | "complement" =>
      let pt := parseTerms (field fs "PT")
      IO.println (match complementTerms parent cs (field fs "IDX").toNat! (fun _ => pt) n with | some t => showTerms t | none => "assert")
    | "quotient" =>
      let tbl : List (Nat × Terms) := (if field fs "PT" = "" then [] else (field fs "PT").splitOn "+").map (fun e =>
        match e.splitOn "@" with
        | [n, t] => (n.toNat!, parseTerms t)
        | _ => (0, []))
      let pt := fun n => ((tbl.find? (·.1 == n)).map (·.2)).getD []
      IO.println (match quotientTerms parent cs (field fs "IDX").toNat! pt n with | some t => showTerms t | none => "assert")
    | _ => IO.println "bad"
    loop h
def main : IO Unit := do loop (← IO.getStdin)
