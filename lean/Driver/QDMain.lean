import CSSVerif.EquivDB
def canon (d : EqDB) (n : Nat) : String :=
  let part := (List.range n).map (fun a => ((List.range n).find? (fun b => d.equivalent a b)).getD a)
  let ver := (List.range n).map (fun a => if d.uf.isVerified a then 1 else 0)
  s!"{part} {ver}"
partial def loop (h : IO.FS.Stream) (n : Nat) (d : EqDB) : IO Unit := do
  let line ← h.getLine
  if line.isEmpty then pure () else
    match line.trimAscii.toString.splitOn " " with
    | ["new", k] => IO.println "ok"; loop h k.toNat! {}
    | ["two", a, b] => let d := d.addTwoWay a.toNat! b.toNat!; IO.println (canon d n); loop h n d
    | ["one", a, b] => let d := d.addOneWay a.toNat! b.toNat!; IO.println (canon d n); loop h n d
    | ["ver", a] => let d := d.setVerified a.toNat!; IO.println (canon d n); loop h n d
    | ["cyc"] => let d := d.connectCycles; IO.println (canon d n); loop h n d
    | _ => IO.println "bad"; loop h n d
def main : IO Unit := do loop (← IO.getStdin) 0 {}
