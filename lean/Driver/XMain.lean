import CSSVerif.Extractor
def parseKey (s : String) : Option Key :=
  match s.splitOn "|" with
  | [p, cs, ss, b] => do
      let p ← p.toNat?
      let cs ← (if cs = "" then some [] else (cs.splitOn ",").mapM String.toNat?)
      let ss ← (if ss = "" then some [] else (ss.splitOn ",").mapM String.toInt?)
      let b := match b with | "R" => Bucket.reverse | "N" => .normal | "E" => .equiv | _ => .verification
      pure ⟨⟨p, cs, ss⟩, b⟩
  | _ => none
def showKey (k : Key) : String :=
  s!"{k.rule.parent}|{",".intercalate (k.rule.children.map toString)}|{",".intercalate (k.rule.shifts.map toString)}|" ++
  (match k.bucket with | .reverse => "R" | .normal => "N" | .equiv => "E" | .verification => "V")
partial def loop (h : IO.FS.Stream) : IO Unit := do
  let line ← h.getLine
  if line.isEmpty then pure () else
    match line.trimAscii.toString.splitOn " " with
    | [root, ks] =>
      let ks := (ks.splitOn ";").filterMap parseKey
      IO.println (";".intercalate ((minimize ks root.toNat!).map showKey))
    | _ => IO.println "bad"
    loop h
def main : IO Unit := do loop (← IO.getStdin)
