import CSSVerif.ObjGen
/-! Driver for C07 (object generation at one rule). Line: `N record tables` - `record` as in the Spec driver (kind, parent names,
children descriptors), `tables` = children separated by `#`, each `s@entries+s@entries..`, entries `k1.k2=id,id` separated by `/`.
Prints, for n = 0..N separated by ` | `, the dictionary of the rule's objects in order: `key=item,item/key=..` with item =
`child:id` (union) or `id.id..` (product); `none` when the model's assertion fails; `-` for an empty dictionary. -/
def strs' (s : String) : List String := if s = "" then [] else s.splitOn ","
def fld (fs : List String) (key : String) : String :=
  ((fs.find? (·.startsWith (key ++ "="))).map (fun f => (f.drop (key.length + 1)).toString)).getD ""
def parseChild' (s : String) : Child :=
  let fs := s.splitOn ";"
  { names := strs' (fld fs "C"),
    emap := (strs' (fld fs "E")).map (fun e => match e.splitOn ":" with | [a, b] => (a, b) | _ => ("", "")),
    minSize := (fld fs "MIN").toNat!, maxSize := (fld fs "MAX").toNat?, terms := fun _ => [] }
def parseKey (k : String) : Param := if k = "" then [] else (k.splitOn ".").map String.toNat!
def parseEntries (s : String) : List (Param × List Obj) :=
  if s = "" then [] else (s.splitOn "/").map (fun e =>
    match e.splitOn "=" with
    | [k, v] => (parseKey k, (strs' v).map String.toNat!)
    | _ => ([], []))
def parseTab (s : String) : ObjTab :=
  let rows : List (Nat × List (Param × List Obj)) := (if s = "" then [] else s.splitOn "+").map (fun r =>
    match r.splitOn "@" with
    | [n, es] => (n.toNat!, parseEntries es)
    | _ => (0, []))
  fun n => ((rows.find? (·.1 == n)).map (·.2)).getD []
def showKey (k : Param) : String := ".".intercalate (k.map toString)
def showDict {β : Type} (f : β → String) (d : List (Param × List β)) : String :=
  if d.isEmpty then "-" else "/".intercalate (d.map (fun e => showKey e.1 ++ "=" ++ ",".intercalate (e.2.map f)))
partial def loop (h : IO.FS.Stream) : IO Unit := do
  let line ← h.getLine
  if line.isEmpty then pure () else
    match line.trimAscii.toString.splitOn " " with
    | [nmax, rec, tabs] =>
      let fs := rec.splitOn "&"
      let parent := strs' (fld fs "P")
      let cs := (if fld fs "CH" = "" then [] else (fld fs "CH").splitOn "~").map parseChild'
      let objs := (tabs.splitOn "#").map parseTab
      let out := (List.range (nmax.toNat! + 1)).map (fun n =>
        if fld fs "k" = "union" then
          match unionEmit parent cs objs n with
          | some em => showDict (fun (io : Nat × Obj) => s!"{io.1}:{io.2}") (groupByKey em)
          | none => "none"
        else if fld fs "k" = "product" then
          showDict (fun (t : List Obj) => ".".intercalate (t.map toString)) (groupByKey (productEmit parent cs objs n))
        else "unsupported")
      IO.println (" | ".intercalate out)
    | _ => IO.println "bad-op"
    loop h
def main : IO Unit := do loop (← IO.getStdin)
