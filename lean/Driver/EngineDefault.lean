import CSSVerif.EngineTable
def nats (s : String) : List Nat := if s = "" || s = "-" then [] else (s.splitOn ",").map String.toNat!
def b (s : String) : Bool := s == "1"
def parseRuleOut (s : String) : RuleOut :=
  match s.splitOn ":" with
  | p :: cs :: fl :: tw :: iv :: _ =>
    let f := fl.toList.map (· == '1')
    { parent := p.toNat!, children := nats cs, flags := ⟨f.getD 0 false, f.getD 1 false, f.getD 2 false, f.getD 3 false⟩, twoWay := b tw, isVer := b iv }
  | _ => default
abbrev UAcc := UTab
partial def runSched (u : Universe) (fuel : Nat) (iter : Bool) (k : Nat) (s : E2.St) (n : Nat) (bs : List Bool) : E2.St × Nat × List Bool :=
  let rec goK (s : E2.St) (i : Nat) (n : Nat) : E2.St × Nat × Bool :=
    if i == 0 then (s, n, true) else
    match E2.stepEngine u fuel s with
    | (s, some _) => goK s (i-1) (n+1)
    | (s, none) => (s, n, false)
  let (s, n, more) := goK s k n
  let (s, b) := if iter then E2.searchIter s 0 else E2.search s 0
  if more then runSched u fuel iter k s n (bs ++ [b]) else (s, n, bs ++ [b])
def showKeys (l : List (Nat × List Nat)) : String :=
  toString ((l.map (fun k => k.1 :: k.2)).mergeSort (fun a b => decide (a ≤ b)))
def report (s : E2.St) (n : Nat) : String :=
  let ev := " ".intercalate (s.log.map (fun e => s!"E{e.start}>{e.ends}{if e.isVer then "v" else ""}{if e.twoWay then "t" else ""}"))
  let nl := s.cdb.classes.length
  let ver := (List.range nl).map (fun l => if s.eq.uf.isVerified l then 1 else 0)
  let part := (List.range nl).map (fun a => ((List.range nl).find? (fun b => s.eq.equivalent a b)).getD a)
  s!"packets={n} classes={s.cdb.classes} empt={s.cdb.empties.map (fun o => match o with | none => 2 | some true => 1 | some false => 0)} rules={showKeys s.rules} eqv={showKeys s.eqv} ver={ver} part={part} tried={s.tried.mergeSort} sym={s.symExp.mergeSort} inf={s.infExp.mergeSort} ign={s.q.ignore.mergeSort} | {ev}"
partial def loop (h : IO.FS.Stream) (a : UAcc) : IO Unit := do
  let line ← h.getLine
  if line.isEmpty then pure () else
    match line.trimAscii.toString.splitOn " " with
    | ["U", bits] => loop h { (default : UAcc) with empty := (bits.toList.map (· == '1')).toArray }
    | ["A", σ, x, rs] => loop h { a with app := a.app ++ [((σ.toNat!, x.toNat!), (rs.splitOn ";").map parseRuleOut)] }
    | ["P", i, f, e, v, y, ev] =>
      loop h { a with initial := nats i, inferral := nats f, expansion := if e = "-" then [] else (e.splitOn ";").map nats, ver := nats v, sym := nats y, ev := b ev }
    | ["R", c, k, it] =>
      let u := a.toU
      let fuel := 4 * a.empty.size + 10
      let (s, n, bs) := runSched u fuel (b it) k.toNat! (E2.initEngine u fuel c.toNat!) 0 []
      IO.println (s!"spec={bs.map (fun b => if b then 1 else 0)} wfu={if wfuB a then 1 else 0} " ++ report s n); loop h a
    | _ => IO.println "bad-op"; loop h a
def main : IO Unit := do loop (← IO.getStdin) {}
