import CSSVerif.SpecEval
import CSSVerif.CheckSpec
import CSSVerif.Shifts
import CSSVerif.SpecSem
/-! Driver for specification skeletons (C01, C02, C19, C13, C17...).
Line: `nClasses N cap root empties(-|a,b) skeleton`; prints `check=<0/1> msh=<model shifts> wf=<0/1> <ok|incomplete> c:terms|terms|... ...`:
`wf` = the proven-sound `skelWFB` (hypothesis `SkelWF` of `spec_counts_correct` / `evalSpec_correct`);
`check` = verdict of the proven `checkSpec` on (parent, children, shifts); then the evaluation of the skeleton. -/
def strs' (s : String) : List String := if s = "" then [] else s.splitOn ","
def parseTerms' (s : String) : Terms :=
  if s = "" then [] else (s.splitOn "/").map (fun e =>
    match e.splitOn "=" with
    | [k, v] => ((if k = "" then [] else (k.splitOn ".").map String.toNat!), v.toInt!)
    | _ => ([], 0))
def fld (fs : List String) (key : String) : String :=
  ((fs.find? (·.startsWith (key ++ "="))).map (fun f => (f.drop (key.length + 1)).toString)).getD ""
def parseChild' (s : String) : Child :=
  let fs := s.splitOn ";"
  { names := strs' (fld fs "C"),
    emap := (strs' (fld fs "E")).map (fun e => match e.splitOn ":" with | [a, b] => (a, b) | _ => ("", "")),
    minSize := (fld fs "MIN").toNat!, maxSize := (fld fs "MAX").toNat?, terms := fun _ => [] }
def parseRule'' (s : String) : SRule :=
  let fs := s.splitOn "&"
  let kind := match fld fs "k" with | "union" => Kind.union | "product" => .product | "complement" => .complement | "quotient" => .quotient | _ => .ver
  { cls := (fld fs "c").toNat!, kind := kind, parentNames := strs' (fld fs "P"), idx := ((fld fs "IDX").toNat?).getD 0,
    sub := (strs' (fld fs "sub")).map String.toNat!, shifts := (strs' (fld fs "sh")).map String.toInt!,
    children := (if fld fs "CH" = "" then [] else (fld fs "CH").splitOn "~").map parseChild',
    table := (if fld fs "T" = "" then [] else (fld fs "T").splitOn "+").map (fun e =>
      match e.splitOn "@" with | [n, t] => (n.toNat!, parseTerms' t) | _ => (0, [])) }
def showT (t : Terms) : String :=
  "/".intercalate (t.norm.map (fun e => ".".intercalate (e.1.map toString) ++ "=" ++ toString e.2))
partial def loop (h : IO.FS.Stream) : IO Unit := do
  let line ← h.getLine
  if line.isEmpty then pure () else
    match line.trimAscii.toString.splitOn " " with
    | [nc, nmax, cap, root, empt, rs] =>
      let rules := (rs.splitOn "#").map parseRule''
      let nc := nc.toNat!; let nmax := nmax.toNat!
      let R : List Rule := rules.map (fun r => ⟨r.cls, r.sub, r.shifts⟩)
      let chk := checkSpec R root.toNat! (if empt = "-" then [] else (empt.splitOn ",").map String.toNat!)
      let (tab, _) := evalSpec rules nc cap.toNat! 10000 (Array.replicate nc #[])
      -- complete when every class with a rule has its terms 0..nmax (classes fed by negative shifts stop before `cap`)
      let ok := (List.range nc).all (fun c => tab.len c > nmax || !(rules.any (·.cls == c)))
      let out := (List.range nc).map (fun c => s!"{c}:" ++ "|".intercalate (((tab.getD c #[]).toList.take (nmax+1)).map showT))
      let msh := ";".intercalate ((rules.filter (fun r => r.kind != .ver)).map (fun r => s!"{r.cls}:{",".intercalate ((modelShifts r).map toString)}"))
      IO.println (s!"check={if chk then 1 else 0} msh={msh} wf={if skelWFB rules then 1 else 0} " ++ (if ok then "ok " else "incomplete ") ++ " ".intercalate out)
    | _ => IO.println "bad-op"
    loop h
def main : IO Unit := do loop (← IO.getStdin)
