import CSSVerif.FoldedCheck
/-! Driver for the proven grouping check (C02). Line: `R S H` with rule lists `p:c,c:s,s|p::|...` (`-` = empty) and hidden
classes `a,b` (`-` = none); prints `folded=<0/1>`. -/
def pNats (s : String) : List Nat := if s = "" then [] else (s.splitOn ",").map String.toNat!
def pInts (s : String) : List Int := if s = "" then [] else (s.splitOn ",").map String.toInt!
def pRule (s : String) : Rule :=
  match s.splitOn ":" with
  | [p, cs, ss] => ⟨p.toNat!, pNats cs, pInts ss⟩
  | _ => ⟨0, [], []⟩
def pRules (s : String) : List Rule := if s = "-" then [] else (s.splitOn "|").map pRule
partial def loop (h : IO.FS.Stream) : IO Unit := do
  let line ← h.getLine
  if line.isEmpty then pure () else
    match line.trimAscii.toString.splitOn " " with
    | [r, s, hd] =>
      IO.println s!"folded={if foldedB (pRules r) (pRules s) (if hd = "-" then [] else pNats hd) then 1 else 0}"
    | _ => IO.println "bad-op"
    loop h
def main : IO Unit := do loop (← IO.getStdin)
