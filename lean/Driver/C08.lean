import CSSVerif.Sampler
/-! Driver for C08. `VC|K=..|MS=..|P=..|C;MIN=..;MAX=..;E=..|...` prints the model's valid compositions with the
children's extra parameters (`skip` = contradiction); `W w1,w2,..` prints for r = 1..Σw the block the threshold walk selects. -/
def strsP (s : String) : List String := if s = "" then [] else s.splitOn ","
def natsP (s : String) : List Nat := (strsP s).map String.toNat!
def fldP (fs : List String) (key : String) : String :=
  ((fs.find? (·.startsWith (key ++ "="))).map (fun f => (f.drop (key.length + 1)).toString)).getD ""
partial def loop (h : IO.FS.Stream) : IO Unit := do
  let line ← h.getLine
  if line.isEmpty then pure () else
    let fs := line.trimAscii.toString.splitOn "|"
    if fs.head? == some "W" || (line.trimAscii.toString.startsWith "W ") then
      let ws := natsP ((line.trimAscii.toString.drop 2).toString)
      let tot := ws.sum
      IO.println (",".intercalate ((List.range tot).map (fun r => match walk ws (r + 1) with | some (i, _) => toString i | none => "_")))
      loop h
    else
    let keys := strsP (fldP fs "K")
    let chs := (fs.filter (·.startsWith "C;")).map (fun c => c.splitOn ";")
    let d : ProdData := {
      keys := keys, minimumSizes := natsP (fldP fs "MS"),
      minChild := chs.map (fun c => natsP (fldP c "MIN")),
      maxChild := chs.map (fun c => (strsP (fldP c "MAX")).map (fun x => x.toNat?)),
      emap := chs.map (fun c => (strsP (fldP c "E")).map (fun e => match e.splitOn ":" with | [a, b] => (a, b) | _ => ("", ""))) }
    let params := natsP (fldP fs "P")
    let comps := validComps d params
    let out := comps.map (fun comp =>
      let eps := (comp.zip d.emap).map (fun ce => extraParams d ce.1 ce.2)
      if eps.any (·.isNone) then "skip" else
      "&".intercalate (eps.map (fun o => ",".intercalate ((o.getD []).map (fun kv => kv.1 ++ "=" ++ toString kv.2)))))
    IO.println (" ".intercalate out)
    loop h
def main : IO Unit := do loop (← IO.getStdin)
