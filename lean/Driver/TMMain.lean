import CSSVerif.TableMethod
def parseRule' (s : String) : Option Rule :=
  match s.splitOn "|" with
  | [p, cs, ss] => do
      let p ← p.toNat?
      let cs ← (if cs = "" then some [] else (cs.splitOn ",").mapM String.toNat?)
      let ss ← (if ss = "" then some [] else (ss.splitOn ",").mapM String.toInt?)
      pure ⟨p, cs, ss⟩
  | _ => none
def showV (n : Nat) (t : TM) : String :=
  " ".intercalate ((List.range n).map (fun c => match t.val c with | none => "inf" | some v => toString v))
def showL (o : Option (Array (Option Nat))) : String :=
  match o with
  | none => "none"
  | some a => " ".intercalate (a.toList.map (fun v => match v with | none => "inf" | some v => toString v))
partial def loop (h : IO.FS.Stream) : IO Unit := do
  let line ← h.getLine
  if line.isEmpty then pure () else
    match line.trimAscii.toString.splitOn " " with
    | [n, rs] =>
      let n := n.toNat!
      let R := (rs.splitOn ";").filterMap parseRule'
      -- after every prefix: model answer, and agreement with the proven reference
      let (_, outs, agree) := R.foldl (fun (acc : TM × List String × Bool) r =>
        let (t, outs, ok) := acc
        let t := t.addRuleKey r
        let pre := (t.rules.toList)
        let a := showV n t
        (t, outs ++ [a], ok && (a == showL (lfpRef pre n)))) (({} : TM), [], true)
      IO.println (" ; ".intercalate outs ++ (if agree then " #agree" else " #DISAGREE"))
    | _ => IO.println "bad"
    loop h
def main : IO Unit := do loop (← IO.getStdin)
