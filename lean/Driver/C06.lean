import CSSVerif.EquivDB
import CSSVerif.Scc
import CSSVerif.CCComplete
/-! Driver for C06. `new n`, `two a b`, `one a b`, `ver a`, `cyc` print
`model-partition model-verified | scc-partition` (partition = each label ↦ least equivalent label);
`cyc` lines end with ` | rest=<0/1>` (hypothesis of cc_complete); `path a b v1,v2,..` prints the verdict of the proven path checker on the recorded edges. -/
def canon (d : EqDB) (n : Nat) : String :=
  let part := (List.range n).map (fun a => ((List.range n).find? (fun b => d.equivalent a b)).getD a)
  let ver := (List.range n).map (fun a => if d.uf.isVerified a then 1 else 0)
  s!"{part} {ver}"
def sccPart (d : EqDB) (n : Nat) : String :=
  let part := (List.range n).map (fun a => (List.range n).find? (fun b => sccB d.edges a b == some true))
  if part.all (·.isSome) then toString (part.map (·.getD 0)) else "FUEL"
partial def loop (h : IO.FS.Stream) (n : Nat) (d : EqDB) : IO Unit := do
  let line ← h.getLine
  if line.isEmpty then pure () else
    let say (d : EqDB) : IO Unit := do IO.println (canon d n ++ " | " ++ sccPart d n); loop h n d
    match line.trimAscii.toString.splitOn " " with
    | ["new", k] => match k.toNat? with
      | some k => IO.println "ok"; loop h k {}
      | none => IO.println "bad-op"; loop h n d
    | ["two", a, b] => match a.toNat?, b.toNat? with
      | some a, some b => say (d.addTwoWay a b)
      | _, _ => IO.println "bad-op"; loop h n d
    | ["one", a, b] => match a.toNat?, b.toNat? with
      | some a, some b => say (d.addOneWay a b)
      | _, _ => IO.println "bad-op"; loop h n d
    | ["ver", a] => match a.toNat? with
      | some a => say (d.setVerified a)
      | none => IO.println "bad-op"; loop h n d
    | ["cyc"] =>
      -- the hypothesis of the proven cc_complete / cc_exact (the search came to rest within the fuel), evaluated for this history
      let d' := d.connectCycles
      IO.println (canon d' n ++ " | " ++ sccPart d' n ++ " | rest=" ++ (if EqDB.ccRest d then "1" else "0")); loop h n d'
    | ["path", a, b, p] => match a.toNat?, b.toNat?, (p.splitOn ",").mapM String.toNat? with
      | some a, some b, some p => IO.println (if checkPath d.edges p a b then "path-ok" else "path-BAD"); loop h n d
      | _, _, _ => IO.println "bad-op"; loop h n d
    | _ => IO.println "bad-op"; loop h n d
def main : IO Unit := do loop (← IO.getStdin) 0 {}
