import CSSVerif.BijJson
/-! Driver for C18 (JSON form of a bijection's matching). Line: entries `a-b:o.o.o` separated by `;` (the matching in dictionary
order, classes as identifiers, `_` = empty order). Prints `classes array | nested dictionary | rebuilt matching`. -/
open BijJ
def parseOrder (s : String) : List Nat := if s = "_" then [] else (s.splitOn ".").map String.toNat!
def showOrder (o : List Nat) : String := if o.isEmpty then "_" else ".".intercalate (o.map toString)
def parseEntry (s : String) : Key × List Nat :=
  match s.splitOn ":" with
  | [k, o] => (match k.splitOn "-" with | [a, b] => ((a.toNat!, b.toNat!), parseOrder o) | _ => ((0, 0), []))
  | _ => ((0, 0), [])
def showM (m : Matching) : String := ";".intercalate (m.map (fun e => s!"{e.1.1}-{e.1.2}:{showOrder e.2}"))
partial def loop (h : IO.FS.Stream) : IO Unit := do
  let line ← h.getLine
  if line.isEmpty then pure () else
    let t := line.trimAscii.toString
    let m : Matching := if t = "" then [] else (t.splitOn ";").map parseEntry
    let cs := classesArr m
    let jm := jsonMap cs m
    let arr := ",".intercalate (cs.map toString)
    let js := ";".intercalate (jm.map (fun o => s!"{o.1}>" ++ "/".intercalate (o.2.map (fun i => s!"{i.1}:{showOrder i.2}"))))
    IO.println (arr ++ " | " ++ js ++ " | " ++ showM (rebuild cs jm))
    loop h
def main : IO Unit := do loop (← IO.getStdin)
