import CSSVerif.ExtractCheck
/-! Driver for C11. Line `root U-keys M-keys` (keys `p|c,c|s,s|B;...`, `-` for none):
prints `model <keys of the Lean minimize model> | ok=<0/1> sub=.. prod=.. lhs=.. closed=.. min=.. rev=..`
where the flags are the clauses of the proven checker evaluated on the implementation's output M. -/
def parseKey (s : String) : Option Key :=
  match s.splitOn "|" with
  | [p, cs, ss, b] => do
      let p ← p.toNat?
      let cs ← (if cs = "" then some [] else (cs.splitOn ",").mapM String.toNat?)
      let ss ← (if ss = "" then some [] else (ss.splitOn ",").mapM String.toInt?)
      let b ← (match b with | "R" => some Bucket.reverse | "N" => some .normal | "E" => some .equiv | "V" => some .verification | _ => none)
      pure ⟨⟨p, cs, ss⟩, b⟩
  | _ => none
def parseKeys (s : String) : Option (List Key) := if s = "-" then some [] else (s.splitOn ";").mapM parseKey
def showKey (k : Key) : String :=
  s!"{k.rule.parent}|{",".intercalate (k.rule.children.map toString)}|{",".intercalate (k.rule.shifts.map toString)}|" ++
  (match k.bucket with | .reverse => "R" | .normal => "N" | .equiv => "E" | .verification => "V")
def b01 (b : Bool) : String := if b then "1" else "0"
partial def loop (h : IO.FS.Stream) : IO Unit := do
  let line ← h.getLine
  if line.isEmpty then pure () else
    match line.trimAscii.toString.splitOn " " with
    | [root, us, ms] =>
      match root.toNat?, parseKeys us, parseKeys ms with
      | some root, some U, some M =>
        let N := max (nClasses U) (root + 1)
        let model := ";".intercalate ((minimize U root).map showKey)
        let flags := s!"ok={b01 (extractOKB U M N root && reverseOnlyIfNeededB U M N root)} sub={b01 (subMulti M U)} prod={b01 (pumpsB (rulesOfKeys M) N root)} lhs={b01 (distinctB (lhsK M))} closed={b01 (closedB M)} min={b01 (oneMinimalB M N root)} rev={b01 (reverseOnlyIfNeededB U M N root)} rootpumps={b01 (pumpsB (rulesOfKeys U) N root)}"
        IO.println s!"model {model} | {flags}"
      | _, _, _ => IO.println "bad-op"
    | _ => IO.println "bad-op"
    loop h
def main : IO Unit := do loop (← IO.getStdin)
