import CSSVerif.PathMaps
/-! Driver for C07 (derived forms' object maps). Line: `steps x1,x2,.. | y1,y2,..` where
`steps = F1/B1;F2/B2;..`, `Fi = a>b,a>b,..` (finite tables over object ids; `-` for an empty table).
Prints the path's forward images of the xs and backward images of the ys (`_` = undefined). -/
def parseTab (s : String) : Option PFun :=
  if s = "-" then some [] else (s.splitOn ",").mapM (fun p =>
    match p.splitOn ">" with
    | [a, b] => do pure ((← a.toNat?), (← b.toNat?))
    | _ => none)
def parseStep (s : String) : Option Step :=
  match s.splitOn "/" with
  | [f, b] => do pure ((← parseTab f), (← parseTab b))
  | _ => none
def nats (s : String) : Option (List Nat) := if s = "-" then some [] else (s.splitOn ",").mapM String.toNat?
def sh (o : Option Nat) : String := match o with | some v => toString v | none => "_"
partial def loop (h : IO.FS.Stream) : IO Unit := do
  let line ← h.getLine
  if line.isEmpty then pure () else
    match line.trimAscii.toString.splitOn " " with
    | [st, xs, "|", ys] =>
      match (st.splitOn ";").mapM parseStep, nats xs, nats ys with
      | some steps, some xs, some ys =>
        IO.println (",".intercalate (xs.map (fun x => sh (pathFwd steps x))) ++ " | " ++ ",".intercalate (ys.map (fun y => sh (pathBwd steps y))))
      | _, _, _ => IO.println "bad-op"
    | _ => IO.println "bad-op"
    loop h
def main : IO Unit := do loop (← IO.getStdin)
