import CSSVerif.Local
/-! C10 for quotients (model): what `quotientTerms` reads from the valuation. -/

theorem attachRev_map_min (a : Nat → Nat → Terms) (r : SRule) :
    (attachRev a r).map (·.minSize) = r.children.map (·.minSize) := by
  unfold attachRev
  rw [List.map_map]
  have : ((fun (c : Child) => c.minSize) ∘ fun (cj : Child × Nat) => ({ cj.1 with terms := a (revClass r cj.2) } : Child)) =
         (fun (c : Child) => c.minSize) ∘ (·.1) := rfl
  rw [this, ← List.map_map, List.map_fst_zipIdx]  -- zipIdx.map fst = l

theorem attachRev_getD_min (a : Nat → Nat → Terms) (r : SRule) (j : Nat) :
    ((attachRev a r).getD j dfltChild).minSize = (r.children.getD j dfltChild).minSize := by
  unfold attachRev
  simp only [List.getD_eq_getElem?_getD, List.getElem?_map, List.getElem?_zipIdx]
  cases h : r.children[j]? with
  | none => simp [dfltChild]
  | some c => simp

theorem attachRev_getD_data' (a : Nat → Nat → Terms) (r : SRule) (j : Nat) :
    ((attachRev a r).getD j dfltChild).names = (r.children.getD j dfltChild).names ∧
    ((attachRev a r).getD j dfltChild).emap = (r.children.getD j dfltChild).emap := attachRev_getD_data a r j

theorem qShift_attachRev (a : Nat → Nat → Terms) (r : SRule) : qShift (attachRev a r) r.idx = qShift r.children r.idx := by
  unfold qShift
  rw [attachRev_map_min, attachRev_getD_min]

theorem qBoundsA_attachRev (a : Nat → Nat → Terms) (r : SRule) (n : Nat) :
    qBoundsA (attachRev a r) r.idx n = qBoundsA r.children r.idx n := by
  unfold qBoundsA attachRev
  rw [List.zipIdx_map, List.map_map]
  apply List.map_congr_left
  intro x _
  rfl

/-- the non-flipped children of `attachRev a r`, over a base list that does not depend on `a` -/
def othersBase (r : SRule) : List ((Child × Nat) × Nat) :=
  List.filter (fun (x : (Child × Nat) × Nat) => x.2 != r.idx) r.children.zipIdx.zipIdx

theorem qOthers_attachRev (a : Nat → Nat → Terms) (r : SRule) :
    qOthers (attachRev a r) r.idx = (othersBase r).map (fun x => ({ x.1.1 with terms := a (revClass r x.1.2) } : Child)) := by
  unfold qOthers attachRev othersBase
  rw [List.zipIdx_map, List.filter_map, List.map_map]
  apply List.map_congr_left
  intro x _
  rfl

theorem qOthers_bounds_attachRev (a : Nat → Nat → Terms) (r : SRule) :
    (qOthers (attachRev a r) r.idx).map (fun c => (c.minSize, c.maxSize)) = (othersBase r).map (fun x => (x.1.1.minSize, x.1.1.maxSize)) := by
  rw [qOthers_attachRev, List.map_map]
  apply List.map_congr_left
  intro x _
  rfl

/-- **quotient congruence**: `quotientTerms` on `attachRev a r` and on `attachRev b r` agree as soon as `a` and `b`
agree (i) on the original parent at size `n + shift`, (ii) on child `j` at the parts of the compositions `_a` ranges
over, (iii) on the other children at the parts of the compositions `_c` ranges over -/
theorem quotient_congr (r : SRule) (a b : Nat → Nat → Terms) (n : Nat)
    (hp : a (r.sub.headD 0) (n + qShift r.children r.idx) = b (r.sub.headD 0) (n + qShift r.children r.idx))
    (hA : n ≠ 0 → ∀ sizes ∈ comps ((n + qShift r.children r.idx : Nat) : Int) (qBoundsA r.children r.idx n),
          ∀ p ∈ r.children.zipIdx.zip sizes, a (revClass r p.1.2) p.2 = b (revClass r p.1.2) p.2)
    (hC : ∀ sizes ∈ comps (qShift r.children r.idx : Int) ((othersBase r).map (fun x => (x.1.1.minSize, x.1.1.maxSize))),
          ∀ p ∈ (othersBase r).zip sizes, a (revClass r p.1.1.2) p.2 = b (revClass r p.1.1.2) p.2) :
    quotientTerms r.parentNames (attachRev a r) r.idx (a (r.sub.headD 0)) n =
    quotientTerms r.parentNames (attachRev b r) r.idx (b (r.sub.headD 0)) n := by
  -- `_a`
  have hquotA : quotA r.parentNames (attachRev a r) r.idx (a (r.sub.headD 0)) n =
                quotA r.parentNames (attachRev b r) r.idx (b (r.sub.headD 0)) n := by
    unfold quotA
    rw [qShift_attachRev a r, qShift_attachRev b r, qBoundsA_attachRev a r, qBoundsA_attachRev b r, hp]
    by_cases hn : n = 0
    · subst hn; rfl
    · have hne : (n == 0) = false := by simpa using hn
      simp only [hne, Bool.false_eq_true, ↓reduceIte]
      apply foldl_ext
      intro acc sizes hs
      congr 1
      unfold attachRev
      rw [List.zip_map_left, List.zip_map_left, List.map_map, List.map_map]
      apply List.map_congr_left
      intro p hpm
      simp only [Function.comp, Prod.map, id, qMapped]
      rw [hA hn sizes hs p hpm]
      rfl
  -- `_c`
  have hquotC : quotC r.parentNames (attachRev a r) r.idx = quotC r.parentNames (attachRev b r) r.idx := by
    unfold quotC
    rw [qShift_attachRev a r, qShift_attachRev b r, qOthers_bounds_attachRev a r, qOthers_bounds_attachRev b r]
    apply foldl_ext
    intro acc sizes hs
    congr 1
    rw [qOthers_attachRev a r, qOthers_attachRev b r]
    rw [List.zip_map_left, List.zip_map_left, List.map_map, List.map_map]
    apply List.map_congr_left
    intro p hpm
    simp only [Function.comp, Prod.map, id, qMapped]
    rw [hC sizes hs p hpm]
    rfl
  unfold quotientTerms
  have hd1 := attachRev_getD_data' a r r.idx
  have hd2 := attachRev_getD_data' b r r.idx
  simp only [attachRev_getD_min, hd1.1, hd1.2, hd2.1, hd2.2, hquotA, hquotC]
#print axioms quotient_congr
