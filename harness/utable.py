"""U-table: table-driven synthetic universes (classes are ids, every strategy looks its children up in a random table;
no objects). Used where only the engine's bookkeeping matters (C04, C14, C17): the same table is given to the Lean
Engine model, so the real CombinatorialSpecificationSearcher and the model run on literally the same input."""
import random

from comb_spec_searcher import (
    CartesianProductStrategy,
    CombinatorialClass,
    DisjointUnionStrategy,
    StrategyPack,
    SymmetryStrategy,
)
from comb_spec_searcher.exception import StrategyDoesNotApply
from comb_spec_searcher.strategies.rule import AbstractRule
from comb_spec_searcher.strategies.strategy import AbstractStrategy, StrategyFactory, VerificationStrategy


class TC(CombinatorialClass):
    U = None
    def __init__(self, i): self.i = i
    def is_empty(self): return TC.U["empty"][self.i]
    def is_atom(self): return TC.U["atom"][self.i]
    def minimum_size_of_object(self): return TC.U["minsize"][self.i]
    def to_jsonable(self): d = super().to_jsonable(); d["i"] = self.i; return d
    @classmethod
    def from_dict(cls, d): return cls(d["i"])
    COMPRESS = False  # True: the class database stores the classes as bytes (no class object is kept alive by it)
    def to_bytes(self):
        if not TC.COMPRESS: raise NotImplementedError
        return str(self.i).encode()
    @classmethod
    def from_bytes(cls, b): return cls(int(b.decode()))
    def __eq__(self, o): return isinstance(o, TC) and o.i == self.i
    def __hash__(self): return hash(self.i)
    def __repr__(self): return f"TC({self.i})"
    __str__ = __repr__

class TabMixin:
    """children = U['rules'][name].get(class id)"""
    def __init__(self, name, **kw): self.name = name; super().__init__(**kw)
    def decomposition_function(self, c):
        ch = TC.U["rules"][self.name].get(c.i)
        return None if ch is None else tuple(TC(j) for j in ch)
    def formal_step(self): return self.name
    def forward_map(self, *a, **k): raise NotImplementedError
    def backward_map(self, *a, **k): raise NotImplementedError
    @classmethod
    def from_dict(cls, d): return cls(**d)
    def to_jsonable(self): d = super().to_jsonable(); d["name"] = self.name; return d
    def __repr__(self): return f"{type(self).__name__}({self.name})"
    def __str__(self): return self.name
class TUnion(TabMixin, DisjointUnionStrategy): pass
class TProd(TabMixin, CartesianProductStrategy): pass
class TSym(TabMixin, SymmetryStrategy): pass
class TVer(VerificationStrategy):
    def __init__(self, name): self.name = name; super().__init__()
    def verified(self, c): return c.i in TC.U["rules"][self.name]
    def formal_step(self): return self.name
    @classmethod
    def from_dict(cls, d): return cls(d["name"])
    def to_jsonable(self): d = super().to_jsonable(); d["name"] = self.name; return d
    def __repr__(self): return f"TVer({self.name})"
class TFactory(StrategyFactory):
    """yields strategies and ready rules (possibly with a foreign parent)"""
    def __init__(self, name): self.name = name
    def __call__(self, c):
        for item in TC.U["factory"][self.name].get(c.i, []):
            kind = item[0]
            if kind == "strat": yield TUnion(item[1])
            elif kind == "rule":   # ("rule", stratname, parent id)
                s = TUnion(item[1]); p = TC(item[2])
                ch = s.decomposition_function(p)
                if ch is not None: yield s(p, ch)
    def __str__(self): return self.name
    def __repr__(self): return f"TFactory({self.name})"
    @classmethod
    def from_dict(cls, d): return cls(d["name"])
    def to_jsonable(self): d = super().to_jsonable(); d["name"] = self.name; return d

def gen_universe(rnd, n):
    U = {"empty": [rnd.random() < 0.2 for _ in range(n)], "atom": [False]*n, "minsize": [rnd.randint(0, 2) for _ in range(n)], "rules": {}, "factory": {}}
    U["empty"][0] = False
    nonempty = [i for i in range(n) if not U["empty"][i]]
    def kids(k, allow_empty):
        pool = list(range(n)) if allow_empty else nonempty
        return tuple(rnd.choice(pool) for _ in range(k))
    for name, allow_empty, ks in [("U1", True, [1,2,2,3]), ("U2", True, [1,2]), ("P1", False, [1,2,2,3]), ("I1", True, [1]), ("I2", True, [1]), ("Y1", False, [1])]:
        tab = {}
        for i in nonempty:
            if rnd.random() < (0.5 if name[0] in "UP" else 0.3):
                tab[i] = kids(rnd.choice(ks), allow_empty)
        U["rules"][name] = tab
    # two classes that are both equivalent (unary rules) to one hub class which is itself equivalent to a further class:
    # chains of equivalences sharing a hidden class
    if len(nonempty) >= 5 and rnd.random() < 0.4:
        a1, a2, hub, far = rnd.sample([i for i in nonempty if i != 0], 4) if len(nonempty) >= 5 else (None,) * 4
        U["rules"]["I1"][a1] = (hub,)
        U["rules"]["I1"][a2] = (hub,)
        U["rules"]["I2"][hub] = (far,)
        U["rules"]["I1"].pop(hub, None)
        U["rules"]["U1"][0] = (a1, a2)
    # a product strategy that agrees with the union U1 on the children of some classes: the same (parent, children) with other shifts
    U["rules"]["P2"] = {i: ch for i, ch in U["rules"]["U1"].items() if len(ch) >= 2 and all(not U["empty"][c] for c in ch) and rnd.random() < 0.6}
    U["rules"]["V1"] = {i: () for i in nonempty if rnd.random() < 0.25}
    for i in U["rules"]["V1"]:
        if rnd.random() < 0.5: U["atom"][i] = True
    fac = {}
    for i in nonempty:
        items = []
        if rnd.random() < 0.4: items.append(("strat", rnd.choice(["U1", "U2"])))
        if rnd.random() < 0.4: items.append(("rule", rnd.choice(["U1", "U2"]), rnd.choice(nonempty)))
        if items: fac[i] = items
    U["factory"]["F1"] = fac
    return U

def enrich(U, xr):
    """a richer universe from a generated one (its own random source, so that the generated universes stay what they are):
    factories that yield three to five strategies / ready rules for a class in one call, and inferral rules with two children
    the first of which is empty"""
    n = len(U["empty"])
    nonempty = [i for i in range(n) if not U["empty"][i]]
    empty = [i for i in range(n) if U["empty"][i]]
    fac = U["factory"]["F1"]
    for i in nonempty:
        if xr.random() < 0.6:
            items = list(fac.get(i, []))
            while len(items) < xr.randint(3, 5):
                items.append(("strat", xr.choice(["U1", "U2"])) if xr.random() < 0.5 else ("rule", xr.choice(["U1", "U2"]), xr.choice(nonempty)))
            fac[i] = items
    if empty:
        for name in ("I1", "I2"):
            for i, ch in list(U["rules"][name].items()):
                if len(ch) == 1 and xr.random() < 0.5:
                    U["rules"][name][i] = (xr.choice(empty), ch[0])
    return U


def gen_pack(rnd, iterative=False):
    strat = {"U1": TUnion("U1"), "U2": TUnion("U2"), "P1": TProd("P1"), "P2": TProd("P2"),
             "I1": TUnion("I1", ignore_parent=True), "I2": TUnion("I2", ignore_parent=True), "Y1": TSym("Y1"), "F1": TFactory("F1")}
    exp_pool = ["U1", "U2", "P1", "F1"] + (["P2"] if rnd.random() < 0.5 else []); rnd.shuffle(exp_pool)
    ninit = rnd.randint(0, 2); init = exp_pool[:ninit]; rest = exp_pool[ninit:]
    sets = []
    while rest:
        k = rnd.randint(1, len(rest)); sets.append(rest[:k]); rest = rest[k:]
    inf = rnd.choice([[], ["I1"], ["I1", "I2"]]); sym = rnd.choice([[], ["Y1"]])
    return StrategyPack(initial_strats=[strat[s] for s in init], inferral_strats=[strat[s] for s in inf],
                        expansion_strats=[[strat[s] for s in ss] for ss in sets], ver_strats=[TVer("V1")],
                        name="tu", symmetries=[strat[s] for s in sym], iterative=iterative)


def flags(st):
    return "".join("1" if b else "0" for b in (st.ignore_parent, st.inferrable, st.possibly_empty, st.workable))


def ruleout(rule):
    st = rule.strategy
    return (f"{rule.comb_class.i}:{','.join(str(c.i) for c in rule.children)}:{flags(st)}:{int(st.is_two_way(rule.comb_class))}:"
            f"{int(isinstance(st, VerificationStrategy))}:{int(isinstance(st, CartesianProductStrategy))}")


def universe_lines(n, pack, ev):
    """the universe as input lines of the Engine drivers: emptiness, the table of every strategy on every class, the pack"""
    strats, idx = [], {}

    def sid(s):
        k = repr(s)
        if k not in idx:
            idx[k] = len(strats)
            strats.append(s)
        return idx[k]

    P = dict(init=[sid(s) for s in pack.initial_strats], inf=[sid(s) for s in pack.inferral_strats],
             exp=[[sid(s) for s in ss] for ss in pack.expansion_strats], ver=[sid(s) for s in pack.ver_strats],
             sym=[sid(s) for s in pack.symmetries])
    inp = ["U " + "".join("1" if e else "0" for e in TC.U["empty"])]
    for k, s in enumerate(strats):
        for x in range(n):
            c = TC(x)
            outs = []
            if isinstance(s, StrategyFactory):
                for it in s(c):
                    try:
                        r = it(c) if isinstance(it, AbstractStrategy) else it
                    except StrategyDoesNotApply:
                        continue
                    outs.append(ruleout(r))
            else:
                try:
                    outs.append(ruleout(s(c)))
                except StrategyDoesNotApply:
                    pass
            if outs:
                inp.append(f"A {k} {x} " + ";".join(outs))

    def j(l):
        return ",".join(map(str, l)) if l else "-"

    inp.append(f"P {j(P['init'])} {j(P['inf'])} {';'.join(j(e) for e in P['exp']) if P['exp'] else '-'} {j(P['ver'])} {j(P['sym'])} {int(ev)}")
    return inp
