"""U-pword: words over a small alphabet, starting with a prefix, avoiding factor patterns, carrying
statistics (name, letter, frompos) = number of occurrences of `letter` at positions >= frompos.

Everything a property needs as an independent oracle is brute force here: `PW.objects_of_size` is
itertools.product + substring tests, `true_terms` counts them by statistics.

Strategies (all JSON-serialisable, with object maps):
  Expand(mode)  disjoint union: the bare prefix + one child per next letter
  Peel(mode)    Cartesian product: a safe front part of the prefix (an atom) x the rest
  Reduce        inferral: drop patterns containing another pattern (equivalence, child only)
  Swap          symmetry: exchange the two letters
  PAtom         verification of atoms;  PrefVer(prefs) verification (with a pack) of chosen prefixes
  Known(prefs)  verification with brute-force terms (no pack)
  ParentExpansion  factory yielding the expansion rule of the one-letter-shorter class (foreign parent)
  ExpandFactory    factory yielding the Expand strategy
`mode` words: rename (children use their own names), merge (statistics that coincide on a child are
merged onto one child statistic), drop (statistics identically zero on a child are not tracked by it).
"""
from collections import Counter, defaultdict
from itertools import product

import random as _random  # replaced by the enumerating source in C08

import sympy

from comb_spec_searcher import (
    CartesianProductStrategy,
    CombinatorialClass,
    CombinatorialObject,
    DisjointUnionStrategy,
    StrategyPack,
    SymmetryStrategy,
)
from comb_spec_searcher.exception import InvalidOperationError
from comb_spec_searcher.strategies.strategy import StrategyFactory, VerificationStrategy


LAZY_MIN = 0  # see PW.minimum_size_of_object; set per job by the rule-level checks
LOOSE_EMPTY = False  # strategies that declare their children non-empty also apply to empty classes (C04: such children must be kept)
COMPRESS = False  # classes implement to_bytes/from_bytes (stored compressed by ClassDB) and hash weakly; set per job by C04


class W(str, CombinatorialObject):
    def size(self):
        return str.__len__(self)


def stat(w, letter, frompos):
    """number of occurrences of `letter` from position `frompos` on; an upper-case letter names the *weighted* statistic that
    counts every occurrence of the (lower-case) letter twice - a statistic whose value can exceed the size of the object"""
    return w[frompos:].count(letter) if letter.islower() or not letter.isalpha() else 2 * w[frompos:].count(letter.lower())


def tr_letter(letter, table):
    """relabel the letter of a statistic (weighted statistics keep their weight)"""
    return letter.translate(table) if letter.islower() or not letter.isalpha() else letter.lower().translate(table).upper()


class PW(CombinatorialClass):
    def __init__(self, prefix, patterns, alphabet, just_prefix=False, params=()):
        self.alphabet = tuple(sorted(alphabet))
        self.prefix = W(prefix)
        self.patterns = tuple(sorted(map(W, patterns)))
        self.just_prefix = bool(just_prefix)
        self.params = tuple(sorted((str(n), str(l), int(f)) for n, l, f in params))

    @property
    def extra_parameters(self):
        return tuple(n for n, _, _ in self.params)

    def is_empty(self):
        return any(p in self.prefix for p in self.patterns)

    def is_atom(self):
        return self.just_prefix

    def minimum_size_of_object(self):
        # LAZY_MIN = T > 0: classes with a prefix of length <= T report only "at least 1" (allowed by the documented contract)
        if LAZY_MIN and len(self.prefix) <= LAZY_MIN and not self.just_prefix:  # an atom's minimum is used as its size
            return min(1, len(self.prefix))
        return len(self.prefix)

    def get_minimum_value(self, parameter):
        _, l, f = next(p for p in self.params if p[0] == parameter)
        return stat(self.prefix, l, f)

    def get_parameters(self, obj):
        return tuple(stat(obj, l, f) for _, l, f in self.params)

    def possible_parameters(self, n):
        for vals in product(range(n + 1), repeat=len(self.params)):
            yield dict(zip(self.extra_parameters, vals))

    def words(self, size):
        if self.just_prefix:
            if size == len(self.prefix) and not self.is_empty():
                yield W(self.prefix)
            return
        if len(self.prefix) > size:
            return
        for letters in product(self.alphabet, repeat=size - len(self.prefix)):
            w = W(self.prefix + "".join(letters))
            if all(p not in w for p in self.patterns):
                yield w

    def objects_of_size(self, size, **parameters):
        byname = {n: (l, f) for n, l, f in self.params}
        for w in self.words(size):
            if all(stat(w, *byname[k]) == v for k, v in parameters.items()):
                yield w

    def to_jsonable(self):
        d = super().to_jsonable()
        d.update(prefix=str(self.prefix), patterns=[str(p) for p in self.patterns], alphabet=list(self.alphabet),
                 just_prefix=int(self.just_prefix), params=[list(p) for p in self.params])
        return d

    @classmethod
    def from_dict(cls, d):
        return cls(d["prefix"], d["patterns"], d["alphabet"], bool(d["just_prefix"]), [tuple(p) for p in d["params"]])

    def _key(self):
        return (self.alphabet, self.prefix, self.patterns, self.just_prefix, self.params)

    def __eq__(self, o):
        return type(o) is type(self) and self._key() == o._key()

    def __hash__(self):
        if COMPRESS:  # a legal but weak hash: unequal classes collide
            return len(self.prefix) % 3
        return hash(self._key())

    def to_bytes(self):
        if not COMPRESS:
            raise NotImplementedError
        import json

        return json.dumps([type(self).__name__, self.to_jsonable()], sort_keys=True).encode()

    @classmethod
    def from_bytes(cls, b):
        import json

        name, d = json.loads(b.decode())
        return (SW if name == "SW" else PW).from_dict(d)

    def __repr__(self):
        ps = ",".join(f"{n}={l}@{f}" for n, l, f in self.params)
        return f"PW({self.prefix!r}{'!' if self.just_prefix else ''}|{','.join(self.patterns)}|{''.join(self.alphabet)}|{ps})"

    __str__ = __repr__


_TT_CACHE = {}


def true_terms(c, n):
    """brute force: Counter parameter-tuple -> number of objects of size n (independent of the library); memoised"""
    key = (c, n)
    if key not in _TT_CACHE:
        if len(_TT_CACHE) > 200000:
            _TT_CACHE.clear()
        _TT_CACHE[key] = Counter(tuple(stat(w, l, f) for _, l, f in c.params) for w in c.words(n))
    return Counter(_TT_CACHE[key])



def true_objects(c, n):
    res = defaultdict(list)
    for w in c.words(n):
        res[tuple(stat(w, l, f) for _, l, f in c.params)].append(w)
    return res


# ------------------------------------------------------------------------------------------ parameter bookkeeping
def child_params(c, mode, pre, shift=0, atom=False):
    """Statistics of the child whose objects are w[shift:] for parent objects w having `pre` (child's prefix) there.
    Parent statistic (l, f) restricted to the child part is (l, max(0, f - shift)).
    Returns (child params, mapping parent name -> child name) ; a dropped statistic has no entry.
    Mode words: rename / merge / drop (a statistic identically zero on the child - its letter is forbidden, or the child is
    the one-word class `pre` - is not tracked by it) / track (a child that is not an atom tracks one more statistic than
    the parent: no parent statistic maps to it)."""
    out, mapping, groups = [], {}, {}
    forbidden = {p for p in c.patterns if len(p) == 1}
    cyc = {"k": "j", "j": "m", "m": "k"}
    newpref = cyc.get(c.params[0][0][0], "j") if c.params else "j"
    for n, l, f in c.params:
        cf = max(0, f - shift)
        inside = pre[cf:].count(l.lower()) if cf <= len(pre) else 0
        if "drop" in mode and (l.lower() in forbidden or atom) and inside == 0:
            continue  # identically zero on this child
        # two statistics coincide on every object of the child iff same letter and same effective start beyond/in the prefix
        key = (l, inside, cf if cf > len(pre) else None) if "merge" in mode else (n,)
        if key in groups:
            mapping[n] = groups[key]
            continue
        cn = f"{newpref}_{len(out)}" if "rename" in mode else n
        groups[key] = cn
        out.append((cn, l, cf))
        mapping[n] = cn
    if "revnames" in mode and len(out) >= 2:
        # the child's names are handed out in the opposite order: its parameter tuple (sorted by name) then lists the
        # statistics in another order than the parent-to-child dictionary mentions them
        names = [x[0] for x in out]
        ren = dict(zip(names, reversed(names)))
        out = [(ren[n], l, f) for n, l, f in out]
        mapping = {k: ren[v] for k, v in mapping.items()}
    if "revdict" in mode and len(mapping) >= 2:
        mapping = dict(reversed(list(mapping.items())))  # the dictionary lists the parent's statistics backwards
    if "track" in mode and not atom and len(out) < 2:
        used = {x[1] for x in out}
        l = next((a for a in reversed(c.alphabet) if a not in used), c.alphabet[-1])  # preferably independent of the others
        if (l, 0) not in {(x[1], x[2]) for x in out} and "t_0" not in {x[0] for x in out}:
            out.append(("t_0", l, 0))
    return tuple(out), mapping


class _ModeMixin:
    def __init__(self, mode="", **kw):
        self.mode = mode
        super().__init__(**kw)

    def to_jsonable(self):
        d = super().to_jsonable()
        d["mode"] = self.mode
        return d

    @classmethod
    def from_dict(cls, d):
        return cls(**{k: v for k, v in d.items() if k in ("mode", "k", "two_way", "perm", "restricted", "reversible", "cut")})

    def __repr__(self):
        return f"{type(self).__name__}({self.mode!r})"

    def __str__(self):
        return repr(self)


class Expand(_ModeMixin, DisjointUnionStrategy):
    def _kids(self, c):
        """mode word `last`: the bare prefix comes last instead of first (so that child 0 may be empty)"""
        res = []
        order = [(c.prefix, True)] + [(c.prefix + a, False) for a in c.alphabet]
        if "last" in self.mode:
            order = order[1:] + order[:1]
        for idx, (pre, jp) in enumerate(order):
            # mode word `altnames`: every other child lists its statistics under the parent's names in the opposite order, so
            # that children with equally many statistics have different parameter maps
            mode = self.mode + " revnames" if "altnames" in self.mode and idx % 2 == 1 and "revnames" not in self.mode else self.mode
            cp, m = child_params(c, mode, pre, 0, jp)
            res.append((PW(pre, c.patterns, c.alphabet, jp, cp), m))
        return res

    def decomposition_function(self, c):
        if isinstance(c, SW) or c.just_prefix:
            return None
        return tuple(k for k, _ in self._kids(c))

    def extra_parameters(self, c, children=None):
        return tuple(m for _, m in self._kids(c))

    def can_be_equivalent(self):
        return "track" not in self.mode  # a child's additional statistic cannot be recovered from the parent's terms

    def is_two_way(self, comb_class):
        return "track" not in self.mode and "oneway" not in self.mode

    def is_reversible(self, comb_class):
        return "track" not in self.mode and "oneway" not in self.mode

    def formal_step(self):
        return f"expand {self.mode}".strip()

    def forward_map(self, c, w, children=None):
        if children is None:
            children = self.decomposition_function(c)
        for i, ch in enumerate(children):
            if (len(w) == len(c.prefix)) == ch.just_prefix and w.startswith(ch.prefix):
                return (None,) * i + (W(w),) + (None,) * (len(children) - i - 1)
        raise ValueError("word not in class")


class ExpandAt(Expand):
    """the expansion of the class with the given prefix, as a strategy that carries the prefix: a ready rule made by a factory for
    a class that is not the one being expanded. Used as intended (on the class with that prefix) it is Expand."""

    def __init__(self, prefix="", mode=""):
        self.at = prefix
        super().__init__(mode=mode)

    def _kids(self, c):
        base = c if c.prefix == self.at else PW(self.at, c.patterns, c.alphabet, False, c.params)
        return super()._kids(base)

    def formal_step(self):
        return f"expand at {self.at!r} {self.mode}".strip()

    def to_jsonable(self):
        d = super().to_jsonable()
        d["at"] = self.at
        return d

    @classmethod
    def from_dict(cls, d):
        return cls(d.get("at", ""), d.get("mode", ""))

    def __repr__(self):
        return f"ExpandAt({self.at!r},{self.mode!r})"


class LookAhead(StrategyFactory):
    """expands a class and, eagerly, its non-trivial children: ready rules whose parent is not the class being expanded"""

    def __init__(self, mode=""):
        self.mode = mode

    def __call__(self, c):
        if isinstance(c, SW) or c.just_prefix:
            return
        rule = ExpandAt(c.prefix, self.mode)(c)
        yield rule
        for ch in rule.children:
            if not ch.just_prefix and not ch.is_empty():
                yield ExpandAt(ch.prefix, self.mode)(ch)

    def __str__(self):
        return "expand, looking one letter ahead"

    def __repr__(self):
        return f"LookAhead({self.mode!r})"

    @classmethod
    def from_dict(cls, d):
        return cls(d.get("mode", ""))

    def to_jsonable(self):
        d = super().to_jsonable()
        d["mode"] = self.mode
        return d


class ExpandEven(Expand):
    """the expansion, but only for classes whose prefix has even length: together with Peel some classes get a union and a
    product rule, some only one of them"""

    def decomposition_function(self, c):
        if len(getattr(c, "prefix", "")) % 2 == 1:
            return None
        return super().decomposition_function(c)

    def formal_step(self):
        return f"expand (even prefixes) {self.mode}".strip()


class Expand2(Expand):
    """a second, competing decomposition of the same classes: the bare prefix, the one-letter extensions as single words, and
    one child per two next letters"""

    def _kids(self, c):
        res = []
        order = [(c.prefix, True)] + [(c.prefix + a, True) for a in c.alphabet] + [(c.prefix + a + b, False) for a in c.alphabet for b in c.alphabet]
        for pre, jp in order:
            cp, m = child_params(c, self.mode.replace("last", ""), pre, 0, jp)
            res.append((PW(pre, c.patterns, c.alphabet, jp, cp), m))
        return res

    def forward_map(self, c, w, children=None):
        if children is None:
            children = self.decomposition_function(c)
        for i, ch in enumerate(children):
            if (str(w) == str(ch.prefix)) if ch.just_prefix else (len(w) >= len(ch.prefix) and w.startswith(ch.prefix)):
                return (None,) * i + (W(w),) + (None,) * (len(children) - i - 1)
        raise ValueError("word not in class")

    def formal_step(self):
        return f"expand by two letters {self.mode}".strip()


def safe_front(c):
    m = max((len(p) for p in c.patterns), default=1)
    s = max(0, len(c.prefix) - m + 1)
    for i in range(s, len(c.prefix)):
        e = c.prefix[i:]
        if any(e == p[: len(e)] for p in c.patterns):
            break
        s = i + 1
    return s


class Peel(_ModeMixin, CartesianProductStrategy):
    """prefix = front + back where no pattern occurrence can straddle/continue from the front: atom(front) x rest"""

    def __init__(self, mode="", cut=None):
        self.cut = cut  # None: split at the longest safe front; k: split after the first k letters (only where that is safe and shorter)
        super().__init__(mode=mode)

    def _split(self, c):
        s = safe_front(c)
        if self.cut is None:
            return s
        # a cut at most len(prefix) - (longest pattern) + 1 letters in: no occurrence starting in the front can leave the prefix
        s0 = max(0, len(c.prefix) - max((len(p) for p in c.patterns), default=1) + 1)
        return self.cut if 0 < self.cut <= s0 and self.cut < s else 0

    def _kids(self, c):
        s = self._split(c)
        res = []
        for pre, jp, sh in [(c.prefix[:s], True, 0), (c.prefix[s:], False, s)]:
            cp, m = child_params(c, self.mode.replace("drop", "").replace("track", ""), pre, sh)
            res.append((PW(pre, c.patterns, c.alphabet, jp, cp), m))
        return res

    def decomposition_function(self, c):
        if isinstance(c, SW) or c.just_prefix or self._split(c) <= 0 or (c.is_empty() and not LOOSE_EMPTY):
            return None  # (declares its children non-empty: does not apply to an empty class)
        return tuple(k for k, _ in self._kids(c))

    def to_jsonable(self):
        d = super().to_jsonable()
        d["cut"] = self.cut
        return d

    def __repr__(self):
        return f"Peel({self.mode!r})" if self.cut is None else f"Peel({self.mode!r},cut={self.cut})"

    def extra_parameters(self, c, children=None):
        return tuple(m for _, m in self._kids(c))

    def is_reversible(self, comb_class):
        return not LAZY_MIN  # the quotient needs the exact minimum sizes of the siblings

    def formal_step(self):
        return f"peel {self.mode}".strip() + (f" cut={self.cut}" if self.cut is not None else "")

    def backward_map(self, c, ws, children=None):
        yield W(ws[0] + ws[1])

    def forward_map(self, c, w, children=None):
        if children is None:
            children = self.decomposition_function(c)
        k = len(children[0].prefix)
        return W(w[:k]), W(w[k:])


class Reduce(DisjointUnionStrategy):
    """inferral: remove patterns that contain another pattern"""

    def __init__(self):
        super().__init__(ignore_parent=True, inferrable=True, possibly_empty=False, workable=True)

    def decomposition_function(self, c):
        if isinstance(c, SW) or (c.is_empty() and not LOOSE_EMPTY):
            return None
        red = [p for p in c.patterns if not any(q != p and q in p for q in c.patterns)]
        if len(red) == len(c.patterns):
            return None
        return (PW(c.prefix, red, c.alphabet, c.just_prefix, c.params),)

    def extra_parameters(self, c, children=None):
        return ({k: k for k in c.extra_parameters},)

    def formal_step(self):
        return "reduce"

    def forward_map(self, c, w, children=None):
        return (W(w),)

    @classmethod
    def from_dict(cls, d):
        return cls()

    def to_jsonable(self):
        d = super().to_jsonable()
        for k in ("ignore_parent", "inferrable", "possibly_empty", "workable"):
            d.pop(k)
        return d

    def __repr__(self):
        return "Reduce()"


class Swap(SymmetryStrategy):
    """exchange the two letters of a binary alphabet; statistics follow their letters"""

    @staticmethod
    def _t(c):
        al = c.alphabet
        return str.maketrans(al[0] + al[1], al[1] + al[0])

    def decomposition_function(self, c):
        if isinstance(c, SW) or len(c.alphabet) != 2:  # (applies to empty classes too: the searcher copies the emptiness to the image)
            return None
        t = self._t(c)
        return (PW(c.prefix.translate(t), [p.translate(t) for p in c.patterns], c.alphabet, c.just_prefix,
                   [(n, tr_letter(l, t), f) for n, l, f in c.params]),)

    def extra_parameters(self, c, children=None):
        return ({k: k for k in c.extra_parameters},)

    def formal_step(self):
        return "swap"

    def forward_map(self, c, w, children=None):
        return (W(w.translate(self._t(c))),)

    def backward_map(self, c, ws, children=None):
        yield W(ws[0].translate(self._t(c)))

    @classmethod
    def from_dict(cls, d):
        return cls()

    def __repr__(self):
        return "Swap()"


class Rot(_ModeMixin, DisjointUnionStrategy):
    """relabel the alphabet cyclically by k steps (a unary equivalence); may be declared one-way"""

    def __init__(self, mode="", k=1, two_way=True, perm=None, restricted=False, reversible=None):
        self.k = k
        self.two_way = two_way
        self.reversible = reversible  # None: as two_way; True with two_way=False: a one-way rule that may still be counted backwards
        self.restricted = restricted  # True: does not apply to classes whose smallest pattern starts with the last letter; "only": applies only to those
        self.perm = perm  # e.g. "bac": a->b, b->a, c->c (overrides the rotation by k); only for alphabets of that size
        super().__init__(mode=mode)

    def _image(self, c):
        al = "".join(c.alphabet)
        if self.perm is not None:
            return self.perm if (len(self.perm) == len(al) and sorted(self.perm) == sorted(al)) else al
        k = self.k % len(al)
        return al[k:] + al[:k]

    def _t(self, c):
        return str.maketrans("".join(c.alphabet), self._image(c))

    def _kid(self, c):
        """(child, mapping). Mode word `canon`: the child's statistics are named canonically - the parent's names are
        re-assigned in the order of the (relabelled) letters, so the parameter map can permute names used on both sides."""
        t = self._t(c)
        tr = [(n, tr_letter(l, t), f) for n, l, f in c.params]
        if "canon" in self.mode:
            order = sorted(tr, key=lambda p: (p[1], p[2], p[0]))
            names = sorted(n for n, _, _ in tr)
            cp = tuple((names[i], l, f) for i, (_, l, f) in enumerate(order))
            m = {n: names[i] for i, (n, _, _) in enumerate(order)}
        else:
            tmp = PW(c.prefix.translate(t), [], c.alphabet, c.just_prefix, tr)
            cp, m = child_params(tmp, self.mode.replace("drop", "").replace("merge", "").replace("track", ""), tmp.prefix)
        return PW(c.prefix.translate(t), [p.translate(t) for p in c.patterns], c.alphabet, c.just_prefix, cp), m

    def decomposition_function(self, c):
        if isinstance(c, SW) or len(c.alphabet) < 2 or self._image(c) == "".join(c.alphabet):
            return None
        special = min(c.patterns, default="")[:1] == c.alphabet[-1]
        if (self.restricted == "only" and not special) or (self.restricted and self.restricted != "only" and special):
            return None
        return (self._kid(c)[0],)

    def extra_parameters(self, c, children=None):
        return (self._kid(c)[1],)

    def is_two_way(self, comb_class):
        return self.two_way

    def is_reversible(self, comb_class):
        return self.two_way if self.reversible is None else self.reversible

    def formal_step(self):
        return f"rot{self.k if self.perm is None else self.perm}{'' if self.two_way else ' one-way'}{' reversible' if self.reversible else ''}{' restricted=' + str(self.restricted) if self.restricted else ''} {self.mode}".strip()

    def forward_map(self, c, w, children=None):
        return (W(w.translate(self._t(c))),)

    def backward_map(self, c, ws, children=None):
        yield W(ws[0].translate(str.maketrans(self._image(c), "".join(c.alphabet))))

    def to_jsonable(self):
        d = super().to_jsonable()
        d["k"] = self.k
        d["two_way"] = self.two_way
        d["perm"] = self.perm
        d["restricted"] = self.restricted
        d["reversible"] = self.reversible
        return d

    def __repr__(self):
        return f"Rot({self.mode!r},{self.k},{self.two_way},{self.perm!r}{',restricted=' + str(self.restricted) if self.restricted else ''}{',reversible=' + str(self.reversible) if self.reversible is not None else ''})"


class RotPad(Rot):
    """the same relabelling written as a union with an empty first child, P = (empty class) + relabelled P: the only non-empty
    child of the rule is child 1, so its equivalence form and the reverse of that have to keep track of the child's index"""

    @staticmethod
    def _empty(c):
        a = c.alphabet[0]
        return PW(a, [a], c.alphabet, False, ())

    def decomposition_function(self, c):
        kids = super().decomposition_function(c)
        return None if kids is None else (self._empty(c),) + kids

    def extra_parameters(self, c, children=None):
        return ({},) + super().extra_parameters(c, children)

    def forward_map(self, c, w, children=None):
        return (None,) + super().forward_map(c, w, children)

    def backward_map(self, c, ws, children=None):
        yield from super().backward_map(c, ws[1:], children)

    def formal_step(self):
        return "padded " + super().formal_step()

    def __repr__(self):
        return "RotPad" + super().__repr__()[3:]


class RotNE(Rot):
    """the same relabelling, declared two-way but (conservatively) not an equivalence: stored with the two-way rules, never
    folded into equivalence paths"""

    def can_be_equivalent(self):
        return False

    def formal_step(self):
        return super().formal_step() + " (not declared an equivalence)"

    def __repr__(self):
        return "RotNE" + super().__repr__()[3:]


class SW(PW):
    """words over alphabet+{sep} with at least one `sep`, avoiding factor patterns written over alphabet only;
    statistics (name, letter, 0) only"""

    def __init__(self, patterns, alphabet, sep, params=()):  # pylint: disable=super-init-not-called
        self.alphabet = tuple(sorted(alphabet))
        self.sep = sep
        self.prefix = W("")
        self.just_prefix = False
        self.patterns = tuple(sorted(map(W, patterns)))
        self.params = tuple(sorted((str(n), str(l), int(f)) for n, l, f in params))

    def is_empty(self):
        return False

    def is_atom(self):
        return False

    def minimum_size_of_object(self):
        return 1

    def get_minimum_value(self, parameter):
        _, l, _f = next(p for p in self.params if p[0] == parameter)
        return 1 if l == self.sep else 0

    def words(self, size):
        for letters in product(self.alphabet + (self.sep,), repeat=size):
            w = W("".join(letters))
            if self.sep in w and all(p not in w for p in self.patterns):
                yield w

    def objects_of_size(self, size, **parameters):
        byname = {n: (l, f) for n, l, f in self.params}
        for w in self.words(size):
            if all(stat(w, *byname[k]) == v for k, v in parameters.items()):
                yield w

    def to_jsonable(self):
        d = super().to_jsonable()
        d.update(patterns=[str(p) for p in self.patterns], alphabet=list(self.alphabet), sep=self.sep,
                 params=[list(p) for p in self.params])
        return d

    @classmethod
    def from_dict(cls, d):
        return cls(d["patterns"], d["alphabet"], d["sep"], [tuple(p) for p in d["params"]])

    def _key(self):
        return ("SW", self.alphabet, self.sep, self.patterns, self.params)

    def __eq__(self, o):
        return type(o) is type(self) and self._key() == o._key()

    def __hash__(self):
        return hash(self._key())

    def __repr__(self):
        ps = ",".join(f"{n}={l}@{f}" for n, l, f in self.params)
        return f"SW({','.join(self.patterns)}|{''.join(self.alphabet)}+{self.sep}|{ps})"

    __str__ = __repr__


def _sep_ok(c):
    """PW with empty prefix over >= 2 letters whose last letter occurs in no pattern; plain statistics only"""
    return (not isinstance(c, SW) and not c.just_prefix and c.prefix == "" and len(c.alphabet) >= 2
            and all(c.alphabet[-1] not in p for p in c.patterns) and all(f == 0 for _, _, f in c.params))


class SepUnion(_ModeMixin, DisjointUnionStrategy):
    """Av_{A+sep}(P) = Av_A(P) + (words with at least one sep), sep = last letter, not in any pattern"""

    def _kids(self, c):
        sep = c.alphabet[-1]
        rest = c.alphabet[:-1]
        m = " ".join(w for w in ("merge", "rename") if w in self.mode)
        # the first child has no sep: a statistic counting sep is identically zero there and is dropped
        keep = [(n, l, f) for n, l, f in c.params if l != sep]
        tmp = PW("", c.patterns, c.alphabet, False, keep)
        cp1, m1 = child_params(tmp, m, "")
        cp2, m2 = child_params(c, m, "")
        return [(PW("", c.patterns, rest, False, cp1), m1), (SW(c.patterns, rest, sep, cp2), m2)]

    def decomposition_function(self, c):
        if not _sep_ok(c):
            return None
        return tuple(k for k, _ in self._kids(c))

    def extra_parameters(self, c, children=None):
        return tuple(m for _, m in self._kids(c))

    def formal_step(self):
        return f"sep union {self.mode}".strip()

    def forward_map(self, c, w, children=None):
        return (None, W(w)) if c.alphabet[-1] in w else (W(w), None)


class SepSplit(_ModeMixin, CartesianProductStrategy):
    """(words with at least one sep) = Av_A(P) x sep x Av_{A+sep}(P): split at the first sep"""

    def _kids(self, c):
        m = " ".join(w for w in ("merge", "rename") if w in self.mode)
        full = c.alphabet + (c.sep,)
        base = PW("", c.patterns, full, False, c.params)
        keep = [(n, l, f) for n, l, f in c.params if l != c.sep]
        cp1, m1 = child_params(PW("", c.patterns, full, False, keep), m, "")
        cp2, m2 = child_params(base, m, c.sep)
        cp3, m3 = child_params(base, m, "")
        return [(PW("", c.patterns, c.alphabet, False, cp1), m1), (PW(c.sep, c.patterns, full, True, cp2), m2),
                (PW("", c.patterns, full, False, cp3), m3)]

    def decomposition_function(self, c):
        if not isinstance(c, SW):
            return None
        return tuple(k for k, _ in self._kids(c))

    def extra_parameters(self, c, children=None):
        return tuple(m for _, m in self._kids(c))

    def formal_step(self):
        return f"sep split {self.mode}".strip()

    def backward_map(self, c, ws, children=None):
        yield W(ws[0] + ws[1] + ws[2])

    def forward_map(self, c, w, children=None):
        i = w.index(c.sep)
        return W(w[:i]), W(w[i]), W(w[i + 1:])


class SW1(SW):
    """words u.sep.v with u, v over the alphabet avoiding the patterns (exactly one separator): a product whose two outer
    factors are the *same* class"""

    def words(self, size):
        for i in range(size):
            for u in product(self.alphabet, repeat=i):
                for v in product(self.alphabet, repeat=size - 1 - i):
                    a, b = "".join(u), "".join(v)
                    if all(p not in a and p not in b for p in self.patterns):
                        yield W(a + self.sep + b)

    def _key(self):
        return ("SW1", self.alphabet, self.sep, self.patterns, self.params)

    def __hash__(self):
        return hash(self._key())

    def __repr__(self):
        return "SW1" + super().__repr__()[2:]

    __str__ = __repr__


class SplitDot(CartesianProductStrategy):
    """u.sep.v = Av(P) x sep x Av(P): the same child class on both sides of the separator"""

    def decomposition_function(self, c):
        if not isinstance(c, SW1):
            return None
        side = PW("", c.patterns, c.alphabet, False, ())
        return (side, PW(c.sep, [], c.alphabet + (c.sep,), True, ()), side)

    def extra_parameters(self, c, children=None):
        return ({}, {}, {})

    def formal_step(self):
        return "split at the separator"

    def backward_map(self, c, ws, children=None):
        yield W(ws[0] + ws[1] + ws[2])

    def forward_map(self, c, w, children=None):
        i = w.index(c.sep)
        return W(w[:i]), W(w[i]), W(w[i + 1:])

    @classmethod
    def from_dict(cls, d):
        return cls()

    def __repr__(self):
        return "SplitDot()"


class PAtom(VerificationStrategy):
    def __init__(self):
        super().__init__(ignore_parent=True)

    def verified(self, c):
        return not isinstance(c, SW) and c.just_prefix

    def formal_step(self):
        return "atom"

    def get_terms(self, c, n):
        return Counter([c.get_parameters(c.prefix)]) if n == len(c.prefix) and not c.is_empty() else Counter()

    def get_objects(self, c, n):
        r = defaultdict(list)
        if n == len(c.prefix) and not c.is_empty():
            r[c.get_parameters(c.prefix)].append(W(c.prefix))
        return r

    def random_sample_object_of_size(self, c, n, **p):
        return W(c.prefix)

    def get_genf(self, c, funcs=None):
        r = sympy.var("x") ** len(c.prefix)
        for k, l, f in c.params:
            r *= sympy.var(k) ** stat(c.prefix, l, f)
        return r

    def pack(self, c):
        raise InvalidOperationError("no pack for atoms")

    @classmethod
    def from_dict(cls, d):
        return cls()

    def to_jsonable(self):
        d = super().to_jsonable()
        d.pop("ignore_parent")
        return d

    def __repr__(self):
        return "PAtom()"


class PrefVer(VerificationStrategy):
    """verifies the (non-atom, non-empty) classes whose prefix is listed; offers the basic pack to expand them"""

    def __init__(self, prefs, mode=""):
        self.prefs = tuple(prefs)
        self.mode = mode
        super().__init__()

    def verified(self, c):
        return not isinstance(c, SW) and (not c.just_prefix) and c.prefix in self.prefs and not c.is_empty()

    def formal_step(self):
        return "ver " + ",".join(self.prefs)

    def pack(self, c):
        # the first listed prefix (when there are several) is verified without a pack: one strategy, a pack for some
        # of its classes only
        if len(self.prefs) >= 2 and c.prefix == self.prefs[0]:
            raise InvalidOperationError("no pack for this class")
        return make_pack(mode=self.mode)

    def get_terms(self, c, n):
        return true_terms(c, n)

    def random_sample_object_of_size(self, c, n, **parameters):
        return _random.choice(sorted(c.objects_of_size(n, **parameters)))

    def get_genf(self, c, funcs=None):
        raise NotImplementedError("no closed form is offered for this class")

    def get_objects(self, c, n):
        return true_objects(c, n)

    @classmethod
    def from_dict(cls, d):
        return cls(d["prefs"], d.get("mode", ""))

    def to_jsonable(self):
        d = super().to_jsonable()
        d.pop("ignore_parent", None)
        d["prefs"] = list(self.prefs)
        d["mode"] = self.mode
        return d

    def __repr__(self):
        return f"PrefVer({self.prefs},{self.mode!r})"


class PackVer(VerificationStrategy):
    """like PrefVer, but counting, objects and sampling go through the library's defaults, i.e. through a specification
    found with the pack this strategy offers"""

    def __init__(self, prefs, mode=""):
        self.prefs = tuple(prefs)
        self.mode = mode
        super().__init__()

    def verified(self, c):
        return not isinstance(c, SW) and (not c.just_prefix) and c.prefix in self.prefs and not c.is_empty()

    def formal_step(self):
        return "packver " + ",".join(self.prefs)

    def pack(self, c):
        return make_pack(mode=self.mode)

    @classmethod
    def from_dict(cls, d):
        return cls(d["prefs"], d.get("mode", ""))

    def to_jsonable(self):
        d = super().to_jsonable()
        d.pop("ignore_parent", None)
        d["prefs"] = list(self.prefs)
        d["mode"] = self.mode
        return d

    def __repr__(self):
        return f"PackVer({self.prefs},{self.mode!r})"


class Known(VerificationStrategy):
    """classes with a listed prefix (full alphabet of size `nletters`, if given) have a known (brute-force)
    enumeration; "SW" in prefs makes the separator classes known; no pack"""

    def __init__(self, prefs, nletters=None):
        self.prefs = tuple(prefs)
        self.nletters = nletters
        super().__init__()

    def verified(self, c):
        if isinstance(c, SW):
            return "SW" in self.prefs
        if self.nletters is not None and len(c.alphabet) != self.nletters:
            return False
        return (not c.just_prefix) and c.prefix in self.prefs and not c.is_empty()

    def formal_step(self):
        return "known " + ",".join(map(repr, self.prefs))

    def get_terms(self, c, n):
        return true_terms(c, n)

    def random_sample_object_of_size(self, c, n, **parameters):
        return _random.choice(sorted(c.objects_of_size(n, **parameters)))

    def get_genf(self, c, funcs=None):
        raise NotImplementedError("no closed form is offered for this class")

    def get_objects(self, c, n):
        return true_objects(c, n)

    def pack(self, c):
        raise InvalidOperationError("no pack")

    @classmethod
    def from_dict(cls, d):
        return cls(d["prefs"], d.get("nletters"))

    def to_jsonable(self):
        d = super().to_jsonable()
        d.pop("ignore_parent", None)
        d["prefs"] = list(self.prefs)
        d["nletters"] = self.nletters
        return d

    def __repr__(self):
        return f"Known({self.prefs},{self.nletters})"


class DepVer(Known):
    """a verification strategy whose rule has a child: the verified class is declared to depend on the class of all
    words with its patterns (allowed by VerificationStrategy.decomposition_function)"""

    def decomposition_function(self, c):
        if self.verified(c):
            return (PW("", c.patterns, c.alphabet, False, ()),)
        return None

    def shifts(self, c, children=None):
        # one shift per child, as the forest's rule keys need (the default () is for rules without children)
        children = self.decomposition_function(c) if children is None else children
        return tuple(0 for _ in children or ())

    def formal_step(self):
        return "known, depending on the unrestricted class " + ",".join(map(repr, self.prefs))

    def __repr__(self):
        return f"DepVer({self.prefs},{self.nletters})"


class ParentExpansion(StrategyFactory):
    """for a class with a one-letter prefix, yield the expansion *rule* of the class with the empty prefix
    (a ready rule whose parent is not the expanded class)"""

    def __init__(self, mode=""):
        self.mode = mode

    def __call__(self, c):
        if not c.just_prefix and len(c.prefix) == 1:
            yield Expand(self.mode)(PW("", c.patterns, c.alphabet, False, c.params))

    def __str__(self):
        return "parent expansion"

    def __repr__(self):
        return f"ParentExpansion({self.mode!r})"

    @classmethod
    def from_dict(cls, d):
        return cls(d.get("mode", ""))

    def to_jsonable(self):
        d = super().to_jsonable()
        d["mode"] = self.mode
        return d


class SepParent(StrategyFactory):
    """for an empty-prefix class over at most two letters: yield the ready rules (foreign parents) that split the
    classes over one more letter: W' = V + S (SepUnion) and S = V x sep x W' (SepSplit)"""

    def __init__(self, mode="", both=True):
        self.mode = mode
        self.both = both

    def __call__(self, c):
        if not isinstance(c, SW) and not c.just_prefix and c.prefix == "" and len(c.alphabet) <= 2 and all(f == 0 for _, _, f in c.params):
            sep = "abc"[len(c.alphabet)]
            if sep in c.alphabet:
                return
            big = PW("", c.patterns, c.alphabet + (sep,), False, c.params)
            yield SepSplit(self.mode)(SW(c.patterns, c.alphabet, sep, c.params))
            if self.both:
                yield SepUnion(self.mode)(big)

    def __str__(self):
        return "sep parent"

    def __repr__(self):
        return f"SepParent({self.mode!r},{self.both})"

    @classmethod
    def from_dict(cls, d):
        return cls(d.get("mode", ""), d.get("both", True))

    def to_jsonable(self):
        d = super().to_jsonable()
        d["mode"] = self.mode
        d["both"] = self.both
        return d


class ExpandFactory(StrategyFactory):
    """yields the Expand strategy (a factory yielding strategies) and, for prefixes of length >= 2, also the ready
    expansion rule of the class with the last letter removed (foreign parent)"""

    def __init__(self, mode="", foreign=False, decoy=False):
        self.mode = mode
        self.foreign = foreign
        self.decoy = decoy  # first yield a strategy that does not apply to the class (the searcher tolerates that)

    def __call__(self, c):
        if self.decoy:
            yield Peel(self.mode, cut=99)
        if self.foreign and not c.just_prefix and len(c.prefix) >= 2:
            yield Expand(self.mode)(PW(c.prefix[:-1], c.patterns, c.alphabet, False, c.params))
        yield Expand(self.mode)

    def __str__(self):
        return "expand factory"

    def __repr__(self):
        return f"ExpandFactory({self.mode!r},{self.foreign}" + (",decoy=True)" if self.decoy else ")")

    @classmethod
    def from_dict(cls, d):
        return cls(d.get("mode", ""), d.get("foreign", False), d.get("decoy", False))

    def to_jsonable(self):
        d = super().to_jsonable()
        d["mode"] = self.mode
        d["foreign"] = self.foreign
        d["decoy"] = self.decoy
        return d


def make_pack(mode="", inferral=False, symmetry=False, iterative=False, factory=None, prefver=None, known=None,
              reverse_needed=False, name="upword", rot=False, sep=None, packver=None):
    """rot: add one-way Rot(1) and two-way Rot(2)/Rot(-1) unary strategies (cycles of one-way rules).
    sep: "plain" adds SepUnion/SepSplit; "reverse" additionally makes the full-alphabet class and the separator
    class known and withholds Expand/Peel, so that Av_A(P) is only reachable as a quotient (reverse rule)."""
    ver = [PAtom()]
    if prefver:
        ver.insert(0, PrefVer(prefver, mode))
    if packver:
        ver.insert(0, PackVer(packver, mode))
    if known is not None and sep != "reverse":
        ver.append(Known(known))
    if reverse_needed:
        exp = [[ParentExpansion(mode)]]
    elif factory == "plain":
        exp = [[ExpandFactory(mode, False)]]
    elif factory == "foreign":
        exp = [[ExpandFactory(mode, True)]]
    elif factory == "decoy":
        exp = [[ExpandFactory(mode, False, True)]]
    elif factory == "lookahead":
        exp = [[LookAhead(mode)]]
    else:
        exp = [[Expand(mode)]]
    init = [Peel(mode)]
    if rot == "two":  # two competing decompositions of every class
        exp = [[Expand(mode), Expand2(mode)]]
    elif rot == "mixed":  # union rule only for even prefixes, the two-letter expansion for all: classes with different sets of constructors
        exp = [[ExpandEven(mode), Expand2(mode)]]
    elif rot == "split":  # a restricted one-way relabelling first, the same relabelling two-way in the next expansion set: cycles closed by an equivalence
        exp = [[Rot(mode, 1, False, None, True)], [Rot(mode, 1, True, None, "only")]] + exp
    elif rot == "ne":
        exp = [[Rot(mode, 1, False), RotNE(mode, 2, True)]] + exp
    elif rot == "rev":  # a one-way relabelling that is nevertheless reversible (is_reversible and is_two_way disagree)
        exp = [[Rot(mode, 1, False, reversible=True), Rot(mode, 2, True)]] + exp
    elif rot == "ow":  # the rotation and its inverse, both one-way: overlapping cycles of one-way rules
        exp = [[Rot(mode, 1, False), Rot(mode, 2, False)]] + exp
    elif rot == "pad":  # relabellings written as unions with an empty first child: equivalences whose non-empty child is not child 0
        exp = [[RotPad(mode, 1, True)]] + exp  # no inverse relabelling in the pack: going back means walking the rule backwards
    elif rot == "perm":  # a rotation and a transposition of three letters: equivalence paths whose bijections do not commute
        exp = [[Rot(mode, 1, True), Rot(mode, 1, True, "bac")]] + exp
    elif rot:
        exp = [[Rot(mode, 1, False), Rot(mode, 2, True)]] + exp
    if sep == "plain":
        exp = [[SepUnion(mode), SepSplit(mode)]] + exp
    elif sep == "reverse":
        exp = [[SepParent(mode, True)]]
        init = []
        ver.append(Known(["", "SW"], nletters=known))
    return StrategyPack(
        initial_strats=init,
        inferral_strats=[Reduce()] if inferral else [],
        expansion_strats=exp,
        ver_strats=ver,
        name=name,
        symmetries=[Swap()] if symmetry else [],
        iterative=iterative,
    )


def rand_patterns(rnd, alpha, maxlen=4, maxn=3):
    return sorted({"".join(rnd.choice(alpha) for _ in range(rnd.randint(1, maxlen))) for _ in range(rnd.randint(1, maxn))})


PARAM_SETS = [
    [],
    [("k_0", "a", 0)],
    [("k_0", "a", 0), ("k_1", "b", 0)],
    [("k_0", "a", 0), ("k_1", "a", 1)],
    [("k_0", "a", 0), ("k_1", "a", 0), ("k_2", "b", 0)],
    [("k_0", "b", 1)],
]
MODES = ["", "rename", "merge", "merge rename", "drop", "drop merge rename", "drop rename last", "last merge", "track", "track rename last", "rename revnames", "revnames", "revnames revdict", "revdict", "rename revnames revdict"]
